//go:build verif

package main

// C14 – join-code lifetime and server limits.
//
// (a) session.Store in-process: concurrent short histories checked with porcupine
//     against a sequential model, join codes drawn from a 16-value space through the
//     verifhook override; expiry judged with call/return brackets only.
// (b) the real thruserv binary under small limits and with each limit at 0:
//     sequential fills and truly concurrent bursts of session creations and joins,
//     message size / rate probes, host-disconnect and expiry brackets.

import (
	"fmt"
	"os"
	"runtime"
	"sort"
	"strings"
	"sync"
	"sync/atomic"
	"time"

	"github.com/anishathalye/porcupine"

	"github.com/sheerbytes/sheerbytes/internal/session"
	"github.com/sheerbytes/sheerbytes/internal/verifhook"
	vk "github.com/sheerbytes/sheerbytes/internal/verifkit"
)

func init() { register("c14", runC14) }

// ---------------------------------------------------------------------------
// shared bookkeeping

type c14LimitStat struct {
	Rounds      int `json:"rounds"`
	Limit       int `json:"limit"`
	MaxObserved int `json:"max_observed"`
	Exceeded    int `json:"rounds_exceeded"`
	Attempts    int `json:"attempts"`
}

type c14Stats struct {
	mu      sync.Mutex
	limits  map[string]*c14LimitStat
	samples map[string][]any
	counts  map[string]int
}

func newC14Stats() *c14Stats {
	return &c14Stats{limits: map[string]*c14LimitStat{}, samples: map[string][]any{}, counts: map[string]int{}}
}

func (s *c14Stats) limit(name string, limit, observed, attempts int) {
	s.mu.Lock()
	defer s.mu.Unlock()
	if !strings.Contains(name, "-rate(") {
		name = fmt.Sprintf("%s@%d", name, limit) // configurations with different values are kept apart
	}
	l := s.limits[name]
	if l == nil {
		l = &c14LimitStat{}
		s.limits[name] = l
	}
	l.Rounds++
	l.Limit = limit
	l.Attempts += attempts
	if observed > l.MaxObserved {
		l.MaxObserved = observed
	}
	if limit > 0 && observed > limit {
		l.Exceeded++
	}
}

func (s *c14Stats) count(name string, n int) {
	s.mu.Lock()
	s.counts[name] += n
	s.mu.Unlock()
}

func (s *c14Stats) max(name string, v int) {
	s.mu.Lock()
	if v > s.counts[name] {
		s.counts[name] = v
	}
	s.mu.Unlock()
}

func (s *c14Stats) get(name string) int {
	s.mu.Lock()
	defer s.mu.Unlock()
	return s.counts[name]
}

func (s *c14Stats) sample(kind string, v any) {
	s.mu.Lock()
	if len(s.samples[kind]) < 2 {
		s.samples[kind] = append(s.samples[kind], v)
	}
	s.mu.Unlock()
}

type c14Run struct {
	e  *Env
	st *c14Stats
}

func runC14(e *Env) {
	x := &c14Run{e: e, st: newC14Stats()}
	e.R.Rule = "(a) seeded scripts of 4-8 clients x <=40 ops (Create/GetByJoinCode/Delete/Count) run concurrently against session.Store with join codes overridden to a 16-value space; a history counts when >= 2 operations of different clients overlapped in time (distinct by script hash); TTL-50ms rounds judged by brackets; collision histories (scripted shapes + seeded random) on a Store with a 50 ms lifetime where a Create's first drawn code belongs to a live / expired-unreaped / expired-looked-up / reaped session and the harness reaps the old holder, a history counts when >= 1 lookup got a must-find / must-fail verdict (distinct by shape / by op list); " +
		"(b) rounds against the real thruserv (fresh server per round) = (limit configuration, scenario, burst size, prefill/variant); a round counts when it reached its verdict (distinct by that tuple); includes receiver-limit and host-left / expiry rounds after scripted histories with duplicate peer ids (same id reconnects, a receiver presents another receiver's or the host's id, the host reconnects; and with the session filled up to its receiver limit first: a role=receiver connection presents the host's id, the id of a second sender-role connection - once, repeatedly, as a burst -, a live or departed receiver's id), message-size rounds per wire form of the sender (default framing / continuation frames of <= 64 bytes / permessage-deflate offered in the handshake with compressible and with hardly compressible content / both), with a limit and with the limit at 0, join-code collision rounds (dictated draws, holder state) and first-burst rounds (fresh source addresses whose very first requests are a start-barrier burst)"
	x.partStore()
	x.partStoreExpiry()
	x.partStoreCollide()
	x.partServer()

	// samples: one per kind first, so that the few kept ones are diverse
	order := []string{"history", "store-expiry", "store-collision", "collide", "dupid-recv", "dupid-recv-full", "dupid-hostleft", "first-burst-session-creates", "first-burst-ws-connects", "sessions", "receivers", "hostleft", "expiry", "msgsize", "msgsize-wire", "msgsize-deflate-offered", "msgrate", "wsconns", "iprate", "rate-ws-msgs", "rate-session-creates", "rate-ws-connects"}
	for pass := 0; pass < 2; pass++ {
		for _, k := range order {
			if len(x.st.samples[k]) > pass {
				e.R.Sample(x.st.samples[k][pass])
			}
		}
	}
	x.st.mu.Lock()
	e.R.SetExtra("observed_cases", x.st.samples)
	e.R.SetExtra("limits_observed_vs_limit", x.st.limits)
	e.R.SetExtra("c14_counts", x.st.counts)
	c14RateStats.mu.Lock()
	e.R.SetExtra("rate_limiters_sliding_window", c14RateStats.m)
	c14RateStats.mu.Unlock()
	x.st.mu.Unlock()
}

// ---------------------------------------------------------------------------
// Part (a): Store histories + porcupine

type c14In struct {
	Op   byte   // 'C' create, 'G' get by code, 'D' delete, 'N' count
	Code string // G
	ID   string // D (alias)
}

type c14Out struct {
	ID    string // alias of the session id (C, G when found)
	Code  string // C
	Found bool   // G
	N     int    // N
}

func c14Describe(in, out any) string {
	i, o := in.(c14In), out.(c14Out)
	switch i.Op {
	case 'C':
		return fmt.Sprintf("Create() -> {id:%s code:%s}", o.ID, o.Code)
	case 'G':
		if o.Found {
			return fmt.Sprintf("Get(%s) -> %s", i.Code, o.ID)
		}
		return fmt.Sprintf("Get(%s) -> not found", i.Code)
	case 'D':
		return fmt.Sprintf("Delete(%s)", i.ID)
	default:
		return fmt.Sprintf("Count() -> %d", o.N)
	}
}

// state: sorted "code=id" items joined by ';' (string, so == is state equality)
func c14StateItems(s string) []string {
	if s == "" {
		return nil
	}
	return strings.Split(s, ";")
}

var c14Model = porcupine.Model{
	Init: func() interface{} { return "" },
	Step: func(state, input, output interface{}) (bool, interface{}) {
		st := state.(string)
		in, out := input.(c14In), output.(c14Out)
		items := c14StateItems(st)
		switch in.Op {
		case 'C':
			for _, it := range items {
				eq := strings.IndexByte(it, '=')
				if it[:eq] == out.Code || it[eq+1:] == out.ID {
					return false, st
				}
			}
			n := append(append([]string{}, items...), out.Code+"="+out.ID)
			sort.Strings(n)
			return true, strings.Join(n, ";")
		case 'G':
			for _, it := range items {
				eq := strings.IndexByte(it, '=')
				if it[:eq] == in.Code {
					return out.Found && out.ID == it[eq+1:], st
				}
			}
			return !out.Found, st
		case 'D':
			for k, it := range items {
				eq := strings.IndexByte(it, '=')
				if it[eq+1:] == in.ID {
					n := append(append([]string{}, items[:k]...), items[k+1:]...)
					return true, strings.Join(n, ";")
				}
			}
			return true, st
		default:
			return out.N == len(items), st
		}
	},
	DescribeOperation: c14Describe,
	DescribeState:     func(s interface{}) string { return "{" + s.(string) + "}" },
}

type c14ScriptOp struct {
	Op  byte
	Arg int
}

const c14Alphabet = "ABCD" // 2 letters over 4 symbols = 16 codes

func c14CodeOf(v uint64) string {
	return string([]byte{c14Alphabet[v%4], c14Alphabet[(v>>8)%4]})
}

const c14MaxCreates = 12 // < 16: Create's retry loop spins forever once every code is live

func c14GenScript(r *vk.Rng) [][]c14ScriptOp {
	clients := 4 + r.Intn(5)
	total := 16 + r.Intn(25)
	if total < clients {
		total = clients
	}
	per := make([][]c14ScriptOp, clients)
	creates := 0
	for i := 0; i < total; i++ {
		c := i % clients
		var op c14ScriptOp
		switch p := r.Intn(100); {
		case p < 34 && creates < c14MaxCreates:
			op.Op = 'C'
			creates++
		case p < 66:
			op.Op = 'G'
			op.Arg = r.Intn(1 << 16)
		case p < 90:
			op.Op = 'D'
			op.Arg = r.Intn(1 << 16)
		default:
			op.Op = 'N'
		}
		per[c] = append(per[c], op)
	}
	return per
}

func c14ScriptString(s [][]c14ScriptOp) string {
	var sb strings.Builder
	for _, c := range s {
		for _, o := range c {
			sb.WriteByte(o.Op)
			if o.Op == 'G' || o.Op == 'D' {
				fmt.Fprintf(&sb, "%d", o.Arg)
			}
		}
		sb.WriteByte('|')
	}
	return sb.String()
}

type c14Barrier struct {
	n       int32
	arrived atomic.Int32
	armed   chan struct{}
	open    atomic.Bool
}

func newC14Barrier(n int) *c14Barrier { return &c14Barrier{n: int32(n), armed: make(chan struct{})} }

// wait blocks until every party has arrived, then spins (for a few hundred microseconds at
// most) on a flag so that all parties leave within the same instant.
func (b *c14Barrier) wait() {
	b.arrived.Add(1)
	<-b.armed
	for !b.open.Load() {
		runtime.Gosched()
	}
}

// release opens the barrier once all n parties arrived (or after a timeout).
func (b *c14Barrier) release() {
	deadline := time.Now().Add(15 * time.Second)
	for b.arrived.Load() < b.n && time.Now().Before(deadline) {
		time.Sleep(200 * time.Microsecond)
	}
	close(b.armed)
	time.Sleep(300 * time.Microsecond) // parties wake up and reach the spin
	b.open.Store(true)
}

type c14History struct {
	Ops     []porcupine.Operation
	Overlap int
	Creates int
	// for the direct checks
	sessions []c14SessRec
	live     map[string]string // alias -> code, at quiescence (by construction: created and never a delete target)
	quiesce  []string          // mismatches found at quiescence
}

type c14SessRec struct {
	Alias, Code string
	Call, Ret   int64
	FirstDelete int64 // earliest call time of a Delete targeting it (0 = none)
}

// c14RunHistory executes one script against a fresh TTL-0 store.
func c14RunHistory(script [][]c14ScriptOp) *c14History {
	store := session.NewStore(0)
	h := &c14History{live: map[string]string{}}
	var mu sync.Mutex
	alias := map[string]string{} // real id -> alias
	var ids []string             // real ids in creation order
	var recs = map[string]*c14SessRec{}
	bar := newC14Barrier(len(script))
	var wg sync.WaitGroup
	perClient := make([][]porcupine.Operation, len(script))
	for ci := range script {
		wg.Add(1)
		go func(ci int) {
			defer wg.Done()
			var ops []porcupine.Operation
			bar.wait()
			for _, so := range script[ci] {
				switch so.Op {
				case 'C':
					call := c14Now()
					s := store.Create()
					ret := c14Now()
					mu.Lock()
					a, dup := alias[s.ID]
					if !dup {
						a = fmt.Sprintf("s%d", len(alias)+1)
						alias[s.ID] = a
						ids = append(ids, s.ID)
						recs[a] = &c14SessRec{Alias: a, Code: s.JoinCode, Call: call, Ret: ret}
					}
					mu.Unlock()
					ops = append(ops, porcupine.Operation{ClientId: ci, Input: c14In{Op: 'C'}, Call: call, Output: c14Out{ID: a, Code: s.JoinCode}, Return: ret})
				case 'G':
					code := c14CodeOf(uint64(so.Arg))
					call := c14Now()
					s, ok := store.GetByJoinCode(code)
					ret := c14Now()
					out := c14Out{Found: ok}
					if ok {
						mu.Lock()
						a, known := alias[s.ID]
						mu.Unlock()
						if !known {
							// the Create that produced it has not recorded its alias yet: wait for it
							for k := 0; k < 2000 && !known; k++ {
								time.Sleep(50 * time.Microsecond)
								mu.Lock()
								a, known = alias[s.ID]
								mu.Unlock()
							}
							if !known {
								a = "unknown:" + s.ID
							}
						}
						out.ID = a
						if s.JoinCode != code {
							out.ID = a + "(code " + s.JoinCode + ")" // a session returned under a foreign code can never match the model
						}
					}
					ops = append(ops, porcupine.Operation{ClientId: ci, Input: c14In{Op: 'G', Code: code}, Call: call, Output: out, Return: ret})
				case 'D':
					mu.Lock()
					var real, a string
					if len(ids) == 0 || so.Arg%7 == 0 {
						real, a = fmt.Sprintf("bogus-%d", so.Arg), fmt.Sprintf("bogus-%d", so.Arg)
					} else {
						real = ids[so.Arg%len(ids)]
						a = alias[real]
					}
					mu.Unlock()
					call := c14Now()
					mu.Lock()
					if r := recs[a]; r != nil && (r.FirstDelete == 0 || call < r.FirstDelete) {
						r.FirstDelete = call
					}
					mu.Unlock()
					call2 := c14Now()
					_ = call2
					store.Delete(real)
					ret := c14Now()
					ops = append(ops, porcupine.Operation{ClientId: ci, Input: c14In{Op: 'D', ID: a}, Call: call, Output: c14Out{}, Return: ret})
				default:
					call := c14Now()
					n := store.Count()
					ret := c14Now()
					ops = append(ops, porcupine.Operation{ClientId: ci, Input: c14In{Op: 'N'}, Call: call, Output: c14Out{N: n}, Return: ret})
				}
			}
			perClient[ci] = ops
		}(ci)
	}
	bar.release()
	wg.Wait()
	for _, ops := range perClient {
		h.Ops = append(h.Ops, ops...)
	}
	sort.SliceStable(h.Ops, func(i, j int) bool { return h.Ops[i].Call < h.Ops[j].Call })
	// overlapping pairs of different clients
	for i := range h.Ops {
		for j := i + 1; j < len(h.Ops) && h.Ops[j].Call <= h.Ops[i].Return; j++ {
			if h.Ops[j].ClientId != h.Ops[i].ClientId {
				h.Overlap++
			}
		}
	}
	// quiescent state: created and never targeted by a Delete
	for _, id := range ids {
		r := recs[alias[id]]
		h.sessions = append(h.sessions, *r)
		h.Creates++
		if r.FirstDelete == 0 {
			h.live[r.Alias] = r.Code
		}
	}
	if n := store.Count(); n != len(h.live) {
		h.quiesce = append(h.quiesce, fmt.Sprintf("Count()=%d at quiescence, %d sessions were created and never deleted", n, len(h.live)))
	}
	for _, id := range ids {
		r := recs[alias[id]]
		s, ok := store.GetByJoinCode(r.Code)
		if r.FirstDelete == 0 {
			if !ok || s.ID != id {
				got := "not found"
				if ok {
					got = alias[s.ID]
				}
				h.quiesce = append(h.quiesce, fmt.Sprintf("live session %s (code %s) is not reachable by its code at quiescence: lookup gave %s", r.Alias, r.Code, got))
			}
		} else if ok && s.ID == id {
			h.quiesce = append(h.quiesce, fmt.Sprintf("deleted session %s still reachable by code %s", r.Alias, r.Code))
		}
	}
	return h
}

// duplicateLive returns pairs of sessions with equal codes that were both certainly live
// at some instant: [create-return, first delete call) intervals intersect.
func (h *c14History) duplicateLive() []string {
	var out []string
	const inf = int64(1) << 62
	for i := range h.sessions {
		for j := i + 1; j < len(h.sessions); j++ {
			a, b := h.sessions[i], h.sessions[j]
			if a.Code != b.Code {
				continue
			}
			ea, eb := a.FirstDelete, b.FirstDelete
			if ea == 0 {
				ea = inf
			}
			if eb == 0 {
				eb = inf
			}
			lo, hi := a.Ret, ea
			if b.Ret > lo {
				lo = b.Ret
			}
			if eb < hi {
				hi = eb
			}
			if lo < hi {
				out = append(out, fmt.Sprintf("%s and %s both carry code %s while both live", a.Alias, b.Alias, a.Code))
			}
		}
	}
	return out
}

func c14OpsStrings(ops []porcupine.Operation) []string {
	var out []string
	for _, o := range ops {
		out = append(out, fmt.Sprintf("c%d [%d,%d] %s", o.ClientId, o.Call, o.Return, c14Describe(o.Input, o.Output)))
	}
	return out
}

func (x *c14Run) partStore() {
	e := x.e
	n := e.Pick(1000, 20000)
	rng := vk.NewRng(e.Seed ^ vk.HashStr("c14"+e.Tier))
	scripts := make([][][]c14ScriptOp, n)
	for i := range scripts {
		scripts[i] = c14GenScript(rng)
	}
	var draws atomic.Int64
	var ctr atomic.Uint64
	codeSeed := e.Seed ^ vk.HashStr("c14codes")
	verifhook.SetOverride("session.joincode", func() (string, bool) {
		draws.Add(1)
		v := vk.Mix(codeSeed ^ ctr.Add(1))
		if v&0x30000 == 0 {
			runtime.Gosched() // vary the schedule (also inside the retry loop, i.e. under the store's lock)
		}
		return c14CodeOf(v >> 20), true
	})
	defer verifhook.SetOverride("session.joincode", nil)

	hists := make([]*c14History, n)
	// histories run a few at a time (each has 4-8 goroutines of its own); checking is parallel afterwards
	vk.ParallelDo(n, 3, func(i int) { hists[i] = c14RunHistory(scripts[i]) })
	totalDraws := int(draws.Load())
	verifhook.SetOverride("session.joincode", nil)

	var totalOps, totalCreates, totalOverlap, okN, unknownN, nontrivial int64
	var maxLive int64
	vk.ParallelDo(n, 16, func(i int) {
		h := hists[i]
		e.R.Eval()
		atomic.AddInt64(&totalOps, int64(len(h.Ops)))
		atomic.AddInt64(&totalCreates, int64(h.Creates))
		atomic.AddInt64(&totalOverlap, int64(h.Overlap))
		for {
			m := atomic.LoadInt64(&maxLive)
			if int64(len(h.live)) <= m || atomic.CompareAndSwapInt64(&maxLive, m, int64(len(h.live))) {
				break
			}
		}
		caseSpec := map[string]any{"part": "store-history", "index": i, "script": c14ScriptString(scripts[i])}
		res := porcupine.CheckOperationsTimeout(c14Model, h.Ops, 20*time.Second)
		switch res {
		case porcupine.Ok:
			atomic.AddInt64(&okN, 1)
		case porcupine.Unknown:
			atomic.AddInt64(&unknownN, 1)
			e.R.Inconcl(fmt.Sprintf("porcupine timed out on history %d (%d ops)", i, len(h.Ops)))
		case porcupine.Illegal:
			e.R.Violate("store:nonlinearizable", fmt.Sprintf("session.Store history of %d operations by %d clients is not linearizable w.r.t. the sequential model (live set of {id, code}; Create must return a code and id that are not live)", len(h.Ops), len(scripts[i])),
				caseSpec, map[string]any{"history": c14OpsStrings(h.Ops)})
		}
		if d := h.duplicateLive(); len(d) > 0 {
			e.R.Violate("joincode:duplicate-live", "two live sessions of one store carry the same join code: "+d[0], caseSpec, map[string]any{"pairs": d, "history": c14OpsStrings(h.Ops)})
		}
		if len(h.quiesce) > 0 {
			e.R.Violate("store:quiescent-mismatch", "store contents at quiescence differ from created-minus-deleted: "+h.quiesce[0], caseSpec, map[string]any{"mismatches": h.quiesce, "history": c14OpsStrings(h.Ops)})
		}
		if h.Overlap >= 1 {
			atomic.AddInt64(&nontrivial, 1)
			e.R.Distinct(fmt.Sprintf("hist:%016x", vk.HashStr(c14ScriptString(scripts[i]))))
		}
		if i < 2 {
			ops := c14OpsStrings(h.Ops)
			if len(ops) > 14 {
				ops = ops[:14]
			}
			x.st.sample("history", map[string]any{"part": "store-history", "clients": len(scripts[i]), "ops": len(h.Ops), "overlapping_pairs": h.Overlap, "creates": h.Creates, "live_at_end": len(h.live), "porcupine": string(res), "first_ops": ops})
		}
	})
	retries := totalDraws - int(totalCreates)
	e.R.SetExtra("store_histories", map[string]any{
		"histories": n, "porcupine_ok": okN, "porcupine_unknown": unknownN, "operations_checked": totalOps,
		"creates": totalCreates, "code_draws": totalDraws, "retry_loop_iterations(=collisions forced)": retries,
		"overlapping_op_pairs": totalOverlap, "histories_with_overlap": nontrivial, "max_live_at_quiescence": maxLive, "code_space": 16,
	})
	x.st.count("store_histories_ok", int(okN))
	e.R.Require(okN >= int64(n*9/10), fmt.Sprintf("porcupine decided only %d of %d histories", okN, n))
	e.R.Require(nontrivial >= int64(n/2), fmt.Sprintf("only %d of %d histories had overlapping operations", nontrivial, n))
	e.R.Require(retries >= n/2, fmt.Sprintf("retry loop of Create exercised only %d times", retries))
}

// partStoreExpiry: TTL 50 ms, brackets only.
func (x *c14Run) partStoreExpiry() {
	e := x.e
	rounds := e.Pick(60, 1000)
	const ttl = 50 * time.Millisecond
	rng := vk.NewRng(e.Seed ^ vk.HashStr("c14exp"+e.Tier))
	seeds := make([]uint64, rounds)
	for i := range seeds {
		seeds[i] = rng.U64()
	}
	var mustOK, mustFail, noVerdict int64
	vk.ParallelDo(rounds, 6, func(ri int) {
		e.R.Eval()
		r := vk.NewRng(seeds[ri])
		store := session.NewStore(ttl)
		type sess struct {
			code      string
			call, ret int64
		}
		var ss []sess
		for k := 0; k < 4; k++ {
			call := c14Now()
			s := store.Create()
			ret := c14Now()
			ss = append(ss, sess{s.JoinCode, call, ret})
		}
		type look struct {
			Sess       int    `json:"sess"`
			Start, End int64  `json:"-"`
			Found      bool   `json:"found"`
			Verdict    string `json:"verdict"`
			RelStartUs int64  `json:"start_us_after_create_call"`
			RelEndUs   int64  `json:"end_us_after_create_call"`
		}
		var mu sync.Mutex
		var looks []look
		var wg sync.WaitGroup
		for g := 0; g < 6; g++ {
			gr := r.Fork()
			wg.Add(1)
			go func() {
				defer wg.Done()
				// each goroutine looks up each session once, at a seeded offset in [0, 2*ttl), dense around ttl;
				// the first successful lookup after expiry deletes the entry, so one lookup per (goroutine, session)
				type plan struct {
					k  int
					at time.Duration
				}
				var pl []plan
				for k := range ss {
					var at time.Duration
					switch gr.Intn(3) {
					case 0:
						at = time.Duration(gr.Intn(int(ttl) * 8 / 10))
					case 1:
						at = ttl - 3*time.Millisecond + time.Duration(gr.Intn(int(6*time.Millisecond)))
					default:
						at = ttl + time.Duration(gr.Intn(int(ttl)))
					}
					pl = append(pl, plan{k, at})
				}
				sort.Slice(pl, func(i, j int) bool { return pl[i].at < pl[j].at })
				for _, p := range pl {
					target := ss[p.k].call + int64(p.at)
					if d := target - c14Now(); d > 0 {
						time.Sleep(time.Duration(d))
					}
					st := c14Now()
					_, ok := store.GetByJoinCode(ss[p.k].code)
					en := c14Now()
					mu.Lock()
					looks = append(looks, look{Sess: p.k, Start: st, End: en, Found: ok})
					mu.Unlock()
				}
			}()
		}
		wg.Wait()
		var samp []look
		perVerdict := map[string]int{}
		for i := range looks {
			l := &looks[i]
			s := ss[l.Sess]
			l.RelStartUs, l.RelEndUs = (l.Start-s.call)/1000, (l.End-s.call)/1000
			caseSpec := map[string]any{"part": "store-expiry", "round": ri, "ttl_ms": 50, "lookup": l}
			switch {
			case l.End < s.call+int64(ttl):
				l.Verdict = "must-succeed"
				atomic.AddInt64(&mustOK, 1)
				if !l.Found {
					e.R.Violate("joincode:refused-inside-lifetime:store", fmt.Sprintf("GetByJoinCode completed %d us after the Create call (TTL 50 ms) and reported not-found", l.RelEndUs), caseSpec, nil)
				}
			case l.Start > s.ret+int64(ttl):
				l.Verdict = "must-fail"
				atomic.AddInt64(&mustFail, 1)
				if l.Found {
					e.R.Violate("joincode:admitted-after-expiry:store", fmt.Sprintf("GetByJoinCode started %d us after the Create call, i.e. after create-return + TTL (50 ms), and still returned the session", l.RelStartUs), caseSpec, nil)
				}
			default:
				l.Verdict = "no-verdict"
				atomic.AddInt64(&noVerdict, 1)
				e.R.NoVerd()
			}
			perVerdict[l.Verdict]++
			if perVerdict[l.Verdict] <= 3 {
				samp = append(samp, *l)
			}
		}
		e.R.Distinct(fmt.Sprintf("store-expiry:%d", ri))
		if ri == 0 {
			x.st.sample("store-expiry", map[string]any{"part": "store-expiry", "ttl_ms": 50, "sessions": len(ss), "lookups": len(looks), "some_lookups": samp})
		}
	})
	e.R.SetExtra("store_expiry_brackets", map[string]any{"rounds": rounds, "ttl_ms": 50, "verdict_must_succeed": mustOK, "verdict_must_fail": mustFail, "no_verdict": noVerdict})
	e.R.Require(mustOK >= int64(rounds) && mustFail >= int64(rounds), fmt.Sprintf("store expiry brackets decided too little: %d must-succeed, %d must-fail", mustOK, mustFail))
}

// ---------------------------------------------------------------------------
// Part (b): the real thruserv

type c14Cfg struct {
	Name        string        `json:"name"`
	MaxSessions int           `json:"max_sessions"`
	MaxRecv     int           `json:"max_receivers_per_sender"`
	MaxWS       int           `json:"max_ws_connections"`
	MaxBytes    int           `json:"max_message_bytes"`
	MsgRate     int           `json:"ws_msgs_per_sec"`
	MsgBurst    int           `json:"ws_msgs_burst"`
	SessPerMin  int           `json:"session_creates_per_min"`
	SessBurst   int           `json:"session_creates_burst"`
	ConnPerMin  int           `json:"ws_connects_per_min"`
	ConnBurst   int           `json:"ws_connects_burst"`
	Timeout     time.Duration `json:"session_timeout_ns"`
}

func (c c14Cfg) flags() []string {
	return []string{
		"--max-sessions", fmt.Sprint(c.MaxSessions),
		"--max-receivers-per-sender", fmt.Sprint(c.MaxRecv),
		"--max-ws-connections", fmt.Sprint(c.MaxWS),
		"--max-message-bytes", fmt.Sprint(c.MaxBytes),
		"--ws-msgs-per-sec", fmt.Sprint(c.MsgRate),
		"--ws-msgs-burst", fmt.Sprint(c.MsgBurst),
		"--session-creates-per-min", fmt.Sprint(c.SessPerMin),
		"--session-creates-burst", fmt.Sprint(c.SessBurst),
		"--ws-connects-per-min", fmt.Sprint(c.ConnPerMin),
		"--ws-connects-burst", fmt.Sprint(c.ConnBurst),
		"--session-timeout", c.Timeout.String(),
	}
}

// c14Small is the design's small-limits configuration; per-IP rates are off (0) so that
// every refusal is attributable to exactly one limit.
func c14Small() c14Cfg {
	return c14Cfg{Name: "small", MaxSessions: 3, MaxRecv: 2, MaxWS: 5, MaxBytes: 1024, MsgRate: 5, MsgBurst: 10,
		SessPerMin: 0, SessBurst: 5, ConnPerMin: 0, ConnBurst: 10, Timeout: 2 * time.Second}
}

type c14Round struct {
	ID      string         `json:"id"`
	Cfg     c14Cfg         `json:"cfg"`
	Kind    string         `json:"kind"`
	N       int            `json:"n"`
	Prefill int            `json:"prefill,omitempty"`
	Variant string         `json:"variant,omitempty"`
	Seed    uint64         `json:"seed"`
	Phases  []c14RatePhase `json:"phases,omitempty"` // rate-* rounds: the idle/burst history (c14rate.go)
}

func (r c14Round) key() string {
	return fmt.Sprintf("%s/%s/n%d/p%d/%s", r.Cfg.Name, r.Kind, r.N, r.Prefill, r.Variant)
}

func c14GenRounds(e *Env) []c14Round {
	rng := vk.NewRng(e.Seed ^ vk.HashStr("c14serv"+e.Tier))
	var out []c14Round
	add := func(cfg c14Cfg, kind string, n, prefill int, variant string) {
		out = append(out, c14Round{Cfg: cfg, Kind: kind, N: n, Prefill: prefill, Variant: variant, Seed: rng.U64()})
	}
	ns := []int{16, 32, 64}
	small := c14Small()
	zs, zr, zw, zb, zm, zt := small, small, small, small, small, small
	zs.Name, zs.MaxSessions = "zero-max-sessions", 0
	zr.Name, zr.MaxRecv, zr.MaxWS = "zero-max-receivers", 0, 80
	zw.Name, zw.MaxWS = "zero-max-ws-connections", 0
	zb.Name, zb.MaxBytes = "zero-max-message-bytes", 0
	zm.Name, zm.MsgRate = "zero-ws-msgs-per-sec", 0
	zt.Name, zt.Timeout = "zero-session-timeout", 0
	ipr := small
	ipr.Name, ipr.SessPerMin, ipr.SessBurst, ipr.ConnPerMin, ipr.ConnBurst = "ip-rates", 120, 3, 180, 4
	recvOnly := small
	recvOnly.Name, recvOnly.MaxWS = "receivers-only", 80

	mult := e.Pick(2, 40)
	for m := 0; m < mult; m++ {
		// clean classes first: sequential fills, connection limiter, size / rate probes, lifetime brackets
		for k := 0; k < 2; k++ {
			add(small, "sessions", small.MaxSessions+3, 0, "seq")
			add(small, "receivers", small.MaxRecv+3, 0, "seq")
			add(small, "wsconns", small.MaxWS+4, 0, "seq")
		}
		for k := 0; k < 8; k++ {
			add(small, "wsconns", ns[rng.Intn(3)], 0, "burst")
		}
		for k := 0; k < 4; k++ {
			add(small, "msgsize", 0, 0, "")
			add(small, "msgrate", 40, 0, "")
		}
		for k := 0; k < 8; k++ {
			add(small, "hostleft", 6+rng.Intn(8), 0, "graceful")
		}
		for k := 0; k < 4; k++ {
			add(small, "hostleft", 6+rng.Intn(8), 0, "abrupt")
		}
		for k := 0; k < 6; k++ {
			add(small, "expiry", 0, 0, []string{"host", "nohost"}[k%2])
		}
		// concurrent bursts against the check-then-act limits (sampled)
		for k := 0; k < 6; k++ {
			add(small, "sessions", ns[k%3], []int{0, small.MaxSessions - 1}[(k/3+k)%2], "burst")
		}
		for k := 0; k < 4; k++ {
			add(small, "receivers", ns[k%3], 0, "burst")
		}
		add(recvOnly, "receivers", 32, 0, "burst")
		add(recvOnly, "receivers", 64, 0, "burst")
		add(recvOnly, "receivers", recvOnly.MaxRecv+3, 0, "seq")
		// each limit at 0
		add(zs, "sessions", 64, 0, "burst")
		add(zs, "sessions", 24, 0, "seq")
		add(zr, "receivers", 32, 0, "burst")
		add(zr, "receivers", 12, 0, "seq")
		add(zw, "wsconns", 32, 0, "burst")
		add(zw, "wsconns", 12, 0, "seq")
		add(zb, "msgsize", 0, 0, "")
		add(zb, "msgsize", 0, 0, "")
		add(zm, "msgrate", 60, 0, "")
		add(zm, "msgrate", 120, 0, "")
		add(zt, "expiry", 0, 0, "host")
		add(zt, "expiry", 0, 0, "nohost")
		// per-IP token buckets
		for k := 0; k < 3; k++ {
			add(ipr, "sessions", 24, 0, "burst")
			add(ipr, "iprate-ws", 24, 0, "burst")
		}
	}
	if e.Thorough() {
		// further configurations drawn from the seed
		for c := 0; c < 8; c++ {
			v := small
			v.Name = fmt.Sprintf("var%d", c)
			v.MaxSessions = 1 + rng.Intn(6)
			v.MaxRecv = 1 + rng.Intn(4)
			v.MaxWS = 3 + rng.Intn(8)
			v.MaxBytes = []int{256, 512, 4096, 16384}[rng.Intn(4)]
			v.MsgRate = 2 + rng.Intn(20)
			v.MsgBurst = 3 + rng.Intn(12)
			v.Timeout = time.Duration(1000+rng.Intn(2000)) * time.Millisecond
			for k := 0; k < 2; k++ {
				add(v, "sessions", v.MaxSessions+3, 0, "seq")
				add(v, "receivers", v.MaxRecv+3, 0, "seq")
				add(v, "wsconns", v.MaxWS+4, 0, "seq")
				add(v, "sessions", ns[rng.Intn(3)], []int{0, v.MaxSessions - 1}[k], "burst")
				add(v, "receivers", ns[rng.Intn(3)], 0, "burst")
				add(v, "msgsize", 0, 0, "")
				add(v, "msgrate", v.MsgBurst+30, 0, "")
				add(v, "expiry", 0, 0, []string{"host", "nohost"}[k])
			}
			for k := 0; k < 6; k++ {
				add(v, "wsconns", ns[rng.Intn(3)], 0, "burst")
				add(v, "hostleft", 6+rng.Intn(8), 0, []string{"graceful", "graceful", "abrupt"}[k%3])
			}
		}
	}
	// token-bucket limiters under idle-then-burst histories (c14rate.go)
	out = append(out, c14GenRateRounds(e)...)
	// the same limiters under concurrent first requests of fresh addresses (c14first.go)
	out = append(out, c14GenFirstRounds(e)...)
	// join-code collisions with live / expired / reaped holders inside the real server (c14coll.go)
	out = append(out, c14GenCollideRounds(e)...)
	// message-size limit against senders that choose another wire form for their messages (c14life.go)
	out = append(out, c14GenWireRounds(e)...)
	// receiver limit and host-left / expiry brackets under histories with duplicate peer ids (c14dup.go)
	out = append(out, c14GenDupRounds(e)...)
	for i := range out {
		out[i].ID = fmt.Sprintf("c14-%04d", i)
	}
	return out
}

func (x *c14Run) partServer() {
	e := x.e
	rounds := c14GenRounds(e)
	var sleepy, busy, rate, first []c14Round
	cfgs := map[string]bool{}
	only := os.Getenv("VERIF_C14_KINDS") // debugging aid: comma-separated round kinds
	for _, r := range rounds {
		if only != "" && !strings.Contains(","+only+",", ","+r.Kind+",") {
			continue
		}
		cfgs[r.Cfg.Name] = true
		if r.Kind == "expiry" || r.Kind == "collide" || r.Kind == "dupid-hostleft" {
			sleepy = append(sleepy, r)
		} else if strings.HasPrefix(r.Kind, "rate-first-") {
			first = append(first, r)
		} else if strings.HasPrefix(r.Kind, "rate-") {
			rate = append(rate, r)
		} else {
			busy = append(busy, r)
		}
	}
	var wg sync.WaitGroup
	wg.Add(2)
	go func() { defer wg.Done(); vk.ParallelDo(len(sleepy), 8, func(i int) { x.runRound(sleepy[i]) }) }()
	go func() { defer wg.Done(); vk.ParallelDo(len(busy), 5, func(i int) { x.runRound(busy[i]) }) }()
	wg.Wait()
	// the rate-limiter histories run after the connection bursts above, not among them: their bound is
	// sound under any load, but the tighter a burst is the smaller an over-admission it can show
	vk.ParallelDo(len(rate), 8, func(i int) { x.runRound(rate[i]) })
	// first-burst rounds: 16-32 goroutines each that must leave a barrier together - two rounds at a time
	vk.ParallelDo(len(first), 2, func(i int) { x.runRound(first[i]) })
	e.R.SetExtra("server_rounds", map[string]any{"rounds": len(rounds), "configurations": len(cfgs), "decided": x.st.get("rounds_decided")})
	// minimum observations
	for _, k := range []string{"sessions:burst", "receivers:burst", "wsconns:burst", "sessions:seq", "receivers:seq", "wsconns:seq", "msgsize", "msgrate", "hostleft", "expiry"} {
		e.R.Require(x.st.get("decided:"+k) >= 2, fmt.Sprintf("fewer than 2 decided rounds of kind %s (%d)", k, x.st.get("decided:"+k)))
	}
	e.R.Require(x.st.get("hostleft:joins_after_point") >= 20, "too few joins started after the host-left point")
	e.R.Require(x.st.get("expiry:must_admit") >= 6 && x.st.get("expiry:must_refuse") >= 6, "expiry brackets decided too little")
	e.R.Require(x.st.get("zero:rounds") >= 6, "too few rounds with a limit at 0")
	// message-size limit: every wire form of the sender was driven to a verdict with a limit and with the limit at 0
	if only == "" || strings.Contains(","+only+",", ",msgsize,") {
		e.R.Require(x.st.get("msgsize:decided:limited:wire=default") >= 1 && x.st.get("msgsize:decided:zero:wire=default") >= 1, "no decided msgsize round with the default wire form (limited and 0)")
		for _, f := range c14WireForms {
			e.R.Require(x.st.get("msgsize:decided:limited:"+f.Name) >= 1, "no decided msgsize round with a limit and the sender's messages as "+f.Name)
		}
		for _, name := range c14WireFormsZero {
			e.R.Require(x.st.get("msgsize:decided:zero:"+name) >= 1, "no decided msgsize round with --max-message-bytes 0 and the sender's messages as "+name)
		}
	}
	// join-code collisions inside the real server: every holder state was reached and judged
	if only == "" || strings.Contains(","+only+",", ",collide,") {
		for _, v := range c14CollVariants {
			e.R.Require(x.st.get("collide:decided:"+v) >= 1, fmt.Sprintf("no decided collide round with history %s", v))
		}
		e.R.Require(x.st.get("collide:holder_past_lifetime_and_unreaped_confirmed(second draw taken)") >= 2, "collide rounds: the window between lifetime over and reaped was hit fewer than 2 times")
	}
	// histories with duplicate peer ids: every scripted history was produced and judged, the receiver limit was
	// seen refusing a fill, and both lifetime brackets were decided
	if only == "" || strings.Contains(only, "dupid-") {
		if only == "" || strings.Contains(","+only+",", ",dupid-recv,") {
			for _, v := range c14DupRecvVariants {
				e.R.Require(x.st.get("dupid-recv:decided:"+v.Name) >= 1, fmt.Sprintf("no decided receiver-limit round with the duplicate-peer-id history %s", v.Name))
				if c14DupFull(v.Name) {
					k := "dupid-recv:full:session_seen_full_before_the_id_was_presented:" + v.Name
					e.R.Require(x.st.get(k) >= 1, fmt.Sprintf("receiver-limit history %s: in no round was the session seen full (a fresh receiver refused) before the registered peer id was presented", v.Name))
				}
			}
			e.R.Require(x.st.get("dupid-recv:rounds_in_which_the_limit_refused_a_fill") >= len(c14DupRecvVariants)/2, "duplicate-peer-id receiver rounds: the limit was hardly ever reached by the fill")
		}
		if only == "" || strings.Contains(","+only+",", ",dupid-hostleft,") {
			for _, v := range c14DupHostVariants {
				e.R.Require(x.st.get("dupid-host:decided:"+v.Name) >= 1, fmt.Sprintf("no decided host-left / expiry round with the duplicate-peer-id history %s", v.Name))
			}
			e.R.Require(x.st.get("dupid-host:must_admit_probes") >= len(c14DupHostVariants)/2 && x.st.get("dupid-host:joins_after_point") >= 40, "duplicate-peer-id lifetime rounds decided too little")
		}
	}
	// per-address limiters under concurrent first requests of fresh addresses
	if only == "" || strings.Contains(only, "rate-first-") {
		for _, kind := range []string{"rate-first-sess", "rate-first-ws"} {
			if only != "" && !strings.Contains(","+only+",", ","+kind+",") {
				continue
			}
			d, sh := x.st.get("first-burst:"+kind+":addresses_decided"), x.st.get("first-burst:"+kind+":addresses_sharp(rate*window<1)")
			e.R.Require(d >= 400 && sh >= d*3/4, fmt.Sprintf("%s: %d fresh addresses with a decided first burst, %d of them tight enough for one request too many to show", kind, d, sh))
		}
	}
	// rate limiters: every limiter saw every idle class, and at least two over-bursts after a long idle
	// period were tight enough (rate*window <= burst/2) for an over-admission of one burst to show
	if only == "" || strings.Contains(only, "rate-") {
		for _, kind := range []string{"rate-msgs", "rate-sess", "rate-ws"} {
			if only != "" && !strings.Contains(","+only+",", ","+kind+",") {
				continue
			}
			shapes := c14RateShapesIP
			if kind == "rate-msgs" {
				shapes = c14RateShapesMsgs
			}
			for _, sh := range shapes {
				e.R.Require(x.st.get("rate:"+kind+":"+sh) >= 1, fmt.Sprintf("no decided %s round with history shape %s", kind, sh))
			}
			e.R.Require(x.st.get("rate:sharp_bursts_after_long_idle:"+kind) >= 2, fmt.Sprintf("%s: only %d of %d bursts after a long idle period were tight enough to be sensitive", kind, x.st.get("rate:sharp_bursts_after_long_idle:"+kind), x.st.get("rate:bursts_after_long_idle:"+kind)))
		}
	}
}

func (x *c14Run) decided(r c14Round) {
	k := r.Kind
	if r.Variant == "seq" || r.Variant == "burst" {
		k += ":" + r.Variant
	}
	x.st.count("decided:"+k, 1)
	x.st.count("rounds_decided", 1)
	if strings.HasPrefix(r.Cfg.Name, "zero-") {
		x.st.count("zero:rounds", 1)
	}
	x.e.R.Distinct("serv:" + r.key())
}

func (x *c14Run) runRound(r c14Round) {
	e := x.e
	e.R.Eval()
	var plan *c14Plan
	var env []string
	if r.Kind == "collide" {
		plan = newC14Plan(e, r)
		env = plan.env()
		defer os.Remove(plan.path)
	}
	srv, err := c14StartServerEnv(e, r.Cfg.flags(), env)
	if err != nil {
		e.R.Inconcl(fmt.Sprintf("%s %s: server start: %v", r.ID, r.key(), err))
		return
	}
	defer srv.Stop()
	switch r.Kind {
	case "sessions":
		x.roundSessions(r, srv)
	case "receivers":
		x.roundReceivers(r, srv)
	case "wsconns":
		x.roundWSConns(r, srv)
	case "iprate-ws":
		x.roundIPRateWS(r, srv)
	case "rate-msgs":
		x.roundRateMsgs(r, srv)
	case "rate-sess":
		x.roundRateSess(r, srv)
	case "rate-ws":
		x.roundRateWS(r, srv)
	case "rate-first-sess", "rate-first-ws":
		x.roundRateFirst(r, srv)
	case "collide":
		x.roundCollide(r, srv, plan)
	case "dupid-recv":
		x.roundDupRecv(r, srv)
	case "dupid-hostleft":
		x.roundDupHost(r, srv)
	case "msgsize":
		x.roundMsgSize(r, srv)
	case "msgrate":
		x.roundMsgRate(r, srv)
	case "hostleft":
		x.roundHostLeft(r, srv)
	case "expiry":
		x.roundExpiry(r, srv)
	}
	if !srv.Alive() {
		e.R.Inconcl(fmt.Sprintf("%s %s: thruserv exited during the round", r.ID, r.key()))
	}
}

const (
	c14ErrSessLimit = "session limit reached"
	c14ErrRecvLimit = "receiver limit reached"
	c14ErrConnLimit = "connection limit reached"
	c14ErrRate      = "rate limit exceeded"
)

func c14ms(ns int64) float64 { return float64(ns/1000) / 1000 }

func c14RateBound(burst int, perSec float64, elapsedNs int64) float64 {
	if burst < 1 {
		burst = 1
	}
	return float64(burst) + perSec*float64(elapsedNs)/1e9 + 1
}

// ---- sessions ----------------------------------------------------------------

func (x *c14Run) roundSessions(r c14Round, srv *c14Server) {
	e, cfg := x.e, r.Cfg
	var all []c14Create
	hc0 := c14HTTP()
	for i := 0; i < r.Prefill; i++ {
		all = append(all, srv.create(hc0))
	}
	if r.Variant == "seq" {
		for i := 0; i < r.N; i++ {
			all = append(all, srv.create(hc0))
		}
	} else {
		res := make([]c14Create, r.N)
		bar := newC14Barrier(r.N)
		var wg sync.WaitGroup
		for i := 0; i < r.N; i++ {
			wg.Add(1)
			go func(i int) {
				defer wg.Done()
				hc := c14HTTP()
				werr := srv.warm(hc)
				bar.wait()
				if werr != nil {
					res[i] = c14Create{NetErr: "warm-up: " + werr.Error()}
					return
				}
				res[i] = srv.create(hc)
			}(i)
		}
		bar.release()
		wg.Wait()
		all = append(all, res...)
	}
	created, limitRef, rateRef := 0, 0, 0
	first, last := int64(1)<<62, int64(0)
	codes := map[string]int{}
	for _, c := range all {
		if c.NetErr != "" || (c.Status != 201 && c.Status != 429) || (c.Status == 429 && c.ErrText != c14ErrSessLimit && c.ErrText != c14ErrRate) {
			e.R.Inconcl(fmt.Sprintf("%s %s: unexpected POST /session outcome status=%d err=%q neterr=%q", r.ID, r.key(), c.Status, c.ErrText, c.NetErr))
			return
		}
		if c.Start < first {
			first = c.Start
		}
		if c.End > last {
			last = c.End
		}
		switch {
		case c.Created():
			created++
			codes[c.Code]++
		case c.ErrText == c14ErrSessLimit:
			limitRef++
		case c.ErrText == c14ErrRate:
			rateRef++
		}
	}
	elapsed := last - first
	caseSpec := map[string]any{"round": r, "flags": cfg.flags()}
	obs := map[string]any{"round": r.key(), "requests": len(all), "created_201": created, "refused_session_limit": limitRef, "refused_rate": rateRef, "elapsed_ms": c14ms(elapsed), "max_sessions": cfg.MaxSessions}
	if cfg.Timeout > 0 && elapsed >= int64(cfg.Timeout) {
		e.R.NoVerd() // an expiry may have freed a slot meanwhile
		return
	}
	x.st.sample("sessions", obs)
	for code, n := range codes {
		if n > 1 {
			e.R.Violate("joincode:duplicate-live", fmt.Sprintf("thruserv handed out join code %s to %d sessions that are live at the same time", code, n), caseSpec, obs)
		}
	}
	name := "max-sessions:" + map[bool]string{true: "sequential", false: "concurrent"}[r.Variant == "seq"]
	if cfg.MaxSessions > 0 {
		x.st.limit(name, cfg.MaxSessions, created, len(all))
		if created > cfg.MaxSessions {
			e.R.Violate("limit:"+name, fmt.Sprintf("%d sessions created (HTTP 201) with --max-sessions %d while nothing was deleted or expired (%s, %d requests, prefill %d, %.1f ms)",
				created, cfg.MaxSessions, r.Variant, len(all), r.Prefill, c14ms(elapsed)), caseSpec, obs)
		}
	} else {
		x.st.limit("max-sessions:zero", 0, created, len(all))
		if limitRef > 0 {
			e.R.Violate("limit:max-sessions:zero", fmt.Sprintf("--max-sessions 0 (no limit) but %d of %d POST /session were refused with %q", limitRef, len(all), c14ErrSessLimit), caseSpec, obs)
		}
	}
	if cfg.SessPerMin == 0 {
		if rateRef > 0 {
			e.R.Violate("limit:session-creates-per-min:zero", fmt.Sprintf("--session-creates-per-min 0 (no limit) but %d of %d POST /session were refused with %q", rateRef, len(all), c14ErrRate), caseSpec, obs)
		}
	} else {
		passes := len(all) - rateRef
		bound := c14RateBound(cfg.SessBurst, float64(cfg.SessPerMin)/60, elapsed)
		x.st.limit(fmt.Sprintf("session-creates-rate(%d/min,burst %d; limit=bound of the last round)", cfg.SessPerMin, cfg.SessBurst), int(bound), passes, len(all))
		obs["rate_passes"], obs["rate_bound"] = passes, bound
		if float64(passes) > bound {
			e.R.Violate("limit:session-creates-rate:exceeded", fmt.Sprintf("%d POST /session passed the per-IP limiter in %.1f ms; burst %d + %d/min allows at most %.2f", passes, c14ms(elapsed), cfg.SessBurst, cfg.SessPerMin, bound), caseSpec, obs)
		}
	}
	x.decided(r)
}

// ---- sockets -----------------------------------------------------------------

type c14JoinSpec struct {
	Code, Role, Peer string
}

// socketBurst performs the joins sequentially or all at once (pre-dialled TCP, start barrier).
func (x *c14Run) socketBurst(srv *c14Server, specs []c14JoinSpec, concurrent bool) []*c14Join {
	res := make([]*c14Join, len(specs))
	if !concurrent {
		// strictly sequential: the next join starts only after the server has registered the
		// previous one (the server sends peer_list right after adding the peer to its hub; the
		// 101 response alone precedes that registration)
		for i, s := range specs {
			res[i] = srv.join(nil, s.Code, s.Role, s.Peer, nil)
			if res[i].Upgraded() && !res[i].WS.WaitRegistered(3*time.Second) {
				x.st.count("sequential_join_without_peer_list", 1)
			}
		}
		return res
	}
	bar := newC14Barrier(len(specs))
	var wg sync.WaitGroup
	for i := range specs {
		wg.Add(1)
		go func(i int) {
			defer wg.Done()
			pre, err := srv.predial()
			bar.wait()
			if err != nil {
				res[i] = &c14Join{Role: specs[i].Role, PeerID: specs[i].Peer, NetErr: "predial: " + err.Error(), Start: c14Now(), End: c14Now()}
				return
			}
			res[i] = srv.join(pre, specs[i].Code, specs[i].Role, specs[i].Peer, nil)
		}(i)
	}
	bar.release()
	wg.Wait()
	return res
}

// openCount pings every upgraded socket after a settle period; "open" = pong received.
func c14OpenCount(joins []*c14Join, settle time.Duration) (open int, upgraded int) {
	time.Sleep(settle)
	var wg sync.WaitGroup
	var n atomic.Int32
	for _, j := range joins {
		if j == nil || !j.Upgraded() {
			continue
		}
		upgraded++
		wg.Add(1)
		go func(j *c14Join) {
			defer wg.Done()
			if j.WS.Alive(3 * time.Second) {
				n.Add(1)
			}
		}(j)
	}
	wg.Wait()
	return int(n.Load()), upgraded
}

func c14DropAll(joins []*c14Join) {
	for _, j := range joins {
		if j != nil && j.WS != nil {
			j.WS.Drop()
		}
	}
}

type c14JoinTally struct {
	Upgraded, RecvLimit, ConnLimit, Rate, NotFound, Other int
	First, Last                                           int64
	OtherText                                             string
}

func c14Tally(joins []*c14Join) c14JoinTally {
	t := c14JoinTally{First: int64(1) << 62}
	for _, j := range joins {
		if j.Start < t.First {
			t.First = j.Start
		}
		if j.End > t.Last {
			t.Last = j.End
		}
		switch {
		case j.Upgraded():
			t.Upgraded++
		case j.Status == 429 && j.ErrText == c14ErrRecvLimit:
			t.RecvLimit++
		case j.Status == 429 && j.ErrText == c14ErrConnLimit:
			t.ConnLimit++
		case j.Status == 429 && j.ErrText == c14ErrRate:
			t.Rate++
		case j.Status == 404:
			t.NotFound++
		default:
			t.Other++
			t.OtherText = fmt.Sprintf("status=%d err=%q neterr=%q", j.Status, j.ErrText, j.NetErr)
		}
	}
	return t
}

// zeroChecks reports refusals attributable to a limit that is configured as 0.
func (x *c14Run) zeroChecks(r c14Round, t c14JoinTally, caseSpec, obs any) {
	e, cfg := x.e, r.Cfg
	if cfg.MaxRecv == 0 && t.RecvLimit > 0 {
		e.R.Violate("limit:max-receivers:zero", fmt.Sprintf("--max-receivers-per-sender 0 (no limit) but %d joins were refused with %q", t.RecvLimit, c14ErrRecvLimit), caseSpec, obs)
	}
	if cfg.MaxWS == 0 && t.ConnLimit > 0 {
		e.R.Violate("limit:max-ws-connections:zero", fmt.Sprintf("--max-ws-connections 0 (no limit) but %d joins were refused with %q", t.ConnLimit, c14ErrConnLimit), caseSpec, obs)
	}
	if cfg.ConnPerMin == 0 && t.Rate > 0 {
		e.R.Violate("limit:ws-connects-per-min:zero", fmt.Sprintf("--ws-connects-per-min 0 (no limit) but %d joins were refused with %q", t.Rate, c14ErrRate), caseSpec, obs)
	}
}

// lifetimeChecks judges every join of a session by brackets. hostUp: a host socket was
// connected before the first join started and answered a ping after the last one completed
// (nil host = session that never had a host).
func (x *c14Run) lifetimeChecks(r c14Round, sess c14Create, joins []*c14Join, hostUp bool, caseSpec any) {
	e, cfg := x.e, r.Cfg
	for _, j := range joins {
		inside := j.Start > sess.End && (cfg.Timeout == 0 || j.End < sess.Start+int64(cfg.Timeout))
		after := cfg.Timeout > 0 && j.Start > sess.End+int64(cfg.Timeout)
		if inside && hostUp && j.Status == 404 {
			e.R.Violate("joincode:refused-inside-lifetime", fmt.Sprintf("join started after POST /session returned and completed %.1f ms after the create call (lifetime %s, host connected) but was refused with 404 %q",
				c14ms(j.End-sess.Start), cfg.Timeout, j.ErrText), caseSpec, j.brief())
		}
		if after && j.Upgraded() {
			e.R.Violate("joincode:admitted-after-expiry", fmt.Sprintf("join started %.1f ms after POST /session returned (lifetime %s) and was admitted", c14ms(j.Start-sess.End), cfg.Timeout), caseSpec, j.brief())
		}
	}
}

func (x *c14Run) roundReceivers(r c14Round, srv *c14Server) {
	e, cfg := x.e, r.Cfg
	hc := c14HTTP()
	sess := srv.create(hc)
	if !sess.Created() {
		e.R.Inconcl(fmt.Sprintf("%s %s: could not create the session: %+v", r.ID, r.key(), sess))
		return
	}
	host := srv.join(nil, sess.Code, "sender", c14PeerID("host"), nil)
	if !host.Upgraded() {
		e.R.Inconcl(fmt.Sprintf("%s %s: host could not connect: %v", r.ID, r.key(), host.brief()))
		return
	}
	defer host.WS.Drop()
	specs := make([]c14JoinSpec, r.N)
	for i := range specs {
		specs[i] = c14JoinSpec{sess.Code, "receiver", c14PeerID("rcv")}
	}
	joins := x.socketBurst(srv, specs, r.Variant != "seq")
	defer c14DropAll(joins)
	open, upgraded := c14OpenCount(joins, 150*time.Millisecond)
	hostUp := host.WS.Alive(3 * time.Second)
	t := c14Tally(joins)
	caseSpec := map[string]any{"round": r, "flags": cfg.flags()}
	obs := map[string]any{"round": r.key(), "joins": len(joins), "upgraded": upgraded, "open_after_settle(ping/pong)": open, "refused_receiver_limit": t.RecvLimit,
		"refused_connection_limit": t.ConnLimit, "refused_rate": t.Rate, "refused_404": t.NotFound, "other": t.Other, "burst_ms": c14ms(t.Last - t.First), "max_receivers": cfg.MaxRecv, "max_ws": cfg.MaxWS}
	if t.Other > 0 {
		e.R.Inconcl(fmt.Sprintf("%s %s: unexpected join outcome %s", r.ID, r.key(), t.OtherText))
		return
	}
	if !hostUp {
		e.R.Inconcl(fmt.Sprintf("%s %s: host socket did not answer a ping after the burst", r.ID, r.key()))
		return
	}
	x.st.sample("receivers", obs)
	mode := map[bool]string{true: "sequential", false: "concurrent"}[r.Variant == "seq"]
	if cfg.MaxRecv > 0 {
		x.st.limit("max-receivers:"+mode, cfg.MaxRecv, open, len(joins))
		if open > cfg.MaxRecv {
			e.R.Violate("limit:max-receivers:"+mode, fmt.Sprintf("%d receiver sockets of one session open at the same time (all answered a ping after the burst had completed) with --max-receivers-per-sender %d (%s, %d joins)", open, cfg.MaxRecv, r.Variant, len(joins)), caseSpec, obs)
		}
	} else {
		x.st.limit("max-receivers:zero", 0, open, len(joins))
	}
	if cfg.MaxWS > 0 {
		x.st.limit("max-ws-connections:"+mode+"(receiver rounds)", cfg.MaxWS, open+1, len(joins)+1)
		if open+1 > cfg.MaxWS {
			e.R.Violate("limit:max-ws-connections:"+mode, fmt.Sprintf("%d sockets open at the same time with --max-ws-connections %d", open+1, cfg.MaxWS), caseSpec, obs)
		}
	}
	x.zeroChecks(r, t, caseSpec, obs)
	x.lifetimeChecks(r, sess, joins, true, caseSpec)
	x.decided(r)
}

func (x *c14Run) roundWSConns(r c14Round, srv *c14Server) {
	e, cfg := x.e, r.Cfg
	hc := c14HTTP()
	nSess := 3
	if cfg.MaxSessions > 0 && cfg.MaxSessions < nSess {
		nSess = cfg.MaxSessions
	}
	var sessions []c14Create
	for i := 0; i < nSess; i++ {
		s := srv.create(hc)
		if !s.Created() {
			e.R.Inconcl(fmt.Sprintf("%s %s: could not create session %d: %+v", r.ID, r.key(), i, s))
			return
		}
		sessions = append(sessions, s)
	}
	// sender-role sockets only: the per-session receiver limit stays out of the picture
	specs := make([]c14JoinSpec, r.N)
	for i := range specs {
		specs[i] = c14JoinSpec{sessions[i%nSess].Code, "sender", c14PeerID("snd")}
	}
	joins := x.socketBurst(srv, specs, r.Variant != "seq")
	defer c14DropAll(joins)
	open, upgraded := c14OpenCount(joins, 150*time.Millisecond)
	t := c14Tally(joins)
	caseSpec := map[string]any{"round": r, "flags": cfg.flags()}
	obs := map[string]any{"round": r.key(), "sessions": nSess, "joins": len(joins), "upgraded": upgraded, "open_after_settle(ping/pong)": open,
		"refused_connection_limit": t.ConnLimit, "refused_rate": t.Rate, "refused_404": t.NotFound, "burst_ms": c14ms(t.Last - t.First), "max_ws": cfg.MaxWS}
	if t.Other > 0 || t.RecvLimit > 0 {
		e.R.Inconcl(fmt.Sprintf("%s %s: unexpected join outcome %s (receiver-limit refusals %d)", r.ID, r.key(), t.OtherText, t.RecvLimit))
		return
	}
	x.st.sample("wsconns", obs)
	mode := map[bool]string{true: "sequential", false: "concurrent"}[r.Variant == "seq"]
	if cfg.MaxWS > 0 {
		x.st.limit("max-ws-connections:"+mode, cfg.MaxWS, open, len(joins))
		if open > cfg.MaxWS {
			e.R.Violate("limit:max-ws-connections:"+mode, fmt.Sprintf("%d sockets open at the same time (all answered a ping after the burst) with --max-ws-connections %d (%s, %d joins)", open, cfg.MaxWS, r.Variant, len(joins)), caseSpec, obs)
		}
	} else {
		x.st.limit("max-ws-connections:zero", 0, open, len(joins))
	}
	x.zeroChecks(r, t, caseSpec, obs)
	// no socket has been closed by us: every session still has its hosts, so a 404 inside the lifetime is a refusal
	for i, j := range joins {
		x.lifetimeChecks(r, sessions[i%nSess], []*c14Join{j}, true, caseSpec)
	}
	x.decided(r)
}

func (x *c14Run) roundIPRateWS(r c14Round, srv *c14Server) {
	e, cfg := x.e, r.Cfg
	hc := c14HTTP()
	sess := srv.create(hc)
	if !sess.Created() {
		e.R.Inconcl(fmt.Sprintf("%s %s: could not create the session: %+v", r.ID, r.key(), sess))
		return
	}
	specs := make([]c14JoinSpec, r.N)
	for i := range specs {
		specs[i] = c14JoinSpec{sess.Code, "sender", c14PeerID("snd")}
	}
	joins := x.socketBurst(srv, specs, true)
	defer c14DropAll(joins)
	t := c14Tally(joins)
	if t.Other > 0 {
		e.R.Inconcl(fmt.Sprintf("%s %s: unexpected join outcome %s", r.ID, r.key(), t.OtherText))
		return
	}
	elapsed := t.Last - t.First
	passes := len(joins) - t.Rate - t.NotFound
	bound := c14RateBound(cfg.ConnBurst, float64(cfg.ConnPerMin)/60, elapsed)
	caseSpec := map[string]any{"round": r, "flags": cfg.flags()}
	obs := map[string]any{"round": r.key(), "joins": len(joins), "passed_limiter": passes, "refused_rate": t.Rate, "refused_connection_limit": t.ConnLimit, "upgraded": t.Upgraded, "elapsed_ms": c14ms(elapsed), "bound": bound}
	x.st.sample("iprate", obs)
	x.st.limit(fmt.Sprintf("ws-connects-rate(%d/min,burst %d; limit=bound of the last round)", cfg.ConnPerMin, cfg.ConnBurst), int(bound), passes, len(joins))
	if cfg.ConnPerMin > 0 && float64(passes) > bound {
		e.R.Violate("limit:ws-connects-rate:exceeded", fmt.Sprintf("%d upgrades passed the per-IP limiter in %.1f ms; burst %d + %d/min allows at most %.2f", passes, c14ms(elapsed), cfg.ConnBurst, cfg.ConnPerMin, bound), caseSpec, obs)
	}
	x.zeroChecks(r, t, caseSpec, obs)
	x.decided(r)
}

// ---- message size / rate -------------------------------------------------------

// pair sets up a session with a host and one receiver (retrying the receiver while a
// previous one is still being removed by the server).
func (x *c14Run) hostOnly(r c14Round, srv *c14Server) (c14Create, *c14Join, bool) {
	hc := c14HTTP()
	sess := srv.create(hc)
	if !sess.Created() {
		x.e.R.Inconcl(fmt.Sprintf("%s %s: could not create the session: %+v", r.ID, r.key(), sess))
		return sess, nil, false
	}
	host := srv.join(nil, sess.Code, "sender", c14PeerID("host"), nil)
	if !host.Upgraded() {
		x.e.R.Inconcl(fmt.Sprintf("%s %s: host could not connect: %v", r.ID, r.key(), host.brief()))
		return sess, nil, false
	}
	host.WS.WaitRegistered(3 * time.Second) // routable from now on
	return sess, host, true
}

func (x *c14Run) receiverRetry(srv *c14Server, code string) *c14Join {
	return x.receiverRetryOpt(srv, code, c14DialOpt{})
}

func (x *c14Run) receiverRetryOpt(srv *c14Server, code string, opt c14DialOpt) *c14Join {
	var j *c14Join
	for k := 0; k < 60; k++ {
		j = srv.joinOpt(nil, code, "receiver", c14PeerID("rcv"), nil, opt)
		if j.Upgraded() || !(j.Status == 429 && (j.ErrText == c14ErrRecvLimit || j.ErrText == c14ErrConnLimit)) {
			return j
		}
		time.Sleep(25 * time.Millisecond)
	}
	return j
}
