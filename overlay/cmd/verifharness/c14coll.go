//go:build verif

package main

// C14, join-code collisions with holders in every state of their life.
//
// The TTL-0 histories of part (a) force collisions between live sessions only, and the expiry
// brackets never force a collision. Here the code a Create draws first is the code of a session
// that is live / past its lifetime but not yet reaped (nobody called Delete, nobody looked it
// up) / past its lifetime and lazily removed by a lookup / reaped (Delete) - and afterwards the
// old holder is reaped, in either order with further creations. Two clauses are judged:
//
//   - a session whose lifetime has not run out (bracket: the lookup / join completed before
//     create-call + lifetime) and that nobody deleted admits peers on its code;
//   - a code never names two live sessions (two sessions with one code, neither deleted, the
//     second returned before the first one's create-call + lifetime).
//
// (1) session.Store in-process, lifetime 50 ms: scripted shapes plus seeded random histories,
//     the harness plays the reaper (Store.Delete, what thruserv's expiry timer and its
//     host-disconnect path call).
// (2) the real thruserv: the draws of a POST /session are dictated through a plan file
//     (overlay/internal/session/zz_verif_export_c14.go installs the override in the server
//     process), and the window between "lifetime over" and "reaped" is held open by a sleep at
//     the existing hook point hub.close.afterUnlink, which the expiry callback passes before it
//     calls Store.Delete.

import (
	"fmt"
	"os"
	"path/filepath"
	"strings"
	"sync"
	"sync/atomic"
	"time"

	"github.com/sheerbytes/sheerbytes/internal/session"
	"github.com/sheerbytes/sheerbytes/internal/verifhook"
	vk "github.com/sheerbytes/sheerbytes/internal/verifkit"
)

// ---------------------------------------------------------------------------
// (1) Store histories

type c14CollOp struct {
	Op string `json:"op"` // C create | X wait until session A is past its lifetime | XA ... all sessions | R Delete | L GetByJoinCode | P Delete(A) || Create(first draw = code of B)
	A  int    `json:"a"`  // C: session whose code is drawn first (-1: no forced draw); X/R/L/P: target session
	B  int    `json:"b"`  // C: session whose code is drawn second (-1: none); P: session whose code is drawn first
}

type c14CollHist struct {
	Shape string      `json:"shape"`
	Ops   []c14CollOp `json:"ops"`
	exact bool        // indices are exact (scripted shapes); otherwise taken modulo the number of sessions so far
}

const c14CollTTL = 50 * time.Millisecond

func c14CollShapes() []c14CollHist {
	op := func(o string, a, b int) c14CollOp { return c14CollOp{o, a, b} }
	C := func(a, b int) c14CollOp { return op("C", a, b) }
	X := func(a int) c14CollOp { return op("X", a, 0) }
	R := func(a int) c14CollOp { return op("R", a, 0) }
	L := func(a int) c14CollOp { return op("L", a, 0) }
	XA := op("XA", 0, 0)
	return []c14CollHist{
		{Shape: "live-holder", Ops: []c14CollOp{C(-1, -1), C(0, -1), L(0), L(1), R(0), L(1), L(0), C(1, -1), L(1), L(2)}},
		{Shape: "expired-unreaped-holder,reaped-later", Ops: []c14CollOp{C(-1, -1), X(0), C(0, -1), R(0), L(1), C(1, -1), L(1), L(2)}},
		{Shape: "expired-unreaped-holder,never-reaped", Ops: []c14CollOp{C(-1, -1), X(0), C(0, -1), L(1), C(1, -1), L(1), L(2), L(0)}},
		{Shape: "expired-lookedup-holder", Ops: []c14CollOp{C(-1, -1), X(0), L(0), C(0, -1), R(0), L(1), C(1, -1), L(1), L(2)}},
		{Shape: "reaped-holder", Ops: []c14CollOp{C(-1, -1), R(0), C(0, -1), L(1), R(0), L(1), C(1, -1), L(1), L(2)}},
		{Shape: "chain,old-reaped-first", Ops: []c14CollOp{C(-1, -1), X(0), C(0, -1), C(0, 1), R(0), L(1), L(2), R(1), L(2), L(1)}},
		{Shape: "chain,new-reaped-first", Ops: []c14CollOp{C(-1, -1), X(0), C(0, -1), C(0, 1), R(1), L(2), R(0), L(2), L(1)}},
		{Shape: "expired-twice", Ops: []c14CollOp{C(-1, -1), X(0), C(0, -1), XA, C(0, 1), R(1), L(2), R(0), L(2), C(2, -1), L(2), L(3)}},
		{Shape: "reap-concurrent-with-create", Ops: []c14CollOp{C(-1, -1), X(0), op("P", 0, 0), L(1), C(1, -1), L(1), L(2)}},
		{Shape: "live-reap-concurrent-with-create", Ops: []c14CollOp{C(-1, -1), op("P", 0, 0), L(1), L(0), C(1, -1), L(1), L(2)}},
	}
}

func c14CollRandom(r *vk.Rng) c14CollHist {
	h := c14CollHist{Shape: "random"}
	n := 8 + r.Intn(9)
	creates, waits := 0, 0
	h.Ops = append(h.Ops, c14CollOp{"C", -1, -1})
	creates++
	for i := 1; i < n; i++ {
		switch p := r.Intn(100); {
		case p < 34 && creates < 8:
			o := c14CollOp{"C", -1, -1}
			if r.Intn(10) < 8 {
				o.A = r.Intn(1 << 12)
				if r.Intn(10) < 3 {
					o.B = r.Intn(1 << 12)
				}
			}
			h.Ops = append(h.Ops, o)
			creates++
		case p < 48 && waits < 3:
			if r.Intn(10) < 3 {
				h.Ops = append(h.Ops, c14CollOp{"XA", 0, 0})
			} else {
				h.Ops = append(h.Ops, c14CollOp{"X", r.Intn(1 << 12), 0})
			}
			waits++
		case p < 64:
			h.Ops = append(h.Ops, c14CollOp{"R", r.Intn(1 << 12), 0})
		case p < 70 && creates < 8:
			h.Ops = append(h.Ops, c14CollOp{"P", r.Intn(1 << 12), r.Intn(1 << 12)})
			creates++
		default:
			h.Ops = append(h.Ops, c14CollOp{"L", r.Intn(1 << 12), 0})
		}
	}
	return h
}

type c14CollSess struct {
	Idx           int    `json:"idx"`
	ID            string `json:"-"`
	Code          string `json:"code"`
	Call, Ret     int64  `json:"-"`
	DelCall       int64  `json:"-"` // first Delete targeting it (0: none)
	DelRet        int64  `json:"-"`
	Class         string `json:"class"` // state of the holder of the first drawn code when this session was created
	HolderReaped  bool   `json:"old_holder_reaped_later"`
	holder        *c14CollSess
	lookedExpired bool // a lookup of its code started after its lifetime (lazy removal)
}

func (s *c14CollSess) class() string {
	if s.HolderReaped {
		return s.Class + ",holder-reaped-later"
	}
	return s.Class
}

type c14CollViol struct {
	Key, What string
	Detail    any
}

type c14CollResult struct {
	Log    []string
	Viol   []c14CollViol
	Counts map[string]int
}

// forced draws: one Create at a time (process-wide), the override hands out the planned draws
// and then lets the real generator run.
var c14Forced struct {
	mu    sync.Mutex
	draws []string
	used  int
	total atomic.Int64
}

func c14ForcedOverride() (string, bool) {
	c14Forced.total.Add(1)
	if c14Forced.used < len(c14Forced.draws) {
		d := c14Forced.draws[c14Forced.used]
		c14Forced.used++
		return d, true
	}
	return "", false
}

func c14CreateForced(store *session.Store, draws []string) (s session.Session, call, ret int64, used int) {
	c14Forced.mu.Lock()
	defer c14Forced.mu.Unlock()
	c14Forced.draws, c14Forced.used = draws, 0
	call = c14Now()
	s = store.Create()
	ret = c14Now()
	used = c14Forced.used
	c14Forced.draws = nil
	return
}

func c14RunCollHist(h c14CollHist) *c14CollResult {
	const ttl = int64(c14CollTTL)
	res := &c14CollResult{Counts: map[string]int{}}
	store := session.NewStore(c14CollTTL)
	var sess []*c14CollSess
	byID := map[string]*c14CollSess{}
	logf := func(f string, a ...any) { res.Log = append(res.Log, fmt.Sprintf(f, a...)) }
	viol := func(key, what string) {
		res.Viol = append(res.Viol, c14CollViol{Key: key, What: what})
		logf("!! %s: %s", key, what)
	}
	pick := func(i int) *c14CollSess {
		if len(sess) == 0 || i < 0 {
			return nil
		}
		if h.exact {
			if i >= len(sess) {
				return nil
			}
			return sess[i]
		}
		return sess[i%len(sess)]
	}
	lastWithCode := func(code string) *c14CollSess {
		for i := len(sess) - 1; i >= 0; i-- {
			if sess[i].Code == code {
				return sess[i]
			}
		}
		return nil
	}
	classify := func(hd *c14CollSess, call, ret int64) string {
		switch {
		case hd == nil:
			return "no-collision"
		case hd.DelRet != 0 && hd.DelRet < call:
			return "reaped-holder"
		case hd.DelCall != 0:
			return "holder-being-reaped"
		case call > hd.Ret+ttl && hd.lookedExpired:
			return "expired-lookedup-holder"
		case call > hd.Ret+ttl:
			return "expired-unreaped-holder"
		case ret < hd.Call+ttl:
			return "live-holder"
		default:
			return "holder-at-expiry-instant"
		}
	}
	afterCreate := func(s session.Session, call, ret int64, draws []string, used int, hd *c14CollSess, suffix string) *c14CollSess {
		rec := &c14CollSess{Idx: len(sess), ID: s.ID, Code: s.JoinCode, Call: call, Ret: ret, Class: classify(hd, call, ret) + suffix, holder: hd}
		logf("s%d = Create() first draws %v (%d used; holder %s) -> code %s  [%d,%d]", rec.Idx, draws, used, rec.Class, rec.Code, call, ret)
		res.Counts["create:"+rec.Class]++
		if hd != nil && rec.Code == hd.Code {
			res.Counts["create:"+rec.Class+":code-reused"]++
		}
		if prev := byID[s.ID]; prev != nil {
			viol("store:duplicate-id", fmt.Sprintf("Create returned the id of s%d again", prev.Idx))
		}
		for _, o := range sess {
			if o.Code == rec.Code && o.DelCall == 0 && ret < o.Call+ttl {
				viol("joincode:duplicate-live:store:"+rec.Class,
					fmt.Sprintf("Create returned code %s for s%d %d us after the create call of s%d, which carries the same code, was never deleted and has a lifetime of %d ms (first drawn code belonged to a %s)",
						rec.Code, rec.Idx, (ret-o.Call)/1000, o.Idx, ttl/1e6, rec.Class))
			}
		}
		sess = append(sess, rec)
		byID[s.ID] = rec
		return rec
	}
	// reapMark: t is (about to be) deleted; the sessions that were created when t held the first drawn
	// code (whatever code they ended up with) and later sessions with t's code are marked
	reapMark := func(t *c14CollSess) {
		for _, o := range sess {
			if o != t && o.Call > t.Call && (o.holder == t || o.Code == t.Code) {
				o.HolderReaped = true
			}
		}
	}
	lookup := func(t *c14CollSess, tag string) {
		st := c14Now()
		got, ok := store.GetByJoinCode(t.Code)
		en := c14Now()
		desc := "not found"
		if ok {
			if g := byID[got.ID]; g != nil {
				desc = fmt.Sprintf("s%d", g.Idx)
			} else {
				desc = "unknown session " + got.ID
			}
		}
		logf("%sGet(%s) [code of s%d] -> %s  [%d,%d]", tag, t.Code, t.Idx, desc, st, en)
		// sessions that must be found under this code
		var must []*c14CollSess
		for _, o := range sess {
			if o.Code == t.Code && o.DelCall == 0 && en < o.Call+ttl {
				must = append(must, o)
			}
			if o.Code == t.Code && o.DelCall == 0 && st > o.Ret+ttl {
				o.lookedExpired = true
			}
		}
		verdict := false
		if len(must) > 0 {
			verdict = true
			m := must[len(must)-1]
			res.Counts["lookup:must-find:"+m.class()]++
			hit := false
			for _, o := range must {
				if ok && got.ID == o.ID {
					hit = true
				}
			}
			if !hit {
				viol("joincode:refused-inside-lifetime:store:"+m.class(),
					fmt.Sprintf("GetByJoinCode(%s) completed %d us after the create call of s%d (lifetime %d ms, never deleted) and gave %s; s%d was created when the first drawn code belonged to a %s",
						t.Code, (en-m.Call)/1000, m.Idx, ttl/1e6, desc, m.Idx, m.class()))
			}
		}
		if ok {
			g := byID[got.ID]
			switch {
			case g == nil:
				viol("store:unknown-session", "GetByJoinCode returned a session no Create returned")
			case got.JoinCode != t.Code || g.Code != t.Code:
				viol("joincode:names-another-session:store", fmt.Sprintf("GetByJoinCode(%s) returned s%d whose code is %s", t.Code, g.Idx, g.Code))
			case g.DelRet != 0 && g.DelRet < st:
				verdict = true
				viol("joincode:admitted-after-delete:store:"+g.class(), fmt.Sprintf("GetByJoinCode(%s) started %d us after Delete(s%d) had returned and still returned s%d", t.Code, (st-g.DelRet)/1000, g.Idx, g.Idx))
			case st > g.Ret+ttl:
				verdict = true
				viol("joincode:admitted-after-expiry:store:"+g.class(), fmt.Sprintf("GetByJoinCode(%s) started %d us after the Create of s%d returned (lifetime %d ms) and still returned it", t.Code, (st-g.Ret)/1000, g.Idx, ttl/1e6))
			}
		} else if len(must) == 0 {
			// nothing had to be found: decided when every holder of the code is certainly gone
			gone := true
			for _, o := range sess {
				if o.Code == t.Code && !((o.DelRet != 0 && o.DelRet < st) || st > o.Ret+ttl) {
					gone = false
				}
			}
			if gone {
				verdict = true
				res.Counts["lookup:must-fail"]++
			}
		}
		if !verdict {
			res.Counts["lookup:no-verdict"]++
		}
	}
	waitExpired := func(t *c14CollSess) {
		if d := t.Ret + ttl + int64(time.Millisecond) - c14Now(); d > 0 {
			time.Sleep(time.Duration(d))
		}
	}
	for _, o := range h.Ops {
		switch o.Op {
		case "C":
			var draws []string
			var hd *c14CollSess
			if a := pick(o.A); o.A >= 0 && a != nil {
				draws = append(draws, a.Code)
				hd = lastWithCode(a.Code)
				if b := pick(o.B); o.B >= 0 && b != nil {
					draws = append(draws, b.Code)
				}
			}
			s, call, ret, used := c14CreateForced(store, draws)
			afterCreate(s, call, ret, draws, used, hd, "")
		case "X":
			if t := pick(o.A); t != nil {
				waitExpired(t)
				logf("(waited until s%d is past its lifetime)", t.Idx)
			}
		case "XA":
			for _, t := range sess {
				waitExpired(t)
			}
			logf("(waited until every session is past its lifetime)")
		case "R":
			t := pick(o.A)
			if t == nil {
				continue
			}
			call := c14Now()
			if t.DelCall == 0 {
				t.DelCall = call
			}
			reapMark(t)
			store.Delete(t.ID)
			ret := c14Now()
			if t.DelRet == 0 {
				t.DelRet = ret
			}
			state := "live"
			if call > t.Ret+ttl {
				state = "past its lifetime"
			}
			logf("Delete(s%d) (%s)  [%d,%d]", t.Idx, state, call, ret)
			res.Counts["reap"]++
		case "P":
			t, a := pick(o.A), pick(o.B)
			if t == nil || a == nil {
				continue
			}
			draws := []string{a.Code}
			hd := lastWithCode(a.Code)
			start := make(chan struct{})
			var wg sync.WaitGroup
			wg.Add(2)
			var dcall, dret int64
			if t.DelCall == 0 {
				t.DelCall = c14Now()
			}
			reapMark(t)
			go func() {
				defer wg.Done()
				<-start
				dcall = c14Now()
				store.Delete(t.ID)
				dret = c14Now()
			}()
			var s session.Session
			var call, ret int64
			var used int
			go func() {
				defer wg.Done()
				<-start
				s, call, ret, used = c14CreateForced(store, draws)
			}()
			close(start)
			wg.Wait()
			if t.DelRet == 0 {
				t.DelRet = dret
			}
			logf("Delete(s%d) [%d,%d] concurrently with:", t.Idx, dcall, dret)
			rec := afterCreate(s, call, ret, draws, used, hd, "")
			if rec.Code == t.Code || hd == t {
				rec.HolderReaped = true
			}
			res.Counts["reap-concurrent-with-create"]++
		case "L":
			if t := pick(o.A); t != nil {
				lookup(t, "")
			}
		}
	}
	// final sweep: every code once more
	for _, t := range append([]*c14CollSess{}, sess...) {
		lookup(t, "final: ")
	}
	return res
}

func (x *c14Run) partStoreCollide() {
	e := x.e
	rng := vk.NewRng(e.Seed ^ vk.HashStr("c14coll"+e.Tier))
	var hists []c14CollHist
	shapes := c14CollShapes()
	for rep := 0; rep < e.Pick(12, 120); rep++ {
		for _, s := range shapes {
			s.exact = true
			hists = append(hists, s)
		}
	}
	for i := 0; i < e.Pick(160, 3000); i++ {
		hists = append(hists, c14CollRandom(rng))
	}
	verifhook.SetOverride("session.joincode", c14ForcedOverride)
	defer verifhook.SetOverride("session.joincode", nil)
	c14Forced.total.Store(0)
	results := make([]*c14CollResult, len(hists))
	vk.ParallelDo(len(hists), 24, func(i int) { results[i] = c14RunCollHist(hists[i]) })
	verifhook.SetOverride("session.joincode", nil)

	total := map[string]int{}
	perShape := map[string]int{}
	for i, res := range results {
		e.R.Eval()
		h := hists[i]
		perShape[h.Shape]++
		decided := 0
		for k, v := range res.Counts {
			total[k] += v
			if strings.HasPrefix(k, "lookup:must-") {
				decided += v
			}
		}
		caseSpec := map[string]any{"part": "store-collision-history", "index": i, "shape": h.Shape, "ttl_ms": int64(c14CollTTL / time.Millisecond), "ops": h.Ops}
		seen := map[string]bool{}
		for _, v := range res.Viol {
			if seen[v.Key] {
				continue
			}
			seen[v.Key] = true
			e.R.Violate(v.Key, v.What, caseSpec, map[string]any{"history": res.Log})
		}
		if decided > 0 {
			if h.Shape == "random" {
				e.R.Distinct(fmt.Sprintf("coll:random:%016x", vk.HashStr(fmt.Sprint(h.Ops))))
			} else {
				e.R.Distinct("coll:" + h.Shape)
			}
		}
		if i < 2 || (h.Shape == "random" && perShape["random"] == 1) {
			x.st.sample("store-collision", map[string]any{"part": "store-collision-history", "shape": h.Shape, "ttl_ms": 50, "history": res.Log, "verdicts": res.Counts})
		}
	}
	e.R.SetExtra("store_collision_histories", map[string]any{"histories": len(hists), "by_shape": perShape, "ttl_ms": 50, "code_draws": c14Forced.total.Load(), "counts(create:<state of the holder of the first drawn code>, lookup:<verdict>:<how the looked-up session got its code>)": total})
	for _, cl := range []string{"live-holder", "expired-unreaped-holder", "expired-lookedup-holder", "reaped-holder"} {
		e.R.Require(total["create:"+cl] >= 10, fmt.Sprintf("store collision histories: only %d creations whose first drawn code belonged to a %s", total["create:"+cl], cl))
	}
	mf := func(cl string) int { // with and without ",holder-reaped-later"
		n := 0
		for k, v := range total {
			if strings.HasPrefix(k, "lookup:must-find:"+cl) {
				n += v
			}
		}
		return n
	}
	e.R.Require(mf("live-holder") >= 10 && mf("expired-lookedup-holder") >= 10 && mf("reaped-holder") >= 10,
		fmt.Sprintf("store collision histories: too few lookups that had to succeed (live %d, expired-lookedup %d, reaped %d)", mf("live-holder"), mf("expired-lookedup-holder"), mf("reaped-holder")))
	e.R.Require(mf("expired-unreaped-holder") >= 10, fmt.Sprintf("store collision histories: only %d decided lookups of a session created while the holder of the drawn code was past its lifetime and unreaped", mf("expired-unreaped-holder")))
	// whatever code the new session got, it must stay reachable after the expired holder of the first drawn code was reaped
	e.R.Require(mf("expired-unreaped-holder,holder-reaped-later") >= 10, fmt.Sprintf("store collision histories: only %d decided lookups of a session after the expired, unreaped holder of its first drawn code had been reaped", mf("expired-unreaped-holder,holder-reaped-later")))
	e.R.Require(total["reap-concurrent-with-create"] >= 5, fmt.Sprintf("store collision histories: only %d reaps concurrent with a colliding creation", total["reap-concurrent-with-create"]))
	e.R.Require(total["lookup:must-fail"] >= 10, "store collision histories: too few lookups that had to fail")
}

// ---------------------------------------------------------------------------
// (2) the real thruserv

const c14CollHookSleepMs = 400

var c14CollVariants = []string{"live-holder", "expired-unreaped-holder", "expired-reaped-holder", "expired-lookedup-holder", "host-left-holder", "chain"}

func c14GenCollideRounds(e *Env) []c14Round {
	rng := vk.NewRng(e.Seed ^ vk.HashStr("c14collserv"+e.Tier))
	cfg := c14Small()
	cfg.Name, cfg.MaxSessions, cfg.MaxRecv, cfg.MaxWS, cfg.Timeout = "collide", 0, 0, 0, 1500*time.Millisecond
	var out []c14Round
	for rep := 0; rep < e.Pick(2, 8); rep++ {
		for _, v := range c14CollVariants {
			out = append(out, c14Round{Cfg: cfg, Kind: "collide", Variant: v, Seed: rng.U64()})
		}
	}
	return out
}

// c14Plan dictates the join-code draws of the next POST /session of one server process.
type c14Plan struct {
	path string
	gen  int
}

func newC14Plan(e *Env, r c14Round) *c14Plan {
	return &c14Plan{path: filepath.Join(e.Work, fmt.Sprintf("joincode-plan-%s-%x.txt", r.ID, r.Seed&0xffffff))}
}

func (p *c14Plan) env() []string {
	return []string{"VERIF_JOINCODE_PLAN=" + p.path, fmt.Sprintf("VERIFHOOK=hub.close.afterUnlink=sleep(%d)", c14CollHookSleepMs)}
}

func (p *c14Plan) set(codes ...string) error {
	p.gen++
	tmp := p.path + ".tmp"
	if err := os.WriteFile(tmp, []byte(fmt.Sprintf("g%d %s\n", p.gen, strings.Join(codes, " "))), 0644); err != nil {
		return err
	}
	return os.Rename(tmp, p.path)
}

func c14CollCode(seed uint64, k int) string {
	const chars = "ABCDEFGHJKLMNPQRSTUVWXYZ23456789"
	v := vk.Mix(seed ^ uint64(k+1)*0x9e3779b97f4a7c15)
	b := make([]byte, 8)
	for i := range b {
		b[i] = chars[v%32]
		v /= 32
	}
	return string(b)
}

type c14CollLive struct {
	Name string
	Sess c14Create
	Host *c14Join
}

func (x *c14Run) roundCollide(r c14Round, srv *c14Server, plan *c14Plan) {
	e, cfg := x.e, r.Cfg
	T := int64(cfg.Timeout)
	caseSpec := map[string]any{"round": r, "flags": cfg.flags(), "server_env": plan.env()}
	var trace []string
	tr := func(f string, a ...any) {
		trace = append(trace, fmt.Sprintf("%8.1f ms  ", c14ms(c14Now()))+fmt.Sprintf(f, a...))
	}
	var sockets []*c14Join
	defer func() { c14DropAll(sockets) }()
	fail := func(f string, a ...any) {
		e.R.Inconcl(fmt.Sprintf("%s %s: %s", r.ID, r.key(), fmt.Sprintf(f, a...)))
	}
	hc := c14HTTP()
	codes := func(k ...int) []string {
		var out []string
		for _, i := range k {
			out = append(out, c14CollCode(r.Seed, i))
		}
		return out
	}
	var live []*c14CollLive // sessions that we hold a host for and never let go
	mk := func(name string, draws []string) (*c14CollLive, bool) {
		if err := plan.set(draws...); err != nil {
			fail("plan file: %v", err)
			return nil, false
		}
		s := srv.create(hc)
		if !s.Created() {
			fail("could not create session %s: %+v", name, s)
			return nil, false
		}
		tr("POST /session with dictated draws %v -> %s has code %s", draws, name, s.Code)
		// a code never names two live sessions
		for _, o := range live {
			if o.Sess.Code == s.Code && s.End < o.Sess.Start+T {
				if o.Host.WS.Alive(2 * time.Second) {
					e.R.Violate("joincode:duplicate-live:collision:"+r.Variant,
						fmt.Sprintf("thruserv gave code %s to a new session %.1f ms after it had given it to a session whose host is still connected and whose lifetime is %s", s.Code, c14ms(s.End-o.Sess.Start), cfg.Timeout),
						caseSpec, map[string]any{"trace": trace})
				}
			}
		}
		h := srv.join(nil, s.Code, "sender", c14PeerID("host"), nil)
		if !h.Upgraded() {
			if h.Status == 404 && h.End < s.Start+T {
				e.R.Violate("joincode:refused-inside-lifetime:collision:"+r.Variant,
					fmt.Sprintf("the host of session %s was refused with 404 %.1f ms after the create call (lifetime %s)", name, c14ms(h.End-s.Start), cfg.Timeout), caseSpec, map[string]any{"trace": trace})
				return nil, false
			}
			fail("host of %s could not connect: %v", name, h.brief())
			return nil, false
		}
		sockets = append(sockets, h)
		if !h.WS.WaitRegistered(3 * time.Second) {
			fail("host of %s got no peer_list", name)
			return nil, false
		}
		return &c14CollLive{Name: name, Sess: s, Host: h}, true
	}
	keep := func(l *c14CollLive) { live = append(live, l) }
	verdicts := 0
	// admit: a receiver joins on the code of a session we hold the host of
	admit := func(l *c14CollLive, class string) {
		j := srv.join(nil, l.Sess.Code, "receiver", c14PeerID("rcv"), nil)
		if j.Upgraded() {
			sockets = append(sockets, j)
		}
		inside := j.Start > l.Sess.End && j.End < l.Sess.Start+T
		if !inside || j.NetErr != "" || !l.Host.WS.Alive(2*time.Second) {
			tr("join on %s (code %s): status %d, no verdict (outside the bracket or host gone)", l.Name, l.Sess.Code, j.Status)
			e.R.NoVerd()
			x.st.count("collide:joins_no_verdict", 1)
			return
		}
		verdicts++
		x.st.count("collide:joins_inside_lifetime:"+class, 1)
		tr("join on %s (code %s) %.1f ms after its create call: status %d %s", l.Name, l.Sess.Code, c14ms(j.End-l.Sess.Start), j.Status, j.ErrText)
		if j.Status == 404 {
			e.R.Violate("joincode:refused-inside-lifetime:collision:"+class,
				fmt.Sprintf("session %s (code %s, host connected, %.1f ms into a lifetime of %s) refused a join with 404 %q; history: %s", l.Name, l.Sess.Code, c14ms(j.End-l.Sess.Start), cfg.Timeout, j.ErrText, r.Variant),
				caseSpec, map[string]any{"trace": trace, "join": j.brief(), "server_log_tail": srv.LogTail(30)})
			return
		}
		if j.Upgraded() {
			// the session the code names is the one whose host we hold
			if m, ok := j.WS.WaitMsg(3*time.Second, func(m c14Msg) bool { return m.Type == "peer_list" && m.From == "server" }); ok && m.Raw != nil {
				if !strings.Contains(string(m.Raw), `"`+l.Host.PeerID+`"`) {
					e.R.Violate("joincode:names-another-session:collision:"+class,
						fmt.Sprintf("a join on the code %s of session %s was admitted to a session that does not contain its host %s (peer_list %s)", l.Sess.Code, l.Name, l.Host.PeerID, string(m.Raw)),
						caseSpec, map[string]any{"trace": trace})
				} else {
					x.st.count("collide:joins_landed_in_the_right_session", 1)
				}
			}
		}
	}
	sleepUntil := func(t int64) {
		if d := t - c14Now(); d > 0 {
			time.Sleep(time.Duration(d))
		}
	}
	// reaped: the server closed the host's socket (the expiry callback does that right before Store.Delete)
	waitReaped := func(l *c14CollLive) bool {
		select {
		case <-l.Host.WS.closed:
		case <-time.After(time.Duration(T) + 6*time.Second):
			fail("the server did not close the host socket of %s after its lifetime", l.Name)
			return false
		}
		tr("server closed the host socket of %s (expiry callback reached Store.Delete); 100 ms settle", l.Name)
		time.Sleep(100 * time.Millisecond)
		return true
	}

	X := codes(0)[0]
	a, ok := mk("A", codes(0))
	if !ok {
		return
	}
	if a.Sess.Code != X {
		fail("the dictated draw was not taken (A has code %s, planned %s): join-code override not active in thruserv", a.Sess.Code, X)
		return
	}
	x.st.count("collide:dictated_first_code_taken", 1)
	confirmed := true
	switch r.Variant {
	case "live-holder":
		keep(a)
		b, ok := mk("B", codes(0, 1))
		if !ok {
			return
		}
		keep(b)
		admit(a, "live-holder")
		admit(b, "live-holder")
		c, ok := mk("C", []string{b.Sess.Code, a.Sess.Code, codes(2)[0]})
		if !ok {
			return
		}
		keep(c)
		admit(b, "live-holder")
		admit(c, "live-holder")
	case "expired-unreaped-holder", "chain":
		sleepUntil(a.Sess.End + T + int64(100*time.Millisecond))
		tr("A is past its lifetime; its expiry callback sleeps %d ms at hub.close.afterUnlink before Store.Delete", c14CollHookSleepMs)
		b, ok := mk("B", codes(0, 1))
		if !ok {
			return
		}
		keep(b)
		// on the unchanged tree the second draw is taken: proof that A still held its code (unreaped) at that moment
		if b.Sess.Code == codes(1)[0] {
			x.st.count("collide:holder_past_lifetime_and_unreaped_confirmed(second draw taken)", 1)
		} else {
			confirmed = false
		}
		var c *c14CollLive
		if r.Variant == "chain" {
			c, ok = mk("C", codes(0, 1, 2))
			if !ok {
				return
			}
			keep(c)
		}
		if !waitReaped(a) {
			return
		}
		admit(b, r.Variant+",holder-reaped-later")
		if c != nil {
			admit(c, r.Variant+",holder-reaped-later")
		}
		d, ok := mk("D", []string{b.Sess.Code, codes(0)[0], codes(3)[0]})
		if !ok {
			return
		}
		keep(d)
		admit(b, r.Variant+",holder-reaped-later")
		admit(d, r.Variant+",holder-reaped-later")
	case "expired-reaped-holder":
		if !waitReaped(a) {
			return
		}
		b, ok := mk("B", codes(0, 1))
		if !ok {
			return
		}
		keep(b)
		if b.Sess.Code == X {
			x.st.count("collide:code_of_a_reaped_holder_reused", 1)
		}
		admit(b, "expired-reaped-holder")
		c, ok := mk("C", []string{b.Sess.Code, codes(2)[0]})
		if !ok {
			return
		}
		keep(c)
		admit(b, "expired-reaped-holder")
		admit(c, "expired-reaped-holder")
	case "expired-lookedup-holder":
		sleepUntil(a.Sess.End + T + int64(100*time.Millisecond))
		j := srv.join(nil, X, "receiver", c14PeerID("late"), nil)
		if j.Upgraded() {
			sockets = append(sockets, j)
			if j.Start > a.Sess.End+T {
				e.R.Violate("joincode:admitted-after-expiry", fmt.Sprintf("join started %.1f ms after POST /session returned (lifetime %s) and was admitted", c14ms(j.Start-a.Sess.End), cfg.Timeout), caseSpec, map[string]any{"trace": trace})
			}
		}
		tr("join on A's code after its lifetime: status %d (the lookup removes the expired entry)", j.Status)
		b, ok := mk("B", codes(0, 1))
		if !ok {
			return
		}
		keep(b)
		if b.Sess.Code == X {
			x.st.count("collide:code_of_a_lazily_removed_holder_reused", 1)
		}
		if !waitReaped(a) {
			return
		}
		admit(b, "expired-lookedup-holder,holder-reaped-later")
		c, ok := mk("C", []string{b.Sess.Code, codes(2)[0]})
		if !ok {
			return
		}
		keep(c)
		admit(b, "expired-lookedup-holder,holder-reaped-later")
		admit(c, "expired-lookedup-holder,holder-reaped-later")
	case "host-left-holder":
		if a.Host.WS.CloseGraceful(5*time.Second) == 0 {
			fail("server's FIN after the host's close handshake was not observed")
			return
		}
		tr("A's host left (close handshake, server's FIN seen)")
		b, ok := mk("B", codes(0, 1))
		if !ok {
			return
		}
		keep(b)
		if b.Sess.Code == X {
			x.st.count("collide:code_of_a_session_whose_host_left_reused", 1)
		}
		admit(b, "host-left-holder")
		c, ok := mk("C", []string{b.Sess.Code, codes(2)[0]})
		if !ok {
			return
		}
		keep(c)
		admit(b, "host-left-holder")
		admit(c, "host-left-holder")
	}
	x.st.sample("collide", map[string]any{"round": r.key(), "lifetime": cfg.Timeout.String(), "server_env": plan.env(), "trace": trace, "joins_with_verdict": verdicts})
	if verdicts < 3 {
		e.R.NoVerd()
		x.st.count("collide:rounds_without_enough_verdicts", 1)
		return
	}
	if !confirmed {
		// the holder was not in the planned state any more when B was created (slow machine): the round still
		// judged what it saw, but does not count for its class
		x.st.count("collide:rounds_holder_state_not_confirmed", 1)
		return
	}
	x.st.count("collide:decided:"+r.Variant, 1)
	x.decided(r)
}
