//go:build verif

package main

// C14 part (b), continued: histories with DUPLICATE PEER IDS.
//
// thruserv's hub is last-write-wins per peer_id: a second connection that presents a peer_id that is
// already registered in the session replaces the first one in the hub, while the first one's socket and
// handler stay alive until that socket closes. The ordinary limit / lifetime rounds give every socket a
// fresh peer_id, so none of the bookkeeping along that path (what a replaced connection still counts for,
// what its disconnect handler does) was ever executed. These rounds run scripted histories of that kind -
// the same id reconnects (the stale socket closes before the new one joins / while the new one is live /
// after the new one left), a receiver presents another receiver's id, a receiver presents the HOST's id,
// the host reconnects under its own id - strictly sequentially (every join waits for the server's
// peer_list, every close for the server's FIN) and then apply the oracles of the ordinary rounds.
//
// The "full/..." histories put the duplicate id where the limit decides: the session is first filled with
// fresh receivers until the server refuses one (F), and only then a connection with role=receiver presents
// a peer id that is registered in the session AT THAT MOMENT - with another role (the host's id; the id of
// a second sender-role connection that joined just before, which is never limited; once, repeatedly, as a
// start-barrier burst) or with the same role (a live receiver's id, i.e. a reconnect into a full session),
// or an id that was registered and has left. Such an attempt (T) may be admitted or refused - the property
// does not say that a reconnect must get in - but the receiver sockets that are open afterwards are counted
// as below.
//
//   dupid-recv     after the history the session is filled with fresh receivers one by one; the receiver
//                  sockets the harness holds open that were not themselves replaced by a later registered
//                  join of the same id, and that answer a ping after a settle period, must number
//                  <= --max-receivers-per-sender.
//   dupid-hostleft before any sender socket is closed a join inside the lifetime must not get a 404; after
//                  the server's FIN for the LAST sender-role socket of the session (or after create-return +
//                  lifetime in the expiry variants) every join must be refused. While one of two host sockets
//                  is closed and the other still open nothing is judged (the property does not say which of
//                  them is "the host").

import (
	"fmt"
	"strings"
	"time"

	vk "github.com/sheerbytes/sheerbytes/internal/verifkit"
)

// c14DupOp: J = join as conn Name with peer id ID ("@host" = the host's id, "@wit" = the witness's id,
// anything else = a fresh id drawn once per letter) and Role; C = close conn Name gracefully and wait for
// the server's FIN ("host" names the first host socket).
// F = fill: fresh receivers join one by one (conns fill0, fill1, ..; "@fill0" = the id of fill0) until the
// server refuses one with the receiver limit, at most limit+1 attempts. T = like J, but the join may also
// be refused with the receiver limit (an attempt against a session that is expected to be full).
// B:n = n fresh ids join with role sender one by one, then all n ids join again with role receiver in a
// start-barrier burst (each may be admitted or refused with the receiver limit).
type c14DupOp struct {
	Op, Name, ID, Role string
	N                  int
}

func c14DupScript(s string) []c14DupOp {
	var out []c14DupOp
	for _, f := range strings.Fields(s) {
		p := strings.Split(f, ":")
		switch p[0] {
		case "J", "T":
			out = append(out, c14DupOp{Op: p[0], Name: p[1], ID: p[2], Role: map[string]string{"r": "receiver", "s": "sender"}[p[3]]})
		case "F":
			out = append(out, c14DupOp{Op: "F"})
		case "B":
			n := 0
			fmt.Sscan(p[1], &n)
			out = append(out, c14DupOp{Op: "B", N: n})
		case "C":
			out = append(out, c14DupOp{Op: "C", Name: p[1]})
		}
	}
	return out
}

type c14DupVariant struct {
	Name, Script string
}

// receiver-limit histories (a host with a fresh id is connected before the script starts)
var c14DupRecvVariants = []c14DupVariant{
	{"reconnect/stale-closes-while-new-is-live", "J:A:x:r J:B:x:r C:A"},
	{"reconnect/new-closes-then-stale", "J:A:x:r J:B:x:r C:B C:A"},
	{"reconnect/stale-closed-before-rejoin", "J:A:x:r C:A J:B:x:r"},
	{"reconnect/twice", "J:A:x:r J:B:x:r C:A J:C:x:r C:B"},
	{"other-receivers-id/replaced-closes", "J:A:x:r J:B:x:r J:O:y:r C:A"},
	{"other-receivers-id/replaced-stays-open", "J:A:x:r J:B:x:r"},
	{"hosts-id/stays", "J:R:@host:r"},
	{"hosts-id/leaves", "J:R:@host:r C:R"},
	{"hosts-id/twice-first-leaves", "J:R:@host:r J:S:@host:r C:R"},
	// the session is at its limit when the registered id is presented (see the header)
	{"full/hosts-id-as-receiver", "F T:R:@host:r"},
	{"full/hosts-id-as-receiver-twice", "F T:R:@host:r T:S:@host:r"},
	{"full/second-senders-id-as-receiver", "F J:X:x:s T:Y:x:r"},
	{"full/second-senders-id-as-receiver/sender-joined-before-the-fill", "J:X:x:s F T:Y:x:r"},
	{"full/second-senders-id-as-receiver/repeated", "F J:X:x:s T:Y:x:r J:U:u:s T:V:u:r J:W:w:s T:Z:w:r"},
	{"full/second-senders-id-as-receiver/burst", "F B:4"},
	{"full/live-receivers-id-as-receiver", "F T:R:@fill0:r"},
	{"full/live-receivers-id-as-sender-then-receiver", "F J:X:@fill0:s T:Y:@fill0:r"},
	{"full/receiver-left-and-reconnects", "F C:fill0 T:R:@fill0:r"},
}

func c14DupFull(variant string) bool { return strings.HasPrefix(variant, "full/") }

// host-left / expiry histories (host "host" and a witness receiver "wit" are connected before the script
// starts; the script must not close a sender socket - the closing order of the sender sockets is Close)
type c14DupHostVariant struct {
	Name, Script string
	Close        []string // sender sockets in closing order; empty = expiry variant (nothing is closed)
}

var c14DupHostVariants = []c14DupHostVariant{
	{"hosts-id-receiver/stays", "J:R:@host:r", []string{"host"}},
	{"hosts-id-receiver/leaves-first", "J:R:@host:r C:R", []string{"host"}},
	{"hosts-id-receiver/twice-first-leaves", "J:R:@host:r J:S:@host:r C:R", []string{"host"}},
	{"other-receivers-id", "J:R:@wit:r", []string{"host"}},
	{"receiver-reconnects/stale-closes", "J:A:x:r J:B:x:r C:A", []string{"host"}},
	{"host-reconnects/stale-closes-first", "J:H2:@host:s", []string{"host", "H2"}},
	{"host-reconnects/new-closes-first", "J:H2:@host:s", []string{"H2", "host"}},
	{"expiry/hosts-id-receiver", "J:R:@host:r", nil},
	{"expiry/hosts-id-receiver-leaves", "J:R:@host:r C:R", nil},
	{"expiry/host-reconnects", "J:H2:@host:s", nil},
}

func c14GenDupRounds(e *Env) []c14Round {
	rng := vk.NewRng(e.Seed ^ vk.HashStr("c14dup"+e.Tier))
	var out []c14Round
	recv := c14Small()
	recv.Name, recv.MaxWS = "dupid-receivers", 80
	host := c14Small()
	host.Name, host.MaxRecv, host.MaxWS = "dupid-lifetime", 12, 80
	hostNoTTL := host
	hostNoTTL.Name, hostNoTTL.Timeout = "dupid-lifetime-no-timeout", 0
	for rep := 0; rep < e.Pick(1, 12); rep++ {
		for _, v := range c14DupRecvVariants {
			c := recv
			if rep > 0 {
				c.MaxRecv = 2 + rng.Intn(3)
				c.Name = fmt.Sprintf("dupid-receivers-%d", c.MaxRecv)
			}
			out = append(out, c14Round{Cfg: c, Kind: "dupid-recv", Variant: v.Name, Seed: rng.U64()})
		}
		for _, v := range c14DupHostVariants {
			out = append(out, c14Round{Cfg: host, Kind: "dupid-hostleft", N: 6 + rng.Intn(8), Variant: v.Name, Seed: rng.U64()})
			if len(v.Close) > 0 {
				out = append(out, c14Round{Cfg: hostNoTTL, Kind: "dupid-hostleft", N: 6 + rng.Intn(8), Variant: v.Name, Seed: rng.U64()})
			}
		}
	}
	return out
}

// c14DupConn is one socket of a duplicate-id history.
type c14DupConn struct {
	Name     string
	J        *c14Join
	Closed   bool // closed by the harness (server's FIN seen)
	Replaced bool // a later join with the same peer id was registered while this socket was open
}

type c14DupState struct {
	srv   *c14Server
	code  string
	ids   map[string]string
	conns map[string]*c14DupConn
	order []*c14DupConn
	log   []string

	x        *c14Run // for the burst op
	maxRecv  int
	nFill    int
	fullSeen int // fills (op F) that the server refused with the receiver limit
	tries    int // joins of op T / B that were allowed to be refused
	triesIn  int // .. admitted
	triesOut int // .. refused with the receiver limit
}

func (s *c14DupState) add(name string, j *c14Join) *c14DupConn {
	c := &c14DupConn{Name: name, J: j}
	s.conns[name] = c
	s.order = append(s.order, c)
	return c
}

func (s *c14DupState) id(sym string) string {
	if v, ok := s.ids[sym]; ok {
		return v
	}
	v := c14PeerID("dup" + sym + "-")
	s.ids[sym] = v
	return v
}

// closeFIN closes one socket with the close handshake; false = the server's FIN was not observed.
func (s *c14DupState) closeFIN(c *c14DupConn) (int64, bool) {
	fin := c.J.WS.CloseGraceful(5 * time.Second)
	c.Closed = true
	s.log = append(s.log, fmt.Sprintf("close %s (peer %s) fin_seen=%v", c.Name, c.J.PeerID, fin != 0))
	return fin, fin != 0
}

// run executes the script; a non-empty string = the history could not be produced.
func (s *c14DupState) run(ops []c14DupOp) string {
	for _, op := range ops {
		switch op.Op {
		case "J", "T":
			pid := s.id(op.ID)
			j := s.srv.join(nil, s.code, op.Role, pid, nil)
			s.log = append(s.log, fmt.Sprintf("join %s peer=%s role=%s -> status=%d err=%q", op.Name, pid, op.Role, j.Status, j.ErrText))
			if op.Op == "T" {
				s.tries++
				if !j.Upgraded() && j.Status == 429 && j.ErrText == c14ErrRecvLimit {
					s.triesOut++
					continue
				}
			}
			if !j.Upgraded() {
				return fmt.Sprintf("scripted join %s (peer %s, %s) was not admitted: %v", op.Name, pid, op.Role, j.brief())
			}
			if why := s.registered(op.Name, j); why != "" {
				return why
			}
			if op.Op == "T" {
				s.triesIn++
			}
		case "F":
			for i := 0; i < s.maxRecv+1; i++ {
				name := fmt.Sprintf("fill%d", s.nFill)
				pid := c14PeerID("dupfill")
				j := s.srv.join(nil, s.code, "receiver", pid, nil)
				s.log = append(s.log, fmt.Sprintf("fill %s peer=%s role=receiver -> status=%d err=%q", name, pid, j.Status, j.ErrText))
				if j.Upgraded() {
					if why := s.registered(name, j); why != "" {
						return why
					}
					s.ids["@"+name] = pid
					s.nFill++
					continue
				}
				if j.Status == 429 && j.ErrText == c14ErrRecvLimit {
					s.fullSeen++
					break
				}
				return fmt.Sprintf("fill join %s: unexpected outcome %v", name, j.brief())
			}
		case "B":
			specs := make([]c14JoinSpec, op.N)
			for i := range specs {
				pid := c14PeerID("dupburst")
				j := s.srv.join(nil, s.code, "sender", pid, nil)
				s.log = append(s.log, fmt.Sprintf("join burst-sender%d peer=%s role=sender -> status=%d err=%q", i, pid, j.Status, j.ErrText))
				if !j.Upgraded() {
					return fmt.Sprintf("scripted join burst-sender%d (peer %s, sender) was not admitted: %v", i, pid, j.brief())
				}
				if why := s.registered(fmt.Sprintf("burst-sender%d", i), j); why != "" {
					return why
				}
				specs[i] = c14JoinSpec{s.code, "receiver", pid}
			}
			for i, j := range s.x.socketBurst(s.srv, specs, true) {
				s.tries++
				s.log = append(s.log, fmt.Sprintf("burst join burst-receiver%d peer=%s role=receiver -> status=%d err=%q neterr=%q", i, j.PeerID, j.Status, j.ErrText, j.NetErr))
				switch {
				case j.Upgraded():
					// the ids of one burst are pairwise distinct: each of these joins can only replace its own sender socket
					if why := s.registered(fmt.Sprintf("burst-receiver%d", i), j); why != "" {
						return why
					}
					s.triesIn++
				case j.Status == 429 && j.ErrText == c14ErrRecvLimit:
					s.triesOut++
				default:
					return fmt.Sprintf("burst join %d (peer %s, receiver): unexpected outcome %v", i, j.PeerID, j.brief())
				}
			}
		case "C":
			c := s.conns[op.Name]
			if c == nil {
				return "script closes unknown socket " + op.Name
			}
			if _, ok := s.closeFIN(c); !ok {
				return fmt.Sprintf("server's FIN for the close of %s was not observed (%s)", op.Name, c.J.WS.CloseInfo())
			}
		}
	}
	return ""
}

// registered waits for the server's peer_list of an admitted join, marks the open sockets of the same peer
// id as replaced and records the new socket. A non-empty string = the history could not be produced.
func (s *c14DupState) registered(name string, j *c14Join) string {
	// the socket is recorded first so that dropAll closes it in every case
	c := s.add(name, j)
	if !j.WS.WaitRegistered(3 * time.Second) {
		return fmt.Sprintf("scripted join %s: no peer_list from the server", name)
	}
	for _, o := range s.order {
		if o != c && !o.Closed && o.J.PeerID == j.PeerID {
			o.Replaced = true
		}
	}
	return ""
}

func (s *c14DupState) dropAll() {
	for _, c := range s.order {
		if c.J != nil && c.J.WS != nil {
			c.J.WS.Drop()
		}
	}
}

func newC14DupState(srv *c14Server, code string, host *c14Join) *c14DupState {
	s := &c14DupState{srv: srv, code: code, ids: map[string]string{"@host": host.PeerID}, conns: map[string]*c14DupConn{}}
	s.add("host", host)
	return s
}

// ---- receiver limit ---------------------------------------------------------------------

func (x *c14Run) roundDupRecv(r c14Round, srv *c14Server) {
	e, cfg := x.e, r.Cfg
	var v *c14DupVariant
	for i := range c14DupRecvVariants {
		if c14DupRecvVariants[i].Name == r.Variant {
			v = &c14DupRecvVariants[i]
		}
	}
	sess, host, ok := x.hostOnly(r, srv)
	if !ok || v == nil {
		return
	}
	st := newC14DupState(srv, sess.Code, host)
	st.x, st.maxRecv = x, cfg.MaxRecv
	defer st.dropAll()
	if why := st.run(c14DupScript(v.Script)); why != "" {
		e.R.Inconcl(fmt.Sprintf("%s %s: %s", r.ID, r.key(), why))
		return
	}
	full := c14DupFull(v.Name)
	// fill with fresh receivers, one by one
	specs := make([]c14JoinSpec, cfg.MaxRecv+3)
	for i := range specs {
		specs[i] = c14JoinSpec{sess.Code, "receiver", c14PeerID("fill")}
	}
	fills := x.socketBurst(srv, specs, false)
	defer c14DropAll(fills)
	t := c14Tally(fills)
	// live receivers: sockets of role receiver that the harness neither closed nor replaced
	var live, replacedOpen []*c14Join
	for _, c := range st.order {
		if c.J.Role != "receiver" || c.Closed {
			continue
		}
		if c.Replaced {
			replacedOpen = append(replacedOpen, c.J)
		} else {
			live = append(live, c.J)
		}
	}
	live = append(live, fills...)
	open, upgraded := c14OpenCount(live, 150*time.Millisecond)
	zombies, _ := c14OpenCount(replacedOpen, 0)
	caseSpec := map[string]any{"round": r, "flags": cfg.flags(), "script": v.Script}
	obs := map[string]any{"round": r.key(), "history": st.log, "fill_joins": len(fills), "fill_admitted": t.Upgraded, "fill_refused_receiver_limit": t.RecvLimit, "refused_404": t.NotFound, "other": t.Other,
		"receiver_sockets_held_open_and_not_replaced": upgraded, "of_those_answering_a_ping_after_settle": open, "replaced_sockets_left_open_by_the_server(not counted)": zombies, "max_receivers": cfg.MaxRecv}
	if full {
		obs["fills_refused_with_the_receiver_limit_before_the_registered_id_was_presented"] = st.fullSeen
		obs["joins_presenting_a_registered_id_to_the_full_session"] = st.tries
		obs["of_those_admitted"] = st.triesIn
		obs["of_those_refused_receiver_limit"] = st.triesOut
	}
	if t.Other > 0 || t.ConnLimit > 0 || t.Rate > 0 {
		e.R.Inconcl(fmt.Sprintf("%s %s: unexpected join outcome %s", r.ID, r.key(), t.OtherText))
		return
	}
	if full {
		x.st.sample("dupid-recv-full", obs)
		x.st.limit("max-receivers:registered-peer-id-at-full-session", cfg.MaxRecv, open, len(fills)+st.tries+st.nFill+st.fullSeen)
		x.st.count("dupid-recv:full:joins_presenting_a_registered_id_to_the_full_session", st.tries)
		x.st.count("dupid-recv:full:of_those_admitted", st.triesIn)
		x.st.count("dupid-recv:full:of_those_refused_receiver_limit", st.triesOut)
		if st.fullSeen > 0 && st.tries > 0 {
			x.st.count("dupid-recv:full:session_seen_full_before_the_id_was_presented:"+v.Name, 1)
		}
	} else {
		x.st.sample("dupid-recv", obs)
		x.st.limit("max-receivers:duplicate-peer-id", cfg.MaxRecv, open, len(fills))
	}
	x.st.count("dupid-recv:replaced_sockets_left_open_by_the_server", zombies)
	if t.RecvLimit > 0 {
		x.st.count("dupid-recv:rounds_in_which_the_limit_refused_a_fill", 1)
	}
	if open > cfg.MaxRecv && full {
		e.R.Violate("limit:max-receivers:registered-peer-id:session-full", fmt.Sprintf("%d receiver sockets of one session open at the same time (none of them replaced by a later join of its peer id; all answered a ping after the last join) with --max-receivers-per-sender %d, after a history in which the session was filled with fresh receivers until the server refused one and then %d connection(s) with role=receiver presented a peer id that was registered in that session (%s: %s; %d of them admitted), and then %d fresh receivers tried to join one by one",
			open, cfg.MaxRecv, st.tries, v.Name, v.Script, st.triesIn, len(fills)), caseSpec, obs)
	} else if open > cfg.MaxRecv {
		e.R.Violate("limit:max-receivers:duplicate-peer-id", fmt.Sprintf("%d receiver sockets of one session open at the same time (none of them replaced by a later join of its peer id; all answered a ping after the last join) with --max-receivers-per-sender %d, after a history in which a peer id was presented twice (%s: %s) and then %d fresh receivers joined one by one",
			open, cfg.MaxRecv, v.Name, v.Script, len(fills)), caseSpec, obs)
	}
	x.st.count("dupid-recv:decided:"+v.Name, 1)
	x.decided(r)
}

// ---- host left / expiry ---------------------------------------------------------------------

func (x *c14Run) roundDupHost(r c14Round, srv *c14Server) {
	e, cfg := x.e, r.Cfg
	var v *c14DupHostVariant
	for i := range c14DupHostVariants {
		if c14DupHostVariants[i].Name == r.Variant {
			v = &c14DupHostVariants[i]
		}
	}
	sess, host, ok := x.hostOnly(r, srv)
	if !ok || v == nil {
		return
	}
	st := newC14DupState(srv, sess.Code, host)
	defer st.dropAll()
	wit := srv.join(nil, sess.Code, "receiver", c14PeerID("wit"), nil)
	if !wit.Upgraded() || !wit.WS.WaitRegistered(3*time.Second) {
		e.R.Inconcl(fmt.Sprintf("%s %s: witness receiver not admitted: %v", r.ID, r.key(), wit.brief()))
		return
	}
	st.add("wit", wit)
	st.ids["@wit"] = wit.PeerID
	if why := st.run(c14DupScript(v.Script)); why != "" {
		e.R.Inconcl(fmt.Sprintf("%s %s: %s", r.ID, r.key(), why))
		return
	}
	caseSpec := map[string]any{"round": r, "flags": cfg.flags(), "script": v.Script, "close_order": v.Close}

	// (1) no sender socket has been closed: a join inside the lifetime must not be told "no such code"
	senders := []*c14DupConn{}
	for _, c := range st.order {
		if c.J.Role == "sender" {
			senders = append(senders, c)
		}
	}
	up0 := true
	for _, c := range senders {
		up0 = up0 && c.J.WS.Alive(3*time.Second)
	}
	probe := srv.join(nil, sess.Code, "receiver", c14PeerID("probe"), nil)
	if probe.Upgraded() {
		probe.WS.WaitRegistered(3 * time.Second)
		st.add("probe", probe)
	}
	up1 := true
	for _, c := range senders {
		up1 = up1 && c.J.WS.Alive(3*time.Second)
	}
	inside := cfg.Timeout == 0 || probe.End < sess.Start+int64(cfg.Timeout)
	if up0 && up1 && inside {
		x.st.count("dupid-host:must_admit_probes", 1)
		if probe.Status == 404 {
			e.R.Violate("joincode:refused-inside-lifetime:duplicate-peer-id", fmt.Sprintf("after a history in which a peer id was presented twice (%s: %s), with every host socket still open (ping answered before and after) and %.1f ms after the create call (lifetime %s), a join was refused with 404 %q",
				v.Name, v.Script, c14ms(probe.End-sess.Start), cfg.Timeout, probe.ErrText), caseSpec, map[string]any{"history": st.log, "probe": probe.brief(), "server_log_tail": srv.LogTail(40)})
		}
	} else {
		e.R.NoVerd()
	}

	// (2) the point after which nothing may be admitted
	var point int64
	how := ""
	if len(v.Close) == 0 {
		// expiry variant: nothing is closed; joins that start after create-return + lifetime
		point = sess.End + int64(cfg.Timeout)
		if d := time.Duration(point-c14Now()) + 60*time.Millisecond; d > 0 {
			time.Sleep(d)
		}
		how = "create-return + lifetime " + cfg.Timeout.String()
	} else {
		for i, name := range v.Close {
			c := st.conns[name]
			if c == nil {
				e.R.Inconcl(fmt.Sprintf("%s %s: sender socket %s missing", r.ID, r.key(), name))
				return
			}
			fin, ok := st.closeFIN(c)
			if !ok {
				e.R.Inconcl(fmt.Sprintf("%s %s: server's FIN after the close handshake of %s was not observed (%s)", r.ID, r.key(), name, c.J.WS.CloseInfo()))
				return
			}
			point = fin
			if i+1 < len(v.Close) {
				// one of two host sockets is closed, the other one is open: observed, not judged
				mid := srv.join(nil, sess.Code, "receiver", c14PeerID("mid"), nil)
				if mid.Upgraded() {
					x.st.count("dupid-host:one_of_two_host_sockets_closed:join_admitted(no verdict)", 1)
					mid.WS.Drop()
				} else {
					x.st.count(fmt.Sprintf("dupid-host:one_of_two_host_sockets_closed(%s):join_refused_%d(no verdict)", v.Name, mid.Status), 1)
				}
				e.R.NoVerd()
			}
		}
		how = "server's FIN for the close handshake of the last sender-role socket (" + strings.Join(v.Close, ", then ") + ")"
	}

	// (3) joins that start after the point: half as a burst, half one by one; fresh ids, the host's id, would-be hosts
	specs := make([]c14JoinSpec, r.N)
	for i := range specs {
		switch i % 4 {
		case 1:
			specs[i] = c14JoinSpec{sess.Code, "receiver", host.PeerID}
		case 3:
			specs[i] = c14JoinSpec{sess.Code, "sender", c14PeerID("late")}
		default:
			specs[i] = c14JoinSpec{sess.Code, "receiver", c14PeerID("late")}
		}
	}
	half := len(specs) / 2
	late := x.socketBurst(srv, specs[:half], true)
	late = append(late, x.socketBurst(srv, specs[half:], false)...)
	defer c14DropAll(late)
	admitted, refused404, other, judged := 0, 0, 0, 0
	var first *c14Join
	var lateAll []map[string]any
	for _, j := range late {
		b := j.brief()
		b["peer"] = j.PeerID
		b["start_ms_after_point"] = c14ms(j.Start - point)
		lateAll = append(lateAll, b)
		if j.Start <= point {
			e.R.NoVerd()
			continue
		}
		judged++
		switch {
		case j.Upgraded():
			admitted++
			if first == nil {
				first = j
			}
		case j.Status == 404:
			refused404++
		default:
			other++
		}
	}
	x.st.count("dupid-host:joins_after_point", judged)
	x.st.count("dupid-host:refused_404_after_point", refused404)
	obs := map[string]any{"round": r.key(), "history": st.log, "point": how, "joins_started_after_point": judged, "admitted": admitted, "refused_404": refused404, "refused_otherwise": other,
		"ms_since_create": c14ms(c14Now() - sess.Start), "lifetime": cfg.Timeout.String()}
	x.st.sample("dupid-hostleft", obs)
	if admitted > 0 {
		detail := map[string]any{"obs": obs, "first_admitted": first.brief(), "first_admitted_peer": first.PeerID, "host_peer": host.PeerID, "session": sess.ID, "late_joins": lateAll, "server_log_tail": srv.LogTail(60)}
		if len(v.Close) == 0 {
			e.R.Violate("joincode:admitted-after-expiry:duplicate-peer-id", fmt.Sprintf("%d of %d joins that started after %s were admitted, after a history in which a peer id was presented twice (%s: %s)", admitted, judged, how, v.Name, v.Script), caseSpec, detail)
		} else {
			e.R.Violate("joincode:admitted-after-host-left:duplicate-peer-id", fmt.Sprintf("%d of %d joins that started after every host socket of the session had been closed (%s; first one %.1f ms after that point) were admitted with the old join code, after a history in which a peer id was presented twice (%s: %s)",
				admitted, judged, how, c14ms(first.Start-point), v.Name, v.Script), caseSpec, detail)
		}
	}
	if judged == 0 {
		e.R.Inconcl(fmt.Sprintf("%s %s: no join started after the point", r.ID, r.key()))
		return
	}
	x.st.count("dupid-host:decided:"+v.Name, 1)
	x.decided(r)
}
