//go:build verif

package main

// C14 part (b), continued: the per-address limiters (session creation, websocket connect) under
// concurrent FIRST requests. The idle/burst histories of c14rate.go start every address with a
// request that arrives alone (or after a warmed-up keep-alive connection of a client that has
// been seen); here the very first requests the server ever sees from a source address are a
// start-barrier burst: per round one fresh thruserv and a few hundred fresh loopback addresses
// (127.x.y.z), each of which sends nothing but one burst. The TCP connections are dialled and
// the requests written up to their last byte before the barrier (a TCP accept and a partial
// request do not reach the limiter), the last byte is written behind the barrier.
//
// Oracle: the sliding-window bound of c14rate.go, per address - for any two admitted requests
// i, j of one address the admitted requests bracketed inside [S_i, E_j] number at most
// burst + rate*(E_j - S_i). No wall-clock verdict; under-admission is never a violation.

import (
	"bufio"
	"encoding/json"
	"fmt"
	"io"
	"net"
	"net/http"
	"net/url"
	"sync"
	"sync/atomic"
	"syscall"
	"time"

	vk "github.com/sheerbytes/sheerbytes/internal/verifkit"
)

// c14FirstCfgs: two (rate, burst) vectors with a slow refill, so that one request too many
// shows in any window shorter than 1/rate (0.5 s / 0.2 s).
func c14FirstCfgs() []c14Cfg {
	base := c14Cfg{MaxSessions: 0, MaxRecv: 0, MaxWS: 0, MaxBytes: 1024, Timeout: 0, MsgRate: 0, MsgBurst: 10}
	a, b := base, base
	a.Name, a.SessPerMin, a.SessBurst, a.ConnPerMin, a.ConnBurst = "first-a", 120, 3, 120, 3
	b.Name, b.SessPerMin, b.SessBurst, b.ConnPerMin, b.ConnBurst = "first-b", 300, 6, 300, 5
	return []c14Cfg{a, b}
}

// c14GenFirstRounds: (configuration, limiter, requests per address) x repetitions; N = fresh
// addresses per round, Prefill = requests per address.
func c14GenFirstRounds(e *Env) []c14Round {
	rng := vk.NewRng(e.Seed ^ vk.HashStr("c14first"+e.Tier))
	var out []c14Round
	addrs := e.Pick(240, 600)
	reps := e.Pick(1, 3)
	for rep := 0; rep < reps; rep++ {
		for _, cfg := range c14FirstCfgs() {
			for _, kind := range []string{"rate-first-sess", "rate-first-ws"} {
				for _, per := range []int{16, 32} {
					out = append(out, c14Round{Cfg: cfg, Kind: kind, N: addrs, Prefill: per, Variant: "first-burst", Seed: rng.U64()})
				}
			}
		}
	}
	return out
}

// c14FreshIP: the k-th fresh source address of a round (never 127.0.0.x, which the other
// rounds use).
func c14FreshIP(octet int, k int) net.IP {
	return net.IPv4(127, byte(1+octet%200), byte(1+k/250), byte(1+k%250))
}

var c14FirstOctet atomic.Int64 // rounds running at the same time use different 127.x/16 blocks

const c14FirstSrcPort = 61100

// c14RawReq sends one request on a pre-dialled connection: everything but the last byte before
// the barrier, the last byte behind it; returns the bracket and the parsed reply.
type c14RawRes struct {
	S, E    int64
	Status  int
	ErrText string
	NetErr  string
}

func c14RawBurst(port int, ip net.IP, reqs [][]byte) []c14RawRes {
	n := len(reqs)
	res := make([]c14RawRes, n)
	bar := newC14Barrier(n)
	var wg sync.WaitGroup
	for i := 0; i < n; i++ {
		wg.Add(1)
		go func(i int) {
			defer wg.Done()
			r := &res[i]
			// fixed source ports outside the ephemeral range (every address is used once, so the same 16-32
			// port numbers serve all of them), SO_REUSEADDR and a reset instead of a FIN at the end: the
			// thousands of connections of a round leave no TIME_WAIT entries that would keep ephemeral
			// ports busy for the servers other rounds / other checks start on the same machine
			d := &net.Dialer{Timeout: 5 * time.Second, LocalAddr: &net.TCPAddr{IP: ip, Port: c14FirstSrcPort + i},
				Control: func(network, address string, rc syscall.RawConn) error {
					var serr error
					if err := rc.Control(func(fd uintptr) { serr = syscall.SetsockoptInt(int(fd), syscall.SOL_SOCKET, syscall.SO_REUSEADDR, 1) }); err != nil {
						return err
					}
					return serr
				}}
			conn, err := d.Dial("tcp", fmt.Sprintf("127.0.0.1:%d", port))
			if tc, ok := conn.(*net.TCPConn); ok && err == nil {
				_ = tc.SetLinger(0)
			}
			if err == nil {
				_ = conn.SetDeadline(time.Now().Add(20 * time.Second))
				_, err = conn.Write(reqs[i][:len(reqs[i])-1])
			}
			last := reqs[i][len(reqs[i])-1:]
			bar.wait()
			if err != nil {
				r.S, r.E = c14Now(), c14Now()
				r.NetErr = "pre-barrier: " + err.Error()
				if conn != nil {
					_ = conn.Close()
				}
				return
			}
			defer conn.Close()
			r.S = c14Now()
			if _, err := conn.Write(last); err != nil {
				r.E = c14Now()
				r.NetErr = err.Error()
				return
			}
			resp, err := http.ReadResponse(bufio.NewReader(conn), nil)
			if err != nil {
				r.E = c14Now()
				r.NetErr = err.Error()
				return
			}
			r.Status = resp.StatusCode
			if resp.StatusCode != http.StatusSwitchingProtocols {
				body, _ := io.ReadAll(io.LimitReader(resp.Body, 4096))
				var m map[string]any
				if json.Unmarshal(body, &m) == nil {
					if v, ok := m["error"].(string); ok {
						r.ErrText = v
					}
				}
			}
			r.E = c14Now()
		}(i)
	}
	bar.release()
	wg.Wait()
	return res
}

func (x *c14Run) roundRateFirst(r c14Round, srv *c14Server) {
	e := x.e
	limiter, perSec, burst := r.rateParams()
	ws := r.Kind == "rate-first-ws"
	code := ""
	if ws {
		// the session the upgrades name; created from 127.0.0.1 (the creation limiter is a different one)
		sess := srv.create(c14HTTP())
		if !sess.Created() {
			e.R.Inconcl(fmt.Sprintf("%s %s: could not create the session: %+v", r.ID, r.key(), sess))
			return
		}
		code = sess.Code
	}
	host := fmt.Sprintf("127.0.0.1:%d", srv.Port)
	octet := int(c14FirstOctet.Add(1))
	caseSpec := map[string]any{"round": r, "flags": r.Cfg.flags()}
	decided, sharp, maxAdmitted, violated := 0, 0, 0, 0
	var worstAll c14RateWorst
	worstAll.Excess = -1e18
	var firstObs map[string]any
	for k := 0; k < r.N; k++ {
		ip := c14FreshIP(octet, k)
		reqs := make([][]byte, r.Prefill)
		for i := range reqs {
			if ws {
				q := url.Values{}
				q.Set("join_code", code)
				q.Set("peer_id", c14PeerID("fb"))
				q.Set("role", "receiver")
				reqs[i] = []byte("GET /ws?" + q.Encode() + " HTTP/1.1\r\nHost: " + host + "\r\nUpgrade: websocket\r\nConnection: Upgrade\r\nSec-WebSocket-Key: dGhlIHNhbXBsZSBub25jZQ==\r\nSec-WebSocket-Version: 13\r\n\r\n")
			} else {
				reqs[i] = []byte("POST /session HTTP/1.1\r\nHost: " + host + "\r\nContent-Length: 0\r\n\r\n")
			}
		}
		res := c14RawBurst(srv.Port, ip, reqs)
		evs := make([]c14RateEv, 0, len(res))
		admitted, refused := 0, 0
		bad := ""
		for _, c := range res {
			ev := c14RateEv{S: c.S, E: c.E}
			switch {
			case c.NetErr != "":
				bad = "neterr=" + c.NetErr
			case !ws && (c.Status == http.StatusCreated || (c.Status == 429 && c.ErrText == c14ErrSessLimit)):
				ev.Admitted = true
			case ws && (c.Status == http.StatusSwitchingProtocols || (c.Status == 429 && (c.ErrText == c14ErrConnLimit || c.ErrText == c14ErrRecvLimit))):
				ev.Admitted = true
			case c.Status == 429 && c.ErrText == c14ErrRate:
				ev.Refused = true
			default:
				bad = fmt.Sprintf("status=%d err=%q", c.Status, c.ErrText)
			}
			if ev.Admitted {
				admitted++
			}
			if ev.Refused {
				refused++
			}
			evs = append(evs, ev)
		}
		if bad != "" {
			// an address whose burst did not get 16/32 clean replies is left out (never a verdict)
			x.st.count("first-burst:addresses_with_unexpected_outcome", 1)
			if x.st.get("first-burst:addresses_with_unexpected_outcome") <= 3 {
				x.st.sample("first-burst-unexpected", map[string]any{"round": r.key(), "address": ip.String(), "outcome": bad})
			}
			e.R.NoVerd()
			continue
		}
		if admitted == 0 {
			x.st.count("first-burst:addresses_nothing_admitted", 1)
			e.R.NoVerd()
			continue
		}
		w, over := c14RateJudge(evs, perSec, burst)
		decided++
		if admitted > maxAdmitted {
			maxAdmitted = admitted
		}
		first, last := int64(1)<<62, int64(0)
		for _, ev := range evs {
			if ev.S < first {
				first = ev.S
			}
			if ev.Admitted && ev.E > last {
				last = ev.E
			}
		}
		if perSec*float64(last-first)/1e9 < 1 {
			sharp++ // one request too many would show
		}
		if w.Excess > worstAll.Excess {
			worstAll = w
		}
		obs := map[string]any{"round": r.key(), "limiter": limiter, "rate_per_sec": perSec, "burst": burst, "address": ip.String(), "address_index": k,
			"requests_in_the_first_burst": len(res), "admitted": admitted, "refused_by_limiter": refused, "burst_window_ms": c14ms(last - first), "worst_window": w}
		if firstObs == nil {
			firstObs = obs
		}
		if over {
			violated++
			if violated <= 2 {
				e.R.Violate(fmt.Sprintf("limit:%s-rate:exceeded:first-burst", limiter),
					fmt.Sprintf("%d of %d requests that were the first ones thruserv ever saw from %s (start-barrier burst) passed the %s limiter (%.4g/s, burst %d) inside a window of %.1f ms; a bucket of %d tokens refilled at %.4g/s allows at most %.2f in that window",
						w.Count, len(res), ip, limiter, perSec, burst, w.WindowMs, burst, perSec, w.Bound), caseSpec, obs)
			}
		}
	}
	x.rateStat(fmt.Sprintf("%s(%.4g/s,burst %d):first-burst of a fresh address", limiter, perSec, burst), r.N*r.Prefill, worstAll, violated > 0)
	x.st.count("first-burst:"+r.Kind+":addresses_decided", decided)
	x.st.count("first-burst:"+r.Kind+":addresses_sharp(rate*window<1)", sharp)
	x.st.count("first-burst:"+r.Kind+":addresses_exceeding", violated)
	x.st.max(fmt.Sprintf("first-burst:%s:most_admitted_of_one_address(burst %d)", r.Kind, burst), maxAdmitted)
	if firstObs != nil {
		firstObs["addresses_in_round"], firstObs["addresses_decided"], firstObs["addresses_sharp"] = r.N, decided, sharp
		x.st.sample("first-burst-"+limiter, firstObs)
	}
	if decided < r.N*3/4 {
		e.R.Inconcl(fmt.Sprintf("%s %s: only %d of %d fresh addresses got a clean first burst", r.ID, r.key(), decided, r.N))
		return
	}
	x.decided(r)
}
