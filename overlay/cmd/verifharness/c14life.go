//go:build verif

package main

// C14 part (b), continued: message size / rate probes, host-disconnect and expiry brackets.

import (
	"fmt"
	"strings"
	"sync"
	"time"

	vk "github.com/sheerbytes/sheerbytes/internal/verifkit"
)

// waitDelivery waits at dst for one of the given message ids; it gives up early (after a
// short grace for frames already queued at the server) once src was closed by the server.
func c14WaitDelivery(dst, src *c14WS, ids map[string]bool, max time.Duration) (c14Msg, bool) {
	deadline := time.Now().Add(max)
	pred := func(m c14Msg) bool { return ids[m.MsgID] }
	for time.Now().Before(deadline) {
		if m, ok := dst.WaitMsg(40*time.Millisecond, pred); ok {
			return m, true
		}
		if dst.ClosedByServer() {
			return c14Msg{}, false
		}
		if src.ClosedByServer() {
			return dst.WaitMsg(200*time.Millisecond, pred)
		}
	}
	return c14Msg{}, false
}

// c14WireForm: how the probing client puts its text messages on the wire. --max-message-bytes limits
// the message; the frames it travels in and an extension that re-encodes its bytes are the
// client's choice (it only has to offer the extension; whether the server accepts is the server's).
type c14WireForm struct {
	Name   string // r.Variant of the msgsize round ("" = one client with default framing, nothing offered)
	Opt    c14DialOpt
	Random bool // padding hardly compressible instead of one repeated character
}

var c14WireForms = []c14WireForm{
	{Name: "wire=frames<=64B", Opt: c14DialOpt{WriteBuf: 64}},
	{Name: "wire=deflate-offered,runs", Opt: c14DialOpt{OfferDeflate: true}},
	{Name: "wire=deflate-offered,random", Opt: c14DialOpt{OfferDeflate: true}, Random: true},
	{Name: "wire=deflate-offered+frames<=64B,runs", Opt: c14DialOpt{OfferDeflate: true, WriteBuf: 64}},
}

// the forms also driven with --max-message-bytes 0
var c14WireFormsZero = []string{"wire=frames<=64B", "wire=deflate-offered,runs", "wire=deflate-offered,random"}

func c14WireFormOf(variant string) c14WireForm {
	for _, f := range c14WireForms {
		if f.Name == variant {
			return f
		}
	}
	return c14WireForm{}
}

// c14GenWireRounds: msgsize rounds in which the sender of the probes uses another wire form.
func c14GenWireRounds(e *Env) []c14Round {
	rng := vk.NewRng(e.Seed ^ vk.HashStr("c14wire"+e.Tier))
	var out []c14Round
	small := c14Small()
	zb := small
	zb.Name, zb.MaxBytes = "zero-max-message-bytes", 0
	for m := 0; m < e.Pick(2, 12); m++ {
		for _, f := range c14WireForms {
			out = append(out, c14Round{Cfg: small, Kind: "msgsize", Variant: f.Name, Seed: rng.U64()})
		}
		for _, name := range c14WireFormsZero {
			out = append(out, c14Round{Cfg: zb, Kind: "msgsize", Variant: name, Seed: rng.U64()})
		}
	}
	if e.Thorough() {
		for c := 0; c < 8; c++ {
			v := small
			v.Name = fmt.Sprintf("wvar%d", c)
			v.MaxBytes = []int{256, 512, 4096, 16384, 65536}[rng.Intn(5)]
			v.Timeout = time.Duration(2000+rng.Intn(2000)) * time.Millisecond
			for _, f := range c14WireForms {
				out = append(out, c14Round{Cfg: v, Kind: "msgsize", Variant: f.Name, Seed: rng.U64()})
			}
		}
	}
	return out
}

func (x *c14Run) roundMsgSize(r c14Round, srv *c14Server) {
	e, cfg := x.e, r.Cfg
	form := c14WireFormOf(r.Variant)
	formName, keySuffix := "wire=default", ""
	if form.Name != "" {
		formName, keySuffix = form.Name, ":"+form.Name
	}
	socketsDeflate, sockets := 0, 0
	sess, host, ok := x.hostOnly(r, srv)
	if !ok {
		return
	}
	defer func() {
		if host != nil && host.WS != nil {
			host.WS.Drop()
		}
	}()
	var sizes []int
	if cfg.MaxBytes > 0 {
		L := cfg.MaxBytes
		sizes = []int{L / 2, L - 1, L, L + 1, L + 2, 2 * L, 4*L + 7, 70000}
	} else {
		sizes = []int{1025, 4096, 65535, 65536, 65537, 65600, 100000, 1 << 20}
	}
	if form.Opt.OfferDeflate && cfg.MaxBytes > 0 {
		// were the offer accepted, messages of these sizes would travel in far fewer bytes than the limit
		sizes = append(sizes, 64*cfg.MaxBytes+1, 1<<18)
	}
	rng := vk.NewRng(r.Seed)
	caseSpec := map[string]any{"round": r, "flags": cfg.flags()}
	var probes []map[string]any
	largestDelivered, smallestRefused := 0, 0
	decided, rotations := 0, 0
	for _, size := range sizes {
		if cfg.Timeout > 0 && c14Now()-sess.Start > int64(cfg.Timeout)/3 {
			// the session would expire under the probes: let the host leave (frees the session slot) and start over
			if host.WS.CloseGraceful(5*time.Second) == 0 {
				e.R.Inconcl(fmt.Sprintf("%s %s: server's FIN not observed while rotating the session", r.ID, r.key()))
				return
			}
			sess, host, ok = x.hostOnly(r, srv)
			if !ok {
				return
			}
			rotations++
		}
		rcv := x.receiverRetryOpt(srv, sess.Code, form.Opt)
		if !rcv.Upgraded() {
			e.R.Inconcl(fmt.Sprintf("%s %s: receiver could not connect: %v", r.ID, r.key(), rcv.brief()))
			return
		}
		sockets++
		if strings.Contains(rcv.Ext, "permessage-deflate") {
			socketsDeflate++
		}
		bigID := fmt.Sprintf("big-%d-%x", size, rng.U64())
		markID := fmt.Sprintf("mark-%d-%x", size, rng.U64())
		var fill *vk.Rng
		if form.Random {
			fill = rng.Fork()
		}
		frame := c14EnvelopeFill(bigID, host.PeerID, size, fill)
		size = len(frame) // what is actually put on the wire
		err1 := rcv.WS.SendText(frame)
		var err2 error
		if err1 == nil {
			err2 = rcv.WS.SendText(c14Envelope(markID, host.PeerID, 128))
		}
		m, got := c14WaitDelivery(host.WS, rcv.WS, map[string]bool{bigID: true, markID: true}, 4*time.Second)
		delivered := got && m.MsgID == bigID
		markerOnly := got && m.MsgID == markID
		closed := false
		if !delivered {
			closed = !rcv.WS.Alive(2 * time.Second)
		}
		// a socket closed while the session's lifetime had not yet elapsed was not closed by the expiry
		withinLife := cfg.Timeout == 0 || c14Now()-sess.Start < int64(cfg.Timeout)
		if !delivered && !withinLife {
			e.R.NoVerd()
			x.st.count("msgsize:probe_outlived_session", 1)
			rcv.WS.Drop()
			continue
		}
		p := map[string]any{"frame_bytes": len(frame), "delivered": delivered, "sender_socket_closed_by_server": closed, "marker_without_frame": markerOnly}
		if form.Name != "" {
			p["message_bytes"], p["wire_form"], p["extensions_accepted_by_server"] = len(frame), form.Name, rcv.Ext
			delete(p, "frame_bytes")
		}
		if delivered {
			p["delivered_bytes_at_peer"] = m.Len
		}
		if err1 != nil || err2 != nil {
			p["write_err"] = fmt.Sprint(err1, err2)
		}
		probes = append(probes, p)
		switch {
		case delivered:
			decided++
			if size > largestDelivered {
				largestDelivered = size
			}
			if cfg.MaxBytes > 0 && size > cfg.MaxBytes {
				e.R.Violate("limit:max-message-bytes:exceeded"+keySuffix, fmt.Sprintf("a text message of %d bytes (%s) was delivered to the peer with --max-message-bytes %d", size, formName, cfg.MaxBytes), caseSpec, p)
			}
		case closed || markerOnly:
			decided++
			if smallestRefused == 0 || size < smallestRefused {
				smallestRefused = size
			}
			if cfg.MaxBytes == 0 {
				e.R.Violate("limit:max-message-bytes:zero"+keySuffix, fmt.Sprintf("--max-message-bytes 0 (no limit) but a text message of %d bytes ("+formName+") was not delivered and the server closed the sender's socket (frames up to %d bytes were delivered)", size, largestDelivered), caseSpec, p)
			}
		default:
			e.R.Inconcl(fmt.Sprintf("%s %s: frame of %d bytes neither delivered nor refused within the wait", r.ID, r.key(), size))
		}
		rcv.WS.CloseGraceful(2 * time.Second)
	}
	if !host.WS.Alive(3*time.Second) && (cfg.Timeout == 0 || c14Now()-sess.Start < int64(cfg.Timeout)) {
		e.R.Inconcl(fmt.Sprintf("%s %s: host socket died during the size probes although its session had not expired", r.ID, r.key()))
		return
	}
	obs := map[string]any{"round": r.key(), "max_message_bytes": cfg.MaxBytes, "probes": probes, "largest_delivered": largestDelivered, "smallest_refused": smallestRefused, "session_rotations": rotations}
	cls := "limited"
	if cfg.MaxBytes == 0 {
		cls = "zero"
	}
	if form.Name == "" {
		x.st.sample("msgsize", obs)
	} else {
		obs["wire_form"], obs["probe_sockets"], obs["probe_sockets_on_which_the_server_accepted_permessage-deflate"] = form.Name, sockets, socketsDeflate
		if form.Opt.OfferDeflate {
			x.st.sample("msgsize-deflate-offered", obs)
		} else {
			x.st.sample("msgsize-wire", obs)
		}
	}
	if cfg.MaxBytes > 0 {
		x.st.limit("max-message-bytes"+keySuffix, cfg.MaxBytes, largestDelivered, len(sizes))
	} else {
		x.st.limit("max-message-bytes:zero"+keySuffix, 0, largestDelivered, len(sizes))
	}
	x.st.count("msgsize:probes_decided", decided)
	x.st.count("msgsize:"+formName+":probe_sockets", sockets)
	x.st.count("msgsize:"+formName+":probe_sockets_on_which_the_server_accepted_permessage-deflate", socketsDeflate)
	if decided >= len(sizes)-1 {
		x.st.count("msgsize:decided:"+cls+":"+formName, 1)
		x.decided(r)
	}
}

func (x *c14Run) roundMsgRate(r c14Round, srv *c14Server) {
	e, cfg := x.e, r.Cfg
	sess, host, ok := x.hostOnly(r, srv)
	if !ok {
		return
	}
	defer host.WS.Drop()
	rcv := x.receiverRetry(srv, sess.Code)
	if !rcv.Upgraded() {
		e.R.Inconcl(fmt.Sprintf("%s %s: receiver could not connect: %v", r.ID, r.key(), rcv.brief()))
		return
	}
	defer rcv.WS.Drop()
	M := r.N
	pause := r.Seed%2 == 1 // half of the rounds pause mid-way so that the bucket refills
	prefix := fmt.Sprintf("rate-%x-", r.Seed&0xffffff)
	sent := 0
	pauseAt := M / 2
	if cfg.MsgRate > 0 && cfg.MsgBurst-1 < pauseAt && cfg.MsgBurst > 1 {
		pauseAt = cfg.MsgBurst - 1 // pause before the bucket is empty so that the refill is exercised
	}
	for i := 0; i < M; i++ {
		if pause && i == pauseAt {
			time.Sleep(400 * time.Millisecond)
		}
		if err := rcv.WS.SendText(c14Envelope(fmt.Sprintf("%s%d", prefix, i), host.PeerID, 128)); err != nil {
			break
		}
		sent++
	}
	// collect at the host
	delivered, lastAt := 0, int64(0)
	deadline := time.Now().Add(5 * time.Second)
	quietAfterClose := false
	for delivered < M && time.Now().Before(deadline) {
		m, got := host.WS.WaitMsg(40*time.Millisecond, func(m c14Msg) bool { return strings.HasPrefix(m.MsgID, prefix) })
		if got {
			delivered++
			lastAt = m.At
			continue
		}
		if host.WS.ClosedByServer() {
			break
		}
		if rcv.WS.ClosedByServer() {
			if quietAfterClose {
				break
			}
			quietAfterClose = true
			time.Sleep(300 * time.Millisecond)
		}
	}
	closed := rcv.WS.ClosedByServer()
	if !closed && delivered < M {
		closed = !rcv.WS.Alive(2 * time.Second)
	}
	// a socket closed while the session's lifetime had not yet elapsed was not closed by the expiry
	withinLife := cfg.Timeout == 0 || c14Now()-sess.Start < int64(cfg.Timeout)
	if lastAt == 0 {
		lastAt = c14Now()
	}
	elapsed := lastAt - rcv.Start // the per-connection bucket is created after the upgrade began
	caseSpec := map[string]any{"round": r, "flags": cfg.flags()}
	obs := map[string]any{"round": r.key(), "messages_written": sent, "messages_delivered": delivered, "elapsed_ms": c14ms(elapsed), "sender_socket_closed_by_server": closed, "paused_midway": pause, "rate": cfg.MsgRate, "burst": cfg.MsgBurst}
	if cfg.MsgRate > 0 {
		bound := c14RateBound(cfg.MsgBurst, float64(cfg.MsgRate), elapsed)
		obs["bound(burst+rate*elapsed+1)"] = bound
		x.st.limit(fmt.Sprintf("ws-msgs-rate(%d/s,burst %d; limit=bound of the last round)", cfg.MsgRate, cfg.MsgBurst), int(bound), delivered, M)
		if float64(delivered) > bound {
			e.R.Violate("limit:ws-msgs-rate:exceeded", fmt.Sprintf("%d messages of one connection were delivered within %.1f ms; burst %d + %d/s allows at most %.2f", delivered, c14ms(elapsed), cfg.MsgBurst, cfg.MsgRate, bound), caseSpec, obs)
		}
	} else {
		x.st.limit("ws-msgs-per-sec:zero", 0, delivered, M)
		if delivered < M {
			if !withinLife {
				e.R.NoVerd()
				x.st.count("msgrate:round_outlived_session", 1)
				return
			}
			if closed {
				e.R.Violate("limit:ws-msgs-per-sec:zero", fmt.Sprintf("--ws-msgs-per-sec 0 (no limit) but only %d of %d messages were delivered and the server closed the sender's socket", delivered, M), caseSpec, obs)
			} else {
				e.R.Inconcl(fmt.Sprintf("%s %s: %d of %d messages delivered, socket still open", r.ID, r.key(), delivered, M))
				return
			}
		}
	}
	x.st.sample("msgrate", obs)
	x.decided(r)
}

// ---- lifetime: host leaves -------------------------------------------------------

func (x *c14Run) roundHostLeft(r c14Round, srv *c14Server) {
	e, cfg := x.e, r.Cfg
	sess, host, ok := x.hostOnly(r, srv)
	if !ok {
		return
	}
	caseSpec := map[string]any{"round": r, "flags": cfg.flags()}
	// a join inside the lifetime, host connected
	witness := srv.join(nil, sess.Code, "receiver", c14PeerID("wit"), nil)
	if witness.Upgraded() {
		witness.WS.WaitRegistered(3 * time.Second) // so that it is in the hub when peer_left(host) is broadcast
	}
	hostUp := host.WS.Alive(3 * time.Second)
	x.lifetimeChecks(r, sess, []*c14Join{witness}, hostUp, caseSpec)
	if !witness.Upgraded() || !hostUp {
		host.WS.Drop()
		e.R.Inconcl(fmt.Sprintf("%s %s: witness receiver not admitted or host not alive: %v", r.ID, r.key(), witness.brief()))
		return
	}
	x.st.count("hostleft:joins_inside_lifetime_admitted", 1)
	defer witness.WS.Drop()

	// joins racing with the disconnect: no verdict whatever happens
	var racing []*c14Join
	var rmu sync.Mutex
	var rwg sync.WaitGroup
	for i := 0; i < 3; i++ {
		rwg.Add(1)
		go func(i int) {
			defer rwg.Done()
			time.Sleep(time.Duration(i*150) * time.Microsecond)
			j := srv.join(nil, sess.Code, "receiver", c14PeerID("race"), nil)
			rmu.Lock()
			racing = append(racing, j)
			rmu.Unlock()
		}(i)
	}

	var point int64
	how := ""
	closeAt := c14Now()
	if r.Variant == "graceful" {
		fin := host.WS.CloseGraceful(5 * time.Second)
		if fin == 0 {
			rwg.Wait()
			c14DropAll(racing)
			e.R.Inconcl(fmt.Sprintf("%s %s: server's FIN after the host's close handshake was not observed", r.ID, r.key()))
			return
		}
		point = fin
		how = "host's close handshake completed and the server closed its side of the TCP connection"
	} else {
		host.WS.CloseAbrupt()
		m, got := witness.WS.WaitMsg(5*time.Second, func(m c14Msg) bool {
			return m.Type == "peer_left" && strings.Contains(string(m.Raw), host.PeerID)
		})
		if !got {
			rwg.Wait()
			c14DropAll(racing)
			e.R.Inconcl(fmt.Sprintf("%s %s: witness did not see peer_left of the host after the TCP reset", r.ID, r.key()))
			return
		}
		time.Sleep(300 * time.Millisecond) // the server removes the session right after that broadcast
		point = c14Now()
		how = fmt.Sprintf("host's TCP connection reset; a receiver of the session saw peer_left(host) %.1f ms later; 300 ms grace", c14ms(m.At-closeAt))
	}
	rwg.Wait()
	for _, j := range racing {
		if j.Start < point {
			e.R.NoVerd()
			x.st.count("hostleft:joins_racing_no_verdict", 1)
		}
	}
	c14DropAll(racing)

	// joins that start after the point: half as a burst, half one by one; receivers and would-be hosts
	specs := make([]c14JoinSpec, r.N)
	for i := range specs {
		role := "receiver"
		if i%4 == 3 {
			role = "sender"
		}
		specs[i] = c14JoinSpec{sess.Code, role, c14PeerID("late")}
	}
	half := len(specs) / 2
	late := x.socketBurst(srv, specs[:half], true)
	late = append(late, x.socketBurst(srv, specs[half:], false)...)
	defer c14DropAll(late)
	admitted, refused404, other := 0, 0, 0
	var firstAdmitted *c14Join
	for _, j := range late {
		if j.Start <= point {
			e.R.NoVerd()
			continue
		}
		x.st.count("hostleft:joins_after_point", 1)
		switch {
		case j.Upgraded():
			admitted++
			if firstAdmitted == nil {
				firstAdmitted = j
			}
		case j.Status == 404:
			refused404++
		default:
			other++
		}
	}
	obs := map[string]any{"round": r.key(), "point": how, "point_ms_after_close_began": c14ms(point - closeAt), "joins_started_after_point": len(late), "admitted": admitted, "refused_404": refused404, "refused_otherwise": other,
		"racing_joins_no_verdict": len(racing), "ms_since_create": c14ms(c14Now() - sess.Start), "lifetime": cfg.Timeout.String()}
	x.st.sample("hostleft", obs)
	if admitted > 0 {
		var lateAll []map[string]any
		for _, j := range late {
			b := j.brief()
			b["peer"] = j.PeerID
			b["start_ms_after_point"] = c14ms(j.Start - point)
			lateAll = append(lateAll, b)
		}
		detail := map[string]any{"obs": obs, "first_admitted": firstAdmitted.brief(), "first_admitted_peer": firstAdmitted.PeerID, "host_peer": host.PeerID, "host_close": host.WS.CloseInfo(), "point_ms": c14ms(point), "session": sess.ID,
			"late_joins": lateAll, "server_log_tail": srv.LogTail(60)}
		if r.Variant == "graceful" {
			e.R.Violate("joincode:admitted-after-host-left", fmt.Sprintf("%d of %d joins that started after the host had disconnected (%s; first one %.1f ms after that point) were admitted with the old join code", admitted, len(late), how, c14ms(firstAdmitted.Start-point)), caseSpec, detail)
		} else {
			// abrupt loss: confirm that the session really stays (a late delete would be a stalled server)
			time.Sleep(1500 * time.Millisecond)
			again := srv.join(nil, sess.Code, "receiver", c14PeerID("late"), nil)
			if again.Upgraded() {
				again.WS.Drop()
				e.R.Violate("joincode:admitted-after-host-left", fmt.Sprintf("%d of %d joins that started after the host's connection was lost (%s) were admitted, and another one 1.5 s later still was", admitted, len(late), how), caseSpec, detail)
			} else {
				e.R.Inconcl(fmt.Sprintf("%s %s: join admitted %.1f ms after the host-left point but refused 1.5 s later (slow server?)", r.ID, r.key(), c14ms(firstAdmitted.Start-point)))
				return
			}
		}
	}
	x.st.count("hostleft:refused_404_after_point", refused404)
	x.decided(r)
}

// ---- lifetime: expiry --------------------------------------------------------------

func (x *c14Run) roundExpiry(r c14Round, srv *c14Server) {
	e, cfg := x.e, r.Cfg
	hc := c14HTTP()
	sess := srv.create(hc)
	if !sess.Created() {
		e.R.Inconcl(fmt.Sprintf("%s %s: could not create the session: %+v", r.ID, r.key(), sess))
		return
	}
	var host *c14Join
	if r.Variant == "host" {
		host = srv.join(nil, sess.Code, "sender", c14PeerID("host"), nil)
		if !host.Upgraded() {
			e.R.Inconcl(fmt.Sprintf("%s %s: host could not connect: %v", r.ID, r.key(), host.brief()))
			return
		}
		defer host.WS.Drop()
	}
	T := cfg.Timeout
	var offsets []time.Duration
	if T == 0 {
		offsets = []time.Duration{100 * time.Millisecond, 1200 * time.Millisecond, 2500 * time.Millisecond, 2600 * time.Millisecond}
	} else {
		rng := vk.NewRng(r.Seed)
		for _, pm := range []int{50, 400, 800, 930, 970, 990, 1000, 1010, 1030, 1080, 1200, 1500} {
			jit := time.Duration(rng.Intn(int(T/100))) - T/200
			offsets = append(offsets, T*time.Duration(pm)/1000+jit)
		}
	}
	type res struct {
		OffsetMs float64 `json:"planned_ms_after_create_return"`
		StartMs  float64 `json:"start_ms_after_create_call"`
		EndMs    float64 `json:"end_ms_after_create_call"`
		Status   int     `json:"status"`
		Err      string  `json:"err,omitempty"`
		Verdict  string  `json:"verdict"`
	}
	results := make([]res, len(offsets))
	caseSpec := map[string]any{"round": r, "flags": cfg.flags()}
	var wg sync.WaitGroup
	for i, off := range offsets {
		wg.Add(1)
		go func(i int, off time.Duration) {
			defer wg.Done()
			if d := sess.End + int64(off) - c14Now(); d > 0 {
				time.Sleep(time.Duration(d))
			}
			j := srv.join(nil, sess.Code, "receiver", c14PeerID("exp"), nil)
			rs := res{OffsetMs: c14ms(int64(off)), StartMs: c14ms(j.Start - sess.Start), EndMs: c14ms(j.End - sess.Start), Status: j.Status, Err: j.ErrText + j.NetErr}
			inside := j.Start > sess.End && (T == 0 || j.End < sess.Start+int64(T))
			after := T > 0 && j.Start > sess.End+int64(T)
			switch {
			case j.NetErr != "":
				rs.Verdict = "inconclusive"
				e.R.Inconcl(fmt.Sprintf("%s %s: join failed: %s", r.ID, r.key(), j.NetErr))
			case inside:
				rs.Verdict = "must-not-be-404"
				if j.Status == 404 {
					hostUp := host == nil || host.WS.Alive(2*time.Second)
					if !hostUp {
						rs.Verdict = "no-verdict(host gone)"
						e.R.NoVerd()
					} else if T == 0 {
						e.R.Violate("limit:session-timeout:zero", fmt.Sprintf("--session-timeout 0 (no lifetime limit) but a join %.0f ms after creation was refused with 404 %q", rs.EndMs, j.ErrText), caseSpec, rs)
					} else {
						e.R.Violate("joincode:refused-inside-lifetime", fmt.Sprintf("join completed %.1f ms after the create call (lifetime %s) but was refused with 404 %q", rs.EndMs, T, j.ErrText), caseSpec, rs)
					}
				}
				if !strings.HasPrefix(rs.Verdict, "no-verdict") {
					x.st.count("expiry:must_admit", 1)
					if j.Upgraded() {
						x.st.count("expiry:admitted_inside", 1)
					}
				}
			case after:
				rs.Verdict = "must-be-refused"
				x.st.count("expiry:must_refuse", 1)
				if j.Upgraded() {
					e.R.Violate("joincode:admitted-after-expiry", fmt.Sprintf("join started %.1f ms after POST /session returned (lifetime %s) and was admitted", c14ms(j.Start-sess.End), T), caseSpec, rs)
				} else if j.Status == 404 {
					x.st.count("expiry:refused_404_after", 1)
				}
			default:
				rs.Verdict = "no-verdict(straddles the expiry instant)"
				x.st.count("expiry:no_verdict", 1)
				e.R.NoVerd()
			}
			results[i] = rs
			if j.WS != nil {
				j.WS.CloseGraceful(500 * time.Millisecond)
			}
		}(i, off)
	}
	wg.Wait()
	x.st.sample("expiry", map[string]any{"round": r.key(), "lifetime": T.String(), "create_call_to_return_ms": c14ms(sess.End - sess.Start), "joins": results})
	x.decided(r)
}
