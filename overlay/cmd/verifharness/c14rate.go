//go:build verif

package main

// C14 part (b), continued: the three token-bucket rate limiters of thruserv (per-connection
// message rate, per-IP session-create rate, per-IP websocket-connect rate) under
// idle-then-burst histories.
//
// Oracle (sliding window over brackets, no wall-clock verdict): every request k carries a
// bracket [S_k, E_k] taken by the harness on one monotonic clock (S_k before the request is
// written, E_k after its reply / its delivery at the peer was observed), so the instant at
// which the server's limiter admitted it lies inside the bracket. A token bucket with
// parameters (rate, burst) never holds more than `burst` tokens, hence for ANY two admitted
// requests i, j the admitted requests whose brackets lie inside [S_i, E_j] number at most
//     burst + rate * (E_j - S_i).
// The bound uses the outer bracket, so a slow machine only makes it weaker: an excess is an
// over-admission that no timing explains. Under-admission is never a violation. The idle
// periods of a history are inputs (planned sleeps, which may only get longer), never part of
// the verdict.

import (
	"context"
	"encoding/json"
	"fmt"
	"net"
	"net/http"
	"os"
	"sort"
	"strings"
	"sync"
	"time"

	vk "github.com/sheerbytes/sheerbytes/internal/verifkit"
)

// c14RatePhase is one step of a history: stay idle, then issue N requests at once.
type c14RatePhase struct {
	Idle   string `json:"idle"`    // class: none | short (0.3 x burst/rate) | long (3 x burst/rate)
	IdleMs int    `json:"idle_ms"` // planned sleep before the phase
	N      int    `json:"n"`
	Src    int    `json:"src,omitempty"` // per-IP limiters: 0 = 127.0.0.1, 1 = 127.0.0.2
}

// c14RateEv is one request of a history.
type c14RateEv struct {
	S, E     int64
	Phase    int
	Src      int
	Admitted bool // passed the limiter under test
	Refused  bool // refused by the limiter under test
}

// c14RateCfgs: all three limiters are on (as in a production configuration); the limits that
// are not under test are off so that every refusal is attributable.
func c14RateCfgs(e *Env, rng *vk.Rng) []c14Cfg {
	base := c14Cfg{MaxSessions: 0, MaxRecv: 0, MaxWS: 0, MaxBytes: 1024, Timeout: 0}
	a, b := base, base
	// burst/rate = 1 s, 0.8 s, 0.8 s
	a.Name, a.MsgRate, a.MsgBurst, a.SessPerMin, a.SessBurst, a.ConnPerMin, a.ConnBurst = "rates-a", 10, 10, 600, 8, 600, 8
	// burst/rate = 0.2 s everywhere
	b.Name, b.MsgRate, b.MsgBurst, b.SessPerMin, b.SessBurst, b.ConnPerMin, b.ConnBurst = "rates-b", 40, 8, 1800, 6, 2400, 8
	out := []c14Cfg{a, b}
	if e.Thorough() {
		for c := 0; c < 6; c++ {
			v := base
			v.Name = fmt.Sprintf("rates-var%d", c)
			pick := func() (perSec, burst int) {
				burst = 4 + rng.Intn(9)            // 4..12
				perSec = burst + rng.Intn(4*burst) // burst/rate in (0.2 s, 1 s]
				return
			}
			v.MsgRate, v.MsgBurst = pick()
			var ps int
			ps, v.SessBurst = pick()
			v.SessPerMin = ps * 60
			ps, v.ConnBurst = pick()
			v.ConnPerMin = ps * 60
			out = append(out, v)
		}
	}
	return out
}

func (r c14Round) rateParams() (limiter string, perSec float64, burst int) {
	switch r.Kind {
	case "rate-msgs":
		return "ws-msgs", float64(r.Cfg.MsgRate), r.Cfg.MsgBurst
	case "rate-sess", "rate-first-sess":
		return "session-creates", float64(r.Cfg.SessPerMin) / 60, r.Cfg.SessBurst
	default:
		return "ws-connects", float64(r.Cfg.ConnPerMin) / 60, r.Cfg.ConnBurst
	}
}

// c14RateShapes lists the history shapes of a limiter. perIP: refusals are not fatal and
// requests may come from two source addresses; the message limiter closes the connection at
// its first refusal, so its multi-phase histories stay below the burst until the last phase.
var c14RateShapesMsgs = []string{"idle-none", "idle-short", "idle-long", "partial-idle-long", "cycles"}
var c14RateShapesIP = []string{"idle-none", "idle-short", "idle-long", "partial-idle-long", "cycles", "other-ip"}

func c14RatePhases(shape string, perIP bool, perSec float64, burst int, rng *vk.Rng) []c14RatePhase {
	tauMs := int(1000 * float64(burst) / perSec)
	ph := func(idle string, n, src int) c14RatePhase {
		p := c14RatePhase{Idle: idle, N: n, Src: src}
		switch idle {
		case "short":
			p.IdleMs = tauMs * 3 / 10
		case "long":
			p.IdleMs = tauMs * 3
		}
		return p
	}
	over, half := 3*burst, burst/2
	if half < 1 {
		half = 1
	}
	touch := 1
	if !perIP {
		touch = 0 // the per-connection bucket exists from the moment the socket is up: pure silence, then the burst
	}
	var out []c14RatePhase
	switch shape {
	case "idle-none":
		out = []c14RatePhase{ph("none", over, 0)}
	case "idle-short":
		out = []c14RatePhase{ph("none", 1, 0), ph("short", over, 0)}
	case "idle-long":
		out = []c14RatePhase{ph("none", touch, 0), ph("long", over, 0)}
	case "partial-idle-long":
		out = []c14RatePhase{ph("none", half, 0), ph("long", over, 0)}
	case "cycles":
		if perIP {
			out = []c14RatePhase{ph("none", over, 0), ph("long", over, 0), ph("short", over, 0), ph("long", half, 0), ph("long", over, 0)}
		} else {
			out = []c14RatePhase{ph("none", half, 0), ph("long", 1, 0), ph("short", 1, 0), ph("long", over, 0)}
		}
	case "other-ip":
		// the other address is busy between two bursts of the first one; both are judged on their own
		out = []c14RatePhase{ph("none", over, 0), ph("none", half, 1), ph("none", over, 0), ph("long", over, 1), ph("short", over, 0)}
	case "random":
		n := 3 + rng.Intn(3)
		for i := 0; i < n; i++ {
			idle := []string{"none", "short", "long", "long"}[rng.Intn(4)]
			cnt := []int{1, half, burst, over}[rng.Intn(4)]
			if !perIP && i < n-1 && cnt > half {
				cnt = half
			}
			if i == n-1 {
				cnt = over
			}
			src := 0
			if perIP && rng.Intn(4) == 0 {
				src = 1
			}
			out = append(out, ph(idle, cnt, src))
		}
	}
	var res []c14RatePhase
	for _, p := range out {
		if p.N > 0 {
			res = append(res, p)
		}
	}
	return res
}

// c14GenRateRounds appends the rate-limiter rounds (own generator stream, so that the other
// rounds of a (tier, seed) stay what they were).
func c14GenRateRounds(e *Env) []c14Round {
	rng := vk.NewRng(e.Seed ^ vk.HashStr("c14rate"+e.Tier))
	var out []c14Round
	cfgs := c14RateCfgs(e, rng)
	add := func(cfg c14Cfg, kind, shape, mode string) {
		r := c14Round{Cfg: cfg, Kind: kind, Variant: shape, Seed: rng.U64()}
		if mode != "" {
			r.Variant = shape + ":" + mode
		}
		_, perSec, burst := r.rateParams()
		r.Phases = c14RatePhases(shape, kind != "rate-msgs", perSec, burst, vk.NewRng(r.Seed))
		for _, p := range r.Phases {
			r.N += p.N
		}
		out = append(out, r)
	}
	reps := e.Pick(1, 2)
	for rep := 0; rep < reps; rep++ {
		for ci, cfg := range cfgs {
			slow := ci == 0 // burst/rate of about a second: the long multi-phase shapes are left to the faster configurations
			for _, sh := range c14RateShapesMsgs {
				if slow && sh == "cycles" {
					continue
				}
				add(cfg, "rate-msgs", sh, "")
			}
			for si, sh := range c14RateShapesIP {
				if slow && (sh == "cycles" || sh == "other-ip") {
					continue
				}
				// both arrival modes over the shapes: one keep-alive client one request after the other / start-barrier burst
				modes := []string{"seq", "burst"}
				if !e.Thorough() {
					modes = []string{modes[(si+ci)%2]}
				}
				for _, m := range modes {
					add(cfg, "rate-sess", sh, m)
				}
				if !e.Thorough() {
					modes = []string{[]string{"seq", "burst"}[(si+ci+1)%2]}
				}
				for _, m := range modes {
					add(cfg, "rate-ws", sh, m)
				}
			}
			if e.Thorough() && !slow {
				for k := 0; k < 3; k++ {
					add(cfg, "rate-msgs", "random", "")
					add(cfg, "rate-sess", "random", []string{"seq", "burst"}[k%2])
					add(cfg, "rate-ws", "random", []string{"burst", "seq"}[k%2])
				}
			}
		}
	}
	return out
}

// ---- oracle -----------------------------------------------------------------------

type c14RateWorst struct {
	Count    int     `json:"admitted_in_window"`
	Bound    float64 `json:"bound(burst+rate*window)"`
	WindowMs float64 `json:"window_ms(first request written .. last reply seen)"`
	FromPh   int     `json:"window_starts_in_phase"`
	ToPh     int     `json:"window_ends_in_phase"`
	Excess   float64 `json:"excess"`
}

// c14RateJudge finds the window with the largest excess of admitted requests over
// burst + rate*window among all windows [S_i, E_j] spanned by two admitted requests.
func c14RateJudge(evs []c14RateEv, perSec float64, burst int) (worst c14RateWorst, violated bool) {
	if burst < 1 {
		burst = 1 // newTokenBucket's floor
	}
	var adm []c14RateEv
	for _, ev := range evs {
		if ev.Admitted {
			adm = append(adm, ev)
		}
	}
	sort.Slice(adm, func(i, j int) bool { return adm[i].S < adm[j].S })
	worst.Excess = -1e18
	for i := range adm {
		// candidates: events that start at or after S_i; windows end at their E, ascending
		cand := append([]c14RateEv{}, adm[i:]...)
		sort.Slice(cand, func(a, b int) bool { return cand[a].E < cand[b].E })
		for n, c := range cand {
			// cand[0..n] all have S >= S_i and E <= c.E
			count := n + 1
			for m := n + 1; m < len(cand) && cand[m].E == c.E; m++ {
				count++
			}
			win := c.E - adm[i].S
			bound := float64(burst) + perSec*float64(win)/1e9
			if ex := float64(count) - bound; ex > worst.Excess {
				worst = c14RateWorst{Count: count, Bound: bound, WindowMs: c14ms(win), FromPh: adm[i].Phase, ToPh: c.Phase, Excess: ex}
			}
		}
	}
	return worst, worst.Excess > 1e-6
}

// c14RateStat is the evidence of one (limiter, rate, burst): how close the worst window of any
// round came to its bound (excess <= 0: held; the bound of a window is burst + rate*window).
type c14RateStat struct {
	Rounds        int     `json:"histories"`
	Requests      int     `json:"requests"`
	MaxCount      int     `json:"most_admitted_in_the_worst_window"`
	BoundThere    float64 `json:"bound_of_that_window"`
	MaxExcess     float64 `json:"largest(admitted-bound)_over_all_windows"`
	RoundsExceed  int     `json:"histories_exceeding"`
	worstAssigned bool
}

var c14RateStats = struct {
	mu sync.Mutex
	m  map[string]*c14RateStat
}{m: map[string]*c14RateStat{}}

func (x *c14Run) rateStat(name string, requests int, w c14RateWorst, bad bool) {
	c14RateStats.mu.Lock()
	defer c14RateStats.mu.Unlock()
	st := c14RateStats.m[name]
	if st == nil {
		st = &c14RateStat{}
		c14RateStats.m[name] = st
	}
	st.Rounds++
	st.Requests += requests
	if !st.worstAssigned || w.Excess > st.MaxExcess {
		st.MaxExcess, st.MaxCount, st.BoundThere, st.worstAssigned = w.Excess, w.Count, w.Bound, true
	}
	if bad {
		st.RoundsExceed++
	}
}

type c14RatePhaseObs struct {
	Phase    c14RatePhase `json:"phase"`
	Sent     int          `json:"requests"`
	Admitted int          `json:"admitted"`
	Refused  int          `json:"refused_by_limiter"`
	WindowMs float64      `json:"window_ms"`
	SlackTok float64      `json:"rate*window(tokens)"`
}

// judgeRate applies the oracle per source address and does the bookkeeping of a round.
func (x *c14Run) judgeRate(r c14Round, evs []c14RateEv) {
	e := x.e
	limiter, perSec, burst := r.rateParams()
	shape := r.Variant
	if k := strings.IndexByte(shape, ':'); k >= 0 {
		shape = shape[:k]
	}
	// per-phase observations
	obsPh := make([]c14RatePhaseObs, len(r.Phases))
	first := make([]int64, len(r.Phases))
	last := make([]int64, len(r.Phases))
	for i := range obsPh {
		obsPh[i].Phase = r.Phases[i]
		first[i] = int64(1) << 62
	}
	for _, ev := range evs {
		o := &obsPh[ev.Phase]
		o.Sent++
		if ev.S < first[ev.Phase] {
			first[ev.Phase] = ev.S
		}
		if ev.Admitted {
			o.Admitted++
			if ev.E > last[ev.Phase] {
				last[ev.Phase] = ev.E
			}
		}
		if ev.Refused {
			o.Refused++
		}
	}
	for i := range obsPh {
		if obsPh[i].Admitted > 0 {
			obsPh[i].WindowMs = c14ms(last[i] - first[i])
			obsPh[i].SlackTok = perSec * float64(last[i]-first[i]) / 1e9
		}
	}
	caseSpec := map[string]any{"round": r, "flags": r.Cfg.flags()}
	obs := map[string]any{"round": r.key(), "limiter": limiter, "rate_per_sec": perSec, "burst": burst, "phases": obsPh}
	admittedTotal := 0
	for src := 0; src < 2; src++ {
		var mine []c14RateEv
		for _, ev := range evs {
			if ev.Src == src {
				mine = append(mine, ev)
			}
		}
		if len(mine) == 0 {
			continue
		}
		w, bad := c14RateJudge(mine, perSec, burst)
		for _, ev := range mine {
			if ev.Admitted {
				admittedTotal++
			}
		}
		if w.Count == 0 {
			continue
		}
		obs[fmt.Sprintf("worst_window_src%d", src)] = w
		x.rateStat(fmt.Sprintf("%s(%.4g/s,burst %d)", limiter, perSec, burst), len(mine), w, bad)
		if bad {
			e.R.Violate(fmt.Sprintf("limit:%s-rate:exceeded:%s", limiter, shape),
				fmt.Sprintf("%d requests passed the %s limiter (%.4g/s, burst %d) inside a window of %.1f ms (first of them written .. last reply seen; phases %d..%d of the history %q); a bucket of %d tokens refilled at %.4g/s allows at most %.2f in that window",
					w.Count, limiter, perSec, burst, w.WindowMs, w.FromPh, w.ToPh, shape, burst, perSec, w.Bound), caseSpec, obs)
		}
	}
	x.st.sample("rate-"+limiter, obs)
	if os.Getenv("VERIF_C14_DEBUG") != "" { // debugging aid
		b, _ := json.Marshal(obs)
		fmt.Fprintf(os.Stderr, "c14rate %s\n", b)
	}
	if admittedTotal == 0 {
		e.R.Inconcl(fmt.Sprintf("%s %s: no request passed the limiter", r.ID, r.key()))
		return
	}
	// Sensitivity of the round: the over-burst phase that follows a long idle period was tight
	// enough (rate*window <= burst/2 tokens) for a doubled burst to show.
	for _, o := range obsPh {
		if o.Phase.Idle == "long" && o.Phase.N > burst && o.Sent == o.Phase.N && o.Admitted > 0 {
			x.st.count("rate:bursts_after_long_idle:"+r.Kind, 1)
			if o.SlackTok <= float64(burst)/2 {
				x.st.count("rate:sharp_bursts_after_long_idle:"+r.Kind, 1)
			}
		}
	}
	x.st.count("rate:"+r.Kind+":"+shape, 1)
	x.decided(r)
}

func c14SleepMs(ms int) {
	if ms > 0 {
		time.Sleep(time.Duration(ms) * time.Millisecond)
	}
}

// ---- per-connection message rate ------------------------------------------------------

func (x *c14Run) roundRateMsgs(r c14Round, srv *c14Server) {
	e := x.e
	sess, host, ok := x.hostOnly(r, srv)
	if !ok {
		return
	}
	defer host.WS.Drop()
	rcv := x.receiverRetry(srv, sess.Code)
	if !rcv.Upgraded() {
		e.R.Inconcl(fmt.Sprintf("%s %s: receiver could not connect: %v", r.ID, r.key(), rcv.brief()))
		return
	}
	defer rcv.WS.Drop()
	if !rcv.WS.WaitRegistered(3 * time.Second) {
		e.R.Inconcl(fmt.Sprintf("%s %s: receiver did not get its peer_list", r.ID, r.key()))
		return
	}
	prefix := fmt.Sprintf("rt-%x-", r.Seed&0xffffff)
	var evs []c14RateEv
	stopped := false
	for pi, ph := range r.Phases {
		c14SleepMs(ph.IdleMs)
		for i := 0; i < ph.N; i++ {
			s := c14Now()
			if err := rcv.WS.SendText(c14Envelope(fmt.Sprintf("%s%d", prefix, len(evs)), host.PeerID, 128)); err != nil {
				stopped = true
				break
			}
			evs = append(evs, c14RateEv{S: s, Phase: pi})
		}
		if stopped {
			break
		}
	}
	// collect at the host: a message is either relayed or gets the sender's socket closed
	delivered := 0
	deadline := time.Now().Add(6 * time.Second)
	quietAfterClose := false
	for delivered < len(evs) && time.Now().Before(deadline) {
		m, got := host.WS.WaitMsg(40*time.Millisecond, func(m c14Msg) bool { return strings.HasPrefix(m.MsgID, prefix) })
		if got {
			var idx int
			if _, err := fmt.Sscanf(m.MsgID[len(prefix):], "%d", &idx); err == nil && idx >= 0 && idx < len(evs) && !evs[idx].Admitted {
				evs[idx].Admitted = true
				evs[idx].E = m.At
				delivered++
			}
			continue
		}
		if host.WS.ClosedByServer() {
			break
		}
		if rcv.WS.ClosedByServer() {
			if quietAfterClose {
				break
			}
			quietAfterClose = true
			time.Sleep(300 * time.Millisecond)
		}
	}
	closed := rcv.WS.ClosedByServer()
	if !closed && delivered < len(evs) {
		closed = !rcv.WS.Alive(2 * time.Second)
	}
	if delivered < len(evs) && !closed {
		e.R.Inconcl(fmt.Sprintf("%s %s: %d of %d messages delivered but the sender's socket is still open", r.ID, r.key(), delivered, len(evs)))
		return
	}
	if host.WS.ClosedByServer() {
		e.R.Inconcl(fmt.Sprintf("%s %s: host socket was closed during the round", r.ID, r.key()))
		return
	}
	// the first undelivered message is the one the limiter refused
	for i := range evs {
		if !evs[i].Admitted {
			evs[i].Refused = true
			break
		}
	}
	x.judgeRate(r, evs)
}

// ---- per-IP limiters ------------------------------------------------------------------

func c14SrcIP(src int) net.IP { return net.IPv4(127, 0, 0, byte(1+src)) }

func c14HTTPFrom(src int) *http.Client {
	d := &net.Dialer{Timeout: 5 * time.Second, LocalAddr: &net.TCPAddr{IP: c14SrcIP(src)}}
	return &http.Client{Timeout: 10 * time.Second, Transport: &http.Transport{MaxIdleConns: 1, MaxIdleConnsPerHost: 1, MaxConnsPerHost: 1, IdleConnTimeout: 30 * time.Second,
		DialContext: func(ctx context.Context, network, addr string) (net.Conn, error) {
			return d.DialContext(ctx, network, addr)
		}}}
}

func (s *c14Server) predialFrom(src int) (net.Conn, error) {
	d := &net.Dialer{Timeout: 5 * time.Second, LocalAddr: &net.TCPAddr{IP: c14SrcIP(src)}}
	return d.Dial("tcp", fmt.Sprintf("127.0.0.1:%d", s.Port))
}

func (x *c14Run) rateMode(r c14Round) string {
	if k := strings.IndexByte(r.Variant, ':'); k >= 0 {
		return r.Variant[k+1:]
	}
	return "seq"
}

func (x *c14Run) roundRateSess(r c14Round, srv *c14Server) {
	e := x.e
	burstMode := x.rateMode(r) == "burst"
	var evs []c14RateEv
	for pi, ph := range r.Phases {
		c14SleepMs(ph.IdleMs)
		res := make([]c14Create, ph.N)
		if !burstMode {
			hc := c14HTTPFrom(ph.Src)
			if err := srv.warm(hc); err != nil {
				e.R.Inconcl(fmt.Sprintf("%s %s: warm-up from %s: %v", r.ID, r.key(), c14SrcIP(ph.Src), err))
				return
			}
			for i := range res {
				res[i] = srv.create(hc)
			}
			hc.CloseIdleConnections()
		} else {
			bar := newC14Barrier(ph.N)
			var wg sync.WaitGroup
			for i := range res {
				wg.Add(1)
				go func(i int) {
					defer wg.Done()
					hc := c14HTTPFrom(ph.Src)
					werr := srv.warm(hc)
					bar.wait()
					if werr != nil {
						res[i] = c14Create{NetErr: "warm-up: " + werr.Error()}
						return
					}
					res[i] = srv.create(hc)
					hc.CloseIdleConnections()
				}(i)
			}
			bar.release()
			wg.Wait()
		}
		for _, c := range res {
			ev := c14RateEv{S: c.Start, E: c.End, Phase: pi, Src: ph.Src}
			switch {
			case c.NetErr == "" && c.Created(), c.NetErr == "" && c.Status == 429 && c.ErrText == c14ErrSessLimit:
				ev.Admitted = true
			case c.NetErr == "" && c.Status == 429 && c.ErrText == c14ErrRate:
				ev.Refused = true
			default:
				e.R.Inconcl(fmt.Sprintf("%s %s: unexpected POST /session outcome status=%d err=%q neterr=%q", r.ID, r.key(), c.Status, c.ErrText, c.NetErr))
				return
			}
			evs = append(evs, ev)
		}
	}
	x.judgeRate(r, evs)
}

func (x *c14Run) roundRateWS(r c14Round, srv *c14Server) {
	e := x.e
	burstMode := x.rateMode(r) == "burst"
	sess := srv.create(c14HTTP())
	if !sess.Created() {
		e.R.Inconcl(fmt.Sprintf("%s %s: could not create the session: %+v", r.ID, r.key(), sess))
		return
	}
	var all []*c14Join
	defer func() { c14DropAll(all) }() // sender sockets stay open until the end: the first one to leave would take the session with it
	var evs []c14RateEv
	for pi, ph := range r.Phases {
		c14SleepMs(ph.IdleMs)
		res := make([]*c14Join, ph.N)
		one := func(i int, bar *c14Barrier) {
			peer := c14PeerID("rt")
			pre, err := srv.predialFrom(ph.Src)
			if bar != nil {
				bar.wait()
			}
			if err != nil {
				res[i] = &c14Join{Role: "sender", PeerID: peer, NetErr: "predial: " + err.Error(), Start: c14Now(), End: c14Now()}
				return
			}
			res[i] = srv.join(pre, sess.Code, "sender", peer, nil)
		}
		if !burstMode {
			for i := range res {
				one(i, nil)
			}
		} else {
			bar := newC14Barrier(ph.N)
			var wg sync.WaitGroup
			for i := range res {
				wg.Add(1)
				go func(i int) { defer wg.Done(); one(i, bar) }(i)
			}
			bar.release()
			wg.Wait()
		}
		all = append(all, res...)
		for _, j := range res {
			ev := c14RateEv{S: j.Start, E: j.End, Phase: pi, Src: ph.Src}
			switch {
			case j.Upgraded(), j.Status == 429 && (j.ErrText == c14ErrConnLimit || j.ErrText == c14ErrRecvLimit):
				ev.Admitted = true
			case j.Status == 429 && j.ErrText == c14ErrRate:
				ev.Refused = true
			default:
				e.R.Inconcl(fmt.Sprintf("%s %s: unexpected join outcome status=%d err=%q neterr=%q", r.ID, r.key(), j.Status, j.ErrText, j.NetErr))
				return
			}
			evs = append(evs, ev)
		}
	}
	x.zeroChecks(r, c14Tally(all), map[string]any{"round": r, "flags": r.Cfg.flags()}, nil)
	x.judgeRate(r, evs)
}
