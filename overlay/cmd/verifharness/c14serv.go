//go:build verif

package main

// Private helpers of the C14 check: a launcher for the real thruserv binary and a
// small WebSocket / HTTP client with call/return brackets. (Deliberately not shared:
// C10/C16 use verifkit/serv.go.)

import (
	"context"
	"encoding/json"
	"errors"
	"fmt"
	"io"
	"net"
	"net/http"
	"net/url"
	"os"
	"os/exec"
	"path/filepath"
	"strings"
	"sync"
	"sync/atomic"
	"syscall"
	"time"

	"github.com/gorilla/websocket"

	vk "github.com/sheerbytes/sheerbytes/internal/verifkit"
)

// c14Clock is the one monotonic time source of the check (ns since process-local base).
var c14Base = time.Now()

func c14Now() int64 { return int64(time.Since(c14Base)) }

type c14Server struct {
	cmd    *exec.Cmd
	Port   int
	Base   string // http://127.0.0.1:port
	Log    string
	exited chan struct{}
}

var c14SrvSeq atomic.Int64

// c14StartServer starts thruserv on a free loopback port (retrying on collisions) and
// waits for /health.
func c14StartServer(e *Env, flags []string) (*c14Server, error) {
	return c14StartServerEnv(e, flags, nil)
}

// c14StartServerEnv: as c14StartServer, with extra environment entries for the server process
// (VERIFHOOK=... to steer a hook point inside the real server, VERIF_JOINCODE_PLAN=file).
func c14StartServerEnv(e *Env, flags []string, env []string) (*c14Server, error) {
	bin := filepath.Join(e.BinDir, "thruserv")
	if _, err := os.Stat(bin); err != nil {
		return nil, fmt.Errorf("thruserv binary missing in %s: %v", e.BinDir, err)
	}
	var lastErr error
	for attempt := 0; attempt < 8; attempt++ {
		l, err := net.Listen("tcp", "127.0.0.1:0")
		if err != nil {
			lastErr = err
			continue
		}
		port := l.Addr().(*net.TCPAddr).Port
		_ = l.Close()
		logPath := filepath.Join(e.Work, fmt.Sprintf("thruserv-%d-%d.log", c14SrvSeq.Add(1), port))
		lf, err := os.Create(logPath)
		if err != nil {
			return nil, err
		}
		args := append([]string{"--port", fmt.Sprint(port)}, flags...)
		cmd := exec.Command(bin, args...)
		cmd.Stdout = lf
		cmd.Stderr = lf
		cmd.Env = append(append(os.Environ(), "VERIFHOOK=", "VERIFHOOK_LOG=", "VERIF_JOINCODE_PLAN="), env...)
		if err := cmd.Start(); err != nil {
			_ = lf.Close()
			return nil, err
		}
		_ = lf.Close()
		s := &c14Server{cmd: cmd, Port: port, Base: fmt.Sprintf("http://127.0.0.1:%d", port), Log: logPath, exited: make(chan struct{})}
		go func() { _ = cmd.Wait(); close(s.exited) }()
		ok := false
		deadline := time.Now().Add(8 * time.Second)
		hc := &http.Client{Timeout: 500 * time.Millisecond, Transport: &http.Transport{DisableKeepAlives: true}}
	poll:
		for time.Now().Before(deadline) {
			select {
			case <-s.exited:
				break poll
			default:
			}
			resp, err := hc.Get(s.Base + "/health")
			if err == nil {
				_, _ = io.Copy(io.Discard, resp.Body)
				_ = resp.Body.Close()
				if resp.StatusCode == 200 {
					ok = true
					break
				}
			}
			time.Sleep(5 * time.Millisecond)
		}
		if ok {
			// our process must be the one that owns the port
			select {
			case <-s.exited:
				ok = false
			case <-time.After(15 * time.Millisecond):
			}
		}
		if ok {
			return s, nil
		}
		lastErr = fmt.Errorf("thruserv did not become ready on port %d (attempt %d; alive=%v; log tail %q)", port, attempt, s.Alive(), s.LogTail(3))
		s.Stop()
	}
	return nil, lastErr
}

// Stop kills the server by PID and waits for it.
func (s *c14Server) Stop() {
	if s == nil || s.cmd == nil || s.cmd.Process == nil {
		return
	}
	_ = s.cmd.Process.Kill()
	select {
	case <-s.exited:
	case <-time.After(3 * time.Second):
	}
	_ = os.Remove(s.Log)
}

// LogTail returns the last n lines of the server's stdout/stderr.
func (s *c14Server) LogTail(n int) []string {
	data, err := os.ReadFile(s.Log)
	if err != nil {
		return nil
	}
	lines := strings.Split(strings.TrimRight(string(data), "\n"), "\n")
	if len(lines) > n {
		lines = lines[len(lines)-n:]
	}
	return lines
}

func (s *c14Server) Alive() bool {
	select {
	case <-s.exited:
		return false
	default:
		return true
	}
}

// c14HTTP is an HTTP client that owns exactly one connection (so that bursts use as many
// sockets as goroutines).
func c14HTTP() *http.Client {
	return &http.Client{Timeout: 10 * time.Second, Transport: &http.Transport{MaxIdleConns: 1, MaxIdleConnsPerHost: 1, MaxConnsPerHost: 1, IdleConnTimeout: 30 * time.Second}}
}

func (s *c14Server) warm(hc *http.Client) error {
	resp, err := hc.Get(s.Base + "/health")
	if err != nil {
		return err
	}
	_, _ = io.Copy(io.Discard, resp.Body)
	return resp.Body.Close()
}

// c14Create is one POST /session with its bracket.
type c14Create struct {
	Start, End int64
	Status     int
	ErrText    string // server's {"error": ...}
	ID, Code   string
	Expires    string
	NetErr     string
}

func (c c14Create) Created() bool { return c.Status == http.StatusCreated && c.Code != "" }

func (s *c14Server) create(hc *http.Client) c14Create {
	var out c14Create
	req, _ := http.NewRequest(http.MethodPost, s.Base+"/session", nil)
	out.Start = c14Now()
	resp, err := hc.Do(req)
	if err != nil {
		out.End = c14Now()
		out.NetErr = err.Error()
		return out
	}
	body, _ := io.ReadAll(io.LimitReader(resp.Body, 1<<16))
	_ = resp.Body.Close()
	out.End = c14Now()
	out.Status = resp.StatusCode
	var m map[string]any
	if json.Unmarshal(body, &m) == nil {
		if v, ok := m["error"].(string); ok {
			out.ErrText = v
		}
		if v, ok := m["session_id"].(string); ok {
			out.ID = v
		}
		if v, ok := m["join_code"].(string); ok {
			out.Code = v
		}
		if v, ok := m["expires_at"].(string); ok {
			out.Expires = v
		}
	}
	return out
}

// c14Msg is one text frame delivered to a client socket.
type c14Msg struct {
	At    int64
	Len   int
	Type  string
	MsgID string
	From  string
	Raw   json.RawMessage // payload
}

// c14WS is a client socket with a reader goroutine.
type c14WS struct {
	c      *websocket.Conn
	PeerID string
	msgs   chan c14Msg
	pongs  chan string
	closed chan struct{}
	wmu    sync.Mutex

	mu        sync.Mutex
	readErr   error
	gotClose  bool  // close frame from the server seen
	tcpEOFAt  int64 // time the server's FIN / reset was observed (0 = not observed)
	readEndAt int64
	eofErr    string
	pingSeq   int
}

func c14WrapWS(conn *websocket.Conn, peerID string) *c14WS {
	w := &c14WS{c: conn, PeerID: peerID, msgs: make(chan c14Msg, 8192), pongs: make(chan string, 64), closed: make(chan struct{})}
	// gorilla's default close handler makes ReadMessage return ErrCloseSent (not a CloseError)
	// when the close frame is the reply to our own close; we want the CloseError.
	conn.SetCloseHandler(func(code int, text string) error {
		_ = conn.WriteControl(websocket.CloseMessage, websocket.FormatCloseMessage(code, ""), time.Now().Add(time.Second))
		return nil
	})
	conn.SetPongHandler(func(s string) error {
		select {
		case w.pongs <- s:
		default:
		}
		return nil
	})
	go w.reader()
	return w
}

func (w *c14WS) reader() {
	defer close(w.closed)
	for {
		mt, data, err := w.c.ReadMessage()
		if err != nil {
			now := c14Now()
			w.mu.Lock()
			w.readErr = err
			w.readEndAt = now
			var ce *websocket.CloseError
			if errors.As(err, &ce) && ce.Code != websocket.CloseAbnormalClosure {
				w.gotClose = true
			} else if (errors.As(err, &ce) && ce.Code == websocket.CloseAbnormalClosure) || errors.Is(err, io.EOF) || errors.Is(err, io.ErrUnexpectedEOF) || errors.Is(err, syscall.ECONNRESET) {
				// EOF / reset without a close frame: the server's side of the TCP connection is gone
				w.tcpEOFAt = now
				w.eofErr = err.Error()
			}
			gc := w.gotClose
			w.mu.Unlock()
			if gc {
				// wait for the server to close its side of the TCP connection
				uc := w.c.UnderlyingConn()
				_ = uc.SetReadDeadline(time.Now().Add(4 * time.Second))
				buf := make([]byte, 256)
				for {
					_, rerr := uc.Read(buf)
					if rerr != nil {
						var ne net.Error
						if errors.As(rerr, &ne) && ne.Timeout() {
							break
						}
						w.mu.Lock()
						w.tcpEOFAt = c14Now()
						w.eofErr = rerr.Error()
						w.mu.Unlock()
						break
					}
				}
			}
			return
		}
		if mt != websocket.TextMessage {
			continue
		}
		m := c14Msg{At: c14Now(), Len: len(data)}
		var env struct {
			Type    string          `json:"type"`
			MsgID   string          `json:"msg_id"`
			From    string          `json:"from"`
			Payload json.RawMessage `json:"payload"`
		}
		if json.Unmarshal(data, &env) == nil {
			m.Type, m.MsgID, m.From = env.Type, env.MsgID, env.From
			if len(env.Payload) <= 512 {
				m.Raw = env.Payload
			}
		}
		w.msgs <- m
	}
}

// Alive decides "open" by a ping/pong round trip.
func (w *c14WS) Alive(timeout time.Duration) bool {
	w.mu.Lock()
	w.pingSeq++
	tag := fmt.Sprintf("c14-%s-%d", w.PeerID, w.pingSeq)
	w.mu.Unlock()
	select {
	case <-w.closed:
		return false
	default:
	}
	w.wmu.Lock()
	err := w.c.WriteControl(websocket.PingMessage, []byte(tag), time.Now().Add(timeout))
	w.wmu.Unlock()
	if err != nil {
		return false
	}
	t := time.NewTimer(timeout)
	defer t.Stop()
	for {
		select {
		case p := <-w.pongs:
			if p == tag {
				return true
			}
		case <-w.closed:
			return false
		case <-t.C:
			return false
		}
	}
}

func (w *c14WS) SendText(b []byte) error {
	w.wmu.Lock()
	defer w.wmu.Unlock()
	_ = w.c.SetWriteDeadline(time.Now().Add(10 * time.Second))
	return w.c.WriteMessage(websocket.TextMessage, b)
}

// WaitRegistered waits for the server's peer_list, which it sends right after the peer
// was added to the hub (the 101 response precedes the registration).
func (w *c14WS) WaitRegistered(timeout time.Duration) bool {
	_, ok := w.WaitMsg(timeout, func(m c14Msg) bool { return m.Type == "peer_list" && m.From == "server" })
	return ok
}

// CloseGraceful performs the close handshake and returns the time at which the server's
// side of the TCP connection was observed closed (0 if not observed).
func (w *c14WS) CloseGraceful(wait time.Duration) int64 {
	w.wmu.Lock()
	_ = w.c.WriteControl(websocket.CloseMessage, websocket.FormatCloseMessage(websocket.CloseNormalClosure, ""), time.Now().Add(2*time.Second))
	w.wmu.Unlock()
	select {
	case <-w.closed:
	case <-time.After(wait):
	}
	w.mu.Lock()
	at := w.tcpEOFAt
	w.mu.Unlock()
	_ = w.c.Close()
	return at
}

// CloseInfo describes how the read side ended (diagnostics).
func (w *c14WS) CloseInfo() string {
	w.mu.Lock()
	defer w.mu.Unlock()
	return fmt.Sprintf("readErr=%v gotCloseFrame=%v readEnd=%.3fms tcpEnd=%.3fms tcpErr=%q", w.readErr, w.gotClose, float64(w.readEndAt)/1e6, float64(w.tcpEOFAt)/1e6, w.eofErr)
}

// CloseAbrupt resets the TCP connection (no close frame).
func (w *c14WS) CloseAbrupt() {
	if tc, ok := w.c.UnderlyingConn().(*net.TCPConn); ok {
		_ = tc.SetLinger(0)
	}
	_ = w.c.Close()
}

// Drop closes the socket without waiting.
func (w *c14WS) Drop() { _ = w.c.Close() }

func (w *c14WS) ClosedByServer() bool {
	select {
	case <-w.closed:
		return true
	default:
		return false
	}
}

// WaitMsg waits for a delivered message satisfying pred.
func (w *c14WS) WaitMsg(timeout time.Duration, pred func(c14Msg) bool) (c14Msg, bool) {
	t := time.NewTimer(timeout)
	defer t.Stop()
	for {
		select {
		case m := <-w.msgs:
			if pred(m) {
				return m, true
			}
		case <-t.C:
			return c14Msg{}, false
		case <-w.closed:
			// drain what is left
			for {
				select {
				case m := <-w.msgs:
					if pred(m) {
						return m, true
					}
				default:
					return c14Msg{}, false
				}
			}
		}
	}
}

// c14Join is one join attempt (GET /ws upgrade) with its bracket.
type c14Join struct {
	Start, End int64
	Role       string
	PeerID     string
	Status     int    // HTTP status (101 when upgraded)
	ErrText    string // server's error text when refused
	NetErr     string
	Ext        string `json:",omitempty"` // extensions the server accepted in its 101 response
	WS         *c14WS `json:"-"`
}

func (j *c14Join) Upgraded() bool { return j.WS != nil }

func (j *c14Join) brief() map[string]any {
	return map[string]any{"start_ms": float64(j.Start) / 1e6, "end_ms": float64(j.End) / 1e6, "status": j.Status, "err": j.ErrText, "neterr": j.NetErr, "role": j.Role}
}

var c14PeerSeq atomic.Int64

func c14PeerID(prefix string) string { return fmt.Sprintf("%s%d", prefix, c14PeerSeq.Add(1)) }

// predial opens a TCP connection to the server (used so that a burst only has to send
// the upgrade request after the start barrier).
func (s *c14Server) predial() (net.Conn, error) {
	return net.DialTimeout("tcp", fmt.Sprintf("127.0.0.1:%d", s.Port), 5*time.Second)
}

// join performs the upgrade on pre (or a fresh connection when pre is nil).
func (s *c14Server) join(pre net.Conn, code, role, peerID string, extra url.Values) *c14Join {
	return s.joinOpt(pre, code, role, peerID, extra, c14DialOpt{})
}

// c14DialOpt: the wire representation the client chooses for its messages. Both are the client's
// choice alone (RFC 6455 fragmentation, RFC 7692 permessage-deflate offer); what a message IS -
// and therefore what --max-message-bytes limits - does not depend on them.
type c14DialOpt struct {
	OfferDeflate bool // Sec-WebSocket-Extensions: permessage-deflate offered in the handshake
	WriteBuf     int  // > 0: gorilla's write buffer = largest frame payload; longer messages go out as continuation frames
}

func (s *c14Server) joinOpt(pre net.Conn, code, role, peerID string, extra url.Values, opt c14DialOpt) *c14Join {
	j := &c14Join{Role: role, PeerID: peerID}
	q := url.Values{}
	q.Set("join_code", code)
	q.Set("peer_id", peerID)
	q.Set("role", role)
	for k, v := range extra {
		q[k] = v
	}
	u := fmt.Sprintf("ws://127.0.0.1:%d/ws?%s", s.Port, q.Encode())
	wbuf := 4096
	if opt.WriteBuf > 0 {
		wbuf = opt.WriteBuf
	}
	d := websocket.Dialer{HandshakeTimeout: 10 * time.Second, ReadBufferSize: 4096, WriteBufferSize: wbuf, EnableCompression: opt.OfferDeflate,
		NetDialContext: func(ctx context.Context, network, addr string) (net.Conn, error) {
			if pre != nil {
				c := pre
				pre = nil
				return c, nil
			}
			var nd net.Dialer
			return nd.DialContext(ctx, network, addr)
		}}
	j.Start = c14Now()
	conn, resp, err := d.Dial(u, nil)
	j.End = c14Now()
	if err != nil {
		if resp != nil {
			j.Status = resp.StatusCode
			body, _ := io.ReadAll(io.LimitReader(resp.Body, 4096))
			var m map[string]string
			if json.Unmarshal(body, &m) == nil {
				j.ErrText = m["error"]
			} else {
				j.ErrText = strings.TrimSpace(string(body))
			}
		} else {
			j.NetErr = err.Error()
		}
		return j
	}
	j.Status = http.StatusSwitchingProtocols
	if resp != nil {
		j.Ext = resp.Header.Get("Sec-Websocket-Extensions")
	}
	j.WS = c14WrapWS(conn, peerID)
	return j
}

// c14Envelope builds a valid protocol envelope of exactly size bytes (size >= ~90).
func c14Envelope(msgID, to string, size int) []byte {
	return c14EnvelopeFill(msgID, to, size, nil)
}

// c14EnvelopeFill: as c14Envelope; the padding is one repeated character (rng == nil, highly
// compressible) or characters drawn from a 64-symbol alphabet (hardly compressible).
func c14EnvelopeFill(msgID, to string, size int, rng *vk.Rng) []byte {
	head := fmt.Sprintf(`{"v":1,"type":"c14.test","msg_id":%q,"to":%q,"payload":"`, msgID, to)
	tail := `"}`
	pad := size - len(head) - len(tail)
	if pad < 0 {
		pad = 0
	}
	var sb strings.Builder
	sb.Grow(len(head) + pad + len(tail))
	sb.WriteString(head)
	const alpha = "ABCDEFGHIJKLMNOPQRSTUVWXYZabcdefghijklmnopqrstuvwxyz0123456789-_"
	for i := 0; i < pad; i++ {
		if rng != nil {
			sb.WriteByte(alpha[rng.Intn(64)])
		} else {
			sb.WriteByte('x')
		}
	}
	sb.WriteString(tail)
	return []byte(sb.String())
}
