//go:build verif

package main

import (
	"bufio"
	"context"
	"encoding/binary"
	"encoding/hex"
	"encoding/json"
	"fmt"
	"os"
	"os/exec"
	"path/filepath"
	"runtime"
	"runtime/debug"
	"strings"
	"sync"
	"sync/atomic"
	"time"

	"github.com/sheerbytes/sheerbytes/internal/app"
	"github.com/sheerbytes/sheerbytes/internal/transfer"
	"github.com/sheerbytes/sheerbytes/internal/verifhook"
	vk "github.com/sheerbytes/sheerbytes/internal/verifkit"
	"github.com/sheerbytes/sheerbytes/pkg/manifest"
)

func init() {
	register("c15", runC15)
	childCommands["c15-child"] = c15Child
}

// c15Input is one input for one decoder / endpoint.
type c15Input struct {
	ID     string `json:"id"`
	Target string `json:"target"` // decoder name or "ep-recv" / "ep-send"
	Again  bool   `json:"again,omitempty"` // replay of an input whose first run did not return
	Class  string `json:"class"`  // stable class of the input (for finding keys)
	Hex    string `json:"hex"`    // decoder input, or control-stream bytes for endpoints
	Data   string `json:"data,omitempty"` // endpoints: data-stream bytes (hex)
	Valid  bool   `json:"valid,omitempty"`
	// endpoints only:
	Opts string `json:"opts,omitempty"` // option set of the endpoint: "" = library options without callbacks, "app" = what internal/app passes (callbacks on the real progress objects), "bare" = Options{} (no resume)
	Hold string `json:"hold,omitempty"` // "" | "must-return" | "observe" (+ ":reset"): the script ends one stream (FIN / reset) and leaves the others open
	Pre  string `json:"pre,omitempty"`  // "prior-session": the output directory holds a.bin and a sidecar with chunk 0 complete
	Hex2 string `json:"hex2,omitempty"` // ep-recv: control bytes written once the receiver has stored a chunk
	Tree string `json:"tree,omitempty"` // ep-send: "big" = c15TreeBig (files of 21 and 70 chunks) instead of the recorded c15Tree
	// NoRead: the scripted peer never reads (or stops reading) what the endpoint
	// writes, sends/accepts what the spec says and then ends all of its streams
	// (c15noread.go)
	NoRead *c15NoReadSpec `json:"noread,omitempty"`
	// Plant: two sessions against one output directory; the first one writes
	// the bytes in Hex, through the protocol, where the receiver keeps the
	// resume sidecar of another item (c15planted.go)
	Plant *c15PlantSpec `json:"plant,omitempty"`
}

type c15Result struct {
	ID        string `json:"id"`
	Err       string `json:"err"`
	Panic     string `json:"panic,omitempty"`
	AllocB    uint64 `json:"alloc"`
	InputLen  int    `json:"input_len"`
	TimedOut  bool   `json:"timed_out,omitempty"`
	Returned  bool   `json:"returned"`
	CanaryOK  bool   `json:"canary_ok,omitempty"`
	// Reproduced: the endpoint also failed to return when the same input was
	// replayed once more on a fresh connection
	Reproduced bool `json:"reproduced,omitempty"`
	Dump      string `json:"dump,omitempty"`
	ReturnedNil bool `json:"returned_nil,omitempty"`
	// endpoints: what the script observed
	ReturnedBeforeClose bool `json:"returned_before_close,omitempty"` // Hold: the endpoint returned while the other streams were still open
	ChunkStored         bool `json:"chunk_stored,omitempty"`          // Hex2: recv.chunk.afterMark was hit before Hex2 was written
	SawChunk0           bool `json:"saw_chunk0,omitempty"`            // the receiver reported chunk 0 of a file as complete in a FileResumeInfo
	HeldOpen            bool `json:"held_open,omitempty"`             // the watchdog fired while the script was still holding the other streams open
	BigInfos            int  `json:"big_infos,omitempty"`             // reactive receiver: resume reports written for files of more than 8 chunks
	PeerWrote           int  `json:"peer_wrote,omitempty"`            // no-read sender: files whose FileBegin..FileEnd the receiver consumed
	PeerRead            int  `json:"peer_read,omitempty"`             // no-read receiver: bytes it read before it stopped reading
	PeerEnded           bool `json:"peer_ended,omitempty"`            // no-read: the script closed all of its streams and its connection
	Finalized           int  `json:"finalized,omitempty"`             // no-read sender: files the receiver had completed (hook recv.finalize.before) when the sender ended
	BeginHandled        int  `json:"begin_handled,omitempty"`         // ep-recv: FileBegin records the receiver handled to the end (hook recv.begin.handled) during this case
	PeerStalled         bool `json:"peer_stalled,omitempty"`          // no-read sender: its own writes were still blocked (the receiver had stopped reading) when it ended
	Planted             bool `json:"planted,omitempty"`               // planted sidecar: after session 1 the bytes on disk were the peer's and the victim file had its full size
	S2BeginWritten      bool `json:"s2_begin_written,omitempty"`      // planted sidecar: the victim's FileBegin of session 2 was written
	S2Info              bool `json:"s2_info,omitempty"`               // planted sidecar: the receiver answered it with a resume report
	S2Done              bool `json:"s2_done,omitempty"`               // planted sidecar: the receiver completed the victim in session 2
}

const c15AllocBase = 4 << 20 // bytes; plus 64 x input length

// ---- valid records ----------------------------------------------------------

func encodeRecords() map[string][]byte {
	out := map[string][]byte{}
	enc := func(name string, fn func(s transfer.Stream) error) {
		ms := vk.NewMemStream(nil)
		if err := fn(ms); err == nil {
			out[name] = append([]byte(nil), ms.Out.Bytes()...)
		}
	}
	m := manifest.Manifest{Root: "root", FileCount: 1, TotalBytes: 33, Items: []manifest.FileItem{{RelPath: "dir", IsDir: true, ID: "1111111111111111"}, {RelPath: "dir/f.bin", Size: 33, ModTime: 5, ID: "2222222222222222"}}}
	enc("header", func(s transfer.Stream) error { return transfer.VerifCoreWriteControlHeader(s, m) })
	enc("FileBegin", func(s transfer.Stream) error {
		return transfer.VerifCoreWriteFileBegin(s, transfer.FileBegin{RelPath: "dir/f.bin", FileSize: 33, ChunkSize: 16, StreamID: 77, HashAlg: 1})
	})
	enc("FileEnd", func(s transfer.Stream) error { return transfer.VerifCoreWriteFileEnd(s, transfer.FileEnd{StreamID: 77, CRC32: 9}) })
	enc("FileDone", func(s transfer.Stream) error {
		return transfer.VerifCoreWriteFileDone(s, transfer.FileDone{StreamID: 77, OK: false, ErrMsg: "some error"})
	})
	enc("FileResumeInfo", func(s transfer.Stream) error {
		return transfer.VerifCoreWriteFileResumeInfo(s, transfer.FileResumeInfo{FileID: "2222222222222222", StreamID: 77, TotalChunks: 3, Bitmap: []byte{5}, LastVerifiedChunk: 2, LastVerifiedHash: 99})
	})
	enc("ResumeRequest", func(s transfer.Stream) error {
		return transfer.VerifCoreWriteResumeRequest(s, transfer.ResumeRequest{FileID: "2222222222222222", StreamID: 77})
	})
	enc("DataStreams", func(s transfer.Stream) error { return transfer.VerifCoreWriteDataStreams(s, transfer.DataStreams{Count: 2}) })
	enc("End", func(s transfer.Stream) error { return transfer.VerifCoreWriteControlEnd(s) })
	// Credit / CreditBatch have no exported writer shim here: hand-encode
	cr := []byte{transfer.VerifTypeCredit}
	cr = binary.BigEndian.AppendUint64(cr, 77)
	cr = binary.BigEndian.AppendUint32(cr, 4)
	out["Credit"] = cr
	cb := []byte{transfer.VerifTypeCreditBatch}
	cb = binary.BigEndian.AppendUint32(cb, 2)
	for i := 0; i < 2; i++ {
		cb = binary.BigEndian.AppendUint64(cb, uint64(70+i))
		cb = binary.BigEndian.AppendUint32(cb, 3)
	}
	out["CreditBatch"] = cb
	return out
}

func legacyManifestBytes() []byte {
	b := c15LegacyManifest()
	// locate the file record: type 0x02, len(11) "ok/file.bin", size(8), chunk size(4)
	if i := strings.Index(string(b), "\x02\x00\x0bok/file.bin"); i >= 0 {
		fieldNames["manifest"] = map[int]string{i + 3 + 11 + 8: "file-record-chunk-size", 4: "manifest-json-length"}
	}
	return b
}

func legacyFileBytes() []byte {
	return c15LegacyFile("name.bin")
}

func dumbBytes() []byte {
	b := binary.BigEndian.AppendUint16(nil, 4)
	b = append(b, "name"...)
	b = binary.BigEndian.AppendUint64(b, 10)
	return append(b, make([]byte, 10)...)
}

func sidecarBytes(work string) []byte {
	dir := vk.TempDir(work, "c15sc-")
	defer os.RemoveAll(dir)
	return c15MakeSidecar(filepath.Join(dir, "sc.sbxmap"), "2222222222222222", 100, 16, []uint32{0, 2, 3})
}

// mutateInto appends the generic mutations of valid to the list.
// fieldNames gives stable names to byte offsets of a valid input (per record)
// so that finding keys name the field instead of a raw offset.
var fieldNames = map[string]map[int]string{}

func mutateInto(list *[]c15Input, target, record string, valid []byte, r *vk.Rng, thorough bool) {
	names := fieldNames[record]
	add := func(class string, b []byte) {
		if i := strings.Index(class, "@"); i >= 0 && names != nil {
			var w, off int
			var v string
			if n, _ := fmt.Sscanf(class, "u%d@%d=%s", &w, &off, &v); n == 3 {
				for foff, nm := range names {
					if off < foff+4 && off+w/8 > foff {
						class = fmt.Sprintf("field:%s:u%d+%d=%s", nm, w, off-foff, v)
					}
				}
			}
		}
		*list = append(*list, c15Input{Target: target, Class: record + ":" + class, Hex: hex.EncodeToString(b)})
	}
	*list = append(*list, c15Input{Target: target, Class: record + ":valid", Hex: hex.EncodeToString(valid), Valid: true})
	for n := 0; n < len(valid); n++ { // truncation at every byte
		add(fmt.Sprintf("trunc@%d", n), valid[:n])
	}
	lim := len(valid)
	if lim > 96 && !thorough {
		lim = 96
	}
	for off := 0; off < len(valid); off++ {
		named := false
		for foff := range names {
			if off > foff-4 && off < foff+4 {
				named = true
			}
		}
		if off >= lim && !named {
			continue
		}
		for _, w := range []int{1, 2, 4} {
			if off+w > len(valid) {
				continue
			}
			for _, v := range []uint32{0, 1, 0xFFFF, 0xFFFFFFFF, 0x7FFFFFFF, 0x80000000} {
				if w == 1 && v > 0xFF && v != 0xFFFFFFFF {
					continue
				}
				if w == 2 && v > 0xFFFF && v != 0xFFFFFFFF {
					continue
				}
				b := append([]byte(nil), valid...)
				switch w {
				case 1:
					b[off] = byte(v)
				case 2:
					binary.BigEndian.PutUint16(b[off:], uint16(v))
				case 4:
					binary.BigEndian.PutUint32(b[off:], v)
				}
				add(fmt.Sprintf("u%d@%d=%x", w*8, off, v), b)
			}
		}
	}
	// unknown type bytes (first byte)
	for _, t := range []byte{0x00, 0x0f, 0x18, 0x19, 0x7f, 0x80, 0xfe} {
		b := append([]byte(nil), valid...)
		if len(b) > 0 {
			b[0] = t
		}
		add(fmt.Sprintf("type=%02x", t), b)
	}
}

func c15DecoderInputs(e *Env) []c15Input {
	r := vk.NewRng(vk.Mix(e.Seed ^ vk.HashStr("c15dec"+e.Tier)))
	var list []c15Input
	recs := encodeRecords()
	for name, b := range recs {
		if name == "header" {
			mutateInto(&list, "control-header", name, b, r, e.Thorough())
		} else {
			mutateInto(&list, "control-message", name, b, r, e.Thorough())
		}
	}
	lmb := legacyManifestBytes()
	mutateInto(&list, "legacy-manifest", "manifest", lmb, r, e.Thorough())
	c15EnumDecoderInputs(e, r, &list, recs, lmb)
	c15ManifestDecoderInputs(&list)
	mutateInto(&list, "legacy-file", "file", legacyFileBytes(), r, e.Thorough())
	mutateInto(&list, "dumb", "dumb", dumbBytes(), r, e.Thorough())
	mutateInto(&list, "sidecar", "sidecar", sidecarBytes(e.Work), r, e.Thorough())
	c15SealedDecoderInputs(&list)
	// seeded random bytes, with a plausible first byte half of the time
	targets := []string{"control-message", "control-header", "legacy-manifest", "legacy-file", "dumb", "sidecar"}
	types := []byte{0x10, 0x11, 0x12, 0x13, 0x14, 0x15, 0x16, 0x17, 0xFF}
	for i := 0; i < e.Pick(3000, 150000); i++ {
		t := targets[r.Intn(len(targets))]
		b := r.Bytes(r.Intn(64))
		if len(b) > 0 && r.Bool() {
			switch t {
			case "control-message":
				b[0] = types[r.Intn(len(types))]
			case "control-header":
				copy(b, "SBC1")
			case "legacy-manifest":
				copy(b, "SBM1")
			case "legacy-file":
				copy(b, "SBX1")
			case "sidecar":
				copy(b, "SBM2\x00\x01")
			}
		}
		list = append(list, c15Input{Target: t, Class: "random", Hex: hex.EncodeToString(b)})
	}
	for i := range list {
		list[i].ID = fmt.Sprintf("D%06d", i)
		if list[i].Target == "legacy-manifest" && (i+int(e.Seed))%2 == 1 {
			list[i].Opts = "app" // with a progress callback
		}
	}
	return list
}

// ---- child ------------------------------------------------------------------

// c15Child processes a cases file sequentially, logging START before and a
// result line after each case, so that a crash is attributed to one case.
func c15Child(args []string) int {
	if len(args) < 3 {
		return 3
	}
	casesPath, logPath, work := args[0], args[1], args[2]
	start := 0
	if len(args) > 3 {
		fmt.Sscanf(args[3], "%d", &start)
	}
	debug.SetGCPercent(50)
	c15InstallHooks()
	f, err := os.Open(casesPath)
	if err != nil {
		return 3
	}
	defer f.Close()
	lg, err := os.OpenFile(logPath, os.O_CREATE|os.O_WRONLY|os.O_APPEND, 0644)
	if err != nil {
		return 3
	}
	defer lg.Close()
	sc := bufio.NewScanner(f)
	sc.Buffer(make([]byte, 1<<20), 64<<20)
	var lp *vk.ListenerPool
	idx := -1
	for sc.Scan() {
		idx++
		if idx < start {
			continue
		}
		var in c15Input
		if json.Unmarshal(sc.Bytes(), &in) != nil {
			continue
		}
		fmt.Fprintf(lg, "START %d %s\n", idx, in.ID)
		var res c15Result
		if strings.HasPrefix(in.Target, "ep-") {
			if lp == nil {
				lp, err = vk.NewListenerPool(1, 3*time.Second)
				if err != nil {
					fmt.Fprintf(lg, "SETUPERR %v\n", err)
					return 3
				}
			}
			if in.Plant != nil {
				res = c15RunPlanted(lp, in, work)
			} else if in.NoRead != nil {
				res = c15RunNoRead(lp, in, work)
			} else {
				res = c15RunEndpoint(lp, in, work)
			}
		} else {
			res = c15RunDecoder(in, work)
		}
		res.ID = in.ID
		b, _ := json.Marshal(res)
		fmt.Fprintf(lg, "END %d %s\n", idx, b)
	}
	return 0
}

func c15RunDecoder(in c15Input, work string) (res c15Result) {
	data, _ := hex.DecodeString(in.Hex)
	res.InputLen = len(data)
	done := make(chan struct{})
	var ms1, ms2 runtime.MemStats
	runtime.GC()
	runtime.ReadMemStats(&ms1)
	go func() {
		defer close(done)
		defer func() {
			if r := recover(); r != nil {
				res.Panic = fmt.Sprint(r)
			}
		}()
		var err error
		switch in.Target {
		case "control-message":
			ms := vk.NewMemStream(data)
			// decode records until the input is exhausted or an error occurs
			for {
				var typ byte
				typ, _, err = transfer.VerifCoreReadControlMessage(ms)
				if err != nil || ms.Remaining() == 0 || typ == transfer.VerifTypeEnd {
					break
				}
			}
		case "control-header":
			_, err = transfer.VerifCoreReadControlHeader(vk.NewMemStream(data))
		case "legacy-manifest":
			d := vk.TempDir(work, "lm-")
			ctx, cancel := context.WithTimeout(context.Background(), 5*time.Second)
			var pf transfer.ProgressFn
			if in.Opts == "app" { // the caller reports progress, as every caller in internal/app does
				var seen int64
				pf = func(_ string, n int64, _ int64) { seen = n }
				_ = seen
			}
			_, err = transfer.RecvManifest(ctx, vk.NewMemStream(data), d, pf)
			cancel()
			os.RemoveAll(d)
		case "legacy-file":
			d := vk.TempDir(work, "lf-")
			ctx, cancel := context.WithTimeout(context.Background(), 5*time.Second)
			_, err = transfer.RecvFile(ctx, vk.NewMemStream(data), d)
			cancel()
			os.RemoveAll(d)
		case "dumb":
			_, err = app.VerifRecvDumbDiscardReader(vk.NewMemStream(data))
		case "sidecar":
			d := vk.TempDir(work, "sc-")
			p := filepath.Join(d, "x.sbxmap")
			_ = os.WriteFile(p, data, 0644)
			_, err = transfer.LoadSidecar(p)
			os.RemoveAll(d)
		}
		res.Returned = true
		if err != nil {
			res.Err = err.Error()
		} else {
			res.ReturnedNil = true
		}
	}()
	select {
	case <-done:
	case <-time.After(8 * time.Second):
		res.TimedOut = true
	}
	runtime.ReadMemStats(&ms2)
	res.AllocB = ms2.TotalAlloc - ms1.TotalAlloc
	return res
}

// ---- endpoints ---------------------------------------------------------------

// c15ChunkStored is the "receiver stored a chunk" signal of the case that is
// running (a child runs its cases one at a time).
var c15ChunkStored atomic.Pointer[chan struct{}]

func c15InstallHooks() {
	verifhook.Set("recv.chunk.afterMark", func(verifhook.Event) {
		if ch := c15ChunkStored.Load(); ch != nil {
			select {
			case *ch <- struct{}{}:
			default:
			}
		}
	})
}

// c15EndStream ends the script's side of a stream: FIN, or a reset of the
// sending direction.
func c15EndStream(s transfer.Stream, how string) {
	if how == "reset" {
		if cw, ok := s.(interface{ CloseWrite() error }); ok {
			_ = cw.CloseWrite()
			return
		}
	}
	_ = s.Close()
}

// c15WatchReplies reads what the receiver writes on the control stream; it
// notes a FileResumeInfo that reports chunk 0 as complete.
func c15WatchReplies(cs transfer.Stream, sawChunk0 *atomic.Bool) {
	for {
		typ, msg, err := transfer.VerifCoreReadControlMessage(cs)
		if err != nil {
			break
		}
		if typ == transfer.VerifTypeFileResumeInfo {
			if ri, ok := msg.(transfer.FileResumeInfo); ok && len(ri.Bitmap) > 0 && ri.Bitmap[0]&1 != 0 {
				sawChunk0.Store(true)
			}
		}
	}
	buf := make([]byte, 4096)
	for {
		if _, err := cs.Read(buf); err != nil {
			return
		}
	}
}

// c15PriorSession leaves in out what an interrupted earlier session of the
// manifest in ctrl leaves behind for a.bin: the pre-sized data file and a
// sidecar with chunk 0 complete.
func c15PriorSession(out string, ctrl []byte) {
	hm, err := transfer.VerifCoreReadControlHeader(vk.NewMemStream(ctrl))
	if err != nil {
		return
	}
	for _, it := range hm.Items {
		if it.IsDir || !strings.HasSuffix(it.RelPath, "a.bin") || it.Size < 0 || it.Size > 1<<20 {
			continue
		}
		fp := filepath.Join(out, filepath.FromSlash(it.RelPath))
		_ = os.MkdirAll(filepath.Dir(fp), 0755)
		_ = os.WriteFile(fp, make([]byte, it.Size), 0644)
		_ = c15MakeSidecar(transfer.SidecarPath(out, "", transfer.VerifCoreSidecarID(it)), it.ID, it.Size, 16, []uint32{0})
	}
}

// c15RunEndpoint replays (mutated) recorded stream bytes against a real
// endpoint over loopback QUIC, then closes the connection (the input has ended).
func c15RunEndpoint(lp *vk.ListenerPool, in c15Input, work string) (res c15Result) {
	ctrl, _ := hex.DecodeString(in.Hex)
	data, _ := hex.DecodeString(in.Data)
	ctrl2, _ := hex.DecodeString(in.Hex2)
	res.InputLen = len(ctrl) + len(data) + len(ctrl2)
	if lp == nil {
		res.Err = "SETUP: no listener"
		res.Returned = true
		return res
	}
	l := lp.Get()
	defer lp.Put(l)
	p, err := l.NewPair(context.Background())
	if err != nil {
		res.Err = "SETUP: " + err.Error()
		res.Returned = true
		return res
	}
	defer p.Close()
	// "app-mc": the application's options over two connections wrapped in
	// NewMultiConn, as the CLI does whenever --total-connections > 1 (its
	// default): control stream on the first connection, data on the second
	dials, accepts := []transfer.Conn{p.Dial}, []transfer.Conn{p.Accept}
	var recvConn, sendConn transfer.Conn = p.Accept, p.Dial
	if in.Opts == "app-mc" {
		p2, err := l.NewPair(context.Background())
		if err != nil {
			res.Err = "SETUP: " + err.Error()
			res.Returned = true
			return res
		}
		defer p2.Close()
		dials, accepts = append(dials, p2.Dial), append(accepts, p2.Accept)
		if in.Target == "ep-recv" {
			recvConn, err = transfer.NewMultiConn(accepts)
		} else {
			sendConn, err = transfer.NewMultiConn(dials)
		}
		if err != nil {
			res.Err = "SETUP: " + err.Error()
			res.Returned = true
			return res
		}
	}
	closeAll := func(cs []transfer.Conn) {
		for _, c := range cs {
			_ = c.Close()
		}
	}
	base := vk.TempDir(work, "ep-")
	defer os.RemoveAll(base)
	defer transfer.VerifRetireSidecars(base)
	ctx, cancel := context.WithTimeout(context.Background(), 30*time.Second)
	defer cancel()
	hold, how, _ := strings.Cut(in.Hold, ":")
	var gaveUpHolding, chunkStored, sawChunk0, holding atomic.Bool
	var stored chan struct{}
	if len(ctrl2) > 0 {
		stored = make(chan struct{}, 8)
		c15ChunkStored.Store(&stored)
		defer c15ChunkStored.Store(nil)
	}
	var ms1, ms2 runtime.MemStats
	runtime.GC()
	runtime.ReadMemStats(&ms1)
	beginHandled0 := verifhook.Hits("recv.begin.handled")
	done := make(chan error, 1)
	returned := make(chan struct{})
	// linger gives the endpoint time to act on what it was sent before the
	// script ends the input (it stops early once the endpoint has returned)
	linger := func(d time.Duration) {
		select {
		case <-returned:
		case <-time.After(d):
		}
	}
	// holdOpen: the script has ended one stream and keeps the others open
	// until the endpoint returns (must-return: until the watchdog has fired)
	holdOpen := func() {
		d := 400 * time.Millisecond
		if hold == "must-return" {
			d = 15 * time.Second
		}
		holding.Store(true)
		select {
		case <-returned:
		case <-time.After(d):
			gaveUpHolding.Store(true) // set before the script closes anything else
		}
		holding.Store(false)
	}
	stopOpts := func() {}
	switch in.Target {
	case "ep-recv":
		out := filepath.Join(base, "out")
		if in.Pre == "prior-session" {
			c15PriorSession(out, ctrl)
		}
		var opts transfer.Options
		switch in.Opts {
		case "app", "app-mc":
			opts, stopOpts = app.VerifC15ReceiverOptions(ctx, 47, 2, out, true, len(accepts))
		case "bare":
			opts = transfer.Options{NoRootDir: true}
		default:
			opts = transfer.Options{Resume: true, NoRootDir: true, HashAlg: "crc32c", ParallelFiles: 1}
		}
		go func() {
			_, err := transfer.RecvManifestMultiStream(ctx, recvConn, out, opts)
			close(returned)
			done <- err
		}()
		// script: the hostile sender
		go func() {
			cs, err := p.Dial.OpenStream(ctx)
			if err != nil {
				return
			}
			if _, err := cs.Write(ctrl); err != nil {
				return
			}
			go c15WatchReplies(cs, &sawChunk0) // and drain whatever else the receiver says
			var ds transfer.Stream
			if len(data) > 0 {
				if ds, err = dials[len(dials)-1].OpenStream(ctx); err == nil {
					_, _ = ds.Write(data)
				} else {
					ds = nil
				}
			}
			if len(ctrl2) > 0 {
				// history: the second part of the control input follows once the
				// receiver has stored a chunk
				select {
				case <-stored:
					chunkStored.Store(true)
				case <-returned:
				case <-time.After(3 * time.Second):
				}
				_, _ = cs.Write(ctrl2)
			}
			switch {
			case hold != "":
				if ds != nil {
					c15EndStream(ds, how)
				}
				holdOpen()
			case ds != nil:
				linger(700 * time.Millisecond)
				_ = ds.Close()
			default:
				linger(300 * time.Millisecond)
			}
			_ = cs.Close()
			linger(100 * time.Millisecond)
			closeAll(dials) // the input has ended
		}()
	case "ep-send":
		src := filepath.Join(base, "srcroot")
		tree := c15Tree()
		if in.Tree == "big" {
			tree = c15TreeBig()
		}
		_ = tree.Materialize(src)
		m, _ := manifest.ScanPaths([]string{src})
		resolver, _ := app.VerifBuildPathResolver([]string{src})
		c15BigInfos.Store(0)
		var opts transfer.Options
		switch in.Opts {
		case "app", "app-mc":
			opts, stopOpts = app.VerifC15SenderOptions(ctx, m, 16, 1, len(dials), resolver)
		case "bare":
			opts = transfer.Options{ChunkSize: 16, ParallelFiles: 1, ResolveFilePath: resolver}
		default:
			opts = transfer.Options{ChunkSize: 16, ParallelFiles: 1, Resume: true, HashAlg: "crc32c", ResolveFilePath: resolver,
				ParamSource: func() transfer.RuntimeParams { return transfer.RuntimeParams{ChunkSize: 16, ParallelFiles: 1} }}
		}
		go func() {
			err := transfer.SendManifestMultiStream(ctx, sendConn, ".", m, opts)
			close(returned)
			done <- err
		}()
		// script: the hostile receiver
		go func() {
			cs, err := p.Accept.AcceptStream(ctx)
			if err != nil {
				return
			}
			reactive := strings.HasPrefix(in.Class, "acks:reactive:")
			if !reactive {
				go func() {
					buf := make([]byte, 4096)
					for {
						if _, err := cs.Read(buf); err != nil {
							return
						}
					}
				}()
			} else {
				// a hostile receiver that follows the sender's control stream and
				// answers each record with acknowledgements of its own choosing
				// (repeated, contradictory, for other files), back to back
				go c15ReactiveAcks(cs, strings.TrimPrefix(in.Class, "acks:reactive:"), ctrl)
			}
			for _, ac := range accepts { // accept and drain data streams
				go func(ac transfer.Conn) {
					for {
						ds, err := ac.AcceptStream(ctx)
						if err != nil {
							return
						}
						go func() {
							buf := make([]byte, 4096)
							for {
								if _, err := ds.Read(buf); err != nil {
									return
								}
							}
						}()
					}
				}(ac)
			}
			switch {
			case reactive:
				linger(3 * time.Second)
			case hold != "":
				time.Sleep(30 * time.Millisecond)
				_, _ = cs.Write(ctrl)
				c15EndStream(cs, how) // the acknowledgement stream ends; connection and data streams stay
				holdOpen()
			default:
				time.Sleep(30 * time.Millisecond)
				_, _ = cs.Write(ctrl)
				linger(500 * time.Millisecond)
			}
			_ = cs.Close()
			linger(100 * time.Millisecond)
			closeAll(accepts)
		}()
	}
	select {
	case err := <-done:
		res.Returned = true
		if err != nil {
			res.Err = err.Error()
		} else {
			res.ReturnedNil = true
		}
		res.ReturnedBeforeClose = hold != "" && !gaveUpHolding.Load()
	case <-time.After(10 * time.Second):
		res.TimedOut = true
		res.HeldOpen = holding.Load()
		res.Dump = c15Dump()
		cancel()
		// canary: a plain valid exchange must still complete promptly
		if in.Class != "canary" {
			t0 := time.Now()
			cres := c15RunEndpoint(lp2(lp), c15Input{Target: in.Target, Class: "canary", Hex: os.Getenv("C15_CANARY_" + in.Target), Data: os.Getenv("C15_CANARY_DATA")}, work)
			res.CanaryOK = cres.Returned && time.Since(t0) < 5*time.Second
			// an endpoint that blocks on this input blocks on it again: the
			// same input once more, on a fresh connection (a datagram lost on an
			// overloaded machine does not repeat itself)
			if res.CanaryOK && !in.Again {
				again := in
				again.Again = true
				ares := c15RunEndpoint(lp2(lp), again, work)
				res.Reproduced = ares.TimedOut
			}
		}
	}
	res.ChunkStored = chunkStored.Load()
	res.SawChunk0 = sawChunk0.Load()
	if in.Target == "ep-recv" && in.Class != "canary" && !in.Again {
		res.BeginHandled = int(verifhook.Hits("recv.begin.handled") - beginHandled0)
	}
	if in.Target == "ep-send" {
		res.BigInfos = int(c15BigInfos.Load())
	}
	// goroutines of the endpoint may still be finishing an allocation they
	// started on the peer's say-so: give them a moment before measuring
	time.Sleep(150 * time.Millisecond)
	runtime.ReadMemStats(&ms2)
	res.AllocB = ms2.TotalAlloc - ms1.TotalAlloc
	cancel()
	stopOpts()
	return res
}

// lp2 returns a fresh single-listener pool for the canary (the caller holds lp's only listener).
func lp2(_ *vk.ListenerPool) *vk.ListenerPool {
	p, err := vk.NewListenerPool(1, 3*time.Second)
	if err != nil {
		return nil
	}
	return p
}

func c15Dump() string {
	buf := make([]byte, 1<<20)
	n := runtime.Stack(buf, true)
	var keep []string
	for _, g := range strings.Split(string(buf[:n]), "\n\n") {
		if strings.Contains(g, "internal/transfer.") && !strings.Contains(g, "newReadPool") {
			lines := strings.Split(g, "\n")
			if len(lines) > 9 {
				lines = lines[:9]
			}
			keep = append(keep, strings.Join(lines, "\n"))
		}
	}
	if len(keep) > 10 {
		keep = keep[:10]
	}
	return strings.Join(keep, "\n\n")
}

func c15Tree() vk.Tree {
	return vk.Tree{Seed: 15, Shape: "c15", Names: "plain", Entries: []vk.Entry{{Rel: "a.bin", Size: 40}, {Rel: "b.bin", Size: 7}}}
}

// c15Record records the stream bytes of one healthy transfer of c15Tree.
func c15Record(e *Env) (ctrlW, ctrlR []byte, dataW []byte, ok bool) {
	lp, err := vk.NewListenerPool(1, 3*time.Second)
	if err != nil {
		return nil, nil, nil, false
	}
	defer lp.Close()
	base := vk.TempDir(e.Work, "c15rec-")
	defer os.RemoveAll(base)
	src := filepath.Join(base, "srcroot")
	_ = c15Tree().Materialize(src)
	out := filepath.Join(base, "out")
	_ = os.MkdirAll(out, 0755)
	deco := &vk.Deco{RecordAll: true}
	cfg := vk.XferCfg{Transport: "quic", Conns: 1, Streams: 1, ChunkSize: 16, Resume: true, NoRootDir: true, ScanPaths: true, SendDeco: deco}
	res := vk.RunTransfer(context.Background(), cfg, lp, src, out)
	if !res.BothOK() {
		return nil, nil, nil, false
	}
	return deco.Recorded(0, "w"), deco.Recorded(0, "r"), deco.Recorded(1, "w"), true
}

// c15ReactiveAcks reads the sender's control stream record by record and
// writes acknowledgements according to mode. recorded holds the receiver->
// sender bytes of a healthy exchange (source of plausible FileResumeInfo
// records).
func c15ReactiveAcks(cs transfer.Stream, mode string, recorded []byte) {
	infos := map[uint64]transfer.FileResumeInfo{}
	ms := vk.NewMemStream(recorded)
	for ms.Remaining() > 0 {
		typ, msg, err := transfer.VerifCoreReadControlMessage(ms)
		if err != nil {
			break
		}
		if typ == transfer.VerifTypeFileResumeInfo {
			ri := msg.(transfer.FileResumeInfo)
			infos[ri.StreamID] = ri
		}
	}
	hm, err := transfer.VerifCoreReadControlHeader(cs)
	if err != nil {
		return
	}
	begun := map[uint64]transfer.FileBegin{} // what the sender announced, by stream id
	rep := func(n int, f func(w transfer.Stream)) {
		// encode n copies into one buffer so that they arrive in one read
		buf := vk.NewMemStream(nil)
		for i := 0; i < n; i++ {
			f(buf)
		}
		_, _ = cs.Write(buf.Out.Bytes())
	}
	n := 8
	switch {
	case strings.HasSuffix(mode, "-x1"):
		n = 1
	case strings.HasSuffix(mode, "-x2"):
		n = 2
	case strings.HasSuffix(mode, "-x32"):
		n = 32
	case strings.HasPrefix(mode, "field:"):
		n = 1
	}
	for {
		typ, msg, err := transfer.VerifCoreReadControlMessage(cs)
		if err != nil {
			return
		}
		switch typ {
		case transfer.VerifTypeFileBegin:
			fb := msg.(transfer.FileBegin)
			begun[fb.StreamID] = fb
		case transfer.VerifTypeResumeRequest:
			rq := msg.(transfer.ResumeRequest)
			ri, ok := infos[rq.StreamID]
			if !ok {
				ri = transfer.FileResumeInfo{FileID: rq.FileID, StreamID: rq.StreamID}
			}
			k := 1
			if strings.HasPrefix(mode, "resumeinfo") {
				k = n
			}
			if strings.HasPrefix(mode, "field:resumeinfo-bitmap-len") {
				// the honest report for the file the sender announced, made
				// inconsistent as the mode says
				ri = transfer.FileResumeInfo{FileID: rq.FileID, StreamID: rq.StreamID, TotalChunks: c15ChunksOf(rq, begun, hm)}
				if v := c15ModeArg(mode, "file"); v == "" || strings.HasSuffix(begun[rq.StreamID].RelPath, v) {
					ri = c15BitmapLenVariant(ri, mode)
				}
			} else if strings.HasPrefix(mode, "field:resumeinfo") {
				ri = c15ResumeInfoVariant(ri, mode)
			}
			rep(k, func(w transfer.Stream) { _ = transfer.VerifCoreWriteFileResumeInfo(w, ri) })
		case transfer.VerifTypeFileEnd:
			fe := msg.(transfer.FileEnd)
			switch {
			case strings.HasPrefix(mode, "field:filedone-ok-byte"):
				_, _ = cs.Write(c15RawFileDone(fe.StreamID, mode))
			case strings.HasPrefix(mode, "filedone-ok-then-failed"):
				rep(1, func(w transfer.Stream) {
					_ = transfer.VerifCoreWriteFileDone(w, transfer.FileDone{StreamID: fe.StreamID, OK: true})
					for i := 1; i < n; i++ {
						_ = transfer.VerifCoreWriteFileDone(w, transfer.FileDone{StreamID: fe.StreamID, OK: false, ErrMsg: "x"})
					}
				})
			case strings.HasPrefix(mode, "filedone-other-stream"):
				rep(n, func(w transfer.Stream) {
					_ = transfer.VerifCoreWriteFileDone(w, transfer.FileDone{StreamID: fe.StreamID ^ 0x55, OK: true})
				})
				rep(1, func(w transfer.Stream) { _ = transfer.VerifCoreWriteFileDone(w, transfer.FileDone{StreamID: fe.StreamID, OK: true}) })
			case strings.HasPrefix(mode, "filedone-spaced"):
				for i := 0; i < n; i++ {
					rep(1, func(w transfer.Stream) { _ = transfer.VerifCoreWriteFileDone(w, transfer.FileDone{StreamID: fe.StreamID, OK: true}) })
					time.Sleep(time.Duration(i%3) * 200 * time.Microsecond)
				}
			default: // filedone / resumeinfo: n identical records back to back
				k := n
				if strings.HasPrefix(mode, "resumeinfo") {
					k = 1
				}
				rep(k, func(w transfer.Stream) { _ = transfer.VerifCoreWriteFileDone(w, transfer.FileDone{StreamID: fe.StreamID, OK: true}) })
			}
		case transfer.VerifTypeEnd:
			return
		}
	}
}

func c15EndpointInputs(e *Env, ctrlW, ctrlR, dataW []byte) []c15Input {
	r := vk.NewRng(vk.Mix(e.Seed ^ vk.HashStr("c15ep"+e.Tier)))
	var list []c15Input
	// generic[i]: input i is a byte-level mutation of the recorded trace; its
	// option set is chosen below
	generic := map[int]bool{}
	inMut := false
	add := func(target, class string, ctrl, data []byte, valid bool) {
		if inMut {
			generic[len(list)] = true
		}
		list = append(list, c15Input{Target: target, Class: class, Hex: hex.EncodeToString(ctrl), Data: hex.EncodeToString(data), Valid: valid})
	}
	for _, o := range []string{"", "app", "bare", "app-mc"} {
		list = append(list, c15Input{Target: "ep-recv", Class: "valid", Opts: o, Hex: hex.EncodeToString(ctrlW), Data: hex.EncodeToString(dataW), Valid: true})
		list = append(list, c15Input{Target: "ep-send", Class: "valid", Opts: o, Hex: hex.EncodeToString(ctrlR), Valid: true})
	}
	// the recorded sender->receiver control stream starts with magic(4) len(4) json, then records
	hdrLen := 8 + int(binary.BigEndian.Uint32(ctrlW[4:8]))
	stage := func(off int) string {
		switch {
		case off < 8:
			return "header-prefix"
		case off < hdrLen:
			return "header-json"
		default:
			return "records"
		}
	}
	// offsets of the chunk-size field of every FileBegin record in the recorded
	// control stream: a mutation that overlaps one of them is the known
	// peer-chosen-chunk-size class and is named after the field, not after the
	// kind of byte poke that happened to hit it
	var csFields []int
	{
		ms := vk.NewMemStream(ctrlW[hdrLen:])
		for ms.Remaining() > 0 {
			start := hdrLen + (len(ctrlW) - hdrLen - ms.Remaining())
			typ, msg, err := transfer.VerifCoreReadControlMessage(ms)
			if err != nil {
				break
			}
			if typ == transfer.VerifTypeFileBegin {
				fb := msg.(transfer.FileBegin)
				csFields = append(csFields, start+1+2+len(fb.RelPath)+8)
			}
		}
	}
	overlapsChunkSize := func(off, width int) bool {
		for _, f := range csFields {
			if off < f+4 && off+width > f {
				return true
			}
		}
		return false
	}
	step := e.Pick(5, 1)
	mut := func(target string, valid []byte, data []byte, stageOf func(int) string, isData bool) {
		for off := r.Intn(step); off < len(valid); off += step {
			st := stageOf(off)
			mk := func(class string, b []byte) {
				if isData {
					add(target, "data:"+class, ctrlW, b, false)
				} else {
					width := 1
					if strings.HasPrefix(class, "u32=") {
						width = 4
					}
					if target == "ep-recv" && class != "trunc" && overlapsChunkSize(off, width) {
						add(target, "records:field:filebegin-chunk-size:"+class, b, data, false)
						return
					}
					add(target, st+":"+class, b, data, false)
				}
			}
			mk("trunc", valid[:off])
			for _, v := range []byte{0x00, 0xFF} {
				b := append([]byte(nil), valid...)
				b[off] = v
				mk(fmt.Sprintf("byte=%02x", v), b)
			}
			if off+4 <= len(valid) && (st != "header-json") {
				for _, v := range []uint32{0xFFFFFFFF, 0x7FFFFFFF, 0} {
					b := append([]byte(nil), valid...)
					binary.BigEndian.PutUint32(b[off:], v)
					mk(fmt.Sprintf("u32=%x", v), b)
				}
			}
			b := append([]byte(nil), valid...)
			b[off] ^= 1 << uint(r.Intn(8))
			mk("bitflip", b)
		}
	}
	inMut = true
	mut("ep-recv", ctrlW, dataW, stage, false)
	mut("ep-recv", dataW, nil, func(int) string { return "data" }, true)
	mut("ep-send", ctrlR, nil, func(int) string { return "acks" }, false)
	inMut = false
	// option sets of the byte-level mutations: thorough runs each under the
	// library options and under the application's; quick alternates (which
	// half gets which depends on the seed) and runs the data-stream
	// truncations under both
	{
		var extra []c15Input
		for i := range list {
			if !generic[i] {
				continue
			}
			twin := list[i]
			twin.Opts = "app"
			switch {
			case e.Thorough() || list[i].Class == "data:trunc":
				extra = append(extra, twin)
			case (i+int(e.Seed))%4 == 1:
				list[i].Opts = "app"
			case (i+int(e.Seed))%4 == 3:
				list[i].Opts = "app-mc"
			}
			if e.Thorough() && i%4 == 0 {
				twin.Opts = "app-mc"
				extra = append(extra, twin)
			}
		}
		list = append(list, extra...)
	}
	// a receiver that reacts to the sender's records with repeated /
	// contradictory acknowledgements (each several times: the interleaving of
	// the sender's acknowledgement reader with its waiters differs per run)
	for _, mode := range []string{"filedone-x1", "filedone-x2", "filedone-x8", "filedone-x32", "filedone-spaced-x8", "filedone-ok-then-failed-x8", "filedone-other-stream-x8", "resumeinfo-x8", "resumeinfo-x32"} {
		reps := e.Pick(3, 12)
		if mode == "filedone-x1" {
			reps = 1
		}
		for k := 0; k < reps; k++ {
			list = append(list, c15Input{Target: "ep-send", Class: "acks:reactive:" + mode, Opts: []string{"", "app", "app-mc"}[k%3], Hex: hex.EncodeToString(ctrlR), Valid: mode == "filedone-x1"})
		}
	}
	// hand-made hostile records at the "records" stage
	// own data frames for file a.bin (the recorded stream may start with another file)
	var keyA uint64
	if hm, err := transfer.VerifCoreReadControlHeader(vk.NewMemStream(ctrlW)); err == nil {
		for _, it := range hm.Items {
			if strings.HasSuffix(it.RelPath, "a.bin") {
				keyA = transfer.VerifCoreFileKey(it)
			}
		}
	}
	ownData := append(c15ChunkFrame(keyA, 0, []byte("0123456789abcdef")), c15ChunkFrame(keyA, 1, []byte("0123456789abcdef"))...)
	hostile := func(class string, rec []byte) {
		b := append(append([]byte(nil), ctrlW[:hdrLen]...), rec...)
		add("ep-recv", "records:"+class, b, ownData, false)
	}
	hostile("filebegin-chunk-size-0", append(ds1(), c15RawFileBegin("srcroot/a.bin", 40, 0, 0, 1)...))
	// a complete, valid exchange (without End) followed by a late frame for an
	// already finished file that announces an absurd payload length
	{
		ctrlNoEnd := ctrlW
		if n := len(ctrlNoEnd); n > 0 && ctrlNoEnd[n-1] == transfer.VerifTypeEnd {
			ctrlNoEnd = ctrlNoEnd[:n-1]
		}
		for _, ln := range []uint32{0x20000000, 0xFFFFFFFF, 0x01000000} {
			late := binary.BigEndian.AppendUint64(nil, keyA)
			late = binary.BigEndian.AppendUint32(late, 0)
			late = binary.BigEndian.AppendUint32(late, ln)
			late = binary.BigEndian.AppendUint32(late, 0)
			late = append(late, 1, 2, 3)
			add("ep-recv", fmt.Sprintf("data:late-frame-for-finished-file:len=%x", ln), ctrlNoEnd, append(append([]byte(nil), dataW...), late...), false)
		}
	}
	hostile("field:filebegin-chunk-size:huge", append(ds1(), c15RawFileBegin("srcroot/a.bin", 40, 0xFFFFFFFF, 0, 1)...))
	hostile("datastreams-65535", []byte{transfer.VerifTypeDataStreams, 0xFF, 0xFF})
	hostile("creditbatch-huge", append(ds1(), []byte{transfer.VerifTypeCreditBatch, 0xFF, 0xFF, 0xFF, 0xFF}...))
	hostile("end-immediately", append(ds1(), transfer.VerifTypeEnd))
	c15FieldInputs(e, r, ctrlW, ctrlR, dataW, hdrLen, func(in c15Input) { list = append(list, in) })
	c15Round4Inputs(e, func(in c15Input) { list = append(list, in) })
	c15ManifestEndpointInputs(e, ctrlW, dataW, hdrLen, func(in c15Input) { list = append(list, in) })
	c15PlantedInputs(e, func(in c15Input) { list = append(list, in) })
	for i := range list {
		list[i].ID = fmt.Sprintf("E%06d", i)
	}
	return list
}

var c15CanaryEnv []string

func ds1() []byte { return []byte{transfer.VerifTypeDataStreams, 0, 1} }

// ---- parent ------------------------------------------------------------------

// runChildBatch runs the inputs through child processes (restarting after a
// crash) and returns results by id plus the ids on which a child died.
func runChildBatch(e *Env, inputs []c15Input, tag string) (map[string]c15Result, map[string]string) {
	dir := vk.TempDir(e.Work, "c15-"+tag+"-")
	casesPath := filepath.Join(dir, "cases.jsonl")
	logPath := filepath.Join(dir, "log.txt")
	f, _ := os.Create(casesPath)
	w := bufio.NewWriter(f)
	for _, in := range inputs {
		b, _ := json.Marshal(in)
		w.Write(b)
		w.WriteByte('\n')
	}
	w.Flush()
	f.Close()
	results := map[string]c15Result{}
	died := map[string]string{}
	start := 0
	for start < len(inputs) {
		cmd := exec.Command(os.Args[0], "c15-child", casesPath, logPath, dir, fmt.Sprint(start))
		outPath := filepath.Join(dir, fmt.Sprintf("child-%d.out", start))
		of, _ := os.Create(outPath)
		cmd.Stdout, cmd.Stderr = of, of
		cmd.Env = append(os.Environ(), "GOTRACEBACK=all", "GOMEMLIMIT=6GiB")
		cmd.Env = append(cmd.Env, c15CanaryEnv...)
		err := cmd.Run()
		of.Close()
		// parse the log
		lastStart, lastStartID := -1, ""
		lastEnd := -1
		lf, _ := os.Open(logPath)
		sc := bufio.NewScanner(lf)
		sc.Buffer(make([]byte, 1<<20), 16<<20)
		for sc.Scan() {
			ln := sc.Text()
			var idx int
			var rest string
			if strings.HasPrefix(ln, "START ") {
				fmt.Sscanf(ln, "START %d %s", &idx, &rest)
				lastStart, lastStartID = idx, rest
			} else if strings.HasPrefix(ln, "END ") {
				sp := strings.SplitN(ln, " ", 3)
				fmt.Sscanf(sp[1], "%d", &idx)
				var r c15Result
				if json.Unmarshal([]byte(sp[2]), &r) == nil {
					results[r.ID] = r
				}
				lastEnd = idx
			}
		}
		lf.Close()
		if err == nil && lastEnd >= len(inputs)-1 {
			break
		}
		if lastStart > lastEnd {
			// the child died inside case lastStart
			tail, _ := os.ReadFile(outPath)
			t := string(tail)
			if len(t) > 3000 {
				t = t[:1500] + "\n...\n" + t[len(t)-1500:]
			}
			died[lastStartID] = t
			start = lastStart + 1
		} else {
			if lastEnd+1 <= start {
				// no progress at all: give up on this batch
				died[fmt.Sprintf("batch-%s-%d", tag, start)] = "child made no progress: " + fmt.Sprint(err)
				break
			}
			start = lastEnd + 1
		}
	}
	os.RemoveAll(dir)
	return results, died
}

func c15Key(in c15Input, kind string) string {
	cls := in.Class
	// keep the class stable but coarse: strip the concrete byte offset for truncations / byte pokes of random inputs
	if cls == "random" {
		return fmt.Sprintf("%s:%s:random-input", kind, in.Target)
	}
	if strings.HasPrefix(cls, "data-open:") || strings.HasPrefix(cls, "acks-open:") {
		// one stream ended while the others stayed open: the key names where
		// it ended, not the byte offset
		if p := strings.SplitN(cls, ":", 3); len(p) >= 2 {
			return fmt.Sprintf("%s:%s:%s:%s", kind, in.Target, p[0], p[1])
		}
	}
	if strings.HasPrefix(cls, "noread:") {
		// peer never reads: the key names who stopped reading and what was in flight
		if p := strings.SplitN(cls, ":", 4); len(p) >= 3 {
			return fmt.Sprintf("%s:%s:%s:%s:%s", kind, in.Target, p[0], p[1], p[2])
		}
	}
	if i := strings.Index(cls, "field:"); i >= 0 {
		// named field: the key names the field, not the value written into it
		f := cls[i+len("field:"):]
		if j := strings.Index(f, ":"); j >= 0 {
			f = f[:j]
		}
		return fmt.Sprintf("%s:%s:field:%s", kind, in.Target, f)
	}
	return fmt.Sprintf("%s:%s:%s", kind, in.Target, cls)
}

func runC15(e *Env) {
	e.R.Rule = "(a) decoders (control records, control header, legacy manifest and file receivers, dumb receiver header, LoadSidecar) fed from an in-memory stream in child processes: every valid record type truncated at every byte, every 1/2/4-byte field position set to {0,1,0xFFFF,0x7FFFFFFF,0x80000000,0xFFFFFFFF}, every enumeration/flag byte (record type, FileBegin hash algorithm, FileDone ok, legacy record types) swept over its values, seeded random bytes; (b) the real RecvManifestMultiStream / SendManifestMultiStream over loopback QUIC, under the library option set, the option set internal/app passes (progress/delta/stats/resume-stats/file-done callbacks on the real progress objects, ParamSource, path resolver) and the empty option set, against a script that (b1) replays a recorded valid trace with the same kinds of mutation on the control stream and the data stream at every protocol stage and then closes the connection, (b2) sets each peer-chosen enumeration/flag byte to its values in the history in which the endpoint consumes it (FileBegin.HashAlg: fresh file / chunk stored then ResumeRequest / earlier session's sidecar on disk; record type byte at each stage; FileDone.OK after FileEnd; resume report bitmap/counts/verified chunk/hash sentinel after ResumeRequest), (b3) ends one stream inside a record (FIN or reset, data stream inside a chunk payload / frame header / at a frame boundary, acknowledgement stream inside a record) and keeps the other streams open, (b4) answers the ResumeRequest for a file of 21 or 70 chunks with a resume report whose bitmap has 0 / 1 / needed-1 / needed / needed+1 / 2 x needed bytes and whose TotalChunks is the real count / 0 / 8 x the bitmap length, bits all clear or all set, with and without a chunk to verify (honest reports for the sender's other files; with and without ResumeStatsFn), (b5) never reads what the endpoint writes and then ends every stream and the connection: a sender that completes 4..40 empty or one-chunk files over 1..2 announced data streams (with and without ResumeRequests) and never reads an acknowledgement, and a receiver that stops reading after nothing / the header / K control records / K data frames while the sender has four files to send; over the repository's in-memory transport (an unread write blocks at once, so the receiver's acknowledgement queue of 8 per data stream fills) and over QUIC (the unread bytes fit the window), (b6) sends a header whose manifest is well-formed JSON in which one field of the manifest object (root, items, total_bytes, file_count, folder_count) or of a file item (id, rel_path, size, mod_time, is_dir) is absent / empty / null / of the wrong type / 0, 1, -1, min/max int64, 2^32, 2^40, 1e30 / equal to another item's value / 300 characters long (items: absent, null, [], [null], the file item twice, reversed, alone), and then goes on consistently with what the receiver decoded: the rest of the recorded exchange, or DataStreams + the FileBegin of that very item (its path, size and file key as decoded) + its chunks (fresh file), + a ResumeRequest once a chunk is stored, or with an earlier session's data file and sidecar of that item on disk; the same manifests go into the header decoder and the legacy manifest receiver, (b7) authors, through the protocol, the resume state the receiver decodes later: session 1 announces a victim item (the receiver pre-sizes it and writes its sidecar), transfers a second manifest item whose path is the victim's sidecar inside the resume directory (or the fallback sidecar below the root directory, with undecodable bytes in the primary one) and whose content is a well-formed sidecar with a correct checksum in which one field (version, chunk size, file size, chunk count with a bitmap of the matching length clear/set, file id and its length, bitmap length, bitmap bits) holds a boundary value, and ends; session 2 into the same output directory announces the victim again, sends its chunks, a ResumeRequest and FileEnd and ends (in-memory transport, library and application option sets); the same sealed sidecars go into LoadSidecar; monitors: process death (attributed to the logged case), recovered panic, return after the input ended (watchdog + canary; for b3 payload and acknowledgement classes: return while the other streams are still open; for b5: return within 10 s of the moment the peer has closed everything), TotalAlloc delta <= 4 MiB + 64 x input bytes; distinct by (input bytes, option set, history)"
	dec := c15DecoderInputs(e)
	ctrlW, ctrlR, dataW, ok := c15Record(e)
	if !ok {
		e.R.Inconcl("recording run failed")
		e.R.Require(false, "recording run failed")
		return
	}
	eps := c15EndpointInputs(e, ctrlW, ctrlR, dataW)
	c15CanaryEnv = []string{"C15_CANARY_ep-recv=" + hex.EncodeToString(ctrlW), "C15_CANARY_ep-send=" + hex.EncodeToString(ctrlR), "C15_CANARY_DATA=" + hex.EncodeToString(dataW)}
	filtered := os.Getenv("VERIF_C15_CLASS") != "" || os.Getenv("VERIF_C15_ONLY") != ""
	if cls := os.Getenv("VERIF_C15_CLASS"); cls != "" {
		var keep []c15Input
		for _, in := range eps {
			if strings.Contains(in.Class, cls) {
				keep = append(keep, in)
			}
		}
		eps, dec = keep, nil
	}
	if o := os.Getenv("VERIF_C15_OPTS"); o != "" {
		filtered = true
		var keep []c15Input
		for _, in := range eps {
			if in.Opts == o {
				keep = append(keep, in)
			}
		}
		eps, dec = keep, nil
	}
	switch os.Getenv("VERIF_C15_ONLY") {
	case "ep":
		dec = nil
	case "dec":
		eps = nil
	}
	e.R.SetExtra("decoder_inputs", len(dec))
	e.R.SetExtra("endpoint_inputs", len(eps))
	e.R.SetExtra("recorded_bytes", map[string]int{"control_send": len(ctrlW), "control_recv": len(ctrlR), "data": len(dataW)})

	byID := map[string]c15Input{}
	for _, in := range dec {
		byID[in.ID] = in
	}
	for _, in := range eps {
		byID[in.ID] = in
	}
	// split into 16 batches each
	split := func(list []c15Input, n int) [][]c15Input {
		out := make([][]c15Input, n)
		for i, in := range list {
			out[i%n] = append(out[i%n], in)
		}
		return out
	}
	var mu sync.Mutex
	allRes := map[string]c15Result{}
	allDied := map[string]string{}
	run := func(batches [][]c15Input, tag string) {
		vk.ParallelDo(len(batches), 16, func(i int) {
			if len(batches[i]) == 0 {
				return
			}
			res, died := runChildBatch(e, batches[i], fmt.Sprintf("%s%d", tag, i))
			mu.Lock()
			for k, v := range res {
				allRes[k] = v
			}
			for k, v := range died {
				allDied[k] = v
			}
			mu.Unlock()
		})
	}
	// the decoder children are CPU-bound, the endpoint children mostly wait for
	// the scripts' lingering: run both groups at the same time (every child
	// measures its own heap only)
	var wg sync.WaitGroup
	wg.Add(2)
	go func() { defer wg.Done(); run(split(dec, 16), "dec") }()
	go func() { defer wg.Done(); run(split(eps, 16), "ep") }()
	wg.Wait()

	perTarget := map[string]int{}
	outcomes := map[string]int{}
	perOpts := map[string]int{}             // endpoint results per (target, option set)
	fieldOut := map[string]map[string]int{} // field@history -> outcome counts
	holdOut := map[string]map[string]int{}  // stream-end class -> outcome counts
	noReadOut := map[string]map[string]int{} // peer-never-reads: target:transport[option set] -> outcome counts
	mfOut := map[string]map[string]int{}     // manifest-field classes: field@history[option set] / field[decoder] -> outcome counts
	plantOut := map[string]map[string]int{}  // planted-sidecar classes: field@history[option set] -> what was reached
	bump := func(m map[string]map[string]int, k, what string) {
		if m[k] == nil {
			m[k] = map[string]int{}
		}
		m[k][what]++
	}
	optName := func(o string) string {
		if o == "" {
			return "lib"
		}
		return o
	}
	for id, res := range allRes {
		in := byID[id]
		e.R.Eval()
		e.R.Distinct(fmt.Sprintf("%s[%s%s%s%s]:%x:%s", in.Target, in.Opts, in.Hold, in.Pre, in.Tree, vk.HashStr(in.Hex+"|"+in.Data+"|"+in.Hex2), in.Class))
		perTarget[in.Target]++
		c15ManifestTally(mfOut, in, res)
		c15PlantedTally(plantOut, in, res, false)
		if strings.HasPrefix(in.Target, "ep-") {
			perOpts[in.Target+"["+optName(in.Opts)+"]"]++
			if i := strings.Index(in.Class, "field:"); i >= 0 && (strings.Contains(in.Class, "@")) {
				f := in.Class[i+len("field:"):]
				if j := strings.Index(f, ":"); j >= 0 {
					f = f[:j]
				}
				k := f + "[" + optName(in.Opts) + "]"
				bump(fieldOut, k, "cases")
				switch {
				case res.TimedOut:
					bump(fieldOut, k, "timed_out")
				case res.ReturnedNil:
					bump(fieldOut, k, "returned_nil")
				default:
					bump(fieldOut, k, "returned_error")
				}
				if res.ChunkStored {
					bump(fieldOut, k, "chunk_stored_before_second_part")
				}
				if res.SawChunk0 {
					bump(fieldOut, k, "receiver_reported_chunk0_complete")
				}
			}
			if in.NoRead != nil {
				k := in.Target + ":" + in.NoRead.Transport + "[" + optName(in.Opts) + "]"
				bump(noReadOut, k, "cases")
				switch {
				case res.TimedOut:
					bump(noReadOut, k, "not_returned_after_peer_ended")
				case res.ReturnedNil:
					bump(noReadOut, k, "returned_nil")
				default:
					bump(noReadOut, k, "returned_error")
				}
				if res.PeerEnded {
					bump(noReadOut, k, "peer_ended_all_streams")
				}
				if in.Target == "ep-recv" && (res.PeerStalled || res.PeerWrote == in.NoRead.Files) && res.Finalized < in.NoRead.Files && res.PeerEnded {
					// the sender had delivered every record (or its own writes
					// were blocked), the receiver had completed only some of the
					// files and had stopped making progress when the sender
					// ended: its replies are backed up into its main loop
					// (acknowledgement queue full)
					bump(noReadOut, k, "receiver_backed_up_before_peer_ended")
				}
				if in.Target == "ep-recv" && res.PeerStalled {
					bump(noReadOut, k, "peer_writes_blocked_before_it_ended")
				}
				if in.Target == "ep-send" && res.PeerRead > 0 {
					bump(noReadOut, k, "peer_read_some_then_stopped")
				}
			}
			if res.BigInfos > 0 && strings.Contains(in.Class, "resumeinfo-bitmap-len@") {
				bump(fieldOut, "resumeinfo-bitmap-len@big-file["+optName(in.Opts)+"]", "reports_for_files_over_8_chunks")
			}
			if in.Hold != "" {
				p := strings.SplitN(in.Class, ":", 3)
				k := p[0] + ":" + p[1] + "[" + optName(in.Opts) + "]"
				bump(holdOut, k, "cases")
				switch {
				case res.TimedOut && res.HeldOpen:
					bump(holdOut, k, "not_returned_while_other_streams_open")
				case res.TimedOut:
					bump(holdOut, k, "not_returned_after_close")
				case res.ReturnedBeforeClose:
					bump(holdOut, k, "returned_while_other_streams_open")
				default:
					bump(holdOut, k, "returned_after_close")
				}
			}
		}
		if strings.HasPrefix(res.Err, "SETUP:") {
			e.R.Inconcl(id + ": " + res.Err)
			continue
		}
		limit := uint64(c15AllocBase + 64*res.InputLen)
		if strings.HasPrefix(in.Target, "ep-") {
			limit += 48 << 20 // QUIC connection buffers of both ends live in this process
		}
		switch {
		case res.Panic != "":
			outcomes["panic"]++
			e.R.Violate(c15Key(in, "panic"), fmt.Sprintf("%s panicked on input class %s: %s", in.Target, in.Class, res.Panic), in, nil)
		case res.TimedOut && !strings.HasPrefix(in.Target, "ep-"):
			// an in-memory stream returns EOF at its end, so a decoder cannot
			// block on it; a decoder that is still busy after 8 s is either
			// zeroing an absurd allocation or the machine is stalled
			if res.AllocB > limit {
				outcomes["alloc"]++
				e.R.Violate(c15Key(in, "alloc"), fmt.Sprintf("%s allocated %d bytes for %d input bytes (class %s; bound %d) and was still busy after 8 s", in.Target, res.AllocB, res.InputLen, in.Class, limit), in, nil)
			} else {
				outcomes["slow-no-verdict"]++
				e.R.Inconcl(id + ": decoder still running after 8 s without large allocation (machine stalled?)")
			}
		case res.TimedOut:
			outcomes["timeout"]++
			if !res.CanaryOK {
				e.R.Inconcl(id + ": endpoint did not return within 10 s but the canary case did not either (machine stalled)")
				continue
			}
			if in.NoRead == nil && !res.Reproduced {
				outcomes["timeout-not-reproduced"]++
				e.R.Inconcl(id + ": endpoint did not return within 10 s, but returned when the same input was replayed on a fresh connection (transport stall on a loaded machine?)")
				continue
			}
			if in.NoRead != nil {
				if !res.PeerEnded {
					e.R.Inconcl(id + ": the no-read script had not ended its streams when the watchdog fired")
					continue
				}
				e.R.Violate(c15Key(in, "hang"), fmt.Sprintf("%s (option set %s, %s transport) had not returned 10 s after a peer that never read its output had closed every stream and the connection (class %s; a fresh valid exchange completed meanwhile)", in.Target, optName(in.Opts), in.NoRead.Transport, in.Class), in, map[string]any{"goroutines": res.Dump, "peer_wrote_files": res.PeerWrote, "peer_read_bytes": res.PeerRead})
				continue
			}
			if res.HeldOpen {
				e.R.Violate(c15Key(in, "hang"), fmt.Sprintf("%s (option set %s) had not returned 10 s after one of its streams had ended inside a record while the peer kept the other streams open (class %s; a fresh valid exchange completed meanwhile)", in.Target, optName(in.Opts), in.Class), in, map[string]any{"goroutines": res.Dump})
				continue
			}
			e.R.Violate(c15Key(in, "hang"), fmt.Sprintf("%s (option set %s) had not returned 10 s after its input had ended and the peer had closed the connection (class %s; a fresh valid exchange completed meanwhile)", in.Target, optName(in.Opts), in.Class), in, map[string]any{"goroutines": res.Dump})
		case res.AllocB > limit:
			outcomes["alloc"]++
			e.R.Violate(c15Key(in, "alloc"), fmt.Sprintf("%s allocated %d bytes for %d input bytes (class %s; bound %d)", in.Target, res.AllocB, res.InputLen, in.Class, limit), in, map[string]any{"err": res.Err})
		case res.ReturnedNil:
			outcomes["nil"]++
		default:
			outcomes["error"]++
		}
		if in.Valid && !res.ReturnedNil && !strings.HasPrefix(in.Target, "ep-") && in.Target != "legacy-manifest" {
			// the unmutated record must decode (sanity of the harness itself)
			if !(in.Target == "control-message" || in.Target == "control-header" || in.Target == "sidecar" || in.Target == "dumb" || in.Target == "legacy-file") {
				continue
			}
			e.R.Inconcl(fmt.Sprintf("%s: valid %s did not decode: %s", id, in.Class, res.Err))
		}
	}
	for id, tail := range allDied {
		in, ok := byID[id]
		if !ok {
			e.R.Inconcl("child batch problem: " + id + ": " + tail)
			continue
		}
		e.R.Eval()
		c15PlantedTally(plantOut, in, c15Result{}, true)
		outcomes["process-died"]++
		e.R.Violate(c15Key(in, "crash"), fmt.Sprintf("the process died while %s handled input class %s", in.Target, in.Class), in, map[string]any{"child_output": tail})
	}
	if os.Getenv("VERIF_C15_DUMP") != "" {
		var dump []map[string]any
		for _, in := range eps {
			if res, ok := allRes[in.ID]; ok {
				dump = append(dump, map[string]any{"class": in.Class, "opts": in.Opts, "hold": in.Hold, "err": res.Err, "nil": res.ReturnedNil, "timed_out": res.TimedOut, "before_close": res.ReturnedBeforeClose, "stored": res.ChunkStored, "chunk0": res.SawChunk0, "alloc": res.AllocB, "big_infos": res.BigInfos, "wrote": res.PeerWrote, "finalized": res.Finalized, "stalled": res.PeerStalled, "peer_read": res.PeerRead})
			}
		}
		e.R.SetExtra("dump", dump)
	}
	e.R.SetExtra("inputs_per_target", perTarget)
	e.R.SetExtra("endpoint_results_per_option_set", perOpts)
	e.R.SetExtra("field_class_outcomes", fieldOut)
	e.R.SetExtra("stream_end_outcomes", holdOut)
	e.R.SetExtra("peer_never_reads_outcomes", noReadOut)
	e.R.SetExtra("manifest_field_outcomes", mfOut)
	e.R.SetExtra("planted_sidecar_outcomes", plantOut)
	if !filtered {
		c15ManifestRequire(e, mfOut)
		c15PlantedRequire(e, plantOut)
		for _, k := range []string{"ep-recv[lib]", "ep-recv[app]", "ep-send[lib]", "ep-send[app]", "ep-recv[app-mc]", "ep-send[app-mc]"} {
			e.R.Require(perOpts[k] >= 40, fmt.Sprintf("only %d endpoint results for %s", perOpts[k], k))
		}
		e.R.Require(perOpts["ep-recv[bare]"] >= 10, fmt.Sprintf("only %d endpoint results for ep-recv[bare]", perOpts["ep-recv[bare]"]))
		for _, o := range []string{"lib", "app"} {
			k := "filebegin-hash-alg@chunk-then-resume-request[" + o + "]"
			e.R.Require(fieldOut[k]["chunk_stored_before_second_part"] >= 8 && fieldOut[k]["receiver_reported_chunk0_complete"] >= 1,
				fmt.Sprintf("history FileBegin -> chunk -> ResumeRequest not reached under %s options: %v", o, fieldOut[k]))
			k = "filebegin-hash-alg@prior-session-sidecar[" + o + "]"
			e.R.Require(fieldOut[k]["cases"] >= 8 && fieldOut[k]["receiver_reported_chunk0_complete"] >= 1,
				fmt.Sprintf("history earlier session's sidecar -> FileBegin not reached under %s options: %v", o, fieldOut[k]))
			for _, f := range []string{"filedone-ok-byte@after-fileend", "resumeinfo@after-resume-request", "record-type@after-filebegin"} {
				e.R.Require(fieldOut[f+"["+o+"]"]["cases"] >= 3, fmt.Sprintf("field class %s ran %d times under %s options", f, fieldOut[f+"["+o+"]"]["cases"], o))
			}
			k = "data-open:trunc-in-payload[" + o + "]"
			e.R.Require(holdOut[k]["cases"] >= 8, fmt.Sprintf("stream-end class %s: %v", k, holdOut[k]))
			k = "acks-open:trunc-in-record[" + o + "]"
			e.R.Require(holdOut[k]["cases"] >= 2, fmt.Sprintf("stream-end class %s: %v", k, holdOut[k]))
			k = "resumeinfo-bitmap-len@big-file[" + o + "]"
			e.R.Require(fieldOut[k]["cases"] >= 20 && fieldOut[k]["reports_for_files_over_8_chunks"] >= 15,
				fmt.Sprintf("inconsistent (TotalChunks, bitmap length) reports for files of more than 8 chunks under %s options: %v", o, fieldOut[k]))
			k = "ep-recv:mock[" + o + "]"
			e.R.Require(noReadOut[k]["receiver_backed_up_before_peer_ended"] >= 2 && noReadOut[k]["peer_ended_all_streams"] >= 2,
				fmt.Sprintf("peer-never-reads sender did not get past the receiver's acknowledgement queue under %s options: %v", o, noReadOut[k]))
			k = "ep-send:mock[" + o + "]"
			e.R.Require(noReadOut[k]["peer_ended_all_streams"] >= 3 && noReadOut[k]["peer_read_some_then_stopped"] >= 2,
				fmt.Sprintf("peer-never-reads receiver cases under %s options: %v", o, noReadOut[k]))
		}
	}
	e.R.SetExtra("outcomes", outcomes)
	hostileOut := map[string]any{}
	for _, in := range eps {
		if strings.Contains(in.Class, "filebegin") || strings.HasPrefix(in.Class, "records:datastreams") || strings.HasPrefix(in.Class, "records:creditbatch") || strings.HasPrefix(in.Class, "records:end-") {
			if res, ok := allRes[in.ID]; ok {
				hostileOut[in.Class] = map[string]any{"err": res.Err, "alloc": res.AllocB, "timed_out": res.TimedOut, "nil": res.ReturnedNil}
			}
		}
	}
	e.R.SetExtra("hostile_record_outcomes", hostileOut)
	for i, in := range eps {
		if i%97 == 0 {
			if res, ok := allRes[in.ID]; ok {
				e.R.Sample(map[string]any{"target": in.Target, "class": in.Class, "err": res.Err, "alloc": res.AllocB, "returned_nil": res.ReturnedNil})
			}
		}
	}
	e.R.Require(len(allRes) >= (len(dec)+len(eps))*9/10, fmt.Sprintf("only %d of %d inputs produced a result", len(allRes), len(dec)+len(eps)))
}
