//go:build verif

package main

import (
	"bufio"
	"context"
	"encoding/binary"
	"encoding/hex"
	"encoding/json"
	"fmt"
	"os"
	"os/exec"
	"path/filepath"
	"runtime"
	"runtime/debug"
	"strings"
	"sync"
	"time"

	"github.com/sheerbytes/sheerbytes/internal/app"
	"github.com/sheerbytes/sheerbytes/internal/transfer"
	vk "github.com/sheerbytes/sheerbytes/internal/verifkit"
	"github.com/sheerbytes/sheerbytes/pkg/manifest"
)

func init() {
	register("c15", runC15)
	childCommands["c15-child"] = c15Child
}

// c15Input is one input for one decoder / endpoint.
type c15Input struct {
	ID     string `json:"id"`
	Target string `json:"target"` // decoder name or "ep-recv" / "ep-send"
	Class  string `json:"class"`  // stable class of the input (for finding keys)
	Hex    string `json:"hex"`    // decoder input, or control-stream bytes for endpoints
	Data   string `json:"data,omitempty"` // endpoints: data-stream bytes (hex)
	Valid  bool   `json:"valid,omitempty"`
}

type c15Result struct {
	ID        string `json:"id"`
	Err       string `json:"err"`
	Panic     string `json:"panic,omitempty"`
	AllocB    uint64 `json:"alloc"`
	InputLen  int    `json:"input_len"`
	TimedOut  bool   `json:"timed_out,omitempty"`
	Returned  bool   `json:"returned"`
	CanaryOK  bool   `json:"canary_ok,omitempty"`
	Dump      string `json:"dump,omitempty"`
	ReturnedNil bool `json:"returned_nil,omitempty"`
}

const c15AllocBase = 4 << 20 // bytes; plus 64 x input length

// ---- valid records ----------------------------------------------------------

func encodeRecords() map[string][]byte {
	out := map[string][]byte{}
	enc := func(name string, fn func(s transfer.Stream) error) {
		ms := vk.NewMemStream(nil)
		if err := fn(ms); err == nil {
			out[name] = append([]byte(nil), ms.Out.Bytes()...)
		}
	}
	m := manifest.Manifest{Root: "root", FileCount: 1, TotalBytes: 33, Items: []manifest.FileItem{{RelPath: "dir", IsDir: true, ID: "1111111111111111"}, {RelPath: "dir/f.bin", Size: 33, ModTime: 5, ID: "2222222222222222"}}}
	enc("header", func(s transfer.Stream) error { return transfer.VerifCoreWriteControlHeader(s, m) })
	enc("FileBegin", func(s transfer.Stream) error {
		return transfer.VerifCoreWriteFileBegin(s, transfer.FileBegin{RelPath: "dir/f.bin", FileSize: 33, ChunkSize: 16, StreamID: 77, HashAlg: 1})
	})
	enc("FileEnd", func(s transfer.Stream) error { return transfer.VerifCoreWriteFileEnd(s, transfer.FileEnd{StreamID: 77, CRC32: 9}) })
	enc("FileDone", func(s transfer.Stream) error {
		return transfer.VerifCoreWriteFileDone(s, transfer.FileDone{StreamID: 77, OK: false, ErrMsg: "some error"})
	})
	enc("FileResumeInfo", func(s transfer.Stream) error {
		return transfer.VerifCoreWriteFileResumeInfo(s, transfer.FileResumeInfo{FileID: "2222222222222222", StreamID: 77, TotalChunks: 3, Bitmap: []byte{5}, LastVerifiedChunk: 2, LastVerifiedHash: 99})
	})
	enc("ResumeRequest", func(s transfer.Stream) error {
		return transfer.VerifCoreWriteResumeRequest(s, transfer.ResumeRequest{FileID: "2222222222222222", StreamID: 77})
	})
	enc("DataStreams", func(s transfer.Stream) error { return transfer.VerifCoreWriteDataStreams(s, transfer.DataStreams{Count: 2}) })
	enc("End", func(s transfer.Stream) error { return transfer.VerifCoreWriteControlEnd(s) })
	// Credit / CreditBatch have no exported writer shim here: hand-encode
	cr := []byte{transfer.VerifTypeCredit}
	cr = binary.BigEndian.AppendUint64(cr, 77)
	cr = binary.BigEndian.AppendUint32(cr, 4)
	out["Credit"] = cr
	cb := []byte{transfer.VerifTypeCreditBatch}
	cb = binary.BigEndian.AppendUint32(cb, 2)
	for i := 0; i < 2; i++ {
		cb = binary.BigEndian.AppendUint64(cb, uint64(70+i))
		cb = binary.BigEndian.AppendUint32(cb, 3)
	}
	out["CreditBatch"] = cb
	return out
}

func legacyManifestBytes() []byte {
	c := c07Case{Field: "none"}
	ms := vk.NewMemStream(nil)
	hostileLegacyManifest(ms, c)
	b := append([]byte(nil), ms.Out.Bytes()...)
	// locate the file record: type 0x02, len(11) "ok/file.bin", size(8), chunk size(4)
	if i := strings.Index(string(b), "\x02\x00\x0bok/file.bin"); i >= 0 {
		fieldNames["manifest"] = map[int]string{i + 3 + 11 + 8: "file-record-chunk-size", 4: "manifest-json-length"}
	}
	return b
}

func legacyFileBytes() []byte {
	ms := vk.NewMemStream(nil)
	hostileLegacyFile(ms, c07Case{Str: "name.bin"})
	return append([]byte(nil), ms.Out.Bytes()...)
}

func dumbBytes() []byte {
	b := binary.BigEndian.AppendUint16(nil, 4)
	b = append(b, "name"...)
	b = binary.BigEndian.AppendUint64(b, 10)
	return append(b, make([]byte, 10)...)
}

func sidecarBytes(work string) []byte {
	dir := vk.TempDir(work, "c15sc-")
	defer os.RemoveAll(dir)
	b, _, _ := makeSidecar(dir, "2222222222222222", 100, 16, []uint32{0, 2, 3})
	return b
}

// mutateInto appends the generic mutations of valid to the list.
// fieldNames gives stable names to byte offsets of a valid input (per record)
// so that finding keys name the field instead of a raw offset.
var fieldNames = map[string]map[int]string{}

func mutateInto(list *[]c15Input, target, record string, valid []byte, r *vk.Rng, thorough bool) {
	names := fieldNames[record]
	add := func(class string, b []byte) {
		if i := strings.Index(class, "@"); i >= 0 && names != nil {
			var w, off int
			var v string
			if n, _ := fmt.Sscanf(class, "u%d@%d=%s", &w, &off, &v); n == 3 {
				for foff, nm := range names {
					if off < foff+4 && off+w/8 > foff {
						class = fmt.Sprintf("field:%s:u%d+%d=%s", nm, w, off-foff, v)
					}
				}
			}
		}
		*list = append(*list, c15Input{Target: target, Class: record + ":" + class, Hex: hex.EncodeToString(b)})
	}
	*list = append(*list, c15Input{Target: target, Class: record + ":valid", Hex: hex.EncodeToString(valid), Valid: true})
	for n := 0; n < len(valid); n++ { // truncation at every byte
		add(fmt.Sprintf("trunc@%d", n), valid[:n])
	}
	lim := len(valid)
	if lim > 96 && !thorough {
		lim = 96
	}
	for off := 0; off < len(valid); off++ {
		named := false
		for foff := range names {
			if off > foff-4 && off < foff+4 {
				named = true
			}
		}
		if off >= lim && !named {
			continue
		}
		for _, w := range []int{1, 2, 4} {
			if off+w > len(valid) {
				continue
			}
			for _, v := range []uint32{0, 1, 0xFFFF, 0xFFFFFFFF, 0x7FFFFFFF, 0x80000000} {
				if w == 1 && v > 0xFF && v != 0xFFFFFFFF {
					continue
				}
				if w == 2 && v > 0xFFFF && v != 0xFFFFFFFF {
					continue
				}
				b := append([]byte(nil), valid...)
				switch w {
				case 1:
					b[off] = byte(v)
				case 2:
					binary.BigEndian.PutUint16(b[off:], uint16(v))
				case 4:
					binary.BigEndian.PutUint32(b[off:], v)
				}
				add(fmt.Sprintf("u%d@%d=%x", w*8, off, v), b)
			}
		}
	}
	// unknown type bytes (first byte)
	for _, t := range []byte{0x00, 0x0f, 0x18, 0x19, 0x7f, 0x80, 0xfe} {
		b := append([]byte(nil), valid...)
		if len(b) > 0 {
			b[0] = t
		}
		add(fmt.Sprintf("type=%02x", t), b)
	}
}

func c15DecoderInputs(e *Env) []c15Input {
	r := vk.NewRng(vk.Mix(e.Seed ^ vk.HashStr("c15dec"+e.Tier)))
	var list []c15Input
	recs := encodeRecords()
	for name, b := range recs {
		if name == "header" {
			mutateInto(&list, "control-header", name, b, r, e.Thorough())
		} else {
			mutateInto(&list, "control-message", name, b, r, e.Thorough())
		}
	}
	mutateInto(&list, "legacy-manifest", "manifest", legacyManifestBytes(), r, e.Thorough())
	mutateInto(&list, "legacy-file", "file", legacyFileBytes(), r, e.Thorough())
	mutateInto(&list, "dumb", "dumb", dumbBytes(), r, e.Thorough())
	mutateInto(&list, "sidecar", "sidecar", sidecarBytes(e.Work), r, e.Thorough())
	// seeded random bytes, with a plausible first byte half of the time
	targets := []string{"control-message", "control-header", "legacy-manifest", "legacy-file", "dumb", "sidecar"}
	types := []byte{0x10, 0x11, 0x12, 0x13, 0x14, 0x15, 0x16, 0x17, 0xFF}
	for i := 0; i < e.Pick(3000, 150000); i++ {
		t := targets[r.Intn(len(targets))]
		b := r.Bytes(r.Intn(64))
		if len(b) > 0 && r.Bool() {
			switch t {
			case "control-message":
				b[0] = types[r.Intn(len(types))]
			case "control-header":
				copy(b, "SBC1")
			case "legacy-manifest":
				copy(b, "SBM1")
			case "legacy-file":
				copy(b, "SBX1")
			case "sidecar":
				copy(b, "SBM2\x00\x01")
			}
		}
		list = append(list, c15Input{Target: t, Class: "random", Hex: hex.EncodeToString(b)})
	}
	for i := range list {
		list[i].ID = fmt.Sprintf("D%06d", i)
	}
	return list
}

// ---- child ------------------------------------------------------------------

// c15Child processes a cases file sequentially, logging START before and a
// result line after each case, so that a crash is attributed to one case.
func c15Child(args []string) int {
	if len(args) < 3 {
		return 3
	}
	casesPath, logPath, work := args[0], args[1], args[2]
	start := 0
	if len(args) > 3 {
		fmt.Sscanf(args[3], "%d", &start)
	}
	debug.SetGCPercent(50)
	f, err := os.Open(casesPath)
	if err != nil {
		return 3
	}
	defer f.Close()
	lg, err := os.OpenFile(logPath, os.O_CREATE|os.O_WRONLY|os.O_APPEND, 0644)
	if err != nil {
		return 3
	}
	defer lg.Close()
	sc := bufio.NewScanner(f)
	sc.Buffer(make([]byte, 1<<20), 64<<20)
	var lp *vk.ListenerPool
	idx := -1
	for sc.Scan() {
		idx++
		if idx < start {
			continue
		}
		var in c15Input
		if json.Unmarshal(sc.Bytes(), &in) != nil {
			continue
		}
		fmt.Fprintf(lg, "START %d %s\n", idx, in.ID)
		var res c15Result
		if strings.HasPrefix(in.Target, "ep-") {
			if lp == nil {
				lp, err = vk.NewListenerPool(1, 3*time.Second)
				if err != nil {
					fmt.Fprintf(lg, "SETUPERR %v\n", err)
					return 3
				}
			}
			res = c15RunEndpoint(lp, in, work)
		} else {
			res = c15RunDecoder(in, work)
		}
		res.ID = in.ID
		b, _ := json.Marshal(res)
		fmt.Fprintf(lg, "END %d %s\n", idx, b)
	}
	return 0
}

func c15RunDecoder(in c15Input, work string) (res c15Result) {
	data, _ := hex.DecodeString(in.Hex)
	res.InputLen = len(data)
	done := make(chan struct{})
	var ms1, ms2 runtime.MemStats
	runtime.GC()
	runtime.ReadMemStats(&ms1)
	go func() {
		defer close(done)
		defer func() {
			if r := recover(); r != nil {
				res.Panic = fmt.Sprint(r)
			}
		}()
		var err error
		switch in.Target {
		case "control-message":
			ms := vk.NewMemStream(data)
			// decode records until the input is exhausted or an error occurs
			for {
				var typ byte
				typ, _, err = transfer.VerifCoreReadControlMessage(ms)
				if err != nil || ms.Remaining() == 0 || typ == transfer.VerifTypeEnd {
					break
				}
			}
		case "control-header":
			_, err = transfer.VerifCoreReadControlHeader(vk.NewMemStream(data))
		case "legacy-manifest":
			d := vk.TempDir(work, "lm-")
			ctx, cancel := context.WithTimeout(context.Background(), 5*time.Second)
			_, err = transfer.RecvManifest(ctx, vk.NewMemStream(data), d, nil)
			cancel()
			os.RemoveAll(d)
		case "legacy-file":
			d := vk.TempDir(work, "lf-")
			ctx, cancel := context.WithTimeout(context.Background(), 5*time.Second)
			_, err = transfer.RecvFile(ctx, vk.NewMemStream(data), d)
			cancel()
			os.RemoveAll(d)
		case "dumb":
			_, err = app.VerifRecvDumbDiscardReader(vk.NewMemStream(data))
		case "sidecar":
			d := vk.TempDir(work, "sc-")
			p := filepath.Join(d, "x.sbxmap")
			_ = os.WriteFile(p, data, 0644)
			_, err = transfer.LoadSidecar(p)
			os.RemoveAll(d)
		}
		res.Returned = true
		if err != nil {
			res.Err = err.Error()
		} else {
			res.ReturnedNil = true
		}
	}()
	select {
	case <-done:
	case <-time.After(8 * time.Second):
		res.TimedOut = true
	}
	runtime.ReadMemStats(&ms2)
	res.AllocB = ms2.TotalAlloc - ms1.TotalAlloc
	return res
}

// ---- endpoints ---------------------------------------------------------------

// c15RunEndpoint replays (mutated) recorded stream bytes against a real
// endpoint over loopback QUIC, then closes the connection (the input has ended).
func c15RunEndpoint(lp *vk.ListenerPool, in c15Input, work string) (res c15Result) {
	ctrl, _ := hex.DecodeString(in.Hex)
	data, _ := hex.DecodeString(in.Data)
	res.InputLen = len(ctrl) + len(data)
	if lp == nil {
		res.Err = "SETUP: no listener"
		res.Returned = true
		return res
	}
	l := lp.Get()
	defer lp.Put(l)
	p, err := l.NewPair(context.Background())
	if err != nil {
		res.Err = "SETUP: " + err.Error()
		res.Returned = true
		return res
	}
	defer p.Close()
	base := vk.TempDir(work, "ep-")
	defer os.RemoveAll(base)
	ctx, cancel := context.WithTimeout(context.Background(), 30*time.Second)
	defer cancel()
	var ms1, ms2 runtime.MemStats
	runtime.GC()
	runtime.ReadMemStats(&ms1)
	done := make(chan error, 1)
	returned := make(chan struct{})
	// linger gives the endpoint time to act on what it was sent before the
	// script ends the input (it stops early once the endpoint has returned)
	linger := func(d time.Duration) {
		select {
		case <-returned:
		case <-time.After(d):
		}
	}
	switch in.Target {
	case "ep-recv":
		go func() {
			_, err := transfer.RecvManifestMultiStream(ctx, p.Accept, filepath.Join(base, "out"), transfer.Options{Resume: true, NoRootDir: true, HashAlg: "crc32c", ParallelFiles: 1})
			close(returned)
			done <- err
		}()
		// script: the hostile sender
		go func() {
			cs, err := p.Dial.OpenStream(ctx)
			if err != nil {
				return
			}
			if _, err := cs.Write(ctrl); err != nil {
				return
			}
			go func() { // drain whatever the receiver says
				buf := make([]byte, 4096)
				for {
					if _, err := cs.Read(buf); err != nil {
						return
					}
				}
			}()
			if len(data) > 0 {
				ds, err := p.Dial.OpenStream(ctx)
				if err == nil {
					_, _ = ds.Write(data)
					linger(700 * time.Millisecond)
					_ = ds.Close()
				}
			} else {
				linger(300 * time.Millisecond)
			}
			_ = cs.Close()
			linger(100 * time.Millisecond)
			_ = p.Dial.Close() // the input has ended
		}()
	case "ep-send":
		src := filepath.Join(base, "srcroot")
		tree := c15Tree()
		_ = tree.Materialize(src)
		m, _ := manifest.ScanPaths([]string{src})
		resolver, _ := app.VerifBuildPathResolver([]string{src})
		go func() {
			opts := transfer.Options{ChunkSize: 16, ParallelFiles: 1, Resume: true, HashAlg: "crc32c", ResolveFilePath: resolver,
				ParamSource: func() transfer.RuntimeParams { return transfer.RuntimeParams{ChunkSize: 16, ParallelFiles: 1} }}
			err := transfer.SendManifestMultiStream(ctx, p.Dial, ".", m, opts)
			close(returned)
			done <- err
		}()
		// script: the hostile receiver
		go func() {
			cs, err := p.Accept.AcceptStream(ctx)
			if err != nil {
				return
			}
			reactive := strings.HasPrefix(in.Class, "acks:reactive:")
			if !reactive {
				go func() {
					buf := make([]byte, 4096)
					for {
						if _, err := cs.Read(buf); err != nil {
							return
						}
					}
				}()
			} else {
				// a hostile receiver that follows the sender's control stream and
				// answers each record with acknowledgements of its own choosing
				// (repeated, contradictory, for other files), back to back
				go c15ReactiveAcks(cs, strings.TrimPrefix(in.Class, "acks:reactive:"), ctrl)
			}
			go func() { // accept and drain data streams
				for {
					ds, err := p.Accept.AcceptStream(ctx)
					if err != nil {
						return
					}
					go func() {
						buf := make([]byte, 4096)
						for {
							if _, err := ds.Read(buf); err != nil {
								return
							}
						}
					}()
				}
			}()
			if reactive {
				linger(3 * time.Second)
			} else {
				time.Sleep(30 * time.Millisecond)
				_, _ = cs.Write(ctrl)
				linger(500 * time.Millisecond)
			}
			_ = cs.Close()
			linger(100 * time.Millisecond)
			_ = p.Accept.Close()
		}()
	}
	select {
	case err := <-done:
		res.Returned = true
		if err != nil {
			res.Err = err.Error()
		} else {
			res.ReturnedNil = true
		}
	case <-time.After(10 * time.Second):
		res.TimedOut = true
		res.Dump = c15Dump()
		cancel()
		// canary: a plain valid exchange must still complete promptly
		if in.Class != "canary" {
			t0 := time.Now()
			cres := c15RunEndpoint(lp2(lp), c15Input{Target: in.Target, Class: "canary", Hex: os.Getenv("C15_CANARY_" + in.Target), Data: os.Getenv("C15_CANARY_DATA")}, work)
			res.CanaryOK = cres.Returned && time.Since(t0) < 5*time.Second
		}
	}
	// goroutines of the endpoint may still be finishing an allocation they
	// started on the peer's say-so: give them a moment before measuring
	time.Sleep(150 * time.Millisecond)
	runtime.ReadMemStats(&ms2)
	res.AllocB = ms2.TotalAlloc - ms1.TotalAlloc
	return res
}

// lp2 returns a fresh single-listener pool for the canary (the caller holds lp's only listener).
func lp2(_ *vk.ListenerPool) *vk.ListenerPool {
	p, err := vk.NewListenerPool(1, 3*time.Second)
	if err != nil {
		return nil
	}
	return p
}

func c15Dump() string {
	buf := make([]byte, 1<<20)
	n := runtime.Stack(buf, true)
	var keep []string
	for _, g := range strings.Split(string(buf[:n]), "\n\n") {
		if strings.Contains(g, "internal/transfer.") && !strings.Contains(g, "newReadPool") {
			lines := strings.Split(g, "\n")
			if len(lines) > 9 {
				lines = lines[:9]
			}
			keep = append(keep, strings.Join(lines, "\n"))
		}
	}
	if len(keep) > 10 {
		keep = keep[:10]
	}
	return strings.Join(keep, "\n\n")
}

func c15Tree() vk.Tree {
	return vk.Tree{Seed: 15, Shape: "c15", Names: "plain", Entries: []vk.Entry{{Rel: "a.bin", Size: 40}, {Rel: "b.bin", Size: 7}}}
}

// c15Record records the stream bytes of one healthy transfer of c15Tree.
func c15Record(e *Env) (ctrlW, ctrlR []byte, dataW []byte, ok bool) {
	lp, err := vk.NewListenerPool(1, 3*time.Second)
	if err != nil {
		return nil, nil, nil, false
	}
	defer lp.Close()
	base := vk.TempDir(e.Work, "c15rec-")
	defer os.RemoveAll(base)
	src := filepath.Join(base, "srcroot")
	_ = c15Tree().Materialize(src)
	out := filepath.Join(base, "out")
	_ = os.MkdirAll(out, 0755)
	deco := &vk.Deco{RecordAll: true}
	cfg := vk.XferCfg{Transport: "quic", Conns: 1, Streams: 1, ChunkSize: 16, Resume: true, NoRootDir: true, ScanPaths: true, SendDeco: deco}
	res := vk.RunTransfer(context.Background(), cfg, lp, src, out)
	if !res.BothOK() {
		return nil, nil, nil, false
	}
	return deco.Recorded(0, "w"), deco.Recorded(0, "r"), deco.Recorded(1, "w"), true
}

// c15ReactiveAcks reads the sender's control stream record by record and
// writes acknowledgements according to mode. recorded holds the receiver->
// sender bytes of a healthy exchange (source of plausible FileResumeInfo
// records).
func c15ReactiveAcks(cs transfer.Stream, mode string, recorded []byte) {
	infos := map[uint64]transfer.FileResumeInfo{}
	ms := vk.NewMemStream(recorded)
	for ms.Remaining() > 0 {
		typ, msg, err := transfer.VerifCoreReadControlMessage(ms)
		if err != nil {
			break
		}
		if typ == transfer.VerifTypeFileResumeInfo {
			ri := msg.(transfer.FileResumeInfo)
			infos[ri.StreamID] = ri
		}
	}
	if _, err := transfer.VerifCoreReadControlHeader(cs); err != nil {
		return
	}
	rep := func(n int, f func(w transfer.Stream)) {
		// encode n copies into one buffer so that they arrive in one read
		buf := vk.NewMemStream(nil)
		for i := 0; i < n; i++ {
			f(buf)
		}
		_, _ = cs.Write(buf.Out.Bytes())
	}
	n := 8
	switch {
	case strings.HasSuffix(mode, "-x1"):
		n = 1
	case strings.HasSuffix(mode, "-x2"):
		n = 2
	case strings.HasSuffix(mode, "-x32"):
		n = 32
	}
	for {
		typ, msg, err := transfer.VerifCoreReadControlMessage(cs)
		if err != nil {
			return
		}
		switch typ {
		case transfer.VerifTypeResumeRequest:
			rq := msg.(transfer.ResumeRequest)
			ri, ok := infos[rq.StreamID]
			if !ok {
				ri = transfer.FileResumeInfo{FileID: rq.FileID, StreamID: rq.StreamID}
			}
			k := 1
			if strings.HasPrefix(mode, "resumeinfo") {
				k = n
			}
			rep(k, func(w transfer.Stream) { _ = transfer.VerifCoreWriteFileResumeInfo(w, ri) })
		case transfer.VerifTypeFileEnd:
			fe := msg.(transfer.FileEnd)
			switch {
			case strings.HasPrefix(mode, "filedone-ok-then-failed"):
				rep(1, func(w transfer.Stream) {
					_ = transfer.VerifCoreWriteFileDone(w, transfer.FileDone{StreamID: fe.StreamID, OK: true})
					for i := 1; i < n; i++ {
						_ = transfer.VerifCoreWriteFileDone(w, transfer.FileDone{StreamID: fe.StreamID, OK: false, ErrMsg: "x"})
					}
				})
			case strings.HasPrefix(mode, "filedone-other-stream"):
				rep(n, func(w transfer.Stream) {
					_ = transfer.VerifCoreWriteFileDone(w, transfer.FileDone{StreamID: fe.StreamID ^ 0x55, OK: true})
				})
				rep(1, func(w transfer.Stream) { _ = transfer.VerifCoreWriteFileDone(w, transfer.FileDone{StreamID: fe.StreamID, OK: true}) })
			case strings.HasPrefix(mode, "filedone-spaced"):
				for i := 0; i < n; i++ {
					rep(1, func(w transfer.Stream) { _ = transfer.VerifCoreWriteFileDone(w, transfer.FileDone{StreamID: fe.StreamID, OK: true}) })
					time.Sleep(time.Duration(i%3) * 200 * time.Microsecond)
				}
			default: // filedone / resumeinfo: n identical records back to back
				k := n
				if strings.HasPrefix(mode, "resumeinfo") {
					k = 1
				}
				rep(k, func(w transfer.Stream) { _ = transfer.VerifCoreWriteFileDone(w, transfer.FileDone{StreamID: fe.StreamID, OK: true}) })
			}
		case transfer.VerifTypeEnd:
			return
		}
	}
}

func c15EndpointInputs(e *Env, ctrlW, ctrlR, dataW []byte) []c15Input {
	r := vk.NewRng(vk.Mix(e.Seed ^ vk.HashStr("c15ep"+e.Tier)))
	var list []c15Input
	add := func(target, class string, ctrl, data []byte, valid bool) {
		list = append(list, c15Input{Target: target, Class: class, Hex: hex.EncodeToString(ctrl), Data: hex.EncodeToString(data), Valid: valid})
	}
	add("ep-recv", "valid", ctrlW, dataW, true)
	add("ep-send", "valid", ctrlR, nil, true)
	// the recorded sender->receiver control stream starts with magic(4) len(4) json, then records
	hdrLen := 8 + int(binary.BigEndian.Uint32(ctrlW[4:8]))
	stage := func(off int) string {
		switch {
		case off < 8:
			return "header-prefix"
		case off < hdrLen:
			return "header-json"
		default:
			return "records"
		}
	}
	// offsets of the chunk-size field of every FileBegin record in the recorded
	// control stream: a mutation that overlaps one of them is the known
	// peer-chosen-chunk-size class and is named after the field, not after the
	// kind of byte poke that happened to hit it
	var csFields []int
	{
		ms := vk.NewMemStream(ctrlW[hdrLen:])
		for ms.Remaining() > 0 {
			start := hdrLen + (len(ctrlW) - hdrLen - ms.Remaining())
			typ, msg, err := transfer.VerifCoreReadControlMessage(ms)
			if err != nil {
				break
			}
			if typ == transfer.VerifTypeFileBegin {
				fb := msg.(transfer.FileBegin)
				csFields = append(csFields, start+1+2+len(fb.RelPath)+8)
			}
		}
	}
	overlapsChunkSize := func(off, width int) bool {
		for _, f := range csFields {
			if off < f+4 && off+width > f {
				return true
			}
		}
		return false
	}
	step := e.Pick(5, 1)
	mut := func(target string, valid []byte, data []byte, stageOf func(int) string, isData bool) {
		for off := r.Intn(step); off < len(valid); off += step {
			st := stageOf(off)
			mk := func(class string, b []byte) {
				if isData {
					add(target, "data:"+class, ctrlW, b, false)
				} else {
					width := 1
					if strings.HasPrefix(class, "u32=") {
						width = 4
					}
					if target == "ep-recv" && class != "trunc" && overlapsChunkSize(off, width) {
						add(target, "records:field:filebegin-chunk-size:"+class, b, data, false)
						return
					}
					add(target, st+":"+class, b, data, false)
				}
			}
			mk("trunc", valid[:off])
			for _, v := range []byte{0x00, 0xFF} {
				b := append([]byte(nil), valid...)
				b[off] = v
				mk(fmt.Sprintf("byte=%02x", v), b)
			}
			if off+4 <= len(valid) && (st != "header-json") {
				for _, v := range []uint32{0xFFFFFFFF, 0x7FFFFFFF, 0} {
					b := append([]byte(nil), valid...)
					binary.BigEndian.PutUint32(b[off:], v)
					mk(fmt.Sprintf("u32=%x", v), b)
				}
			}
			b := append([]byte(nil), valid...)
			b[off] ^= 1 << uint(r.Intn(8))
			mk("bitflip", b)
		}
	}
	mut("ep-recv", ctrlW, dataW, stage, false)
	mut("ep-recv", dataW, nil, func(int) string { return "data" }, true)
	mut("ep-send", ctrlR, nil, func(int) string { return "acks" }, false)
	// a receiver that reacts to the sender's records with repeated /
	// contradictory acknowledgements (each several times: the interleaving of
	// the sender's acknowledgement reader with its waiters differs per run)
	for _, mode := range []string{"filedone-x1", "filedone-x2", "filedone-x8", "filedone-x32", "filedone-spaced-x8", "filedone-ok-then-failed-x8", "filedone-other-stream-x8", "resumeinfo-x8", "resumeinfo-x32"} {
		reps := e.Pick(3, 12)
		if mode == "filedone-x1" {
			reps = 1
		}
		for k := 0; k < reps; k++ {
			add("ep-send", "acks:reactive:"+mode, ctrlR, nil, mode == "filedone-x1")
		}
	}
	// hand-made hostile records at the "records" stage
	// own data frames for file a.bin (the recorded stream may start with another file)
	var keyA uint64
	if hm, err := transfer.VerifCoreReadControlHeader(vk.NewMemStream(ctrlW)); err == nil {
		for _, it := range hm.Items {
			if strings.HasSuffix(it.RelPath, "a.bin") {
				keyA = transfer.VerifCoreFileKey(it)
			}
		}
	}
	ownData := append(chunkFrame(keyA, 0, []byte("0123456789abcdef")), chunkFrame(keyA, 1, []byte("0123456789abcdef"))...)
	hostile := func(class string, rec []byte) {
		b := append(append([]byte(nil), ctrlW[:hdrLen]...), rec...)
		add("ep-recv", "records:"+class, b, ownData, false)
	}
	hostile("filebegin-chunk-size-0", append(ds1(), rawFileBegin("srcroot/a.bin", 40, 0, 0)...))
	// a complete, valid exchange (without End) followed by a late frame for an
	// already finished file that announces an absurd payload length
	{
		ctrlNoEnd := ctrlW
		if n := len(ctrlNoEnd); n > 0 && ctrlNoEnd[n-1] == transfer.VerifTypeEnd {
			ctrlNoEnd = ctrlNoEnd[:n-1]
		}
		for _, ln := range []uint32{0x20000000, 0xFFFFFFFF, 0x01000000} {
			late := binary.BigEndian.AppendUint64(nil, keyA)
			late = binary.BigEndian.AppendUint32(late, 0)
			late = binary.BigEndian.AppendUint32(late, ln)
			late = binary.BigEndian.AppendUint32(late, 0)
			late = append(late, 1, 2, 3)
			add("ep-recv", fmt.Sprintf("data:late-frame-for-finished-file:len=%x", ln), ctrlNoEnd, append(append([]byte(nil), dataW...), late...), false)
		}
	}
	hostile("field:filebegin-chunk-size:huge", append(ds1(), rawFileBegin("srcroot/a.bin", 40, 0xFFFFFFFF, 0)...))
	hostile("datastreams-65535", []byte{transfer.VerifTypeDataStreams, 0xFF, 0xFF})
	hostile("creditbatch-huge", append(ds1(), []byte{transfer.VerifTypeCreditBatch, 0xFF, 0xFF, 0xFF, 0xFF}...))
	hostile("end-immediately", append(ds1(), transfer.VerifTypeEnd))
	for i := range list {
		list[i].ID = fmt.Sprintf("E%06d", i)
	}
	return list
}

var c15CanaryEnv []string

func ds1() []byte { return []byte{transfer.VerifTypeDataStreams, 0, 1} }

// ---- parent ------------------------------------------------------------------

// runChildBatch runs the inputs through child processes (restarting after a
// crash) and returns results by id plus the ids on which a child died.
func runChildBatch(e *Env, inputs []c15Input, tag string) (map[string]c15Result, map[string]string) {
	dir := vk.TempDir(e.Work, "c15-"+tag+"-")
	casesPath := filepath.Join(dir, "cases.jsonl")
	logPath := filepath.Join(dir, "log.txt")
	f, _ := os.Create(casesPath)
	w := bufio.NewWriter(f)
	for _, in := range inputs {
		b, _ := json.Marshal(in)
		w.Write(b)
		w.WriteByte('\n')
	}
	w.Flush()
	f.Close()
	results := map[string]c15Result{}
	died := map[string]string{}
	start := 0
	for start < len(inputs) {
		cmd := exec.Command(os.Args[0], "c15-child", casesPath, logPath, dir, fmt.Sprint(start))
		outPath := filepath.Join(dir, fmt.Sprintf("child-%d.out", start))
		of, _ := os.Create(outPath)
		cmd.Stdout, cmd.Stderr = of, of
		cmd.Env = append(os.Environ(), "GOTRACEBACK=all", "GOMEMLIMIT=6GiB")
		cmd.Env = append(cmd.Env, c15CanaryEnv...)
		err := cmd.Run()
		of.Close()
		// parse the log
		lastStart, lastStartID := -1, ""
		lastEnd := -1
		lf, _ := os.Open(logPath)
		sc := bufio.NewScanner(lf)
		sc.Buffer(make([]byte, 1<<20), 16<<20)
		for sc.Scan() {
			ln := sc.Text()
			var idx int
			var rest string
			if strings.HasPrefix(ln, "START ") {
				fmt.Sscanf(ln, "START %d %s", &idx, &rest)
				lastStart, lastStartID = idx, rest
			} else if strings.HasPrefix(ln, "END ") {
				sp := strings.SplitN(ln, " ", 3)
				fmt.Sscanf(sp[1], "%d", &idx)
				var r c15Result
				if json.Unmarshal([]byte(sp[2]), &r) == nil {
					results[r.ID] = r
				}
				lastEnd = idx
			}
		}
		lf.Close()
		if err == nil && lastEnd >= len(inputs)-1 {
			break
		}
		if lastStart > lastEnd {
			// the child died inside case lastStart
			tail, _ := os.ReadFile(outPath)
			t := string(tail)
			if len(t) > 3000 {
				t = t[:1500] + "\n...\n" + t[len(t)-1500:]
			}
			died[lastStartID] = t
			start = lastStart + 1
		} else {
			if lastEnd+1 <= start {
				// no progress at all: give up on this batch
				died[fmt.Sprintf("batch-%s-%d", tag, start)] = "child made no progress: " + fmt.Sprint(err)
				break
			}
			start = lastEnd + 1
		}
	}
	os.RemoveAll(dir)
	return results, died
}

func c15Key(in c15Input, kind string) string {
	cls := in.Class
	// keep the class stable but coarse: strip the concrete byte offset for truncations / byte pokes of random inputs
	if cls == "random" {
		return fmt.Sprintf("%s:%s:random-input", kind, in.Target)
	}
	if i := strings.Index(cls, "field:"); i >= 0 {
		// named field: the key names the field, not the value written into it
		f := cls[i+len("field:"):]
		if j := strings.Index(f, ":"); j >= 0 {
			f = f[:j]
		}
		return fmt.Sprintf("%s:%s:field:%s", kind, in.Target, f)
	}
	return fmt.Sprintf("%s:%s:%s", kind, in.Target, cls)
}

func runC15(e *Env) {
	e.R.Rule = "(a) decoders (control records, control header, legacy manifest and file receivers, dumb receiver header, LoadSidecar) fed from an in-memory stream in child processes: every valid record type truncated at every byte, every 1/2/4-byte field position set to {0,1,0xFFFF,0x7FFFFFFF,0x80000000,0xFFFFFFFF}, unknown type bytes, seeded random bytes; (b) the real RecvManifestMultiStream / SendManifestMultiStream over loopback QUIC against a script replaying a recorded valid trace with the same kinds of mutation on the control stream and the data stream at every protocol stage, then closing the connection; monitors: process death (attributed to the logged case), recovered panic, return after the input ended (watchdog), TotalAlloc delta <= 4 MiB + 64 x input bytes; distinct by input bytes"
	dec := c15DecoderInputs(e)
	ctrlW, ctrlR, dataW, ok := c15Record(e)
	if !ok {
		e.R.Inconcl("recording run failed")
		e.R.Require(false, "recording run failed")
		return
	}
	eps := c15EndpointInputs(e, ctrlW, ctrlR, dataW)
	c15CanaryEnv = []string{"C15_CANARY_ep-recv=" + hex.EncodeToString(ctrlW), "C15_CANARY_ep-send=" + hex.EncodeToString(ctrlR), "C15_CANARY_DATA=" + hex.EncodeToString(dataW)}
	if cls := os.Getenv("VERIF_C15_CLASS"); cls != "" {
		var keep []c15Input
		for _, in := range eps {
			if strings.Contains(in.Class, cls) {
				keep = append(keep, in)
			}
		}
		eps, dec = keep, nil
	}
	switch os.Getenv("VERIF_C15_ONLY") {
	case "ep":
		dec = nil
	case "dec":
		eps = nil
	}
	e.R.SetExtra("decoder_inputs", len(dec))
	e.R.SetExtra("endpoint_inputs", len(eps))
	e.R.SetExtra("recorded_bytes", map[string]int{"control_send": len(ctrlW), "control_recv": len(ctrlR), "data": len(dataW)})

	byID := map[string]c15Input{}
	for _, in := range dec {
		byID[in.ID] = in
	}
	for _, in := range eps {
		byID[in.ID] = in
	}
	// split into 16 batches each
	split := func(list []c15Input, n int) [][]c15Input {
		out := make([][]c15Input, n)
		for i, in := range list {
			out[i%n] = append(out[i%n], in)
		}
		return out
	}
	var mu sync.Mutex
	allRes := map[string]c15Result{}
	allDied := map[string]string{}
	run := func(batches [][]c15Input, tag string) {
		vk.ParallelDo(len(batches), 16, func(i int) {
			if len(batches[i]) == 0 {
				return
			}
			res, died := runChildBatch(e, batches[i], fmt.Sprintf("%s%d", tag, i))
			mu.Lock()
			for k, v := range res {
				allRes[k] = v
			}
			for k, v := range died {
				allDied[k] = v
			}
			mu.Unlock()
		})
	}
	run(split(dec, 16), "dec")
	run(split(eps, 16), "ep")

	perTarget := map[string]int{}
	outcomes := map[string]int{}
	for id, res := range allRes {
		in := byID[id]
		e.R.Eval()
		e.R.Distinct(fmt.Sprintf("%s:%x:%s", in.Target, vk.HashStr(in.Hex+"|"+in.Data), in.Class))
		perTarget[in.Target]++
		if strings.HasPrefix(res.Err, "SETUP:") {
			e.R.Inconcl(id + ": " + res.Err)
			continue
		}
		limit := uint64(c15AllocBase + 64*res.InputLen)
		if strings.HasPrefix(in.Target, "ep-") {
			limit += 48 << 20 // QUIC connection buffers of both ends live in this process
		}
		switch {
		case res.Panic != "":
			outcomes["panic"]++
			e.R.Violate(c15Key(in, "panic"), fmt.Sprintf("%s panicked on input class %s: %s", in.Target, in.Class, res.Panic), in, nil)
		case res.TimedOut && !strings.HasPrefix(in.Target, "ep-"):
			// an in-memory stream returns EOF at its end, so a decoder cannot
			// block on it; a decoder that is still busy after 8 s is either
			// zeroing an absurd allocation or the machine is stalled
			if res.AllocB > limit {
				outcomes["alloc"]++
				e.R.Violate(c15Key(in, "alloc"), fmt.Sprintf("%s allocated %d bytes for %d input bytes (class %s; bound %d) and was still busy after 8 s", in.Target, res.AllocB, res.InputLen, in.Class, limit), in, nil)
			} else {
				outcomes["slow-no-verdict"]++
				e.R.Inconcl(id + ": decoder still running after 8 s without large allocation (machine stalled?)")
			}
		case res.TimedOut:
			outcomes["timeout"]++
			if !res.CanaryOK {
				e.R.Inconcl(id + ": endpoint did not return within 10 s but the canary case did not either (machine stalled)")
				continue
			}
			e.R.Violate(c15Key(in, "hang"), fmt.Sprintf("%s had not returned 10 s after its input had ended and the peer had closed the connection (class %s; a fresh valid exchange completed meanwhile)", in.Target, in.Class), in, map[string]any{"goroutines": res.Dump})
		case res.AllocB > limit:
			outcomes["alloc"]++
			e.R.Violate(c15Key(in, "alloc"), fmt.Sprintf("%s allocated %d bytes for %d input bytes (class %s; bound %d)", in.Target, res.AllocB, res.InputLen, in.Class, limit), in, map[string]any{"err": res.Err})
		case res.ReturnedNil:
			outcomes["nil"]++
		default:
			outcomes["error"]++
		}
		if in.Valid && !res.ReturnedNil && !strings.HasPrefix(in.Target, "ep-") && in.Target != "legacy-manifest" {
			// the unmutated record must decode (sanity of the harness itself)
			if !(in.Target == "control-message" || in.Target == "control-header" || in.Target == "sidecar" || in.Target == "dumb" || in.Target == "legacy-file") {
				continue
			}
			e.R.Inconcl(fmt.Sprintf("%s: valid %s did not decode: %s", id, in.Class, res.Err))
		}
	}
	for id, tail := range allDied {
		in, ok := byID[id]
		if !ok {
			e.R.Inconcl("child batch problem: " + id + ": " + tail)
			continue
		}
		e.R.Eval()
		outcomes["process-died"]++
		e.R.Violate(c15Key(in, "crash"), fmt.Sprintf("the process died while %s handled input class %s", in.Target, in.Class), in, map[string]any{"child_output": tail})
	}
	e.R.SetExtra("inputs_per_target", perTarget)
	e.R.SetExtra("outcomes", outcomes)
	hostileOut := map[string]any{}
	for _, in := range eps {
		if strings.Contains(in.Class, "filebegin") || strings.HasPrefix(in.Class, "records:datastreams") || strings.HasPrefix(in.Class, "records:creditbatch") || strings.HasPrefix(in.Class, "records:end-") {
			if res, ok := allRes[in.ID]; ok {
				hostileOut[in.Class] = map[string]any{"err": res.Err, "alloc": res.AllocB, "timed_out": res.TimedOut, "nil": res.ReturnedNil}
			}
		}
	}
	e.R.SetExtra("hostile_record_outcomes", hostileOut)
	for i, in := range eps {
		if i%97 == 0 {
			if res, ok := allRes[in.ID]; ok {
				e.R.Sample(map[string]any{"target": in.Target, "class": in.Class, "err": res.Err, "alloc": res.AllocB, "returned_nil": res.ReturnedNil})
			}
		}
	}
	e.R.Require(len(allRes) >= (len(dec)+len(eps))*9/10, fmt.Sprintf("only %d of %d inputs produced a result", len(allRes), len(dec)+len(eps)))
}
