//go:build verif

package main

// C15, second part: field-aware input classes (every enumeration / flag byte
// a peer chooses, in the histories in which the endpoint consumes it), streams
// that end while the others stay open, and the helpers that build hostile
// records by hand.

import (
	"encoding/binary"
	"encoding/hex"
	"fmt"
	"os"
	"path/filepath"
	"sort"
	"strings"

	"github.com/sheerbytes/sheerbytes/internal/transfer"
	vk "github.com/sheerbytes/sheerbytes/internal/verifkit"
	"github.com/sheerbytes/sheerbytes/pkg/manifest"
)

// ---- hand-made records --------------------------------------------------------

func c15RawFileBegin(rel string, size uint64, cs uint32, key uint64, alg byte) []byte {
	b := []byte{transfer.VerifTypeFileBegin}
	b = binary.BigEndian.AppendUint16(b, uint16(len(rel)))
	b = append(b, rel...)
	b = binary.BigEndian.AppendUint64(b, size)
	b = binary.BigEndian.AppendUint32(b, cs)
	b = binary.BigEndian.AppendUint64(b, key)
	b = append(b, alg)
	b = append(b, 0, 0, 0, 0, 0, 0, 0, 0, 0, 0, 0, 0) // stripe index, count, start, chunks
	return b
}

func c15RawResumeRequest(id string, key uint64) []byte {
	b := []byte{transfer.VerifTypeResumeRequest}
	b = binary.BigEndian.AppendUint16(b, uint16(len(id)))
	b = append(b, id...)
	return binary.BigEndian.AppendUint64(b, key)
}

// c15RawFileDone encodes a FileDone whose ok byte is the value named in mode
// ("...:v=XX[:errmsg]").
func c15RawFileDone(streamID uint64, mode string) []byte {
	var v int
	if i := strings.Index(mode, ":v="); i >= 0 {
		fmt.Sscanf(mode[i+3:], "%02x", &v)
	}
	b := []byte{transfer.VerifTypeFileDone}
	b = binary.BigEndian.AppendUint64(b, streamID)
	b = append(b, byte(v))
	msg := ""
	if strings.HasSuffix(mode, ":errmsg") {
		msg = "receiver says no"
	}
	b = binary.BigEndian.AppendUint16(b, uint16(len(msg)))
	return append(b, msg...)
}

func c15ChunkFrame(key uint64, idx uint32, payload []byte) []byte {
	b := binary.BigEndian.AppendUint64(nil, key)
	b = binary.BigEndian.AppendUint32(b, idx)
	b = binary.BigEndian.AppendUint32(b, uint32(len(payload)))
	b = binary.BigEndian.AppendUint32(b, transfer.VerifCoreCRC32C(payload))
	return append(b, payload...)
}

// c15LegacyManifest is a valid session of the legacy single-stream manifest
// protocol: one directory, one 24-byte file in two chunks.
func c15LegacyManifest() []byte {
	payload := []byte("ATTACKER-DATA-0123456789")
	it := manifest.FileItem{RelPath: "ok/file.bin", Size: int64(len(payload)), ModTime: 1, ID: "00112233aabbccdd"}
	dir := manifest.FileItem{RelPath: "ok", IsDir: true, ModTime: 1}
	m := manifest.Manifest{Root: "root", FileCount: 1, FolderCount: 1, Items: []manifest.FileItem{dir, it}}
	js := transfer.VerifManifestJSON(m)
	b := []byte("SBM1")
	b = binary.BigEndian.AppendUint32(b, uint32(len(js)))
	b = append(b, js...)
	b = append(b, 0x01) // directory record
	b = binary.BigEndian.AppendUint16(b, uint16(len(dir.RelPath)))
	b = append(b, dir.RelPath...)
	b = append(b, 0x02) // file record
	b = binary.BigEndian.AppendUint16(b, uint16(len(it.RelPath)))
	b = append(b, it.RelPath...)
	b = binary.BigEndian.AppendUint64(b, uint64(len(payload)))
	b = binary.BigEndian.AppendUint32(b, 16)
	for i, off := 0, 0; off < len(payload); i, off = i+1, off+16 {
		end := off + 16
		if end > len(payload) {
			end = len(payload)
		}
		b = binary.BigEndian.AppendUint32(b, uint32(i))
		b = binary.BigEndian.AppendUint32(b, uint32(end-off))
		b = binary.BigEndian.AppendUint32(b, transfer.VerifCoreCRC32C(payload[off:end]))
		b = append(b, payload[off:end]...)
	}
	b = append(b, "EOF1"...)
	return append(b, 0xFF)
}

func c15LegacyFile(name string) []byte {
	payload := []byte("ATTACKER-DATA")
	b := []byte("SBX1")
	b = binary.BigEndian.AppendUint16(b, uint16(len(name)))
	b = append(b, name...)
	b = binary.BigEndian.AppendUint64(b, uint64(len(payload)))
	b = append(b, payload...)
	return binary.BigEndian.AppendUint32(b, transfer.VerifCRC32IEEE(payload))
}

// c15MakeSidecar writes a valid sidecar with the given chunks marked complete
// and returns its bytes.
func c15MakeSidecar(path, id string, size int64, cs uint32, marks []uint32) []byte {
	_ = os.MkdirAll(filepath.Dir(path), 0755)
	_ = os.Remove(path)
	sc, err := transfer.CreateSidecar(path, id, size, cs)
	if err != nil {
		return nil
	}
	for _, m := range marks {
		sc.MarkComplete(m)
	}
	if err := sc.Flush(); err != nil {
		return nil
	}
	b, _ := os.ReadFile(path)
	return b
}

// c15ResumeInfoVariant turns the resume report an honest receiver would give
// into the hostile one named at the end of mode.
func c15ResumeInfoVariant(ri transfer.FileResumeInfo, mode string) transfer.FileResumeInfo {
	total := ri.TotalChunks
	allSet := func(n uint32) []byte {
		b := make([]byte, (n+7)/8)
		for i := uint32(0); i < n; i++ {
			b[i/8] |= 1 << (i % 8)
		}
		return b
	}
	last := uint32(0)
	if total > 0 {
		last = total - 1
	}
	variant := mode[strings.LastIndex(mode, "request:")+len("request:"):]
	switch variant {
	case "all-set:verified=0":
		ri.Bitmap, ri.LastVerifiedChunk, ri.LastVerifiedHash = allSet(total), 0, 12345
	case "all-set:verified=last":
		ri.Bitmap, ri.LastVerifiedChunk, ri.LastVerifiedHash = allSet(total), last, 12345
	case "all-set:verified=total":
		ri.Bitmap, ri.LastVerifiedChunk = allSet(total), total
	case "all-set:verified=total+1":
		ri.Bitmap, ri.LastVerifiedChunk = allSet(total), total+1
	case "all-set:verified=max":
		ri.Bitmap, ri.LastVerifiedChunk = allSet(total), 0xFFFFFFFF
	case "all-set:hash-unknown":
		ri.Bitmap, ri.LastVerifiedChunk, ri.LastVerifiedHash = allSet(total), last, ^uint64(0)
	case "first-set:verified=0:hash=0":
		ri.Bitmap, ri.LastVerifiedChunk, ri.LastVerifiedHash = allSet(total), 0, 0
		for i := range ri.Bitmap {
			ri.Bitmap[i] = 0
		}
		if len(ri.Bitmap) > 0 {
			ri.Bitmap[0] = 1
		}
	case "stray-bits:verified=last":
		ri.Bitmap, ri.LastVerifiedChunk, ri.LastVerifiedHash = allSet(total), last, 12345
		for i := range ri.Bitmap {
			ri.Bitmap[i] = 0xFF
		}
	case "total-chunks=0":
		ri.TotalChunks, ri.Bitmap, ri.LastVerifiedChunk = 0, allSet(total), 0
	case "total-chunks=total+1":
		ri.TotalChunks, ri.Bitmap, ri.LastVerifiedChunk = total+1, allSet(total+1), total
	case "total-chunks=max":
		ri.TotalChunks, ri.Bitmap, ri.LastVerifiedChunk = 0xFFFFFFFF, allSet(total), 0
	case "bitmap-len=0:verified=0":
		ri.Bitmap, ri.LastVerifiedChunk = nil, 0
	case "bitmap-len+1":
		ri.Bitmap, ri.LastVerifiedChunk = append(allSet(total), 0xFF), last
	case "bitmap-len=4096":
		ri.Bitmap, ri.LastVerifiedChunk = make([]byte, 4096), last
	case "file-id-empty":
		ri.FileID, ri.Bitmap, ri.LastVerifiedChunk = "", allSet(total), last
	case "file-id-other":
		ri.FileID = "ffffffffffffffff"
	}
	return ri
}

var c15ResumeInfoVariants = []string{
	"all-set:verified=0", "all-set:verified=last", "all-set:verified=total", "all-set:verified=total+1", "all-set:verified=max",
	"all-set:hash-unknown", "first-set:verified=0:hash=0", "stray-bits:verified=last",
	"total-chunks=0", "total-chunks=total+1", "total-chunks=max",
	"bitmap-len=0:verified=0", "bitmap-len+1", "bitmap-len=4096", "file-id-empty", "file-id-other",
}

// c15EnumValues: every value of a byte in the thorough tier; the given
// boundary values plus three seeded ones in the quick tier.
func c15EnumValues(e *Env, r *vk.Rng, boundary []byte) []byte {
	seen := map[byte]bool{}
	var out []byte
	if e.Thorough() {
		for v := 0; v < 256; v++ {
			out = append(out, byte(v))
		}
		return out
	}
	for _, v := range boundary {
		if !seen[v] {
			seen[v] = true
			out = append(out, v)
		}
	}
	for k := 0; k < 3; k++ {
		v := byte(r.Intn(256))
		if !seen[v] {
			seen[v] = true
			out = append(out, v)
		}
	}
	sort.Slice(out, func(i, j int) bool { return out[i] < out[j] })
	return out
}

type c15Frame struct{ start, payload int } // offset of the 20-byte frame header, payload length

func c15Frames(data []byte) []c15Frame {
	var out []c15Frame
	for off := 0; off+transfer.VerifDataChunkHeaderLen <= len(data); {
		n := int(binary.BigEndian.Uint32(data[off+12 : off+16]))
		if n <= 0 || off+transfer.VerifDataChunkHeaderLen+n > len(data) {
			break
		}
		out = append(out, c15Frame{off, n})
		off += transfer.VerifDataChunkHeaderLen + n
	}
	return out
}

// c15FieldInputs appends the field-aware and the stream-end classes.
func c15FieldInputs(e *Env, r *vk.Rng, ctrlW, ctrlR, dataW []byte, hdrLen int, add func(in c15Input)) {
	hx := hex.EncodeToString
	hm, err := transfer.VerifCoreReadControlHeader(vk.NewMemStream(ctrlW))
	if err != nil {
		return
	}
	var itA manifest.FileItem
	for _, it := range hm.Items {
		if !it.IsDir && strings.HasSuffix(it.RelPath, "a.bin") {
			itA = it
		}
	}
	if itA.RelPath == "" {
		return
	}
	keyA := transfer.VerifCoreFileKey(itA)
	hdr := ctrlW[:hdrLen]
	cat := func(parts ...[]byte) []byte {
		var b []byte
		for _, p := range parts {
			b = append(b, p...)
		}
		return b
	}
	pay := func(i int) []byte {
		n := 16
		if i == 2 {
			n = 8
		}
		b := make([]byte, n)
		for j := range b {
			b[j] = byte(0x41 + i + j)
		}
		return b
	}
	frame := func(i int) []byte { return c15ChunkFrame(keyA, uint32(i), pay(i)) }
	both := []string{"", "app"}
	alt := 0
	nextOpts := func() string { alt++; return both[(alt+int(e.Seed))%2] }

	// (1) FileBegin.HashAlg: stored when the file is announced, consumed when a
	// resume report is built for a file that has a completed chunk
	for _, v := range c15EnumValues(e, r, []byte{0, 1, 2, 3, 4, 5, 7, 8, 0x10, 0x7f, 0x80, 0xfe, 0xff}) {
		fb := cat(hdr, ds1(), c15RawFileBegin(itA.RelPath, uint64(itA.Size), 16, keyA, v))
		for _, o := range both {
			add(c15Input{Target: "ep-recv", Opts: o, Class: fmt.Sprintf("records:field:filebegin-hash-alg@fresh-file:v=%02x", v),
				Hex: hx(fb), Data: hx(cat(frame(0), frame(1), frame(2)))})
			add(c15Input{Target: "ep-recv", Opts: o, Class: fmt.Sprintf("records:field:filebegin-hash-alg@chunk-then-resume-request:v=%02x", v),
				Hex: hx(fb), Data: hx(frame(0)), Hex2: hx(c15RawResumeRequest(itA.ID, keyA))})
			add(c15Input{Target: "ep-recv", Opts: o, Class: fmt.Sprintf("records:field:filebegin-hash-alg@prior-session-sidecar:v=%02x", v),
				Hex: hx(fb), Data: hx(frame(1)), Pre: "prior-session"})
		}
		if v == 1 || v == 3 || v == 0xff {
			add(c15Input{Target: "ep-recv", Opts: "app-mc", Class: fmt.Sprintf("records:field:filebegin-hash-alg@chunk-then-resume-request:v=%02x", v),
				Hex: hx(fb), Data: hx(frame(0)), Hex2: hx(c15RawResumeRequest(itA.ID, keyA))})
			add(c15Input{Target: "ep-recv", Opts: "app-mc", Class: fmt.Sprintf("records:field:filebegin-hash-alg@prior-session-sidecar:v=%02x", v),
				Hex: hx(fb), Data: hx(frame(1)), Pre: "prior-session"})
		}
		if v == 3 || v == 0xff {
			add(c15Input{Target: "ep-recv", Opts: "bare", Class: fmt.Sprintf("records:field:filebegin-hash-alg@chunk-then-resume-request:v=%02x", v),
				Hex: hx(fb), Data: hx(frame(0)), Hex2: hx(c15RawResumeRequest(itA.ID, keyA))})
		}
	}

	// (2) the record type byte, at every stage at which an endpoint reads one
	body := make([]byte, 40)
	for _, v := range c15EnumValues(e, r, []byte{0x00, 0x01, 0x0f, 0x10, 0x11, 0x12, 0x13, 0x14, 0x15, 0x16, 0x17, 0x18, 0x19, 0x7f, 0x80, 0xfe, 0xff}) {
		rec := append([]byte{v}, body...)
		nextOpts() // four inputs per value: shift, so that every stage meets both option sets
		add(c15Input{Target: "ep-recv", Opts: nextOpts(), Class: fmt.Sprintf("records:field:record-type@before-datastreams:v=%02x", v), Hex: hx(cat(hdr, rec))})
		add(c15Input{Target: "ep-recv", Opts: nextOpts(), Class: fmt.Sprintf("records:field:record-type@after-datastreams:v=%02x", v), Hex: hx(cat(hdr, ds1(), rec))})
		add(c15Input{Target: "ep-recv", Opts: nextOpts(), Class: fmt.Sprintf("records:field:record-type@after-filebegin:v=%02x", v),
			Hex: hx(cat(hdr, ds1(), c15RawFileBegin(itA.RelPath, uint64(itA.Size), 16, keyA, 1), rec)), Data: hx(frame(0))})
		add(c15Input{Target: "ep-send", Opts: nextOpts(), Class: fmt.Sprintf("acks:field:record-type@first-ack:v=%02x", v), Hex: hx(rec)})
	}

	// (3) FileDone.OK, consumed by the sender after it has written FileEnd
	for _, v := range c15EnumValues(e, r, []byte{0, 1, 2, 3, 0x7f, 0x80, 0xfe, 0xff}) {
		opts := []string{nextOpts()}
		if v <= 2 {
			opts = both
		}
		for _, o := range opts {
			add(c15Input{Target: "ep-send", Opts: o, Class: fmt.Sprintf("acks:reactive:field:filedone-ok-byte@after-fileend:v=%02x", v), Hex: hx(ctrlR), Valid: v == 1})
		}
		if v <= 2 || v == 0xff {
			add(c15Input{Target: "ep-send", Opts: nextOpts(), Class: fmt.Sprintf("acks:reactive:field:filedone-ok-byte@after-fileend:v=%02x:errmsg", v), Hex: hx(ctrlR)})
		}
	}

	// (4) the resume report (bitmap, counts, verified chunk, hash sentinel),
	// consumed by the sender after its ResumeRequest
	for i, variant := range c15ResumeInfoVariants {
		if i%4 == 1 {
			add(c15Input{Target: "ep-send", Opts: "app-mc", Class: "acks:reactive:field:resumeinfo@after-resume-request:" + variant, Hex: hx(ctrlR)})
		}
		for _, o := range both {
			add(c15Input{Target: "ep-send", Opts: o, Class: "acks:reactive:field:resumeinfo@after-resume-request:" + variant, Hex: hx(ctrlR)})
		}
	}

	// (5) one stream ends, the others stay open
	ctrlNoEnd := ctrlW
	if n := len(ctrlNoEnd); n > 0 && ctrlNoEnd[n-1] == transfer.VerifTypeEnd {
		ctrlNoEnd = ctrlNoEnd[:n-1]
	}
	for k, f := range c15Frames(dataW) {
		ps := f.start + transfer.VerifDataChunkHeaderLen
		seen := map[int]bool{}
		for _, off := range []int{0, 1, f.payload / 2, f.payload - 1} {
			if off < 0 || off >= f.payload || seen[off] {
				continue
			}
			seen[off] = true
			os4 := []string{"", "app", "bare"}
			if off == f.payload/2 {
				os4 = append(os4, "app-mc")
			}
			for _, o := range os4 {
				// the data stream ends inside a chunk payload: the reader of that
				// stream is blocked on input that has ended
				add(c15Input{Target: "ep-recv", Opts: o, Hold: "must-return", Class: fmt.Sprintf("data-open:trunc-in-payload:frame%d:+%d", k, off),
					Hex: hx(ctrlNoEnd), Data: hx(dataW[:ps+off])})
			}
		}
		for _, o := range []string{"", "app", "bare"} {
			add(c15Input{Target: "ep-recv", Opts: o, Hold: "must-return:reset", Class: fmt.Sprintf("data-open:reset-in-payload:frame%d:+%d", k, f.payload/2),
				Hex: hx(ctrlNoEnd), Data: hx(dataW[:ps+f.payload/2])})
		}
		for _, o := range both {
			// not judged while the control stream is open (the receiver may wait
			// for the sender's next record); judged once everything is closed
			for _, off := range []int{1, transfer.VerifDataChunkHeaderLen - 1} {
				add(c15Input{Target: "ep-recv", Opts: o, Hold: "observe", Class: fmt.Sprintf("data-open:trunc-in-frame-header:frame%d:+%d", k, off),
					Hex: hx(ctrlNoEnd), Data: hx(dataW[:f.start+off])})
			}
			if f.start > 0 {
				add(c15Input{Target: "ep-recv", Opts: o, Hold: "observe", Class: fmt.Sprintf("data-open:fin-at-frame-boundary:frame%d", k),
					Hex: hx(ctrlNoEnd), Data: hx(dataW[:f.start])})
			}
		}
	}
	// the acknowledgement stream ends (connection and data streams stay): the
	// sender's acknowledgement reader is blocked on input that has ended
	{
		ms := vk.NewMemStream(ctrlR)
		for ms.Remaining() > 0 {
			start := len(ctrlR) - ms.Remaining()
			typ, _, err := transfer.VerifCoreReadControlMessage(ms)
			if err != nil {
				break
			}
			end := len(ctrlR) - ms.Remaining()
			for _, off := range []int{start, start + 1, (start + end) / 2} {
				where := "in-record"
				if off == start {
					where = "at-record-boundary"
				}
				add(c15Input{Target: "ep-send", Opts: nextOpts(), Hold: "must-return", Class: fmt.Sprintf("acks-open:trunc-%s:type%02x@%d", where, typ, off), Hex: hx(ctrlR[:off])})
			}
			add(c15Input{Target: "ep-send", Opts: "app-mc", Hold: "must-return", Class: fmt.Sprintf("acks-open:trunc-in-record:type%02x@%d", typ, (start+end)/2), Hex: hx(ctrlR[:(start+end)/2])})
		}
	}
}

// c15EnumDecoderInputs: every value of the enumeration / flag bytes of the
// decoders' records.
func c15EnumDecoderInputs(e *Env, r *vk.Rng, list *[]c15Input, recs map[string][]byte, legacyManifest []byte) {
	all := func() []byte {
		return c15EnumValues(e, r, []byte{0, 1, 2, 3, 4, 5, 6, 7, 8, 9, 0x0a, 0x0f, 0x10, 0x11, 0x12, 0x13, 0x14, 0x15, 0x16, 0x17, 0x18, 0x19, 0x1f, 0x20, 0x40, 0x7f, 0x80, 0x81, 0xc0, 0xf0, 0xfd, 0xfe, 0xff})
	}
	sweep := func(target, record string, valid []byte, off int, name string) {
		if off < 0 || off >= len(valid) {
			return
		}
		for _, v := range all() {
			if v == valid[off] {
				continue
			}
			b := append([]byte(nil), valid...)
			b[off] = v
			*list = append(*list, c15Input{Target: target, Class: fmt.Sprintf("%s:field:%s:v=%02x", record, name, v), Hex: hex.EncodeToString(b)})
		}
	}
	names := make([]string, 0, len(recs))
	for name := range recs {
		names = append(names, name)
	}
	sort.Strings(names)
	for _, name := range names {
		if name == "header" {
			continue
		}
		sweep("control-message", name, recs[name], 0, "record-type")
	}
	if fb := recs["FileBegin"]; len(fb) > 13 {
		sweep("control-message", "FileBegin", fb, len(fb)-13, "hash-alg")
	}
	if fd := recs["FileDone"]; len(fd) > 9 {
		sweep("control-message", "FileDone", fd, 9, "ok-byte")
	}
	if i := strings.Index(string(legacyManifest), "\x01\x00\x02ok\x02\x00\x0bok/file.bin"); i >= 0 {
		sweep("legacy-manifest", "manifest", legacyManifest, i, "dir-record-type")
		sweep("legacy-manifest", "manifest", legacyManifest, i+5, "file-record-type")
		sweep("legacy-manifest", "manifest", legacyManifest, len(legacyManifest)-1, "end-marker")
	}
}
