//go:build verif

package main

// C15, fourth part: the JSON manifest of the header as structured input.
//
// The byte-level mutations of the header stage (truncation, byte pokes, bit
// flips) almost always destroy the JSON, so the endpoint rejects the header and
// never consumes what the manifest says. Here the manifest stays well-formed
// JSON and one field at a time of the manifest object and of a file item is
// absent / empty / null / of the wrong type / at a numeric boundary / equal to
// another item's value; the script then continues the protocol consistently
// with what the endpoint decoded (DataStreams, the FileBegin of that very item,
// its chunks, a ResumeRequest), in the histories in which the receiver consumes
// the item: fresh file, chunk stored then ResumeRequest, earlier session's
// sidecar on disk, complete recorded exchange.

import (
	"encoding/binary"
	"encoding/hex"
	"encoding/json"
	"fmt"
	"strings"

	"github.com/sheerbytes/sheerbytes/internal/transfer"
	vk "github.com/sheerbytes/sheerbytes/internal/verifkit"
	"github.com/sheerbytes/sheerbytes/pkg/manifest"
)

// c15MfVariant is one well-formed JSON manifest in which one field was changed.
type c15MfVariant struct {
	Field string // "manifest-item-id", "manifest-root", ...
	Val   string // stable name of the value
	JSON  []byte
}

type c15MfValue struct {
	name string
	raw  string // JSON text; "" = the key is absent
}

var c15MfItemFields = []string{"id", "rel_path", "size", "mod_time", "is_dir"}
var c15MfTopFields = []string{"root", "items", "total_bytes", "file_count", "folder_count"}
var c15MfHistories = []string{"fresh-file", "chunk-then-resume-request", "prior-session-sidecar"}

func c15MfFieldName(jsonKey string, item bool) string {
	k := strings.ReplaceAll(jsonKey, "_", "-")
	if item {
		return "manifest-item-" + k
	}
	return "manifest-" + k
}

func c15MfStringValues(other string) []c15MfValue {
	long, _ := json.Marshal(strings.Repeat("a", 300))
	o, _ := json.Marshal(other)
	o2, _ := json.Marshal(other + ".x")
	return []c15MfValue{{"absent", ""}, {"empty", `""`}, {"null", `null`}, {"number", `7`}, {"long300", string(long)}, {"same-as-other-item", string(o)}, {"other-item-plus-suffix", string(o2)}}
}

func c15MfIntValues() []c15MfValue {
	return []c15MfValue{{"absent", ""}, {"0", `0`}, {"1", `1`}, {"-1", `-1`}, {"null", `null`}, {"string", `"40"`}, {"fraction", `2.5`},
		{"minint64", `-9223372036854775808`}, {"1e30", `1e30`}, {"maxint64", `9223372036854775807`}, {"2^32", `4294967296`}, {"2^40", `1099511627776`}}
}

func c15MfBoolValues() []c15MfValue {
	return []c15MfValue{{"absent", ""}, {"true", `true`}, {"null", `null`}, {"string", `"x"`}}
}

// c15ManifestVariants lists the one-field variants of m. target is the
// rel_path of the file item whose fields are varied.
func c15ManifestVariants(m manifest.Manifest, target string) []c15MfVariant {
	base := transfer.VerifManifestJSON(m)
	decode := func() (map[string]json.RawMessage, []map[string]json.RawMessage, int) {
		var top map[string]json.RawMessage
		if json.Unmarshal(base, &top) != nil {
			return nil, nil, -1
		}
		var items []map[string]json.RawMessage
		_ = json.Unmarshal(top["items"], &items)
		idx := -1
		for i, it := range items {
			var rp string
			var isDir bool
			_ = json.Unmarshal(it["rel_path"], &rp)
			_ = json.Unmarshal(it["is_dir"], &isDir)
			if rp == target && !isDir {
				idx = i
			}
		}
		return top, items, idx
	}
	encode := func(top map[string]json.RawMessage, items []map[string]json.RawMessage) []byte {
		if items != nil {
			b, _ := json.Marshal(items)
			top["items"] = b
		}
		b, _ := json.Marshal(top)
		return b
	}
	var out []c15MfVariant
	top0, items0, idx := decode()
	if top0 == nil || idx < 0 {
		return nil
	}
	otherIdx := -1
	for i := range items0 {
		var isDir bool
		_ = json.Unmarshal(items0[i]["is_dir"], &isDir)
		if i != idx && !isDir {
			otherIdx = i
		}
	}
	otherStr := func(key string) string {
		var s string
		if otherIdx >= 0 {
			_ = json.Unmarshal(items0[otherIdx][key], &s)
		}
		return s
	}
	set := func(obj map[string]json.RawMessage, key string, v c15MfValue) {
		if v.raw == "" {
			delete(obj, key)
		} else {
			obj[key] = json.RawMessage(v.raw)
		}
	}
	// fields of the file item
	for _, key := range c15MfItemFields {
		var vals []c15MfValue
		switch key {
		case "id", "rel_path":
			vals = c15MfStringValues(otherStr(key))
		case "size", "mod_time":
			vals = c15MfIntValues()
		default:
			vals = c15MfBoolValues()
		}
		for _, v := range vals {
			top, items, _ := decode()
			set(items[idx], key, v)
			out = append(out, c15MfVariant{c15MfFieldName(key, true), v.name, encode(top, items)})
		}
	}
	// fields of the manifest object
	for _, key := range c15MfTopFields {
		switch key {
		case "root":
			for _, v := range []c15MfValue{{"absent", ""}, {"empty", `""`}, {"null", `null`}, {"number", `7`}} {
				top, _, _ := decode()
				set(top, key, v)
				out = append(out, c15MfVariant{c15MfFieldName(key, false), v.name, encode(top, nil)})
			}
		case "items":
			for _, v := range []c15MfValue{{"absent", ""}, {"null", `null`}, {"empty-list", `[]`}, {"list-of-null", `[null]`}, {"object", `{}`}} {
				top, _, _ := decode()
				set(top, key, v)
				out = append(out, c15MfVariant{c15MfFieldName(key, false), v.name, encode(top, nil)})
			}
			{ // the file item listed twice; the items in reverse order; the file item alone
				top, items, _ := decode()
				out = append(out, c15MfVariant{c15MfFieldName(key, false), "item-twice", encode(top, append(items, items[idx]))})
				top, items, _ = decode()
				for i, j := 0, len(items)-1; i < j; i, j = i+1, j-1 {
					items[i], items[j] = items[j], items[i]
				}
				out = append(out, c15MfVariant{c15MfFieldName(key, false), "reversed", encode(top, items)})
				top, items, _ = decode()
				out = append(out, c15MfVariant{c15MfFieldName(key, false), "file-item-only", encode(top, items[idx:idx+1])})
			}
		default:
			for _, v := range []c15MfValue{{"absent", ""}, {"0", `0`}, {"-1", `-1`}, {"maxint64", `9223372036854775807`}, {"null", `null`}, {"string", `"1"`}} {
				top, _, _ := decode()
				set(top, key, v)
				out = append(out, c15MfVariant{c15MfFieldName(key, false), v.name, encode(top, nil)})
			}
		}
	}
	return out
}

func c15ControlHeader(js []byte) []byte {
	b := []byte("SBC1")
	b = binary.BigEndian.AppendUint32(b, uint32(len(js)))
	return append(b, js...)
}

// c15ManifestEndpointInputs appends the manifest-field classes of the
// receiving endpoint.
func c15ManifestEndpointInputs(e *Env, ctrlW, dataW []byte, hdrLen int, add func(in c15Input)) {
	hx := hex.EncodeToString
	hm, err := transfer.VerifCoreReadControlHeader(vk.NewMemStream(ctrlW))
	if err != nil {
		return
	}
	var itA manifest.FileItem
	for _, it := range hm.Items {
		if !it.IsDir && strings.HasSuffix(it.RelPath, "a.bin") {
			itA = it
		}
	}
	if itA.RelPath == "" {
		return
	}
	pay := func(i int) []byte {
		n := 16
		if i == 2 {
			n = 8
		}
		b := make([]byte, n)
		for j := range b {
			b[j] = byte(0x61 + i + j)
		}
		return b
	}
	rest := ctrlW[hdrLen:]
	for vi, v := range c15ManifestVariants(hm, itA.RelPath) {
		hdr := c15ControlHeader(v.JSON)
		// what the receiver will make of this header, and the item the script
		// goes on to send: the varied one if it is still a file item of the
		// decoded manifest, the original one otherwise
		it := itA
		if dm, err := transfer.VerifCoreReadControlHeader(vk.NewMemStream(hdr)); err == nil {
			for _, cand := range dm.Items {
				if cand.IsDir {
					continue
				}
				if cand.RelPath == itA.RelPath || (v.Field == "manifest-item-rel-path" && cand.ID == itA.ID) {
					it = cand
					break
				}
			}
		}
		key := transfer.VerifCoreFileKey(it)
		size := uint64(it.Size)
		fb := append(append(append([]byte(nil), hdr...), ds1()...), c15RawFileBegin(it.RelPath, size, 16, key, 1)...)
		frame := func(i int) []byte { return c15ChunkFrame(key, uint32(i), pay(i)) }
		all3 := append(append(frame(0), frame(1)...), frame(2)...)
		cls := func(h string) string { return fmt.Sprintf("header-json:field:%s@%s:v=%s", v.Field, h, v.Val) }
		item := strings.HasPrefix(v.Field, "manifest-item-")
		// a consistently announced huge size (the FileBegin repeats it) is one
		// input class whatever happens next: it runs in the fresh-file history only
		large := v.Field == "manifest-item-size" && (strings.HasPrefix(v.Val, "2^") || v.Val == "maxint64")
		for _, o := range []string{"", "app"} {
			// the complete recorded exchange after the varied header
			add(c15Input{Target: "ep-recv", Opts: o, Class: cls("recorded-exchange"), Hex: hx(append(append([]byte(nil), hdr...), rest...)), Data: hx(dataW)})
			if !item && v.Field != "manifest-items" {
				continue
			}
			add(c15Input{Target: "ep-recv", Opts: o, Class: cls("fresh-file"), Hex: hx(fb), Data: hx(all3)})
			if large {
				continue
			}
			add(c15Input{Target: "ep-recv", Opts: o, Class: cls("chunk-then-resume-request"), Hex: hx(fb), Data: hx(frame(0)), Hex2: hx(c15RawResumeRequest(it.ID, key))})
			add(c15Input{Target: "ep-recv", Opts: o, Class: cls("prior-session-sidecar"), Hex: hx(fb), Data: hx(frame(1)), Pre: "prior-session"})
		}
		if item {
			o := []string{"bare", "app-mc"}[(vi+int(e.Seed))%2]
			add(c15Input{Target: "ep-recv", Opts: o, Class: cls("fresh-file"), Hex: hx(fb), Data: hx(all3)})
			if (e.Thorough() && !large) || v.Field == "manifest-item-id" {
				add(c15Input{Target: "ep-recv", Opts: "app-mc", Class: cls("chunk-then-resume-request"), Hex: hx(fb), Data: hx(frame(0)), Hex2: hx(c15RawResumeRequest(it.ID, key))})
				add(c15Input{Target: "ep-recv", Opts: "app-mc", Class: cls("prior-session-sidecar"), Hex: hx(fb), Data: hx(frame(1)), Pre: "prior-session"})
			}
		}
	}
}

// c15ManifestDecoderInputs appends the manifest-field classes of the header
// decoder and of the legacy single-stream manifest receiver (whose session
// goes on with the records of the unchanged items).
func c15ManifestDecoderInputs(list *[]c15Input) {
	hx := hex.EncodeToString
	payloadLen := int64(len("ATTACKER-DATA-0123456789"))
	it := manifest.FileItem{RelPath: "ok/file.bin", Size: payloadLen, ModTime: 1, ID: "00112233aabbccdd"}
	it2 := manifest.FileItem{RelPath: "ok/other.bin", Size: 0, ModTime: 1, ID: "ffeeddccbbaa9988"}
	dir := manifest.FileItem{RelPath: "ok", IsDir: true, ModTime: 1}
	m := manifest.Manifest{Root: "root", FileCount: 2, FolderCount: 1, TotalBytes: payloadLen, Items: []manifest.FileItem{dir, it, it2}}
	legacy := c15LegacyManifest()
	if len(legacy) < 8 {
		return
	}
	tail := legacy[8+int(binary.BigEndian.Uint32(legacy[4:8])):]
	for _, v := range c15ManifestVariants(m, it.RelPath) {
		*list = append(*list, c15Input{Target: "control-header", Class: fmt.Sprintf("header:field:%s:v=%s", v.Field, v.Val), Hex: hx(c15ControlHeader(v.JSON))})
		b := []byte("SBM1")
		b = binary.BigEndian.AppendUint32(b, uint32(len(v.JSON)))
		b = append(append(b, v.JSON...), tail...)
		*list = append(*list, c15Input{Target: "legacy-manifest", Class: fmt.Sprintf("manifest:field:%s:v=%s", v.Field, v.Val), Hex: hx(b)})
	}
}

// c15ManifestTally counts the outcomes of the manifest-field classes.
func c15ManifestTally(out map[string]map[string]int, in c15Input, res c15Result) {
	i := strings.Index(in.Class, "field:manifest-")
	if i < 0 {
		return
	}
	f := in.Class[i+len("field:"):]
	val := ""
	if j := strings.Index(f, ":v="); j >= 0 {
		f, val = f[:j], f[j+3:]
	}
	o := in.Opts
	if o == "" {
		o = "lib"
	}
	k := f + "[" + o + "]"
	if !strings.HasPrefix(in.Target, "ep-") {
		k = f + "[" + in.Target + "]"
	}
	bump := func(what string) {
		if out[k] == nil {
			out[k] = map[string]int{}
		}
		out[k][what]++
	}
	bump("cases")
	switch {
	case res.TimedOut:
		bump("timed_out")
	case res.Panic != "":
		bump("panicked")
	case res.ReturnedNil:
		bump("returned_nil")
	default:
		bump("returned_error")
	}
	if res.BeginHandled > 0 {
		bump("filebegin_of_the_varied_item_handled")
		if val == "absent" || val == "empty" || val == "null" {
			bump("filebegin_handled_with_field_absent_or_empty")
		}
	}
	if res.ChunkStored {
		bump("chunk_stored_before_resume_request")
	}
	if res.SawChunk0 {
		bump("receiver_reported_chunk0_complete")
	}
}

// c15ManifestRequire: the minimum the manifest-field classes must have observed.
func c15ManifestRequire(e *Env, out map[string]map[string]int) {
	for _, o := range []string{"lib", "app"} {
		for _, key := range c15MfItemFields {
			f := c15MfFieldName(key, true)
			for _, h := range append([]string{"recorded-exchange"}, c15MfHistories...) {
				k := f + "@" + h + "[" + o + "]"
				e.R.Require(out[k]["cases"] >= 4, fmt.Sprintf("manifest field class %s: %v", k, out[k]))
			}
		}
		for _, key := range c15MfTopFields {
			k := c15MfFieldName(key, false) + "@recorded-exchange[" + o + "]"
			e.R.Require(out[k]["cases"] >= 4, fmt.Sprintf("manifest field class %s: %v", k, out[k]))
		}
		// a file item without id is legal for the receiver (its sidecar is
		// named after the path): its FileBegin must have been handled to the
		// end, a chunk of it stored before the ResumeRequest, and the sidecar
		// of an earlier session found
		k := "manifest-item-id@fresh-file[" + o + "]"
		e.R.Require(out[k]["filebegin_handled_with_field_absent_or_empty"] >= 2, fmt.Sprintf("FileBegin of an item without id not handled under %s options: %v", o, out[k]))
		k = "manifest-item-id@chunk-then-resume-request[" + o + "]"
		e.R.Require(out[k]["chunk_stored_before_resume_request"] >= 2, fmt.Sprintf("history item without id -> chunk -> ResumeRequest not reached under %s options: %v", o, out[k]))
		k = "manifest-item-id@prior-session-sidecar[" + o + "]"
		e.R.Require(out[k]["receiver_reported_chunk0_complete"] >= 1, fmt.Sprintf("history earlier session's sidecar of an item without id not reached under %s options: %v", o, out[k]))
	}
	for _, t := range []string{"control-header", "legacy-manifest"} {
		for _, key := range c15MfItemFields {
			k := c15MfFieldName(key, true) + "[" + t + "]"
			e.R.Require(out[k]["cases"] >= 4, fmt.Sprintf("manifest field class %s: %v", k, out[k]))
		}
	}
}
