//go:build verif

package main

// C15, third part: (a) a peer that never reads (or stops reading) what the
// endpoint writes, keeps feeding / accepting its own side and then ends every
// stream; (b) resume reports whose (TotalChunks, bitmap length) pair is
// inconsistent, for files of more than 8 chunks.

import (
	"context"
	"encoding/binary"
	"fmt"
	"os"
	"path/filepath"
	"runtime"
	"strconv"
	"strings"
	"sync"
	"sync/atomic"
	"time"

	"github.com/sheerbytes/sheerbytes/internal/app"
	"github.com/sheerbytes/sheerbytes/internal/transfer"
	"github.com/sheerbytes/sheerbytes/internal/verifhook"
	vk "github.com/sheerbytes/sheerbytes/internal/verifkit"
	"github.com/sheerbytes/sheerbytes/pkg/manifest"
)

// c15NoReadSpec describes a scripted peer that does not read.
type c15NoReadSpec struct {
	// "mock": the repository's in-memory transport (unbuffered: a write that
	// the peer does not read blocks at once); "quic": loopback QUIC (such a
	// write only blocks once the 4 MiB stream window is full, i.e. never here)
	Transport string `json:"transport"`
	// ep-recv (hostile sender that never reads acknowledgements): it announces
	// Streams data streams and Files files, completes each of them
	// (FileBegin .. FileEnd) and ends. Kind: "empty" (empty files), "tiny"
	// (5-byte files, one data frame each), "empty+resume-request"
	Files   int    `json:"files,omitempty"`
	Streams int    `json:"streams,omitempty"`
	Kind    string `json:"kind,omitempty"`
	// ep-send (hostile receiver that stops reading while the sender has much to
	// send): "nothing" (never reads), "header", "records:K" (header and K
	// control records), "data:K" (follows the control stream and answers resume
	// requests, reads K frames of the first data stream, nothing of the others)
	Stop string `json:"stop,omitempty"`
}

// c15BigInfos counts the resume reports the reactive receiver wrote for files
// of more than 8 chunks in the case that is running.
var c15BigInfos atomic.Int64

// c15TreeBig: the recorded tree plus files whose chunk bitmaps span 3 and 9 bytes.
func c15TreeBig() vk.Tree {
	return vk.Tree{Seed: 15, Shape: "c15big", Names: "plain", Entries: []vk.Entry{{Rel: "a.bin", Size: 40}, {Rel: "b.bin", Size: 7}, {Rel: "c.bin", Size: 16*20 + 5}, {Rel: "d.bin", Size: 16 * 70}}}
}

// c15ChunksOf: the number of chunks of the file a ResumeRequest refers to, from
// the sender's own FileBegin (or from the manifest at chunk size 16).
func c15ChunksOf(rq transfer.ResumeRequest, begun map[uint64]transfer.FileBegin, hm manifest.Manifest) uint32 {
	if fb, ok := begun[rq.StreamID]; ok && fb.ChunkSize > 0 {
		return uint32((fb.FileSize + uint64(fb.ChunkSize) - 1) / uint64(fb.ChunkSize))
	}
	for _, it := range hm.Items {
		if !it.IsDir && it.ID == rq.FileID {
			return uint32((it.Size + 15) / 16)
		}
	}
	return 0
}

// c15ModeArg returns the value of ":k=value" in a class / mode string.
func c15ModeArg(mode, k string) string {
	i := strings.Index(mode, ":"+k+"=")
	if i < 0 {
		return ""
	}
	v := mode[i+len(k)+2:]
	if j := strings.Index(v, ":"); j >= 0 {
		v = v[:j]
	}
	return v
}

// c15BitmapLenVariant: ri carries the true chunk count; the mode ends in
// "file=<name>:len=<0|1|need-1|need|need+1|need*2>:total=<real|0|fits-bitmap>:bits=<zero|set>:verified=<none|0>".
func c15BitmapLenVariant(ri transfer.FileResumeInfo, mode string) transfer.FileResumeInfo {
	real := ri.TotalChunks
	if real > 8 {
		c15BigInfos.Add(1)
	}
	need := int((real + 7) / 8)
	get := func(k string) string { return c15ModeArg(mode, k) }
	n := need
	switch get("len") {
	case "0":
		n = 0
	case "1":
		n = 1
	case "need-1":
		n = need - 1
	case "need+1":
		n = need + 1
	case "need*2":
		n = need * 2
	}
	if n < 0 {
		n = 0
	}
	bm := make([]byte, n)
	if get("bits") == "set" {
		for i := range bm {
			bm[i] = 0xFF
		}
	}
	ri.Bitmap = bm
	switch get("total") {
	case "0":
		ri.TotalChunks = 0
	case "fits-bitmap":
		ri.TotalChunks = uint32(8 * n)
	}
	if get("verified") == "0" {
		ri.LastVerifiedChunk, ri.LastVerifiedHash = 0, 12345
	} else {
		ri.LastVerifiedChunk = ri.TotalChunks // "nothing to verify"
	}
	return ri
}

// c15Round4Inputs appends the bitmap-length and the peer-never-reads classes.
func c15Round4Inputs(e *Env, add func(in c15Input)) {
	// (1) resume reports with every combination of bitmap length and TotalChunks,
	// consistent and not, for the 21-chunk or the 70-chunk file of a sender
	// (honest "nothing held" reports for its other files); with (app) and
	// without (lib) a ResumeStatsFn
	i := 0
	for li, ln := range []string{"0", "1", "need-1", "need", "need+1", "need*2"} {
		for ti, tot := range []string{"real", "0", "fits-bitmap"} {
			for bi, bits := range []string{"zero", "set"} {
				files := []string{[]string{"c.bin", "d.bin"}[(li+ti)%2]}
				vers := []string{[]string{"none", "0"}[(li+ti/2+bi)%2]}
				if e.Thorough() {
					files, vers = []string{"c.bin", "d.bin"}, []string{"none", "0"}
				}
				for _, file := range files {
					for _, ver := range vers {
						cls := fmt.Sprintf("acks:reactive:field:resumeinfo-bitmap-len@big-file:file=%s:len=%s:total=%s:bits=%s:verified=%s", file, ln, tot, bits, ver)
						for _, o := range []string{"", "app"} {
							add(c15Input{Target: "ep-send", Opts: o, Tree: "big", Class: cls})
						}
						if i%6 == int(e.Seed%6) || e.Thorough() {
							add(c15Input{Target: "ep-send", Opts: "app-mc", Tree: "big", Class: cls})
						}
						i++
					}
				}
			}
		}
	}
	// (2) a sender that never reads the receiver's acknowledgements
	reps := e.Pick(1, 3)
	for k := 0; k < reps; k++ {
		recv := func(tr, kind string, files, streams int, opts ...string) {
			for _, o := range opts {
				add(c15Input{Target: "ep-recv", Opts: o, Class: fmt.Sprintf("noread:sender-never-reads-acks:%s:files=%d:streams=%d:%s", kind, files, streams, tr),
					NoRead: &c15NoReadSpec{Transport: tr, Kind: kind, Files: files, Streams: streams}})
			}
		}
		for _, fs := range [][2]int{{4, 1}, {14, 1}, {40, 1}, {40, 2}} {
			recv("mock", "empty", fs[0], fs[1], "", "app", "bare")
		}
		for _, fs := range [][2]int{{14, 1}, {40, 2}} {
			recv("mock", "tiny", fs[0], fs[1], "", "app", "bare")
			recv("mock", "empty+resume-request", fs[0], fs[1], "", "app")
		}
		recv("quic", "empty", 40, 1, "")
		recv("quic", "tiny", 40, 2, "app")
		// (3) a receiver that stops reading while the sender has more to send
		send := func(tr, stop string, opts ...string) {
			for _, o := range opts {
				add(c15Input{Target: "ep-send", Opts: o, Tree: "big", Class: fmt.Sprintf("noread:receiver-stops-reading:after-%s:%s", strings.ReplaceAll(stop, ":", "-"), tr),
					NoRead: &c15NoReadSpec{Transport: tr, Stop: stop}})
			}
		}
		for _, stop := range []string{"nothing", "header", "records:1", "records:3", "data:0", "data:1", "data:5"} {
			send("mock", stop, "", "app", "bare")
		}
		send("quic", "data:0", "")
		send("quic", "nothing", "app")
	}
}

type c15CountStream struct {
	transfer.Stream
	n *atomic.Int64
}

func (c c15CountStream) Read(p []byte) (int, error) {
	n, err := c.Stream.Read(p)
	c.n.Add(int64(n))
	return n, err
}

// c15Quiesce returns once progress has not moved for idle (or stop fired, or
// max elapsed). It only chooses the moment at which the script ends its
// streams; every such moment is a legitimate history.
func c15Quiesce(progress func() int64, stop <-chan struct{}, idle, max time.Duration) {
	deadline := time.Now().Add(max)
	last, since := progress(), time.Now()
	for time.Now().Before(deadline) {
		select {
		case <-stop:
			return
		case <-time.After(20 * time.Millisecond):
		}
		if v := progress(); v != last {
			last, since = v, time.Now()
		} else if time.Since(since) >= idle {
			return
		}
	}
}

// c15RunNoRead runs one endpoint against a peer that does not read and then
// ends all of its streams and its connection.
func c15RunNoRead(lp *vk.ListenerPool, in c15Input, work string) (res c15Result) {
	sp := *in.NoRead
	setupErr := func(err error) c15Result {
		res.Err = "SETUP: " + err.Error()
		res.Returned = true
		return res
	}
	ctx, cancel := context.WithTimeout(context.Background(), 60*time.Second)
	defer cancel()
	var dialC, accC transfer.Conn
	switch sp.Transport {
	case "mock":
		t1, t2 := transfer.NewMockPair()
		defer t1.Close()
		defer t2.Close()
		d, err := t1.Dial(ctx, "peer2")
		if err != nil {
			return setupErr(err)
		}
		a, err := t2.Accept(ctx)
		if err != nil {
			return setupErr(err)
		}
		dialC, accC = d, a
	default:
		if lp == nil {
			return setupErr(fmt.Errorf("no listener"))
		}
		l := lp.Get()
		defer lp.Put(l)
		p, err := l.NewPair(ctx)
		if err != nil {
			return setupErr(err)
		}
		defer p.Close()
		dialC, accC = p.Dial, p.Accept
	}
	// as in the application: the sender dials, the receiver accepts
	epConn, peerConn := accC, dialC
	if in.Target == "ep-send" {
		epConn, peerConn = dialC, accC
	}
	base := vk.TempDir(work, "nr-")
	defer os.RemoveAll(base)
	defer transfer.VerifRetireSidecars(base)

	var ms1, ms2 runtime.MemStats
	runtime.GC()
	runtime.ReadMemStats(&ms1)
	done := make(chan error, 1)
	returned := make(chan struct{})
	ended := make(chan struct{})
	var peerEnded, peerStalled atomic.Bool
	var peerWrote, peerRead, progress, finalized atomic.Int64
	fin0 := verifhook.Hits("recv.finalize.before")
	stopOpts := func() {}

	switch in.Target {
	case "ep-recv":
		out := filepath.Join(base, "out")
		size := int64(0)
		if sp.Kind == "tiny" {
			size = 5
		}
		m := manifest.Manifest{Root: "root", FileCount: sp.Files, TotalBytes: size * int64(sp.Files)}
		for i := 0; i < sp.Files; i++ {
			m.Items = append(m.Items, manifest.FileItem{RelPath: fmt.Sprintf("f-%03d.bin", i), Size: size, ModTime: 5, ID: fmt.Sprintf("%016x", 0xC15000+i)})
		}
		res.InputLen = 64 * sp.Files
		var opts transfer.Options
		switch in.Opts {
		case "app":
			opts, stopOpts = app.VerifC15ReceiverOptions(ctx, m.TotalBytes, sp.Files, out, true, 1)
		case "bare":
			opts = transfer.Options{NoRootDir: true}
		default:
			opts = transfer.Options{Resume: true, NoRootDir: true, HashAlg: "crc32c", ParallelFiles: 1}
		}
		go func() {
			_, err := transfer.RecvManifestMultiStream(ctx, epConn, out, opts)
			close(returned)
			done <- err
		}()
		// script: a sender that never reads a byte of the reverse direction
		go func() {
			defer close(ended)
			cs, err := peerConn.OpenStream(ctx)
			if err != nil {
				return
			}
			streams := []transfer.Stream{cs}
			ctrlDone := make(chan struct{})
			go func() {
				defer close(ctrlDone)
				if transfer.VerifCoreWriteControlHeader(cs, m) != nil {
					return
				}
				if transfer.VerifCoreWriteDataStreams(cs, transfer.DataStreams{Count: uint16(sp.Streams)}) != nil {
					return
				}
				for _, it := range m.Items {
					key := transfer.VerifCoreFileKey(it)
					if _, err := cs.Write(c15RawFileBegin(it.RelPath, uint64(it.Size), 16, key, 1)); err != nil {
						return
					}
					if sp.Kind == "empty+resume-request" {
						if _, err := cs.Write(c15RawResumeRequest(it.ID, key)); err != nil {
							return
						}
					}
					if transfer.VerifCoreWriteFileEnd(cs, transfer.FileEnd{StreamID: key}) != nil {
						return
					}
					peerWrote.Add(1)
					progress.Add(1)
				}
			}()
			for i := 0; i < sp.Streams; i++ {
				ds, err := peerConn.OpenStream(ctx)
				if err != nil {
					break
				}
				streams = append(streams, ds)
				if sp.Kind != "tiny" {
					continue
				}
				go func(i int, ds transfer.Stream) {
					for j, it := range m.Items {
						if j%sp.Streams != i {
							continue
						}
						if _, err := ds.Write(c15ChunkFrame(transfer.VerifCoreFileKey(it), 0, []byte("tiny!"))); err != nil {
							return
						}
						progress.Add(1)
					}
				}(i, ds)
			}
			// quiescent: neither the script's writes nor the receiver's file
			// completions have moved for a while
			c15Quiesce(func() int64 { return progress.Load() + int64(verifhook.Hits("recv.finalize.before")) }, returned, 400*time.Millisecond, 8*time.Second)
			finalized.Store(int64(verifhook.Hits("recv.finalize.before") - fin0))
			select {
			case <-ctrlDone:
			default:
				// the script's own write is blocked: the receiver has stopped
				// reading the control stream
				peerStalled.Store(true)
			}
			// the input ends: every stream and the connection, without a read
			for _, s := range streams {
				_ = s.Close()
			}
			_ = peerConn.Close()
			peerEnded.Store(true)
		}()
	case "ep-send":
		src := filepath.Join(base, "srcroot")
		tree := c15Tree()
		if in.Tree == "big" {
			tree = c15TreeBig()
		}
		_ = tree.Materialize(src)
		m, _ := manifest.ScanPaths([]string{src})
		resolver, _ := app.VerifBuildPathResolver([]string{src})
		res.InputLen = 64
		var opts transfer.Options
		switch in.Opts {
		case "app":
			opts, stopOpts = app.VerifC15SenderOptions(ctx, m, 16, 1, 1, resolver)
		case "bare":
			opts = transfer.Options{ChunkSize: 16, ParallelFiles: 1, ResolveFilePath: resolver}
		default:
			opts = transfer.Options{ChunkSize: 16, ParallelFiles: 1, Resume: true, HashAlg: "crc32c", ResolveFilePath: resolver,
				ParamSource: func() transfer.RuntimeParams { return transfer.RuntimeParams{ChunkSize: 16, ParallelFiles: 1} }}
		}
		go func() {
			err := transfer.SendManifestMultiStream(ctx, epConn, ".", m, opts)
			close(returned)
			done <- err
		}()
		// script: a receiver that stops reading
		go func() {
			defer close(ended)
			cs0, err := peerConn.AcceptStream(ctx)
			if err != nil {
				return
			}
			cs := c15CountStream{cs0, &peerRead}
			kind, ks, _ := strings.Cut(sp.Stop, ":")
			k, _ := strconv.Atoi(ks)
			var mu sync.Mutex
			streams := []transfer.Stream{cs0}
			over := false
			go func() { // accept the data streams; read K frames of the first one
				first := true
				for {
					ds, err := peerConn.AcceptStream(ctx)
					if err != nil {
						return
					}
					mu.Lock()
					if over {
						mu.Unlock()
						_ = ds.Close()
						continue
					}
					streams = append(streams, ds)
					isFirst := first
					first = false
					mu.Unlock()
					if kind == "data" && isFirst && k > 0 {
						go func() {
							r := c15CountStream{ds, &peerRead}
							hdr := make([]byte, transfer.VerifDataChunkHeaderLen)
							for f := 0; f < k; f++ {
								if _, err := c15ReadFull(r, hdr); err != nil {
									return
								}
								if _, err := c15ReadFull(r, make([]byte, binary.BigEndian.Uint32(hdr[12:16])&0xFFFF)); err != nil {
									return
								}
							}
						}()
					}
				}
			}()
			go func() {
				switch kind {
				case "header", "records", "data":
					if _, err := transfer.VerifCoreReadControlHeader(cs); err != nil {
						return
					}
					for n := 0; kind == "data" || (kind == "records" && n < k); n++ {
						typ, msg, err := transfer.VerifCoreReadControlMessage(cs)
						if err != nil {
							return
						}
						if rq, ok := msg.(transfer.ResumeRequest); ok && typ == transfer.VerifTypeResumeRequest && kind == "data" {
							// "nothing held": the sender goes on to send the whole file
							_ = transfer.VerifCoreWriteFileResumeInfo(cs0, transfer.FileResumeInfo{FileID: rq.FileID, StreamID: rq.StreamID})
						}
					}
				}
			}()
			c15Quiesce(peerRead.Load, returned, 400*time.Millisecond, 8*time.Second)
			mu.Lock()
			over = true
			ss := append([]transfer.Stream(nil), streams...)
			mu.Unlock()
			for _, s := range ss {
				_ = s.Close()
			}
			_ = peerConn.Close()
			peerEnded.Store(true)
		}()
	}

	finish := func(err error) {
		res.Returned = true
		if err != nil {
			res.Err = err.Error()
		} else {
			res.ReturnedNil = true
		}
	}
	timedOut := func() {
		res.TimedOut = true
		res.PeerEnded = peerEnded.Load()
		res.Dump = c15Dump()
		cancel()
		t0 := time.Now()
		cres := c15RunEndpoint(lp2(lp), c15Input{Target: in.Target, Class: "canary", Hex: os.Getenv("C15_CANARY_" + in.Target), Data: os.Getenv("C15_CANARY_DATA")}, work)
		res.CanaryOK = cres.Returned && time.Since(t0) < 5*time.Second
	}
	select {
	case err := <-done:
		finish(err)
	case <-ended:
		// watchdog: counts from the moment the peer has ended everything
		select {
		case err := <-done:
			finish(err)
		case <-time.After(10 * time.Second):
			timedOut()
		}
	case <-time.After(30 * time.Second):
		timedOut() // the script itself did not get to its end: no verdict (PeerEnded is false)
	}
	res.PeerEnded = peerEnded.Load()
	res.PeerStalled = peerStalled.Load()
	res.PeerWrote = int(peerWrote.Load())
	res.Finalized = int(finalized.Load())
	res.PeerRead = int(peerRead.Load())
	time.Sleep(100 * time.Millisecond)
	runtime.ReadMemStats(&ms2)
	res.AllocB = ms2.TotalAlloc - ms1.TotalAlloc
	cancel()
	stopOpts()
	return res
}

func c15ReadFull(r interface{ Read([]byte) (int, error) }, b []byte) (int, error) {
	n := 0
	for n < len(b) {
		k, err := r.Read(b[n:])
		n += k
		if err != nil {
			return n, err
		}
	}
	return n, nil
}
