//go:build verif

package main

// C15, fifth part: state that the peer authors THROUGH the streams and that the
// receiver decodes later.
//
// A manifest item may live anywhere below the output directory, also inside
// the resume directory (.thruflux_resumedata/<id>.sbxmap). A sender can thus
// write, byte for byte, the resume sidecar of another item of its manifest by
// an ordinary file transfer, and make the receiver decode it with the next
// FileBegin of that item (next session into the same output directory). The
// sidecar's trailing checksum is then the peer's own: field values that a
// byte-level mutation of a valid sidecar never gets past the checksum test do
// reach the code behind it.
//
// (a) decoder level: a well-formed sidecar in which one header field at a time
//     is set to boundary values and the checksum is recomputed ("sealed"),
//     into LoadSidecar;
// (b) endpoint level, two sessions of the real RecvManifestMultiStream against
//     one output directory over the repository's in-memory transport:
//     session 1 announces the victim (the receiver pre-sizes it and writes its
//     sidecar), transfers the item whose path is that sidecar (or the fallback
//     sidecar below the root directory, with garbage in the primary one) and
//     whose content is the sealed sidecar, waits for the receiver's FileDone
//     and ends everything; session 2 announces the victim again, sends its
//     chunks, a ResumeRequest and FileEnd and ends everything.
//
// That the history was reached is read from logical events: the bytes on disk
// after session 1 equal the planted bytes; the receiver handled the victim's
// FileBegin of session 2 to the end (hook recv.begin.handled) or returned.

import (
	"bytes"
	"context"
	"encoding/binary"
	"encoding/hex"
	"fmt"
	"os"
	"path/filepath"
	"runtime"
	"strings"
	"sync/atomic"
	"time"

	"github.com/sheerbytes/sheerbytes/internal/app"
	"github.com/sheerbytes/sheerbytes/internal/transfer"
	"github.com/sheerbytes/sheerbytes/internal/verifhook"
	vk "github.com/sheerbytes/sheerbytes/internal/verifkit"
	"github.com/sheerbytes/sheerbytes/pkg/manifest"
)

// c15PlantSpec: where session 1 writes the sealed sidecar (the content is the
// input's Hex).
type c15PlantSpec struct {
	Where string `json:"where"` // "primary" | "fallback"
}

const (
	c15VictimID    = "c15victim0000001"
	c15VictimSize  = 40
	c15VictimChunk = 16
	c15PlantHist   = "planted-sidecar-next-session"
)

func c15Victim() manifest.FileItem {
	return manifest.FileItem{RelPath: "victim.bin", Size: c15VictimSize, ModTime: 5, ID: c15VictimID}
}

// c15SidecarFields are the fields of a sidecar file; idLen / bmLen < 0: the
// true lengths.
type c15SidecarFields struct {
	version   uint16
	chunkSize uint32
	fileSize  uint64
	total     uint32
	id        string
	idLen     int
	bitmap    []byte
	bmLen     int64
}

// c15SealSidecar encodes the fields and appends the checksum of what it wrote.
func c15SealSidecar(f c15SidecarFields) []byte {
	b := []byte("SBM2")
	b = binary.BigEndian.AppendUint16(b, f.version)
	b = binary.BigEndian.AppendUint32(b, f.chunkSize)
	b = binary.BigEndian.AppendUint64(b, f.fileSize)
	b = binary.BigEndian.AppendUint32(b, f.total)
	if f.idLen < 0 {
		f.idLen = len(f.id)
	}
	b = binary.BigEndian.AppendUint16(b, uint16(f.idLen))
	b = append(b, f.id...)
	if f.bmLen < 0 {
		f.bmLen = int64(len(f.bitmap))
	}
	b = binary.BigEndian.AppendUint32(b, uint32(f.bmLen))
	b = append(b, f.bitmap...)
	return binary.BigEndian.AppendUint32(b, transfer.VerifCoreCRC32C(b))
}

type c15SealedVariant struct {
	field, value string
	bytes        []byte
}

// c15SealedSidecars: the victim's sidecar with one field at a time varied, each
// with a valid checksum. A varied chunk count comes with a bitmap of the
// length that count calls for (up to 4096 chunks), clear and set.
func c15SealedSidecars() []c15SealedVariant {
	base := func() c15SidecarFields {
		return c15SidecarFields{version: 1, chunkSize: c15VictimChunk, fileSize: c15VictimSize, total: 3, id: c15VictimID, idLen: -1, bitmap: []byte{0}, bmLen: -1}
	}
	var out []c15SealedVariant
	add := func(field, value string, f c15SidecarFields) {
		out = append(out, c15SealedVariant{field, value, c15SealSidecar(f)})
	}
	for _, bits := range []byte{0x00, 0x01, 0x05, 0x07, 0xFF} {
		f := base()
		f.bitmap = []byte{bits}
		add("sidecar-bitmap-bits", fmt.Sprintf("%02x", bits), f)
	}
	for _, v := range []uint32{0, 1, 15, 17, 0x7FFFFFFF, 0x80000000, 0xFFFFFFFF} {
		f := base()
		f.chunkSize = v
		add("sidecar-chunk-size", fmt.Sprintf("%x", v), f)
	}
	for _, v := range []uint64{0, 1, 39, 41, 1 << 32, 1<<63 - 1, 1 << 63, 1<<64 - 1} {
		f := base()
		f.fileSize = v
		add("sidecar-file-size", fmt.Sprintf("%x", v), f)
	}
	for _, v := range []uint32{0, 1, 2, 4, 8, 9, 1000, 4096, 0x7FFFFFFF, 0x80000000, 0xFFFFFFFF} {
		for _, set := range []bool{false, true} {
			f := base()
			f.total = v
			if v <= 4096 {
				f.bitmap = make([]byte, (v+7)/8)
			}
			if set {
				for i := range f.bitmap {
					f.bitmap[i] = 0xFF
				}
			}
			add("sidecar-total-chunks", fmt.Sprintf("%x:bits=%v", v, map[bool]string{false: "zero", true: "set"}[set]), f)
		}
	}
	for _, v := range []string{"", "0000000000000000", strings.Repeat("i", 300)} {
		f := base()
		f.id = v
		add("sidecar-file-id", fmt.Sprintf("len%d", len(v)), f)
	}
	for _, v := range []int{0, 1, 17, 0xFFFF} {
		f := base()
		f.idLen = v
		add("sidecar-file-id-len", fmt.Sprintf("%x", v), f)
	}
	for _, v := range []int64{0, 2, 0x7FFFFFFF, 0x80000000, 0xFFFFFFFF} {
		f := base()
		f.bmLen = v
		add("sidecar-bitmap-len", fmt.Sprintf("%x", v), f)
	}
	for _, v := range []uint16{0, 2, 0xFFFF} {
		f := base()
		f.version = v
		add("sidecar-version", fmt.Sprintf("%x", v), f)
	}
	return out
}

// c15SealedDecoderInputs: (a) above.
func c15SealedDecoderInputs(list *[]c15Input) {
	for _, v := range c15SealedSidecars() {
		*list = append(*list, c15Input{Target: "sidecar", Class: fmt.Sprintf("sidecar:sealed:field:%s:v=%s", v.field, v.value), Hex: hex.EncodeToString(v.bytes)})
	}
}

// c15PlantedInputs: (b) above, under the library options and the
// application's.
func c15PlantedInputs(e *Env, add func(in c15Input)) {
	for i, v := range c15SealedSidecars() {
		for oi, o := range []string{"", "app"} {
			where := "primary"
			// some of the cases go through the fallback sidecar path (thorough: every case through both)
			if (i+oi+int(e.Seed))%4 == 0 {
				where = "fallback"
			}
			wheres := []string{where}
			if e.Thorough() {
				wheres = []string{"primary", "fallback"}
			}
			for _, w := range wheres {
				add(c15Input{Target: "ep-recv", Opts: o, Class: fmt.Sprintf("planted:field:%s@%s:v=%s:where=%s", v.field, c15PlantHist, v.value, w),
					Hex: hex.EncodeToString(v.bytes), Plant: &c15PlantSpec{Where: w}})
			}
		}
	}
}

type c15PlantAck struct {
	typ byte
	key uint64
	ok  bool
	bm  []byte
}

// c15PlantSession is the scripted sender's side of one session.
type c15PlantSession struct {
	ctx      context.Context
	peer     transfer.Conn
	cs, ds   transfer.Stream
	acks     chan c15PlantAck
	returned chan struct{}
	done     chan error
	closeT   func()
}

// wait returns true once the receiver has written a record of type typ (or
// a FileDone, if orDone) for key. It gives up when the receiver returns, its
// control stream ends or after d; that only chooses the moment at which the
// script goes on.
func (s *c15PlantSession) wait(typ byte, key uint64, d time.Duration, orDone ...bool) (c15PlantAck, bool) {
	t := time.After(d)
	for {
		select {
		case a, ok := <-s.acks:
			if !ok {
				return c15PlantAck{}, false
			}
			if a.key == key && (a.typ == typ || (len(orDone) > 0 && a.typ == transfer.VerifTypeFileDone)) {
				return a, true
			}
		case <-s.returned:
			return c15PlantAck{}, false
		case <-t:
			return c15PlantAck{}, false
		}
	}
}

// end: the input ends, every stream and the connection.
func (s *c15PlantSession) end() {
	if s.ds != nil {
		_ = s.ds.Close()
	}
	if s.cs != nil {
		_ = s.cs.Close()
	}
	_ = s.peer.Close()
}

func c15PlantStart(parent context.Context, in c15Input, out string, m manifest.Manifest) (*c15PlantSession, func(), error) {
	// one context per session: the application's progress ticker only stops
	// once its context is done
	ctx, cancel := context.WithCancel(parent)
	t1, t2 := transfer.NewMockPair()
	closeT := func() { cancel(); t1.Close(); t2.Close() }
	d, err := t1.Dial(ctx, "peer2")
	if err != nil {
		closeT()
		return nil, nil, err
	}
	a, err := t2.Accept(ctx)
	if err != nil {
		closeT()
		return nil, nil, err
	}
	s := &c15PlantSession{ctx: ctx, peer: d, acks: make(chan c15PlantAck, 256), returned: make(chan struct{}), done: make(chan error, 1), closeT: closeT}
	var opts transfer.Options
	stopOpts := func() {}
	switch in.Opts {
	case "app":
		var stopTicker func()
		opts, stopTicker = app.VerifC15ReceiverOptions(ctx, m.TotalBytes, m.FileCount, out, true, 1)
		stopOpts = func() { cancel(); stopTicker() }
	default:
		opts = transfer.Options{Resume: true, NoRootDir: true, HashAlg: "crc32c", ParallelFiles: 1}
	}
	go func() {
		_, err := transfer.RecvManifestMultiStream(ctx, a, out, opts)
		close(s.returned)
		s.done <- err
	}()
	fail := func(err error) (*c15PlantSession, func(), error) {
		s.end()
		select {
		case <-s.returned:
		case <-time.After(10 * time.Second):
		}
		stopOpts()
		closeT()
		return nil, nil, err
	}
	if s.cs, err = d.OpenStream(ctx); err != nil {
		return fail(fmt.Errorf("open control stream: %w", err))
	}
	if err = transfer.VerifCoreWriteControlHeader(s.cs, m); err != nil {
		return fail(fmt.Errorf("write header: %w", err))
	}
	if s.ds, err = d.OpenStream(ctx); err != nil {
		return fail(fmt.Errorf("open data stream: %w", err))
	}
	if err = transfer.VerifCoreWriteDataStreams(s.cs, transfer.DataStreams{Count: 1}); err != nil {
		return fail(fmt.Errorf("write DataStreams: %w", err))
	}
	go func() { // everything the receiver says on the control stream
		defer close(s.acks)
		for {
			typ, msg, err := transfer.VerifCoreReadControlMessage(s.cs)
			if err != nil {
				return
			}
			var a c15PlantAck
			switch v := msg.(type) {
			case transfer.FileResumeInfo:
				a = c15PlantAck{typ: typ, key: v.StreamID, bm: v.Bitmap}
			case transfer.FileDone:
				a = c15PlantAck{typ: typ, key: v.StreamID, ok: v.OK}
			default:
				continue
			}
			select {
			case s.acks <- a:
			default:
			}
		}
	}()
	return s, stopOpts, nil
}

// c15RunPlanted runs the two sessions of one planted-sidecar case.
func c15RunPlanted(lp *vk.ListenerPool, in c15Input, work string) (res c15Result) {
	content, _ := hex.DecodeString(in.Hex)
	res.InputLen = len(content) + 512
	setupErr := func(err error) c15Result {
		res.Err = "SETUP: " + err.Error()
		res.Returned = true
		return res
	}
	ctx, cancel := context.WithTimeout(context.Background(), 60*time.Second)
	defer cancel()
	dbgT0 := time.Now()
	dbg := func(what string) {
		if p := os.Getenv("C15_PLANT_DEBUG"); p != "" {
			if f, err := os.OpenFile(p, os.O_CREATE|os.O_APPEND|os.O_WRONLY, 0644); err == nil {
				fmt.Fprintf(f, "%s %s +%v\n", in.ID, what, time.Since(dbgT0))
				f.Close()
			}
		}
	}
	base := vk.TempDir(work, "pl-")
	defer os.RemoveAll(base)
	defer transfer.VerifRetireSidecars(base)
	out := filepath.Join(base, "out")
	_ = os.MkdirAll(out, 0755)

	victim := c15Victim()
	sid := transfer.VerifCoreSidecarID(victim)
	const root = "root"
	primaryAbs := transfer.SidecarPath(out, "", sid)
	fallbackAbs := transfer.SidecarPath(filepath.Join(out, root), "", sid)
	rel := func(abs string) string {
		r, _ := filepath.Rel(out, abs)
		return filepath.ToSlash(r)
	}
	type plant struct {
		item manifest.FileItem
		abs  string
		data []byte
	}
	var plants []plant
	switch in.Plant.Where {
	case "fallback":
		// the primary sidecar does not decode, so that the receiver turns to the fallback one
		junk := []byte("SBM2 not a sidecar")
		plants = append(plants,
			plant{manifest.FileItem{RelPath: rel(primaryAbs), Size: int64(len(junk)), ModTime: 5, ID: "c15plant00000002"}, primaryAbs, junk},
			plant{manifest.FileItem{RelPath: rel(fallbackAbs), Size: int64(len(content)), ModTime: 5, ID: "c15plant00000001"}, fallbackAbs, content})
	default:
		plants = append(plants, plant{manifest.FileItem{RelPath: rel(primaryAbs), Size: int64(len(content)), ModTime: 5, ID: "c15plant00000001"}, primaryAbs, content})
	}
	m := manifest.Manifest{Root: root, Items: []manifest.FileItem{victim}, TotalBytes: victim.Size, FileCount: 1 + len(plants)}
	for _, p := range plants {
		m.Items = append(m.Items, p.item)
		m.TotalBytes += p.item.Size
	}
	vkey := transfer.VerifCoreFileKey(victim)

	var ms1, ms2 runtime.MemStats
	runtime.GC()
	runtime.ReadMemStats(&ms1)

	// ---- session 1: announce the victim, transfer the plant(s), end ----------
	s1, stop1, err := c15PlantStart(ctx, in, out, m)
	if err != nil {
		return setupErr(err)
	}
	reached := false
	if _, err := s1.cs.Write(c15RawFileBegin(victim.RelPath, uint64(victim.Size), c15VictimChunk, vkey, 1)); err == nil {
		_, reached = s1.wait(transfer.VerifTypeFileResumeInfo, vkey, 10*time.Second)
	}
	for _, p := range plants {
		if !reached {
			break
		}
		reached = false
		key := transfer.VerifCoreFileKey(p.item)
		if _, err := s1.cs.Write(c15RawFileBegin(p.item.RelPath, uint64(p.item.Size), 4096, key, 1)); err != nil {
			break
		}
		if _, ok := s1.wait(transfer.VerifTypeFileResumeInfo, key, 10*time.Second); !ok {
			break
		}
		if _, err := s1.ds.Write(c15ChunkFrame(key, 0, p.data)); err != nil {
			break
		}
		if err := transfer.VerifCoreWriteFileEnd(s1.cs, transfer.FileEnd{StreamID: key}); err != nil {
			break
		}
		a, ok := s1.wait(transfer.VerifTypeFileDone, key, 10*time.Second)
		reached = ok && a.ok
	}
	dbg(fmt.Sprintf("session 1 script done reached=%v", reached))
	s1.end()
	timedOut := func(s *c15PlantSession) bool {
		select {
		case err := <-s.done:
			if err != nil {
				res.Err = err.Error()
				res.ReturnedNil = false
			} else {
				res.Err = ""
				res.ReturnedNil = true
			}
			return false
		case <-time.After(10 * time.Second):
			return true
		}
	}
	hang := func(stage string) c15Result {
		res.TimedOut = true
		res.PeerEnded = true
		res.Dump = stage + "\n" + c15Dump()
		cancel()
		if !in.Again {
			t0 := time.Now()
			cres := c15RunEndpoint(lp2(lp), c15Input{Target: "ep-recv", Class: "canary", Hex: os.Getenv("C15_CANARY_ep-recv"), Data: os.Getenv("C15_CANARY_DATA")}, work)
			res.CanaryOK = cres.Returned && time.Since(t0) < 5*time.Second
			if res.CanaryOK {
				again := in
				again.Again = true
				res.Reproduced = c15RunPlanted(lp, again, work).TimedOut
			}
		}
		return res
	}
	if timedOut(s1) {
		stop1()
		s1.closeT()
		return hang("session 1 (plant)")
	}
	dbg("session 1 receiver returned: " + res.Err)
	stop1()
	s1.closeT()
	// the receiver process of session 1 is gone
	transfer.VerifRetireSidecars(base)
	if reached {
		ok := true
		for _, p := range plants {
			if b, err := os.ReadFile(p.abs); err != nil || !bytes.Equal(b, p.data) {
				ok = false
			}
		}
		if st, err := os.Stat(filepath.Join(out, victim.RelPath)); err != nil || st.Size() != victim.Size {
			ok = false
		}
		res.Planted = ok
	}

	// ---- session 2: the victim again ----------------------------------------
	begin0 := verifhook.Hits("recv.begin.handled")
	dbg("session 2 starts")
	s2, stop2, err := c15PlantStart(ctx, in, out, m)
	if err != nil {
		dbg("session 2 setup: " + err.Error())
		return setupErr(err)
	}
	defer s2.closeT()
	defer stop2()
	var sawChunk0 atomic.Bool
	if _, err := s2.cs.Write(c15RawFileBegin(victim.RelPath, uint64(victim.Size), c15VictimChunk, vkey, 1)); err == nil {
		res.S2BeginWritten = true
		if a, ok := s2.wait(transfer.VerifTypeFileResumeInfo, vkey, 10*time.Second); ok {
			res.S2Info = true
			if len(a.bm) > 0 && a.bm[0]&1 != 0 {
				sawChunk0.Store(true)
			}
			// the rest of an ordinary exchange for the victim: first chunk,
			// ResumeRequest, the other chunks, FileEnd
			payload := []byte("0123456789abcdef0123456789abcdef01234567")
			frame := func(i int) bool {
				lo, hi := i*c15VictimChunk, (i+1)*c15VictimChunk
				if hi > len(payload) {
					hi = len(payload)
				}
				_, err := s2.ds.Write(c15ChunkFrame(vkey, uint32(i), payload[lo:hi]))
				return err == nil
			}
			done := false
			sent := frame(0)
			if sent {
				if _, err := s2.cs.Write(c15RawResumeRequest(victim.ID, vkey)); err == nil {
					// a receiver that holds the victim for complete answers with FileDone or not at all
					a, ok := s2.wait(transfer.VerifTypeFileResumeInfo, vkey, 1500*time.Millisecond, true)
					done = ok && a.typ == transfer.VerifTypeFileDone
				} else {
					sent = false
				}
			}
			sent = sent && frame(1) && frame(2)
			if sent && transfer.VerifCoreWriteFileEnd(s2.cs, transfer.FileEnd{StreamID: vkey}) == nil && !done {
				_, done = s2.wait(transfer.VerifTypeFileDone, vkey, 1500*time.Millisecond)
			}
			res.S2Done = done
		}
	}
	dbg("session 2 script done")
	s2.end()
	if timedOut(s2) {
		return hang("session 2 (victim announced again)")
	}
	res.Returned = true
	res.PeerEnded = true
	res.SawChunk0 = sawChunk0.Load()
	if !in.Again {
		res.BeginHandled = int(verifhook.Hits("recv.begin.handled") - begin0)
	}
	time.Sleep(100 * time.Millisecond)
	runtime.ReadMemStats(&ms2)
	res.AllocB = ms2.TotalAlloc - ms1.TotalAlloc
	return res
}

// c15PlantedTally counts, per field@history[option set], what the planted-
// sidecar cases reached.
func c15PlantedTally(out map[string]map[string]int, in c15Input, res c15Result, died bool) {
	if in.Plant == nil {
		return
	}
	f := in.Class[strings.Index(in.Class, "field:")+len("field:"):]
	if j := strings.Index(f, "@"); j >= 0 {
		f = f[:j]
	}
	o := in.Opts
	if o == "" {
		o = "lib"
	}
	for _, k := range []string{f + "@" + c15PlantHist + "[" + o + "]", "all@" + c15PlantHist + "[" + o + "]", "all@" + c15PlantHist + ":where=" + in.Plant.Where} {
		if out[k] == nil {
			out[k] = map[string]int{}
		}
		t := out[k]
		t["cases"]++
		if died {
			t["process_died"]++
			continue
		}
		if res.Planted {
			t["peer_bytes_on_disk_after_session1"]++
		}
		if res.Planted && res.S2BeginWritten && (res.BeginHandled >= 1 || (res.Returned && !res.S2Info)) {
			// the receiver got past the victim's FileBegin of session 2 (handled to
			// the end) or answered it by returning
			t["victim_announced_again_and_consumed"]++
		}
		if res.BeginHandled >= 1 {
			t["session2_filebegin_handled"]++
		}
		if res.SawChunk0 {
			t["session2_report_has_chunk0_complete"]++
		}
		if res.S2Done {
			t["session2_victim_filedone"]++
		}
		switch {
		case res.TimedOut:
			t["timed_out"]++
		case res.ReturnedNil:
			t["returned_nil"]++
		default:
			t["returned_error"]++
		}
	}
}

// c15PlantedRequire: the history must have been reached.
func c15PlantedRequire(e *Env, out map[string]map[string]int) {
	for _, o := range []string{"lib", "app"} {
		k := "all@" + c15PlantHist + "[" + o + "]"
		t := out[k]
		e.R.Require(t["cases"] >= 30 && t["peer_bytes_on_disk_after_session1"]+t["process_died"] >= t["cases"]*8/10 && t["victim_announced_again_and_consumed"]+t["process_died"] >= t["cases"]*8/10,
			fmt.Sprintf("planted-sidecar history (peer's bytes on disk after session 1, victim announced again in session 2) not reached under %s options: %v", o, t))
		for _, f := range []string{"sidecar-chunk-size", "sidecar-file-size", "sidecar-total-chunks", "sidecar-file-id", "sidecar-bitmap-len", "sidecar-bitmap-bits"} {
			k := f + "@" + c15PlantHist + "[" + o + "]"
			e.R.Require(out[k]["victim_announced_again_and_consumed"]+out[k]["process_died"] >= 3, fmt.Sprintf("planted-sidecar field class %s under %s options: %v", f, o, out[k]))
		}
		// a sealed sidecar that is the victim's own with chunk 0 marked must be
		// resumed from: the planted bytes are what session 2 decoded
		k = "sidecar-bitmap-bits@" + c15PlantHist + "[" + o + "]"
		e.R.Require(out[k]["session2_report_has_chunk0_complete"]+out[k]["process_died"] >= 1, fmt.Sprintf("no session 2 reported from the planted bitmap under %s options: %v", o, out[k]))
	}
	k := "all@" + c15PlantHist + ":where=fallback"
	e.R.Require(out[k]["victim_announced_again_and_consumed"]+out[k]["process_died"] >= 5, fmt.Sprintf("planted fallback sidecar: %v", out[k]))
}
