//go:build verif

package main

// C16 – clients work against every documented server configuration.
//
// For every server configuration of the grid the real thruserv binary is
// started and the repository's real client functions are used against it:
// clienthttp.CreateSession, app.buildWebSocketURL + wsclient.Dial / ReadLoop /
// Send for both roles, and the roles' own handleEnvelope / currentTurnServers plus
// ice.parseTurnServer on the turn_credentials the client received. Keys of violations come from the configuration / input
// class only.

import (
	"context"
	"crypto/hmac"
	"crypto/sha1"
	"encoding/base64"
	"fmt"
	"io"
	"log/slog"
	"os"
	"os/exec"
	"path/filepath"
	"sort"
	"strconv"
	"strings"
	"sync"
	"syscall"
	"time"

	"github.com/sheerbytes/sheerbytes/internal/app"
	"github.com/sheerbytes/sheerbytes/internal/clienthttp"
	"github.com/sheerbytes/sheerbytes/internal/ice"
	vk "github.com/sheerbytes/sheerbytes/internal/verifkit"
	"github.com/sheerbytes/sheerbytes/internal/wsclient"
	"github.com/sheerbytes/sheerbytes/pkg/protocol"
)

func init() { register("c16", runC16) }

// ---- configuration grid ----------------------------------------------------

type c16Flag struct {
	Name  string
	Small string
	Zero  string
}

// Every documented limit / timeout flag of thruserv (README table and --help).
// "small" values are the smallest that still admit what one host and one
// receiver do in a case: one session, two connects, one message per socket.
var c16Flags = []c16Flag{
	{"max-sessions", "1", "0"},
	{"max-receivers-per-sender", "2", "0"},
	{"max-message-bytes", "512", "0"},
	{"ws-connects-per-min", "20", "0"},
	{"ws-connects-burst", "2", "0"},
	{"ws-msgs-per-sec", "1", "0"},
	{"ws-msgs-burst", "1", "0"},
	{"session-creates-per-min", "1", "0"},
	{"session-creates-burst", "1", "0"},
	{"max-ws-connections", "2", "0"},
	{"ws-idle-timeout", "10s", "0"},
	{"session-timeout", "1m", "0"},
	{"turn-cred-ttl", "1s", "0"}, // only meaningful with TURN issuing on
}

const (
	c16TurnSecret  = "St4tic/Secret+for=coturn"
	c16TurnDefault = "turn:turn.example.test:3478"
)

// c16Turn describes one --turn-server spelling and what the client must parse out of it.
type c16Turn struct {
	Class string   // URL spelling class (finding key component)
	Args  []string // values of --turn-server (one flag occurrence each)
	Want  []c16TurnWant
}

type c16TurnWant struct {
	Addr string
	TLS  bool
}

var c16TurnSpellings = []c16Turn{
	{"turn:", []string{"turn:turn.example.test:3478"}, []c16TurnWant{{"turn.example.test:3478", false}}},
	{"turn://", []string{"turn://turn.example.test:3478"}, []c16TurnWant{{"turn.example.test:3478", false}}},
	{"turns:", []string{"turns:turn.example.test:5349"}, []c16TurnWant{{"turn.example.test:5349", true}}},
	{"turns://", []string{"turns://turn.example.test:5349"}, []c16TurnWant{{"turn.example.test:5349", true}}},
	{"bare-host-port", []string{"turn.example.test:3478"}, []c16TurnWant{{"turn.example.test:3478", false}}},
	{"ipv4-literal", []string{"turn:192.0.2.10:3478"}, []c16TurnWant{{"192.0.2.10:3478", false}}},
	{"ipv6-literal:turn:", []string{"turn:[2001:db8::1]:3478"}, []c16TurnWant{{"[2001:db8::1]:3478", false}}},
	{"ipv6-literal:turns://", []string{"turns://[::1]:5349"}, []c16TurnWant{{"[::1]:5349", true}}},
	{"ipv6-literal:bare", []string{"[2001:db8::7]:3478"}, []c16TurnWant{{"[2001:db8::7]:3478", false}}},
	{"query:transport=tcp", []string{"turn:turn.example.test:3478?transport=tcp"}, []c16TurnWant{{"turn.example.test:3478", false}}},
	{"query:transport=udp", []string{"turn://turn.example.test:3478?transport=udp"}, []c16TurnWant{{"turn.example.test:3478", false}}},
	{"query:servername", []string{"turns:turn.example.test:5349?servername=cert.example.test"}, []c16TurnWant{{"turn.example.test:5349", true}}},
	{"query:transport+servername", []string{"turns://turn.example.test:5349?transport=tcp&servername=cert.example.test"}, []c16TurnWant{{"turn.example.test:5349", true}}},
	{"list:comma", []string{"turn:a.example.test:3478,turns:b.example.test:5349?servername=b.example.test"},
		[]c16TurnWant{{"a.example.test:3478", false}, {"b.example.test:5349", true}}},
	{"list:repeated-flag", []string{"turn://a.example.test:3478", "b.example.test:3479"},
		[]c16TurnWant{{"a.example.test:3478", false}, {"b.example.test:3479", false}}},
}

// peer id classes: two samples each (host / receiver).
type c16IDClass struct {
	Class   string
	Samples [2]string
}

var c16IDClasses = []c16IDClass{
	{"plain-hex", [2]string{"9f3a1c07de", "00b1e2c3d4"}},
	{"at", [2]string{"alice@example", "@lead"}},
	{"colon", [2]string{"a:b", "1700000000:fake"}},
	{"slash", [2]string{"a/b", "/abs/path/"}},
	{"question", [2]string{"who?", "?x=1"}},
	{"hash", [2]string{"a#frag", "#1"}},
	{"percent", [2]string{"100%", "a%41%zz"}},
	{"plus", [2]string{"a+b", "+1+"}},
	{"ampersand", [2]string{"a&b", "&role=sender"}},
	{"equals", [2]string{"a=b", "=="}},
	{"space", [2]string{"a b", " lead trail "}},
	{"non-ascii", [2]string{"zoë-日本", "пир-🚀"}},
	{"userinfo-lookalike", [2]string{"user:pass@host:1", "turn://x@y"}},
	{"all-special", [2]string{"a@b:c/d?e#f%g+h&i=j k", "%2F%40:@/?#[]+&= é"}},
}

// c16Cfg is one server configuration.
type c16Cfg struct {
	Levels   map[string]string `json:"levels"`               // flag -> "small" | "0" (absent = default)
	TurnMode string            `json:"turn_mode"`            // "off" | "on" | "servers-only" | "secret-only"
	Turn     *c16Turn          `json:"-"`                    // spelling when TurnMode is on / servers-only
	Spelling string            `json:"turn_spelling"`        // class of Turn
	Kind     string            `json:"kind"`                 // single | pair | row | turn-matrix
	IDs      []int             `json:"id_classes,omitempty"` // indexes into c16IDClasses (turn-matrix)
	Factors  []string          `json:"factors"`              // non-default factors "name=class", sorted
	// Over replaces the "small" value of a flag for workloads that do more on one
	// server than one host + one receiver (history stage): still the smallest
	// value that admits what the workload does.
	Over map[string]string `json:"small_values_for_history,omitempty"`
}

func (c *c16Cfg) flagValue(name string) (string, bool) {
	lv, ok := c.Levels[name]
	if !ok {
		return "", false
	}
	for _, f := range c16Flags {
		if f.Name == name {
			if lv == "small" {
				if v, ok := c.Over[name]; ok {
					return v, true
				}
				return f.Small, true
			}
			return f.Zero, true
		}
	}
	return "", false
}

func (c *c16Cfg) intValue(name string, def int) int {
	if v, ok := c.flagValue(name); ok {
		n, _ := strconv.Atoi(v)
		return n
	}
	return def
}

func (c *c16Cfg) args(extra ...string) []string {
	var out []string
	names := make([]string, 0, len(c.Levels))
	for n := range c.Levels {
		names = append(names, n)
	}
	sort.Strings(names)
	for _, n := range names {
		v, _ := c.flagValue(n)
		out = append(out, "--"+n, v)
	}
	switch c.TurnMode {
	case "on":
		for _, a := range c.Turn.Args {
			out = append(out, "--turn-server", a)
		}
		out = append(out, "--turn-static-auth-secret", c16TurnSecret)
	case "servers-only":
		for _, a := range c.Turn.Args {
			out = append(out, "--turn-server", a)
		}
	case "secret-only":
		out = append(out, "--turn-static-auth-secret", c16TurnSecret)
	}
	return append(out, extra...)
}

func (c *c16Cfg) finish() {
	c.Factors = c.Factors[:0]
	for n, lv := range c.Levels {
		c.Factors = append(c.Factors, n+"="+lv)
	}
	if c.TurnMode != "off" && c.Kind != "turn-matrix" {
		// turn-cred-ttl singles switch TURN on implicitly; that is not a factor of its own there
		if !(len(c.Levels) == 1 && c.Levels["turn-cred-ttl"] != "" && c.TurnMode == "on" && c.Kind == "single") {
			c.Factors = append(c.Factors, "turn="+c.TurnMode)
		}
	}
	sort.Strings(c.Factors)
	if c.Turn != nil {
		c.Spelling = c.Turn.Class
	}
}

// key prefix of a configuration: "flag:<a>=<class>[+<b>=<class>]" or "flag:defaults".
func (c *c16Cfg) key() string {
	if c.Kind == "turn-matrix" {
		return "turn-url:" + c.Spelling
	}
	if len(c.Factors) == 0 {
		return "flag:defaults"
	}
	return "flag:" + strings.Join(c.Factors, "+")
}

// connectGap is the pause the configured connect bucket demands between the
// host's and the receiver's connect (0 when the burst admits both at once).
func (c *c16Cfg) connectGap() time.Duration {
	perMin := c.intValue("ws-connects-per-min", 30)
	burst := c.intValue("ws-connects-burst", 10)
	if perMin <= 0 || burst >= 2 {
		return 0
	}
	return time.Duration(float64(time.Minute)/float64(perMin)) + 700*time.Millisecond
}

func c16Singles() []c16Cfg {
	def := &c16TurnSpellings[0]
	var out []c16Cfg
	out = append(out, c16Cfg{Levels: map[string]string{}, TurnMode: "off", Kind: "single"})
	for _, f := range c16Flags {
		for _, lv := range []string{"small", "0"} {
			c := c16Cfg{Levels: map[string]string{f.Name: lv}, TurnMode: "off", Kind: "single"}
			if f.Name == "turn-cred-ttl" {
				c.TurnMode, c.Turn = "on", def
			}
			out = append(out, c)
		}
	}
	for _, tm := range []string{"on", "servers-only", "secret-only"} {
		c := c16Cfg{Levels: map[string]string{}, TurnMode: tm, Kind: "single"}
		if tm != "secret-only" {
			c.Turn = def
		}
		out = append(out, c)
	}
	for i := range out {
		out[i].finish()
	}
	return out
}

// c16Pairs: every two factors at every combination of their non-default levels, all others default.
func c16Pairs() []c16Cfg {
	def := &c16TurnSpellings[0]
	type fl struct{ name, lv string }
	var factors [][]fl
	for _, f := range c16Flags {
		factors = append(factors, []fl{{f.Name, "small"}, {f.Name, "0"}})
	}
	factors = append(factors, []fl{{"turn", "on"}, {"turn", "servers-only"}, {"turn", "secret-only"}})
	var out []c16Cfg
	for i := 0; i < len(factors); i++ {
		for j := i + 1; j < len(factors); j++ {
			for _, a := range factors[i] {
				for _, b := range factors[j] {
					c := c16Cfg{Levels: map[string]string{}, TurnMode: "off", Kind: "pair"}
					for _, x := range []fl{a, b} {
						if x.name == "turn" {
							c.TurnMode = x.lv
							if x.lv != "secret-only" {
								c.Turn = def
							}
						} else {
							c.Levels[x.name] = x.lv
						}
					}
					if _, ok := c.Levels["turn-cred-ttl"]; ok && c.TurnMode == "off" {
						c.TurnMode, c.Turn = "on", def // the TTL is only observable with issuing on
					}
					c.finish()
					out = append(out, c)
				}
			}
		}
	}
	return out
}

// c16Rows: seeded rows that set every factor at once (default/small/0 mixed),
// greedily chosen so that all level pairs of all factor pairs are covered.
func c16Rows(r *vk.Rng) []c16Cfg {
	def := &c16TurnSpellings[0]
	nf := len(c16Flags) + 1
	levels := func(f int) []string {
		if f == len(c16Flags) {
			return []string{"off", "on", "servers-only", "secret-only"}
		}
		return []string{"default", "small", "0"}
	}
	type pr struct{ f1, l1, f2, l2 int }
	uncovered := map[pr]bool{}
	for a := 0; a < nf; a++ {
		for b := a + 1; b < nf; b++ {
			for la := range levels(a) {
				for lb := range levels(b) {
					uncovered[pr{a, la, b, lb}] = true
				}
			}
		}
	}
	var out []c16Cfg
	for len(uncovered) > 0 && len(out) < 60 {
		best, bestGain := []int(nil), -1
		for cand := 0; cand < 40; cand++ {
			row := make([]int, nf)
			for f := range row {
				row[f] = r.Intn(len(levels(f)))
			}
			gain := 0
			for a := 0; a < nf; a++ {
				for b := a + 1; b < nf; b++ {
					if uncovered[pr{a, row[a], b, row[b]}] {
						gain++
					}
				}
			}
			if gain > bestGain {
				best, bestGain = row, gain
			}
		}
		if bestGain <= 0 {
			break
		}
		for a := 0; a < nf; a++ {
			for b := a + 1; b < nf; b++ {
				delete(uncovered, pr{a, best[a], b, best[b]})
			}
		}
		c := c16Cfg{Levels: map[string]string{}, TurnMode: levels(nf - 1)[best[nf-1]], Kind: "row"}
		for f := 0; f < len(c16Flags); f++ {
			if lv := levels(f)[best[f]]; lv != "default" {
				c.Levels[c16Flags[f].Name] = lv
			}
		}
		if c.TurnMode == "on" || c.TurnMode == "servers-only" {
			c.Turn = def
		}
		c.finish()
		out = append(out, c)
	}
	return out
}

func c16TurnMatrix() []c16Cfg {
	var out []c16Cfg
	for i := range c16TurnSpellings {
		c := c16Cfg{Levels: map[string]string{}, TurnMode: "on", Turn: &c16TurnSpellings[i], Kind: "turn-matrix"}
		for k := range c16IDClasses {
			c.IDs = append(c.IDs, k)
		}
		c.finish()
		out = append(out, c)
	}
	return out
}

// ---- one client role over the real client code --------------------------------

type c16Role struct {
	role   string
	peerID string
	conn   *wsclient.Conn
	cancel context.CancelFunc

	mu      sync.Mutex
	cond    *sync.Cond
	envs    []protocol.Envelope
	ended   bool
	readErr error
}

var c16Logger = slog.New(slog.NewTextHandler(io.Discard, nil))

// c16Connect uses the real buildWebSocketURL + wsclient.Dial + ReadLoop.
func c16Connect(serverURL, joinCode, peerID, role string, maxRecv int) (*c16Role, string, time.Duration, error) {
	wsURL, err := app.VerifBuildWebSocketURL(serverURL, joinCode, peerID, role, maxRecv)
	if err != nil {
		return nil, "", 0, fmt.Errorf("buildWebSocketURL: %w", err)
	}
	ctx, cancel := context.WithCancel(context.Background())
	t0 := time.Now()
	conn, err := wsclient.Dial(ctx, wsURL, c16Logger)
	el := time.Since(t0)
	if err != nil {
		cancel()
		return nil, wsURL, el, err
	}
	cr := &c16Role{role: role, peerID: peerID, conn: conn, cancel: cancel}
	cr.cond = sync.NewCond(&cr.mu)
	go func() {
		err := conn.ReadLoop(ctx, func(env protocol.Envelope) {
			cr.mu.Lock()
			cr.envs = append(cr.envs, env)
			cr.cond.Broadcast()
			cr.mu.Unlock()
		})
		cr.mu.Lock()
		cr.ended, cr.readErr = true, err
		cr.cond.Broadcast()
		cr.mu.Unlock()
	}()
	return cr, wsURL, el, nil
}

// wait returns (envelope, "ok") | (_, "ended") connection ended first | (_, "watchdog").
func (cr *c16Role) wait(pred func(protocol.Envelope) bool, watchdog time.Duration) (protocol.Envelope, string) {
	deadline := time.Now().Add(watchdog)
	stop := make(chan struct{})
	defer close(stop)
	go func() {
		select {
		case <-time.After(watchdog + 20*time.Millisecond):
			cr.mu.Lock()
			cr.cond.Broadcast()
			cr.mu.Unlock()
		case <-stop:
		}
	}()
	cr.mu.Lock()
	defer cr.mu.Unlock()
	next := 0
	for {
		for ; next < len(cr.envs); next++ {
			if pred(cr.envs[next]) {
				return cr.envs[next], "ok"
			}
		}
		if cr.ended {
			return protocol.Envelope{}, "ended"
		}
		if !time.Now().Before(deadline) {
			return protocol.Envelope{}, "watchdog"
		}
		cr.cond.Wait()
	}
}

func (cr *c16Role) close() {
	if cr == nil {
		return
	}
	cr.cancel()
	done := make(chan struct{})
	go func() { _ = cr.conn.Close(); close(done) }()
	select {
	case <-done:
	case <-time.After(5 * time.Second):
	}
}

func c16TypeIs(t string) func(protocol.Envelope) bool {
	return func(e protocol.Envelope) bool { return e.Type == t }
}

// ---- the run -----------------------------------------------------------------

type c16Run struct {
	e  *Env
	mu sync.Mutex
	// (factor, step) pairs that failed in single-factor configurations
	singleFail map[string]bool
	funcs      map[string]int // client function -> calls with a verdict
	perCfg     []map[string]any
	spellSeen  map[string]int
	appSeen    map[string]int // "<spelling>|<role>" -> turn_credentials envelopes handed to the application layer of that role
	idSeen     map[string]int
	turnParsed int
	cfgStarted int
	startFail  int
	// history stage (c16hist.go)
	histStarted int
	histRan     map[string]int // order -> servers started for it
	histDone    map[string]int // order -> servers on which every operation of the order had a positive verdict
	perHist     []map[string]any
	// concurrent stage (c16conc.go)
	concStarted, concDone, concRounds, concOverlap int
	concN                                          map[int]int // clients released together -> servers
	perConc                                        []map[string]any
	// refused-requests stage (c16refuse.go)
	refStarted, refDone int
	// violations of multi-factor configurations waiting for the single-factor verdicts of their stage
	deferMulti bool
	deferred   []func()
	perRef              []map[string]any
}

const c16Watchdog = 20 * time.Second

func (rn *c16Run) fn(name string) {
	rn.mu.Lock()
	rn.funcs[name]++
	rn.mu.Unlock()
}

// violate attributes a failing step of a multi-factor configuration to a single
// factor when that factor alone already fails the same step in this run.
func (rn *c16Run) violate(c *c16Cfg, step, what string, detail map[string]any) {
	if c.Kind == "pair" || c.Kind == "row" {
		rn.mu.Lock()
		if rn.deferMulti {
			// single- and multi-factor configurations share a worker pool in this stage: the key is
			// decided once every single-factor configuration has been judged (flushDeferred)
			rn.deferred = append(rn.deferred, func() { rn.violateNow(c, step, what, detail) })
			rn.mu.Unlock()
			return
		}
		rn.mu.Unlock()
	}
	rn.violateNow(c, step, what, detail)
}

func (rn *c16Run) flushDeferred() {
	rn.mu.Lock()
	d := rn.deferred
	rn.deferred, rn.deferMulti = nil, false
	rn.mu.Unlock()
	for _, f := range d {
		f()
	}
}

func (rn *c16Run) violateNow(c *c16Cfg, step, what string, detail map[string]any) {
	key := c.key() + ":" + step
	if c.Kind == "single" {
		rn.mu.Lock()
		for _, f := range c.Factors {
			rn.singleFail[f+":"+step] = true
		}
		rn.mu.Unlock()
	} else if c.Kind == "pair" || c.Kind == "row" {
		rn.mu.Lock()
		for _, f := range c.Factors {
			if rn.singleFail[f+":"+step] {
				key = "flag:" + f + ":" + step
				break
			}
		}
		rn.mu.Unlock()
	}
	detail["config_key"] = c.key()
	rn.e.R.Violate(key, what, map[string]any{"config": c, "server_args": c.args(), "step": step}, detail)
}

// judgeFailure turns a failed wait into violation / inconclusive.
func (rn *c16Run) judgeWait(c *c16Cfg, step, how, what string, detail map[string]any, sinceConnect time.Duration) {
	switch how {
	case "ended":
		if v, ok := c.flagValue("ws-idle-timeout"); ok && v != "0" {
			if d, _ := time.ParseDuration(v); d > 0 && sinceConnect > d*7/10 {
				rn.e.R.Inconcl(fmt.Sprintf("%s %s: connection ended after %v with idle timeout %v (slow machine?)", c.key(), step, sinceConnect, d))
				return
			}
		}
		rn.violate(c, step, what+" (the server ended the connection)", detail)
	case "watchdog":
		rn.e.R.Inconcl(fmt.Sprintf("%s %s: watchdog (%v) expired: %s", c.key(), step, c16Watchdog, what))
	}
}

type c16Sess struct {
	joinCode  string
	sessionID string
	maxRecv   int
	createOK  bool
}

// createSession runs the real clienthttp.CreateSession; on failure it falls back
// to a raw POST so that the connect steps are still exercised.
func (rn *c16Run) createSession(c *c16Cfg, srv *vk.Serv, obs map[string]any) (c16Sess, bool) {
	e := rn.e
	s := c16Sess{maxRecv: 4}
	if lim := c.intValue("max-receivers-per-sender", 10); lim > 0 && lim < s.maxRecv {
		s.maxRecv = lim
	}
	ttl := 24 * time.Hour
	if v, ok := c.flagValue("session-timeout"); ok {
		ttl, _ = time.ParseDuration(v)
	}
	t0 := time.Now()
	sid, code, exp, err := clienthttp.CreateSession(context.Background(), srv.URL, s.maxRecv)
	el := time.Since(t0)
	rn.fn("clienthttp.CreateSession")
	if err == nil {
		e.R.Eval()
		e.R.Distinct(c.key() + "|CreateSession")
		obs["create_session"] = map[string]any{"ok": true, "expires_in_s": int(time.Until(exp).Seconds())}
		if sid == "" || code == "" {
			rn.violate(c, "create-session", "CreateSession returned no error but an empty session id / join code", map[string]any{"session_id": sid, "join_code": code})
			return s, false
		}
		if ttl > 0 {
			// diagnostic only: the lifetime the client decoded vs the configured one
			d := exp.Sub(t0)
			if d < ttl-2*time.Second || d > ttl+el+2*time.Second {
				e.R.Count("diag_expires_at_off")
			}
		}
		s.sessionID, s.joinCode, s.createOK = sid, code, true
		return s, true
	}
	obs["create_session"] = map[string]any{"ok": false, "error": err.Error(), "elapsed_ms": el.Milliseconds()}
	if el > 4*time.Second || !srv.Alive() {
		e.R.Inconcl(fmt.Sprintf("%s create-session: failed after %v (timeout-like) or server gone: %v", c.key(), el, err))
		return s, false
	}
	raw, rerr := vk.CreateSessionRaw(srv.URL, fmt.Sprintf("max_receivers=%d", s.maxRecv))
	rn.violate(c, "create-session",
		fmt.Sprintf("clienthttp.CreateSession failed against thruserv %s: %v", strings.Join(c.args(), " "), err),
		map[string]any{"client_error": err.Error(), "raw_post_status": raw.Status, "raw_post_body": raw.Body, "raw_post_err": fmt.Sprint(rerr)})
	if rerr != nil || raw.Status != 201 || raw.JoinCode == "" {
		e.R.Count("fallback_raw_create_refused")
		return s, false
	}
	e.R.Count("fallback_raw_create_used")
	s.sessionID, s.joinCode = raw.SessionID, raw.JoinCode
	return s, true
}

// connectRole dials one role and waits for its peer_list. Returns nil when the step has no verdict / failed.
func (rn *c16Run) connectRole(c *c16Cfg, srv *vk.Serv, s c16Sess, peerID, role string, idClass string, obs map[string]any) (*c16Role, time.Time) {
	step := "connect-host"
	maxRecv := s.maxRecv
	if role == "receiver" {
		step, maxRecv = "connect-receiver", 0
	}
	if idClass != "" && idClass != "plain-hex" {
		step += ":peer-id:" + idClass
	}
	t0 := time.Now()
	cr, wsURL, el, err := c16Connect(srv.URL, s.joinCode, peerID, role, maxRecv)
	rn.fn("app.buildWebSocketURL")
	rn.fn("wsclient.Dial")
	if err != nil {
		obs[step] = map[string]any{"ok": false, "error": err.Error(), "url": wsURL}
		if el > 4*time.Second || !srv.Alive() {
			rn.e.R.Inconcl(fmt.Sprintf("%s %s: dial failed after %v (timeout-like) or server gone: %v", c.key(), step, el, err))
			return nil, t0
		}
		rn.violate(c, step, fmt.Sprintf("%s could not connect with the URL the client builds: %v", role, err),
			map[string]any{"url": wsURL, "peer_id": peerID, "error": err.Error()})
		return nil, t0
	}
	env, how := cr.wait(c16TypeIs(protocol.TypePeerList), c16Watchdog)
	rn.fn("wsclient.ReadLoop")
	if how != "ok" {
		rn.judgeWait(c, step, how, role+" connected but never received its peer_list", map[string]any{"url": wsURL, "peer_id": peerID}, time.Since(t0))
		cr.close()
		return nil, t0
	}
	var pl protocol.PeerList
	_ = env.DecodePayload(&pl)
	found := false
	for _, p := range pl.Peers {
		if p.PeerID == peerID && p.Role == role {
			found = true
		}
	}
	if !found {
		rn.violate(c, step, fmt.Sprintf("%s connected but the server registered a different peer id / role than the client asked for", role),
			map[string]any{"url": wsURL, "peer_id": peerID, "peer_list": pl})
		cr.close()
		return nil, t0
	}
	rn.e.R.Eval()
	rn.e.R.Distinct(c.key() + "|Dial:" + role + "|id:" + idClass)
	obs[step] = map[string]any{"ok": true}
	return cr, t0
}

// exchange sends one addressed envelope each way with the real Conn.Send.
func (rn *c16Run) exchange(c *c16Cfg, host, recv *c16Role, tConn time.Time, obs map[string]any) {
	host.wait(func(e protocol.Envelope) bool {
		if e.Type != protocol.TypePeerJoined {
			return false
		}
		var pj protocol.PeerJoined
		_ = e.DecodePayload(&pj)
		return pj.Peer.PeerID == recv.peerID
	}, c16Watchdog)
	for _, d := range []struct {
		from, to *c16Role
		typ      string
	}{{host, recv, protocol.TypeManifestOffer}, {recv, host, protocol.TypeManifestAccept}} {
		id := protocol.NewMsgID()
		env, _ := protocol.NewEnvelope(d.typ, id, map[string]any{"verif": "c16", "n": 1})
		env.To = d.to.peerID
		if err := d.from.conn.Send(env); err != nil {
			rn.violate(c, "exchange", "wsclient.Conn.Send failed on a connection that had just been established", map[string]any{"error": err.Error()})
			return
		}
		rn.fn("wsclient.Conn.Send")
		got, how := d.to.wait(func(e protocol.Envelope) bool { return e.MsgID == id }, c16Watchdog)
		if how != "ok" {
			rn.judgeWait(c, "exchange", how, fmt.Sprintf("envelope from %s never reached %s", d.from.role, d.to.role), map[string]any{}, time.Since(tConn))
			return
		}
		if got.From != d.from.peerID {
			rn.violate(c, "exchange", "relayed envelope carries a different sender id than the one the client connected with",
				map[string]any{"from": got.From, "want": d.from.peerID})
			return
		}
	}
	rn.e.R.Eval()
	rn.e.R.Distinct(c.key() + "|exchange")
	obs["exchange"] = "ok"
}

// checkTurn parses the turn_credentials a role received with the real parser and compares with an independent computation.
func (rn *c16Run) checkTurn(c *c16Cfg, cr *c16Role, idClass string, tBefore time.Time, obs map[string]any) {
	rn.checkTurnP(c, "", cr, idClass, tBefore, obs)
}

// checkTurnP: prefix is put in front of the step part of keys ("history:<order>:" in the history stage).
func (rn *c16Run) checkTurnP(c *c16Cfg, prefix string, cr *c16Role, idClass string, tBefore time.Time, obs map[string]any) {
	rn.checkTurnK(c, prefix, "", cr, idClass, tBefore, obs, nil)
}

// checkTurnK: like checkTurnP; fixedStep (when not empty) replaces the step part of the
// key that is otherwise derived from the peer-id class (the concurrent stage names the
// schedule class, not the id class); others (may be nil) maps the peer ids of the other
// clients that were connecting to the same server to a description, so that a mismatch
// can say whose credentials were received. Returns true when every minted URL was
// checked with a positive verdict (or TURN issuing is off).
func (rn *c16Run) checkTurnK(c *c16Cfg, prefix, fixedStep string, cr *c16Role, idClass string, tBefore time.Time, obs map[string]any, others map[string]string) bool {
	e := rn.e
	ttl := time.Hour
	if v, ok := c.flagValue("turn-cred-ttl"); ok {
		if d, _ := time.ParseDuration(v); d > 0 {
			ttl = d
		}
	}
	issuing := c.TurnMode == "on"
	if !issuing {
		// nothing to parse; make sure none is sent (diagnostic) and return
		return true
	}
	env, how := cr.wait(c16TypeIs(protocol.TypeTurnCredentials), c16Watchdog)
	tAfter := time.Now()
	keyStep := "turn-credentials"
	if c.Kind == "turn-matrix" {
		keyStep = "peer-id:" + idClass
	} else if idClass != "plain-hex" {
		keyStep += ":peer-id:" + idClass
	}
	if fixedStep != "" {
		keyStep = fixedStep
	}
	keyStep = prefix + keyStep
	allOK := true
	if how != "ok" {
		if how == "ended" {
			rn.violate(c, keyStep, "TURN issuing is configured but the "+cr.role+" received no turn_credentials before the connection ended", map[string]any{"peer_id": cr.peerID})
		} else {
			e.R.Inconcl(fmt.Sprintf("%s %s: no turn_credentials within the watchdog", c.key(), keyStep))
		}
		return false
	}
	var creds protocol.TurnCredentials
	if err := env.DecodePayload(&creds); err != nil {
		rn.violate(c, keyStep, "turn_credentials payload does not decode with the client's type", map[string]any{"error": err.Error()})
		return false
	}
	if len(creds.Servers) != len(c.Turn.Want) {
		rn.violate(c, keyStep, fmt.Sprintf("server was given %d TURN URLs but minted %d", len(c.Turn.Want), len(creds.Servers)),
			map[string]any{"servers": creds.Servers, "configured": c.Turn.Args})
		return false
	}
	// the application layer of the role: the received envelope goes through the real
	// handleEnvelope of a fresh SnapshotSender / snapshotReceiver; judged is the relay list
	// that role then puts into ice.ProberConfig.TurnServers (currentTurnServers)
	reached := app.VerifC16RelaysReachingProber(cr.role, env, c16Logger)
	rn.fn("app.handleEnvelope(turn_credentials)+currentTurnServers:" + cr.role)
	rn.mu.Lock()
	rn.appSeen[c.Turn.Class+"|"+cr.role]++
	rn.mu.Unlock()
	if len(reached) != len(creds.Servers) {
		rn.violate(c, keyStep, fmt.Sprintf("the server minted %d TURN relay URLs for the %s but %d reach the prober configuration of that role (handleEnvelope -> currentTurnServers)", len(creds.Servers), cr.role, len(reached)),
			map[string]any{"minted": creds.Servers, "reaching_prober_config": reached, "configured": c.Turn.Args, "peer_id": cr.peerID, "role": cr.role})
		return false
	}
	e.R.Count("turn_credentials_through_app_layer:" + cr.role)
	usedWant := make([]bool, len(c.Turn.Want))
	for i, raw := range reached {
		p, err := ice.VerifParseTurnServer(raw)
		// the relay list is a set: an entry is compared with the configured relay at its own
		// position when it matches that one, otherwise with any configured relay not yet matched
		wi := i
		if err == nil && (usedWant[i] || p.Addr != c.Turn.Want[i].Addr || p.UseTLS != c.Turn.Want[i].TLS) {
			for k := range c.Turn.Want {
				if !usedWant[k] && p.Addr == c.Turn.Want[k].Addr && p.UseTLS == c.Turn.Want[k].TLS {
					wi = k
					break
				}
			}
		}
		usedWant[wi] = true
		want := c.Turn.Want[wi]
		rn.fn("ice.parseTurnServer")
		rn.mu.Lock()
		rn.turnParsed++
		rn.spellSeen[c.Turn.Class]++
		rn.idSeen[idClass]++
		rn.mu.Unlock()
		det := map[string]any{"minted_url": raw, "minted_list": creds.Servers, "configured": c.Turn.Args, "peer_id": cr.peerID, "role": cr.role,
			"parsed": p, "want_addr": want.Addr, "want_tls": want.TLS}
		if err != nil {
			det["error"] = err.Error()
			rn.violate(c, keyStep, "the client's parseTurnServer rejects the URL the server minted", det)
			allOK = false
			continue
		}
		var bad []string
		unixStr, rest, found := strings.Cut(p.Username, ":")
		unix, perr := strconv.ParseInt(unixStr, 10, 64)
		lo, hi := tBefore.Add(ttl).Unix()-1, tAfter.Add(ttl).Unix()+1
		if !found || perr != nil || rest != cr.peerID {
			bad = append(bad, fmt.Sprintf("user %q is not <unix>:%q", p.Username, cr.peerID))
			if who, ok := others[rest]; ok && found {
				bad = append(bad, "the user names "+who+", which was connecting to the same server at the same time")
				det["credentials_of"] = who
			}
		} else if unix < lo || unix > hi {
			bad = append(bad, fmt.Sprintf("expiry %d outside the issuing window [%d,%d] (ttl %v)", unix, lo, hi, ttl))
		}
		mac := hmac.New(sha1.New, []byte(c16TurnSecret))
		mac.Write([]byte(p.Username))
		wantPw := base64.StdEncoding.EncodeToString(mac.Sum(nil))
		if p.Password != wantPw {
			bad = append(bad, fmt.Sprintf("secret %q != base64(HMAC-SHA1(static secret, parsed user)) %q", p.Password, wantPw))
		}
		if found && perr == nil {
			// the secret must also be the HMAC of the user the server intended
			mac2 := hmac.New(sha1.New, []byte(c16TurnSecret))
			mac2.Write([]byte(fmt.Sprintf("%d:%s", unix, cr.peerID)))
			if w2 := base64.StdEncoding.EncodeToString(mac2.Sum(nil)); p.Password != w2 && p.Password == wantPw {
				bad = append(bad, "secret matches the parsed user but not <unix>:<peer id>")
			}
		}
		if p.Addr != want.Addr {
			bad = append(bad, fmt.Sprintf("endpoint %q != configured %q", p.Addr, want.Addr))
		}
		if p.UseTLS != want.TLS {
			bad = append(bad, fmt.Sprintf("TLS flag %v but scheme-turns is %v", p.UseTLS, want.TLS))
		}
		if len(bad) > 0 {
			det["mismatch"] = bad
			rn.violate(c, keyStep, "client-side parse of the minted TURN credentials differs from what the server intended: "+strings.Join(bad, "; "), det)
			allOK = false
			continue
		}
		e.R.Eval()
		e.R.Distinct(c.key() + "|" + prefix + "parseTurnServer|" + c.Turn.Class + "|id:" + idClass + "|" + cr.role)
		e.R.Count("turn_entries_checked")
	}
	if obs != nil {
		obs["turn:"+cr.role] = "checked"
	}
	return allOK
}

// c16RandID builds a seeded id of class k: hex runs joined/wrapped by the class's own special characters.
func c16RandID(r *vk.Rng, k int) string {
	if k == 0 {
		return c16HexID(r)
	}
	var specials []rune
	for _, smp := range c16IDClasses[k].Samples {
		for _, ch := range smp {
			if !(ch >= '0' && ch <= '9' || ch >= 'a' && ch <= 'z' || ch >= 'A' && ch <= 'Z') {
				specials = append(specials, ch)
			}
		}
	}
	var sb strings.Builder
	n := 1 + r.Intn(4)
	for i := 0; i < n; i++ {
		if r.Intn(3) > 0 || i > 0 {
			sb.WriteRune(specials[r.Intn(len(specials))])
		}
		sb.WriteString(fmt.Sprintf("%05x", r.U64()&0xfffff)[:1+r.Intn(4)])
	}
	if r.Bool() {
		sb.WriteRune(specials[r.Intn(len(specials))])
	}
	return sb.String()
}

func c16HexID(r *vk.Rng) string { return fmt.Sprintf("%010x", r.U64()&0xffffffffff) }

// runCfg runs one configuration: start the server, run the session scenario(s), stop the server.
func (rn *c16Run) runCfg(idx int, c *c16Cfg, r *vk.Rng, thruHost bool) {
	e := rn.e
	obs := map[string]any{"config": c.key(), "kind": c.Kind, "args": strings.Join(c.args(), " ")}
	extra := []string{}
	if c.Kind == "turn-matrix" {
		// many sessions / sockets on one server: switch the rate limits off for the matrix
		extra = []string{"--ws-connects-per-min", "0", "--session-creates-per-min", "0", "--max-receivers-per-sender", "0"}
	}
	logPath := filepath.Join(e.Work, fmt.Sprintf("serv-%04d.log", idx))
	srv, err := vk.StartServ(filepath.Join(e.BinDir, "thruserv"), c.args(extra...), logPath)
	if err != nil {
		rn.mu.Lock()
		rn.startFail++
		rn.mu.Unlock()
		e.R.Inconcl(fmt.Sprintf("%s: %v", c.key(), err))
		return
	}
	defer srv.Stop()
	rn.mu.Lock()
	rn.cfgStarted++
	rn.mu.Unlock()
	e.R.Count("configs_started:" + c.Kind)

	type scen struct {
		idClass string
		ids     [2]string
	}
	var scens []scen
	if c.Kind == "turn-matrix" {
		for _, k := range c.IDs {
			scens = append(scens, scen{c16IDClasses[k].Class, c16IDClasses[k].Samples})
			for x := 0; x < e.Pick(1, 4); x++ {
				scens = append(scens, scen{c16IDClasses[k].Class, [2]string{c16RandID(r, k), c16RandID(r, k)}})
			}
		}
	} else {
		scens = append(scens, scen{"plain-hex", [2]string{c16HexID(r), c16HexID(r)}})
	}
	createFailed := false
	for _, sc := range scens {
		s, ok := rn.createSession(c, srv, obs)
		if !s.createOK {
			createFailed = true
		}
		if !ok {
			continue
		}
		tBefore := time.Now()
		host, tHost := rn.connectRole(c, srv, s, sc.ids[0], "sender", sc.idClass, obs)
		if host != nil {
			rn.checkTurn(c, host, sc.idClass, tBefore, obs)
		}
		if gap := c.connectGap(); gap > 0 {
			time.Sleep(gap)
			e.R.Count("paced_connects")
		}
		tBefore2 := time.Now()
		recv, _ := rn.connectRole(c, srv, s, sc.ids[1], "receiver", sc.idClass, obs)
		if recv != nil {
			rn.checkTurn(c, recv, sc.idClass, tBefore2, obs)
		}
		if host != nil && recv != nil {
			if _, idle := c.flagValue("ws-idle-timeout"); idle && c.connectGap() > 0 {
				// the paced wait may have used up a small idle timeout of the host socket: not judged
				e.R.Count("exchange_skipped_paced_idle")
			} else {
				rn.exchange(c, host, recv, tHost, obs)
			}
		}
		recv.close()
		host.close()
	}
	if thruHost && c.Kind == "single" {
		if createFailed {
			e.R.Count("thru_host_skipped_create_session_already_refuted")
		} else {
			rn.thruHost(c, idx, obs)
		}
	}
	obs["server_alive_at_end"] = srv.Alive()
	if !srv.Alive() {
		if info, outside := rn.servGone(c, "server-died", srv); !outside {
			rn.violate(c, "server-died", "thruserv exited while the clients were using it", map[string]any{"log_tail": srv.LogTail(1500), "exit": info})
		}
	}
	rn.mu.Lock()
	if len(rn.perCfg) < 400 {
		rn.perCfg = append(rn.perCfg, obs)
	}
	rn.mu.Unlock()
	e.R.Sample(obs)
}

// thruHost starts the real `thru host` against the configuration and requires the join code to appear.
func (rn *c16Run) thruHost(c *c16Cfg, idx int, obs map[string]any) {
	e := rn.e
	// a fresh server: the library scenario above may have used up a small session-create budget
	srv, err := vk.StartServ(filepath.Join(e.BinDir, "thruserv"), c.args(), filepath.Join(e.Work, fmt.Sprintf("serv-%04d-thruhost.log", idx)))
	if err != nil {
		e.R.Inconcl(fmt.Sprintf("%s thru-host: %v", c.key(), err))
		return
	}
	defer srv.Stop()
	dir := filepath.Join(e.Work, fmt.Sprintf("share-%04d", idx))
	_ = os.MkdirAll(dir, 0755)
	_ = os.WriteFile(filepath.Join(dir, "f.txt"), []byte("c16\n"), 0644)
	outPath := filepath.Join(e.Work, fmt.Sprintf("thru-host-%04d.log", idx))
	of, err := os.Create(outPath)
	if err != nil {
		e.R.Inconcl("thru host: " + err.Error())
		return
	}
	defer of.Close()
	args := []string{"host", dir, "--server-url", srv.URL, "--stun-server", "127.0.0.1:9"}
	if lim := c.intValue("max-receivers-per-sender", 10); lim > 0 && lim < 4 {
		args = append(args, "--max-receivers", strconv.Itoa(lim))
	}
	cmd := exec.Command(filepath.Join(e.BinDir, "thru"), args...)
	cmd.Stdout, cmd.Stderr = of, of
	cmd.Env = append(os.Environ(), "VERIFHOOK=", "NO_COLOR=1", "TERM=dumb")
	cmd.SysProcAttr = &syscall.SysProcAttr{Pdeathsig: syscall.SIGKILL}
	if err := cmd.Start(); err != nil {
		e.R.Inconcl("thru host start: " + err.Error())
		return
	}
	exited := make(chan struct{})
	go func() { _ = cmd.Wait(); close(exited) }()
	hasCode := func() bool {
		data, _ := os.ReadFile(outPath)
		return strings.Contains(string(data), "Join Code: ")
	}
	deadline := time.Now().Add(40 * time.Second)
	verdict := "watchdog"
	for time.Now().Before(deadline) && verdict == "watchdog" {
		if hasCode() {
			verdict = "ok"
			break
		}
		select {
		case <-exited:
			if hasCode() {
				verdict = "ok"
			} else {
				verdict = "exited"
			}
		case <-time.After(50 * time.Millisecond):
		}
	}
	select {
	case <-exited:
	default:
		_ = cmd.Process.Signal(syscall.SIGTERM) // by PID
		select {
		case <-exited:
		case <-time.After(3 * time.Second):
			_ = cmd.Process.Kill()
			<-exited
		}
	}
	rn.fn("thru host (binary)")
	data, _ := os.ReadFile(outPath)
	tail := string(data)
	if len(tail) > 1200 {
		tail = tail[len(tail)-1200:]
	}
	switch verdict {
	case "ok":
		e.R.Eval()
		e.R.Distinct(c.key() + "|thru-host")
		e.R.Count("thru_host_join_code_seen")
		obs["thru_host"] = "join code printed"
	case "exited":
		rn.violate(c, "thru-host", "the real `thru host` exited without printing a join code", map[string]any{"args": args, "output_tail": tail})
	default:
		e.R.Inconcl(fmt.Sprintf("%s thru-host: no join code within 40 s (watchdog)", c.key()))
	}
}

func runC16(e *Env) {
	r := vk.NewRng(e.Seed ^ vk.HashStr("c16"+e.Tier))
	rn := &c16Run{e: e, singleFail: map[string]bool{}, funcs: map[string]int{}, spellSeen: map[string]int{}, appSeen: map[string]int{}, idSeen: map[string]int{},
		histRan: map[string]int{}, histDone: map[string]int{}, concN: map[int]int{}}
	e.R.Rule = "one case = the real thruserv started with one configuration (each documented limit/timeout flag at default|small|0 one at a time, TURN issuing on/off/half-configured; thorough adds every pair of factors at every level pair plus seeded all-factor rows) and the real client functions run against it (clienthttp.CreateSession, app.buildWebSocketURL + wsclient.Dial/ReadLoop/Send as host and as receiver, the real handleEnvelope + currentTurnServers of both client roles on the received turn_credentials and ice.parseTurnServer on what reaches the prober configuration, over --turn-server spellings x peer-id character classes); idle-hold observation: per --ws-idle-timeout 0 / 2m / default one server on which a host alone and a host + receiver wait 76 s without sending, then must still be joinable / able to exchange envelopes; history stage: per configuration one more server per order, an order being a sequence of creates / host connects / receiver connects / envelopes / session ends over k=2..3 sessions that share the server (all created first; interleaved; late receiver joining an old session after newer ones exist; receivers before hosts; an earlier session ended; seeded random interleavings), small limits sized to exactly what the order does; every call must succeed and land in its own session; concurrent stage: per configuration (and per TURN URL spelling) rounds in which 8-16 clients of both roles over 2-3 sessions are released together from a start barrier, each judged by the same per-client oracle (own connect, own session, credentials minted for its own peer id); refused-requests stage: per configuration one server whose history contains requests of every refusal reason thruserv has (/ws: plain GET, wrong version, missing key, POST, unknown join code, missing/bad parameters, max_receivers above the limit, receiver / socket / connect-bucket limit reached; /session: GET, bad max_receivers, above the limit, session / create-bucket limit reached) between documented-valid creates, connects and envelopes, limits sized to the valid operations only; a case counts when a client function returned a verdict against a started server; distinct by (flag vector, function/role, URL spelling, peer-id class, history order, operation)"
	if _, err := os.Stat(filepath.Join(e.BinDir, "thruserv")); err != nil {
		e.R.Inconcl("thruserv binary missing in " + e.BinDir)
		e.R.Require(false, "thruserv binary not built")
		return
	}
	thruHost := e.Thorough()
	if _, err := os.Stat(filepath.Join(e.BinDir, "thru")); err != nil {
		thruHost = false
	}

	singles := c16Singles()
	matrix := c16TurnMatrix()
	var multi []c16Cfg
	pairs := c16Pairs()
	if e.Thorough() {
		multi = append(multi, pairs...)
		multi = append(multi, c16Rows(r.Fork())...)
	} else {
		// quick: a seeded sample of the two-factor configurations on top of the one-factor grid
		pr := r.Fork()
		for k := 0; k < 40; k++ {
			multi = append(multi, pairs[pr.Intn(len(pairs))])
		}
	}
	seeds := make([]uint64, len(singles)+len(matrix)+len(multi))
	for i := range seeds {
		seeds[i] = r.U64()
	}
	workers := 8
	// debugging aid: VERIF_C16_ONLY=grid|history|concurrent|refused runs a subset of the stages; such a run never counts as held
	only := os.Getenv("VERIF_C16_ONLY")
	stageOn := func(name string) bool { return only == "" || strings.Contains(only, name) }
	if only != "" {
		e.R.Require(false, "VERIF_C16_ONLY set: a subset of the stages ran")
	}
	// idle-hold observation (c16idle.go): started first, judged by its own goroutines when the hold
	// has elapsed, waited for last - the other stages run during the hold
	var idle *c16IdleStage
	idleRng := vk.NewRng(e.Seed ^ vk.HashStr("c16idle")) // its own stream: the case lists of the other stages stay a function of (tier, seed) as before
	if stageOn("idle") {
		idle = rn.startIdleHolds(idleRng)
	}
	// singles first: their failures attribute the failures of multi-factor configurations
	pdo := func(stage string, n, w int, fn func(i int)) {
		if stageOn(stage) {
			vk.ParallelDo(n, w, fn)
		}
	}
	pdo("grid", len(singles), workers, func(i int) { rn.runCfg(i, &singles[i], vk.NewRng(seeds[i]), thruHost) })
	pdo("grid", len(matrix), workers, func(i int) {
		rn.runCfg(len(singles)+i, &matrix[i], vk.NewRng(seeds[len(singles)+i]), false)
	})
	pdo("grid", len(multi), workers, func(i int) {
		k := len(singles) + len(matrix) + i
		rn.runCfg(k, &multi[i], vk.NewRng(seeds[k]), false)
	})

	// ---- history stage: k >= 2 sessions on one server, in several orders, per configuration ----
	type hcase struct {
		cfg *c16Cfg
		ord c16Order
	}
	var hSingles, hMulti []hcase
	hr := r.Fork()
	for i := range singles {
		for _, o := range c16FixedOrders {
			hSingles = append(hSingles, hcase{&singles[i], o})
		}
		for x := 0; x < e.Pick(1, 3); x++ {
			hSingles = append(hSingles, hcase{&singles[i], c16RandomOrder(hr)})
		}
	}
	for i := range multi {
		// multi-factor configurations: one fixed order (rotating) and, in thorough, one random order each
		hMulti = append(hMulti, hcase{&multi[i], c16FixedOrders[hr.Intn(len(c16FixedOrders))]})
		if e.Thorough() {
			hMulti = append(hMulti, hcase{&multi[i], c16RandomOrder(hr)})
		}
	}
	hSeeds := make([]uint64, len(hSingles)+len(hMulti))
	for i := range hSeeds {
		hSeeds[i] = hr.U64()
	}
	pdo("history", len(hSingles), 16, func(i int) {
		rn.runHistory(i, hSingles[i].cfg, &hSingles[i].ord, vk.NewRng(hSeeds[i]))
	})
	pdo("history", len(hMulti), 16, func(i int) {
		k := len(hSingles) + i
		rn.runHistory(k, hMulti[i].cfg, &hMulti[i].ord, vk.NewRng(hSeeds[k]))
	})
	// the later stages reuse the history machinery: keep the history stage's own numbers
	histAfterLaterS, histAfterLaterR := e.R.Counter("history_connect_after_later_create:sender"), e.R.Counter("history_connect_after_later_create:receiver")

	tStage := time.Now()
	stageTimes := map[string]float64{}
	// ---- concurrent stage: N clients released together per round (c16conc.go) ----
	cr := r.Fork()
	var concCfgs []*c16Cfg
	for i := range matrix {
		concCfgs = append(concCfgs, &matrix[i])
	}
	// a longer server list (mixed spellings) for the concurrent stage only, on three servers: more minting per connect
	longList := c16Cfg{Levels: map[string]string{}, TurnMode: "on", Turn: &c16TurnLongList, Kind: "turn-matrix"}
	longList.finish()
	for k := 0; k < 3; k++ {
		concCfgs = append(concCfgs, &longList)
	}
	for i := range singles {
		concCfgs = append(concCfgs, &singles[i])
	}
	for i := range multi {
		if e.Thorough() || multi[i].TurnMode == "on" || i%4 == 0 {
			concCfgs = append(concCfgs, &multi[i])
		}
	}
	concSeeds := make([]uint64, len(concCfgs))
	for i := range concSeeds {
		concSeeds[i] = cr.U64()
	}
	rn.deferMulti = true
	pdo("concurrent", len(concCfgs), 12, func(i int) {
		rounds := e.Pick(3, 8)
		if concCfgs[i].Kind == "turn-matrix" {
			rounds = c16ConcMatrixRounds(e)
		} else if concCfgs[i].TurnMode == "on" {
			rounds = e.Pick(12, 40)
		}
		rn.runConcurrent(i, concCfgs[i], vk.NewRng(concSeeds[i]), rounds)
	})
	rn.flushDeferred()
	e.R.SetExtra("concurrent_connects", map[string]any{
		"rounds_with_creates_released_together": e.R.Counter("concurrent_rounds_with_creates_released_together"),
		"round":                       "S sessions created one call at a time (odd rounds: released together when the create bucket admits it), then N clients (S hosts, N-S receivers over the S sessions, peer ids of seeded character classes) released together from a start barrier; each judged on its own connect / peer_list / turn_credentials",
		"servers_started":             rn.concStarted,
		"servers_all_rounds_positive": rn.concDone,
		"rounds_completed":            rn.concRounds,
		"rounds_in_which_every_dial_started_before_the_first_returned": rn.concOverlap,
		"servers_by_clients_released_together":                         rn.concN,
		"connects_ok":                        map[string]int{"sender": e.R.Counter("concurrent_connects_ok:sender"), "receiver": e.R.Counter("concurrent_connects_ok:receiver")},
		"turn_credentials_checked":           map[string]int{"sender": e.R.Counter("concurrent_turn_credentials_checked:sender"), "receiver": e.R.Counter("concurrent_turn_credentials_checked:receiver")},
		"not_run_no_simultaneous_connects_admitted": e.R.Counter("concurrent_not_run_configuration_admits_no_simultaneous_connects"),
		"samples": rn.perConc,
	})

	stageTimes["concurrent_s"] = time.Since(tStage).Seconds()
	tStage = time.Now()
	// ---- refused-requests stage: every refusal reason in the history of a server (c16refuse.go) ----
	type rcase struct {
		cfg      *c16Cfg
		ratesOff bool
		budget   time.Duration
	}
	var rcases []rcase
	limitPairs := c16LimitCombos()
	budget := time.Duration(e.Pick(6, 25)) * time.Second
	for i := range singles {
		rcases = append(rcases, rcase{&singles[i], true, budget})
	}
	for i := range limitPairs {
		rcases = append(rcases, rcase{&limitPairs[i], true, budget})
	}
	for i := range multi {
		rcases = append(rcases, rcase{&multi[i], true, budget})
	}
	// the same with the per-IP rate limiters as configured (default 30 connects / 10 creates per
	// minute): the refused requests are trimmed to the tokens the buckets hold (quick) / may wait for refills (thorough)
	rateFactor := func(c *c16Cfg) int {
		n := 0
		for k, lv := range c.Levels {
			if strings.HasPrefix(k, "ws-connects-") || strings.HasPrefix(k, "session-creates-") {
				n++
				if lv == "0" && strings.HasSuffix(k, "-burst") {
					n += 2 // a bucket of one token: every request waits
				}
			}
		}
		return n
	}
	for i := range singles {
		if rateFactor(&singles[i]) == 0 || e.Thorough() { // otherwise (nearly) the same server as above
			rcases = append(rcases, rcase{&singles[i], false, time.Duration(e.Pick(0, 25)) * time.Second})
		}
	}
	for i := range limitPairs {
		if rateFactor(&limitPairs[i]) == 0 || e.Thorough() {
			rcases = append(rcases, rcase{&limitPairs[i], false, time.Duration(e.Pick(0, 25)) * time.Second})
		}
	}
	// the servers that wait for bucket refills first (scheduling only)
	sort.SliceStable(rcases, func(i, j int) bool { return rateFactor(rcases[i].cfg) > rateFactor(rcases[j].cfg) })
	rr := r.Fork()
	rSeeds := make([]uint64, len(rcases))
	for i := range rSeeds {
		rSeeds[i] = rr.U64()
	}
	rn.deferMulti = true
	pdo("refused", len(rcases), 24, func(i int) {
		// bucket refusals (which cost one refill time each) where the bucket is a factor of the configuration, or the tier has time
		rateProbes := rcases[i].ratesOff || rcases[i].budget > 0
		rn.runRefused(i, rcases[i].cfg, rcases[i].ratesOff, vk.NewRng(rSeeds[i]), rcases[i].budget, rateProbes)
	})
	rn.flushDeferred()
	stageTimes["refused_requests_s"] = time.Since(tStage).Seconds()
	e.R.SetExtra("stage_wall_seconds_diagnostic", stageTimes)
	refObserved, refFollowed := map[string]int{}, map[string]int{}
	for _, p := range c16RefusalClasses() {
		refObserved[p] = e.R.Counter("refusal_observed:" + p)
		refFollowed[p] = e.R.Counter("valid_op_after_refusal:" + p)
	}
	e.R.SetExtra("refused_requests_in_history", map[string]any{
		"scenario":                      "cA hA rA | /session refusals | cB | creates beyond --max-sessions | /ws refusals | lA | receivers beyond --max-receivers-per-sender | upgrade failures | hB rB | xA yA | sockets beyond --max-ws-connections | xB | requests beyond the connect/create buckets, one refill | rB leaves, a new receiver takes the slot; limits sized to the valid operations only (--max-sessions 2, --max-receivers-per-sender 2, --max-ws-connections 5, bursts = requests sent)",
		"servers_started":               rn.refStarted,
		"servers_every_valid_op_positive": rn.refDone,
		"cases":                         len(rcases),
		"refusals_observed":             refObserved,
		"refusals_followed_by_a_successful_valid_operation": refFollowed,
		"slot_reused_after_refusals_at_full_socket_limit":   e.R.Counter("reuse_after_limit_refusal_ok"),
		"reuse_retries": e.R.Counter("reuse_retry_after_refusal"),
		"probe_lists_trimmed_to_token_budget": e.R.Counter("refused_history_probe_list_trimmed_to_token_budget"),
		"not_run_pacing_too_long":             e.R.Counter("refused_history_not_run_pacing_too_long"),
		"samples":                             rn.perRef,
	})

	orderSpecs := map[string]string{}
	for _, o := range c16FixedOrders {
		orderSpecs[o.Name] = o.Spec
	}
	orderSpecs["random"] = "k in {2,3} sessions, each: c (h r | r h) x [l y] [q], interleaved by the seeded rng"
	e.R.SetExtra("history", map[string]any{
		"ops":                 "c create session, h host connects, r receiver connects, x envelope host->receiver and back, l late second receiver connects, y late receiver->host envelope, q session ends (all its sockets close); letter = session",
		"orders":              orderSpecs,
		"servers_started":     rn.histStarted,
		"servers_per_order":   rn.histRan,
		"completed_per_order": rn.histDone,
		"single_factor_cases": len(hSingles),
		"multi_factor_cases":  len(hMulti),
		"connects_after_later_create": map[string]int{"sender": histAfterLaterS, "receiver": histAfterLaterR},
		"samples": rn.perHist,
	})

	e.R.SetExtra("configurations", map[string]any{"single_factor": len(singles), "turn_matrix_servers": len(matrix),
		"multi_factor": len(multi), "started": rn.cfgStarted, "start_failures": rn.startFail})
	e.R.SetExtra("client_function_calls", rn.funcs)
	e.R.SetExtra("turn_spelling_classes_parsed", rn.spellSeen)
	e.R.SetExtra("peer_id_classes_parsed", rn.idSeen)
	e.R.SetExtra("turn_credentials_through_app_layer_by_spelling_and_role", rn.appSeen)
	e.R.SetExtra("turn_urls_parsed", rn.turnParsed)
	e.R.SetExtra("single_factor_failures", func() []string {
		var k []string
		for s := range rn.singleFail {
			k = append(k, s)
		}
		sort.Strings(k)
		return k
	}())
	if len(rn.perCfg) > 60 {
		rn.perCfg = rn.perCfg[:60]
	}
	e.R.SetExtra("per_configuration", rn.perCfg)
	flagsDoc := []string{}
	for _, f := range c16Flags {
		flagsDoc = append(flagsDoc, fmt.Sprintf("--%s {default, %s, %s}", f.Name, f.Small, f.Zero))
	}
	e.R.SetExtra("flag_levels", flagsDoc)

	if idle != nil {
		tIdle := time.Now()
		idle.wait()
		stageTimes["waited_for_idle_hold_after_the_other_stages_s"] = time.Since(tIdle).Seconds()
		idle.report(rn)
	}
	e.R.Require(rn.cfgStarted >= len(singles)*9/10, fmt.Sprintf("only %d of %d single-factor configurations started", rn.cfgStarted, len(singles)))
	e.R.Require(rn.funcs["clienthttp.CreateSession"] >= len(singles), "CreateSession was not exercised on every configuration")
	e.R.Require(rn.funcs["wsclient.Dial"] >= 2*len(singles)*8/10, "too few host/receiver connects ran")
	e.R.Require(rn.turnParsed >= 3*len(c16TurnSpellings), "too few turn_credentials were parsed")
	e.R.Require(len(rn.spellSeen) >= len(c16TurnSpellings)*8/10, "too few TURN URL spellings reached the parser")
	e.R.Require(len(rn.idSeen) >= len(c16IDClasses)*8/10, "too few peer-id classes reached the parser")
	if stageOn("grid") {
		for _, t := range c16TurnSpellings {
			for _, role := range []string{"sender", "receiver"} {
				e.R.Require(rn.appSeen[t.Class+"|"+role] >= 1, fmt.Sprintf("no turn_credentials of spelling %q went through the application layer of the %s", t.Class, role))
			}
		}
	}
	e.R.Require(rn.histStarted >= (len(hSingles)+len(hMulti))*9/10, fmt.Sprintf("only %d of %d history servers started", rn.histStarted, len(hSingles)+len(hMulti)))
	for _, o := range c16FixedOrders {
		e.R.Require(rn.histDone[o.Name] >= len(singles)*8/10,
			fmt.Sprintf("history order %q completed on only %d of %d single-factor configurations", o.Name, rn.histDone[o.Name], len(singles)))
	}
	e.R.Require(rn.histDone["random"] >= len(singles)*e.Pick(1, 3)*8/10, "too few seeded random histories completed")
	e.R.Require(histAfterLaterS >= len(singles) && histAfterLaterR >= len(singles),
		"too few connects used a join code after later sessions had been created on the same server")
	// concurrent stage
	e.R.Require(rn.concStarted >= len(concCfgs)*8/10, fmt.Sprintf("only %d of %d concurrent-stage servers started", rn.concStarted, len(concCfgs)))
	e.R.Require(rn.concDone >= len(concCfgs)*7/10, fmt.Sprintf("only %d of %d concurrent-stage servers completed all rounds", rn.concDone, len(concCfgs)))
	e.R.Require(e.R.Counter("concurrent_connects_ok:sender") >= 3*len(matrix)*c16ConcMatrixRounds(e)*8/10 && e.R.Counter("concurrent_connects_ok:receiver") >= 13*len(matrix)*c16ConcMatrixRounds(e)*8/10,
		"too few simultaneous connects of hosts / receivers had a verdict")
	e.R.Require(e.R.Counter("concurrent_turn_credentials_checked:sender") >= 3*len(matrix)*c16ConcMatrixRounds(e)*8/10 && e.R.Counter("concurrent_turn_credentials_checked:receiver") >= 13*len(matrix)*c16ConcMatrixRounds(e)*8/10,
		"too few turn_credentials received by simultaneously connecting clients were checked")
	e.R.Require(rn.concRounds == 0 || rn.concOverlap*2 >= rn.concRounds, "in most rounds the released clients did not dial before the first one returned (no simultaneity observed)")
	// refused-requests stage
	e.R.Require(rn.refStarted >= len(rcases)*8/10, fmt.Sprintf("only %d of %d refused-history servers started", rn.refStarted, len(rcases)))
	e.R.Require(rn.refDone >= len(rcases)*7/10, fmt.Sprintf("only %d of %d refused histories completed with every valid operation judged", rn.refDone, len(rcases)))
	for _, p := range c16RefusalClasses() {
		min := len(singles) / 2
		switch p {
		case "ws:receiver-limit-reached", "ws:connection-limit-reached", "session:session-limit-reached":
			min = 6 // needs the small value of its limit: that single, its pairs
		case "ws:max-receivers-exceeds-limit", "session:max-receivers-exceeds-limit":
			min = len(singles) / 2
		case "ws:rate-limit", "session:rate-limit":
			min = 1
		}
		e.R.Require(refFollowed[p] >= min, fmt.Sprintf("refusal class %q was followed by a successful valid operation only %d times (want >= %d)", p, refFollowed[p], min))
	}
	e.R.Require(e.R.Counter("reuse_after_limit_refusal_ok") >= 4, "too few servers had a freed socket slot taken again after refusals at the full --max-ws-connections")
}

// rounds per TURN URL spelling in the concurrent stage
func c16ConcMatrixRounds(e *Env) int { return e.Pick(32, 160) }

var c16TurnLongList = c16Turn{"list:four-servers-mixed-spellings",
	[]string{"turn:a.example.test:3478,turns://b.example.test:5349?servername=b.example.test", "c.example.test:3479", "turn://[2001:db8::9]:3478?transport=tcp"},
	[]c16TurnWant{{"a.example.test:3478", false}, {"b.example.test:5349", true}, {"c.example.test:3479", false}, {"[2001:db8::9]:3478", false}}}
