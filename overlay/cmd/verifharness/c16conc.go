//go:build verif

package main

// C16, concurrent stage: "who else is connecting at this moment" as a dimension of
// the configuration grid.
//
// Everything the other stages do on one server happens one call at a time. Here a
// round is: S sessions are created, then N clients (the S hosts and N-S receivers,
// spread over the sessions, peer ids drawn from all character classes) are parked at
// a start barrier and released together, each one running the real
// buildWebSocketURL + wsclient.Dial + ReadLoop. The oracle is the per-client one of
// the other stages: my connect succeeds, the peer_list I receive is stamped with MY
// session and lists me, and the turn_credentials I receive parse (real
// ice.parseTurnServer) to the user / secret / endpoint computed independently for MY
// peer id. Limits are sized to exactly what a round does (N connects at once, S
// sessions, ceil((N-S)/S) receivers per host), so every connect is one the
// configuration admits.

import (
	"context"
	"fmt"
	"path/filepath"
	"strconv"
	"strings"
	"sync"
	"sync/atomic"
	"time"

	"github.com/sheerbytes/sheerbytes/internal/clienthttp"
	vk "github.com/sheerbytes/sheerbytes/internal/verifkit"
	"github.com/sheerbytes/sheerbytes/pkg/protocol"
)

const c16ConcPrefix = "concurrent-connects:"

type c16ConcPlan struct {
	N, S, PerSess int // clients per round, sessions per round, receivers per session (max)
	Rounds        int
	createGap     time.Duration
}

// c16ConcCfg sizes the "small" values to one round and decides how many rounds the
// configured connect bucket admits. ok=false: the configuration does not admit
// simultaneous connects (a connect bucket of one token) or would need too much waiting.
func c16ConcCfg(base *c16Cfg, rounds int) (*c16Cfg, c16ConcPlan, []string, bool) {
	c := *base
	p := c16ConcPlan{N: 8, S: 2, Rounds: 1}
	var extra []string
	if c.Kind == "turn-matrix" {
		// as in the sequential matrix: many sockets on one server, rate limits off
		extra = []string{"--ws-connects-per-min", "0", "--session-creates-per-min", "0", "--max-receivers-per-sender", "0"}
		p = c16ConcPlan{N: 16, S: 3, Rounds: rounds}
	} else {
		perMin := c.intValue("ws-connects-per-min", 30)
		if perMin <= 0 {
			p = c16ConcPlan{N: 16, S: 3, Rounds: rounds}
		} else if lv, isF := c.Levels["ws-connects-burst"]; isF && lv == "0" {
			return nil, p, nil, false // a bucket of one token: no two connects at once
		}
		// otherwise: the default burst is 10 >= 8; "small" is sized to N below; one round per bucket
	}
	p.PerSess = (p.N - p.S + p.S - 1) / p.S
	c.Over = map[string]string{
		"max-sessions":             strconv.Itoa(p.S * p.Rounds), // sessions of earlier rounds may still be being torn down
		"session-creates-burst":    strconv.Itoa(p.S * p.Rounds),
		"ws-connects-burst":        strconv.Itoa(p.N),
		"max-ws-connections":       strconv.Itoa(p.N * p.Rounds), // sockets of earlier rounds may still be being torn down
		"max-receivers-per-sender": strconv.Itoa(p.PerSess),
		"ws-idle-timeout":          "30s",
	}
	if c.Kind != "turn-matrix" {
		p.createGap = c16BucketGap(c.intValue("session-creates-per-min", 10), c.intValue("session-creates-burst", 5), p.S*p.Rounds)
		if p.createGap*time.Duration(p.S*p.Rounds-1) > c16HistMaxPacing {
			// keep one round of one... two sessions if that fits
			p.Rounds = 1
			c.Over["max-sessions"], c.Over["session-creates-burst"] = strconv.Itoa(p.S), strconv.Itoa(p.S)
			c.Over["max-ws-connections"] = strconv.Itoa(p.N)
			p.createGap = c16BucketGap(c.intValue("session-creates-per-min", 10), c.intValue("session-creates-burst", 5), p.S)
			if p.createGap*time.Duration(p.S-1) > c16HistMaxPacing {
				return nil, p, nil, false
			}
		}
	}
	return &c, p, extra, true
}

type c16ConcClient struct {
	sess    int
	role    string
	idClass string
	peerID  string
	maxRecv int
	// results
	cr      *c16Role
	tBefore time.Time
	tDialed time.Time
	err     error
	el      time.Duration
	wsURL   string
}

// runConcurrent runs the rounds of one configuration on one freshly started server.
func (rn *c16Run) runConcurrent(idx int, base *c16Cfg, r *vk.Rng, rounds int) {
	e := rn.e
	c, plan, extra, ok := c16ConcCfg(base, rounds)
	if !ok {
		e.R.Count("concurrent_not_run_configuration_admits_no_simultaneous_connects")
		e.R.NoVerd()
		return
	}
	srv, err := vk.StartServ(filepath.Join(e.BinDir, "thruserv"), c.args(extra...), filepath.Join(e.Work, fmt.Sprintf("serv-k%04d.log", idx)))
	if err != nil {
		rn.mu.Lock()
		rn.startFail++
		rn.mu.Unlock()
		e.R.Inconcl(fmt.Sprintf("%s %s %v", c.key(), c16ConcPrefix, err))
		return
	}
	defer srv.Stop()
	rn.mu.Lock()
	rn.concStarted++
	rn.mu.Unlock()
	e.R.Count("concurrent_servers_started:" + c.Kind)
	obs := map[string]any{"config": c.key(), "kind": "concurrent/" + c.Kind, "args": strings.Join(c.args(extra...), " "),
		"clients_per_round": plan.N, "sessions_per_round": plan.S, "rounds": plan.Rounds}

	issuing := c.TurnMode == "on"
	clean := true
	var lastCreate time.Time
	roundsDone, overlapped := 0, 0
	for round := 0; round < plan.Rounds && clean; round++ {
		// ---- the sessions of this round (one call at a time) ----
		type sess struct {
			id, code string
			recv     int
		}
		ss := make([]sess, plan.S)
		// odd rounds: the creates are released together as well (when the create bucket admits that)
		together := round%2 == 1 && plan.createGap == 0
		var cmu sync.Mutex
		createOne := func(s int) {
			t0 := time.Now()
			sid, code, _, err := clienthttp.CreateSession(context.Background(), srv.URL, plan.PerSess)
			el := time.Since(t0)
			rn.fn("clienthttp.CreateSession")
			cmu.Lock()
			defer cmu.Unlock()
			if err != nil || sid == "" || code == "" {
				clean = false
				if err != nil && (el > 4*time.Second || !srv.Alive()) {
					e.R.Inconcl(fmt.Sprintf("%s %screate-session: failed after %v (timeout-like) or server gone: %v", c.key(), c16ConcPrefix, el, err))
				} else {
					rn.violate(c, c16ConcPrefix+"create-session", fmt.Sprintf("clienthttp.CreateSession #%d failed on a server sized for %d sessions: %v", round*plan.S+s+1, plan.S*plan.Rounds, err),
						map[string]any{"round": round, "creates_released_together": together, "error": fmt.Sprint(err), "session_id": sid, "join_code": code})
				}
				return
			}
			ss[s] = sess{id: sid, code: code}
			e.R.Eval()
			e.R.Distinct(c.key() + "|" + c16ConcPrefix + "CreateSession|together:" + strconv.FormatBool(together))
		}
		if together {
			startC := make(chan struct{})
			var cw sync.WaitGroup
			for s := 0; s < plan.S; s++ {
				cw.Add(1)
				go func(s int) { defer cw.Done(); <-startC; createOne(s) }(s)
			}
			close(startC)
			cw.Wait()
			e.R.Count("concurrent_rounds_with_creates_released_together")
		} else {
			for s := 0; s < plan.S && clean; s++ {
				if plan.createGap > 0 && !lastCreate.IsZero() {
					if d := time.Until(lastCreate.Add(plan.createGap)); d > 0 {
						time.Sleep(d)
					}
					e.R.Count("concurrent_paced_creates")
				}
				createOne(s)
				lastCreate = time.Now()
			}
		}
		if clean {
			for i := range ss {
				for j := i + 1; j < len(ss); j++ {
					if ss[i].id == ss[j].id || ss[i].code == ss[j].code {
						clean = false
						rn.violate(c, c16ConcPrefix+"create-session", "two sessions created on one server share a session id or a join code",
							map[string]any{"round": round, "creates_released_together": together, "a": ss[i].id + " " + ss[i].code, "b": ss[j].id + " " + ss[j].code})
					}
				}
			}
		}
		if !clean {
			break
		}
		// ---- the clients of this round ----
		clients := make([]*c16ConcClient, 0, plan.N)
		for s := range ss {
			k := r.Intn(len(c16IDClasses))
			clients = append(clients, &c16ConcClient{sess: s, role: "sender", idClass: c16IDClasses[k].Class, peerID: c16RandID(r, k), maxRecv: plan.PerSess})
		}
		for i := plan.S; i < plan.N; i++ {
			s := (i - plan.S) % plan.S
			k := r.Intn(len(c16IDClasses))
			clients = append(clients, &c16ConcClient{sess: s, role: "receiver", idClass: c16IDClasses[k].Class, peerID: c16RandID(r, k)})
		}
		// peer ids must identify their client on this server
		seen := map[string]bool{}
		for i, cl := range clients {
			for seen[cl.peerID] {
				cl.peerID += fmt.Sprintf("%x", i)
			}
			seen[cl.peerID] = true
		}
		// seeded release order of the goroutines behind the barrier
		for i := len(clients) - 1; i > 0; i-- {
			j := r.Intn(i + 1)
			clients[i], clients[j] = clients[j], clients[i]
		}
		others := map[string]string{}
		owner := map[string]int{}
		for _, cl := range clients {
			others[cl.peerID] = fmt.Sprintf("the %s %q of session %d", cl.role, cl.peerID, cl.sess)
			owner[cl.peerID] = cl.sess
		}
		start := make(chan struct{})
		var ready, wg sync.WaitGroup
		var firstReturn atomic.Int64
		for _, cl := range clients {
			ready.Add(1)
			wg.Add(1)
			go func(cl *c16ConcClient) {
				defer wg.Done()
				ready.Done()
				<-start
				cl.tBefore = time.Now()
				cl.cr, cl.wsURL, cl.el, cl.err = c16Connect(srv.URL, ss[cl.sess].code, cl.peerID, cl.role, cl.maxRecv)
				cl.tDialed = time.Now()
				firstReturn.CompareAndSwap(0, cl.tDialed.UnixNano())
			}(cl)
		}
		ready.Wait()
		close(start) // the barrier: every client dials now
		wg.Wait()
		allStartedBeforeFirstReturn := true
		for _, cl := range clients {
			rn.fn("app.buildWebSocketURL")
			rn.fn("wsclient.Dial")
			if cl.tBefore.UnixNano() > firstReturn.Load() {
				allStartedBeforeFirstReturn = false
			}
		}
		if allStartedBeforeFirstReturn {
			overlapped++ // diagnostic only
		}
		// ---- per-client verdicts (the envelopes are already on their way; judged in parallel) ----
		var jw sync.WaitGroup
		var bad atomic.Int64
		for _, cl := range clients {
			jw.Add(1)
			go func(cl *c16ConcClient) {
				defer jw.Done()
				step := c16ConcPrefix + "connect-host"
				if cl.role == "receiver" {
					step = c16ConcPrefix + "connect-receiver"
				}
				det := map[string]any{"url": cl.wsURL, "peer_id": cl.peerID, "peer_id_class": cl.idClass, "role": cl.role, "round": round,
					"clients_released_together": plan.N, "sessions": plan.S}
				if cl.err != nil {
					bad.Add(1)
					if cl.el > 4*time.Second || !srv.Alive() {
						e.R.Inconcl(fmt.Sprintf("%s %s: dial failed after %v (timeout-like) or server gone: %v", c.key(), step, cl.el, cl.err))
						return
					}
					det["error"] = cl.err.Error()
					rn.violate(c, step, fmt.Sprintf("%s could not connect while %d other clients the configuration admits were connecting: %v", cl.role, plan.N-1, cl.err), det)
					return
				}
				env, how := cl.cr.wait(c16TypeIs(protocol.TypePeerList), c16Watchdog)
				rn.fn("wsclient.ReadLoop")
				if how != "ok" {
					bad.Add(1)
					rn.judgeWait(c, step, how, cl.role+" connected but never received its peer_list", det, time.Since(cl.tBefore))
					return
				}
				var pl protocol.PeerList
				_ = env.DecodePayload(&pl)
				var wrong []string
				if env.SessionID != ss[cl.sess].id {
					wrong = append(wrong, fmt.Sprintf("peer_list stamped with session id %q, the join code belongs to %q", env.SessionID, ss[cl.sess].id))
				}
				me := false
				for _, p := range pl.Peers {
					if p.PeerID == cl.peerID && p.Role == cl.role {
						me = true
					}
					if o, known := owner[p.PeerID]; known && o != cl.sess {
						wrong = append(wrong, fmt.Sprintf("peer %q of session %d is listed", p.PeerID, o))
					}
				}
				if !me {
					wrong = append(wrong, "the connecting peer itself is not listed with its id / role")
				}
				if len(wrong) > 0 {
					bad.Add(1)
					det["mismatch"] = wrong
					det["peer_list"] = pl
					rn.violate(c, step, fmt.Sprintf("peer_list of a %s that connected together with %d others does not describe its own session: %s", cl.role, plan.N-1, strings.Join(wrong, "; ")), det)
					return
				}
				e.R.Eval()
				e.R.Distinct(c.key() + "|" + c16ConcPrefix + "Dial:" + cl.role + "|id:" + cl.idClass)
				e.R.Count("concurrent_connects_ok:" + cl.role)
				if issuing {
					if rn.checkTurnK(c, c16ConcPrefix, "turn-credentials", cl.cr, cl.idClass, cl.tBefore, nil, others) {
						e.R.Count("concurrent_turn_credentials_checked:" + cl.role)
					} else {
						bad.Add(1)
					}
				}
			}(cl)
		}
		jw.Wait()
		// receivers leave before their hosts
		for _, role := range []string{"receiver", "sender"} {
			var cw sync.WaitGroup
			for _, cl := range clients {
				if cl.role == role && cl.cr != nil {
					cw.Add(1)
					go func(cl *c16ConcClient) { defer cw.Done(); cl.cr.close() }(cl)
				}
			}
			cw.Wait()
		}
		if bad.Load() > 0 {
			clean = false
			break
		}
		roundsDone++
		e.R.Count("concurrent_rounds_completed")
	}
	obs["rounds_completed"] = roundsDone
	obs["rounds_all_dials_started_before_first_returned"] = overlapped
	obs["server_alive_at_end"] = srv.Alive()
	if !srv.Alive() {
		if info, outside := rn.servGone(c, c16ConcPrefix+"server-died", srv); !outside {
			rn.violate(c, c16ConcPrefix+"server-died", "thruserv exited while the clients were connecting", map[string]any{"log_tail": srv.LogTail(1500), "exit": info})
		}
	}
	rn.mu.Lock()
	rn.concRounds += roundsDone
	rn.concOverlap += overlapped
	if clean && roundsDone == plan.Rounds {
		rn.concDone++
	}
	rn.concN[plan.N]++
	if len(rn.perConc) < 24 {
		rn.perConc = append(rn.perConc, obs)
	}
	rn.mu.Unlock()
	if idx%9 == 0 {
		e.R.Sample(obs)
	}
}
