//go:build verif

package main

// C16, history stage: "what already happened on this server" as a dimension of the
// configuration grid.
//
// For a configuration the real thruserv is started once per *order*; an order is a
// sequence of client operations over k >= 2 sessions that live on that one server
// (create A, create B, connect A; create/connect interleaved; an earlier session
// ends while later ones go on; a late receiver joins an old session after newer
// ones were created; receivers before their host; seeded random interleavings).
// Every operation is one the configuration documents as valid ("small" limits are
// sized to exactly what the order does, "0" disables), so the oracle is: every
// client call succeeds and lands in its own session (the server's peer_list and
// every relayed envelope carry the session id CreateSession returned for that join
// code; peer lists never contain a peer of another session; ids and join codes of
// the sessions are pairwise different).

import (
	"context"
	"fmt"
	"path/filepath"
	"sort"
	"strconv"
	"strings"
	"time"

	"github.com/sheerbytes/sheerbytes/internal/clienthttp"
	vk "github.com/sheerbytes/sheerbytes/internal/verifkit"
	"github.com/sheerbytes/sheerbytes/pkg/protocol"
)

// c16HOp is one client operation of an order.
//
//	c create session     h host connects      r receiver connects
//	x one envelope host->receiver and receiver->host
//	l a late (second) receiver connects       y late receiver -> host envelope
//	q the session ends: its receivers, then its host, disconnect
type c16HOp struct {
	Op byte
	S  int
}

type c16Order struct {
	Name     string
	Spec     string
	K        int
	Connects int
	Ops      []c16HOp
}

func c16ParseOrder(name, spec string) c16Order {
	o := c16Order{Name: name, Spec: spec}
	for _, w := range strings.Fields(spec) {
		op := c16HOp{Op: w[0], S: int(w[1] - 'A')}
		if op.S+1 > o.K {
			o.K = op.S + 1
		}
		if op.Op == 'h' || op.Op == 'r' || op.Op == 'l' {
			o.Connects++
		}
		o.Ops = append(o.Ops, op)
	}
	return o
}

// the fixed orders; each is run on its own server for every configuration of the history grid.
var c16FixedOrders = []c16Order{
	// all sessions exist before the first connect; oldest join code used first / last
	c16ParseOrder("creates-first", "cA cB cC hA rA xA hB rB xB hC rC xC"),
	c16ParseOrder("creates-first-reverse", "cA cB cC hC rC xC hB rB xB hA rA xA"),
	// a complete session stays up while a newer one is created and used; then a late receiver joins the old one
	c16ParseOrder("late-join-after-newer-session", "cA hA rA xA cB hB rB xB lA yA"),
	// creates and connects of two sessions interleaved
	c16ParseOrder("interleaved", "cA hA cB rA hB rB xA xB"),
	// receivers arrive before their hosts
	c16ParseOrder("receivers-first", "cA cB rA rB hB hA xA xB"),
	// an earlier session ends (host leaves => the server deletes it) while one older-created and one newer session go on
	c16ParseOrder("earlier-session-ended", "cA cB hA rA xA qA cC hB rB xB hC rC xC"),
}

// c16RandomOrder: k sessions, each "c (h r | r h) x [l y] [q]", interleaved by the seeded rng.
func c16RandomOrder(r *vk.Rng) c16Order {
	k := 2 + r.Intn(2)
	seqs := make([][]string, k)
	for s := 0; s < k; s++ {
		L := string(rune('A' + s))
		seq := []string{"c" + L}
		if r.Intn(4) == 0 {
			seq = append(seq, "r"+L, "h"+L)
		} else {
			seq = append(seq, "h"+L, "r"+L)
		}
		seq = append(seq, "x"+L)
		if r.Intn(3) == 0 {
			seq = append(seq, "l"+L, "y"+L)
		}
		if r.Intn(3) == 0 {
			seq = append(seq, "q"+L)
		}
		seqs[s] = seq
	}
	var out []string
	for {
		var live []int
		for s := range seqs {
			if len(seqs[s]) > 0 {
				live = append(live, s)
			}
		}
		if len(live) == 0 {
			break
		}
		s := live[r.Intn(len(live))]
		out = append(out, seqs[s][0])
		seqs[s] = seqs[s][1:]
	}
	return c16ParseOrder("random", strings.Join(out, " "))
}

// c16HistCfg: copy of a grid configuration whose "small" values admit exactly what the order does.
func c16HistCfg(base *c16Cfg, o *c16Order) *c16Cfg {
	c := *base
	c.Over = map[string]string{
		"max-sessions":          strconv.Itoa(o.K),        // k sessions exist at once
		"session-creates-burst": strconv.Itoa(o.K),        // k creates in a row, no refill needed
		"ws-connects-burst":     strconv.Itoa(o.Connects), // all connects in a row, no refill needed
		"max-ws-connections":    strconv.Itoa(o.Connects), // every socket of the order may be open at once
		"ws-idle-timeout":       "30s",                    // sockets of one session idle while the others act
	}
	return &c
}

// histories whose rate limits demand more waiting than this in total are not run (counted)
const c16HistMaxPacing = 30 * time.Second

type c16HSess struct {
	idx int
	c16Sess
	host      *c16Role
	recv      *c16Role
	late      *c16Role
	tHost     time.Time
	createSeq int  // 1-based position among the successful creates on this server
	failed    bool // one of its operations failed or had no verdict: its later operations are skipped
	ended     bool
	sentMsgs  map[string]bool
}

func (hs *c16HSess) connected() []*c16Role {
	var out []*c16Role
	for _, cr := range []*c16Role{hs.host, hs.recv, hs.late} {
		if cr != nil {
			out = append(out, cr)
		}
	}
	return out
}

type c16Hist struct {
	rn     *c16Run
	c      *c16Cfg
	o      *c16Order
	srv    *vk.Serv
	prefix string
	sess   []*c16HSess
	owner  map[string]int // peer id -> session index
	roles  []*c16Role     // every role ever connected (closed ones keep their log)
	roleOf map[*c16Role]int
	trace  []string
	obs    map[string]any
	r      *vk.Rng
	clean  bool // every operation so far had a positive verdict
	// pacing demanded by the configured per-IP token buckets when their burst does not
	// cover the order (a burst flag at 0 is a bucket of one token); 0 = none needed
	createGap, connectGap time.Duration
	lastCreate, lastConn  time.Time
}

// c16BucketGap: refill time of one token (+ margin) when a bucket of perMin/min with the
// given burst does not admit n requests in a row; 0 when it does or when the limit is off.
// Waiting is measured from the previous response to the next request, so the server-side
// distance is never shorter: waiting longer (slow machine) is always safe.
func c16BucketGap(perMin, burst, n int) time.Duration {
	if perMin <= 0 {
		return 0
	}
	if burst < 1 {
		burst = 1
	}
	if burst >= n {
		return 0
	}
	return time.Duration(float64(time.Minute)/float64(perMin)) + 700*time.Millisecond
}

func (h *c16Hist) pace(last time.Time, gap time.Duration, counter string) {
	if gap <= 0 || last.IsZero() {
		return
	}
	if d := time.Until(last.Add(gap)); d > 0 {
		time.Sleep(d)
	}
	h.rn.e.R.Count(counter)
}

func (cr *c16Role) snapshot() []protocol.Envelope {
	cr.mu.Lock()
	defer cr.mu.Unlock()
	return append([]protocol.Envelope(nil), cr.envs...)
}

func (h *c16Hist) det(m map[string]any) map[string]any {
	m["order"] = h.o.Name
	m["order_spec"] = h.o.Spec
	m["trace"] = append([]string(nil), h.trace...)
	return m
}

func (h *c16Hist) violate(step, what string, detail map[string]any) {
	h.clean = false
	h.rn.violate(h.c, h.prefix+step, what, h.det(detail))
}

func (h *c16Hist) ok(op string) {
	e := h.rn.e
	e.R.Eval()
	e.R.Distinct(h.c.key() + "|" + h.prefix + op)
}

// laterCreates: sessions created on this server after hs was created.
func (h *c16Hist) laterCreates(hs *c16HSess) int {
	n := 0
	for _, o := range h.sess {
		if o != nil && o.idx != hs.idx && o.createSeq > hs.createSeq {
			n++
		}
	}
	return n
}

func (h *c16Hist) create(s int) {
	rn, c := h.rn, h.c
	hs := &c16HSess{idx: s, sentMsgs: map[string]bool{}}
	hs.maxRecv = 4
	if lim := c.intValue("max-receivers-per-sender", 10); lim > 0 && lim < hs.maxRecv {
		hs.maxRecv = lim
	}
	h.sess[s] = hs
	h.pace(h.lastCreate, h.createGap, "history_paced_creates")
	t0 := time.Now()
	sid, code, _, err := clienthttp.CreateSession(context.Background(), h.srv.URL, hs.maxRecv)
	el := time.Since(t0)
	h.lastCreate = time.Now()
	rn.fn("clienthttp.CreateSession")
	if err != nil {
		hs.failed = true
		if el > 4*time.Second || !h.srv.Alive() {
			h.clean = false
			rn.e.R.Inconcl(fmt.Sprintf("%s %screate-session: failed after %v (timeout-like) or server gone: %v", c.key(), h.prefix, el, err))
			return
		}
		h.violate("create-session", fmt.Sprintf("clienthttp.CreateSession #%d on one server failed although the configuration admits %d sessions: %v", h.created()+1, h.o.K, err),
			map[string]any{"client_error": err.Error(), "session": string(rune('A' + s)), "sessions_created_before": h.created()})
		return
	}
	if sid == "" || code == "" {
		hs.failed = true
		h.violate("create-session", "CreateSession returned no error but an empty session id / join code", map[string]any{"session_id": sid, "join_code": code})
		return
	}
	for _, o := range h.sess {
		if o != nil && o != hs && o.createOK && (o.sessionID == sid || o.joinCode == code) {
			hs.failed = true
			h.violate("create-session", "two sessions created on one server share a session id or a join code",
				map[string]any{"session_id": sid, "join_code": code, "other_session_id": o.sessionID, "other_join_code": o.joinCode})
			return
		}
	}
	hs.sessionID, hs.joinCode, hs.createOK = sid, code, true
	hs.createSeq = h.created() // 1-based position among the creates that succeeded
	h.ok("create")
}

func (h *c16Hist) created() int {
	n := 0
	for _, o := range h.sess {
		if o != nil && o.createOK {
			n++
		}
	}
	return n
}

// connect dials one role of session hs with the real client code and judges the peer_list it receives.
func (h *c16Hist) connect(hs *c16HSess, role, step string) (*c16Role, time.Time) {
	rn, c := h.rn, h.c
	peerID := c16HexID(h.r)
	maxRecv := hs.maxRecv
	if role == "receiver" {
		maxRecv = 0
	}
	later := h.laterCreates(hs)
	h.pace(h.lastConn, h.connectGap, "history_paced_connects")
	tBefore := time.Now()
	cr, wsURL, el, err := c16Connect(h.srv.URL, hs.joinCode, peerID, role, maxRecv)
	h.lastConn = time.Now()
	rn.fn("app.buildWebSocketURL")
	rn.fn("wsclient.Dial")
	base := map[string]any{"url": wsURL, "peer_id": peerID, "session": string(rune('A' + hs.idx)),
		"sessions_created_after_this_one": later, "sessions_on_server": h.created()}
	if err != nil {
		hs.failed = true
		if el > 4*time.Second || !h.srv.Alive() {
			h.clean = false
			rn.e.R.Inconcl(fmt.Sprintf("%s %s%s: dial failed after %v (timeout-like) or server gone: %v", c.key(), h.prefix, step, el, err))
			return nil, tBefore
		}
		base["error"] = err.Error()
		h.violate(step, fmt.Sprintf("%s of session %c could not connect with the join code CreateSession returned (%d session(s) were created on the server after it): %v",
			role, 'A'+hs.idx, later, err), base)
		return nil, tBefore
	}
	h.owner[peerID] = hs.idx
	h.roles = append(h.roles, cr)
	h.roleOf[cr] = hs.idx
	env, how := cr.wait(c16TypeIs(protocol.TypePeerList), c16Watchdog)
	rn.fn("wsclient.ReadLoop")
	if how != "ok" {
		hs.failed = true
		h.clean = false
		rn.judgeWait(c, h.prefix+step, how, role+" connected but never received its peer_list", h.det(base), time.Since(tBefore))
		cr.close()
		return nil, tBefore
	}
	var pl protocol.PeerList
	_ = env.DecodePayload(&pl)
	base["peer_list"] = pl
	base["peer_list_session_id"] = env.SessionID
	if env.SessionID != hs.sessionID {
		hs.failed = true
		h.violate(step, fmt.Sprintf("%s connected with the join code of session %c but the server put it into another session", role, 'A'+hs.idx),
			base)
		cr.close()
		return nil, tBefore
	}
	inList := map[string]string{}
	for _, p := range pl.Peers {
		inList[p.PeerID] = p.Role
	}
	var bad []string
	if inList[peerID] != role {
		bad = append(bad, "the connecting peer itself is not listed with its id / role")
	}
	for _, other := range hs.connected() {
		if inList[other.peerID] != other.role {
			bad = append(bad, fmt.Sprintf("connected %s %q of the same session is missing", other.role, other.peerID))
		}
	}
	for id := range inList {
		if own, known := h.owner[id]; known && own != hs.idx {
			bad = append(bad, fmt.Sprintf("peer %q of session %c is listed", id, 'A'+own))
		}
	}
	if len(bad) > 0 {
		hs.failed = true
		sort.Strings(bad)
		base["mismatch"] = bad
		h.violate(step, fmt.Sprintf("peer_list of the %s of session %c does not describe its own session: %s", role, 'A'+hs.idx, strings.Join(bad, "; ")), base)
		cr.close()
		return nil, tBefore
	}
	h.ok(step)
	if later > 0 {
		rn.e.R.Count("history_connect_after_later_create:" + role)
		rn.e.R.Distinct(c.key() + "|" + h.prefix + step + "|after-later-create")
	}
	rn.checkTurnP(c, h.prefix, cr, "plain-hex", tBefore, h.obs)
	return cr, tBefore
}

// send one addressed envelope from -> to with the real Conn.Send and require that it arrives unchanged in its session.
func (h *c16Hist) send(hs *c16HSess, from, to *c16Role, typ, step string, tConn time.Time) bool {
	rn, c := h.rn, h.c
	id := protocol.NewMsgID()
	env, _ := protocol.NewEnvelope(typ, id, map[string]any{"verif": "c16", "n": 1})
	env.To = to.peerID
	hs.sentMsgs[id] = true
	if err := from.conn.Send(env); err != nil {
		hs.failed = true
		h.violate(step, "wsclient.Conn.Send failed on an established connection", map[string]any{"error": err.Error(), "session": string(rune('A' + hs.idx))})
		return false
	}
	rn.fn("wsclient.Conn.Send")
	got, how := to.wait(func(e protocol.Envelope) bool { return e.MsgID == id }, c16Watchdog)
	if how != "ok" {
		hs.failed = true
		h.clean = false
		rn.judgeWait(c, h.prefix+step, how, fmt.Sprintf("envelope from the %s of session %c never reached its %s", from.role, 'A'+hs.idx, to.role),
			h.det(map[string]any{"session": string(rune('A' + hs.idx))}), time.Since(tConn))
		return false
	}
	if got.From != from.peerID || got.SessionID != hs.sessionID {
		hs.failed = true
		h.violate(step, "relayed envelope carries a different sender id / session id than the connection it was sent on",
			map[string]any{"from": got.From, "want_from": from.peerID, "session_id": got.SessionID, "want_session_id": hs.sessionID})
		return false
	}
	return true
}

func (h *c16Hist) exchange(hs *c16HSess) {
	// the host knows the receiver once peer_joined (or its own peer_list) names it
	hs.host.wait(func(e protocol.Envelope) bool {
		switch e.Type {
		case protocol.TypePeerJoined:
			var pj protocol.PeerJoined
			_ = e.DecodePayload(&pj)
			return pj.Peer.PeerID == hs.recv.peerID
		case protocol.TypePeerList:
			var pl protocol.PeerList
			_ = e.DecodePayload(&pl)
			for _, p := range pl.Peers {
				if p.PeerID == hs.recv.peerID {
					return true
				}
			}
		}
		return false
	}, c16Watchdog)
	if !h.send(hs, hs.host, hs.recv, protocol.TypeManifestOffer, "exchange", hs.tHost) {
		return
	}
	if !h.send(hs, hs.recv, hs.host, protocol.TypeManifestAccept, "exchange", hs.tHost) {
		return
	}
	h.ok("exchange")
}

// isolation: nothing a role ever received belongs to another session.
func (h *c16Hist) isolation() {
	msgOwner := map[string]int{}
	for _, hs := range h.sess {
		if hs == nil {
			continue
		}
		for id := range hs.sentMsgs {
			msgOwner[id] = hs.idx
		}
	}
	for _, cr := range h.roles {
		own := h.roleOf[cr]
		hs := h.sess[own]
		var bad []string
		for _, env := range cr.snapshot() {
			if env.SessionID != "" && env.SessionID != hs.sessionID {
				bad = append(bad, fmt.Sprintf("%s envelope stamped with session id %q", env.Type, env.SessionID))
			}
			if o, ok := msgOwner[env.MsgID]; ok && o != own {
				bad = append(bad, fmt.Sprintf("%s envelope sent in session %c", env.Type, 'A'+o))
			}
			switch env.Type {
			case protocol.TypePeerJoined:
				var pj protocol.PeerJoined
				_ = env.DecodePayload(&pj)
				if o, ok := h.owner[pj.Peer.PeerID]; ok && o != own {
					bad = append(bad, fmt.Sprintf("peer_joined for a peer of session %c", 'A'+o))
				}
			case protocol.TypePeerLeft:
				var pl protocol.PeerLeft
				_ = env.DecodePayload(&pl)
				if o, ok := h.owner[pl.PeerID]; ok && o != own {
					bad = append(bad, fmt.Sprintf("peer_left for a peer of session %c", 'A'+o))
				}
			}
		}
		if len(bad) > 0 {
			sort.Strings(bad)
			h.violate("isolation", fmt.Sprintf("the %s of session %c received traffic of another session: %s", cr.role, 'A'+own, strings.Join(bad, "; ")),
				map[string]any{"peer_id": cr.peerID, "received": bad})
			return
		}
	}
	h.ok("isolation")
}

// runHistory runs one order against one freshly started server of configuration base.
func (rn *c16Run) runHistory(idx int, base *c16Cfg, o *c16Order, r *vk.Rng) {
	e := rn.e
	c := c16HistCfg(base, o)
	h := &c16Hist{rn: rn, c: c, o: o, prefix: "history:" + o.Name + ":", sess: make([]*c16HSess, o.K),
		owner: map[string]int{}, roleOf: map[*c16Role]int{}, r: r, clean: true}
	h.obs = map[string]any{"config": c.key(), "kind": "history/" + c.Kind, "order": o.Name, "order_spec": o.Spec, "args": strings.Join(c.args(), " ")}
	h.createGap = c16BucketGap(c.intValue("session-creates-per-min", 10), c.intValue("session-creates-burst", 5), o.K)
	h.connectGap = c16BucketGap(c.intValue("ws-connects-per-min", 30), c.intValue("ws-connects-burst", 10), o.Connects)
	if total := h.createGap*time.Duration(o.K-1) + h.connectGap*time.Duration(o.Connects-1); total > c16HistMaxPacing {
		// e.g. --session-creates-per-min 1 with --session-creates-burst 0: one create per minute
		e.R.Count("history_not_run_pacing_too_long")
		e.R.NoVerd()
		return
	}
	srv, err := vk.StartServ(filepath.Join(e.BinDir, "thruserv"), c.args(), filepath.Join(e.Work, fmt.Sprintf("serv-h%04d.log", idx)))
	if err != nil {
		rn.mu.Lock()
		rn.startFail++
		rn.mu.Unlock()
		e.R.Inconcl(fmt.Sprintf("%s %s: %v", c.key(), h.prefix, err))
		return
	}
	defer srv.Stop()
	h.srv = srv
	rn.mu.Lock()
	rn.histStarted++
	rn.histRan[o.Name]++
	rn.mu.Unlock()
	e.R.Count("history_servers_started:" + c.Kind)

	skipped := 0
	for _, op := range o.Ops {
		word := string([]byte{op.Op, byte('A' + op.S)})
		if op.Op == 'c' {
			h.create(op.S)
			h.trace = append(h.trace, word+map[bool]string{true: ":ok", false: ":FAILED"}[h.sess[op.S].createOK])
			continue
		}
		hs := h.sess[op.S]
		if hs == nil || hs.failed || hs.ended || !srv.Alive() { // a server that is gone: its port may already belong to another server
			skipped++
			h.trace = append(h.trace, word+":skipped")
			continue
		}
		switch op.Op {
		case 'h':
			hs.host, hs.tHost = h.connect(hs, "sender", "connect-host")
		case 'r':
			hs.recv, _ = h.connect(hs, "receiver", "connect-receiver")
		case 'l':
			hs.late, _ = h.connect(hs, "receiver", "connect-late-receiver")
		case 'x':
			if hs.host == nil || hs.recv == nil {
				skipped++
				break
			}
			h.exchange(hs)
		case 'y':
			if hs.host == nil || hs.late == nil {
				skipped++
				break
			}
			if h.send(hs, hs.late, hs.host, protocol.TypeManifestAccept, "late-exchange", hs.tHost) {
				h.ok("late-exchange")
			}
		case 'q':
			hs.late.close()
			hs.recv.close()
			hs.host.close()
			hs.late, hs.recv, hs.host = nil, nil, nil
			hs.ended = true
			h.ok("session-ended")
		}
		h.trace = append(h.trace, word+map[bool]string{true: ":FAILED", false: ":ok"}[hs.failed])
	}
	h.isolation()
	for _, hs := range h.sess {
		if hs != nil {
			hs.late.close()
			hs.recv.close()
			hs.host.close()
		}
	}
	h.obs["trace"] = strings.Join(h.trace, " ")
	h.obs["server_alive_at_end"] = srv.Alive()
	if !srv.Alive() {
		if info, outside := rn.servGone(h.c, h.prefix+"server-died", srv); !outside {
			h.violate("server-died", "thruserv exited while the clients were using it", map[string]any{"log_tail": srv.LogTail(1500), "exit": info})
		}
	}
	if h.clean && skipped == 0 {
		rn.mu.Lock()
		rn.histDone[o.Name]++
		rn.mu.Unlock()
		e.R.Count("history_orders_completed")
	}
	rn.mu.Lock()
	if len(rn.perHist) < 40 {
		rn.perHist = append(rn.perHist, h.obs)
	}
	rn.mu.Unlock()
	if idx%7 == 0 {
		e.R.Sample(h.obs)
	}
}
