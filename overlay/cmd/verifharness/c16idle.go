//go:build verif

package main

// C16 – idle-hold observation.
//
// "Both roles can connect" is only worth something when the connection then
// stays usable while nothing happens: a host prints its join code and waits for
// its first receiver, a receiver waits for the host. Whether a waiting client
// hears anything from the server depends on the configuration: thruserv sends
// keepalive pings only when --ws-idle-timeout is > 0. One server per value of
// that switch (0 = no pings at all, a small value that admits the hold by its
// own text, default 10m) is started FIRST in a run, two sessions are set up on
// it with the real client functions, then nothing is sent for c16IdleHoldFor of
// real time while the other stages run, and then the connections are used:
//
//	A  host alone, waiting for its first receiver -> after the hold a receiver
//	   joins with the join code, one envelope each way
//	B  host and receiver connected, both waiting    -> after the hold one
//	   envelope each way
//
// Verdicts come from logical events only: the real ReadLoop of a waiting client
// returned (connection ended) although the configuration admits the idle time,
// the join code of a waiting host is refused, an envelope sent over the real
// Conn.Send does not arrive because the connection ended. Watchdogs are
// inconclusive. The hold time is not a verdict, it is the stimulus: client-side
// assumptions about server keepalives below it are not observed (stated in the
// propdef).

import (
	"fmt"
	"path/filepath"
	"sync"
	"time"

	vk "github.com/sheerbytes/sheerbytes/internal/verifkit"
	"github.com/sheerbytes/sheerbytes/pkg/protocol"
)

const (
	c16IdleHoldFor   = 76 * time.Second
	c16IdleSmall     = "2m" // smallest round --ws-idle-timeout that admits the hold by its own text
	c16IdleHostAlone = "idle-hold:host-waiting-for-first-receiver"
	c16IdleBoth      = "idle-hold:host-and-receiver-waiting"
)

type c16IdleStage struct {
	wg    sync.WaitGroup
	mu    sync.Mutex
	cfgs  []*c16Cfg
	obs   []map[string]any
	done  map[string]int // "<config key>|<history>" -> positive verdicts
	ready int            // servers on which the hold started
}

func c16IdleCfgs() []*c16Cfg {
	zero := &c16Cfg{Levels: map[string]string{"ws-idle-timeout": "0"}, TurnMode: "off", Kind: "single"}
	small := &c16Cfg{Levels: map[string]string{"ws-idle-timeout": "small"}, TurnMode: "off", Kind: "single",
		Over: map[string]string{"ws-idle-timeout": c16IdleSmall}}
	def := &c16Cfg{Levels: map[string]string{}, TurnMode: "off", Kind: "single"}
	out := []*c16Cfg{zero, small, def}
	for _, c := range out {
		c.finish()
	}
	return out
}

// startIdleHolds starts the idle-hold servers and returns at once; wait() blocks until every hold has been judged.
func (rn *c16Run) startIdleHolds(r *vk.Rng) *c16IdleStage {
	st := &c16IdleStage{cfgs: c16IdleCfgs(), done: map[string]int{}}
	for i, c := range st.cfgs {
		ids := [4]string{c16HexID(r), c16HexID(r), c16HexID(r), c16HexID(r)}
		st.wg.Add(1)
		go func(i int, c *c16Cfg) {
			defer st.wg.Done()
			rn.runIdleHold(st, i, c, ids)
		}(i, c)
	}
	return st
}

func (st *c16IdleStage) wait() { st.wg.Wait() }

func (st *c16IdleStage) ok(c *c16Cfg, hist string) {
	st.mu.Lock()
	st.done[c.key()+"|"+hist]++
	st.mu.Unlock()
}

func (cr *c16Role) endedErr() (bool, string) {
	cr.mu.Lock()
	defer cr.mu.Unlock()
	return cr.ended, fmt.Sprint(cr.readErr)
}

func (rn *c16Run) runIdleHold(st *c16IdleStage, idx int, c *c16Cfg, ids [4]string) {
	e := rn.e
	obs := map[string]any{"config": c.key(), "args": c.args(), "hold_s": c16IdleHoldFor.Seconds()}
	defer func() {
		st.mu.Lock()
		st.obs = append(st.obs, obs)
		st.mu.Unlock()
	}()
	srv, err := vk.StartServ(filepath.Join(e.BinDir, "thruserv"), c.args(), filepath.Join(e.Work, fmt.Sprintf("serv-idle-%d.log", idx)))
	if err != nil {
		e.R.Inconcl(fmt.Sprintf("%s idle-hold: %v", c.key(), err))
		return
	}
	defer srv.Stop()
	e.R.Count("idle_hold_servers_started")

	// setup: plain creates / connects on a fresh server (failures keep the keys of those steps)
	sA, okA := rn.createSession(c, srv, obs)
	sB, okB := rn.createSession(c, srv, obs)
	if !okA || !okB {
		return
	}
	hostA, _ := rn.connectRole(c, srv, sA, ids[0], "sender", "plain-hex", obs)
	hostB, _ := rn.connectRole(c, srv, sB, ids[1], "sender", "plain-hex", obs)
	var recvB *c16Role
	if hostB != nil {
		recvB, _ = rn.connectRole(c, srv, sB, ids[2], "receiver", "plain-hex", obs)
	}
	defer func() { hostA.close(); hostB.close(); recvB.close() }()
	if hostA == nil || hostB == nil || recvB == nil {
		return
	}
	// the last frame the server owes anybody: host B learns of its receiver
	if _, how := hostB.wait(func(ev protocol.Envelope) bool { return ev.Type == protocol.TypePeerJoined }, c16Watchdog); how != "ok" {
		rn.judgeWait(c, "connect-receiver", how, "host never learned of the receiver that joined", map[string]any{}, 0)
		return
	}
	st.mu.Lock()
	st.ready++
	st.mu.Unlock()
	t0 := time.Now()
	time.Sleep(c16IdleHoldFor) // the stimulus: nothing is sent by any of the three clients
	held := time.Since(t0)
	obs["held_s"] = held.Seconds()
	e.R.Count("idle_holds_elapsed")

	// a configured idle timeout the hold came close to (slow machine): the server may end the connections by its own text
	admits := true
	if v, ok := c.flagValue("ws-idle-timeout"); ok && v != "0" {
		if d, _ := time.ParseDuration(v); d > 0 && held > d*7/10 {
			admits = false
		}
	}
	if !srv.Alive() {
		if info, outside := rn.servGone(c, "idle-hold:server-died", srv); !outside {
			rn.violate(c, "idle-hold:server-died", "thruserv exited while three clients were connected and waiting", map[string]any{"log_tail": srv.LogTail(1500), "exit": info})
		}
		return
	}
	ended := func(step string, who string, cr *c16Role) bool {
		end, rerr := cr.endedErr()
		if !end {
			return false
		}
		if !admits {
			e.R.Inconcl(fmt.Sprintf("%s %s: connection ended, but the hold took %v of a configured idle timeout", c.key(), step, held))
			return true
		}
		rn.violate(c, step, fmt.Sprintf("the %s's connection did not survive waiting: its wsclient.ReadLoop returned while the client was connected and idle for a time the server configuration admits", who),
			map[string]any{"read_loop_returned": rerr, "idle_for_s": held.Seconds(), "server_log_tail": srv.LogTail(600)})
		return true
	}
	trip := func(step string, host, recv *c16Role) bool {
		for _, d := range []struct {
			from, to *c16Role
			typ      string
		}{{host, recv, protocol.TypeManifestOffer}, {recv, host, protocol.TypeManifestAccept}} {
			id := protocol.NewMsgID()
			env, _ := protocol.NewEnvelope(d.typ, id, map[string]any{"verif": "c16-idle", "n": 1})
			env.To = d.to.peerID
			if err := d.from.conn.Send(env); err != nil {
				if !admits {
					e.R.Inconcl(fmt.Sprintf("%s %s: send failed, but the hold took %v of a configured idle timeout", c.key(), step, held))
					return false
				}
				rn.violate(c, step, "wsclient.Conn.Send failed on a connection that had been established and then left idle", map[string]any{"error": err.Error(), "from": d.from.role})
				return false
			}
			rn.fn("wsclient.Conn.Send")
			got, how := d.to.wait(func(ev protocol.Envelope) bool { return ev.MsgID == id }, c16Watchdog)
			switch {
			case how == "watchdog":
				e.R.Inconcl(fmt.Sprintf("%s %s: watchdog (%v): envelope from %s after the idle hold", c.key(), step, c16Watchdog, d.from.role))
				return false
			case how == "ended" && !admits:
				e.R.Inconcl(fmt.Sprintf("%s %s: connection ended, but the hold took %v of a configured idle timeout", c.key(), step, held))
				return false
			case how == "ended":
				rn.violate(c, step, fmt.Sprintf("after the idle time the envelope from %s never reached %s: the connection ended", d.from.role, d.to.role), map[string]any{"idle_for_s": held.Seconds()})
				return false
			}
			if got.From != d.from.peerID {
				rn.violate(c, step, "relayed envelope carries a different sender id than the one the client connected with", map[string]any{"from": got.From, "want": d.from.peerID})
				return false
			}
		}
		return true
	}

	// B: both roles waited
	if !ended(c16IdleBoth, "host", hostB) && !ended(c16IdleBoth, "receiver", recvB) {
		if trip(c16IdleBoth, hostB, recvB) {
			e.R.Eval()
			e.R.Distinct(c.key() + "|" + c16IdleBoth)
			st.ok(c, c16IdleBoth)
			obs[c16IdleBoth] = "ok"
		}
	}
	// A: the host waited alone; now its first receiver arrives with the join code the host was given
	if ended(c16IdleHostAlone, "host", hostA) {
		return
	}
	recvA, wsURL, el, err := c16Connect(srv.URL, sA.joinCode, ids[3], "receiver", 0)
	rn.fn("wsclient.Dial")
	if err != nil {
		if el > 4*time.Second || !srv.Alive() || !admits {
			e.R.Inconcl(fmt.Sprintf("%s %s: dial failed after %v: %v", c.key(), c16IdleHostAlone, el, err))
			return
		}
		rn.violate(c, c16IdleHostAlone, "the join code of a host that is connected and waiting is refused to its first receiver: "+err.Error(),
			map[string]any{"url": wsURL, "error": err.Error(), "idle_for_s": held.Seconds(), "server_log_tail": srv.LogTail(600)})
		return
	}
	defer recvA.close()
	if _, how := recvA.wait(c16TypeIs(protocol.TypePeerList), c16Watchdog); how != "ok" {
		if how == "ended" && admits {
			rn.violate(c, c16IdleHostAlone, "the first receiver of a waiting host connected but the connection ended before its peer_list", map[string]any{"url": wsURL})
		} else {
			e.R.Inconcl(fmt.Sprintf("%s %s: no peer_list for the late receiver (%s)", c.key(), c16IdleHostAlone, how))
		}
		return
	}
	if trip(c16IdleHostAlone, hostA, recvA) {
		e.R.Eval()
		e.R.Distinct(c.key() + "|" + c16IdleHostAlone)
		st.ok(c, c16IdleHostAlone)
		obs[c16IdleHostAlone] = "ok"
	}
}

// report writes the evidence of the stage and its minimum-observation requirements.
func (st *c16IdleStage) report(rn *c16Run) {
	e := rn.e
	st.mu.Lock()
	defer st.mu.Unlock()
	e.R.SetExtra("idle_hold", map[string]any{
		"what":                 "per value of the server-side keepalive switch (--ws-idle-timeout 0: the server never pings; " + c16IdleSmall + " and default 10m: pings every 30 s) one server started first in the run; session A: host alone; session B: host + receiver; no client sends anything for the hold; then B exchanges one envelope each way and A is joined by its first receiver and exchanges one envelope each way",
		"hold_seconds":         c16IdleHoldFor.Seconds(),
		"servers":              len(st.cfgs),
		"holds_started":        st.ready,
		"positive_verdicts":    st.done,
		"per_server":           st.obs,
		"not_observed_by_this": "client-side idle assumptions longer than the hold; idle receivers before any host message other than peer_list",
	})
	for _, c := range st.cfgs {
		for _, h := range []string{c16IdleBoth, c16IdleHostAlone} {
			e.R.Require(st.done[c.key()+"|"+h] >= 1, fmt.Sprintf("idle hold %q had no positive verdict on %s", h, c.key()))
		}
	}
}

// servGone: the server of a case is no longer running. A thruserv that was ended by SIGKILL /
// SIGTERM although the harness had not stopped it was ended from outside (another process on a
// shared machine, the OOM killer): no verdict about the repository, the case is inconclusive.
// Every other end (exit status, panic, runtime crash) is thruserv's own and is judged by the caller.
func (rn *c16Run) servGone(c *c16Cfg, step string, srv *vk.Serv) (info string, outside bool) {
	_, killedBy, desc := srv.ExitInfo()
	if killedBy != "" {
		rn.e.R.Count("servers_killed_from_outside")
		rn.e.R.Inconcl(fmt.Sprintf("%s %s: thruserv (pid %d) was %s from outside the harness", c.key(), step, srv.Pid, desc))
		return desc, true
	}
	return desc, false
}
