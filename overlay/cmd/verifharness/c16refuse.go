//go:build verif

package main

// C16, refused-requests stage: "requests the server turned away" as part of the
// history of a server, for every configuration and in particular the small-limit ones.
//
// The history stage only ever sends requests the configuration admits. Here one
// server per configuration sees, between the documented-valid operations, one or
// more requests of every refusal reason thruserv has:
//
//	/ws       plain HTTP GET of the websocket URL (browser, curl, monitoring probe),
//	          wrong Sec-WebSocket-Version, missing Sec-WebSocket-Key, POST instead of GET,
//	          unknown join code, missing join_code / peer_id, bad role, invalid
//	          max_receivers, max_receivers above --max-receivers-per-sender, a receiver
//	          beyond --max-receivers-per-sender, a socket beyond --max-ws-connections,
//	          a connect beyond the --ws-connects-* bucket
//	/session  GET instead of POST, invalid max_receivers, max_receivers above the limit,
//	          a create beyond --max-sessions, a create beyond the --session-creates-* bucket
//
// (the ones a real client can produce are produced with the real client functions).
// No verdict is attached to a refusal itself (that the server refuses is C14's
// subject); what is judged are the documented-valid operations that follow: limits
// are sized to exactly the valid operations (--max-sessions 2, --max-receivers-per-sender
// 2, --max-ws-connections 5 = every valid socket open at once, burst flags = number of
// requests sent, every request counted as if it took a token), so every valid create /
// connect / envelope must succeed whatever was refused before it.
//
// Order on one server (A, B sessions; [..] only when the limit is on):
//
//	cA hA rA | /session refusals | cB | [creates beyond --max-sessions] | /ws refusals that
//	need no full limit | lA | [receivers beyond the limit on A] | upgrade failures again |
//	hB rB | xA yA | [sockets beyond --max-ws-connections] | xB | [bucket refusals, then
//	wait one refill] | [rB leaves, host B sees peer_left, a new receiver takes the slot]

import (
	"context"
	"crypto/rand"
	"encoding/base64"
	"fmt"
	"io"
	"net/http"
	"net/url"
	"path/filepath"
	"sort"
	"strconv"
	"strings"
	"time"

	"github.com/sheerbytes/sheerbytes/internal/app"
	"github.com/sheerbytes/sheerbytes/internal/clienthttp"
	vk "github.com/sheerbytes/sheerbytes/internal/verifkit"
	"github.com/sheerbytes/sheerbytes/pkg/protocol"
)

const c16RefPrefix = "refused-history:"

// sizes of the valid part of the scenario
const (
	c16RefSessions  = 2 // A, B
	c16RefRecvLimit = 2 // A: rA + lA
	c16RefSockets   = 5 // hA rA lA hB rB
)

type c16ProbeOut struct {
	Status  int
	Body    string
	Outcome string // "refused" | "admitted" | "no-response"
}

func (o c16ProbeOut) short() string {
	b := strings.TrimSpace(o.Body)
	if len(b) > 80 {
		b = b[:80]
	}
	return fmt.Sprintf("%s(%d %s)", o.Outcome, o.Status, b)
}

// c16RawHTTP sends one plain HTTP request (no websocket library involved).
func c16RawHTTP(method, rawURL string, hdr map[string]string) c16ProbeOut {
	req, err := http.NewRequest(method, rawURL, nil)
	if err != nil {
		return c16ProbeOut{Outcome: "no-response", Body: err.Error()}
	}
	for k, v := range hdr {
		req.Header.Set(k, v)
	}
	tr := &http.Transport{DisableKeepAlives: true}
	defer tr.CloseIdleConnections()
	hc := &http.Client{Timeout: 8 * time.Second, Transport: tr}
	resp, err := hc.Do(req)
	if err != nil {
		return c16ProbeOut{Outcome: "no-response", Body: err.Error()}
	}
	out := c16ProbeOut{Status: resp.StatusCode}
	if resp.StatusCode == http.StatusSwitchingProtocols {
		_ = resp.Body.Close()
		out.Outcome = "admitted"
		return out
	}
	b, _ := io.ReadAll(io.LimitReader(resp.Body, 512))
	_ = resp.Body.Close()
	out.Body = string(b)
	if resp.StatusCode >= 400 {
		out.Outcome = "refused"
	} else {
		out.Outcome = "admitted"
	}
	return out
}

func c16WSKey() string {
	b := make([]byte, 16)
	_, _ = rand.Read(b)
	return base64.StdEncoding.EncodeToString(b)
}

// c16RawWS: a websocket handshake (gorilla dialer of the kit) with an arbitrary URL.
func c16RawWS(wsURL string) c16ProbeOut {
	cl, err := vk.DialWS(wsURL, 8*time.Second, nil)
	if err == nil {
		cl.Close(true)
		return c16ProbeOut{Status: 101, Outcome: "admitted"}
	}
	if cl != nil && cl.HTTPStatus >= 400 {
		return c16ProbeOut{Status: cl.HTTPStatus, Body: err.Error(), Outcome: "refused"}
	}
	return c16ProbeOut{Outcome: "no-response", Body: err.Error()}
}

// c16RealDial: the real client (buildWebSocketURL + wsclient.Dial) for a request that is expected to be refused.
func c16RealDial(serverURL, joinCode, peerID, role string, maxRecv int) c16ProbeOut {
	cr, _, el, err := c16Connect(serverURL, joinCode, peerID, role, maxRecv)
	if err == nil {
		cr.close()
		return c16ProbeOut{Status: 101, Outcome: "admitted"}
	}
	// wsclient.Dial reports "websocket upgrade failed (<status>): <body>" for an answered handshake
	if m := strings.Index(err.Error(), "websocket upgrade failed ("); m >= 0 && el < 4*time.Second {
		st, _ := strconv.Atoi(strings.SplitN(err.Error()[m+len("websocket upgrade failed ("):], ")", 2)[0])
		return c16ProbeOut{Status: st, Body: err.Error(), Outcome: "refused"}
	}
	return c16ProbeOut{Outcome: "no-response", Body: err.Error()}
}

// c16Tokens: the harness's lower bound of a per-IP token bucket of the server. Every
// request (refused or not) is counted as if it took a token; when the bound is used
// up the next request waits one refill time measured from the previous response.
type c16Tokens struct {
	on     bool
	free   int
	gap    time.Duration
	last   time.Time
	waited int
}

func c16NewTokens(perMin, burst int) *c16Tokens {
	if perMin <= 0 {
		return &c16Tokens{}
	}
	if burst < 1 {
		burst = 1
	}
	return &c16Tokens{on: true, free: burst, gap: time.Duration(float64(time.Minute)/float64(perMin)) + 700*time.Millisecond}
}

func (t *c16Tokens) cost(n int) time.Duration {
	if !t.on || n <= t.free {
		return 0
	}
	return time.Duration(n-t.free) * t.gap
}

func (t *c16Tokens) before() {
	if !t.on {
		return
	}
	if t.free > 0 {
		t.free--
		return
	}
	if d := time.Until(t.last.Add(t.gap)); d > 0 && !t.last.IsZero() {
		time.Sleep(d)
	}
	t.waited++
}

func (t *c16Tokens) after() { t.last = time.Now() }

// waitRefill: after a request the bucket refused, one full refill time makes one token available.
func (t *c16Tokens) waitRefill() {
	if t.on {
		time.Sleep(t.gap)
		t.free = 0
		t.last = time.Time{}
		t.waited++
	}
}

type c16Refuse struct {
	h       *c16Hist
	c       *c16Cfg
	srv     *vk.Serv
	r       *vk.Rng
	ws, se  *c16Tokens
	// limits of this server that the scenario can fill (0 = off or not "small"): receivers
	// per host, sockets, sessions; Lim = --max-receivers-per-sender in force (0 = off)
	L, M, K, Lim int
	pending []string
	tainted string // name of a probe the server admitted instead of refusing
	skipped int
}

type c16RProbe struct {
	Name  string
	Prio  int
	Phase int
	WS    bool
	Need  func(x *c16Refuse) bool
	Do    func(x *c16Refuse) c16ProbeOut
}

func (x *c16Refuse) sess(i int) *c16HSess { return x.h.sess[i] }

// a URL the real client would build for a new peer of session i
func (x *c16Refuse) clientURL(i int, role string, maxRecv int) string {
	u, _ := app.VerifBuildWebSocketURL(x.srv.URL, x.sess(i).joinCode, c16HexID(x.r), role, maxRecv)
	return u
}

func (x *c16Refuse) httpURL(i int) string {
	return "http" + strings.TrimPrefix(x.clientURL(i, "receiver", 0), "ws")
}

func (x *c16Refuse) wsQuery(q url.Values) string {
	u, _ := url.Parse(x.srv.URL)
	return (&url.URL{Scheme: "ws", Host: u.Host, Path: "/ws", RawQuery: q.Encode()}).String()
}

func c16UpgradeHdr(version string, key bool) map[string]string {
	h := map[string]string{"Connection": "Upgrade", "Upgrade": "websocket", "Sec-WebSocket-Version": version}
	if key {
		h["Sec-WebSocket-Key"] = c16WSKey()
	}
	return h
}

func c16Always(*c16Refuse) bool { return true }
func c16NeedL(x *c16Refuse) bool   { return x.L > 0 }
func c16NeedLim(x *c16Refuse) bool { return x.Lim > 0 }

var c16RefProbes = []c16RProbe{
	// ---- /ws, no limit has to be full ----
	{"ws:plain-http-get", 1, 5, true, c16Always, func(x *c16Refuse) c16ProbeOut { return c16RawHTTP("GET", x.httpURL(0), nil) }},
	{"ws:bad-websocket-version", 3, 5, true, c16Always, func(x *c16Refuse) c16ProbeOut {
		return c16RawHTTP("GET", x.httpURL(1), c16UpgradeHdr("12", true))
	}},
	{"ws:unknown-join-code", 5, 5, true, c16Always, func(x *c16Refuse) c16ProbeOut {
		return c16RealDial(x.srv.URL, "X"+x.sess(0).joinCode+"9", c16HexID(x.r), "receiver", 0)
	}},
	{"ws:post-method", 6, 5, true, c16Always, func(x *c16Refuse) c16ProbeOut {
		return c16RawHTTP("POST", x.httpURL(0), c16UpgradeHdr("13", true))
	}},
	{"ws:bad-role", 7, 5, true, c16Always, func(x *c16Refuse) c16ProbeOut {
		return c16RawWS(x.wsQuery(url.Values{"join_code": {x.sess(1).joinCode}, "peer_id": {c16HexID(x.r)}, "role": {"host"}}))
	}},
	{"ws:missing-websocket-key", 8, 5, true, c16Always, func(x *c16Refuse) c16ProbeOut {
		return c16RawHTTP("GET", x.httpURL(1), c16UpgradeHdr("13", false))
	}},
	{"ws:missing-peer-id", 9, 5, true, c16Always, func(x *c16Refuse) c16ProbeOut {
		return c16RawWS(x.wsQuery(url.Values{"join_code": {x.sess(0).joinCode}, "role": {"receiver"}}))
	}},
	{"ws:invalid-max-receivers", 10, 5, true, c16Always, func(x *c16Refuse) c16ProbeOut {
		return c16RawWS(x.wsQuery(url.Values{"join_code": {x.sess(1).joinCode}, "peer_id": {c16HexID(x.r)}, "role": {"sender"}, "max_receivers": {"abc"}}))
	}},
	{"ws:missing-join-code", 11, 5, true, c16Always, func(x *c16Refuse) c16ProbeOut {
		return c16RawWS(x.wsQuery(url.Values{"peer_id": {c16HexID(x.r)}, "role": {"receiver"}}))
	}},
	{"ws:max-receivers-exceeds-limit", 12, 5, true, c16NeedLim, func(x *c16Refuse) c16ProbeOut {
		return c16RealDial(x.srv.URL, x.sess(1).joinCode, c16HexID(x.r), "sender", x.Lim+1)
	}},
	// ---- /ws, the receiver limit of session A is full ----
	{"ws:receiver-limit-reached", 2, 7, true, c16NeedL, func(x *c16Refuse) c16ProbeOut {
		return c16RealDial(x.srv.URL, x.sess(0).joinCode, c16HexID(x.r), "receiver", 0)
	}},
	{"ws:receiver-limit-reached#2", 14, 7, true, c16NeedL, func(x *c16Refuse) c16ProbeOut {
		return c16RealDial(x.srv.URL, x.sess(0).joinCode, c16HexID(x.r), "receiver", 0)
	}},
	{"ws:plain-http-get#2", 13, 8, true, c16Always, func(x *c16Refuse) c16ProbeOut { return c16RawHTTP("GET", x.httpURL(1), nil) }},
	// ---- /ws, every socket the configuration allows is open ----
	{"ws:connection-limit-reached", 4, 11, true, func(x *c16Refuse) bool { return x.M > 0 }, func(x *c16Refuse) c16ProbeOut {
		return c16RealDial(x.srv.URL, x.sess(1).joinCode, c16HexID(x.r), "receiver", 0)
	}},
	{"ws:connection-limit-reached#2", 15, 11, true, func(x *c16Refuse) bool { return x.M > 0 }, func(x *c16Refuse) c16ProbeOut {
		return c16RawHTTP("GET", x.httpURL(1), nil)
	}},
	// ---- /session ----
	{"session:get-method", 2, 2, false, c16Always, func(x *c16Refuse) c16ProbeOut { return c16RawHTTP("GET", x.srv.URL+"/session", nil) }},
	{"session:invalid-max-receivers", 3, 2, false, c16Always, func(x *c16Refuse) c16ProbeOut {
		return c16RawHTTP("POST", x.srv.URL+"/session?max_receivers=abc", nil)
	}},
	{"session:max-receivers-exceeds-limit", 4, 2, false, c16NeedLim, func(x *c16Refuse) c16ProbeOut { return x.realCreate(x.Lim + 1) }},
	{"session:zero-max-receivers", 5, 2, false, c16Always, func(x *c16Refuse) c16ProbeOut {
		return c16RawHTTP("POST", x.srv.URL+"/session?max_receivers=0", nil)
	}},
	{"session:session-limit-reached", 1, 4, false, func(x *c16Refuse) bool { return x.K > 0 }, func(x *c16Refuse) c16ProbeOut { return x.realCreate(x.sess(0).maxRecv) }},
	{"session:session-limit-reached#2", 6, 4, false, func(x *c16Refuse) bool { return x.K > 0 }, func(x *c16Refuse) c16ProbeOut { return x.realCreate(x.sess(0).maxRecv) }},
}

// realCreate: the real clienthttp.CreateSession for a create that is expected to be refused.
func (x *c16Refuse) realCreate(maxRecv int) c16ProbeOut {
	t0 := time.Now()
	_, _, _, err := clienthttp.CreateSession(context.Background(), x.srv.URL, maxRecv)
	if err == nil {
		return c16ProbeOut{Status: 201, Outcome: "admitted"}
	}
	if time.Since(t0) > 4*time.Second || !x.srv.Alive() {
		return c16ProbeOut{Outcome: "no-response", Body: err.Error()}
	}
	return c16ProbeOut{Status: 0, Body: err.Error(), Outcome: "refused"}
}

// c16RefCfg: copy of a grid configuration with the "small" values sized to the valid
// part of the scenario; with ratesOff the two per-IP rate limiters are switched off
// unless they are factors of the configuration (then the scenario counts tokens).
func c16RefCfg(base *c16Cfg, ratesOff bool, nWS, nSess int) *c16Cfg {
	c := *base
	c.Levels = map[string]string{}
	for k, v := range base.Levels {
		c.Levels[k] = v
	}
	has := func(prefix string) bool {
		for k := range base.Levels {
			if strings.HasPrefix(k, prefix) {
				return true
			}
		}
		return false
	}
	if ratesOff {
		// (Factors / key() were fixed by finish(): the key keeps naming the grid configuration)
		if !has("ws-connects-") {
			c.Levels["ws-connects-per-min"] = "0"
		}
		if !has("session-creates-") {
			c.Levels["session-creates-per-min"] = "0"
		}
	}
	c.Over = map[string]string{
		"max-sessions":             strconv.Itoa(c16RefSessions),
		"max-receivers-per-sender": strconv.Itoa(c16RefRecvLimit),
		"max-ws-connections":       strconv.Itoa(c16RefSockets),
		"ws-connects-burst":        strconv.Itoa(nWS),   // every /ws request sent, refused ones included
		"session-creates-burst":    strconv.Itoa(nSess), // every POST /session sent, refused ones included
		"ws-idle-timeout":          "120s",
	}
	return &c
}

func (x *c16Refuse) probe(p *c16RProbe) {
	e := x.h.rn.e
	if x.tainted != "" || !x.srv.Alive() { // a server that is gone: its port may already belong to another server
		return
	}
	tk := x.se
	if p.WS {
		tk = x.ws
	}
	tk.before()
	out := p.Do(x)
	tk.after()
	name := strings.SplitN(p.Name, "#", 2)[0]
	x.h.trace = append(x.h.trace, "!"+p.Name+":"+out.short())
	switch out.Outcome {
	case "refused":
		e.R.Count("refusal_observed:" + name)
		x.pending = append(x.pending, name)
	case "admitted":
		// not this property's subject; but the history is no longer "refused requests only"
		// (an admitted request may hold a socket / a session): the scenario stops without verdict
		e.R.Count("refusal_probe_admitted:" + name)
		x.tainted = p.Name
	default:
		e.R.Count("refusal_probe_no_response:" + name)
	}
}

// validDone: a documented-valid operation succeeded after the pending refusals.
func (x *c16Refuse) validDone() {
	e := x.h.rn.e
	for _, name := range x.pending {
		e.R.Count("valid_op_after_refusal:" + name)
		e.R.Distinct(x.c.key() + "|" + c16RefPrefix + "valid-after:" + name)
	}
	x.pending = x.pending[:0]
}

func (x *c16Refuse) create(s int) {
	if x.tainted != "" || !x.srv.Alive() {
		x.skipped++
		return
	}
	x.se.before()
	x.h.create(s)
	x.se.after()
	ok := x.h.sess[s].createOK
	x.h.trace = append(x.h.trace, "c"+string(rune('A'+s))+map[bool]string{true: ":ok", false: ":FAILED"}[ok])
	if ok {
		x.validDone()
	}
}

func (x *c16Refuse) connect(s int, role, step string) *c16Role {
	hs := x.h.sess[s]
	if x.tainted != "" || !x.srv.Alive() || hs == nil || hs.failed || !hs.createOK {
		x.skipped++
		x.h.trace = append(x.h.trace, step+string(rune('A'+s))+":skipped")
		return nil
	}
	x.ws.before()
	cr, t := x.h.connect(hs, role, step)
	x.ws.after()
	if role == "sender" {
		hs.tHost = t
	}
	x.h.trace = append(x.h.trace, step+":"+string(rune('A'+s))+map[bool]string{true: ":ok", false: ":FAILED"}[cr != nil])
	if cr != nil {
		x.validDone()
	}
	return cr
}

func (x *c16Refuse) exchange(s int) {
	hs := x.h.sess[s]
	if x.tainted != "" || !x.srv.Alive() || hs == nil || hs.failed || hs.host == nil || hs.recv == nil {
		x.skipped++
		return
	}
	x.h.exchange(hs)
	x.h.trace = append(x.h.trace, "x"+string(rune('A'+s))+map[bool]string{true: ":FAILED", false: ":ok"}[hs.failed])
	if !hs.failed {
		x.validDone()
	}
}

// runRefused runs the scenario for one configuration on one freshly started server.
// budget: how much waiting for bucket refills the refused requests may add.
func (rn *c16Run) runRefused(idx int, base *c16Cfg, ratesOff bool, r *vk.Rng, budget time.Duration, rateProbes bool) {
	e := rn.e
	variant := "as-configured"
	if ratesOff {
		variant = "rate-limiters-off"
	}
	// which probes apply is a function of the limits in force
	probeCfg := c16RefCfg(base, ratesOff, 0, 0)
	x := &c16Refuse{r: r}
	x.Lim = probeCfg.intValue("max-receivers-per-sender", 10)
	if probeCfg.Levels["max-receivers-per-sender"] == "small" {
		x.L = c16RefRecvLimit // the default (10) is never full in this scenario
	}
	if probeCfg.Levels["max-ws-connections"] == "small" {
		x.M = c16RefSockets
	}
	if probeCfg.Levels["max-sessions"] == "small" {
		x.K = c16RefSessions
	}
	var wsP, seP []*c16RProbe
	for i := range c16RefProbes {
		p := &c16RefProbes[i]
		if !p.Need(x) {
			continue
		}
		if p.WS {
			wsP = append(wsP, p)
		} else {
			seP = append(seP, p)
		}
	}
	sort.SliceStable(wsP, func(i, j int) bool { return wsP[i].Prio < wsP[j].Prio })
	sort.SliceStable(seP, func(i, j int) bool { return seP[i].Prio < seP[j].Prio })
	reuse := x.M > 0
	wsValid, seValid := c16RefSockets, c16RefSessions
	if reuse {
		wsValid++
	}
	// the bucket the server will run with; "small" bursts are sized to every request sent
	c := c16RefCfg(base, ratesOff, wsValid+len(wsP), seValid+len(seP))
	x.c = c
	x.ws = c16NewTokens(c.intValue("ws-connects-per-min", 30), c.intValue("ws-connects-burst", 10))
	x.se = c16NewTokens(c.intValue("session-creates-per-min", 10), c.intValue("session-creates-burst", 5))
	// trim the probe lists (lowest priority first) until the waiting fits the budget; at least 1 + 1 stay
	nW, nS := len(wsP), len(seP)
	cost := func() time.Duration { return x.ws.cost(wsValid+nW) + x.se.cost(seValid+nS) }
	for cost() > budget && (nW > 1 || nS > 1) {
		if nW > 1 && (x.ws.cost(wsValid+nW) > 0 || nS <= 1) {
			nW--
		} else if nS > 1 {
			nS--
		} else {
			break
		}
	}
	if cost() > c16HistMaxPacing {
		e.R.Count("refused_history_not_run_pacing_too_long")
		e.R.NoVerd()
		return
	}
	if nW < len(wsP) || nS < len(seP) {
		e.R.Count("refused_history_probe_list_trimmed_to_token_budget")
	}
	wsP, seP = wsP[:nW], seP[:nS]
	// seeded order inside a phase
	probes := append(append([]*c16RProbe{}, wsP...), seP...)
	for i := len(probes) - 1; i > 0; i-- {
		j := r.Intn(i + 1)
		probes[i], probes[j] = probes[j], probes[i]
	}
	phase := func(n int) {
		for _, p := range probes {
			if p.Phase == n {
				x.probe(p)
			}
		}
	}

	o := &c16Order{Name: "refused-requests", K: c16RefSessions + 1, Connects: wsValid,
		Spec: "cA hA rA !session cB !session-limit !ws lA !receiver-limit !ws hB rB xA yA !connection-limit xB !bucket reuse"}
	h := &c16Hist{rn: rn, c: c, o: o, prefix: c16RefPrefix, sess: make([]*c16HSess, c16RefSessions+1),
		owner: map[string]int{}, roleOf: map[*c16Role]int{}, r: r, clean: true}
	h.obs = map[string]any{"config": c.key(), "kind": "refused-history/" + c.Kind, "variant": variant, "args": strings.Join(c.args(), " ")}
	x.h = h
	srv, err := vk.StartServ(filepath.Join(e.BinDir, "thruserv"), c.args(), filepath.Join(e.Work, fmt.Sprintf("serv-r%04d.log", idx)))
	if err != nil {
		rn.mu.Lock()
		rn.startFail++
		rn.mu.Unlock()
		e.R.Inconcl(fmt.Sprintf("%s %s %v", c.key(), c16RefPrefix, err))
		return
	}
	defer srv.Stop()
	h.srv, x.srv = srv, srv
	rn.mu.Lock()
	rn.refStarted++
	rn.mu.Unlock()
	e.R.Count("refused_history_servers_started:" + c.Kind + ":" + variant)

	A, B := 0, 1
	// 1. a complete session
	x.create(A)
	if hs := h.sess[A]; hs.createOK {
		hs.host = x.connect(A, "sender", "connect-host")
		hs.recv = x.connect(A, "receiver", "connect-receiver")
	}
	// 2. /session refusals that need no full limit
	if h.sess[A].createOK {
		phase(2)
	}
	// 3. the second session; 4. creates beyond --max-sessions
	x.create(B)
	if h.sess[A].createOK && h.sess[B].createOK {
		phase(4)
		// 5. /ws refusals that need no full limit (both join codes are valid now)
		phase(5)
	}
	// 6. the late receiver fills session A up to the receiver limit; 7. receivers beyond it; 8. upgrade failures again
	if hs := h.sess[A]; hs.createOK && !hs.failed {
		hs.late = x.connect(A, "receiver", "connect-late-receiver")
		if hs.late != nil && h.sess[B].createOK {
			phase(7)
			phase(8)
		}
	}
	// 9. session B connects after all of that: every socket the configuration allows is open now
	if hs := h.sess[B]; hs.createOK {
		hs.host = x.connect(B, "sender", "connect-host")
		hs.recv = x.connect(B, "receiver", "connect-receiver")
	}
	// 10. envelopes in A
	x.exchange(A)
	if hs := h.sess[A]; x.tainted == "" && !hs.failed && hs.host != nil && hs.late != nil {
		if h.send(hs, hs.late, hs.host, protocol.TypeManifestAccept, "late-exchange", hs.tHost) {
			h.ok("late-exchange")
			x.validDone()
		}
	}
	// 11. sockets beyond --max-ws-connections (only when all five are open)
	full := x.tainted == ""
	for _, hs := range h.sess[:2] {
		if hs == nil || hs.failed || hs.host == nil || hs.recv == nil {
			full = false
		}
	}
	if full && h.sess[A].late != nil {
		phase(11)
	}
	// 12. envelopes in B (its sockets have not sent yet)
	x.exchange(B)
	// 13. requests beyond the connect / create buckets, then one refill time
	wsRateRefused, seRateRefused := false, false
	if full && rateProbes && x.ws.on && x.ws.free == 0 && x.ws.waited == 0 && x.ws.gap <= 8*time.Second {
		// the bucket has refilled a little while the scenario ran: at most its burst
		for i := 0; i < c.intValue("ws-connects-burst", 10)+3 && i < 30 && !wsRateRefused; i++ {
			out := c16RawHTTP("GET", x.httpURL(B), nil)
			h.trace = append(h.trace, "!ws:rate-limit:"+out.short())
			if out.Status == http.StatusTooManyRequests && strings.Contains(out.Body, "rate limit") {
				wsRateRefused = true
				e.R.Count("refusal_observed:ws:rate-limit")
				x.pending = append(x.pending, "ws:rate-limit")
			}
		}
		x.ws.waitRefill()
	}
	if full && rateProbes && x.se.on && x.se.free == 0 && x.se.waited == 0 && x.se.gap <= 8*time.Second && x.K == 0 {
		// creates are valid here (no small --max-sessions): they are admitted until the bucket is empty
		for i := 0; i < c.intValue("session-creates-burst", 5)+3 && i < 30 && !seRateRefused; i++ {
			raw, rerr := vk.CreateSessionRaw(srv.URL, "")
			if rerr != nil {
				break
			}
			h.trace = append(h.trace, fmt.Sprintf("!session:rate-limit:%d", raw.Status))
			if raw.Status == http.StatusTooManyRequests && strings.Contains(raw.Body, "rate limit") {
				seRateRefused = true
				e.R.Count("refusal_observed:session:rate-limit")
				x.pending = append(x.pending, "session:rate-limit")
			}
		}
		x.se.waitRefill()
		if seRateRefused {
			// one refill later a create is admitted again
			x.create(2)
		}
	}
	// 14. a receiver of B leaves; once host B has seen peer_left a new receiver takes its place
	if hs := h.sess[B]; full && reuse && !hs.failed && x.tainted == "" {
		x.reuse(hs)
	} else if full && wsRateRefused && x.M == 0 && !h.sess[B].failed && x.tainted == "" {
		// no socket limit in the way: a second receiver of B is admitted one refill after the bucket refusal
		if cr := x.connect(B, "receiver", "connect-after-bucket-refusal"); cr != nil {
			h.sess[B].late = cr
		}
	}
	if x.tainted == "" {
		h.isolation()
	}
	for _, hs := range h.sess {
		if hs != nil {
			hs.late.close()
			hs.recv.close()
			hs.host.close()
		}
	}
	h.obs["trace"] = strings.Join(h.trace, " ")
	h.obs["server_alive_at_end"] = srv.Alive()
	if !srv.Alive() {
		if info, outside := rn.servGone(h.c, h.prefix+"server-died", srv); !outside {
			h.violate("server-died", "thruserv exited while the clients were using it", map[string]any{"log_tail": srv.LogTail(1500), "exit": info})
		}
	}
	if x.tainted != "" {
		e.R.Count("refused_history_stopped_probe_admitted")
		e.R.NoVerd()
		h.obs["stopped"] = "the server admitted " + x.tainted
	} else if h.clean && x.skipped == 0 {
		rn.mu.Lock()
		rn.refDone++
		rn.mu.Unlock()
		e.R.Count("refused_histories_completed:" + variant)
	}
	rn.mu.Lock()
	if len(rn.perRef) < 30 {
		rn.perRef = append(rn.perRef, h.obs)
	}
	rn.mu.Unlock()
	if idx%7 == 0 {
		e.R.Sample(h.obs)
	}
}

// reuse: the receiver of hs leaves, the host sees peer_left for it (the server has
// processed the disconnect), then a new receiver connects although the socket limit was
// full and requests were refused at the full limit. The slot is given back by the
// server a few statements after the broadcast, so a refusal is retried; a refusal that
// persists is reported as inconclusive (there is no logical event for "slot released").
func (x *c16Refuse) reuse(hs *c16HSess) {
	h, e := x.h, x.h.rn.e
	gone := hs.recv
	gone.close()
	hs.recv = nil
	_, how := hs.host.wait(func(env protocol.Envelope) bool {
		if env.Type != protocol.TypePeerLeft {
			return false
		}
		var pl protocol.PeerLeft
		_ = env.DecodePayload(&pl)
		return pl.PeerID == gone.peerID
	}, c16Watchdog)
	if how != "ok" {
		h.clean = false
		e.R.Inconcl(fmt.Sprintf("%s %sreuse: host never saw peer_left of its receiver (%s)", x.c.key(), c16RefPrefix, how))
		return
	}
	for attempt := 1; attempt <= 30; attempt++ {
		x.ws.before()
		peerID := c16HexID(x.r)
		tBefore := time.Now()
		cr, wsURL, el, err := c16Connect(x.srv.URL, hs.joinCode, peerID, "receiver", 0)
		x.ws.after()
		if err != nil {
			h.trace = append(h.trace, fmt.Sprintf("reuse#%d:refused", attempt))
			if el > 4*time.Second || !x.srv.Alive() {
				break
			}
			e.R.Count("reuse_retry_after_refusal")
			time.Sleep(150 * time.Millisecond)
			continue
		}
		h.owner[peerID] = hs.idx
		h.roles = append(h.roles, cr)
		h.roleOf[cr] = hs.idx
		env, how := cr.wait(c16TypeIs(protocol.TypePeerList), c16Watchdog)
		if how != "ok" || env.SessionID != hs.sessionID {
			hs.failed = true
			if how != "ok" {
				h.clean = false
				h.rn.judgeWait(x.c, c16RefPrefix+"connect-reusing-slot", how, "receiver connected but never received its peer_list", h.det(map[string]any{"url": wsURL}), 0)
			} else {
				h.violate("connect-reusing-slot", "receiver taking a freed socket slot was put into another session", map[string]any{"url": wsURL, "peer_list_session_id": env.SessionID})
			}
			cr.close()
			return
		}
		hs.recv = cr
		h.ok("connect-reusing-slot")
		e.R.Count("reuse_after_limit_refusal_ok")
		h.trace = append(h.trace, fmt.Sprintf("reuse#%d:ok", attempt))
		x.validDone()
		h.rn.checkTurnK(x.c, c16RefPrefix, "", cr, "plain-hex", tBefore, nil, nil)
		if h.send(hs, cr, hs.host, protocol.TypeManifestAccept, "exchange-reusing-slot", hs.tHost) {
			h.ok("exchange-reusing-slot")
		}
		return
	}
	h.clean = false
	e.R.Inconcl(fmt.Sprintf("%s %sconnect-reusing-slot: still refused 30 attempts after the host saw peer_left (no logical event marks the release of the slot)", x.c.key(), c16RefPrefix))
}

// c16RefusalClasses: every refusal reason of the scenario (evidence + Require).
func c16RefusalClasses() []string {
	seen := map[string]bool{}
	var out []string
	for _, p := range c16RefProbes {
		n := strings.SplitN(p.Name, "#", 2)[0]
		if !seen[n] {
			seen[n] = true
			out = append(out, n)
		}
	}
	return append(out, "ws:rate-limit", "session:rate-limit")
}

// c16LimitCombos: the capacity limits two at a time (and all at once) at their small
// value — a refusal by one limit must not use up another.
func c16LimitCombos() []c16Cfg {
	names := []string{"max-sessions", "max-receivers-per-sender", "max-ws-connections", "ws-connects-burst", "session-creates-burst"}
	def := &c16TurnSpellings[0]
	var out []c16Cfg
	for i := 0; i < len(names); i++ {
		for j := i + 1; j < len(names); j++ {
			c := c16Cfg{Levels: map[string]string{names[i]: "small", names[j]: "small"}, TurnMode: "off", Kind: "pair"}
			if (i+j)%2 == 0 {
				c.TurnMode, c.Turn = "on", def
			}
			c.finish()
			out = append(out, c)
		}
	}
	all := c16Cfg{Levels: map[string]string{}, TurnMode: "on", Turn: def, Kind: "row"}
	for _, n := range names {
		all.Levels[n] = "small"
	}
	all.finish()
	return append(out, all)
}
