//go:build verif

package main

// C17 – exactly-once dispatch.
//
//	(b) c17PartB: exhaustive interleaving driver over the real sendFileState
//	    (this file)
//	(a) c17PartA: trace monitor on the real SendManifestMultiStream against a
//	    scripted receiver (c17trace.go)
//	(c) c17PartC: the real HybridScheduler under random Add/Next/Remove orders
//	    (this file)
//
// Finding keys name the violated clause for the class of schedule/input, never
// timing or error text:
//
//	chunk:double-dispatch            a chunk handed out more often than once (+1 for the failed verification chunk)
//	chunk:skipped-needed             FileEnd decided although a chunk the receiver needs was never handed out
//	chunk:sent-present-after-report  a chunk reported present below the verification point handed out after the plan was stored
//	                                 (part a also: its data frame arrived although the plan was stored before the first hand-out)
//	fileend:double / fileend:missing more than one / no end-of-file decision
//	fileend:chunks-in-flight         end-of-file decided while a handed-out chunk was not finished
//	fileend:before-verdict           end-of-file decided while the verification was pending
//	fileend:before-resend            end-of-file decided after a mismatch verdict but before the re-send was handed out
//	fileend:never-emitted:<workers>:<history>  part (a), bounded-progress rule (c17stall.go): a begun file whose handed-out chunks are all
//	                                 written and whose verification was released never gets an end-of-file decision (the re-send
//	                                 never handed out is part of the history class)
//	sched:<...>                      scheduler clauses (part c)

import (
	"fmt"
	"os"
	"sort"
	"strconv"
	"strings"
	"sync"
	"time"

	"github.com/sheerbytes/sheerbytes/internal/scheduler"
	"github.com/sheerbytes/sheerbytes/internal/transfer"
	vk "github.com/sheerbytes/sheerbytes/internal/verifkit"
)

func init() { register("c17", runC17) }

func runC17(e *Env) {
	e.R.Rule = "(b) every interleaving, at mutex granularity, of W workers' take(nextChunkToSend)/finish(markChunkDone)/poll(trySendEnd) steps with the external steps V1 (verifyPending stored), V2 (verdict stored) and P (plan stored; V1 first, then V2 and P in either order) over the real sendFileState, for every chunk count n, bitmap, verification point (incl. none) and verification outcome (off/right/wrong) plus the no-report case; explored by re-execution (DFS over schedules, every prefix replayed on a fresh real state; a prefix is not extended when it reaches a combination of real dispatch state, worker states, delivered external steps and monitor state that was already expanded, nor beyond its first violation; interchangeable idle workers are not distinguished and a worker does not repeat a take+poll cycle that changed nothing; the number of interleavings covered is the number of root-to-end paths of the explored graph, cross-checked against one-by-one enumeration for W=1). Bound: quick n<=3 chunks, W<=2 workers; thorough n<=5, W<=3; the bound of the tier is explored completely (otherwise the run is inconclusive). (a) seeded traces of the real SendManifestMultiStream over loopback QUIC against a scripted receiver (1-3 files incl. empty ones, <=6 chunks, <=3 streams, report at once / inside the grace / after the grace / never, any bitmap, verification chunk, right or wrong hash, hold at send.verify.beforeHash, jitter at send.chunk.beforeFrame), judged per file from the hook event order; plus a second family of such traces whose files have 7, 8, 9, 15, 16, 17, 24, 25, 32, 40, 63 or 64 chunks (bitmaps of 1-8 bytes whose last byte is full, nearly full or holds one bit) and whose reports reach into the last bitmap byte (complete file with/without verification point, prefix ending inside the last byte, last byte only, scattered + last byte, both sides of the last byte boundary, everything below the last byte, anything), chunk count x report pattern walked round-robin; for a report applied before the first chunk was handed out the data frames read by the scripted receiver are judged as well (a chunk reported present below the verification point must not arrive; the failed verification chunk once); plus a third family in which the sender runs with Options.ResumeTimeout > 0 (25-110 ms, every twelfth trace above the 300 ms grace period) over manifests with 1-3 files more than file slots (1-2 slots, 1-4 chunks per file) and the report of a file is written at once, racing the timeout, 15-135 ms after it, never, or at a logical trigger that lies behind the end of the sender's wait for it (first chunk frame read, end-of-file record read, file acknowledged), timings walked round-robin: same per-file oracle, so every later file must still be begun exactly once; a trace on which the watchdog fires while files were never begun although the receiver had acknowledged every begun file is a violation only under the bounded-progress rule (no hook hit / record / frame during the last half of the watchdog period, canary with the same manifest and no reports completes, same end when run again on fresh connections), inconclusive otherwise; plus a fourth family (late-verdict, c17stall.go) with 2-3 workers (every tenth trace 1) over a resumed file of 2-6 chunks whose first chunks are reported present with the highest one as verification chunk (right / wrong hash alternating), in which the last needed chunk is kept in flight at send.chunk.beforeFrame for 240-320 ms (longer than the dispatcher's 200 ms idle poll) and the verdict is held at send.verify.beforeHash until the frame of that chunk has been written plus 15-45 ms (every fifth trace: released while that chunk is in flight), every third trace with a plain second file: same per-file oracle, and in all families a trace that ends at the watchdog with a begun file whose handed-out chunks are all written, whose verification hold has returned and that has no end-of-file event is a violation under the bounded-progress rule (no hook hit / record / frame during the last half of the watchdog period, canary with the same manifest and no reports completes, same end for the same file on fresh connections within three runs), inconclusive otherwise; after the first confirmed execution the remaining traces of the fourth family are skipped. (c) seeded random Add/Next/Remove orders on the real HybridScheduler. distinct = (b) input x worker count x class of schedule end reached (report in time / late, deciding step finish or poll, verdict before plan, report after the end-of-file decision); (a) distinct per-file hook event orders per input, and chunk count x report pattern x verification outcome x report timing of the second family, input x workers x hold mode x event order of the fourth family; (c) distinct operation orders"
	// VERIF_C17_PARTS=abc (development aid): run only the listed parts; the minimum-observation
	// requirements of the parts that ran still apply
	parts := os.Getenv("VERIF_C17_PARTS")
	if parts == "" {
		parts = "barc"
	}
	for _, p := range parts {
		switch p {
		case 'b':
			c17PartB(e)
		case 'a':
			c17PartA(e)
		case 'r': // (a), third family: sender with a resume timeout, more files than slots (c17rto.go)
			c17PartR(e)
		case 'c':
			c17PartC(e)
		}
	}
	// the orchestrator keeps the first few samples of a stage: interleave the parts
	for i := 0; i < 8; i++ {
		for _, part := range []string{"a", "b", "c"} {
			if l := c17Samples[part]; i < len(l) {
				e.R.Sample(l[i])
			}
		}
	}
}

var (
	c17SampleMu sync.Mutex
	c17Samples  = map[string][]any{}
)

func c17Sample(part string, v any) {
	c17SampleMu.Lock()
	if len(c17Samples[part]) < 8 {
		c17Samples[part] = append(c17Samples[part], v)
	}
	c17SampleMu.Unlock()
}

func c17SampleFront(part string, v any) {
	c17SampleMu.Lock()
	c17Samples[part] = append([]any{v}, c17Samples[part]...)
	c17SampleMu.Unlock()
}

// ---------------------------------------------------------------------------
// shared input description

// c17In is one dispatch input: what the receiver reports for an n-chunk file.
type c17In struct {
	N      int    `json:"chunks"`
	Bitmap uint   `json:"bitmap"`       // bit i set = receiver reports chunk i present
	V      int    `json:"verify_chunk"` // == N: no verification point
	Verify string `json:"verify"`       // off | right | wrong
	Report bool   `json:"report"`
}

func (in c17In) bit(i int) bool { return in.Bitmap&(1<<uint(i)) != 0 }

// fsf is the first index that is sent regardless of the bitmap.
func (in c17In) fsf() int { return int(transfer.VerifC17ForceSendFrom(uint32(in.V), uint32(in.N))) }

// needed: the receiver still needs chunk i once the report is known.
func (in c17In) needed(i int) bool {
	if !in.Report {
		return true
	}
	return !(in.bit(i) && i < in.fsf())
}

// realistic: shape the repository's own receiver produces (verification chunk
// = highest reported chunk, or none when the bitmap is empty).
func (in c17In) realistic() bool {
	if !in.Report {
		return true
	}
	hi := -1
	for i := 0; i < in.N; i++ {
		if in.bit(i) {
			hi = i
		}
	}
	if hi < 0 {
		return in.V == in.N
	}
	return in.V == hi && in.Verify != "off"
}

func (in c17In) String() string {
	if !in.Report {
		return fmt.Sprintf("n%d/noreport", in.N)
	}
	bm := make([]byte, in.N)
	for i := range bm {
		bm[i] = '0'
		if in.bit(i) {
			bm[i] = '1'
		}
	}
	v := fmt.Sprint(in.V)
	if in.V >= in.N {
		v = "none"
	}
	return fmt.Sprintf("n%d/bm%s/v%s/%s", in.N, bm, v, in.Verify)
}

func c17Inputs(maxN int) []c17In {
	var out []c17In
	for n := 1; n <= maxN; n++ {
		out = append(out, c17In{N: n, V: n, Verify: "off"})
		for bm := uint(0); bm < 1<<uint(n); bm++ {
			for v := 0; v <= n; v++ {
				if v == n {
					out = append(out, c17In{N: n, Bitmap: bm, V: v, Verify: "off", Report: true})
					continue
				}
				for _, vf := range []string{"off", "right", "wrong"} {
					out = append(out, c17In{N: n, Bitmap: bm, V: v, Verify: vf, Report: true})
				}
			}
		}
	}
	return out
}

// ---------------------------------------------------------------------------
// (b) exhaustive interleaving driver

const (
	c17Take = iota
	c17Finish
	c17Poll
	c17V1
	c17V2
	c17P
)

type c17Step struct {
	K, W uint8
	Out  int8 // take: chunk index or -1; finish/poll: 1 = end decided
}

func (s c17Step) String() string {
	switch s.K {
	case c17Take:
		if s.Out < 0 {
			return fmt.Sprintf("w%d:take=none", s.W)
		}
		return fmt.Sprintf("w%d:take=%d", s.W, s.Out)
	case c17Finish:
		if s.Out == 1 {
			return fmt.Sprintf("w%d:finish=>END", s.W)
		}
		return fmt.Sprintf("w%d:finish", s.W)
	case c17Poll:
		if s.Out == 1 {
			return fmt.Sprintf("w%d:poll=>END", s.W)
		}
		return fmt.Sprintf("w%d:poll", s.W)
	case c17V1:
		return "V1(verifyPending)"
	case c17V2:
		return "V2(verdict)"
	default:
		return "P(plan)"
	}
}

const c17MaxN = 6

var c17ViolKeys = []string{"", "chunk:out-of-range", "chunk:double-dispatch", "chunk:sent-present-after-report", "chunk:taken-after-fileend",
	"chunk:skipped-needed", "fileend:double", "fileend:chunks-in-flight", "fileend:before-verdict", "fileend:before-resend", "fileend:missing"}

func c17ViolIdx(k string) uint8 {
	for i, s := range c17ViolKeys {
		if s == k {
			return uint8(i)
		}
	}
	panic("unknown key " + k)
}

// c17Key identifies a node of the search: the real dispatch state, the
// workers' local states, which external steps happened and the monitor state.
// Two schedule prefixes with equal keys have identical futures and verdicts.
type c17Key struct {
	snap        transfer.VerifC17Snap
	ws          [3]uint8
	hold        [3]int8
	wflag       [3]uint8 // idle: 1 = last take+poll cycle changed nothing and nothing changed since; polling: 1 = nothing changed since the failed take
	ext         uint8    // V1, V2, P happened
	takeCnt     [c17MaxN]uint8
	takeAfterP  [c17MaxN]uint8
	takeAfterV2 [c17MaxN]uint8
	inflight    int8
	endCnt      uint8
	mon         uint8 // workerBeforeP, reportAfterEnd, verdictBeforePlan, endBy poll
	lateResend  uint8
	viol        uint8
	extra       string // values of sendFileState/resumePlan fields the snapshot shim does not know ("" on the unchanged tree)
}

// c17Exec is one re-execution: the real state plus worker-local states and
// the monitor.
type c17Exec struct {
	in  c17In
	w   int
	st  *transfer.VerifC17State
	bmb []byte

	ws        [3]uint8 // 0 idle, 1 holding, 2 polling
	hold      [3]int
	blocked   [3]int
	verAtTake [3]int
	ver       int
	v1, v2, p bool
	snap      transfer.VerifC17Snap
	extra     string

	// monitor
	trace             []c17Step
	takeCnt           [c17MaxN]int
	takeAfterP        [c17MaxN]int
	takeAfterV2       [c17MaxN]int
	inflight          int
	endCnt            int
	endBy             uint8
	workerBeforeP     bool // a worker step happened before P (late report)
	reportAfterEnd    bool // V1 (or P without verification) came after the end-of-file decision
	verdictBeforePlan bool
	lateResend        int
	violKey           string
	violWhat          string
	violAt            int
}

func (x *c17Exec) reset() {
	x.st = transfer.VerifC17NewState(0xC17, int64(x.in.N)*8, 8)
	x.ws, x.hold = [3]uint8{}, [3]int{}
	x.blocked = [3]int{-1, -1, -1}
	x.verAtTake = [3]int{}
	x.ver = 0
	x.v1, x.v2, x.p = false, false, false
	x.snap = x.st.Snapshot()
	x.extra = c17Extra(x.st)
	x.trace = x.trace[:0]
	x.takeCnt, x.takeAfterP, x.takeAfterV2 = [c17MaxN]int{}, [c17MaxN]int{}, [c17MaxN]int{}
	x.inflight, x.endCnt, x.endBy = 0, 0, 0
	x.workerBeforeP, x.reportAfterEnd, x.verdictBeforePlan = false, false, false
	x.lateResend = 0
	x.violKey, x.violWhat, x.violAt = "", "", -1
}

func (x *c17Exec) key() c17Key {
	k := c17Key{snap: x.snap, ws: x.ws, inflight: int8(x.inflight), endCnt: uint8(x.endCnt), lateResend: uint8(x.lateResend), viol: c17ViolIdx(x.violKey), extra: x.extra}
	for w := 0; w < x.w; w++ {
		switch x.ws[w] {
		case 0:
			if x.blocked[w] >= 0 && x.blocked[w] == x.ver {
				k.wflag[w] = 1
			}
		case 1:
			k.hold[w] = int8(x.hold[w])
		case 2:
			if x.verAtTake[w] == x.ver {
				k.wflag[w] = 1
			}
		}
	}
	if x.v1 {
		k.ext |= 1
	}
	if x.v2 {
		k.ext |= 2
	}
	if x.p {
		k.ext |= 4
	}
	for i := 0; i < c17MaxN; i++ {
		k.takeCnt[i], k.takeAfterP[i], k.takeAfterV2[i] = uint8(x.takeCnt[i]), uint8(x.takeAfterP[i]), uint8(x.takeAfterV2[i])
	}
	if x.workerBeforeP {
		k.mon |= 1
	}
	if x.reportAfterEnd {
		k.mon |= 2
	}
	if x.verdictBeforePlan {
		k.mon |= 4
	}
	if x.endCnt > 0 && x.endBy == c17Poll {
		k.mon |= 8
	}
	return k
}

func (x *c17Exec) violate(key, what string) {
	if x.violKey == "" {
		x.violKey, x.violWhat, x.violAt = key, what, len(x.trace)
	}
}

func (x *c17Exec) verifyOn() bool { return x.in.Report && x.in.Verify != "off" }
func (x *c17Exec) wrong() bool    { return x.in.Report && x.in.Verify == "wrong" }

// enabled lists the steps that may come next.
func (x *c17Exec) enabled(buf []c17Step) []c17Step {
	buf = buf[:0]
	idle := false
	for w := 0; w < x.w; w++ {
		switch x.ws[w] {
		case 0:
			// interchangeable idle workers: only the first enabled one steps;
			// a worker whose last take+poll cycle changed nothing waits for a change
			if !idle && (x.blocked[w] < 0 || x.blocked[w] != x.ver) {
				buf = append(buf, c17Step{K: c17Take, W: uint8(w)})
				idle = true
			}
		case 1:
			buf = append(buf, c17Step{K: c17Finish, W: uint8(w)})
		case 2:
			buf = append(buf, c17Step{K: c17Poll, W: uint8(w)})
		}
	}
	if x.in.Report {
		if x.verifyOn() {
			if !x.v1 {
				buf = append(buf, c17Step{K: c17V1})
			} else {
				if !x.v2 {
					buf = append(buf, c17Step{K: c17V2})
				}
				if !x.p {
					buf = append(buf, c17Step{K: c17P})
				}
			}
		} else if !x.p {
			buf = append(buf, c17Step{K: c17P})
		}
	}
	return buf
}

func (x *c17Exec) onEnd(by uint8) {
	x.endCnt++
	if x.endCnt > 1 {
		x.violate("fileend:double", "a second end-of-file decision was returned")
		return
	}
	x.endBy = by
	if x.inflight > 0 {
		x.violate("fileend:chunks-in-flight", fmt.Sprintf("end-of-file decided while %d handed-out chunk(s) were not finished", x.inflight))
	}
	if x.v1 && !x.v2 {
		x.violate("fileend:before-verdict", "end-of-file decided while the verification was pending")
	}
	for i := 0; i < x.in.N; i++ {
		req := !x.in.Report || !x.p || x.in.needed(i)
		if req && x.takeCnt[i] == 0 {
			x.violate("chunk:skipped-needed", fmt.Sprintf("end-of-file decided although needed chunk %d was never handed out", i))
		}
	}
	if x.v2 && x.wrong() {
		v := x.in.V
		if x.takeAfterV2[v] == 0 || (!x.in.bit(v) && x.takeCnt[v] < 2) {
			x.violate("fileend:before-resend", fmt.Sprintf("end-of-file decided after the mismatch verdict for chunk %d was stored but before its re-send was handed out", v))
		}
	}
}

func (x *c17Exec) apply(s c17Step) {
	w := int(s.W)
	s.Out = 0
	switch s.K {
	case c17Take:
		if !x.p {
			x.workerBeforeP = true
		}
		idx, _, ok := x.st.Next()
		if !ok {
			s.Out = -1
			x.ws[w] = 2
			break
		}
		s.Out = int8(idx)
		x.ws[w], x.hold[w] = 1, int(idx)
		x.inflight++
		i := int(idx)
		if i >= x.in.N {
			x.violate("chunk:out-of-range", fmt.Sprintf("chunk %d handed out for a %d-chunk file", i, x.in.N))
			break
		}
		extra := 0
		if x.wrong() && x.v2 && i == x.in.V {
			extra = 1
		}
		x.takeCnt[i]++
		if x.takeCnt[i] > 1+extra {
			x.violate("chunk:double-dispatch", fmt.Sprintf("chunk %d handed out %d times", i, x.takeCnt[i]))
		}
		if x.p && !x.in.needed(i) {
			x.takeAfterP[i]++
			if x.takeAfterP[i] > extra {
				x.violate("chunk:sent-present-after-report", fmt.Sprintf("chunk %d (reported present, below the verification point) handed out after the plan was stored", i))
			}
		}
		if x.v2 {
			x.takeAfterV2[i]++
		}
		if x.endCnt > 0 {
			if x.reportAfterEnd && x.wrong() && i == x.in.V {
				x.lateResend++
			} else {
				x.violate("chunk:taken-after-fileend", fmt.Sprintf("chunk %d handed out after the end-of-file decision", i))
			}
		}
	case c17Finish:
		if !x.p {
			x.workerBeforeP = true
		}
		end := x.st.Done()
		x.inflight--
		x.ws[w] = 0
		x.blocked[w] = -1
		if end {
			s.Out = 1
			x.onEnd(c17Finish)
		}
	case c17Poll:
		if !x.p {
			x.workerBeforeP = true
		}
		end := x.st.TryEnd()
		x.ws[w] = 0
		if end {
			s.Out = 1
			x.onEnd(c17Poll)
		}
	case c17V1:
		x.st.SetVerifyPending()
		x.v1 = true
		if x.endCnt > 0 {
			x.reportAfterEnd = true
		}
	case c17V2:
		x.st.StoreVerdict(uint32(x.in.V), x.wrong())
		x.v2 = true
		if !x.p {
			x.verdictBeforePlan = true
		}
	case c17P:
		if err := x.st.StorePlan(x.bmb, uint32(x.in.N), uint32(x.in.fsf()), uint32(x.in.V)); err != nil {
			panic(err)
		}
		x.p = true
		if !x.verifyOn() && x.endCnt > 0 {
			x.reportAfterEnd = true
		}
	}
	after, afterX := x.st.Snapshot(), c17Extra(x.st)
	if after != x.snap || afterX != x.extra {
		x.ver++
		x.snap, x.extra = after, afterX
	}
	switch s.K {
	case c17Take:
		if s.Out < 0 {
			x.verAtTake[w] = x.ver
		}
	case c17Poll:
		if s.Out == 0 && x.ver == x.verAtTake[w] {
			x.blocked[w] = x.ver
		} else {
			x.blocked[w] = -1
		}
	}
	x.trace = append(x.trace, s)
}

// finish is the check at the end of a schedule (no step enabled any more).
func (x *c17Exec) finish() {
	if x.endCnt == 0 {
		x.violate("fileend:missing", "no end-of-file decision although every step that could change the state was taken")
	}
}

func c17TraceString(tr []c17Step) string {
	parts := make([]string, len(tr))
	for i, s := range tr {
		parts[i] = s.String()
	}
	return strings.Join(parts, " ")
}

func (x *c17Exec) class() string {
	var p []string
	switch {
	case !x.in.Report:
		p = append(p, "noreport")
	case x.workerBeforeP:
		p = append(p, "late")
	default:
		p = append(p, "timely")
	}
	if x.endCnt == 0 {
		p = append(p, "no-end")
	} else if x.endBy == c17Poll {
		p = append(p, "end-by-poll")
	} else {
		p = append(p, "end-by-finish")
	}
	if x.verdictBeforePlan {
		p = append(p, "verdict-before-plan")
	}
	if x.reportAfterEnd {
		p = append(p, "report-after-end")
	}
	if x.lateResend > 0 {
		p = append(p, "resend-after-end(late report)")
	}
	return strings.Join(p, ",")
}

// c17Witness is the smallest violating schedule seen for a key.
type c17Witness struct {
	Key      string `json:"key"`
	In       c17In  `json:"input"`
	Workers  int    `json:"workers"`
	Schedule string `json:"schedule"`
	What     string `json:"what"`
	Steps    int    `json:"steps"`
	Class    string `json:"class"`
}

type c17BStats struct {
	mu          sync.Mutex
	states      int64
	transitions int64
	reexec      int64
	steps       int64
	paths       float64
	maxDepth    int
	terminals   int64
	byClass     map[string]float64
	violClass   map[string]float64
	wit         map[string]c17Witness
	perBound    map[string]float64
	statesBound map[string]int64
	jobsDone    int
	xchecks     int64
	xcheckBad   int64
	capped      int
}

type c17Edge struct {
	step c17Step
	to   int32
}

type c17Node struct {
	edges    []c17Edge
	depth    int32
	terminal bool
	viol     uint8 // first violation on every path into this node (part of the key), incl. the end-of-schedule check for terminals
	mon      uint8 // class bits of the key (late, report after end, verdict before plan, end by poll)
	class    string
}

// c17Graph is the result of exploring one (input, workers) pair.
type c17Graph struct {
	in          c17In
	w           int
	nodes       []c17Node
	reexec      int64
	steps       int64
	transitions int64
	xchecks     int64
	xcheckBad   int64
	capped      bool
}

const c17MaxNodes = 4_000_000

func c17RecheckEvery() uint64 {
	if c17FieldsChanged {
		return 8
	}
	return 64
}

// c17Explore expands every reachable node once. A node is reached by
// re-executing its schedule prefix on a fresh real sendFileState; a prefix
// that leads to an already expanded node is not extended (same key = same
// future). Every 64th such revisit is expanded again and compared with the
// recorded successors to check that the key really determines the future.
func c17Explore(in c17In, w int) *c17Graph {
	g := &c17Graph{in: in, w: w}
	x := &c17Exec{in: in, w: w}
	if in.Report {
		x.bmb = []byte{byte(in.Bitmap)}
	}
	ids := map[c17Key]int32{}
	var path []c17Step
	replay := func() {
		x.reset()
		for _, s := range path {
			x.apply(s)
		}
		g.reexec++
		g.steps += int64(len(path))
	}
	var revisit uint64
	var expand func(id int32, check bool)
	expand = func(id int32, check bool) {
		opts := append([]c17Step(nil), x.enabled(nil)...)
		cut := false
		if x.violKey != "" {
			// a schedule is not extended beyond its first violation (the verdict is in)
			opts = nil
		} else if len(g.nodes) > c17MaxNodes {
			// only matters for broken trees with unbounded behaviour
			opts, cut, g.capped = nil, true, true
		}
		if len(opts) == 0 {
			if !cut {
				x.finish()
			}
			if check {
				if !g.nodes[id].terminal || g.nodes[id].viol != c17ViolIdx(x.violKey) {
					g.xcheckBad++
				}
				return
			}
			g.nodes[id].terminal = true
			g.nodes[id].viol = c17ViolIdx(x.violKey)
			g.nodes[id].class = x.class()
			return
		}
		if check && len(opts) != len(g.nodes[id].edges) {
			g.xcheckBad++
			return
		}
		depth := len(path)
		for k, s := range opts {
			if k > 0 {
				path = path[:depth]
				replay()
			}
			x.apply(s)
			g.steps++
			applied := x.trace[len(x.trace)-1]
			key := x.key()
			cid, seen := ids[key]
			if check {
				e := g.nodes[id].edges[k]
				if !seen || e.to != cid || e.step != applied {
					g.xcheckBad++
				}
				continue
			}
			g.transitions++
			if !seen {
				cid = int32(len(g.nodes))
				ids[key] = cid
				g.nodes = append(g.nodes, c17Node{depth: int32(depth + 1), viol: key.viol, mon: key.mon})
			}
			g.nodes[id].edges = append(g.nodes[id].edges, c17Edge{step: applied, to: cid})
			if !seen {
				path = append(path[:depth], applied)
				expand(cid, false)
			} else {
				revisit++
				if revisit%c17RecheckEvery() == 0 {
					g.xchecks++
					path = append(path[:depth], applied)
					expand(cid, true)
				}
			}
		}
		path = path[:depth]
	}
	x.reset()
	g.reexec++
	ids[x.key()] = 0
	g.nodes = append(g.nodes, c17Node{})
	expand(0, false)
	return g
}

// c17Summarise counts the schedules (root-to-terminal paths) of the graph by
// class and finds the shortest violating schedule per key.
func (g *c17Graph) summarise(agg *c17BStats) {
	n := len(g.nodes)
	// paths into each node, in topological order (Kahn)
	indeg := make([]int32, n)
	for i := range g.nodes {
		for _, e := range g.nodes[i].edges {
			indeg[e.to]++
		}
	}
	pathsTo := make([]float64, n)
	pathsTo[0] = 1
	queue := []int32{0}
	visited := 0
	var total float64
	byClass := map[string]float64{}
	violClass := map[string]float64{}
	terminals := 0
	maxDepth := 0
	for len(queue) > 0 {
		id := queue[0]
		queue = queue[1:]
		visited++
		nd := &g.nodes[id]
		if nd.terminal {
			terminals++
			total += pathsTo[id]
			byClass[nd.class] += pathsTo[id]
			if nd.viol != 0 {
				violClass[c17ViolKeys[nd.viol]+" ["+nd.class+fmt.Sprintf(",realistic-input=%v", g.in.realistic())+"]"] += pathsTo[id]
			}
		}
		for _, e := range nd.edges {
			pathsTo[e.to] += pathsTo[id]
			indeg[e.to]--
			if indeg[e.to] == 0 {
				queue = append(queue, e.to)
			}
		}
	}
	acyclic := visited == n
	// shortest path to the first node of each violation key (BFS over edges)
	dist := make([]int32, n)
	prev := make([]int32, n)
	pstep := make([]c17Step, n)
	for i := range dist {
		dist[i] = -1
	}
	dist[0] = 0
	bq := []int32{0}
	first := map[uint16]int32{} // (violation key, class bits) -> nearest node
	for len(bq) > 0 {
		id := bq[0]
		bq = bq[1:]
		if int(dist[id]) > maxDepth {
			maxDepth = int(dist[id])
		}
		if v := g.nodes[id].viol; v != 0 {
			fk := uint16(v)<<8 | uint16(g.nodes[id].mon)
			if _, ok := first[fk]; !ok {
				first[fk] = id
			}
		}
		for _, e := range g.nodes[id].edges {
			if dist[e.to] < 0 {
				dist[e.to] = dist[id] + 1
				prev[e.to] = id
				pstep[e.to] = e.step
				bq = append(bq, e.to)
			}
		}
	}
	wit := map[string]c17Witness{}
	for fk, id := range first {
		v := uint8(fk >> 8)
		var steps []c17Step
		for cur := id; cur != 0; cur = prev[cur] {
			steps = append(steps, pstep[cur])
		}
		for i, j := 0, len(steps)-1; i < j; i, j = i+1, j-1 {
			steps[i], steps[j] = steps[j], steps[i]
		}
		// re-execute the witness on a fresh real state
		x := &c17Exec{in: g.in, w: g.w}
		if g.in.Report {
			x.bmb = []byte{byte(g.in.Bitmap)}
		}
		x.reset()
		for _, s := range steps {
			x.apply(s)
		}
		if len(x.enabled(nil)) == 0 {
			x.finish()
		}
		key := c17ViolKeys[v]
		if x.violKey != key {
			agg.mu.Lock()
			agg.xcheckBad++
			agg.mu.Unlock()
			continue
		}
		cl := x.class() + fmt.Sprintf(",realistic-input=%v", g.in.realistic())
		wn := c17Witness{Key: key, In: g.in, Workers: g.w, Schedule: c17TraceString(x.trace), What: x.violWhat, Steps: len(steps), Class: cl}
		if old, ok := wit[key+" ["+cl+"]"]; !ok || wn.Steps < old.Steps {
			wit[key+" ["+cl+"]"] = wn
		}
	}
	agg.mu.Lock()
	defer agg.mu.Unlock()
	if !acyclic {
		agg.xcheckBad++
	}
	if g.capped {
		agg.capped++
	}
	agg.states += int64(n)
	agg.transitions += g.transitions
	agg.reexec += g.reexec
	agg.steps += g.steps
	agg.paths += total
	agg.terminals += int64(terminals)
	agg.xchecks += g.xchecks
	agg.xcheckBad += g.xcheckBad
	if maxDepth > agg.maxDepth {
		agg.maxDepth = maxDepth
	}
	for k, v := range byClass {
		agg.byClass[k] += v
	}
	for k, v := range violClass {
		agg.violClass[k] += v
	}
	for k, wn := range wit {
		old, ok := agg.wit[k]
		better := !ok || wn.Steps < old.Steps || (wn.Steps == old.Steps && (wn.In.N < old.In.N || (wn.In.N == old.In.N && wn.Workers < old.Workers)))
		if better {
			agg.wit[k] = wn
		}
	}
	b := fmt.Sprintf("n%d/w%d", g.in.N, g.w)
	agg.perBound[b] += total
	agg.statesBound[b] += int64(n)
	agg.jobsDone++
}

// c17Stateless enumerates every schedule of (in, w) one by one (no node is
// ever merged); used on the small bound to cross-check the graph search.
func c17Stateless(in c17In, w int) (leaves int64, viol map[string]int64) {
	x := &c17Exec{in: in, w: w}
	if in.Report {
		x.bmb = []byte{byte(in.Bitmap)}
	}
	viol = map[string]int64{}
	var stack, counts []int
	var buf []c17Step
	for {
		x.reset()
		d := 0
		for {
			buf = x.enabled(buf)
			if len(buf) == 0 || x.violKey != "" {
				break
			}
			if d == len(stack) {
				stack = append(stack, 0)
				counts = append(counts, 0)
			}
			counts[d] = len(buf)
			x.apply(buf[stack[d]])
			d++
		}
		x.finish()
		leaves++
		if x.violKey != "" {
			viol[x.violKey]++
		}
		stack, counts = stack[:d], counts[:d]
		for len(stack) > 0 && stack[len(stack)-1]+1 >= counts[len(stack)-1] {
			stack, counts = stack[:len(stack)-1], counts[:len(counts)-1]
		}
		if len(stack) == 0 {
			break
		}
		stack[len(stack)-1]++
	}
	return
}

const (
	c17WantStateFields = "bytesSent,chunkSize,endSent,file,filePath,inFlight,item,key,mu,nextChunk,plan,readyCh,readyErr,readyOnce,resendChunk,resendPending,scheduleDone,totalChunks,verifyPending"
	c17WantPlanFields  = "bitmap,forceSendFrom,skippedChunks,totalChunks,verifiedChunk"
)

// c17FieldsChanged: the tree under test has sendFileState/resumePlan fields the
// snapshot shim was not written for. The driver then adds a rendering of the
// unknown fields (transfer.VerifC17State.ExtraState) to its node key and to its
// "did this step change anything" test, and re-expands every 8th revisited
// node instead of every 64th to check that the key still determines the future.
var c17FieldsChanged bool

func c17Extra(st *transfer.VerifC17State) string {
	if !c17FieldsChanged {
		return ""
	}
	return st.ExtraState(c17WantStateFields, c17WantPlanFields)
}

// c17FieldDiff returns the names in have that are not in want and vice versa.
func c17FieldDiff(have, want string) (added, removed []string) {
	h, w := map[string]bool{}, map[string]bool{}
	for _, n := range strings.Split(have, ",") {
		h[n] = true
	}
	for _, n := range strings.Split(want, ",") {
		w[n] = true
		if !h[n] {
			removed = append(removed, n)
		}
	}
	for _, n := range strings.Split(have, ",") {
		if !w[n] {
			added = append(added, n)
		}
	}
	return
}

func c17PartB(e *Env) {
	sf, pf := transfer.VerifC17StateFields()
	if sf != c17WantStateFields || pf != c17WantPlanFields {
		// diagnostic, not a verdict: fields the snapshot does not know become part of the node key
		// generically (a field that disappeared would not have compiled in the shim)
		c17FieldsChanged = true
		sa, sr := c17FieldDiff(sf, c17WantStateFields)
		pa, pr := c17FieldDiff(pf, c17WantPlanFields)
		e.R.Count("b_state_fields_differ")
		e.R.SetExtra("b_state_fields_differ", map[string]any{"sendFileState_added": sa, "sendFileState_removed": sr, "resumePlan_added": pa, "resumePlan_removed": pr,
			"handling": "values of the added fields are part of the node key and of the stutter test; key-determinism re-expansion every 8th revisit"})
		vk.Logf("c17(b): sendFileState/resumePlan fields differ from the snapshot shim (added %v %v, removed %v %v): generic rendering of the added fields joins the node key", sa, pa, sr, pr)
	}
	maxN, maxW := e.Pick(3, 5), e.Pick(2, 3)
	if v, err := strconv.Atoi(os.Getenv("VERIF_C17_MAXN")); err == nil && v > 0 { // development aid; a reduced bound fails the requirement below
		maxN = v
	}
	if v, err := strconv.Atoi(os.Getenv("VERIF_C17_MAXW")); err == nil && v > 0 {
		maxW = v
	}
	fullBound := maxN == e.Pick(3, 5) && maxW == e.Pick(2, 3)
	inputs := c17Inputs(maxN)
	type job struct {
		in c17In
		w  int
	}
	var jobs []job
	for _, in := range inputs {
		for w := 1; w <= maxW; w++ {
			jobs = append(jobs, job{in, w})
		}
	}
	// big jobs first
	sort.SliceStable(jobs, func(i, j int) bool {
		return jobs[i].in.N*10+jobs[i].w > jobs[j].in.N*10+jobs[j].w
	})
	agg := &c17BStats{byClass: map[string]float64{}, violClass: map[string]float64{}, wit: map[string]c17Witness{}, perBound: map[string]float64{}, statesBound: map[string]int64{}}
	start := time.Now()
	var smu sync.Mutex
	var slPaths, slGraphPaths float64
	slMismatch := 0
	vk.ParallelDo(len(jobs), 16, func(i int) {
		j := jobs[i]
		g := c17Explore(j.in, j.w)
		g.summarise(agg)
		classes := map[string]int{}
		var gp float64
		for id := range g.nodes {
			if g.nodes[id].terminal {
				classes[g.nodes[id].class]++
			}
		}
		for c := range classes {
			e.R.Distinct(fmt.Sprintf("b:%s/w%d|%s", j.in, j.w, c))
		}
		if j.w == 1 {
			leaves, viol := c17Stateless(j.in, j.w)
			// paths of this graph
			one := &c17BStats{byClass: map[string]float64{}, violClass: map[string]float64{}, wit: map[string]c17Witness{}, perBound: map[string]float64{}, statesBound: map[string]int64{}}
			g.summarise(one)
			gp = one.paths
			var gv, sv float64
			for _, v := range one.violClass {
				gv += v
			}
			for _, v := range viol {
				sv += float64(v)
			}
			smu.Lock()
			slPaths += float64(leaves)
			slGraphPaths += gp
			if float64(leaves) != gp || gv != sv {
				slMismatch++
			}
			smu.Unlock()
		}
		if i%131 == 0 {
			c17Sample("b", map[string]any{"part": "b", "input": j.in.String(), "workers": j.w, "states": len(g.nodes), "transitions": g.transitions, "reexecutions": g.reexec})
		}
	})
	e.R.EvalN(int(agg.reexec))
	// one violation per key; the witness shown first is the shortest schedule of the most
	// relevant class (report in time and an input the repository's own receiver produces)
	rank := func(w c17Witness) int {
		r := 0
		if !strings.HasPrefix(w.Class, "timely") {
			r += 2
		}
		if !strings.Contains(w.Class, "realistic-input=true") {
			r++
		}
		return r
	}
	best := map[string]c17Witness{}
	byKey := map[string][]c17Witness{}
	for _, wn := range agg.wit {
		byKey[wn.Key] = append(byKey[wn.Key], wn)
		old, ok := best[wn.Key]
		if !ok || rank(wn) < rank(old) || (rank(wn) == rank(old) && wn.Steps < old.Steps) {
			best[wn.Key] = wn
		}
	}
	for key, wn := range best {
		all := byKey[key]
		sort.Slice(all, func(i, j int) bool { return all[i].Class < all[j].Class })
		e.R.Violate(key, wn.What+" (method-granularity interleaving over the real sendFileState; shortest schedule with the report in time: "+wn.Schedule+"; input "+wn.In.String()+", "+fmt.Sprint(wn.Workers)+" worker(s))",
			map[string]any{"part": "b", "input": wn.In, "input_str": wn.In.String(), "workers": wn.Workers, "schedule": wn.Schedule, "class": wn.Class},
			map[string]any{"violating_interleavings_by_class": c17FilterF(agg.violClass, key), "shortest_schedule_per_class": all})
	}
	e.R.SetExtra("b_states_expanded", agg.states)
	e.R.SetExtra("b_transitions_executed", agg.transitions)
	e.R.SetExtra("b_schedule_prefixes_reexecuted", agg.reexec)
	e.R.SetExtra("b_steps_executed_on_real_state", agg.steps)
	e.R.SetExtra("b_interleavings_covered", agg.paths)
	e.R.SetExtra("b_terminal_states", agg.terminals)
	e.R.SetExtra("b_max_schedule_length", agg.maxDepth)
	e.R.SetExtra("b_inputs", len(inputs))
	e.R.SetExtra("b_input_x_workers_explored", agg.jobsDone)
	e.R.SetExtra("b_bound", map[string]any{"max_chunks": maxN, "max_workers": maxW, "complete": agg.jobsDone == len(jobs) && fullBound})
	e.R.SetExtra("b_interleavings_by_bound", agg.perBound)
	e.R.SetExtra("b_states_by_bound", agg.statesBound)
	e.R.SetExtra("b_interleavings_by_class", agg.byClass)
	e.R.SetExtra("b_violating_interleavings_by_class", agg.violClass)
	e.R.SetExtra("b_key_determinism_checks", map[string]any{"revisits_reexpanded": agg.xchecks, "mismatches": agg.xcheckBad})
	e.R.SetExtra("b_one_by_one_crosscheck_w1", map[string]any{"schedules_enumerated_one_by_one": slPaths, "paths_of_graph": slGraphPaths, "inputs_with_mismatch": slMismatch})
	e.R.SetExtra("b_wall_s", time.Since(start).Seconds())
	c17SampleFront("b", map[string]any{"part": "b", "states": agg.states, "transitions": agg.transitions, "reexecutions": agg.reexec, "interleavings_covered": agg.paths,
		"inputs": len(inputs), "max_chunks": maxN, "max_workers": maxW, "by_class": agg.byClass})
	e.R.Require(agg.jobsDone == len(jobs) && agg.states > 0 && fullBound && agg.capped == 0, "C17(b): bound not fully explored")
	if agg.capped > 0 {
		e.R.Inconcl(fmt.Sprintf("C17(b): %d searches hit the node cap", agg.capped))
	}
	e.R.Require(agg.xcheckBad == 0 && slMismatch == 0, fmt.Sprintf("C17(b): search self-checks failed (key determinism mismatches %d, one-by-one mismatches %d)", agg.xcheckBad, slMismatch))
	if agg.xcheckBad != 0 || slMismatch != 0 {
		e.R.Inconcl("C17(b): the node key does not determine the future or the path count disagrees with one-by-one enumeration")
	}
	cl := 0
	for c, v := range agg.byClass {
		if v > 0 && (strings.HasPrefix(c, "timely") || strings.HasPrefix(c, "late")) {
			cl++
		}
	}
	e.R.Require(cl >= 4, "C17(b): timely/late classes not reached")
	vk.Logf("c17(b): %d states, %d transitions, %d re-executions, %.3g interleavings, %d inputs x workers, %.1fs", agg.states, agg.transitions, agg.reexec, agg.paths, agg.jobsDone, time.Since(start).Seconds())
}

func c17FilterF(m map[string]float64, key string) map[string]float64 {
	out := map[string]float64{}
	for k, v := range m {
		if strings.HasPrefix(k, key+" ") {
			out[k] = v
		}
	}
	return out
}

// ---------------------------------------------------------------------------
// (c) the real HybridScheduler

func c17PartC(e *Env) {
	r := vk.NewRng(e.Seed ^ vk.HashStr("c17c"+e.Tier))
	n := e.Pick(3000, 60000)
	type spec struct {
		seed uint64
		conc bool
	}
	specs := make([]spec, n)
	for i := range specs {
		specs[i] = spec{seed: r.U64(), conc: i%5 == 4}
	}
	var mu sync.Mutex
	var returned, ops int64
	orders := map[uint64]struct{}{}
	vk.ParallelDo(n, 16, func(i int) {
		sp := specs[i]
		var res c17SchedResult
		if sp.conc {
			res = c17SchedConcurrent(sp.seed)
		} else {
			res = c17SchedSequence(sp.seed)
		}
		e.R.Eval()
		mu.Lock()
		returned += int64(res.returned)
		ops += int64(res.ops)
		orders[res.orderHash] = struct{}{}
		mu.Unlock()
		if res.key != "" {
			e.R.Violate(res.key, res.what, map[string]any{"part": "c", "seed": sp.seed, "concurrent": sp.conc, "ops": res.log}, nil)
		}
		if i < 2 || (sp.conc && i < 10) {
			c17Sample("c", map[string]any{"part": "c", "concurrent": sp.conc, "keys": res.keys, "returned": res.returned, "ops": res.ops, "first_ops": c17Head(res.log, 14)})
		}
	})
	for h := range orders {
		e.R.Distinct(fmt.Sprintf("c:%016x", h))
	}
	e.R.SetExtra("c_sequences", n)
	e.R.SetExtra("c_operations", ops)
	e.R.SetExtra("c_keys_returned", returned)
	e.R.SetExtra("c_distinct_operation_orders", len(orders))
	e.R.Require(returned > int64(n), "C17(c): scheduler returned too few keys")
}

func c17Head(s []string, n int) []string {
	if len(s) > n {
		return s[:n]
	}
	return s
}

type c17SchedResult struct {
	key, what string
	keys      int
	returned  int
	ops       int
	orderHash uint64
	log       []string
}

// c17SchedSequence drives one scheduler through a random order of Add / Next
// (followed by the re-Add with StartedAt that activateNext performs) / Remove,
// then drains it. Every added key must be returned exactly once.
func c17SchedSequence(seed uint64) c17SchedResult {
	r := vk.NewRng(seed)
	var res c17SchedResult
	par := 1 + r.Intn(8)
	cfg := scheduler.PolicyConfig{ParallelFiles: par}
	if r.Intn(3) == 0 {
		cfg.SmallThreshold = int64(1 + r.Intn(2000))
		cfg.MediumThreshold = cfg.SmallThreshold + int64(1+r.Intn(5000))
	}
	if r.Intn(4) == 0 {
		cfg.SmallSlotFrac = []float64{0.01, 0.25, 0.5, 1, 2}[r.Intn(5)]
	}
	if r.Intn(4) == 0 {
		cfg.AgingAfter = time.Duration(1+r.Intn(3000)) * time.Millisecond
	}
	s := scheduler.NewHybridScheduler(cfg)
	total := 1 + r.Intn(12)
	now := time.Unix(1_700_000_000, 0)
	added := map[scheduler.FileKey]scheduler.FileMeta{}
	got := map[scheduler.FileKey]int{}
	active := []scheduler.FileKey{}
	removed := map[scheduler.FileKey]bool{}
	nextID := 0
	sizes := []int64{0, 1, 100, 4 << 20, 4<<20 + 1, 10 << 20, 64 << 20, 64<<20 + 1, 1 << 30}
	h := uint64(par)
	logf := func(f string, a ...any) {
		res.ops++
		if len(res.log) < 200 {
			res.log = append(res.log, fmt.Sprintf(f, a...))
		}
	}
	add := func() {
		size := sizes[r.Intn(len(sizes))]
		if cfg.SmallThreshold > 0 && r.Bool() {
			size = int64(r.Intn(int(cfg.MediumThreshold) + 10))
		}
		k := scheduler.FileKey{StreamID: uint64(nextID) + 1, RelPath: fmt.Sprintf("f%02d", nextID)}
		if r.Intn(6) == 0 {
			k.RelPath = fmt.Sprintf("dir/f%02d", nextID)
		}
		nextID++
		m := scheduler.FileMeta{RelPath: k.RelPath, Size: size, Remaining: size, AddedAt: now}
		s.Add(k, m)
		added[k] = m
		h = vk.Mix(h ^ 1 ^ uint64(size)<<8)
		logf("Add(%s,size=%d)", k.RelPath, size)
	}
	next := func() bool {
		now = now.Add(time.Duration(r.Intn(2000)) * time.Millisecond)
		k, ok := s.Next(now)
		h = vk.Mix(h ^ 2)
		if !ok {
			logf("Next()=none")
			return false
		}
		logf("Next()=%s", k.RelPath)
		m, known := added[k]
		switch {
		case !known:
			res.key, res.what = "sched:unknown-key", fmt.Sprintf("Next returned %v which was never added", k)
		case removed[k]:
			res.key, res.what = "sched:removed-key-returned", fmt.Sprintf("Next returned %v after it was removed", k)
		}
		got[k]++
		if got[k] > 1 && res.key == "" {
			res.key, res.what = "sched:key-returned-twice", fmt.Sprintf("Next returned %v %d times", k, got[k])
		}
		res.returned++
		// what activateNext does with a returned key
		m.StartedAt, m.LastScheduledAt = now, now
		if r.Intn(4) != 0 {
			s.Add(k, m)
		}
		active = append(active, k)
		return true
	}
	remove := func() {
		if len(active) == 0 {
			return
		}
		i := r.Intn(len(active))
		k := active[i]
		active = append(active[:i], active[i+1:]...)
		s.Remove(k)
		removed[k] = true
		h = vk.Mix(h ^ 3 ^ uint64(i)<<8)
		logf("Remove(%s)", k.RelPath)
	}
	// the sender adds everything first; other orders interleave adds with the rest
	upfront := total
	if r.Intn(3) == 0 {
		upfront = r.Intn(total + 1)
	}
	for i := 0; i < upfront; i++ {
		add()
	}
	for step := 0; step < 400 && res.key == ""; step++ {
		switch c := r.Intn(10); {
		case c < 2 && nextID < total:
			add()
		case c < 7:
			if len(active) < par || r.Intn(5) == 0 {
				next()
			}
		default:
			remove()
		}
		if nextID >= total && len(got) == len(added) && len(active) == 0 {
			break
		}
	}
	for nextID < total {
		add()
	}
	// drain: free slots in a random order until nothing is pending
	for guard := 0; guard < 200 && res.key == ""; guard++ {
		progressed := false
		for len(active) < par {
			if !next() {
				break
			}
			progressed = true
		}
		if len(active) > 0 {
			remove()
			progressed = true
		}
		if !progressed {
			break
		}
	}
	res.keys = len(added)
	if res.key == "" {
		for k := range added {
			if got[k] == 0 {
				res.key, res.what = "sched:key-never-returned", fmt.Sprintf("%v was never returned although all slots were free and Next reported nothing pending", k)
				break
			}
		}
	}
	res.orderHash = h
	return res
}

// c17SchedConcurrent: several goroutines take keys from one scheduler at the
// same time (the sender serialises Next under its own mutex; Remove is called
// from other goroutines).
func c17SchedConcurrent(seed uint64) c17SchedResult {
	r := vk.NewRng(seed)
	var res c17SchedResult
	par := 1 + r.Intn(8)
	s := scheduler.NewHybridScheduler(scheduler.PolicyConfig{ParallelFiles: par})
	total := 2 + r.Intn(20)
	now := time.Unix(1_700_000_000, 0)
	sizes := []int64{0, 1, 100, 4 << 20, 4<<20 + 1, 10 << 20, 64 << 20, 64<<20 + 1, 1 << 30}
	keys := make([]scheduler.FileKey, total)
	for i := range keys {
		keys[i] = scheduler.FileKey{StreamID: uint64(i) + 1, RelPath: fmt.Sprintf("f%02d", i)}
		sz := sizes[r.Intn(len(sizes))]
		s.Add(keys[i], scheduler.FileMeta{RelPath: keys[i].RelPath, Size: sz, Remaining: sz, AddedAt: now})
	}
	var mu sync.Mutex
	got := map[scheduler.FileKey]int{}
	var order []string
	var wg sync.WaitGroup
	workers := 2 + r.Intn(3)
	for w := 0; w < workers; w++ {
		wg.Add(1)
		go func(w int) {
			defer wg.Done()
			idle := 0
			for idle < 3 {
				k, ok := s.Next(now.Add(time.Duration(w) * time.Second))
				if !ok {
					mu.Lock()
					done := len(got) == total
					mu.Unlock()
					if done {
						return
					}
					idle++
					time.Sleep(50 * time.Microsecond)
					continue
				}
				idle = 0
				mu.Lock()
				got[k]++
				order = append(order, k.RelPath)
				mu.Unlock()
				s.Remove(k)
			}
		}(w)
	}
	wg.Wait()
	// whatever is left must still come out
	for {
		k, ok := s.Next(now)
		if !ok {
			break
		}
		got[k]++
		order = append(order, k.RelPath)
		s.Remove(k)
	}
	res.keys, res.ops = total, len(order)
	h := uint64(par)
	for _, o := range order {
		h = vk.Mix(h ^ vk.HashStr(o))
	}
	res.orderHash = h
	res.log = order
	for _, k := range keys {
		res.returned += got[k]
		switch {
		case got[k] > 1:
			res.key, res.what = "sched:key-returned-twice", fmt.Sprintf("concurrent Next returned %v %d times", k, got[k])
		case got[k] == 0 && res.key == "":
			res.key, res.what = "sched:key-never-returned", fmt.Sprintf("%v was never returned", k)
		}
	}
	return res
}
