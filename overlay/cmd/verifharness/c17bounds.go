//go:build verif

package main

// C17 (a), second trace family: files whose chunk count sits on or next to a
// byte boundary of the resume bitmap, with reported-present sets that reach
// into the last byte of the bitmap. The first family (c17GenTraces) has at
// most 6 chunks per file, i.e. one partly used bitmap byte; everything the
// sender does with the wire form of the bitmap (decode, count, skip set) is
// therefore only ever seen there for "bits%8 != 0, one byte". Here the real
// sender decodes bitmaps of 1..8 bytes whose last byte is full, nearly full
// or holds a single bit, and the same per-file oracle (hook order + frames on
// the wire) decides.

import (
	"fmt"

	vk "github.com/sheerbytes/sheerbytes/internal/verifkit"
)

// chunk counts: one below / on / one above a byte boundary, several bytes, the
// largest count the harness' bitmap word holds.
var c17BoundaryNs = []int{7, 8, 9, 15, 16, 17, 24, 25, 32, 40, 63, 64}

// report patterns, all relative to the last byte of the bitmap
var c17BoundaryPatterns = []string{
	"complete",           // every chunk reported, verification chunk = last chunk
	"complete-noverify",  // every chunk reported, no verification point
	"prefix-into-last",   // chunks [0,k) reported, k inside the last byte (earlier transfer interrupted there)
	"last-byte-only",     // only chunks of the last byte reported
	"scattered-and-last", // out-of-order arrival: random chunks, at least one in the last byte
	"straddle",           // the two chunks on either side of the last byte boundary (plus random others)
	"up-to-last-byte",    // every chunk below the last byte, none in it
	"anything",           // random bitmap, random verification point
}

func c17LastByteStart(n int) int { return ((n - 1) / 8) * 8 }

func c17AllBits(n int) uint {
	if n >= 64 {
		return ^uint(0)
	}
	return uint(1)<<uint(n) - 1
}

func c17RandBits(r *vk.Rng, lo, hi int) uint { // random subset of [lo,hi)
	var bm uint
	x := r.U64()
	for i := lo; i < hi; i++ {
		if x&(1<<uint(i%64)) != 0 {
			bm |= 1 << uint(i)
		}
	}
	return bm
}

func c17Highest(bm uint, n int) int {
	hi := -1
	for i := 0; i < n; i++ {
		if bm&(1<<uint(i)) != 0 {
			hi = i
		}
	}
	return hi
}

// c17BoundaryInput builds the report of one file of the family.
func c17BoundaryInput(r *vk.Rng, n int, pattern string) c17In {
	in := c17In{N: n, Report: true, V: n, Verify: "off"}
	lb := c17LastByteStart(n)
	realistic := true // verification chunk = highest reported chunk
	switch pattern {
	case "complete":
		in.Bitmap = c17AllBits(n)
	case "complete-noverify":
		in.Bitmap = c17AllBits(n)
		realistic = false
	case "prefix-into-last":
		k := n
		if n-1 > lb {
			k = lb + 1 + r.Intn(n-1-lb)
		}
		in.Bitmap = c17AllBits(k)
	case "last-byte-only":
		for in.Bitmap == 0 {
			in.Bitmap = c17RandBits(r, lb, n)
		}
	case "scattered-and-last":
		in.Bitmap = c17RandBits(r, 0, n) | 1<<uint(lb+r.Intn(n-lb))
	case "straddle":
		in.Bitmap = 1 << uint(lb)
		if lb > 0 {
			in.Bitmap |= 1 << uint(lb-1)
		}
		if r.Bool() {
			in.Bitmap |= c17RandBits(r, 0, n) & c17RandBits(r, 0, n)
		}
	case "up-to-last-byte":
		in.Bitmap = c17AllBits(lb)
	default: // anything
		in.Bitmap = c17RandBits(r, 0, n)
		in.V = r.Intn(n + 1)
		realistic = false
	}
	if realistic {
		if hi := c17Highest(in.Bitmap, n); hi >= 0 {
			in.V = hi
		}
	}
	if in.V < n {
		in.Verify = []string{"right", "wrong", "wrong"}[r.Intn(3)]
	}
	return in
}

// c17GenBoundaryTraces: a pure function of (tier, seed); the (chunk count,
// pattern) grid is walked round-robin so that every cell occurs.
func c17GenBoundaryTraces(e *Env, n, firstID int) []c17Trace {
	r := vk.NewRng(e.Seed ^ vk.HashStr("c17a-boundary"+e.Tier))
	out := make([]c17Trace, n)
	cell := r.Intn(len(c17BoundaryNs) * len(c17BoundaryPatterns))
	for t := range out {
		tr := c17Trace{ID: firstID + t, Class: "bitmap-byte-boundary", Streams: 1 + r.Intn(3), CS: []uint32{16, 64, 1000}[r.Intn(3)], Seed: r.U64()}
		if r.Intn(3) != 0 {
			tr.JitterUs = 100 + r.Intn(900)
		}
		nf := 1 + r.Intn(2)
		for f := 0; f < nf; f++ {
			nChunks := c17BoundaryNs[cell%len(c17BoundaryNs)]
			pattern := c17BoundaryPatterns[(cell/len(c17BoundaryNs))%len(c17BoundaryPatterns)]
			cell++
			fs := c17FileSpec{In: c17BoundaryInput(r, nChunks, pattern), Pattern: pattern}
			switch c := r.Intn(10); {
			case c < 5:
				fs.Timing = "atonce"
			case c < 8:
				fs.Timing, fs.DelayMs = "ingrace", 10+r.Intn(140)
			default:
				fs.Timing, fs.DelayMs = "late", 298+r.Intn(60)
			}
			if fs.In.Verify != "off" {
				needed := 0
				for i := 0; i < nChunks; i++ {
					if fs.In.needed(i) {
						needed++
					}
				}
				switch r.Intn(4) {
				case 0, 1:
				case 2:
					fs.HoldOn, fs.HoldK = "done", r.Intn(needed+1)
				default:
					fs.HoldOn, fs.HoldK = "enter", needed
					if r.Intn(3) == 0 && needed > 0 {
						fs.HoldK = 1 + r.Intn(needed)
					}
				}
			}
			tr.Files = append(tr.Files, fs)
		}
		out[t] = tr
	}
	return out
}

// c17BoundaryObs is what the evidence says about the family.
type c17BoundaryObs struct {
	files        int
	byCell       map[string]int // n<chunks>/<pattern>: completed files
	judgedByN    map[int]int    // completed files whose report (with a present chunk in the last bitmap byte below the verification point) was known before the first chunk was handed out
	judgedByCell map[string]int
	skippedLast  int // chunks of the last bitmap byte that the sender left out (neither handed out nor on the wire)
}

func newC17BoundaryObs() *c17BoundaryObs {
	return &c17BoundaryObs{byCell: map[string]int{}, judgedByN: map[int]int{}, judgedByCell: map[string]int{}}
}

func c17BoundaryCell(spec c17FileSpec) string {
	return fmt.Sprintf("n%d/%s", spec.In.N, spec.Pattern)
}

// note is called (under the caller's lock) for every completed file of the family.
func (o *c17BoundaryObs) note(spec c17FileSpec, tags []string, skipped int) {
	o.files++
	o.byCell[c17BoundaryCell(spec)]++
	for _, t := range tags {
		if t == c17TagLastByteJudged {
			o.judgedByN[spec.In.N]++
			o.judgedByCell[c17BoundaryCell(spec)]++
			o.skippedLast += skipped
		}
	}
}

const c17TagLastByteJudged = "present-chunk-in-last-bitmap-byte-known-before-first-take"

func (o *c17BoundaryObs) report(e *Env) {
	byN := map[string]int{}
	for n, c := range o.judgedByN {
		byN[fmt.Sprintf("n%d", n)] = c
	}
	e.R.SetExtra("a_boundary_chunk_counts", c17BoundaryNs)
	e.R.SetExtra("a_boundary_patterns", c17BoundaryPatterns)
	e.R.SetExtra("a_boundary_files_completed", o.files)
	e.R.SetExtra("a_boundary_files_by_cell", o.byCell)
	e.R.SetExtra("a_boundary_last_byte_judged_by_chunk_count", byN)
	e.R.SetExtra("a_boundary_last_byte_judged_by_cell", o.judgedByCell)
	e.R.SetExtra("a_boundary_last_byte_chunks_left_out", o.skippedLast)
	for _, n := range c17BoundaryNs {
		e.R.Require(o.judgedByN[n] >= e.Pick(3, 15), fmt.Sprintf("C17(a): too few completed %d-chunk files whose report (a present chunk in the last bitmap byte, below the verification point) was known before the first chunk was handed out: %d", n, o.judgedByN[n]))
	}
	full := 0
	for _, n := range c17BoundaryNs {
		if n%8 == 0 {
			full += o.judgedByN[n]
		}
	}
	e.R.Require(full >= e.Pick(30, 150), fmt.Sprintf("C17(a): too few judged files with a completely used last bitmap byte: %d", full))
	for _, p := range c17BoundaryPatterns {
		if p == "up-to-last-byte" {
			continue // nothing present in the last byte by construction
		}
		c := 0
		for _, n := range c17BoundaryNs {
			c += o.judgedByCell[fmt.Sprintf("n%d/%s", n, p)]
		}
		e.R.Require(c >= e.Pick(5, 25), fmt.Sprintf("C17(a): too few judged files of report pattern %s: %d", p, c))
	}
	e.R.Require(o.skippedLast >= e.Pick(100, 500), fmt.Sprintf("C17(a): the sender left out only %d reported chunks of a last bitmap byte", o.skippedLast))
}
