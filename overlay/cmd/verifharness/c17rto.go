//go:build verif

package main

// C17 (a), third family: the sender runs with Options.ResumeTimeout > 0 (the CLI
// always sets one) over manifests with MORE FILES THAN SLOTS, and the scripted
// receiver writes the resume report of a file
//
//   - at once, racing the timeout, some time after the timeout, never, or
//   - at a logical trigger that lies behind the end of the sender's wait for
//     the report: when it has read the first chunk frame of the file, its
//     end-of-file record, or after it has acknowledged the file.
//
// The per-file oracle is the one of the other families (c17Judge). What this
// family adds to the quantifier is "the arrival time of the resume report"
// beyond the end of the wait, combined with "all orders in which file slots
// free up": every later file of the manifest must still be begun exactly once.
// A sender that never begins a file does not return, so that clause is decided
// with the bounded-progress rule of DESIGN.md §1 (c17NeverBegunVerdict).

import (
	"fmt"
	"runtime"
	"sort"
	"strings"
	"sync"
	"sync/atomic"
	"time"

	"github.com/sheerbytes/sheerbytes/internal/transfer"
	"github.com/sheerbytes/sheerbytes/internal/verifhook"
	vk "github.com/sheerbytes/sheerbytes/internal/verifkit"
)

// c17TransferGoroutines returns the stacks of the goroutines that are inside
// internal/transfer (identical stacks folded), for the replay file of a hang.
func c17TransferGoroutines() string {
	buf := make([]byte, 4<<20)
	buf = buf[:runtime.Stack(buf, true)]
	count := map[string]int{}
	for _, st := range strings.Split(string(buf), "\n\n") {
		if !strings.Contains(st, "/internal/transfer.") || strings.Contains(st, "c17TransferGoroutines") {
			continue
		}
		lines := strings.Split(st, "\n")
		var fn []string
		for i := 1; i < len(lines) && len(fn) < 6; i++ { // function lines only: no addresses, no goroutine ids
			l := lines[i]
			if strings.HasPrefix(l, "\t") || strings.HasPrefix(l, "created by") {
				continue
			}
			if j := strings.LastIndex(l, "("); j > 0 {
				l = l[:j]
			}
			fn = append(fn, l)
		}
		head := lines[0]
		if j := strings.Index(head, "["); j >= 0 {
			head = head[j:]
			if k := strings.IndexAny(head, ",]"); k > 0 {
				head = head[:k] + "]"
			}
		}
		count[head+" "+strings.Join(fn, " < ")]++
	}
	var out []string
	for k, n := range count {
		out = append(out, fmt.Sprintf("%dx %s", n, k))
	}
	sort.Strings(out)
	s := strings.Join(out, "\n")
	if len(s) > 8000 {
		s = s[:8000] + " …"
	}
	return s
}

var (
	c17NeverBegunConfirmed atomic.Bool
	c17NeverBegunMu        sync.Mutex // confirmations run one at a time (each takes two watchdog periods)
)

// c17NeverBegunPicture: the watchdog fired while manifest files had no
// FileBegin although the scripted receiver had acknowledged every file that
// was begun (so every slot was free as far as the peer is concerned), and
// neither a hook of the trace's files was hit nor a record or frame read or
// written during the last half of the watchdog period.
func c17NeverBegunPicture(tr c17Trace, res c17TraceResult) bool {
	wd := int64(12000)
	if tr.WatchdogMs > 0 {
		wd = int64(tr.WatchdogMs)
	}
	return res.Hung && len(res.NeverBegun) > 0 && res.AllAcked && res.QuietMs >= wd/2
}

// c17NeverBegunVerdict decides a trace on which the watchdog fired. It returns
// false when the hang is not the "file never begun" picture (the caller reports
// it as inconclusive, as before). Otherwise it reports itself: a violation
// under the bounded-progress rule - (i) watchdog exceeded, (ii) no event during
// its last half, (iii) a canary of the same trace with no reports, started
// afterwards, completed - and only when the same trace, run again on fresh
// connections, ends in the same picture; inconclusive otherwise.
func c17NeverBegunVerdict(e *Env, lp *vk.ListenerPool, tr c17Trace, res c17TraceResult) bool {
	if !c17NeverBegunPicture(tr, res) {
		return false
	}
	e.R.Count("never_begun_hang_candidates")
	c17NeverBegunMu.Lock()
	defer c17NeverBegunMu.Unlock()
	if c17NeverBegunConfirmed.Load() {
		// one confirmed execution decides the run; the others are counted
		e.R.NoVerd()
		e.R.Count("never_begun_hang_not_confirmed_again")
		return true
	}
	canary := tr
	canary.Files = append([]c17FileSpec(nil), tr.Files...)
	for f := range canary.Files {
		canary.Files[f].Timing, canary.Files[f].DelayMs, canary.Files[f].HoldOn, canary.Files[f].HoldK = "never", 0, "", 0
		canary.Files[f].In.Report = false
	}
	if c := c17RunTrace(e, lp, canary); !c.Completed {
		e.R.Count("never_begun_hang_canary_failed")
		e.R.Inconcl(fmt.Sprintf("trace %d: watchdog fired with files never begun, but the canary (same manifest, no reports) did not complete either (hung=%v err=%v setup=%q): machine stalled", tr.ID, c.Hung, c.SendErr, c.Setup))
		return true
	}
	again := c17RunTrace(e, lp, tr)
	if !c17NeverBegunPicture(tr, again) {
		e.R.Count("never_begun_hang_not_reproduced")
		e.R.Inconcl(fmt.Sprintf("trace %d: the bounded-progress rule fired once (files %v never begun, every begun file acknowledged), and the same trace run again on fresh connections did not end like that (completed=%v hung=%v never_begun=%v)", tr.ID, res.NeverBegun, again.Completed, again.Hung, again.NeverBegun))
		return true
	}
	c17NeverBegunConfirmed.Store(true)

	// history class of the key: what the peer did before the sender stopped freeing slots
	class := "slots-freed"
	var hist []string
	res.Wire.mu.Lock()
	for f, k := range res.Keys {
		if res.Wire.begins[k] == 0 {
			continue
		}
		applied := false
		res.Recs[f].mu.Lock()
		for _, ev := range res.Recs[f].ev {
			if ev.K == 'P' {
				applied = true
			}
		}
		res.Recs[f].mu.Unlock()
		hist = append(hist, fmt.Sprintf("file %d: report %s, written %dx, applied=%v, acknowledged=%v", f, tr.Files[f].Timing, res.Wire.reported[k], applied, res.Wire.acked[k]))
		if tr.ResumeTimeoutMs > 0 && res.Wire.reported[k] > 0 && !applied {
			class = "report-after-resume-wait-ended"
		}
	}
	res.Wire.mu.Unlock()
	e.R.Violate("filebegin:never-begun:"+class,
		fmt.Sprintf("manifest files %v (of %d, %d slot(s)) were never begun although the receiver had acknowledged every file that was begun: the sender stopped freeing file slots (real SendManifestMultiStream over loopback QUIC, ResumeTimeout %d ms; bounded-progress rule: watchdog, no hook hit / record / frame for %d ms, canary with the same manifest completed, same end on fresh connections)", res.NeverBegun, len(tr.Files), tr.Streams, tr.ResumeTimeoutMs, res.QuietMs),
		map[string]any{"part": "a", "trace": tr, "never_begun": res.NeverBegun},
		map[string]any{"history": hist, "quiet_ms": res.QuietMs, "rerun_never_begun": again.NeverBegun, "rerun_quiet_ms": again.QuietMs, "send_err_after_cancel": fmt.Sprint(res.SendErr), "goroutines_in_transfer": res.Dump})
	return true
}

var c17RTOTimings = []string{"on-frame", "after-timeout", "on-end", "atonce", "on-done", "race-timeout", "never"}

func c17RTOLogical(t string) bool { return t == "on-frame" || t == "on-end" || t == "on-done" }

// c17GenRTOTraces: a pure function of (tier, seed). Report timings are walked
// round-robin so that every class is reached whatever the seed.
func c17GenRTOTraces(e *Env, n, firstID int) []c17Trace {
	r := vk.NewRng(vk.Mix(e.Seed ^ vk.HashStr("c17rto"+e.Tier)))
	graceMs := int(transfer.VerifC17ResumeGrace().Milliseconds())
	out := make([]c17Trace, n)
	for t := range out {
		tr := c17Trace{ID: firstID + t, Class: "resume-timeout", Streams: 1 + r.Intn(2), CS: []uint32{16, 64, 1000}[r.Intn(3)], Seed: r.U64(), WatchdogMs: 8000}
		tr.ResumeTimeoutMs = []int{25, 40, 70, 110}[r.Intn(4)]
		above := t%12 == 11 // the wait outlives the grace period: late plans are possible, then the timeout
		if above {
			tr.ResumeTimeoutMs = graceMs + 80 + r.Intn(60)
		}
		if r.Intn(3) == 0 {
			tr.JitterUs = 100 + r.Intn(1500)
		}
		nf := tr.Streams + 1 + r.Intn(3)
		if above {
			nf = tr.Streams + 1
		}
		for f := 0; f < nf; f++ {
			n := 1 + r.Intn(4)
			in := c17In{N: n, Report: true}
			switch r.Intn(4) {
			case 0:
				in.V = n
			case 1, 2:
				in.Bitmap = uint(r.Intn(1<<uint(n)-1) + 1)
				for i := 0; i < n; i++ {
					if in.bit(i) {
						in.V = i
					}
				}
			default:
				in.Bitmap = uint(r.Intn(1 << uint(n)))
				in.V = r.Intn(n + 1)
			}
			in.Verify = "off"
			if in.V < n {
				in.Verify = []string{"right", "wrong"}[r.Intn(2)]
			}
			fs := c17FileSpec{In: in}
			fs.Timing = c17RTOTimings[(t+f*3)%len(c17RTOTimings)]
			switch fs.Timing {
			case "race-timeout":
				fs.DelayMs = tr.ResumeTimeoutMs - 3 + r.Intn(7)
			case "after-timeout":
				fs.DelayMs = tr.ResumeTimeoutMs + 15 + r.Intn(120)
			case "never":
				fs.In.Report = false
			}
			if above && f <= 1 { // whatever the scheduler begins first, one of the two is not the last file
				fs.Timing, fs.DelayMs, fs.In.Report = "late", graceMs+8+r.Intn(20), true // late plan, the waiter is still there
			}
			tr.Files = append(tr.Files, fs)
		}
		out[t] = tr
	}
	return out
}

func c17PartR(e *Env) {
	traces := c17GenRTOTraces(e, e.Pick(140, 700), 1000000)
	lp, err := vk.NewListenerPool(16, 8*time.Second)
	if err != nil {
		e.R.Inconcl("listener pool: " + err.Error())
		e.R.Require(false, "C17(a, resume timeout): no QUIC listeners")
		return
	}
	defer lp.Close()
	verifhook.Reset()
	c17InstallHooks()
	defer verifhook.Reset()
	start := time.Now()
	graceMs := int(transfer.VerifC17ResumeGrace().Milliseconds())

	var mu sync.Mutex
	obs := map[string]int{}
	byTiming := map[string]int{}
	ran, completed, sampled := 0, 0, 0
	vk.ParallelDo(len(traces), 16, func(i int) {
		tr := traces[i]
		if c17NeverBegunConfirmed.Load() {
			// a confirmed violation of this family decides the run (each further one costs two watchdog periods)
			e.R.Count("r_traces_skipped_after_violation")
			return
		}
		res := c17RunTrace(e, lp, tr)
		e.R.Eval()
		if res.Setup != "" {
			e.R.Inconcl(fmt.Sprintf("trace %d: setup: %s", tr.ID, res.Setup))
			return
		}
		type fileOut struct {
			Spec     c17FileSpec `json:"spec"`
			Events   string      `json:"events"`
			Reported int         `json:"reports_written"`
			Applied  bool        `json:"plan_applied"`
		}
		var outs []fileOut
		nviol, departed := 0, 0
		for f, rec := range res.Recs {
			finds, sig, _, _ := c17Judge(rec, res.Wire, res.Completed)
			res.Wire.mu.Lock()
			reported := res.Wire.reported[rec.key]
			res.Wire.mu.Unlock()
			applied := strings.Contains(" "+sig+" ", " P ")
			outs = append(outs, fileOut{rec.spec, sig, reported, applied})
			seen := map[string]bool{}
			for _, fd := range finds {
				if seen[fd.key] {
					continue
				}
				seen[fd.key] = true
				nviol++
				e.R.Violate(fd.key, fd.what+" (real SendManifestMultiStream over loopback QUIC with ResumeTimeout "+fmt.Sprint(tr.ResumeTimeoutMs)+" ms; file "+fmt.Sprint(f)+" of the trace; hook order: "+sig+")",
					map[string]any{"part": "a", "trace": tr, "file": f, "input_str": rec.spec.In.String()},
					map[string]any{"events": sig, "completed": res.Completed, "hung": res.Hung, "send_err": fmt.Sprint(res.SendErr), "recv_err": res.Wire.recvErr})
			}
			if !res.Completed {
				continue
			}
			tclass := "below-grace"
			if tr.ResumeTimeoutMs >= graceMs {
				tclass = "above-grace"
			}
			e.R.Distinct(fmt.Sprintf("a-rto:%s/timeout-%s/slots%d/files%d/%s/applied=%v", rec.spec.Timing, tclass, tr.Streams, len(tr.Files), rec.spec.In.Verify, applied))
			if sig != "" {
				e.R.Distinct("a:" + rec.spec.In.String() + "|" + sig)
			}
			mu.Lock()
			byTiming[rec.spec.Timing]++
			// Below the grace period the file only becomes ready through the report or through the end of
			// the wait, and chunks are only handed out to a ready file: a report written at one of the logical
			// triggers is provably written after the sender's wait for it has ended.
			if tclass == "below-grace" && c17RTOLogical(rec.spec.Timing) && reported > 0 {
				obs["report-after-wait-ended:"+rec.spec.Timing]++
				departed++
				if applied {
					obs["report-after-wait-ended-but-applied"]++ // counted, not judged
				}
			}
			if rec.spec.Timing == "after-timeout" || rec.spec.Timing == "race-timeout" {
				if applied {
					obs[rec.spec.Timing+":applied"]++
				} else if reported > 0 {
					obs[rec.spec.Timing+":not-applied"]++
				}
			}
			if rec.spec.Timing == "late" && applied {
				obs["late-plan-before-timeout"]++
			}
			mu.Unlock()
		}
		mu.Lock()
		ran++
		doSample := false
		if res.Completed {
			completed++
			if departed > 0 {
				// every file of a manifest with more files than slots was begun (c17Judge: filebegin:missing) after
				// a report had arrived behind the end of its wait
				obs["traces-completed-with-report-after-wait-ended"]++
				obs["files-in-those-traces"] += len(tr.Files)
				if sampled < 2 {
					sampled++
					doSample = true
				}
			}
		}
		mu.Unlock()
		if doSample {
			c17SampleFront("a", map[string]any{"part": "a", "trace_id": tr.ID, "class": tr.Class, "streams": tr.Streams, "chunk_size": tr.CS, "resume_timeout_ms": tr.ResumeTimeoutMs, "files": outs, "dur_ms": res.DurMs})
		}
		if !res.Completed && nviol == 0 {
			if res.Hung {
				e.R.Count("r_trace_watchdog")
				if !c17StalledFileVerdict(e, lp, tr, res) && !c17NeverBegunVerdict(e, lp, tr, res) {
					e.R.Inconcl(fmt.Sprintf("trace %d (resume timeout %d ms) did not complete: watchdog, never_begun=%v all_acked=%v quiet_ms=%d; files=%+v", tr.ID, tr.ResumeTimeoutMs, res.NeverBegun, res.AllAcked, res.QuietMs, outs))
				}
			} else {
				e.R.NoVerd()
				e.R.Count("r_trace_sender_error")
			}
		}
	})
	e.R.SetExtra("r_traces", len(traces))
	e.R.SetExtra("r_traces_run", ran)
	e.R.SetExtra("r_traces_completed", completed)
	e.R.SetExtra("r_observations", obs)
	e.R.SetExtra("r_files_by_report_timing", byTiming)
	e.R.SetExtra("r_wall_s", time.Since(start).Seconds())
	if c17NeverBegunConfirmed.Load() {
		return // violated: the minimum-observation requirements of the skipped traces do not apply
	}
	e.R.Require(completed*10 >= len(traces)*8, fmt.Sprintf("C17(a, resume timeout): only %d of %d traces completed", completed, len(traces)))
	for _, t := range []string{"on-frame", "on-end", "on-done"} {
		e.R.Require(obs["report-after-wait-ended:"+t] >= e.Pick(10, 50), "C17(a, resume timeout): too few files whose report was written after the sender's wait had ended, trigger "+t)
	}
	e.R.Require(obs["traces-completed-with-report-after-wait-ended"] >= e.Pick(40, 200), "C17(a, resume timeout): too few completed traces with more files than slots in which a report arrived after the wait for it had ended")
	e.R.Require(obs["after-timeout:not-applied"] >= 1, "C17(a, resume timeout): no report that arrived some time after the timeout")
	e.R.Require(obs["late-plan-before-timeout"] >= 1, "C17(a, resume timeout): no late plan under a timeout above the grace period")
	vk.Logf("c17(a, resume timeout): %d traces (%d completed), observations %v, %.1fs", len(traces), completed, obs, time.Since(start).Seconds())
}
