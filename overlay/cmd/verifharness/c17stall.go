//go:build verif

package main

// C17 (a), fourth family and the "stalled file" clause.
//
// The property demands an end-of-file record "exactly once ... after
// verification has been decided and any re-send it caused has gone out", and
// the failed verification chunk "sent again exactly once". A sender that emits
// ZERO records (or never hands out the re-send) does not return, so the
// per-file oracle of c17Judge - which needs an end-of-file event to compare
// with - has nothing to judge and the trace ends at the watchdog. This file
// decides that end with the bounded-progress rule of DESIGN.md §1:
//
//	picture  the watchdog fired; a file of the trace was begun and ready (plan
//	         applied or a chunk handed out), every chunk handed out has its
//	         frame written (nothing is in flight, the sender is not inside a
//	         write), a verification that was started has been released (the
//	         hold at send.verify.beforeHash returned), no send.fileEnd.before
//	         event exists for it, and neither a hook of the trace's files was
//	         hit nor a record or frame read or written during the last half of
//	         the watchdog period (the dispatcher polls every 200 ms);
//	canary   the same manifest with no reports, started afterwards, completes;
//	again    the same trace on fresh connections ends in the same picture for
//	         the same file (up to three attempts: which worker visits the file
//	         while its last chunk is in flight is not controlled).
//
// Anything less is inconclusive. The key names the history class of the
// stalled file: verification outcome, whether the verdict came after the last
// first-pass frame, whether the re-send was handed out.
//
// The fourth family ("late-verdict") produces the histories in which only the
// dispatcher loop of SendManifestMultiStream can finish the file: >= 2 workers,
// a resumed file with a verification chunk, the last needed chunk held in
// flight at send.chunk.beforeFrame for longer than the dispatcher's idle poll
// (so that an idle worker visits the file meanwhile), and the verdict held at
// send.verify.beforeHash until that chunk's frame has been written (plus a lag,
// so that markChunkDone has already declined to end the file) - with the right
// and with the wrong hash. A single-worker trace of the same shape and a
// second, plain file (whose chunks wake the idle workers) are mixed in.

import (
	"fmt"
	"sort"
	"sync"
	"sync/atomic"

	vk "github.com/sheerbytes/sheerbytes/internal/verifkit"
)

const (
	c17ClassLateVerdict     = "late-verdict"
	c17TagVerdictAfterFrame = "verdict-after-last-first-pass-frame"
)

var (
	c17StallConfirmed atomic.Bool
	c17StallMu        sync.Mutex // confirmations run one at a time
)

// c17GenLateVerdictTraces: a pure function of (tier, seed). Workers, chunk
// count, present prefix and verification outcome are walked round-robin so that
// every class is reached whatever the seed.
func c17GenLateVerdictTraces(e *Env, n, firstID int) []c17Trace {
	r := vk.NewRng(vk.Mix(e.Seed ^ vk.HashStr("c17late"+e.Tier)))
	out := make([]c17Trace, 0, n)
	for t := 0; t < n; t++ {
		tr := c17Trace{ID: firstID + t, Class: c17ClassLateVerdict, Streams: 2 + t%2, CS: []uint32{16, 64, 1000}[r.Intn(3)], Seed: r.U64(), WatchdogMs: 6000}
		if t%10 == 9 {
			tr.Streams = 1 // control: with one worker nobody visits the dispatcher while a chunk is in flight
		}
		nc := 2 + (t/2)%5                    // 2..6 chunks
		present := 1 + r.Intn(nc-1)          // receiver holds chunks 0..present-1 (shape of the repository's receiver)
		in := c17In{N: nc, Report: true, Bitmap: 1<<uint(present) - 1, V: present - 1}
		in.Verify = []string{"right", "wrong"}[(t/2+t/10)%2]
		needed := 0
		for i := 0; i < nc; i++ {
			if in.needed(i) {
				needed++
			}
		}
		fs := c17FileSpec{In: in, Timing: "atonce", HoldOn: "done", HoldK: needed,
			HoldCapMs: 3000, HoldLagMs: 15 + r.Intn(30), FrameHoldMs: 240 + r.Intn(80)}
		switch t % 5 {
		case 3: // the verdict lands while the last chunk is still in flight (after the idle worker's visit)
			fs.HoldOn, fs.HoldLagMs = "enter", 0
			fs.FrameHoldMs = 240 + r.Intn(80)
		case 4: // report inside the grace period
			fs.Timing, fs.DelayMs = "ingrace", 20+r.Intn(150)
		}
		tr.Files = append(tr.Files, fs)
		if t%3 == 1 {
			// a plain second file: its chunks wake the idle workers
			m := 1 + r.Intn(4)
			tr.Files = append(tr.Files, c17FileSpec{In: c17In{N: m, V: m, Verify: "off"}, Timing: "never"})
			tr.JitterUs = 500 + r.Intn(3000)
		}
		out = append(out, tr)
	}
	return out
}

// c17StalledFiles returns the files of a watchdog-ended trace that match the
// picture described at the top of this file (without the canary / again part).
func c17StalledFiles(tr c17Trace, res c17TraceResult) (stalled []int, hist map[int]string) {
	wd := int64(12000)
	if tr.WatchdogMs > 0 {
		wd = int64(tr.WatchdogMs)
	}
	hist = map[int]string{}
	if !res.Hung || res.Wire == nil || res.QuietMs < wd/2 {
		return nil, hist
	}
	for f, rec := range res.Recs {
		res.Wire.mu.Lock()
		begun := res.Wire.begins[rec.key] > 0
		res.Wire.mu.Unlock()
		rec.mu.Lock()
		evs := append([]c17Ev(nil), rec.ev...)
		rec.mu.Unlock()
		sort.Slice(evs, func(i, j int) bool { return evs[i].Seq < evs[j].Seq })
		var nT, nA, nP, nH, nR, nE int
		var rSeq, lastA1 uint64 // verdict released; last frame of a chunk handed out before the release
		tv := map[int]int{}
		for _, ev := range evs {
			if ev.K == 'R' && rSeq == 0 {
				rSeq = ev.Seq
			}
		}
		takenBeforeR := map[uint32]int{}
		for _, ev := range evs {
			switch ev.K {
			case 'T':
				nT++
				tv[int(ev.Idx)]++
				if rSeq == 0 || ev.Seq < rSeq {
					takenBeforeR[ev.Idx]++
				}
			case 'A':
				nA++
				if takenBeforeR[ev.Idx] > 0 {
					takenBeforeR[ev.Idx]--
					lastA1 = ev.Seq
				}
			case 'P':
				nP++
			case 'H':
				nH++
			case 'R':
				nR++
			case 'E':
				nE++
			}
		}
		in := rec.spec.In
		if !begun || nE > 0 || (nP == 0 && nT == 0) || nA != nT || nH != nR {
			continue
		}
		if in.Report && in.Verify != "off" && nP > 0 && nH == 0 {
			continue // a verification that has not reached its hook yet: not this picture
		}
		// history class
		class := "no-verification"
		if nH > 0 {
			class = "verdict-" + in.Verify
			if rSeq > lastA1 && nT > 0 {
				class += "/after-last-first-pass-frame"
			} else {
				class += "/while-chunks-in-flight"
			}
			if in.Verify == "wrong" {
				want := 1
				if !in.bit(in.V) {
					want = 2
				}
				if tv[in.V] < want {
					class += "/resend-never-handed-out"
				} else {
					class += "/resend-written"
				}
			}
		}
		stalled = append(stalled, f)
		hist[f] = class
	}
	return stalled, hist
}

// c17StalledFileVerdict decides a trace on which the watchdog fired. It returns
// false when the end is not the stalled-file picture (the caller goes on with
// its other rules). Otherwise it reports itself: violation under the
// bounded-progress rule, inconclusive when canary or reproduction fail.
func c17StalledFileVerdict(e *Env, lp *vk.ListenerPool, tr c17Trace, res c17TraceResult) bool {
	stalled, hist := c17StalledFiles(tr, res)
	if len(stalled) == 0 {
		return false
	}
	e.R.Count("stalled_file_candidates")
	c17StallMu.Lock()
	defer c17StallMu.Unlock()
	if c17StallConfirmed.Load() {
		e.R.NoVerd()
		e.R.Count("stalled_file_not_confirmed_again")
		return true
	}
	canary := tr
	canary.Files = append([]c17FileSpec(nil), tr.Files...)
	for f := range canary.Files {
		fs := &canary.Files[f]
		fs.Timing, fs.DelayMs, fs.HoldOn, fs.HoldK, fs.HoldLagMs, fs.FrameHoldMs = "never", 0, "", 0, 0, 0
		fs.In.Report = false
	}
	if c := c17RunTrace(e, lp, canary); !c.Completed {
		e.R.Count("stalled_file_canary_failed")
		e.R.Inconcl(fmt.Sprintf("trace %d: watchdog fired with file(s) %v written but never ended, but the canary (same manifest, no reports) did not complete either (hung=%v err=%v setup=%q): machine stalled", tr.ID, stalled, c.Hung, c.SendErr, c.Setup))
		return true
	}
	rerun := tr
	if rerun.WatchdogMs == 0 || rerun.WatchdogMs > 6000 {
		rerun.WatchdogMs = 6000
	}
	var again c17TraceResult
	var againHist map[int]string
	same, attempts := -1, 0
	for attempts < 3 && same < 0 {
		attempts++
		again = c17RunTrace(e, lp, rerun)
		var st []int
		st, againHist = c17StalledFiles(rerun, again)
		for _, f := range st {
			for _, g := range stalled {
				if f == g && same < 0 {
					same = f
				}
			}
		}
	}
	if same < 0 {
		e.R.Count("stalled_file_not_reproduced")
		e.R.Inconcl(fmt.Sprintf("trace %d: the bounded-progress rule fired once (file(s) %v completely written, verification released, no end-of-file record, %d ms without an event) and the same trace run %d times on fresh connections did not end like that (last: completed=%v hung=%v)", tr.ID, stalled, res.QuietMs, attempts, again.Completed, again.Hung))
		return true
	}
	c17StallConfirmed.Store(true)
	f := same
	in := tr.Files[f].In
	workers := "one-worker"
	if tr.Streams >= 2 {
		workers = "several-workers"
	}
	_, sig, _, _ := c17Judge(res.Recs[f], res.Wire, false)
	_, sigAgain, _, _ := c17Judge(again.Recs[f], again.Wire, false)
	e.R.Violate("fileend:never-emitted:"+workers+":"+hist[f],
		fmt.Sprintf("file %d of the trace (%s, %d worker(s)) was begun, every chunk handed out was written and the verification was released, but no end-of-file record was ever decided for it%s: the sender does not come back to the file (real SendManifestMultiStream over loopback QUIC; hook order: %s; bounded-progress rule: watchdog %d ms, no hook hit / record / frame for %d ms while the dispatcher polls every 200 ms, canary with the same manifest and no reports completed, same end for the same file on fresh connections in run %d of at most 3)",
			f, in.String(), tr.Streams, c17ResendNote(hist[f]), sig, c17Watchdog(tr), res.QuietMs, attempts),
		map[string]any{"part": "a", "trace": tr, "file": f, "input_str": in.String()},
		map[string]any{"history_class_by_file": hist, "events": sig, "rerun_events": sigAgain, "rerun_history_class_by_file": againHist, "quiet_ms": res.QuietMs, "rerun_quiet_ms": again.QuietMs,
			"send_err_after_cancel": fmt.Sprint(res.SendErr), "goroutines_in_transfer": res.Dump})
	return true
}

func c17Watchdog(tr c17Trace) int {
	if tr.WatchdogMs > 0 {
		return tr.WatchdogMs
	}
	return 12000
}

func c17ResendNote(class string) string {
	if len(class) > 24 && class[len(class)-24:] == "/resend-never-handed-out" {
		return " and the chunk that failed verification was never handed out again"
	}
	return ""
}
