//go:build verif

package main

// C17 (a): trace monitor on the real SendManifestMultiStream over loopback
// QUIC against a scripted receiver.

import (
	"context"
	"encoding/binary"
	"encoding/json"
	"fmt"
	"io"
	"os"
	"path/filepath"
	"sort"
	"strings"
	"sync"
	"sync/atomic"
	"time"

	"github.com/sheerbytes/sheerbytes/internal/transfer"
	"github.com/sheerbytes/sheerbytes/internal/verifhook"
	vk "github.com/sheerbytes/sheerbytes/internal/verifkit"
	"github.com/sheerbytes/sheerbytes/pkg/manifest"
)

// c17FileSpec is what the scripted receiver does for one file.
type c17FileSpec struct {
	In c17In `json:"input"`
	// atonce | ingrace | late | never; resume-timeout family (c17rto.go) also: race-timeout | after-timeout
	// (a delay relative to Options.ResumeTimeout) and on-frame | on-end | on-done (the report is written when the
	// scripted receiver has read the first chunk frame / the end-of-file record of the file / has acknowledged it)
	Timing  string `json:"report_timing"`
	DelayMs int    `json:"report_delay_ms"`
	HoldOn  string `json:"hold_on"` // "" | enter | done : verdict held until the k-th chunk entered / finished its frame
	HoldK   int    `json:"hold_k"`
	Pattern string `json:"report_pattern,omitempty"` // bitmap-byte-boundary family (c17bounds.go) only
	// ShortSource: the source file is one byte shorter on disk than the manifest
	// says (it shrank after the scan): the read of its last chunk fails
	ShortSource bool `json:"short_source,omitempty"`
	// late-verdict family (c17stall.go) only: upper bound of the verdict hold (0 = 200 ms), pause between the
	// release of the hold and the return of the hook (so that the worker's markChunkDone comes first), and how
	// long the HoldK-th chunk frame is kept in flight at send.chunk.beforeFrame (longer than the dispatcher's idle poll)
	HoldCapMs   int `json:"hold_cap_ms,omitempty"`
	HoldLagMs   int `json:"hold_lag_ms,omitempty"`
	FrameHoldMs int `json:"frame_hold_ms,omitempty"`
}

type c17Trace struct {
	ID       int           `json:"id"`
	Class    string        `json:"class,omitempty"` // "" = first family, "bitmap-byte-boundary" = c17bounds.go
	Streams  int           `json:"streams"`
	CS       uint32        `json:"chunk_size"`
	JitterUs int           `json:"jitter_us"`
	Seed     uint64        `json:"seed"`
	Files    []c17FileSpec `json:"files"`
	// Options.ResumeTimeout of the sender (0 = wait for the report as long as the transfer lives)
	ResumeTimeoutMs int `json:"resume_timeout_ms,omitempty"`
	WatchdogMs      int `json:"watchdog_ms,omitempty"` // 0 = 12 s
}

type c17Ev struct {
	Seq uint64
	K   byte // T taken, P plan applied, B before frame, A after frame, E fileEnd.before, H beforeHash, R verdict released
	Idx uint32
}

// c17FileRec collects the hook events of one file key.
type c17FileRec struct {
	key      uint64
	spec     c17FileSpec
	jseed    uint64
	jitterUs int

	mu      sync.Mutex
	ev      []c17Ev
	entered int
	done    int

	holdCh   chan struct{}
	holdOnce sync.Once
	hashHit  chan struct{}
	hashOnce sync.Once
	heldMs   int64
	lastNs   atomic.Int64 // time of the last hook event of the file (bounded-progress rule only)
}

func (r *c17FileRec) add(seq uint64, k byte, idx uint64) {
	r.lastNs.Store(time.Now().UnixNano())
	r.mu.Lock()
	r.ev = append(r.ev, c17Ev{Seq: seq, K: k, Idx: uint32(idx)})
	r.mu.Unlock()
}
func (r *c17FileRec) release() { r.holdOnce.Do(func() { close(r.holdCh) }) }

var c17Recs sync.Map // file key -> *c17FileRec

func c17Rec(key uint64) *c17FileRec {
	if v, ok := c17Recs.Load(key); ok {
		return v.(*c17FileRec)
	}
	return nil
}

const c17ReleaseHook = "verif.c17.release"

func c17InstallHooks() {
	verifhook.Set("send.chunk.taken", func(ev verifhook.Event) {
		if r := c17Rec(ev.A); r != nil {
			r.add(ev.Seq, 'T', ev.B) // under the state's mutex: log only
		}
	})
	verifhook.Set("send.plan.applied", func(ev verifhook.Event) {
		if r := c17Rec(ev.A); r != nil {
			r.add(ev.Seq, 'P', 0) // under the state's mutex: log only
		}
	})
	verifhook.Set("send.chunk.beforeFrame", func(ev verifhook.Event) {
		r := c17Rec(ev.A)
		if r == nil {
			return
		}
		r.lastNs.Store(time.Now().UnixNano())
		r.mu.Lock()
		r.ev = append(r.ev, c17Ev{Seq: ev.Seq, K: 'B', Idx: uint32(ev.B)})
		r.entered++
		n := r.entered
		r.mu.Unlock()
		if r.jitterUs > 0 {
			x := vk.Mix(r.jseed ^ ev.Seq ^ (ev.B << 20))
			if x%3 != 0 {
				time.Sleep(time.Duration(x%uint64(r.jitterUs)) * time.Microsecond)
			}
		}
		if r.spec.FrameHoldMs > 0 && n == r.spec.HoldK {
			// keep this chunk in flight across an idle poll of the dispatcher
			time.Sleep(time.Duration(r.spec.FrameHoldMs) * time.Millisecond)
		}
		if r.spec.HoldOn == "enter" && n == r.spec.HoldK {
			// let the verdict land while this chunk is in flight
			select {
			case <-r.hashHit:
			case <-time.After(50 * time.Millisecond):
			}
			r.release()
			time.Sleep(2 * time.Millisecond)
		}
	})
	verifhook.Set("send.chunk.afterFrame", func(ev verifhook.Event) {
		r := c17Rec(ev.A)
		if r == nil {
			return
		}
		r.lastNs.Store(time.Now().UnixNano())
		r.mu.Lock()
		r.ev = append(r.ev, c17Ev{Seq: ev.Seq, K: 'A', Idx: uint32(ev.B)})
		r.done++
		n := r.done
		r.mu.Unlock()
		if r.spec.HoldOn == "done" && n >= r.spec.HoldK {
			r.release()
		}
	})
	verifhook.Set("send.fileEnd.before", func(ev verifhook.Event) {
		if r := c17Rec(ev.A); r != nil {
			r.add(ev.Seq, 'E', 0)
		}
	})
	verifhook.Set("send.verify.beforeHash", func(ev verifhook.Event) {
		r := c17Rec(ev.A)
		if r == nil {
			return
		}
		r.add(ev.Seq, 'H', ev.B)
		r.hashOnce.Do(func() { close(r.hashHit) })
		if r.spec.HoldOn != "" && r.spec.HoldK > 0 {
			t0 := time.Now()
			capMs := 200
			if r.spec.HoldCapMs > 0 {
				capMs = r.spec.HoldCapMs
			}
			select {
			case <-r.holdCh:
			case <-time.After(time.Duration(capMs) * time.Millisecond):
			}
			if r.spec.HoldLagMs > 0 {
				time.Sleep(time.Duration(r.spec.HoldLagMs) * time.Millisecond)
			}
			r.mu.Lock()
			r.heldMs = time.Since(t0).Milliseconds()
			r.mu.Unlock()
		}
		// marker with a sequence number of the same counter: the verdict is stored after it
		verifhook.PointN(c17ReleaseHook, ev.A, 0)
	})
	verifhook.Set(c17ReleaseHook, func(ev verifhook.Event) {
		if r := c17Rec(ev.A); r != nil {
			r.add(ev.Seq, 'R', 0)
		}
	})
}

func c17GenTraces(e *Env, n int) []c17Trace {
	r := vk.NewRng(e.Seed ^ vk.HashStr("c17a"+e.Tier))
	out := make([]c17Trace, n)
	for t := range out {
		tr := c17Trace{ID: t, Streams: 1 + r.Intn(3), CS: []uint32{16, 64, 1000}[r.Intn(3)], Seed: r.U64()}
		if r.Intn(3) != 0 {
			tr.JitterUs = 100 + r.Intn(3000)
		}
		nf := 1 + r.Intn(3)
		for f := 0; f < nf; f++ {
			var fs c17FileSpec
			n := 1 + r.Intn(6)
			if r.Intn(12) == 0 {
				n = 0
			}
			in := c17In{N: n, Report: true}
			if n > 0 {
				switch r.Intn(5) {
				case 0: // nothing there yet
					in.V = n
				case 1, 2: // shape of the repository's receiver: verification chunk = highest reported chunk
					in.Bitmap = uint(r.Intn(1<<uint(n)-1) + 1)
					for i := 0; i < n; i++ {
						if in.bit(i) {
							in.V = i
						}
					}
				case 3: // complete file
					in.Bitmap = 1<<uint(n) - 1
					in.V = n - 1
				default: // anything
					in.Bitmap = uint(r.Intn(1 << uint(n)))
					in.V = r.Intn(n + 1)
				}
				in.Verify = "off"
				if in.V < n {
					in.Verify = []string{"right", "wrong", "wrong"}[r.Intn(3)]
				}
			}
			fs.In = in
			switch c := r.Intn(10); {
			case c < 4:
				fs.Timing = "atonce"
			case c < 6:
				fs.Timing, fs.DelayMs = "ingrace", 20+r.Intn(230)
			case c < 9:
				fs.Timing, fs.DelayMs = "late", 313+r.Intn(110)
				if r.Bool() {
					fs.DelayMs = 298 + r.Intn(15) // races with the end of the grace period
				}
			default:
				fs.Timing = "never"
				fs.In.Report = false
			}
			if n == 0 {
				fs.Timing = "never"
				fs.In.Report = false
			}
			if fs.In.Report && fs.In.Verify != "off" {
				needed := 0
				for i := 0; i < n; i++ {
					if fs.In.needed(i) {
						needed++
					}
				}
				switch r.Intn(4) {
				case 0:
				case 1:
					fs.HoldOn, fs.HoldK = "done", r.Intn(needed+1)
				default:
					fs.HoldOn, fs.HoldK = "enter", needed
					if fs.Timing == "late" {
						fs.HoldK = n
					}
					if r.Intn(3) == 0 && needed > 0 {
						fs.HoldK = 1 + r.Intn(needed)
					}
				}
			}
			tr.Files = append(tr.Files, fs)
		}
		out[t] = tr
	}
	return out
}

// c17Wire is what the scripted receiver saw.
type c17Wire struct {
	mu        sync.Mutex
	begins    map[uint64]int
	ends      map[uint64]int
	got       map[uint64]map[uint32]int
	acked     map[uint64]bool
	reqs      map[uint64]int
	endSeen   bool
	recvErr   string
	dataBytes int64
	reported  map[uint64]int    // FileResumeInfo records written
	pend      map[uint64]func() // report waiting for its logical trigger (on-frame | on-end | on-done)
	trig      map[uint64]bool   // trigger seen before the ResumeRequest was read
	lastNs    atomic.Int64      // time of the last record / frame read or written (bounded-progress rule only)
}

type c17TraceResult struct {
	Trace      c17Trace
	Keys       []uint64
	Recs       []*c17FileRec
	Wire       *c17Wire
	SendErr    error
	Completed  bool
	Hung       bool
	Setup      string
	DurMs      int64
	QuietMs    int64  // watchdog only: time since the last hook event / record / frame of this trace
	NeverBegun []int  // watchdog only: manifest files without a FileBegin when the watchdog fired
	AllAcked   bool   // watchdog only: the scripted receiver had acknowledged every file that was begun
	Dump       string // watchdog only: goroutines inside internal/transfer
}

func c17BitmapBytes(in c17In) []byte {
	b := make([]byte, (in.N+7)/8)
	for i := 0; i < in.N; i++ {
		if in.bit(i) {
			b[i/8] |= 1 << uint(i%8)
		}
	}
	return b
}

// c17RunTrace runs one real sender against the scripted receiver.
func c17RunTrace(e *Env, lp *vk.ListenerPool, tr c17Trace) (res c17TraceResult) {
	res.Trace = tr
	start := time.Now()
	defer func() { res.DurMs = time.Since(start).Milliseconds() }()
	dir := vk.TempDir(e.Work, "c17-")
	defer os.RemoveAll(dir)

	m := manifest.Manifest{Root: "c17root"}
	specByKey := map[uint64]*c17FileRec{}
	itemByKey := map[uint64]manifest.FileItem{}
	pathByKey := map[uint64]string{}
	for f, fs := range tr.Files {
		size := int64(fs.In.N) * int64(tr.CS)
		if fs.In.N > 0 && f%2 == 1 {
			size -= int64(tr.CS) / 2 // short last chunk
		}
		rel := fmt.Sprintf("f%d.bin", f)
		item := manifest.FileItem{RelPath: rel, Size: size, ModTime: 1700000000,
			ID: fmt.Sprintf("c17%x-%d-%d-%d", e.Seed, tr.Seed&0xffffff, tr.ID, f)}
		buf := make([]byte, size)
		vk.FillContent(tr.Seed, rel, 0, buf)
		p := filepath.Join(dir, rel)
		if fs.ShortSource && size > 0 {
			buf = buf[:size-1]
		}
		if err := os.WriteFile(p, buf, 0644); err != nil {
			res.Setup = err.Error()
			return
		}
		m.Items = append(m.Items, item)
		m.TotalBytes += size
		m.FileCount++
		key := transfer.VerifC17FileKey(item)
		rec := &c17FileRec{key: key, spec: fs, jseed: tr.Seed ^ uint64(f), jitterUs: tr.JitterUs,
			holdCh: make(chan struct{}), hashHit: make(chan struct{})}
		if _, dup := c17Recs.LoadOrStore(key, rec); dup {
			res.Setup = "file key collision"
			return
		}
		defer c17Recs.Delete(key)
		specByKey[key] = rec
		itemByKey[key] = item
		pathByKey[key] = p
		res.Keys = append(res.Keys, key)
		res.Recs = append(res.Recs, rec)
	}

	l := lp.Get()
	defer lp.Put(l)
	ctx, cancel := context.WithCancel(context.Background())
	defer cancel()
	pair, err := l.NewPair(ctx)
	if err != nil {
		res.Setup = "quic pair: " + err.Error()
		return
	}
	defer pair.Close()

	alg, _ := transfer.VerifC17ParseHashAlg("crc32c")
	wire := &c17Wire{begins: map[uint64]int{}, ends: map[uint64]int{}, got: map[uint64]map[uint32]int{}, acked: map[uint64]bool{}, reqs: map[uint64]int{},
		reported: map[uint64]int{}, pend: map[uint64]func(){}, trig: map[uint64]bool{}}
	wire.lastNs.Store(time.Now().UnixNano())
	res.Wire = wire
	recvDone := make(chan struct{})

	// ---- scripted receiver
	go func() {
		defer close(recvDone)
		fail := func(s string) {
			wire.mu.Lock()
			if wire.recvErr == "" {
				wire.recvErr = s
			}
			wire.mu.Unlock()
		}
		ctrl, err := pair.Accept.AcceptStream(ctx)
		if err != nil {
			fail("accept control: " + err.Error())
			return
		}
		if _, err := transfer.VerifC17ReadControlHeader(ctrl); err != nil {
			fail("header: " + err.Error())
			return
		}
		var wmu sync.Mutex
		// fire writes the report of a file whose timing is the logical trigger `which`
		// (or remembers the trigger when the ResumeRequest has not been read yet)
		fire := func(key uint64, which string) {
			rec := specByKey[key]
			if rec == nil || rec.spec.Timing != which {
				return
			}
			wire.mu.Lock()
			f := wire.pend[key]
			delete(wire.pend, key)
			if f == nil {
				wire.trig[key] = true
			}
			wire.mu.Unlock()
			if f != nil {
				f()
			}
		}
		tryAck := func(key uint64) {
			rec := specByKey[key]
			if rec == nil {
				return
			}
			in := rec.spec.In
			wire.mu.Lock()
			ok := wire.ends[key] > 0 && !wire.acked[key]
			if ok {
				for i := 0; i < in.N; i++ {
					need := !in.bit(i) || (in.Report && in.Verify == "wrong" && i == in.V)
					if need && wire.got[key][uint32(i)] == 0 {
						ok = false
					}
				}
			}
			if ok {
				wire.acked[key] = true
			}
			wire.mu.Unlock()
			if ok {
				wmu.Lock()
				_ = transfer.VerifC17WriteFileDone(ctrl, transfer.FileDone{StreamID: key, OK: true})
				wmu.Unlock()
				wire.lastNs.Store(time.Now().UnixNano())
				fire(key, "on-done")
			}
		}
		readData := func(s transfer.Stream) {
			hdr := make([]byte, transfer.VerifC17DataChunkHeaderLen)
			for {
				if _, err := io.ReadFull(s, hdr); err != nil {
					return
				}
				key := binary.BigEndian.Uint64(hdr[0:8])
				idx := binary.BigEndian.Uint32(hdr[8:12])
				ln := binary.BigEndian.Uint32(hdr[12:16])
				if ln > 1<<20 {
					fail("oversized chunk frame")
					return
				}
				payload := make([]byte, ln)
				if _, err := io.ReadFull(s, payload); err != nil {
					return
				}
				wire.mu.Lock()
				if wire.got[key] == nil {
					wire.got[key] = map[uint32]int{}
				}
				wire.got[key][idx]++
				wire.dataBytes += int64(ln)
				wire.mu.Unlock()
				wire.lastNs.Store(time.Now().UnixNano())
				fire(key, "on-frame")
				tryAck(key)
			}
		}
		for {
			typ, msg, err := transfer.VerifC17ReadControlMessage(ctrl)
			if err != nil {
				if ctx.Err() == nil {
					fail("control read: " + err.Error())
				}
				return
			}
			wire.lastNs.Store(time.Now().UnixNano())
			switch typ {
			case transfer.VerifC17TypeDataStreams:
				cnt := int(msg.(transfer.DataStreams).Count)
				go func() {
					for i := 0; i < cnt; i++ {
						s, err := pair.Accept.AcceptStream(ctx)
						if err != nil {
							return
						}
						go readData(s)
					}
				}()
			case transfer.VerifC17TypeFileBegin:
				fb := msg.(transfer.FileBegin)
				wire.mu.Lock()
				wire.begins[fb.StreamID]++
				wire.mu.Unlock()
			case transfer.VerifC17TypeResumeRequest:
				rq := msg.(transfer.ResumeRequest)
				key := rq.StreamID
				wire.mu.Lock()
				wire.reqs[key]++
				wire.mu.Unlock()
				rec := specByKey[key]
				if rec == nil || rec.spec.Timing == "never" {
					continue
				}
				in := rec.spec.In
				item := itemByKey[key]
				info := transfer.FileResumeInfo{FileID: item.ID, StreamID: key, TotalChunks: uint32(in.N),
					Bitmap: c17BitmapBytes(in), LastVerifiedChunk: uint32(in.V)}
				if in.V < in.N {
					hv, err := transfer.VerifC17HashFileChunk(pathByKey[key], uint32(in.V), tr.CS, item.Size, alg)
					if err != nil {
						fail("hash: " + err.Error())
						return
					}
					if in.Verify == "wrong" {
						hv ^= 0x5a5a
					}
					if hv == transfer.VerifC17ResumeHashUnknown {
						hv--
					}
					info.LastVerifiedHash = hv
				}
				send := func() {
					wmu.Lock()
					werr := transfer.VerifC17WriteFileResumeInfo(ctrl, info)
					wmu.Unlock()
					if werr == nil {
						wire.mu.Lock()
						wire.reported[key]++
						wire.mu.Unlock()
						wire.lastNs.Store(time.Now().UnixNano())
					}
				}
				if t := rec.spec.Timing; t == "on-frame" || t == "on-end" || t == "on-done" {
					wire.mu.Lock()
					fired := wire.trig[key]
					if !fired {
						wire.pend[key] = send
					}
					wire.mu.Unlock()
					if fired {
						send()
					}
					continue
				}
				if rec.spec.DelayMs == 0 {
					send()
				} else {
					time.AfterFunc(time.Duration(rec.spec.DelayMs)*time.Millisecond, send)
				}
			case transfer.VerifC17TypeFileEnd:
				fe := msg.(transfer.FileEnd)
				wire.mu.Lock()
				wire.ends[fe.StreamID]++
				wire.mu.Unlock()
				fire(fe.StreamID, "on-end")
				tryAck(fe.StreamID)
			case transfer.VerifC17TypeEnd:
				wire.mu.Lock()
				wire.endSeen = true
				wire.mu.Unlock()
				return
			default:
				fail(fmt.Sprintf("unexpected control record 0x%02x", typ))
				return
			}
		}
	}()

	// ---- real sender
	streams, cs := tr.Streams, tr.CS
	opts := transfer.Options{ChunkSize: cs, ParallelFiles: streams, Resume: true, HashAlg: "crc32c"}
	opts.ResumeTimeout = time.Duration(tr.ResumeTimeoutMs) * time.Millisecond
	opts.ParamSource = func() transfer.RuntimeParams { return transfer.RuntimeParams{ChunkSize: cs, ParallelFiles: streams} }
	// The application's stats callback is user code that may take its time (the
	// real one updates the UI under locks): a seeded delay there widens whatever
	// window lies around the place the sender calls it from, without changing
	// what a correct sender does.
	statsSeed := vk.Mix(uint64(tr.CS)*131 + uint64(len(tr.Files))*7 + uint64(tr.Streams))
	opts.ResumeStatsFn = func(relpath string, skipped, total uint32, verified uint32, totalBytes int64, chunkSize uint32) {
		if v := vk.Mix(statsSeed ^ vk.HashStr(relpath)); v%4 != 0 {
			time.Sleep(time.Duration(1+v%4) * time.Millisecond)
		}
	}
	sendDone := make(chan error, 1)
	go func() { sendDone <- transfer.SendManifestMultiStream(ctx, pair.Dial, dir, m, opts) }()

	wdMs := 12000
	if tr.WatchdogMs > 0 {
		wdMs = tr.WatchdogMs
	}
	wd := time.NewTimer(time.Duration(wdMs) * time.Millisecond)
	defer wd.Stop()
	select {
	case err := <-sendDone:
		res.SendErr = err
		select {
		case <-recvDone:
		case <-time.After(3 * time.Second):
		}
	case <-wd.C:
		res.Hung = true
		last := wire.lastNs.Load()
		for _, r := range res.Recs {
			if v := r.lastNs.Load(); v > last {
				last = v
			}
		}
		res.QuietMs = (time.Now().UnixNano() - last) / 1e6
		res.Dump = c17TransferGoroutines()
		wire.mu.Lock()
		res.AllAcked = true
		for f, k := range res.Keys {
			if wire.begins[k] == 0 {
				res.NeverBegun = append(res.NeverBegun, f)
			} else if !wire.acked[k] {
				res.AllAcked = false
			}
		}
		wire.mu.Unlock()
		cancel()
		_ = pair.Dial.Close()
		_ = pair.Accept.Close()
		select {
		case err := <-sendDone:
			res.SendErr = err
		case <-time.After(3 * time.Second):
		}
	}
	for _, r := range res.Recs {
		r.release()
	}
	wire.mu.Lock()
	res.Completed = res.SendErr == nil && !res.Hung && wire.endSeen && wire.recvErr == ""
	wire.mu.Unlock()
	return
}

type c17Finding struct{ key, what string }

// c17Judge applies the per-file oracle to the hook event order. Every clause
// is a necessary condition of correct behaviour in terms of hook sequence
// numbers (taken / plan.applied are logged under the state's own mutex).
func c17Judge(rec *c17FileRec, wire *c17Wire, completed bool) (finds []c17Finding, sig string, tags []string, lastByteLeftOut int) {
	in := rec.spec.In
	rec.mu.Lock()
	evs := append([]c17Ev(nil), rec.ev...)
	rec.mu.Unlock()
	sort.Slice(evs, func(i, j int) bool { return evs[i].Seq < evs[j].Seq })
	add := func(k, w string) { finds = append(finds, c17Finding{k, w}) }

	var sb strings.Builder
	T := map[int][]uint64{}
	A := map[int][]uint64{}
	var P, H, R, E []uint64
	for _, ev := range evs {
		switch ev.K {
		case 'T':
			T[int(ev.Idx)] = append(T[int(ev.Idx)], ev.Seq)
			fmt.Fprintf(&sb, "T%d ", ev.Idx)
		case 'A':
			A[int(ev.Idx)] = append(A[int(ev.Idx)], ev.Seq)
			fmt.Fprintf(&sb, "A%d ", ev.Idx)
		case 'B':
		case 'P':
			P = append(P, ev.Seq)
			sb.WriteString("P ")
		case 'H':
			H = append(H, ev.Seq)
			sb.WriteString("H ")
		case 'R':
			R = append(R, ev.Seq)
			sb.WriteString("R ")
		case 'E':
			E = append(E, ev.Seq)
			sb.WriteString("E ")
		}
	}
	sig = strings.TrimSpace(sb.String())

	wire.mu.Lock()
	begins, ends := wire.begins[rec.key], wire.ends[rec.key]
	frames := map[int]int{} // chunk frames the scripted receiver read off the data streams
	for idx, c := range wire.got[rec.key] {
		frames[int(idx)] = c
	}
	wire.mu.Unlock()
	if begins > 1 {
		add("filebegin:double", fmt.Sprintf("%d FileBegin records for one file", begins))
	}
	if completed && begins == 0 {
		add("filebegin:missing", "transfer completed without a FileBegin for the file")
	}
	if len(E) > 1 || ends > 1 {
		add("fileend:double", fmt.Sprintf("%d fileEnd.before events, %d FileEnd records", len(E), ends))
	}
	if completed && len(E) == 0 {
		add("fileend:missing", "transfer completed without an end-of-file record for the file")
	}
	verified := len(H) > 0
	wrong := in.Report && in.Verify == "wrong" && verified
	var pSeq, hSeq, rSeq uint64
	if len(P) > 0 {
		pSeq = P[0]
	}
	if verified {
		hSeq = H[0]
		if len(R) > 0 {
			rSeq = R[0]
		} else {
			rSeq = ^uint64(0)
		}
	}
	if len(P) > 1 {
		add("plan:applied-twice", "plan applied more than once")
	}
	takenBeforeP := 0
	for i, ts := range T {
		if i >= in.N {
			add("chunk:out-of-range", fmt.Sprintf("chunk %d handed out for a %d-chunk file", i, in.N))
			continue
		}
		extra := 0
		if wrong && i == in.V {
			extra = 1
		}
		if len(ts) > 1+extra {
			add("chunk:double-dispatch", fmt.Sprintf("chunk %d handed out %d times", i, len(ts)))
		}
		afterP := 0
		for _, s := range ts {
			if pSeq != 0 && s > pSeq {
				afterP++
			}
			if pSeq == 0 || s < pSeq {
				takenBeforeP++
			}
		}
		if pSeq != 0 && in.Report && !in.needed(i) && afterP > extra {
			add("chunk:sent-present-after-report", fmt.Sprintf("chunk %d (reported present, below the verification point) handed out after plan.applied", i))
		}
		if completed && len(A[i]) != len(ts) {
			add("chunk:frame-count", fmt.Sprintf("chunk %d handed out %d times but %d frames written", i, len(ts), len(A[i])))
		}
	}
	if pSeq != 0 && takenBeforeP > 0 {
		tags = append(tags, "plan-after-first-take")
	}
	if completed && in.Report && pSeq != 0 && takenBeforeP == 0 {
		// The report was known before the first chunk was handed out: whatever it lists as present below
		// the verification point must not be on the wire at all (the failed verification chunk: once).
		// The frames are those the scripted receiver had read when the sender returned - a lower bound.
		lb, lastPresent := c17LastByteStart(in.N), false
		for i := 0; i < in.N; i++ {
			if in.needed(i) {
				continue
			}
			extra := 0
			if wrong && i == in.V {
				extra = 1
			}
			if frames[i] > extra {
				add("chunk:sent-present-after-report", fmt.Sprintf("chunk %d of %d (reported present, below the verification point; report applied before the first chunk was handed out) arrived in %d data frames, %d allowed", i, in.N, frames[i], extra))
			}
			if i >= lb {
				lastPresent = true
				if len(T[i]) == 0 && frames[i] == 0 {
					lastByteLeftOut++
				}
			}
		}
		if lastPresent {
			tags = append(tags, c17TagLastByteJudged)
		}
	}
	if len(E) > 0 {
		e0 := E[0]
		for i := 0; i < in.N; i++ {
			always := !in.Report || pSeq == 0 || !in.bit(i) || i >= in.fsf()
			if pSeq != 0 && pSeq > e0 {
				// the report became known after the end-of-file record: nothing was known, everything is needed
				always = true
			}
			if !always {
				continue
			}
			if len(T[i]) == 0 || T[i][0] > e0 {
				add("chunk:skipped-needed", fmt.Sprintf("end-of-file record emitted although needed chunk %d had not been handed out", i))
			}
		}
		// every first-pass chunk (handed out before the verdict could exist) is written before the record
		for i, ts := range T {
			for j, s := range ts {
				if verified && s > rSeq {
					continue
				}
				if (j >= len(A[i]) || A[i][j] > e0) && s < e0 {
					add("fileend:chunks-in-flight", fmt.Sprintf("end-of-file record emitted before the frame of handed-out chunk %d was written", i))
				}
			}
		}
		if verified {
			// was the report known before the end-of-file decision for certain?
			certain := takenBeforeP == 0 && pSeq != 0
			for i, ts := range T {
				for j, s := range ts {
					if s < rSeq && j < len(A[i]) && A[i][j] > hSeq {
						certain = true
					}
				}
			}
			if certain {
				tags = append(tags, "report-known-before-end")
				if e0 > hSeq && e0 < rSeq {
					add("fileend:before-verdict", "end-of-file record emitted while the verification was held pending")
				}
				if wrong {
					// the re-send is handed out after the verdict marker R; under correct code it is
					// handed out and written before the end-of-file decision (a re-send that never happens
					// because the file was acknowledged first is the same finding)
					v := in.V
					tvBefore, tvAfterR, avBefore := 0, 0, 0
					for _, s := range T[v] {
						if s < e0 {
							tvBefore++
							if s > rSeq {
								tvAfterR++
							}
						}
					}
					for _, s := range A[v] {
						if s < e0 {
							avBefore++
						}
					}
					switch {
					case tvAfterR == 0 || (!in.bit(v) && tvBefore < 2) || avBefore < tvBefore:
						// one key whether the re-send was not yet handed out or handed out but not yet written when the
						// record was emitted: the hook at the record is not atomic with the decision, the cause is the same
						add("fileend:before-resend", fmt.Sprintf("end-of-file record emitted after the mismatch verdict for chunk %d was due but before its re-send had gone out (%d hand-outs and %d written frames of that chunk precede the record, %d hand-outs after the verdict was released)", v, tvBefore, avBefore, tvAfterR))
					default:
						tags = append(tags, "resend-before-end")
					}
				}
			} else {
				tags = append(tags, "report-vs-end-order-unknown")
			}
			// frames written while the verdict was held
			held := false
			for _, as := range A {
				for _, s := range as {
					if s > hSeq && s < rSeq {
						held = true
					}
				}
			}
			if held {
				tags = append(tags, "frame-while-verdict-held")
			}
			// the verdict was released only after every first-pass chunk had been handed out and written:
			// nothing but a later visit of the dispatcher can end the file (or hand out the re-send)
			if len(R) > 0 {
				late, first := true, 0
				for i := 0; i < in.N; i++ {
					need := !in.Report || pSeq == 0 || !in.bit(i) || i >= in.fsf()
					if need && (len(T[i]) == 0 || T[i][0] > rSeq) {
						late = false
					}
				}
				for i, ts := range T {
					for j, s := range ts {
						if s < rSeq {
							first++
							if j >= len(A[i]) || A[i][j] > rSeq {
								late = false
							}
						}
					}
				}
				if late && first > 0 {
					tags = append(tags, c17TagVerdictAfterFrame)
				}
			}
		}
	}
	return
}

func c17PartA(e *Env) {
	n := e.Pick(600, 5000)
	traces := c17GenTraces(e, n)
	// second family: chunk counts on / next to the byte boundaries of the resume bitmap (c17bounds.go)
	traces = append(traces, c17GenBoundaryTraces(e, e.Pick(300, 1500), n)...)
	// a source file that shrank after the scan: the read of its last chunk fails
	// while the control stream is healthy (no end-of-file record may follow)
	{
		rs := vk.NewRng(vk.Mix(e.Seed ^ vk.HashStr("c17short"+e.Tier)))
		base := len(traces)
		for k := 0; k < e.Pick(60, 300); k++ {
			tr := c17Trace{ID: base + k, Class: "source-short-read", Streams: 1 + rs.Intn(3), CS: []uint32{16, 64, 1000}[rs.Intn(3)], Seed: rs.U64()}
			nf := 1 + rs.Intn(2)
			for f := 0; f < nf; f++ {
				n := 1 + rs.Intn(6)
				tr.Files = append(tr.Files, c17FileSpec{In: c17In{N: n, V: n, Verify: "off"}, Timing: "never", ShortSource: f == 0})
			}
			traces = append(traces, tr)
		}
	}
	// fourth family: the verdict arrives after the last chunk was written while other workers idle (c17stall.go);
	// run first, so that a sender that stops coming back to such a file is confirmed early
	nLate := e.Pick(100, 400)
	traces = append(c17GenLateVerdictTraces(e, nLate, len(traces)), traces...)
	lateDone, lateSkipped, lateMulti := 0, 0, 0
	lateByVerify := map[string]int{}
	bobs := newC17BoundaryObs()
	lp, err := vk.NewListenerPool(16, 8*time.Second)
	if err != nil {
		e.R.Inconcl("listener pool: " + err.Error())
		e.R.Require(false, "C17(a): no QUIC listeners")
		return
	}
	defer lp.Close()
	verifhook.Reset()
	c17InstallHooks()
	defer verifhook.Reset()
	start := time.Now()

	var mu sync.Mutex
	orders := map[string]int{}
	tagCount := map[string]int{}
	timingCount := map[string]int{}
	files, completed, samples, plain, bsamples := 0, 0, 0, 0, 0
	var senderErrs []string
	vk.ParallelDo(len(traces), 16, func(i int) {
		tr := traces[i]
		if tr.Class == c17ClassLateVerdict && c17StallConfirmed.Load() {
			// one confirmed execution decides the run: the remaining traces of the family would each end at the watchdog
			mu.Lock()
			lateSkipped++
			mu.Unlock()
			return
		}
		res := c17RunTrace(e, lp, tr)
		e.R.Eval()
		if res.Setup != "" {
			e.R.Inconcl(fmt.Sprintf("trace %d: setup: %s", tr.ID, res.Setup))
			return
		}
		type fileOut struct {
			Spec   c17FileSpec `json:"spec"`
			Events string      `json:"events"`
			Tags   []string    `json:"tags"`
		}
		var outs []fileOut
		nviol := 0
		for f, rec := range res.Recs {
			finds, sig, tags, leftOut := c17Judge(rec, res.Wire, res.Completed)
			outs = append(outs, fileOut{rec.spec, sig, tags})
			mu.Lock()
			files++
			if res.Completed {
				orders[rec.spec.In.String()+"|"+sig]++
				timingCount[rec.spec.Timing]++
				for _, t := range tags {
					tagCount[t]++
				}
				if rec.spec.Pattern != "" {
					bobs.note(rec.spec, tags, leftOut)
				}
				for _, t := range tags {
					if t == c17TagVerdictAfterFrame && tr.Streams >= 2 {
						lateMulti++
						lateByVerify[rec.spec.In.Verify]++
					}
				}
				if tr.Class == c17ClassLateVerdict && f == 0 {
					lateDone++
				}
			}
			mu.Unlock()
			if res.Completed && tr.Class == c17ClassLateVerdict && f == 0 && sig != "" {
				e.R.Distinct(fmt.Sprintf("a-late-verdict:%s/w%d/%s|%s", rec.spec.In.String(), tr.Streams, rec.spec.HoldOn, sig))
			}
			if res.Completed && sig != "" {
				e.R.Distinct("a:" + rec.spec.In.String() + "|" + sig)
			}
			if res.Completed && rec.spec.Pattern != "" {
				e.R.Distinct("a-boundary:" + c17BoundaryCell(rec.spec) + "/" + rec.spec.In.Verify + "/" + rec.spec.Timing)
			}
			seen := map[string]bool{}
			for _, fd := range finds {
				if seen[fd.key] {
					continue
				}
				seen[fd.key] = true
				nviol++
				e.R.Violate(fd.key, fd.what+" (real SendManifestMultiStream over loopback QUIC; file "+fmt.Sprint(f)+" of the trace; hook order: "+sig+")",
					map[string]any{"part": "a", "trace": tr, "file": f, "input_str": rec.spec.In.String()},
					map[string]any{"events": sig, "tags": tags, "completed": res.Completed, "hung": res.Hung, "send_err": fmt.Sprint(res.SendErr), "recv_err": res.Wire.recvErr})
			}
		}
		mu.Lock()
		if res.Completed {
			completed++
		}
		interesting := false
		for _, o := range outs {
			for _, t := range o.Tags {
				if t == "resend-before-end" || t == "plan-after-first-take" {
					interesting = true
				}
			}
		}
		boundary := false
		for _, o := range outs {
			for _, t := range o.Tags {
				if t == c17TagLastByteJudged && o.Spec.Pattern != "" && o.Spec.In.N <= 17 {
					boundary = true
				}
			}
		}
		doSample := res.Completed && ((interesting && samples < 3) || plain < 1 || (boundary && bsamples < 2))
		if doSample {
			if boundary && bsamples < 2 {
				bsamples++
			} else if interesting {
				samples++
			} else {
				plain++
			}
		}
		mu.Unlock()
		if doSample {
			c17Sample("a", map[string]any{"part": "a", "trace_id": tr.ID, "class": tr.Class, "streams": tr.Streams, "chunk_size": tr.CS, "jitter_us": tr.JitterUs, "files": outs, "dur_ms": res.DurMs})
		}
		if !res.Completed && nviol == 0 {
			dbg, _ := json.Marshal(outs)
			res.Wire.mu.Lock()
			ws := fmt.Sprintf("begins=%v ends=%v acked=%v got=%v reqs=%v", res.Wire.begins, res.Wire.ends, res.Wire.acked, res.Wire.got, res.Wire.reqs)
			recvErr := res.Wire.recvErr
			res.Wire.mu.Unlock()
			msg := fmt.Sprintf("trace %d did not complete (hung=%v send_err=%v recv_err=%q) and the oracle found nothing in its hook log; files=%s wire: %s", tr.ID, res.Hung, res.SendErr, recvErr, dbg, ws)
			if res.Hung {
				e.R.Count("a_trace_watchdog")
				// a watchdog alone is never a verdict of this property; files that are never begun although
				// every begun file was acknowledged are one under the bounded-progress rule (c17rto.go)
				if !c17StalledFileVerdict(e, lp, tr, res) && !c17NeverBegunVerdict(e, lp, tr, res) {
					e.R.Inconcl(msg)
				}
			} else {
				// the sender gave up with an error: no exactly-once verdict for the unfinished files
				e.R.NoVerd()
				e.R.Count("a_trace_sender_error")
				mu.Lock()
				if len(senderErrs) < 5 {
					senderErrs = append(senderErrs, msg)
				}
				mu.Unlock()
			}
		}
	})
	e.R.SetExtra("a_traces", len(traces))
	e.R.SetExtra("a_sender_error_samples", senderErrs)
	e.R.SetExtra("a_traces_completed", completed)
	e.R.SetExtra("a_files_judged", files)
	e.R.SetExtra("a_distinct_event_orders", len(orders))
	e.R.SetExtra("a_observations", tagCount)
	e.R.SetExtra("a_files_by_report_timing", timingCount)
	e.R.SetExtra("a_resume_grace_ms", transfer.VerifC17ResumeGrace().Milliseconds())
	e.R.SetExtra("a_late_verdict_family", map[string]any{"traces": nLate, "completed": lateDone, "skipped_after_confirmed_stall": lateSkipped,
		"files_ended_although_verdict_came_after_last_first_pass_frame_with_2+_workers": lateMulti, "of_these_by_verification_outcome": lateByVerify,
		"stalled_file_confirmed": c17StallConfirmed.Load()})
	if !c17StallConfirmed.Load() {
		// the class the stalled-file clause is about must have been produced (and ended) often enough
		e.R.Require(lateMulti >= e.Pick(30, 120) && lateByVerify["right"] >= e.Pick(10, 40) && lateByVerify["wrong"] >= e.Pick(10, 40),
			fmt.Sprintf("C17(a): too few files with >= 2 workers whose verdict came after the last first-pass frame (%d, by outcome %v)", lateMulti, lateByVerify))
	}
	e.R.SetExtra("hook_hits", verifhook.AllHits())
	bobs.report(e)
	e.R.SetExtra("a_wall_s", time.Since(start).Seconds())
	e.R.Require(completed*10 >= len(traces)*8, fmt.Sprintf("C17(a): only %d of %d traces completed", completed, len(traces)))
	e.R.Require(tagCount["plan-after-first-take"] >= 1, "C17(a): no trace in which the plan was applied after chunks had been handed out")
	e.R.Require(tagCount["report-known-before-end"] >= e.Pick(10, 100), "C17(a): too few verified files whose report was known before the end-of-file decision")
	e.R.Require(tagCount["frame-while-verdict-held"] >= 1, "C17(a): the verdict was never held while frames were written")
	for _, h := range []string{"send.chunk.taken", "send.plan.applied", "send.chunk.afterFrame", "send.fileEnd.before", "send.verify.beforeHash"} {
		e.R.Require(verifhook.Hits(h) > 0, "C17(a): hook never hit: "+h)
	}
	vk.Logf("c17(a): %d traces (%d completed), %d files, %d distinct event orders, %.1fs", len(traces), completed, files, len(orders), time.Since(start).Seconds())
}
