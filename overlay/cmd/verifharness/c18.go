//go:build verif

package main

// C18 – control-protocol encoding round-trips and stays in frame.
//
// Every value is encoded with the repository's own writer (through the export
// shims in internal/transfer/zz_verif_export_c18.go) into an in-memory
// transfer.Stream and decoded again with readControlMessage/readControlHeader.
// Oracle: the decoder reports the same record type and an equal value (nil and
// empty slices identified), and it consumed exactly the bytes that were
// written. Sequences of records (optionally behind a header) must decode to
// the same sequence and leave the reader at EOF. A value the writer refuses
// must leave nothing in the stream (the peer would read a torn record).
// Length-limited fields are generated at their limits measured in bytes and in
// characters, with characters of 1, 2, 3 and 4 bytes.
// The stage "concurrent" (c18conc.go) runs many sessions of one process at
// overlapping times, each with its own values and its own stream.

import (
	"bytes"
	"context"
	"encoding/hex"
	"encoding/json"
	"flag"
	"fmt"
	"hash/fnv"
	"io"
	"math"
	"os"
	"os/exec"
	"path/filepath"
	"runtime/debug"
	"sort"
	"strconv"
	"strings"
	"sync"
	"syscall"
	"time"
	"unicode/utf8"

	"github.com/sheerbytes/sheerbytes/internal/transfer"
	vk "github.com/sheerbytes/sheerbytes/internal/verifkit"
	"github.com/sheerbytes/sheerbytes/pkg/manifest"
)

func init() {
	register("c18", runC18)
	childCommands["c18shard"] = c18ShardMain
}

// ---------------------------------------------------------------- stream

// c18Stream is a transfer.Stream over a byte slice. Reads never block and
// return io.EOF once everything written has been consumed. With dribble set,
// reads return short counts (legal for an io.Reader; QUIC streams do that).
type c18Stream struct {
	buf     []byte
	rd      int
	dribble *vk.Rng
}

func (s *c18Stream) Write(p []byte) (int, error) { s.buf = append(s.buf, p...); return len(p), nil }
func (s *c18Stream) Close() error                { return nil }
func (s *c18Stream) Read(p []byte) (int, error) {
	if len(p) == 0 {
		return 0, nil
	}
	avail := len(s.buf) - s.rd
	if avail <= 0 {
		return 0, io.EOF
	}
	n := len(p)
	if n > avail {
		n = avail
	}
	if s.dribble != nil && n > 1 {
		lim := n
		if s.dribble.Intn(4) != 0 && lim > 9 {
			lim = 9
		} else if lim > 5000 {
			lim = 5000
		}
		n = 1 + s.dribble.Intn(lim)
	}
	copy(p, s.buf[s.rd:s.rd+n])
	s.rd += n
	return n, nil
}
func (s *c18Stream) left() int { return len(s.buf) - s.rd }

// ---------------------------------------------------------------- records

const (
	kFileBegin = "FileBegin"
	kCredit    = "Credit"
	kBatch     = "CreditBatch"
	kFileEnd   = "FileEnd"
	kFileDone  = "FileDone"
	kResume    = "FileResumeInfo"
	kResumeReq = "ResumeRequest"
	kStreams   = "DataStreams"
	kEnd       = "End"
	kHeader    = "header"
)

var c18Kinds = []string{kFileBegin, kCredit, kBatch, kFileEnd, kFileDone, kResume, kResumeReq, kStreams, kEnd, kHeader}

type c18Rec struct {
	Kind  string
	Class string // generator class (stable; used in violation keys)
	V     any    // transfer.* value, manifest.Manifest for the header, nil for End
}

func c18TypeByte(kind string) byte {
	switch kind {
	case kFileBegin:
		return transfer.VerifC18TypeFileBegin
	case kCredit:
		return transfer.VerifC18TypeCredit
	case kBatch:
		return transfer.VerifC18TypeCreditBatch
	case kFileEnd:
		return transfer.VerifC18TypeFileEnd
	case kFileDone:
		return transfer.VerifC18TypeFileDone
	case kResume:
		return transfer.VerifC18TypeFileResumeInfo
	case kResumeReq:
		return transfer.VerifC18TypeResumeRequest
	case kStreams:
		return transfer.VerifC18TypeDataStreams
	case kEnd:
		return transfer.VerifC18TypeEnd
	}
	return 0
}

func c18Encode(s transfer.Stream, r c18Rec) error {
	switch v := r.V.(type) {
	case transfer.FileBegin:
		return transfer.VerifC18WriteFileBegin(s, v)
	case transfer.Credit:
		return transfer.VerifC18WriteCredit(s, v)
	case transfer.CreditBatch:
		return transfer.VerifC18WriteCreditBatch(s, v)
	case transfer.FileEnd:
		return transfer.VerifC18WriteFileEnd(s, v)
	case transfer.FileDone:
		return transfer.VerifC18WriteFileDone(s, v)
	case transfer.FileResumeInfo:
		return transfer.VerifC18WriteFileResumeInfo(s, v)
	case transfer.ResumeRequest:
		return transfer.VerifC18WriteResumeRequest(s, v)
	case transfer.DataStreams:
		return transfer.VerifC18WriteDataStreams(s, v)
	case manifest.Manifest:
		return transfer.VerifC18WriteControlHeader(s, v)
	case nil:
		return transfer.VerifC18WriteControlEnd(s)
	}
	return fmt.Errorf("harness: unknown record value %T", r.V)
}

// c18Decode reads one record of the given kind (the header has its own reader;
// everything else goes through readControlMessage, as in the receivers).
func c18Decode(s transfer.Stream, kind string) (byte, any, error) {
	if kind == kHeader {
		m, err := transfer.VerifC18ReadControlHeader(s)
		return 0, m, err
	}
	return transfer.VerifC18ReadControlMessage(s)
}

func c18Equal(a, b any) bool {
	switch x := a.(type) {
	case nil:
		return b == nil
	case transfer.FileBegin:
		y, ok := b.(transfer.FileBegin)
		return ok && x == y
	case transfer.Credit:
		y, ok := b.(transfer.Credit)
		return ok && x == y
	case transfer.FileEnd:
		y, ok := b.(transfer.FileEnd)
		return ok && x == y
	case transfer.FileDone:
		y, ok := b.(transfer.FileDone)
		return ok && x == y
	case transfer.ResumeRequest:
		y, ok := b.(transfer.ResumeRequest)
		return ok && x == y
	case transfer.DataStreams:
		y, ok := b.(transfer.DataStreams)
		return ok && x == y
	case transfer.CreditBatch:
		y, ok := b.(transfer.CreditBatch)
		if !ok || len(x.Entries) != len(y.Entries) {
			return false
		}
		for i := range x.Entries {
			if x.Entries[i] != y.Entries[i] {
				return false
			}
		}
		return true
	case transfer.FileResumeInfo:
		y, ok := b.(transfer.FileResumeInfo)
		return ok && x.FileID == y.FileID && x.StreamID == y.StreamID && x.TotalChunks == y.TotalChunks &&
			x.LastVerifiedChunk == y.LastVerifiedChunk && x.LastVerifiedHash == y.LastVerifiedHash && bytes.Equal(x.Bitmap, y.Bitmap)
	case manifest.Manifest:
		y, ok := b.(manifest.Manifest)
		if !ok || x.Root != y.Root || x.TotalBytes != y.TotalBytes || x.FileCount != y.FileCount ||
			x.FolderCount != y.FolderCount || len(x.Items) != len(y.Items) {
			return false
		}
		for i := range x.Items {
			if x.Items[i] != y.Items[i] {
				return false
			}
		}
		return true
	}
	return false
}

// jsonCoerce is what encoding/json does to a string that is not valid UTF-8:
// every offending byte becomes U+FFFD.
func jsonCoerce(s string) string {
	if utf8.ValidString(s) {
		return s
	}
	var sb strings.Builder
	for i := 0; i < len(s); {
		r, sz := utf8.DecodeRuneInString(s[i:])
		if r == utf8.RuneError && sz == 1 {
			sb.WriteString("\uFFFD")
		} else {
			sb.WriteString(s[i : i+sz])
		}
		i += sz
	}
	return sb.String()
}

// manifestInvalidNames reports whether a name (root / rel_path) of m is not valid UTF-8.
func manifestInvalidNames(m manifest.Manifest) bool {
	if !utf8.ValidString(m.Root) {
		return true
	}
	for _, it := range m.Items {
		if !utf8.ValidString(it.RelPath) {
			return true
		}
	}
	return false
}

func manifestCoerced(m manifest.Manifest) manifest.Manifest {
	out := m
	out.Root = jsonCoerce(m.Root)
	out.Items = make([]manifest.FileItem, len(m.Items))
	for i, it := range m.Items {
		it.RelPath = jsonCoerce(it.RelPath)
		out.Items[i] = it
	}
	return out
}

// ---------------------------------------------------------------- describing values

func c18ShortBytes(b []byte) map[string]any {
	n := len(b)
	if n > 48 {
		return map[string]any{"len": n, "hex_prefix": hex.EncodeToString(b[:48])}
	}
	return map[string]any{"len": n, "hex": hex.EncodeToString(b)}
}

func c18Describe(r c18Rec) map[string]any {
	d := map[string]any{"kind": r.Kind, "class": r.Class}
	switch v := r.V.(type) {
	case transfer.FileBegin:
		d["rel_path"] = c18ShortBytes([]byte(v.RelPath))
		d["file_size"], d["chunk_size"], d["stream_id"], d["hash_alg"] = v.FileSize, v.ChunkSize, v.StreamID, v.HashAlg
		d["stripe"] = []uint64{uint64(v.StripeIndex), uint64(v.StripeCount), uint64(v.StripeStart), uint64(v.StripeChunks)}
	case transfer.Credit:
		d["stream_id"], d["credits"] = v.StreamID, v.Credits
	case transfer.CreditBatch:
		d["entries"] = len(v.Entries)
		d["entries_nil"] = v.Entries == nil
		if len(v.Entries) > 0 {
			d["first"] = []uint64{v.Entries[0].StreamID, uint64(v.Entries[0].Credits)}
		}
	case transfer.FileEnd:
		d["stream_id"], d["crc32"] = v.StreamID, v.CRC32
	case transfer.FileDone:
		d["stream_id"], d["ok"], d["err_msg"] = v.StreamID, v.OK, c18ShortBytes([]byte(v.ErrMsg))
	case transfer.FileResumeInfo:
		d["file_id"] = c18ShortBytes([]byte(v.FileID))
		d["stream_id"], d["total_chunks"], d["last_verified_chunk"], d["last_verified_hash"] = v.StreamID, v.TotalChunks, v.LastVerifiedChunk, v.LastVerifiedHash
		d["bitmap"] = c18ShortBytes(v.Bitmap)
		d["bitmap_nil"] = v.Bitmap == nil
	case transfer.ResumeRequest:
		d["file_id"], d["stream_id"] = c18ShortBytes([]byte(v.FileID)), v.StreamID
	case transfer.DataStreams:
		d["count"] = v.Count
	case manifest.Manifest:
		d["root"] = c18ShortBytes([]byte(v.Root))
		d["items"] = len(v.Items)
		d["items_nil"] = v.Items == nil
		d["total_bytes"], d["file_count"], d["folder_count"] = v.TotalBytes, v.FileCount, v.FolderCount
		if len(v.Items) > 0 {
			it := v.Items[0]
			d["item0"] = map[string]any{"rel_path": c18ShortBytes([]byte(it.RelPath)), "size": it.Size, "mod_time": it.ModTime, "is_dir": it.IsDir, "id": c18ShortBytes([]byte(it.ID))}
		}
	}
	return d
}

// ---------------------------------------------------------------- generators

var c18NameClasses = []string{"plain", "unicode", "dotdash", "backslash", "dotdot-inside", "comp255", "near1024", "invalid-utf8", "control", "json-special"}

var c18Alphabets = map[string][]string{
	"plain":         {"a", "b", "c", "x", "y", "Z", "0", "7", "_", "-", "."},
	"unicode":       {"ä", "ö", "é", "日", "本", "語", " ", "🙂", "\u00a0", "ß", "Ω", "a"},
	"dotdash":       {".", "-", "a", "b", "_"},
	"backslash":     {"\\", "a", "b", "c", " "},
	"dotdot-inside": {"a..b", "x..", "..y", "v1..2", "c"},
	"comp255":       {"k"},
	"near1024":      {"p", "q", "r"},
	"invalid-utf8":  {"\xff", "\xfe", "\xc3", "\xe2\x82", "\xed\xa0\x80", "\x80", "a", "b", "é"},
	"control":       {"\x01", "\x1f", "\x7f", "\t", "\n", "\r", "\x00", "\x1b", "a", "b"},
	"json-special":  {"\"", "\\", "/", "<", ">", "&", "\u2028", "\u2029", "'", "{", "}", "[", "]", ":", ",", "\uFFFD", "a"},
}

// c18Comp makes one path component of roughly n bytes from the class alphabet.
func c18Comp(r *vk.Rng, class string, n int) string {
	alpha := c18Alphabets[class]
	var sb strings.Builder
	for sb.Len() < n {
		sb.WriteString(alpha[r.Intn(len(alpha))])
	}
	s := sb.String()
	if class != "invalid-utf8" {
		for len(s) > n && len(s) > 0 { // cut on a rune boundary
			_, sz := utf8.DecodeLastRuneInString(s)
			s = s[:len(s)-sz]
		}
		for len(s) < n {
			s += "a"
		}
	} else if len(s) > n {
		s = s[:n]
	}
	if s == "." || s == ".." || s == "" {
		s = "a" + s
		if len(s) > n && n >= 1 {
			s = s[:n]
		}
		if s == "." || s == ".." || s == "" {
			s = strings.Repeat("a", maxInt(n, 1))
		}
	}
	return s
}

func maxInt(a, b int) int {
	if a > b {
		return a
	}
	return b
}
func c18MinInt(a, b int) int {
	if a < b {
		return a
	}
	return b
}

// c18Path makes a relative path of exactly n bytes (n >= 1) whose components
// come from the class; it never contains a ".." segment, never starts with "/".
func c18Path(r *vk.Rng, class string, n int) string {
	if n <= 0 {
		return ""
	}
	var parts []string
	total := 0
	for total < n {
		rem := n - total
		want := 1 + r.Intn(40)
		if class == "comp255" || class == "near1024" {
			want = 255
		}
		if want > rem {
			want = rem
		}
		if rem-want == 1 { // would leave room for a bare "/": absorb
			want = rem
		}
		c := c18Comp(r, class, want)
		if class == "backslash" { // a "\..\" would be a parent segment for the writer; keep segments clean
			c = strings.ReplaceAll(c, "\\..\\", "\\.a\\")
		}
		parts = append(parts, c)
		total += len(c) + 1
	}
	raw := class == "invalid-utf8"
	p := c18Fit(strings.Join(parts, "/"), n, raw)
	p = c18Fit(strings.TrimSuffix(p, "/"), n, raw)
	if c18HasParent(p) || strings.HasPrefix(p, "/") {
		p = strings.NewReplacer("..", "._").Replace(p)
		p = c18Fit(strings.TrimLeft(p, "/"), n, raw)
	}
	return p
}

// c18Fit cuts or pads s to exactly n bytes; unless raw, a cut never splits a rune.
func c18Fit(s string, n int, raw bool) string {
	if len(s) > n {
		s = s[:n]
		if !raw {
			for len(s) > 0 {
				if r, sz := utf8.DecodeLastRuneInString(s); r == utf8.RuneError && sz == 1 {
					s = s[:len(s)-1]
				} else {
					break
				}
			}
		}
	}
	for len(s) < n {
		s += "a"
	}
	return s
}

func c18HasParent(p string) bool {
	for _, seg := range strings.FieldsFunc(p, func(r rune) bool { return r == '/' || r == '\\' }) {
		if seg == ".." {
			return true
		}
	}
	return false
}


// ---- multi-byte characters at the length limits --------------------------------
//
// Every length-limited field is limited in BYTES on the wire. A value can be
// measured in bytes or in characters; the two differ exactly when characters
// take 2, 3 or 4 bytes. c18WideChars[w] are valid UTF-8 characters of w bytes.
var c18WideChars = map[int][]string{
	1: {"a", "b", "z", "0", "_", "Q"},
	2: {"é", "ß", "Ω", "я", "ü", "ñ"},
	3: {"日", "本", "語", "€", "한", "ก"},
	4: {"🙂", "𝄞", "𠜎", "🚀", "𐍈"},
}

var c18Widths = []int{1, 2, 3, 4, 0} // 0 = mixed widths

func c18WidthLabel(w int) string {
	if w == 0 {
		return "mixed"
	}
	return strconv.Itoa(w)
}

func c18WideChar(r *vk.Rng, w int) string {
	if w == 0 {
		w = 1 + r.Intn(4)
	}
	a := c18WideChars[w]
	return a[r.Intn(len(a))]
}

// c18WideText returns a text of exactly n bytes (measure "bytes") or exactly n
// characters (measure "runes") made of w-byte characters; with slashes it is a
// relative path with components of at most 200 bytes. A byte-measured text
// whose length is not a multiple of w is filled up with ASCII.
func c18WideText(r *vk.Rng, w int, measure string, n int, slashes bool) string {
	var sb strings.Builder
	runes, comp, compMax := 0, 0, 1+r.Intn(200)
	size := func() int {
		if measure == "runes" {
			return runes
		}
		return sb.Len()
	}
	for size() < n {
		if slashes && comp >= compMax && size() < n-1 {
			sb.WriteByte('/')
			runes++
			comp, compMax = 0, 1+r.Intn(200)
			continue
		}
		c := c18WideChar(r, w)
		if measure == "bytes" && sb.Len()+len(c) > n {
			c = "a"
		}
		sb.WriteString(c)
		runes++
		comp += len(c)
	}
	return sb.String()
}

func c18WidePath(r *vk.Rng, w int, measure string, n int) string {
	return c18WideText(r, w, measure, n, true)
}

func c18U64(r *vk.Rng) uint64 {
	switch r.Intn(8) {
	case 0:
		return 0
	case 1:
		return math.MaxUint64
	case 2:
		return uint64(r.Intn(300))
	case 3:
		return uint64(1) << uint(r.Intn(64))
	case 4:
		return (uint64(1) << uint(r.Intn(64))) - 1
	}
	return r.U64()
}
func c18U32(r *vk.Rng) uint32 {
	switch r.Intn(8) {
	case 0:
		return 0
	case 1:
		return math.MaxUint32
	case 2:
		return uint32(r.Intn(300))
	case 3:
		return uint32(1) << uint(r.Intn(32))
	case 4:
		return (uint32(1) << uint(r.Intn(32))) - 1
	}
	return uint32(r.U64())
}
func c18U16(r *vk.Rng) uint16 {
	switch r.Intn(6) {
	case 0:
		return 0
	case 1:
		return math.MaxUint16
	case 2:
		return uint16(r.Intn(300))
	}
	return uint16(r.U64())
}
func c18I64(r *vk.Rng) int64 {
	switch r.Intn(8) {
	case 0:
		return 0
	case 1:
		return math.MaxInt64
	case 2:
		return math.MinInt64
	case 3:
		return -1
	case 4:
		return int64(r.U64() % (10 << 40))
	}
	return int64(r.U64())
}

// c18Len draws a length in [0,max]: boundaries with probability 1/3, else log-uniform up to soft.
func c18Len(r *vk.Rng, max, soft int) int {
	switch r.Intn(9) {
	case 0:
		return 0
	case 1:
		return 1
	case 2:
		if r.Intn(4) == 0 {
			return max
		}
		return maxInt(0, max-1-r.Intn(2))
	}
	if soft > max {
		soft = max
	}
	bits := 1
	for (1 << uint(bits)) < soft {
		bits++
	}
	n := int(r.U64() % (uint64(1) << uint(1+r.Intn(bits))))
	if n > soft {
		n = soft
	}
	return n
}

// c18Text makes n bytes of id / error text. These fields travel as raw bytes.
func c18Text(r *vk.Rng, n int) string {
	switch r.Intn(5) {
	case 0:
		return string(r.Bytes(n)) // arbitrary bytes including NUL and 0xFF
	case 1:
		return strings.Repeat("\xff", n)
	case 2:
		return strings.Repeat("\x00", n)
	case 3:
		b := r.Bytes(n)
		for i := range b {
			b[i] = "0123456789abcdef"[b[i]&15]
		}
		return string(b)
	}
	b := r.Bytes(n)
	for i := range b {
		b[i] = 0x20 + b[i]%0x5f
	}
	return string(b)
}

func c18Manifest(r *vk.Rng, class string, items int, nilItems bool) manifest.Manifest {
	var m manifest.Manifest
	switch r.Intn(4) {
	case 0:
		m.Root = ""
	case 1:
		m.Root = c18Comp(r, class, 255)
	default:
		m.Root = c18Comp(r, class, 1+r.Intn(40))
	}
	if items > 0 || !nilItems {
		m.Items = make([]manifest.FileItem, items)
	}
	for i := 0; i < items; i++ {
		var it manifest.FileItem
		plen := 1 + r.Intn(60)
		switch {
		case class == "near1024":
			plen = 1000 + r.Intn(25)
		case class == "comp255":
			plen = 255 + r.Intn(3)*256
		case r.Intn(50) == 0:
			plen = []int{1, 1023, 1024}[r.Intn(3)]
		}
		it.RelPath = c18Path(r, class, plen)
		it.IsDir = r.Intn(4) == 0
		if !it.IsDir {
			it.Size = c18I64(r)
		}
		it.ModTime = c18I64(r)
		switch r.Intn(6) {
		case 0:
			it.ID = ""
		case 1:
			it.ID = c18Comp(r, "unicode", 1+r.Intn(40))
		default:
			it.ID = hex.EncodeToString(r.Bytes(8))
		}
		m.Items[i] = it
	}
	m.TotalBytes = c18I64(r)
	m.FileCount = int(c18I64(r))
	m.FolderCount = int(c18I64(r))
	return m
}

// c18Random draws one random record of the given kind. small bounds the
// variable-length fields (used inside sequences).
func c18Random(r *vk.Rng, kind string, small bool) c18Rec {
	rec := c18Rec{Kind: kind, Class: "rand"}
	soft16, softBitmap, softBatch, softItems := 65535, 1<<17, 5000, 2000
	if small {
		soft16, softBitmap, softBatch, softItems = 2048, 4096, 64, 24
	}
	switch kind {
	case kFileBegin:
		var path string
		if r.Intn(4) == 0 { // multi-byte characters, length drawn in bytes or in characters up to one past the limit
			w := c18Widths[r.Intn(len(c18Widths))]
			measure := []string{"bytes", "runes"}[r.Intn(2)]
			n := 1 + c18Len(r, transfer.VerifC18MaxRelPathLength, 400)
			rec.Class = "rand/wide-w=" + c18WidthLabel(w) + "/" + measure
			path = c18WidePath(r, w, measure, n)
		} else {
			class := c18NameClasses[r.Intn(len(c18NameClasses))]
			n := 1 + c18Len(r, 1023, 300)
			rec.Class = "rand/" + class
			path = c18Path(r, class, n)
		}
		rec.V = transfer.FileBegin{RelPath: path, FileSize: c18U64(r), ChunkSize: c18U32(r), StreamID: c18U64(r),
			HashAlg: byte(r.U64()), StripeIndex: c18U16(r), StripeCount: c18U16(r), StripeStart: c18U32(r), StripeChunks: c18U32(r)}
	case kCredit:
		rec.V = transfer.Credit{StreamID: c18U64(r), Credits: c18U32(r)}
	case kBatch:
		n := c18Len(r, 1<<20, softBatch)
		if small && n > softBatch {
			n = softBatch
		}
		if !small && n > 70000 {
			n = 70000
		}
		var b transfer.CreditBatch
		if n > 0 || r.Bool() {
			b.Entries = make([]transfer.Credit, n)
		}
		for i := range b.Entries {
			b.Entries[i] = transfer.Credit{StreamID: c18U64(r), Credits: c18U32(r)}
		}
		rec.V = b
	case kFileEnd:
		rec.V = transfer.FileEnd{StreamID: c18U64(r), CRC32: c18U32(r)}
	case kFileDone:
		n := c18Len(r, 65535, soft16)
		if small && n > soft16 {
			n = soft16
		}
		rec.V = transfer.FileDone{StreamID: c18U64(r), OK: r.Bool(), ErrMsg: c18Text(r, n)}
	case kResume:
		idn := c18Len(r, 65535, c18MinInt(soft16, 4096))
		bn := c18Len(r, 1<<20, softBitmap)
		if small {
			idn, bn = c18MinInt(idn, soft16), c18MinInt(bn, softBitmap)
		}
		v := transfer.FileResumeInfo{FileID: c18Text(r, idn), StreamID: c18U64(r), TotalChunks: c18U32(r), LastVerifiedChunk: c18U32(r), LastVerifiedHash: c18U64(r)}
		if bn > 0 || r.Bool() {
			v.Bitmap = r.Bytes(bn)
		}
		rec.V = v
	case kResumeReq:
		n := c18Len(r, 65535, soft16)
		if small {
			n = c18MinInt(n, soft16)
		}
		rec.V = transfer.ResumeRequest{FileID: c18Text(r, n), StreamID: c18U64(r)}
	case kStreams:
		rec.V = transfer.DataStreams{Count: c18U16(r)}
	case kEnd:
		rec.V = nil
	case kHeader:
		class := c18NameClasses[r.Intn(len(c18NameClasses))]
		if small && class == "invalid-utf8" && r.Intn(4) != 0 {
			class = "plain" // known class: sampled, not dominating the sequences
		}
		n := c18Len(r, 2000, softItems)
		if small {
			n = c18MinInt(n, softItems)
		}
		rec.Class = "rand/" + class
		rec.V = c18Manifest(r, class, n, r.Bool())
	}
	return rec
}

// c18Boundaries is the fixed list of field-boundary values (independent of the seed
// except for the filler bytes).
func c18Boundaries(r *vk.Rng) []c18Rec {
	var out []c18Rec
	add := func(kind, class string, v any) { out = append(out, c18Rec{Kind: kind, Class: class, V: v}) }
	maxFB := transfer.FileBegin{RelPath: "m", FileSize: math.MaxUint64, ChunkSize: math.MaxUint32, StreamID: math.MaxUint64, HashAlg: 255,
		StripeIndex: math.MaxUint16, StripeCount: math.MaxUint16, StripeStart: math.MaxUint32, StripeChunks: math.MaxUint32}

	// FileBegin
	for _, n := range []int{1, 2, 255, 256, 1023, 1024} {
		for _, class := range c18NameClasses {
			fb := transfer.FileBegin{RelPath: c18Path(r, class, n), FileSize: c18U64(r), ChunkSize: c18U32(r), StreamID: c18U64(r)}
			add(kFileBegin, fmt.Sprintf("path=%d/%s", n, class), fb)
		}
	}
	add(kFileBegin, "numeric=zero", transfer.FileBegin{RelPath: "z"})
	add(kFileBegin, "numeric=max", maxFB)
	for i := 0; i < 8; i++ { // one field at its maximum, the others zero
		fb := transfer.FileBegin{RelPath: "o"}
		switch i {
		case 0:
			fb.FileSize = math.MaxUint64
		case 1:
			fb.ChunkSize = math.MaxUint32
		case 2:
			fb.StreamID = math.MaxUint64
		case 3:
			fb.HashAlg = 255
		case 4:
			fb.StripeIndex = math.MaxUint16
		case 5:
			fb.StripeCount = math.MaxUint16
		case 6:
			fb.StripeStart = math.MaxUint32
		case 7:
			fb.StripeChunks = math.MaxUint32
		}
		add(kFileBegin, fmt.Sprintf("onehot-max=%d", i), fb)
	}
	maxPath := maxFB
	maxPath.RelPath = c18Path(r, "plain", 1024)
	add(kFileBegin, "path=1024+numeric=max", maxPath)

	// FileBegin paths of multi-byte characters around the limit, the length measured in bytes and in
	// characters (the wire limit is in bytes: whatever the writer accepts must come back identically)
	lim := transfer.VerifC18MaxRelPathLength
	for _, w := range c18Widths {
		for _, n := range []int{lim - 1, lim, lim + 1} {
			for _, measure := range []string{"bytes", "runes"} {
				fb := transfer.FileBegin{RelPath: c18WidePath(r, w, measure, n), FileSize: c18U64(r), ChunkSize: c18U32(r), StreamID: c18U64(r)}
				add(kFileBegin, fmt.Sprintf("path-%s=%d/w=%s", measure, n, c18WidthLabel(w)), fb)
			}
		}
		if w >= 2 { // the character counts whose byte length straddles the limit
			for _, n := range []int{lim / w, lim/w + 1} {
				fb := transfer.FileBegin{RelPath: c18WidePath(r, w, "runes", n), FileSize: c18U64(r), ChunkSize: c18U32(r), StreamID: c18U64(r)}
				add(kFileBegin, fmt.Sprintf("path-runes=%d/w=%s", n, c18WidthLabel(w)), fb)
			}
		}
		wideMax := maxFB
		wideMax.RelPath = c18WidePath(r, w, "bytes", lim)
		add(kFileBegin, fmt.Sprintf("path-bytes=%d/w=%s+numeric=max", lim, c18WidthLabel(w)), wideMax)
	}

	// Credit / FileEnd / DataStreams / End
	add(kCredit, "zero", transfer.Credit{})
	add(kCredit, "max", transfer.Credit{StreamID: math.MaxUint64, Credits: math.MaxUint32})
	add(kCredit, "id=max", transfer.Credit{StreamID: math.MaxUint64})
	add(kCredit, "credits=max", transfer.Credit{Credits: math.MaxUint32})
	add(kFileEnd, "zero", transfer.FileEnd{})
	add(kFileEnd, "max", transfer.FileEnd{StreamID: math.MaxUint64, CRC32: math.MaxUint32})
	add(kFileEnd, "id=max", transfer.FileEnd{StreamID: math.MaxUint64})
	add(kFileEnd, "crc=max", transfer.FileEnd{CRC32: math.MaxUint32})
	for _, c := range []uint16{0, 1, 255, 256, 65535} {
		add(kStreams, fmt.Sprintf("count=%d", c), transfer.DataStreams{Count: c})
	}
	add(kEnd, "end", nil)

	// CreditBatch
	add(kBatch, "entries=nil", transfer.CreditBatch{})
	add(kBatch, "entries=0", transfer.CreditBatch{Entries: []transfer.Credit{}})
	for _, n := range []int{1, 2, 255, 256, 65535, 65536, 100000} {
		b := transfer.CreditBatch{Entries: make([]transfer.Credit, n)}
		for i := range b.Entries {
			b.Entries[i] = transfer.Credit{StreamID: c18U64(r), Credits: c18U32(r)}
		}
		add(kBatch, fmt.Sprintf("entries=%d", n), b)
	}
	add(kBatch, "entries=3/max", transfer.CreditBatch{Entries: []transfer.Credit{{StreamID: math.MaxUint64, Credits: math.MaxUint32}, {}, {StreamID: math.MaxUint64, Credits: math.MaxUint32}}})

	// FileDone
	for _, n := range []int{0, 1, 2, 255, 256, 65534, 65535} {
		for _, ok := range []bool{true, false} {
			add(kFileDone, fmt.Sprintf("err=%d/ok=%v", n, ok), transfer.FileDone{StreamID: c18U64(r), OK: ok, ErrMsg: c18Text(r, n)})
		}
	}
	for _, w := range c18Widths[1:] { // 16-bit texts made of multi-byte characters, at the byte limit
		for _, n := range []int{65534, 65535} {
			wl := c18WidthLabel(w)
			add(kFileDone, fmt.Sprintf("err-bytes=%d/w=%s", n, wl), transfer.FileDone{StreamID: c18U64(r), OK: n%2 == 0, ErrMsg: c18WideText(r, w, "bytes", n, false)})
			add(kResumeReq, fmt.Sprintf("id-bytes=%d/w=%s", n, wl), transfer.ResumeRequest{FileID: c18WideText(r, w, "bytes", n, false), StreamID: c18U64(r)})
			add(kResume, fmt.Sprintf("id-bytes=%d/w=%s/bitmap=3", n, wl), transfer.FileResumeInfo{FileID: c18WideText(r, w, "bytes", n, false), StreamID: c18U64(r),
				TotalChunks: c18U32(r), Bitmap: []byte{1, 2, 3}, LastVerifiedChunk: c18U32(r), LastVerifiedHash: c18U64(r)})
		}
	}
	add(kFileDone, "err=65535/ff+id=max", transfer.FileDone{StreamID: math.MaxUint64, OK: false, ErrMsg: strings.Repeat("\xff", 65535)})
	add(kFileDone, "err=65535/nul", transfer.FileDone{OK: true, ErrMsg: strings.Repeat("\x00", 65535)})

	// ResumeRequest
	for _, n := range []int{0, 1, 16, 255, 256, 65534, 65535} {
		add(kResumeReq, fmt.Sprintf("id=%d", n), transfer.ResumeRequest{FileID: c18Text(r, n), StreamID: c18U64(r)})
	}
	add(kResumeReq, "id=65535+stream=max", transfer.ResumeRequest{FileID: strings.Repeat("\xff", 65535), StreamID: math.MaxUint64})
	add(kResumeReq, "zero", transfer.ResumeRequest{})

	// FileResumeInfo
	for _, idn := range []int{0, 1, 16, 65535} {
		for _, bn := range []int{-1, 0, 1, 2, 65535, 65536, 65537, 1 << 20, 1<<20 + 1} {
			v := transfer.FileResumeInfo{FileID: c18Text(r, idn), StreamID: c18U64(r), TotalChunks: c18U32(r), LastVerifiedChunk: c18U32(r), LastVerifiedHash: c18U64(r)}
			lbl := "nil"
			if bn >= 0 {
				v.Bitmap = r.Bytes(bn)
				lbl = fmt.Sprint(bn)
			}
			add(kResume, fmt.Sprintf("id=%d/bitmap=%s", idn, lbl), v)
		}
	}
	add(kResume, "zero", transfer.FileResumeInfo{})
	add(kResume, "numeric=max", transfer.FileResumeInfo{FileID: "f", StreamID: math.MaxUint64, TotalChunks: math.MaxUint32, LastVerifiedChunk: math.MaxUint32, LastVerifiedHash: math.MaxUint64, Bitmap: []byte{0xff}})
	add(kResume, "id=65535/bitmap=1048576/ff+numeric=max", transfer.FileResumeInfo{FileID: strings.Repeat("\xff", 65535), StreamID: math.MaxUint64, TotalChunks: math.MaxUint32,
		LastVerifiedChunk: math.MaxUint32, LastVerifiedHash: math.MaxUint64, Bitmap: bytes.Repeat([]byte{0xff}, 1<<20)})

	// header
	for _, n := range []int{-1, 0, 1, 2, 1999, 2000} {
		for _, class := range c18NameClasses {
			lbl := "nil"
			items := 0
			if n >= 0 {
				lbl, items = fmt.Sprint(n), n
			}
			add(kHeader, fmt.Sprintf("items=%s/%s", lbl, class), c18Manifest(r, class, items, n < 0))
		}
	}
	for _, w := range c18Widths[1:] { // manifest names of multi-byte characters at the path limit (the header itself has no path limit)
		for _, measure := range []string{"bytes", "runes"} {
			m := manifest.Manifest{Root: c18WideText(r, w, measure, 255, false), TotalBytes: c18I64(r), FileCount: 4, FolderCount: 1}
			for _, n := range []int{lim - 1, lim, lim + 1, 1} {
				m.Items = append(m.Items, manifest.FileItem{RelPath: c18WidePath(r, w, measure, n), Size: c18I64(r), ModTime: c18I64(r), ID: hex.EncodeToString(r.Bytes(8))})
			}
			add(kHeader, fmt.Sprintf("items=4/path-%s=%d/w=%s", measure, lim, c18WidthLabel(w)), m)
		}
	}
	add(kHeader, "zero", manifest.Manifest{})
	add(kHeader, "numeric=max", manifest.Manifest{Root: "r", Items: []manifest.FileItem{{RelPath: "f", Size: math.MaxInt64, ModTime: math.MaxInt64, ID: "0123456789abcdef"}},
		TotalBytes: math.MaxInt64, FileCount: math.MaxInt, FolderCount: math.MaxInt})
	add(kHeader, "numeric=min", manifest.Manifest{Root: "r", Items: []manifest.FileItem{{RelPath: "f", Size: math.MinInt64, ModTime: math.MinInt64, IsDir: true}},
		TotalBytes: math.MinInt64, FileCount: math.MinInt, FolderCount: math.MinInt})
	return out
}

// ---------------------------------------------------------------- the check
//
// A decoder that mis-reads a length field allocates up to 4 GiB per record and
// can take the process down ("fatal error: out of memory"). All decoding
// therefore happens in shard child processes (role "c18shard") that run their
// share of the case list sequentially under an address-space limit and log
// every case before it is executed; the parent attributes a crash to the
// logged case, re-runs the shard without it and merges the shard reports.

type c18KindStat struct {
	Values     int `json:"values_round_tripped"`
	Bytes      int `json:"encoded_bytes_total"`
	MaxEncoded int `json:"max_encoded_len"`
	InSeq      int `json:"records_inside_sequences"`
}

type c18Stats struct {
	PerKind     map[string]*c18KindStat `json:"per_kind"`
	Boundaries  map[string]int          `json:"boundaries"`
	NameClasses map[string]int          `json:"name_classes"`
	ReadModes   map[string]int          `json:"read_modes"`
	Rejected    map[string]int          `json:"rejected"`
	// RejectedClean: refused by the writer with nothing written to the stream.
	RejectedClean map[string]int `json:"rejected_clean"`
	// PathLimit: FileBegin paths by (widest character, byte length vs limit, character count vs limit) -> outcome -> count
	PathLimit map[string]map[string]int `json:"path_limit"`
	UTF8        map[string]int          `json:"utf8"`
	SeqLens     map[int]int             `json:"seq_lens"`
	SeqRecords  int                     `json:"seq_records"`
	SeqHeaders  int                     `json:"seq_headers"`
	SeqOK       int                     `json:"seq_ok"`
	MaxJSON     int                     `json:"max_json"`
	Aborted     bool                    `json:"aborted"`
	Probe       map[string]any          `json:"probe,omitempty"`
	// histories of near-duplicate values (c18hist.go): "kind:variant" -> histories in which every step round-tripped / did not
	Hist      map[string]int `json:"histories_ok"`
	HistBad   map[string]int `json:"histories_bad"`
	HistSteps int            `json:"history_steps"`
}

func newC18Stats() *c18Stats {
	return &c18Stats{PerKind: map[string]*c18KindStat{}, Boundaries: map[string]int{}, NameClasses: map[string]int{}, ReadModes: map[string]int{},
		Rejected: map[string]int{}, RejectedClean: map[string]int{}, PathLimit: map[string]map[string]int{}, UTF8: map[string]int{}, SeqLens: map[int]int{},
		Hist: map[string]int{}, HistBad: map[string]int{}}
}

// classifyPath files a FileBegin path under (widest character in bytes; byte
// length below/at/above the limit; character count below/at/above the limit).
func (st *c18Stats) classifyPath(p string, outcome string) {
	lim := transfer.VerifC18MaxRelPathLength
	cmp := func(n int) string {
		switch {
		case n > lim:
			return ">limit"
		case n == lim:
			return "=limit"
		case n >= lim-3:
			return "just-below-limit"
		}
		return "<limit-3"
	}
	widest := 1
	if utf8.ValidString(p) {
		for _, c := range p {
			if l := utf8.RuneLen(c); l > widest {
				widest = l
			}
		}
	} else {
		widest = 0
	}
	k := fmt.Sprintf("widest_char=%dB bytes:%s chars:%s", widest, cmp(len(p)), cmp(utf8.RuneCountInString(p)))
	if st.PathLimit[k] == nil {
		st.PathLimit[k] = map[string]int{}
	}
	st.PathLimit[k][outcome]++
}

func (st *c18Stats) kind(k string) *c18KindStat {
	ks := st.PerKind[k]
	if ks == nil {
		ks = &c18KindStat{}
		st.PerKind[k] = ks
	}
	return ks
}

func addMap[K comparable](dst, src map[K]int) {
	for k, v := range src {
		dst[k] += v
	}
}

func (st *c18Stats) merge(o *c18Stats) {
	for k, v := range o.PerKind {
		ks := st.kind(k)
		ks.Values += v.Values
		ks.Bytes += v.Bytes
		ks.InSeq += v.InSeq
		if v.MaxEncoded > ks.MaxEncoded {
			ks.MaxEncoded = v.MaxEncoded
		}
	}
	addMap(st.Boundaries, o.Boundaries)
	addMap(st.NameClasses, o.NameClasses)
	addMap(st.ReadModes, o.ReadModes)
	addMap(st.Rejected, o.Rejected)
	addMap(st.RejectedClean, o.RejectedClean)
	for k, v := range o.PathLimit {
		if st.PathLimit[k] == nil {
			st.PathLimit[k] = map[string]int{}
		}
		addMap(st.PathLimit[k], v)
	}
	addMap(st.UTF8, o.UTF8)
	addMap(st.SeqLens, o.SeqLens)
	addMap(st.Hist, o.Hist)
	addMap(st.HistBad, o.HistBad)
	st.HistSteps += o.HistSteps
	st.SeqRecords += o.SeqRecords
	st.SeqHeaders += o.SeqHeaders
	st.SeqOK += o.SeqOK
	if o.MaxJSON > st.MaxJSON {
		st.MaxJSON = o.MaxJSON
	}
	st.Aborted = st.Aborted || o.Aborted
	if o.Probe != nil {
		st.Probe = o.Probe
	}
}

func c18Key64(kind string, b []byte) string {
	h := fnv.New64a()
	h.Write([]byte(kind))
	h.Write([]byte{0})
	h.Write(b)
	return fmt.Sprintf("%016x", h.Sum64())
}

const (
	c18Shards       = 16
	c18Batch        = 500
	c18KnownKey     = "header:invalid-utf8-name"
	c18AddrLimit    = 3 << 30 // address-space limit of a shard process
	c18MaxCrashes   = 3       // crashes tolerated per shard before it is abandoned
	c18ShardAbort   = 40      // unexpected violations after which a shard stops
	c18ShardTimeout = 40 * time.Minute
)

func c18Sizes(tier string) (nValues, nSeq int) {
	if tier == "thorough" {
		return 1500000, 60000
	}
	return 40000, 2000
}

// c18ShardMain is the child role: verifharness c18shard -tier T -seed N -shard i -out F -log F [-skip a,b]
func c18ShardMain(args []string) int {
	fs := flag.NewFlagSet("c18shard", flag.ExitOnError)
	tier := fs.String("tier", "quick", "")
	seed := fs.Uint64("seed", 1, "")
	shard := fs.Int("shard", 0, "")
	out := fs.String("out", "", "")
	logp := fs.String("log", "", "")
	skipS := fs.String("skip", "", "ordinals of cases not to execute (they crashed the process before)")
	_ = fs.Parse(args)
	skip := map[int]bool{}
	for _, s := range strings.Split(*skipS, ",") {
		if n, err := strconv.Atoi(s); err == nil {
			skip[n] = true
		}
	}
	lim := syscall.Rlimit{Cur: c18AddrLimit, Max: c18AddrLimit}
	if err := syscall.Setrlimit(syscall.RLIMIT_AS, &lim); err != nil {
		fmt.Fprintln(os.Stderr, "c18shard: cannot set RLIMIT_AS:", err)
	}
	debug.SetGCPercent(50)
	lf, err := os.OpenFile(*logp, os.O_CREATE|os.O_WRONLY|os.O_TRUNC, 0644)
	if err != nil {
		fmt.Fprintln(os.Stderr, "c18shard:", err)
		return 3
	}
	defer lf.Close()
	R := vk.NewReport("c18", fmt.Sprintf("shard%d", *shard), *tier, *seed)
	st := c18RunShard(R, *tier, *seed, *shard, lf, skip)
	R.SetExtra("stats", st)
	if err := R.Write(*out); err != nil {
		fmt.Fprintln(os.Stderr, "c18shard:", err)
		return 3
	}
	return 0
}

// c18RunShard evaluates, sequentially, every case whose index is congruent to shard.
func c18RunShard(R *vk.Report, tier string, seed uint64, shard int, caseLog *os.File, skip map[int]bool) *c18Stats {
	nValues, nSeq := c18Sizes(tier)
	base := seed ^ vk.HashStr("c18"+tier)
	st := newC18Stats()
	unknownViol, sampled, ordinal := 0, 0, 0
	abort := func() bool { return unknownViol > c18ShardAbort }

	// begin logs the case and says whether it is to be executed.
	begin := func(list string, index int, kind, class string) bool {
		ordinal++
		fmt.Fprintf(caseLog, "%d\t%s\t%d\t%s\t%s\n", ordinal, list, index, kind, class)
		return !skip[ordinal]
	}
	violate := func(key, what string, rec c18Rec, extra map[string]any) {
		if key != c18KnownKey {
			unknownViol++
		}
		cs := c18Describe(rec)
		for k, v := range extra {
			cs[k] = v
		}
		R.Violate(key, what, cs, nil)
	}

	checkValue := func(rec c18Rec, dribble *vk.Rng, list string, index int) {
		origin := map[string]any{"list": list, "index": index, "shard": shard}
		if !begin(list, index, rec.Kind, rec.Class) {
			return
		}
		R.Eval()
		s := &c18Stream{}
		if err := c18Encode(s, rec); err != nil {
			// whatever the encoder refuses must leave nothing on the wire (the peer would
			// otherwise read a torn record and everything behind it out of frame)
			lbl := rec.Kind + ":" + rec.Class
			st.Rejected[lbl]++
			R.Count("writer_rejected")
			if len(s.buf) > 0 {
				violate(lbl, fmt.Sprintf("the encoder refused this %s (%v) after it had already written %d bytes of the record to the stream", rec.Kind, err, len(s.buf)), rec,
					map[string]any{"origin": origin, "bytes_on_the_wire": len(s.buf), "encoded_prefix": hex.EncodeToString(s.buf[:c18MinInt(64, len(s.buf))])})
				return
			}
			st.RejectedClean[lbl]++
			if rec.Kind == kFileBegin {
				st.classifyPath(rec.V.(transfer.FileBegin).RelPath, "refused_by_writer_nothing_written")
			}
			return
		}
		encLen := len(s.buf)
		s.dribble = dribble
		typ, got, err := c18Decode(s, rec.Kind)
		left := s.left()
		mode := "whole-reads"
		if dribble != nil {
			mode = "short-reads"
		}
		key := rec.Kind + ":" + rec.Class
		ok := true
		switch {
		case err != nil:
			ok = false
			violate(key, fmt.Sprintf("%s written by the repository's encoder (%d bytes) is rejected by its decoder: %v", rec.Kind, encLen, err), rec,
				map[string]any{"origin": origin, "encoded_len": encLen, "bytes_left": left, "read_mode": mode, "encoded_prefix": hex.EncodeToString(s.buf[:c18MinInt(64, encLen)])})
		case rec.Kind != kHeader && typ != c18TypeByte(rec.Kind):
			ok = false
			violate(key, fmt.Sprintf("%s decoded as record type 0x%02x", rec.Kind, typ), rec, map[string]any{"origin": origin, "encoded_len": encLen})
		case !c18Equal(rec.V, got):
			ok = false
			if m, isM := rec.V.(manifest.Manifest); isM && manifestInvalidNames(m) && c18Equal(manifestCoerced(m), got) {
				st.UTF8["headers_with_invalid_utf8_names_changed_by_round_trip"]++
				gm := got.(manifest.Manifest)
				ex := map[string]any{"origin": origin, "encoded_len": encLen, "decoded_root": c18ShortBytes([]byte(gm.Root))}
				for i := range m.Items {
					if m.Items[i].RelPath != gm.Items[i].RelPath {
						ex["first_changed_item"] = i
						ex["sent_rel_path"] = c18ShortBytes([]byte(m.Items[i].RelPath))
						ex["decoded_rel_path"] = c18ShortBytes([]byte(gm.Items[i].RelPath))
						break
					}
				}
				violate(c18KnownKey, "manifest header: a root / rel_path that is not valid UTF-8 is decoded as a different name "+
					"(json.Marshal replaces every offending byte by U+FFFD); all other fields equal, framing intact", rec, ex)
			} else {
				violate(key, fmt.Sprintf("decode(encode(x)) != x for %s", rec.Kind), rec,
					map[string]any{"origin": origin, "encoded_len": encLen, "decoded": c18Describe(c18Rec{Kind: rec.Kind, Class: "decoded", V: got}), "bytes_left": left, "read_mode": mode})
			}
		}
		if left != 0 && err == nil {
			ok = false
			violate(key, fmt.Sprintf("%s: decoder consumed %d of the %d bytes the encoder wrote (%d left in the stream)", rec.Kind, encLen-left, encLen, left), rec,
				map[string]any{"origin": origin, "encoded_len": encLen, "bytes_left": left, "read_mode": mode})
		}
		R.Distinct(c18Key64(rec.Kind, s.buf))
		ks := st.kind(rec.Kind)
		if ok {
			ks.Values++
		}
		ks.Bytes += encLen
		if encLen > ks.MaxEncoded {
			ks.MaxEncoded = encLen
		}
		st.ReadModes[mode]++
		if rec.Kind == kHeader || rec.Kind == kFileBegin {
			if i := strings.LastIndex(rec.Class, "/"); i >= 0 {
				st.NameClasses[rec.Kind+"/"+rec.Class[i+1:]]++
			}
		}
		if m, isM := rec.V.(manifest.Manifest); isM {
			if encLen-8 > st.MaxJSON {
				st.MaxJSON = encLen - 8
			}
			if manifestInvalidNames(m) {
				st.UTF8["headers_with_invalid_utf8_names"]++
			}
		}
		if !strings.HasPrefix(rec.Class, "rand") && ok {
			st.Boundaries[rec.Kind+":"+rec.Class]++
		}
		if fb, isFB := rec.V.(transfer.FileBegin); isFB {
			if ok {
				st.classifyPath(fb.RelPath, "round_tripped")
			} else {
				st.classifyPath(fb.RelPath, "accepted_by_writer_but_violation")
			}
		}
		if ok && sampled < 2 {
			sampled++
			R.Sample(map[string]any{"value": c18Describe(rec), "encoded_len": encLen, "read_mode": mode, "result": "equal, reader at EOF"})
		}
	}

	// ---- 1. field boundaries (both read modes) ----
	bnd := c18Boundaries(vk.NewRng(base ^ 0xb0))
	for i := range bnd {
		if i%c18Shards != shard || abort() {
			continue
		}
		checkValue(bnd[i], nil, "boundaries", i)
		checkValue(bnd[i], vk.NewRng(base^uint64(i)^0xd1), "boundaries", i)
	}

	// ---- 2. values the writer is expected to refuse: a refusal must leave nothing on the wire ----
	if shard == 0 {
		for i, rec := range []c18Rec{
			{kFileBegin, "path=empty", transfer.FileBegin{RelPath: ""}},
			{kFileBegin, "path=1025", transfer.FileBegin{RelPath: strings.Repeat("a", 1025)}},
			{kFileBegin, "path=dotdot-segment", transfer.FileBegin{RelPath: "a/../b"}},
			{kFileBegin, "path=absolute", transfer.FileBegin{RelPath: "/abs"}},
		} {
			checkValue(rec, nil, "writer-limits", i)
		}
	}

	// ---- 3. seeded random values ----
	nb := (nValues + c18Batch - 1) / c18Batch
	for b := 0; b < nb; b++ {
		if b%c18Shards != shard {
			continue
		}
		r := vk.NewRng(base ^ vk.Mix(uint64(b)+0x1000))
		for j := 0; j < c18Batch && b*c18Batch+j < nValues; j++ {
			if abort() {
				break
			}
			kind := c18Kinds[r.Intn(len(c18Kinds))]
			rec := c18Random(r, kind, false)
			var dr *vk.Rng
			if r.Bool() {
				dr = r.Fork()
			}
			checkValue(rec, dr, "random", b*c18Batch+j)
		}
	}

	// ---- 4. random sequences ----
	for i := 0; i < nSeq; i++ {
		if i%c18Shards != shard || abort() {
			continue
		}
		r := vk.NewRng(base ^ vk.Mix(uint64(i)+0x5e0000))
		n := 1 + r.Intn(50)
		var recs []c18Rec
		withHeader := r.Bool()
		if withHeader {
			recs = append(recs, c18Random(r, kHeader, true))
			n++
		}
		for len(recs) < n {
			kind := c18Kinds[r.Intn(len(c18Kinds)-1)] // everything but the header
			recs = append(recs, c18Random(r, kind, r.Intn(12) != 0))
		}
		dribble := r.Bool()
		dr := r.Fork()
		if !begin("sequences", i, "seq", fmt.Sprintf("records=%d", len(recs))) {
			continue
		}
		R.Eval()
		s := &c18Stream{}
		var ends []int
		kept := recs[:0]
		for _, rec := range recs {
			before := len(s.buf)
			if err := c18Encode(s, rec); err != nil {
				R.Count("writer_rejected_in_sequence")
				if len(s.buf) != before { // a refused record must leave nothing on the wire
					violate("seq:"+rec.Kind, fmt.Sprintf("the encoder refused record %d (%s) of a sequence (%v) after writing %d bytes of it; the following records are out of frame for the peer",
						len(kept), rec.Kind, err, len(s.buf)-before), rec, map[string]any{"origin": map[string]any{"list": "sequences", "index": i, "shard": shard}})
					s.buf = s.buf[:before] // keep checking the rest of the sequence
				}
				continue
			}
			kept = append(kept, rec)
			ends = append(ends, len(s.buf))
		}
		recs = kept
		if len(recs) == 0 {
			continue
		}
		if dribble {
			s.dribble = dr
		}
		origin := map[string]any{"list": "sequences", "index": i, "shard": shard, "records": len(recs), "total_bytes": len(s.buf)}
		bad, nameChanged := false, false
		for j, rec := range recs {
			typ, got, err := c18Decode(s, rec.Kind)
			key := "seq:" + rec.Kind
			ex := map[string]any{"origin": origin, "position": j, "expected_offset_after": ends[j], "reader_offset_after": s.rd}
			switch {
			case err != nil:
				bad = true
				violate(key, fmt.Sprintf("record %d (%s) of a %d-record sequence is rejected by the decoder: %v", j, rec.Kind, len(recs), err), rec, ex)
			case rec.Kind != kHeader && typ != c18TypeByte(rec.Kind):
				bad = true
				violate(key, fmt.Sprintf("record %d (%s) of a sequence decoded as type 0x%02x", j, rec.Kind, typ), rec, ex)
			case !c18Equal(rec.V, got):
				if m, isM := rec.V.(manifest.Manifest); isM && manifestInvalidNames(m) && c18Equal(manifestCoerced(m), got) {
					st.UTF8["headers_in_sequences_changed_by_round_trip"]++
					nameChanged = true
					violate(c18KnownKey, "manifest header at the start of a record sequence: names that are not valid UTF-8 are decoded as different names", rec, ex)
					// framing is intact; keep decoding the rest of the sequence
				} else {
					bad = true
					violate(key, fmt.Sprintf("record %d (%s) of a sequence decodes to a different value", j, rec.Kind), rec, ex)
				}
			case s.rd != ends[j]:
				bad = true
				violate(key, fmt.Sprintf("record %d (%s) of a sequence: reader at offset %d, record ends at %d", j, rec.Kind, s.rd, ends[j]), rec, ex)
			}
			if bad {
				break
			}
		}
		if !bad && s.left() != 0 {
			bad = true
			violate("seq:tail", fmt.Sprintf("%d bytes left after decoding all %d records", s.left(), len(recs)), recs[len(recs)-1], map[string]any{"origin": origin})
		}
		if !bad {
			if _, _, err := transfer.VerifC18ReadControlMessage(s); err == nil {
				bad = true
				violate("seq:tail", "decoder produced a record from an exhausted stream", recs[len(recs)-1], map[string]any{"origin": origin})
			}
		}
		R.Distinct(c18Key64("seq", s.buf))
		st.SeqLens[len(recs)]++
		st.SeqRecords += len(recs)
		if withHeader {
			st.SeqHeaders++
		}
		if !bad && !nameChanged {
			st.SeqOK++
		}
		for _, rec := range recs {
			st.kind(rec.Kind).InSeq++
		}
	}

	// ---- 5. histories of near-duplicate values of one record type (c18hist.go) ----
	c18RunHistories(R, st, tier, base, shard, begin, violate, abort)

	// ---- 6. beyond the 16-bit limits (outside the property's quantifier; diagnostic only) ----
	if shard == 0 {
		st.Probe = map[string]any{}
		for i, p := range []c18Rec{
			{kFileDone, "err=65536", transfer.FileDone{StreamID: 1, ErrMsg: strings.Repeat("\x00", 65536)}},
			{kFileDone, "err=65537", transfer.FileDone{StreamID: 1, ErrMsg: strings.Repeat("\x00", 65537)}},
			{kResumeReq, "id=65536", transfer.ResumeRequest{StreamID: 1, FileID: strings.Repeat("\x00", 65536)}},
			{kResume, "id=65536", transfer.FileResumeInfo{StreamID: 1, FileID: strings.Repeat("\x00", 65536)}},
			{kFileDone, "err-runes=65535/w=2", transfer.FileDone{StreamID: 1, ErrMsg: strings.Repeat("é", 65535)}},
			{kResumeReq, "id-runes=65535/w=3", transfer.ResumeRequest{StreamID: 1, FileID: strings.Repeat("日", 65535)}},
		} {
			if !begin("beyond-limit-probe", i, p.Kind, p.Class) {
				continue
			}
			s := &c18Stream{}
			err := c18Encode(s, p)
			res := map[string]any{"writer_error": fmt.Sprint(err), "bytes_written": len(s.buf)}
			if err == nil {
				_, got, derr := c18Decode(s, p.Kind)
				res["decoder_error"] = fmt.Sprint(derr)
				res["decoded_equal"] = derr == nil && c18Equal(p.V, got)
				res["bytes_left_unread"] = s.left()
			}
			st.Probe[p.Kind+":"+p.Class] = res
		}
	}
	st.Aborted = abort()
	return st
}

type c18ShardReport struct {
	Evaluations  int            `json:"evaluations"`
	DistinctKeys []string       `json:"distinct_keys"`
	Samples      []any          `json:"samples"`
	Violations   []vk.Violation `json:"violations"`
	Extra        struct {
		Counters map[string]int `json:"counters"`
		Stats    *c18Stats      `json:"stats"`
	} `json:"extra"`
}

func c18LastLine(path string) string {
	b, _ := os.ReadFile(path)
	lines := strings.Split(strings.TrimRight(string(b), "\n"), "\n")
	return lines[len(lines)-1]
}

func runC18(e *Env) {
	R := e.R
	R.Rule = "one case = one value of a record type (or the header) encoded by the repository's writer into an in-memory stream and decoded by " +
		"readControlMessage/readControlHeader, or one sequence of 1-50 records; distinct by (record type, encoded bytes) resp. by the bytes of the whole sequence; " +
		"a value counts only if the writer accepted it; a value the writer refuses (empty, absolute, over-long paths, measured in bytes) must leave no byte in the stream and is counted separately"
	nValues, nSeq := c18Sizes(e.Tier)
	base := e.Seed ^ vk.HashStr("c18"+e.Tier)
	st := newC18Stats()
	var mu sync.Mutex
	crashes := map[string]int{}
	abandoned := 0

	vk.ParallelDo(c18Shards, c18Shards, func(shard int) {
		var skip []string
		for attempt := 0; ; attempt++ {
			out := filepath.Join(e.Work, fmt.Sprintf("shard%d-%d.json", shard, attempt))
			logp := filepath.Join(e.Work, fmt.Sprintf("shard%d-%d.cases", shard, attempt))
			errp := filepath.Join(e.Work, fmt.Sprintf("shard%d-%d.stderr", shard, attempt))
			ef, _ := os.Create(errp)
			ctx, cancel := context.WithTimeout(context.Background(), c18ShardTimeout)
			cmd := exec.CommandContext(ctx, os.Args[0], "c18shard", "-tier", e.Tier, "-seed", fmt.Sprint(e.Seed), "-shard", fmt.Sprint(shard),
				"-out", out, "-log", logp, "-skip", strings.Join(skip, ","))
			cmd.Stdout, cmd.Stderr = ef, ef
			err := cmd.Run()
			timedOut := ctx.Err() != nil
			cancel()
			ef.Close()
			var rep c18ShardReport
			if data, rerr := os.ReadFile(out); err == nil && rerr == nil && json.Unmarshal(data, &rep) == nil && rep.Extra.Stats != nil {
				mu.Lock()
				R.EvalN(rep.Evaluations)
				for _, k := range rep.DistinctKeys {
					R.Distinct(k)
				}
				for _, s := range rep.Samples {
					R.Sample(s)
				}
				for _, v := range rep.Violations {
					R.Violate(v.Key, v.What, v.Case, v.Detail)
				}
				for k, n := range rep.Extra.Counters {
					if strings.HasPrefix(k, "violation:") {
						R.CountN("all_"+k, n)
					} else {
						R.CountN(k, n)
					}
				}
				st.merge(rep.Extra.Stats)
				mu.Unlock()
				return
			}
			// the shard died: attribute it to the case it had logged last
			errTail, _ := os.ReadFile(errp)
			first := strings.SplitN(strings.TrimSpace(string(errTail)), "\n", 2)[0]
			last := c18LastLine(logp)
			f := strings.Split(last, "\t")
			goCrash := strings.Contains(string(errTail), "fatal error:") || strings.Contains(string(errTail), "panic:")
			mu.Lock()
			switch {
			case timedOut:
				R.Inconcl(fmt.Sprintf("shard %d exceeded %s", shard, c18ShardTimeout))
			case !goCrash || len(f) < 5:
				R.Inconcl(fmt.Sprintf("shard %d ended abnormally (%v) without a Go crash report; last case %q; stderr %q", shard, err, last, first))
			default:
				crashes[f[3]+":"+f[4]]++
				key := f[3] + ":" + f[4]
				if f[3] == "seq" {
					key = "seq:crash"
				}
				R.Violate(key, fmt.Sprintf("the process died while decoding bytes the repository's encoder had written for this case (address space limited to %d MiB): %s", c18AddrLimit>>20, first),
					map[string]any{"list": f[1], "index": f[2], "kind": f[3], "class": f[4], "shard": shard, "ordinal_in_shard": f[0]},
					map[string]any{"stderr_head": string(errTail[:c18MinInt(len(errTail), 1500)])})
			}
			mu.Unlock()
			if timedOut || !goCrash || len(f) < 5 || attempt+1 > c18MaxCrashes {
				mu.Lock()
				abandoned++
				mu.Unlock()
				return
			}
			skip = append(skip, f[0])
		}
	})

	// ---- evidence ----
	planned := map[string]bool{}
	for _, b := range c18Boundaries(vk.NewRng(base ^ 0xb0)) {
		planned[b.Kind+":"+b.Class] = true
	}
	R.SetExtra("per_record_type", st.PerKind)
	var hit, missed []string
	var refused []string
	for k := range planned {
		switch {
		case st.Boundaries[k] >= 2:
			hit = append(hit, k)
		case st.RejectedClean[k] >= 2:
			refused = append(refused, k)
		default:
			missed = append(missed, k)
		}
	}
	sort.Strings(hit)
	sort.Strings(missed)
	sort.Strings(refused)
	R.SetExtra("boundaries_refused_by_the_writer_with_nothing_on_the_wire", refused)
	R.SetExtra("filebegin_paths_by_character_width_and_limit", st.PathLimit)
	R.SetExtra("boundaries_round_tripped_in_both_read_modes", hit)
	R.SetExtra("boundaries_not_round_tripped", missed)
	R.SetExtra("name_classes_values", st.NameClasses)
	R.SetExtra("read_modes", st.ReadModes)
	R.SetExtra("writer_rejected", st.Rejected)
	R.SetExtra("invalid_utf8", st.UTF8)
	R.SetExtra("largest_manifest_json_bytes", st.MaxJSON)
	R.SetExtra("beyond_16bit_limit_probe_not_part_of_verdict", st.Probe)
	minL, maxL := 0, 0
	for l := range st.SeqLens {
		if minL == 0 || l < minL {
			minL = l
		}
		if l > maxL {
			maxL = l
		}
	}
	R.SetExtra("sequences", map[string]any{"checked": len2(st.SeqLens), "decoded_to_same_sequence": st.SeqOK, "records_total": st.SeqRecords,
		"with_header_first": st.SeqHeaders, "min_records": minL, "max_records": maxL, "distinct_lengths": len(st.SeqLens)})
	histOK, histBad := 0, 0
	for _, n := range st.Hist {
		histOK += n
	}
	for _, n := range st.HistBad {
		histBad += n
	}
	R.SetExtra("histories_of_near_duplicates", map[string]any{"variants": c18HistVariants, "every_step_round_tripped": histOK, "with_a_failing_step": histBad,
		"steps_total": st.HistSteps, "by_record_type_and_variant": st.Hist, "failing_by_record_type_and_variant": st.HistBad})
	R.SetExtra("execution", map[string]any{"shard_processes": c18Shards, "address_space_limit_mib": c18AddrLimit >> 20, "decoder_crashes_by_case_class": crashes,
		"shards_abandoned": abandoned, "a_shard_stopped_early_after_many_violations": st.Aborted})
	R.SetExtra("not_covered", "JSON headers near the 32-bit length limit (largest header see largest_manifest_json_bytes); bitmaps above 1 MiB + 1; pkg/protocol.Envelope (signaling JSON, not one of the records the property quantifies over)")

	okKinds, total := 0, 0
	for _, k := range c18Kinds {
		if ks := st.PerKind[k]; ks != nil && ks.Values > 0 {
			okKinds++
		}
	}
	for _, ks := range st.PerKind {
		total += ks.Values
	}
	broken := st.Aborted || abandoned > 0 || len(crashes) > 0 // then violations explain the shortfall
	R.Require(okKinds == len(c18Kinds), fmt.Sprintf("only %d of %d record types had a value that round-tripped", okKinds, len(c18Kinds)))
	R.Require(broken || total >= nValues*9/10, fmt.Sprintf("only %d values round-tripped (planned %d random + boundaries)", total, nValues))
	R.Require(broken || len2(st.SeqLens) >= nSeq*9/10, fmt.Sprintf("only %d sequences checked (planned %d)", len2(st.SeqLens), nSeq))
	// every (record type, history variant) pair must have been run to the end at least once
	var histMissing []string
	for _, k := range c18Kinds {
		for _, v := range c18HistVariants {
			if st.Hist[k+":"+v]+st.HistBad[k+":"+v] == 0 {
				histMissing = append(histMissing, k+":"+v)
			}
		}
	}
	R.Require(broken || len(histMissing) == 0, fmt.Sprintf("no history of near-duplicate values was evaluated for %v", histMissing))
	R.Require(broken || histOK+histBad >= c18HistReps(e.Tier)*len(c18Kinds)*len(c18HistVariants)*9/10,
		fmt.Sprintf("only %d histories evaluated (planned %d)", histOK+histBad, c18HistReps(e.Tier)*len(c18Kinds)*len(c18HistVariants)))
	unexpectedMiss := 0
	for _, k := range missed {
		if !strings.HasSuffix(k, "/invalid-utf8") { // expected while the known finding exists
			unexpectedMiss++
		}
	}
	R.Require(broken || unexpectedMiss == 0 || len(R.Violations) > 0, fmt.Sprintf("%d planned boundary values were not round-tripped and no violation explains it", unexpectedMiss))
	// the byte/character boundary must have been observed from both sides for every character width
	for _, w := range []int{1, 2, 3, 4} {
		atLimit := fmt.Sprintf("widest_char=%dB bytes:=limit ", w)
		over := fmt.Sprintf("widest_char=%dB bytes:>limit ", w)
		nAt, nOver, nOverCharsWithin := 0, 0, 0
		for k, m := range st.PathLimit {
			n := 0
			for _, c := range m {
				n += c
			}
			if strings.HasPrefix(k, atLimit) {
				nAt += n
			}
			if strings.HasPrefix(k, over) {
				nOver += n
				if !strings.HasSuffix(k, "chars:>limit") {
					nOverCharsWithin += n
				}
			}
		}
		R.Require(broken || nAt >= 2, fmt.Sprintf("no FileBegin path of %d-byte characters with exactly the maximum byte length was evaluated", w))
		R.Require(broken || nOver >= 2, fmt.Sprintf("no FileBegin path of %d-byte characters above the byte limit was offered to the writer", w))
		if w >= 2 {
			R.Require(broken || nOverCharsWithin >= 2,
				fmt.Sprintf("no FileBegin path of %d-byte characters with more bytes than the limit but at most the limit in characters was offered to the writer", w))
		}
	}
}

func len2(m map[int]int) int {
	n := 0
	for _, v := range m {
		n += v
	}
	return n
}
