//go:build verif

package main

// C18, stage "concurrent": the codec is used by many sessions of one process
// at the same time (a sender runs one transfer per receiver concurrently, each
// with its own control stream). Every session here is a pair (own value
// sequence, own stream); G sessions encode through the repository's writers at
// overlapping times. Oracle, per session: what the peer decodes from THAT
// stream is exactly the sequence THAT session encoded, and the reader is at the
// end of the stream. A session that fails is re-run alone; if it round-trips
// alone the failing history class is "concurrent sessions", otherwise the
// value itself is at fault (same key as the sequence check of the codec stage).
//
// Stream models (all legal transfer.Stream implementations):
//   buffer        Write copies p at once into the session's buffer; free running goroutines
//   buffer-yield  Write yields the processor before it copies p (the caller's slice stays in use for a while)
//   pipe          synchronous pipe: Write blocks, holding p, until the session's reader goroutine has
//                 consumed it in small reads (what a flow-controlled QUIC stream does); the decoders
//                 run concurrently, too
//   gated         steered schedule on logical events only: session A parks inside every k-th Write
//                 (holding p); while it is parked session B encodes 1-3 complete records into its own
//                 stream; then A is released
//
// Overlap is measured on logical events (number of encodes that began while
// another session's encode was in flight, parks with a foreign encode), never
// on durations.

import (
	"bytes"
	"context"
	"encoding/json"
	"errors"
	"flag"
	"fmt"
	"io"
	"os"
	"os/exec"
	"path/filepath"
	"runtime"
	"runtime/debug"
	"sort"
	"strings"
	"sync"
	"sync/atomic"
	"syscall"
	"time"

	"github.com/sheerbytes/sheerbytes/internal/transfer"
	vk "github.com/sheerbytes/sheerbytes/internal/verifkit"
)

func init() {
	register("c18conc", runC18Conc)
	childCommands["c18concchild"] = c18ConcChildMain
}

var c18ConcModes = []string{"buffer", "buffer-yield", "pipe", "gated"}

const (
	c18ConcWatchdog     = 4 * time.Minute
	c18ConcChildTimeout = 40 * time.Minute
	c18ConcModeAbort    = 12
)

// ---------------------------------------------------------------- streams

// c18YieldStream is a c18Stream whose Write yields before it copies p.
type c18YieldStream struct {
	c18Stream
	every int // yield in every n-th Write (0 = never)
	n     int
}

func (s *c18YieldStream) Write(p []byte) (int, error) {
	s.n++
	if s.every > 0 && s.n%s.every == 0 {
		c18ConcNoteWrite()
		runtime.Gosched()
	}
	return s.c18Stream.Write(p)
}

// c18GatedStream parks inside every k-th Write until the orchestrator releases it.
type c18GatedStream struct {
	c18Stream
	every   int
	n       int
	entered chan struct{}
	release chan struct{}
}

func (s *c18GatedStream) Write(p []byte) (int, error) {
	s.n++
	if s.n%s.every == 0 {
		s.entered <- struct{}{} // p is held from here ...
		<-s.release             // ... to here
	}
	return s.c18Stream.Write(p)
}

type c18PipeW struct{ w *io.PipeWriter }

func (s c18PipeW) Write(p []byte) (int, error) { c18ConcNoteWrite(); return s.w.Write(p) }
func (s c18PipeW) Read(p []byte) (int, error)  { return 0, errors.New("harness: write side") }
func (s c18PipeW) Close() error                { return s.w.Close() }

type c18PipeR struct {
	r       *io.PipeReader
	dribble *vk.Rng
	n       int
}

func (s *c18PipeR) Write(p []byte) (int, error) { return 0, errors.New("harness: read side") }
func (s *c18PipeR) Close() error                { return s.r.Close() }
func (s *c18PipeR) Read(p []byte) (int, error) {
	if len(p) > 1 && s.dribble != nil {
		lim := len(p)
		if lim > 64 {
			lim = 64
		}
		p = p[:1+s.dribble.Intn(lim)]
	}
	n, err := s.r.Read(p)
	s.n += n
	return n, err
}

// ---------------------------------------------------------------- overlap bookkeeping (logical events)

var (
	c18InFlight       atomic.Int64 // encodes in progress in this process
	c18Overlapped     atomic.Int64 // encodes that began while another one was in flight
	c18MaxInFlight    atomic.Int64
	c18WritesOverlap  atomic.Int64 // Writes of yielding/blocking streams entered while a foreign encode was in flight
	c18EncodesCounted atomic.Int64
)

func c18ConcNoteWrite() {
	if c18InFlight.Load() > 1 {
		c18WritesOverlap.Add(1)
	}
}

func c18ConcEncode(s transfer.Stream, r c18Rec) error {
	n := c18InFlight.Add(1)
	c18EncodesCounted.Add(1)
	if n > 1 {
		c18Overlapped.Add(1)
	}
	for {
		m := c18MaxInFlight.Load()
		if n <= m || c18MaxInFlight.CompareAndSwap(m, n) {
			break
		}
	}
	err := c18Encode(s, r)
	c18InFlight.Add(-1)
	return err
}

// ---------------------------------------------------------------- sessions

type c18Session struct {
	Recs []c18Rec // only records the writer accepts when it runs alone
	Solo []byte   // their encoding by a single goroutine (diagnostic + distinct key)
	Ends []int
}

var c18ConcHeaderClasses = []string{"plain", "unicode", "dotdash", "backslash", "comp255", "near1024", "control", "json-special"}

// c18ConcKind draws a record kind with the mix of a sender/receiver control stream.
func c18ConcKind(r *vk.Rng) string {
	switch x := r.Intn(20); {
	case x < 7:
		return kFileBegin
	case x < 10:
		return kFileEnd
	case x < 12:
		return kFileDone
	case x < 14:
		return kCredit
	case x < 15:
		return kBatch
	case x < 16:
		return kResume
	case x < 17:
		return kResumeReq
	case x < 18:
		return kStreams
	}
	return c18Kinds[r.Intn(len(c18Kinds)-1)]
}

// c18ConcMakeSession generates one session and filters it through a single-goroutine encode.
func c18ConcMakeSession(r *vk.Rng, nrec int) *c18Session {
	var recs []c18Rec
	if r.Bool() {
		class := c18ConcHeaderClasses[r.Intn(len(c18ConcHeaderClasses))]
		recs = append(recs, c18Rec{Kind: kHeader, Class: "conc/" + class, V: c18Manifest(r, class, r.Intn(12), r.Bool())})
	}
	for i := 0; i < nrec; i++ {
		kind := c18ConcKind(r)
		if kind == kEnd && i < nrec-1 && r.Intn(3) != 0 {
			kind = kFileBegin
		}
		recs = append(recs, c18Random(r, kind, true))
	}
	ss := &c18Session{}
	s := &c18Stream{}
	for _, rec := range recs {
		before := len(s.buf)
		if err := c18Encode(s, rec); err != nil {
			s.buf = s.buf[:before] // refusals are the codec stage's business
			continue
		}
		ss.Recs = append(ss.Recs, rec)
		ss.Ends = append(ss.Ends, len(s.buf))
	}
	ss.Solo = s.buf
	return ss
}

type c18ConcFail struct {
	Pos   int // index of the first bad record, len(Recs) for the tail
	Kind  string
	What  string
	Got   any
	Panic string
}

// c18ConcVerify decodes the session's records from s; offset() (may be nil) is the reader offset.
func c18ConcVerify(ss *c18Session, s transfer.Stream, offset func() int) *c18ConcFail {
	for j, rec := range ss.Recs {
		typ, got, err := c18Decode(s, rec.Kind)
		switch {
		case err != nil:
			return &c18ConcFail{Pos: j, Kind: rec.Kind, What: fmt.Sprintf("record %d (%s) of the session's stream is rejected by the decoder: %v", j, rec.Kind, err)}
		case rec.Kind != kHeader && typ != c18TypeByte(rec.Kind):
			return &c18ConcFail{Pos: j, Kind: rec.Kind, What: fmt.Sprintf("record %d (%s) decoded as record type 0x%02x", j, rec.Kind, typ)}
		case !c18Equal(rec.V, got):
			return &c18ConcFail{Pos: j, Kind: rec.Kind, What: fmt.Sprintf("record %d (%s) decodes to a different value than this session encoded", j, rec.Kind), Got: got}
		case offset != nil && offset() != ss.Ends[j]:
			return &c18ConcFail{Pos: j, Kind: rec.Kind, What: fmt.Sprintf("record %d (%s): reader at offset %d, the record this session wrote ends at %d", j, rec.Kind, offset(), ss.Ends[j])}
		}
	}
	if typ, _, err := transfer.VerifC18ReadControlMessage(s); err == nil {
		return &c18ConcFail{Pos: len(ss.Recs), Kind: "tail", What: fmt.Sprintf("after the %d records of the session the decoder produced another record (type 0x%02x)", len(ss.Recs), typ)}
	} else if !errors.Is(err, io.EOF) || errors.Is(err, io.ErrUnexpectedEOF) {
		return &c18ConcFail{Pos: len(ss.Recs), Kind: "tail", What: fmt.Sprintf("after the %d records of the session the stream is not at a clean end: %v", len(ss.Recs), err)}
	}
	return nil
}

// c18ConcSolo re-runs a session alone (encode + decode on this goroutine only).
func c18ConcSolo(ss *c18Session) (ok bool, what string) {
	defer func() {
		if p := recover(); p != nil {
			ok, what = false, fmt.Sprint("panic: ", p)
		}
	}()
	s := &c18Stream{}
	for _, rec := range ss.Recs {
		if err := c18Encode(s, rec); err != nil {
			return false, "writer: " + err.Error()
		}
	}
	if f := c18ConcVerify(ss, s, func() int { return s.rd }); f != nil {
		return false, f.What
	}
	return true, "round-trips"
}

// ---------------------------------------------------------------- the child

type c18ConcModeStat struct {
	Cases              int `json:"cases"`
	Sessions           int `json:"sessions"`
	SessionsOK         int `json:"sessions_decoded_to_what_they_encoded"`
	Records            int `json:"records"`
	Encodes            int `json:"encodes"`
	OverlappedEncodes  int `json:"encodes_begun_while_another_sessions_encode_was_in_flight"`
	WritesDuringOthers int `json:"writes_entered_while_another_sessions_encode_was_in_flight"`
	MaxInFlight        int `json:"max_encodes_in_flight"`
	Parks              int `json:"parks_inside_write_with_a_foreign_encode_meanwhile,omitempty"`
	ParksFileBegin     int `json:"parks_with_foreign_filebegin_meanwhile,omitempty"`
	MaxGoroutines      int `json:"max_concurrent_sessions"`
}

type c18ConcStats struct {
	Modes      map[string]*c18ConcModeStat `json:"modes"`
	KindsInOK  map[string]int              `json:"records_by_kind_in_sessions_that_held"`
	SoloFails  int                         `json:"failing_sessions_that_also_fail_alone"`
	Watchdog   bool                        `json:"watchdog"`
	// StoppedEarly: stream models whose remaining cases were skipped after many failing sessions
	StoppedEarly map[string]bool `json:"stopped_early"`
	GOMAXPROCS int                         `json:"gomaxprocs"`
}

type c18ConcCase struct {
	Mode  string
	G     int
	Round int
	Reps  int // sessions per goroutine
	NRec  int
	Every int // yield/gate period
}

func c18ConcCases(tier string, race bool) []c18ConcCase {
	rounds, reps, nrec := 6, 4, 40
	if tier == "thorough" {
		rounds, reps, nrec = 30, 8, 60
	}
	if race { // the race build is 5-15x slower; same classes, fewer repetitions
		reps = (reps + 1) / 2
	}
	var out []c18ConcCase
	for round := 0; round < rounds; round++ {
		for _, every := range []int{1, 2, 5} {
			out = append(out, c18ConcCase{Mode: "gated", G: 2, Round: round, Reps: 1, NRec: nrec, Every: every})
		}
		for _, g := range []int{2, 3, 8, 32} {
			out = append(out, c18ConcCase{Mode: "buffer", G: g, Round: round, Reps: reps * 2, NRec: nrec})
			out = append(out, c18ConcCase{Mode: "buffer-yield", G: g, Round: round, Reps: reps, NRec: nrec, Every: []int{1, 2, 5}[round%3]})
			out = append(out, c18ConcCase{Mode: "pipe", G: g, Round: round, Reps: reps, NRec: nrec})
		}
	}
	return out
}

type c18ConcSessResult struct {
	g, rep int
	ss     *c18Session
	fail   *c18ConcFail
	wire   []byte // what was written (buffer modes)
}

func c18ConcChildMain(args []string) int {
	fs := flag.NewFlagSet("c18concchild", flag.ExitOnError)
	tier := fs.String("tier", "quick", "")
	seed := fs.Uint64("seed", 1, "")
	out := fs.String("out", "", "")
	logp := fs.String("log", "", "")
	race := fs.Bool("race", false, "")
	_ = fs.Parse(args)
	if !*race { // the race runtime needs its shadow address space
		lim := syscall.Rlimit{Cur: c18AddrLimit, Max: c18AddrLimit}
		if err := syscall.Setrlimit(syscall.RLIMIT_AS, &lim); err != nil {
			fmt.Fprintln(os.Stderr, "c18concchild: cannot set RLIMIT_AS:", err)
		}
	}
	debug.SetTraceback("all")
	lf, err := os.OpenFile(*logp, os.O_CREATE|os.O_WRONLY|os.O_TRUNC, 0644)
	if err != nil {
		fmt.Fprintln(os.Stderr, "c18concchild:", err)
		return 3
	}
	defer lf.Close()
	R := vk.NewReport("c18", "concchild", *tier, *seed)
	st := &c18ConcStats{Modes: map[string]*c18ConcModeStat{}, KindsInOK: map[string]int{}, StoppedEarly: map[string]bool{}, GOMAXPROCS: runtime.GOMAXPROCS(0)}
	for _, m := range c18ConcModes {
		st.Modes[m] = &c18ConcModeStat{}
	}
	base := *seed ^ vk.HashStr("c18conc"+*tier)
	unknown := map[string]int{} // failing sessions per stream model; a model with many stops early, the others still run
	for ci, c := range c18ConcCases(*tier, *race) {
		if unknown[c.Mode] > c18ConcModeAbort {
			st.StoppedEarly[c.Mode] = true
			continue
		}
		fmt.Fprintf(lf, "%d\t%s\tG=%d\tround=%d\n", ci, c.Mode, c.G, c.Round)
		r := vk.NewRng(base ^ vk.Mix(uint64(ci)+0xc0c0))
		ms := st.Modes[c.Mode]
		var results []c18ConcSessResult
		c18Overlapped.Store(0)
		c18MaxInFlight.Store(0)
		c18WritesOverlap.Store(0)
		c18EncodesCounted.Store(0)
		done := make(chan struct{})
		var parks, parksFB int
		go func() {
			defer close(done)
			if c.Mode == "gated" {
				results, parks, parksFB = c18ConcRunGated(r, c)
			} else {
				results = c18ConcRunFree(r, c)
			}
		}()
		select {
		case <-done:
		case <-time.After(c18ConcWatchdog):
			// no verdict from a clock: the case is inconclusive, the process cannot go on (goroutines are stuck)
			buf := make([]byte, 1<<20)
			buf = buf[:runtime.Stack(buf, true)]
			_ = os.WriteFile(*out+".stacks", buf, 0644)
			R.Inconcl(fmt.Sprintf("concurrent case %d (%s, G=%d) did not finish within %s; goroutine dump in %s.stacks", ci, c.Mode, c.G, c18ConcWatchdog, *out))
			st.Watchdog = true
			R.SetExtra("stats", st)
			_ = R.Write(*out)
			return 0
		}
		ms.Cases++
		ms.Encodes += int(c18EncodesCounted.Load())
		ms.OverlappedEncodes += int(c18Overlapped.Load())
		ms.WritesDuringOthers += int(c18WritesOverlap.Load())
		if m := int(c18MaxInFlight.Load()); m > ms.MaxInFlight {
			ms.MaxInFlight = m
		}
		ms.Parks += parks
		ms.ParksFileBegin += parksFB
		if c.G > ms.MaxGoroutines {
			ms.MaxGoroutines = c.G
		}
		for _, res := range results {
			R.Eval()
			ms.Sessions++
			ms.Records += len(res.ss.Recs)
			R.Distinct(c.Mode + ":" + c18Key64("session", res.ss.Solo))
			if res.fail == nil {
				ms.SessionsOK++
				for _, rec := range res.ss.Recs {
					st.KindsInOK[rec.Kind]++
				}
				if ms.SessionsOK == 1 {
					R.Sample(map[string]any{"mode": c.Mode, "concurrent_sessions": c.G, "records_in_this_session": len(res.ss.Recs), "bytes": len(res.ss.Solo),
						"first_record": c18Describe(res.ss.Recs[0]), "result": "the session's stream decodes to the sequence the session encoded; reader at end"})
				}
				continue
			}
			f := res.fail
			soloOK, soloWhat := c18ConcSolo(res.ss)
			key := "concurrent/" + c.Mode + ":" + f.Kind
			what := fmt.Sprintf("%d sessions of one process encoding at overlapping times (%s stream): %s; the same session alone: %s", c.G, c.Mode, f.What, soloWhat)
			if f.Panic != "" {
				key = "concurrent/" + c.Mode + ":panic"
			}
			if !soloOK {
				st.SoloFails++
				key = "seq:" + f.Kind
				what = fmt.Sprintf("session of %d records fails even when it is encoded and decoded alone: %s", len(res.ss.Recs), soloWhat)
			}
			cs := map[string]any{"mode": c.Mode, "concurrent_sessions": c.G, "case_index": ci, "round": c.Round, "goroutine": res.g, "session_of_goroutine": res.rep,
				"records_in_session": len(res.ss.Recs), "position": f.Pos, "period": c.Every}
			if f.Pos < len(res.ss.Recs) {
				cs["sent"] = c18Describe(res.ss.Recs[f.Pos])
			}
			if f.Got != nil {
				cs["decoded"] = c18Describe(c18Rec{Kind: f.Kind, Class: "decoded", V: f.Got})
			}
			det := map[string]any{"same_session_alone": soloWhat}
			if f.Panic != "" {
				det["panic"] = f.Panic
			}
			if res.wire != nil {
				det["bytes_on_the_wire_equal_the_single_goroutine_encoding"] = bytes.Equal(res.wire, res.ss.Solo)
				n := c18MinInt(len(res.wire), len(res.ss.Solo))
				for i := 0; i <= n; i++ {
					if i == n || res.wire[i] != res.ss.Solo[i] {
						det["first_differing_offset"] = i
						break
					}
				}
			}
			unknown[c.Mode]++
			R.Violate(key, what, cs, det)
		}
	}
	R.SetExtra("stats", st)
	if err := R.Write(*out); err != nil {
		fmt.Fprintln(os.Stderr, "c18concchild:", err)
		return 3
	}
	return 0
}

func c18ConcGuard(fail **c18ConcFail) {
	if p := recover(); p != nil {
		*fail = &c18ConcFail{Pos: 0, Kind: "panic", What: fmt.Sprint("panic in the codec: ", p), Panic: fmt.Sprintf("%v\n%s", p, debug.Stack())}
	}
}

// c18ConcRunFree: G goroutines, each running its own sessions back to back, all released together.
func c18ConcRunFree(r *vk.Rng, c c18ConcCase) []c18ConcSessResult {
	sessions := make([][]*c18Session, c.G)
	rngs := make([]*vk.Rng, c.G)
	for g := range sessions {
		for k := 0; k < c.Reps; k++ {
			sessions[g] = append(sessions[g], c18ConcMakeSession(r, 1+r.Intn(c.NRec)))
		}
		rngs[g] = r.Fork()
	}
	var mu sync.Mutex
	var results []c18ConcSessResult
	start := make(chan struct{})
	var wg sync.WaitGroup
	for g := 0; g < c.G; g++ {
		wg.Add(1)
		go func(g int) {
			defer wg.Done()
			<-start
			rg := rngs[g]
			for k, ss := range sessions[g] {
				res := c18ConcSessResult{g: g, rep: k, ss: ss}
				switch c.Mode {
				case "pipe":
					res.fail = c18ConcPipeSession(ss, rg)
				default:
					res.fail, res.wire = c18ConcBufferSession(ss, rg, c.Every)
				}
				mu.Lock()
				results = append(results, res)
				mu.Unlock()
			}
		}(g)
	}
	close(start)
	wg.Wait()
	return results
}

func c18ConcBufferSession(ss *c18Session, rg *vk.Rng, yieldEvery int) (fail *c18ConcFail, wire []byte) {
	defer c18ConcGuard(&fail)
	s := &c18YieldStream{every: yieldEvery}
	for j, rec := range ss.Recs {
		if err := c18ConcEncode(s, rec); err != nil {
			return &c18ConcFail{Pos: j, Kind: rec.Kind, What: fmt.Sprintf("record %d (%s), accepted when the session runs alone, is refused by the writer: %v", j, rec.Kind, err)}, s.buf
		}
	}
	if rg.Bool() {
		s.dribble = rg.Fork()
	}
	return c18ConcVerify(ss, s, func() int { return s.rd }), s.buf
}

func c18ConcPipeSession(ss *c18Session, rg *vk.Rng) (fail *c18ConcFail) {
	pr, pw := io.Pipe()
	rd := &c18PipeR{r: pr, dribble: rg.Fork()}
	var rfail *c18ConcFail
	rdone := make(chan struct{})
	go func() {
		defer close(rdone)
		defer func() { pr.CloseWithError(errors.New("harness: the reader of this session has finished")) }()
		defer c18ConcGuard(&rfail)
		rfail = c18ConcVerify(ss, rd, func() int { return rd.n })
	}()
	var wfail *c18ConcFail
	func() {
		defer pw.Close()
		defer c18ConcGuard(&wfail)
		ws := c18PipeW{w: pw}
		for j, rec := range ss.Recs {
			if err := c18ConcEncode(ws, rec); err != nil {
				wfail = &c18ConcFail{Pos: j, Kind: rec.Kind, What: fmt.Sprintf("record %d (%s), accepted when the session runs alone, is refused by the writer: %v", j, rec.Kind, err)}
				return
			}
		}
	}()
	<-rdone
	if rfail != nil { // the reader's finding comes first: a writer error after the reader gave up is a consequence
		return rfail
	}
	return wfail
}

// c18ConcRunGated: lock-step schedule. Session A parks inside every k-th Write; during each park
// session B encodes 1-3 complete records into its own stream.
func c18ConcRunGated(r *vk.Rng, c c18ConcCase) (results []c18ConcSessResult, parks, parksFB int) {
	a := c18ConcMakeSession(r, c.NRec/2+r.Intn(c.NRec))
	// B's records are drawn on demand; B is filtered by the single-goroutine encode afterwards
	bs := &c18Session{}
	gs := &c18GatedStream{every: c.Every, entered: make(chan struct{}), release: make(chan struct{})}
	var afail *c18ConcFail
	adone := make(chan struct{})
	go func() {
		defer close(adone)
		defer c18ConcGuard(&afail)
		for j, rec := range a.Recs {
			if err := c18ConcEncode(gs, rec); err != nil {
				afail = &c18ConcFail{Pos: j, Kind: rec.Kind, What: fmt.Sprintf("record %d (%s), accepted when the session runs alone, is refused by the writer: %v", j, rec.Kind, err)}
				return
			}
		}
	}()
	bstream := &c18Stream{}
	var bfail *c18ConcFail
	func() {
		defer c18ConcGuard(&bfail)
		for {
			select {
			case <-gs.entered:
				sawFB := false
				for m := 1 + r.Intn(3); m > 0; m-- {
					rec := c18Random(r, c18ConcKind(r), true)
					before := len(bstream.buf)
					if err := c18ConcEncode(bstream, rec); err != nil {
						bstream.buf = bstream.buf[:before]
						continue
					}
					bs.Recs = append(bs.Recs, rec)
					bs.Ends = append(bs.Ends, len(bstream.buf))
					sawFB = sawFB || rec.Kind == kFileBegin
				}
				parks++
				if sawFB {
					parksFB++
				}
				gs.release <- struct{}{}
			case <-adone:
				return
			}
		}
	}()
	if bfail != nil { // B panicked while A may be parked: let A run to its end
		go func() {
			for {
				select {
				case <-gs.entered:
				case gs.release <- struct{}{}:
				case <-adone:
					return
				}
			}
		}()
	}
	<-adone
	// B's single-goroutine reference encoding
	ref := &c18Stream{}
	for _, rec := range bs.Recs {
		_ = c18Encode(ref, rec)
	}
	bs.Solo = ref.buf
	if afail == nil {
		func() {
			defer c18ConcGuard(&afail)
			if r.Bool() {
				gs.dribble = r.Fork()
			}
			afail = c18ConcVerify(a, gs, func() int { return gs.rd })
		}()
	}
	if bfail == nil {
		func() {
			defer c18ConcGuard(&bfail)
			bfail = c18ConcVerify(bs, bstream, func() int { return bstream.rd })
		}()
	}
	results = append(results, c18ConcSessResult{g: 0, ss: a, fail: afail, wire: gs.buf})
	if len(bs.Recs) > 0 {
		results = append(results, c18ConcSessResult{g: 1, ss: bs, fail: bfail, wire: bstream.buf})
	}
	return results, parks, parksFB
}

// ---------------------------------------------------------------- the stage (parent)

type c18ConcChildReport struct {
	Evaluations  int            `json:"evaluations"`
	DistinctKeys []string       `json:"distinct_keys"`
	Samples      []any          `json:"samples"`
	Violations   []vk.Violation `json:"violations"`
	Inconclusive []string       `json:"inconclusive"`
	Extra        struct {
		Counters map[string]int `json:"counters"`
		Stats    *c18ConcStats  `json:"stats"`
	} `json:"extra"`
}

func runC18Conc(e *Env) {
	R := e.R
	R.Rule = "one case = one session (own sequence of 1-100 records, optionally behind a manifest header, own stream) encoded through the repository's writers " +
		"while 1-31 other sessions of the same process do the same, decoded from its own stream by readControlHeader/readControlMessage; distinct by (stream model, bytes of the session); " +
		"stream models: buffer (free running), buffer-yield (Write yields before it copies), pipe (Write blocks until the session's concurrent reader has consumed the bytes), " +
		"gated (one session parked inside every k-th Write while the other encodes complete records)"
	out := filepath.Join(e.Work, "conc.json")
	logp := filepath.Join(e.Work, "conc.cases")
	errp := filepath.Join(e.Work, "conc.stderr")
	ef, _ := os.Create(errp)
	ctx, cancel := context.WithTimeout(context.Background(), c18ConcChildTimeout)
	args := []string{"c18concchild", "-tier", e.Tier, "-seed", fmt.Sprint(e.Seed), "-out", out, "-log", logp}
	if e.Race {
		args = append(args, "-race")
	}
	cmd := exec.CommandContext(ctx, os.Args[0], args...)
	cmd.Stdout, cmd.Stderr = ef, ef
	err := cmd.Run()
	timedOut := ctx.Err() != nil
	cancel()
	ef.Close()

	var rep c18ConcChildReport
	data, rerr := os.ReadFile(out)
	// the exit status is not looked at when a complete report exists: a race build exits with 66 after
	// the race detector has reported something, although the run went to its end
	if rerr != nil || json.Unmarshal(data, &rep) != nil || rep.Extra.Stats == nil {
		errTail, _ := os.ReadFile(errp)
		first := strings.SplitN(strings.TrimSpace(string(errTail)), "\n", 2)[0]
		last := c18LastLine(logp)
		f := strings.Split(last, "\t")
		goCrash := strings.Contains(string(errTail), "fatal error:") || strings.Contains(string(errTail), "panic:")
		switch {
		case timedOut:
			R.Inconcl(fmt.Sprintf("the concurrent-sessions process exceeded %s", c18ConcChildTimeout))
		case !goCrash || len(f) < 4:
			R.Inconcl(fmt.Sprintf("the concurrent-sessions process ended abnormally (%v) without a Go crash report; last case %q; stderr %q", err, last, first))
		default:
			R.Eval()
			R.Violate("concurrent/"+f[1]+":crash", fmt.Sprintf("the process died while %s sessions were encoding/decoding at overlapping times (%s stream): %s", strings.TrimPrefix(f[2], "G="), f[1], first),
				map[string]any{"case_index": f[0], "mode": f[1], "concurrent_sessions": f[2], "round": f[3]}, map[string]any{"stderr_head": string(errTail[:c18MinInt(len(errTail), 3000)])})
		}
		R.Require(len(R.Violations) > 0, "the concurrent-sessions process produced no report")
		return
	}
	R.EvalN(rep.Evaluations)
	for _, k := range rep.DistinctKeys {
		R.Distinct(k)
	}
	for _, s := range rep.Samples {
		R.Sample(s)
	}
	for _, v := range rep.Violations {
		R.Violate(v.Key, v.What, v.Case, v.Detail)
	}
	for _, s := range rep.Inconclusive {
		R.Inconcl(s)
	}
	for k, n := range rep.Extra.Counters {
		if strings.HasPrefix(k, "violation:") {
			R.CountN("all_"+k, n)
		} else if k != "inconclusive" {
			R.CountN(k, n)
		}
	}
	st := rep.Extra.Stats
	R.SetExtra("stream_models", st.Modes)
	R.SetExtra("records_by_kind_in_sessions_that_held", st.KindsInOK)
	R.SetExtra("failing_sessions_that_also_fail_alone", st.SoloFails)
	R.SetExtra("gomaxprocs", st.GOMAXPROCS)
	R.SetExtra("stream_models_stopped_early_after_many_failing_sessions", st.StoppedEarly)
	R.SetExtra("planned_cases", len(c18ConcCases(e.Tier, e.Race)))

	// minimum observations: every stream model ran, and the overlap the model is there for did happen (logical events)
	explained := len(rep.Violations) > 0 || st.Watchdog
	var short []string
	for _, m := range c18ConcModes {
		ms := st.Modes[m]
		if ms == nil || ms.Sessions == 0 {
			short = append(short, m+": no session ran")
			continue
		}
		switch m {
		case "gated":
			if ms.Parks < 50 || ms.ParksFileBegin < 10 {
				short = append(short, fmt.Sprintf("gated: only %d parks (%d with a foreign FileBegin)", ms.Parks, ms.ParksFileBegin))
			}
		case "buffer-yield", "pipe":
			if ms.OverlappedEncodes < 100 || ms.WritesDuringOthers < 100 {
				short = append(short, fmt.Sprintf("%s: only %d overlapped encodes / %d writes during a foreign encode", m, ms.OverlappedEncodes, ms.WritesDuringOthers))
			}
		}
	}
	sort.Strings(short)
	R.Require(explained || len(short) == 0, "concurrency not reached: "+strings.Join(short, "; "))
	kinds := 0
	for _, k := range c18Kinds {
		if st.KindsInOK[k] > 0 {
			kinds++
		}
	}
	R.Require(explained || kinds == len(c18Kinds), fmt.Sprintf("only %d of %d record types occurred in a concurrent session that held", kinds, len(c18Kinds)))
}
