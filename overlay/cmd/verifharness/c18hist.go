//go:build verif

package main

// C18, codec stage, list "histories": the encoders are used many times by one
// process (a sender encodes a FileBegin per file, a long-lived sender a manifest
// header per scan / per receiver). A history is a sequence x_1 .. x_n of values
// of ONE record type in which every value is a near-duplicate of an earlier
// one; all of them are encoded one after the other in the same process (a shard
// child runs its histories sequentially). Oracle, for every step k:
// decode(encode(x_k)) == x_k and the reader is at the end - whatever was
// encoded before. (The independent random values of the other lists never
// resemble each other, so an encoder that remembers something about an
// earlier value - a cache keyed by a summary of the value, a reused buffer
// that is only partly overwritten - is never asked the question it answers
// wrongly.)
//
// Variants (the history class in the violation key):
//   same-again      x, x, x                       (deep copies)
//   middle-changed  x, then values with the same length, same first and last element /
//                   byte and the same scalar fields, different in the middle
//   permuted        x, then the same elements in another order (middle only / all / reversed)
//   one-field       x, then x with exactly one field changed, for every field in turn
//   alternating     x, y, x, y, x with y a middle-changed x
//   interposed      x, unrelated value, middle-changed x, unrelated value, x

import (
	"encoding/hex"
	"fmt"

	"github.com/sheerbytes/sheerbytes/internal/transfer"
	vk "github.com/sheerbytes/sheerbytes/internal/verifkit"
	"github.com/sheerbytes/sheerbytes/pkg/manifest"
)

var c18HistVariants = []string{"same-again", "middle-changed", "permuted", "one-field", "alternating", "interposed"}

func c18HistReps(tier string) int {
	if tier == "thorough" {
		return 300
	}
	return 16
}

// ---- byte / string helpers -------------------------------------------------

const c18Letters = "abcdefghijklmnopqrstuvwxyz0123456789"

// c18MidLetters returns s with 1-3 letters between the first and the last byte
// replaced by other letters (same length, same extremes). Only bytes that are
// ASCII letters/digits are touched, so a path stays a valid path.
func c18MidLetters(r *vk.Rng, s string) string {
	b := []byte(s)
	var pos []int
	for i := 1; i < len(b)-1; i++ {
		c := b[i]
		if (c >= 'a' && c <= 'z') || (c >= '0' && c <= '9') || (c >= 'A' && c <= 'Z') {
			pos = append(pos, i)
		}
	}
	if len(pos) == 0 {
		return s
	}
	for n := 1 + r.Intn(3); n > 0; n-- {
		i := pos[r.Intn(len(pos))]
		c := c18Letters[r.Intn(len(c18Letters))]
		if c == b[i] {
			c = c18Letters[(c18IndexByte(c18Letters, c)+1)%len(c18Letters)]
		}
		b[i] = c
	}
	return string(b)
}

// c18SwapLetters exchanges two letters strictly between the first and the last byte.
func c18SwapLetters(r *vk.Rng, s string) string {
	b := []byte(s)
	var pos []int
	for i := 1; i < len(b)-1; i++ {
		c := b[i]
		if (c >= 'a' && c <= 'z') || (c >= '0' && c <= '9') || (c >= 'A' && c <= 'Z') {
			pos = append(pos, i)
		}
	}
	if len(pos) < 2 {
		return s
	}
	i := r.Intn(len(pos))
	j := (i + 1 + r.Intn(len(pos)-1)) % len(pos)
	b[pos[i]], b[pos[j]] = b[pos[j]], b[pos[i]]
	return string(b)
}

func c18IndexByte(s string, c byte) int {
	for i := 0; i < len(s); i++ {
		if s[i] == c {
			return i
		}
	}
	return 0
}

// c18MidBytes flips bits of 1-3 bytes strictly between the first and the last byte.
func c18MidBytes(r *vk.Rng, b []byte) []byte {
	out := append([]byte(nil), b...)
	if len(out) < 3 {
		return out
	}
	for n := 1 + r.Intn(3); n > 0; n-- {
		out[1+r.Intn(len(out)-2)] ^= byte(1 << uint(r.Intn(8)))
	}
	return out
}

// c18PermBytes: mode 0 reverses the middle, 1 reverses everything, 2 swaps two middle bytes.
func c18PermBytes(r *vk.Rng, b []byte, mode int) []byte {
	out := append([]byte(nil), b...)
	lo, hi := 0, len(out)-1
	if mode != 1 {
		lo, hi = 1, len(out)-2
	}
	if mode == 2 && hi-lo >= 1 {
		i, j := lo+r.Intn(hi-lo+1), lo+r.Intn(hi-lo+1)
		out[i], out[j] = out[j], out[i]
		return out
	}
	for lo < hi {
		out[lo], out[hi] = out[hi], out[lo]
		lo, hi = lo+1, hi-1
	}
	return out
}

func c18MidU64(r *vk.Rng, v uint64) uint64 { // top and low byte stay
	return v ^ ((r.U64() | 0x0100) & 0x00ffffffffffff00)
}
func c18MidU32(r *vk.Rng, v uint32) uint32 { return v ^ ((uint32(r.U64()) | 0x0100) & 0x00ffff00) }
func c18Swap64(v uint64) uint64 {
	var o uint64
	for i := 0; i < 8; i++ {
		o = o<<8 | (v>>(8*uint(i)))&0xff
	}
	return o
}
func c18Swap32(v uint32) uint32 { return v<<24 | (v<<8)&0xff0000 | (v>>8)&0xff00 | v>>24 }

// c18HistPath makes a path that starts and ends with a letter.
func c18HistPath(r *vk.Rng, n int) string {
	class := []string{"plain", "unicode", "backslash", "json-special"}[r.Intn(4)]
	p := []byte(c18Path(r, class, n))
	p[0] = c18Letters[r.Intn(26)]
	p[len(p)-1] = c18Letters[r.Intn(26)]
	s := string(p)
	if c18HasParent(s) { // the two overwritten bytes cannot create a ".." segment, but be safe
		s = c18Path(r, "near1024", n)
	}
	return s
}

func c18CopyManifest(m manifest.Manifest) manifest.Manifest {
	out := m
	if m.Items != nil {
		out.Items = append([]manifest.FileItem{}, m.Items...)
	}
	return out
}

// c18HistManifest: a manifest as a scan produces it (ids are 16 hex characters, totals consistent
// or arbitrary), with at least 4 items so that it has a middle.
func c18HistManifest(r *vk.Rng) manifest.Manifest {
	class := []string{"plain", "unicode", "dotdash", "json-special"}[r.Intn(4)]
	n := []int{4, 4, 5, 6, 9, 17, 60, 300}[r.Intn(8)]
	m := c18Manifest(r, class, n, false)
	scanLike := r.Intn(3) != 0
	var total int64
	files, dirs := 0, 0
	for i := range m.Items {
		if scanLike || m.Items[i].ID == "" {
			m.Items[i].ID = hex.EncodeToString(r.Bytes(8))
		}
		if scanLike {
			if !m.Items[i].IsDir {
				m.Items[i].Size = int64(r.Intn(1 << 20))
			}
			m.Items[i].ModTime = 1700000000 + int64(r.Intn(1<<24))
		}
		if m.Items[i].IsDir {
			dirs++
		} else {
			files++
			total += m.Items[i].Size
		}
	}
	if scanLike {
		m.TotalBytes, m.FileCount, m.FolderCount = total, files, dirs
		if m.Root == "" {
			m.Root = "root"
		}
	}
	return m
}

// ---- base values -----------------------------------------------------------------

func c18HistBase(r *vk.Rng, kind string) any {
	switch kind {
	case kFileBegin:
		return transfer.FileBegin{RelPath: c18HistPath(r, 3+c18Len(r, 1020, 200)), FileSize: r.U64(), ChunkSize: uint32(r.U64()), StreamID: r.U64(),
			HashAlg: byte(r.U64()), StripeIndex: uint16(r.U64()), StripeCount: uint16(r.U64()), StripeStart: uint32(r.U64()), StripeChunks: uint32(r.U64())}
	case kCredit:
		return transfer.Credit{StreamID: r.U64(), Credits: uint32(r.U64())}
	case kFileEnd:
		return transfer.FileEnd{StreamID: r.U64(), CRC32: uint32(r.U64())}
	case kStreams:
		return transfer.DataStreams{Count: uint16(r.U64())}
	case kBatch:
		b := transfer.CreditBatch{Entries: make([]transfer.Credit, 4+c18Len(r, 4000, 300))}
		for i := range b.Entries {
			b.Entries[i] = transfer.Credit{StreamID: r.U64(), Credits: uint32(r.U64())}
		}
		return b
	case kFileDone:
		return transfer.FileDone{StreamID: r.U64(), OK: r.Bool(), ErrMsg: c18Text(r, 4+c18Len(r, 65531, 600))}
	case kResume:
		return transfer.FileResumeInfo{FileID: c18Text(r, 4+c18Len(r, 65531, 64)), StreamID: r.U64(), TotalChunks: uint32(r.U64()),
			Bitmap: r.Bytes(4 + c18Len(r, 1<<20-4, 5000)), LastVerifiedChunk: uint32(r.U64()), LastVerifiedHash: r.U64()}
	case kResumeReq:
		return transfer.ResumeRequest{FileID: c18Text(r, 4+c18Len(r, 65531, 64)), StreamID: r.U64()}
	case kHeader:
		return c18HistManifest(r)
	}
	return nil // End
}

// ---- derivations -----------------------------------------------------------------

// c18HistMiddle: same length, same extremes, same scalars - different in the middle.
func c18HistMiddle(r *vk.Rng, v any) any {
	switch x := v.(type) {
	case transfer.FileBegin:
		x.RelPath = c18MidLetters(r, x.RelPath)
		return x
	case transfer.Credit:
		if r.Bool() {
			x.StreamID = c18MidU64(r, x.StreamID)
		} else {
			x.Credits = c18MidU32(r, x.Credits)
		}
		return x
	case transfer.FileEnd:
		if r.Bool() {
			x.StreamID = c18MidU64(r, x.StreamID)
		} else {
			x.CRC32 = c18MidU32(r, x.CRC32)
		}
		return x
	case transfer.DataStreams:
		x.Count ^= 0x0180
		return x
	case transfer.CreditBatch:
		e := append([]transfer.Credit{}, x.Entries...)
		for n := 1 + r.Intn(3); n > 0 && len(e) > 2; n-- {
			i := 1 + r.Intn(len(e)-2)
			if r.Bool() {
				e[i].StreamID = r.U64()
			} else {
				e[i].Credits++
			}
		}
		return transfer.CreditBatch{Entries: e}
	case transfer.FileDone:
		x.ErrMsg = string(c18MidBytes(r, []byte(x.ErrMsg)))
		return x
	case transfer.FileResumeInfo:
		switch r.Intn(3) {
		case 0:
			x.FileID = string(c18MidBytes(r, []byte(x.FileID)))
		case 1:
			x.Bitmap = c18MidBytes(r, x.Bitmap)
		default:
			x.FileID = string(c18MidBytes(r, []byte(x.FileID)))
			x.Bitmap = c18MidBytes(r, x.Bitmap)
		}
		return x
	case transfer.ResumeRequest:
		x.FileID = string(c18MidBytes(r, []byte(x.FileID)))
		return x
	case manifest.Manifest:
		m := c18CopyManifest(x)
		n := len(m.Items)
		if n < 3 {
			return m
		}
		i := 1 + r.Intn(n-2)
		switch r.Intn(7) {
		case 0: // rewritten in place: same size, new mtime, new id
			m.Items[i].ModTime++
			m.Items[i].ID = hex.EncodeToString(r.Bytes(8))
		case 1: // renamed (same length)
			p := c18MidLetters(r, m.Items[i].RelPath)
			if p == m.Items[i].RelPath {
				p = c18Path(r, "plain", len(p))
			}
			m.Items[i].RelPath = p
			m.Items[i].ID = hex.EncodeToString(r.Bytes(8))
		case 2: // two middle files exchanged their sizes (totals unchanged)
			j := 1 + r.Intn(n-2)
			m.Items[i].Size, m.Items[j].Size = m.Items[j].Size, m.Items[i].Size
			if i == j {
				m.Items[i].Size ^= 1
			}
		case 3: // one field only, id kept
			m.Items[i].Size++
		case 4:
			m.Items[i].IsDir = !m.Items[i].IsDir
		case 5: // every middle item replaced
			for k := 1; k < n-1; k++ {
				m.Items[k] = manifest.FileItem{RelPath: c18Path(r, "plain", 1+r.Intn(30)), Size: int64(r.Intn(1 << 30)), ModTime: int64(r.Intn(1 << 31)), ID: hex.EncodeToString(r.Bytes(8))}
			}
		default: // only the id
			m.Items[i].ID = hex.EncodeToString(r.Bytes(8))
		}
		return m
	}
	return v
}

// c18HistPermute: the same elements in another order.
func c18HistPermute(r *vk.Rng, v any, mode int) any {
	switch x := v.(type) {
	case transfer.FileBegin:
		x.RelPath = c18SwapLetters(r, x.RelPath) // two letters exchanged: the segments keep their lengths
		return x
	case transfer.Credit:
		x.StreamID = c18Swap64(x.StreamID)
		x.Credits = c18Swap32(x.Credits)
		return x
	case transfer.FileEnd:
		x.StreamID = c18Swap64(x.StreamID)
		x.CRC32 = c18Swap32(x.CRC32)
		return x
	case transfer.DataStreams:
		x.Count = x.Count<<8 | x.Count>>8
		return x
	case transfer.CreditBatch:
		e := append([]transfer.Credit{}, x.Entries...)
		lo, hi := 0, len(e)-1
		if mode != 1 {
			lo, hi = 1, len(e)-2
		}
		if mode == 2 && hi > lo {
			i, j := lo+r.Intn(hi-lo+1), lo+r.Intn(hi-lo+1)
			e[i], e[j] = e[j], e[i]
		} else {
			for lo < hi {
				e[lo], e[hi] = e[hi], e[lo]
				lo, hi = lo+1, hi-1
			}
		}
		return transfer.CreditBatch{Entries: e}
	case transfer.FileDone:
		x.ErrMsg = string(c18PermBytes(r, []byte(x.ErrMsg), mode))
		return x
	case transfer.FileResumeInfo:
		x.Bitmap = c18PermBytes(r, x.Bitmap, mode)
		if mode == 1 {
			x.FileID = string(c18PermBytes(r, []byte(x.FileID), 0))
		}
		return x
	case transfer.ResumeRequest:
		x.FileID = string(c18PermBytes(r, []byte(x.FileID), mode))
		return x
	case manifest.Manifest:
		m := c18CopyManifest(x)
		lo, hi := 0, len(m.Items)-1
		if mode != 1 {
			lo, hi = 1, len(m.Items)-2
		}
		if mode == 2 && hi > lo {
			i, j := lo+r.Intn(hi-lo+1), lo+r.Intn(hi-lo+1)
			if i == j {
				j = lo + (i-lo+1)%(hi-lo+1)
			}
			m.Items[i], m.Items[j] = m.Items[j], m.Items[i]
		} else {
			for lo < hi {
				m.Items[lo], m.Items[hi] = m.Items[hi], m.Items[lo]
				lo, hi = lo+1, hi-1
			}
		}
		return m
	}
	return v
}

// c18HistFields returns x with exactly one field changed, once for every field.
func c18HistFields(r *vk.Rng, v any) []any {
	var out []any
	switch x := v.(type) {
	case transfer.FileBegin:
		for i := 0; i < 10; i++ {
			y := x
			switch i {
			case 0:
				y.RelPath = c18MidLetters(r, x.RelPath)
			case 1:
				y.FileSize++
			case 2:
				y.ChunkSize++
			case 3:
				y.StreamID++
			case 4:
				y.HashAlg++
			case 5:
				y.StripeIndex++
			case 6:
				y.StripeCount++
			case 7:
				y.StripeStart++
			case 8:
				y.StripeChunks++
			case 9:
				y.RelPath = x.RelPath + "z" // one byte longer
				if len(y.RelPath) > transfer.VerifC18MaxRelPathLength {
					y.RelPath = x.RelPath[:len(x.RelPath)-2] + "z"
				}
			}
			out = append(out, y)
		}
	case transfer.Credit:
		out = append(out, transfer.Credit{StreamID: x.StreamID + 1, Credits: x.Credits}, transfer.Credit{StreamID: x.StreamID, Credits: x.Credits + 1})
	case transfer.FileEnd:
		out = append(out, transfer.FileEnd{StreamID: x.StreamID + 1, CRC32: x.CRC32}, transfer.FileEnd{StreamID: x.StreamID, CRC32: x.CRC32 + 1})
	case transfer.DataStreams:
		out = append(out, transfer.DataStreams{Count: x.Count + 1}, transfer.DataStreams{Count: x.Count ^ 0x8000})
	case transfer.CreditBatch:
		n := len(x.Entries)
		for i := 0; i < 5; i++ {
			e := append([]transfer.Credit{}, x.Entries...)
			switch i {
			case 0:
				e[0].Credits++
			case 1:
				e[n-1].StreamID++
			case 2:
				e[n/2].Credits++
			case 3: // a middle entry removed
				e = append(e[:n/2], e[n/2+1:]...)
			case 4: // one appended
				e = append(e, transfer.Credit{StreamID: r.U64(), Credits: 1})
			}
			out = append(out, transfer.CreditBatch{Entries: e})
		}
	case transfer.FileDone:
		for i := 0; i < 5; i++ {
			y := x
			b := []byte(x.ErrMsg)
			switch i {
			case 0:
				y.StreamID++
			case 1:
				y.OK = !y.OK
			case 2:
				b[len(b)-1] ^= 1
				y.ErrMsg = string(b)
			case 3:
				b[0] ^= 1
				y.ErrMsg = string(b)
			case 4:
				y.ErrMsg = string(b[:len(b)-1])
			}
			out = append(out, y)
		}
	case transfer.FileResumeInfo:
		for i := 0; i < 9; i++ {
			y := x
			switch i {
			case 0:
				y.FileID = string(c18MidBytes(r, []byte(x.FileID)))
			case 1:
				y.StreamID++
			case 2:
				y.TotalChunks++
			case 3:
				y.Bitmap = c18MidBytes(r, x.Bitmap)
			case 4:
				y.Bitmap = append([]byte(nil), x.Bitmap...)
				y.Bitmap[len(y.Bitmap)-1] ^= 0x80
			case 5:
				y.Bitmap = append([]byte(nil), x.Bitmap[:len(x.Bitmap)-1]...)
			case 6:
				y.LastVerifiedChunk++
			case 7:
				y.LastVerifiedHash++
			case 8:
				y.Bitmap = append([]byte(nil), x.Bitmap...)
				y.Bitmap[0] ^= 1
			}
			out = append(out, y)
		}
	case transfer.ResumeRequest:
		b := []byte(x.FileID)
		b[len(b)-1] ^= 1
		out = append(out, transfer.ResumeRequest{FileID: x.FileID, StreamID: x.StreamID + 1},
			transfer.ResumeRequest{FileID: string(c18MidBytes(r, []byte(x.FileID))), StreamID: x.StreamID},
			transfer.ResumeRequest{FileID: string(b), StreamID: x.StreamID},
			transfer.ResumeRequest{FileID: x.FileID[:len(x.FileID)-1], StreamID: x.StreamID})
	case manifest.Manifest:
		n := len(x.Items)
		for i := 0; i < 12; i++ {
			m := c18CopyManifest(x)
			switch i {
			case 0:
				m.Root += "x"
			case 1:
				m.TotalBytes++
			case 2:
				m.FileCount++
			case 3:
				m.FolderCount++
			case 4:
				m.Items[0].ID = hex.EncodeToString(r.Bytes(8))
			case 5:
				m.Items[n-1].ID = hex.EncodeToString(r.Bytes(8))
			case 6:
				m.Items[n/2].ID = hex.EncodeToString(r.Bytes(8))
			case 7:
				m.Items[n/2].Size++
			case 8:
				m.Items[n/2].RelPath += "y"
			case 9:
				m.Items[n/2].ModTime--
			case 10: // a middle item removed
				m.Items = append(m.Items[:n/2], m.Items[n/2+1:]...)
			case 11: // a middle item added
				it := manifest.FileItem{RelPath: c18Path(r, "plain", 12), Size: 5, ModTime: 7, ID: hex.EncodeToString(r.Bytes(8))}
				m.Items = append(m.Items[:n/2], append([]manifest.FileItem{it}, m.Items[n/2:]...)...)
			}
			out = append(out, m)
		}
	}
	return out
}

// c18HistValid: a derived FileBegin must still be a path the writer accepts (exchanging bytes may
// have produced an empty or ".." segment); fall back to the letters-only change then.
func c18HistFixPath(r *vk.Rng, base, v any) any {
	fb, ok := v.(transfer.FileBegin)
	if !ok {
		return v
	}
	p := fb.RelPath
	bad := c18HasParent(p) || len(p) == 0 || p[0] == '/' || p[0] == '\\'
	if bad {
		fb.RelPath = c18MidLetters(r, base.(transfer.FileBegin).RelPath)
	}
	return fb
}

// c18History builds the values of one history.
func c18History(r *vk.Rng, kind, variant string) []c18Rec {
	base := c18HistBase(r, kind)
	cp := func(v any) any { // deep copy through the identity derivations
		switch x := v.(type) {
		case manifest.Manifest:
			return c18CopyManifest(x)
		case transfer.CreditBatch:
			return transfer.CreditBatch{Entries: append([]transfer.Credit{}, x.Entries...)}
		case transfer.FileResumeInfo:
			x.Bitmap = append([]byte{}, x.Bitmap...)
			return x
		}
		return v
	}
	var vals []any
	switch variant {
	case "same-again":
		vals = []any{base, cp(base), cp(base)}
	case "middle-changed":
		a := c18HistMiddle(r, base)
		vals = []any{base, a, c18HistMiddle(r, a), c18HistMiddle(r, base)}
	case "permuted":
		vals = []any{base, c18HistPermute(r, base, 2), c18HistPermute(r, base, 0), c18HistPermute(r, base, 1), cp(base)}
	case "one-field":
		vals = append([]any{base}, c18HistFields(r, base)...)
		if len(vals) == 1 {
			vals = append(vals, cp(base))
		}
	case "alternating":
		y := c18HistMiddle(r, base)
		vals = []any{base, y, cp(base), cp(y), cp(base)}
	case "interposed":
		other := func() any {
			if kind == kHeader {
				return c18HistManifest(r)
			}
			return c18HistBase(r, kind)
		}
		vals = []any{base, other(), c18HistMiddle(r, base), other(), cp(base)}
	}
	out := make([]c18Rec, len(vals))
	for i, v := range vals {
		out[i] = c18Rec{Kind: kind, Class: "hist/" + variant, V: c18HistFixPath(r, base, v)}
	}
	return out
}

// c18RunHistories evaluates the histories of one shard. begin/violate are the shard's logging and
// violation callbacks.
func c18RunHistories(R *vk.Report, st *c18Stats, tier string, base uint64, shard int,
	begin func(list string, index int, kind, class string) bool,
	violate func(key, what string, rec c18Rec, extra map[string]any), abort func() bool) {

	reps := c18HistReps(tier)
	idx := 0
	for rep := 0; rep < reps; rep++ {
		for _, kind := range c18Kinds {
			for _, variant := range c18HistVariants {
				i := idx
				idx++
				if i%c18Shards != shard || abort() {
					continue
				}
				r := vk.NewRng(base ^ vk.Mix(uint64(i)+0x415700))
				hist := c18History(r, kind, variant)
				label := kind + ":" + variant
				if !begin("histories", i, kind, "hist/"+variant) {
					continue
				}
				R.Eval()
				key := "history/" + label
				origin := map[string]any{"list": "histories", "index": i, "shard": shard, "steps": len(hist), "variant": variant}
				ok, refused := true, false
				var all []byte
				shared := &c18Stream{} // every step also goes onto one common stream (not for headers: a stream has one header)
				var sharedEnds []int
				for k, rec := range hist {
					s := &c18Stream{}
					if err := c18Encode(s, rec); err != nil {
						st.Rejected["history/"+label]++
						if len(s.buf) > 0 {
							ok = false
							violate(key, fmt.Sprintf("step %d of a history: the encoder refused the value (%v) after writing %d bytes", k, err, len(s.buf)), rec, map[string]any{"origin": origin, "step": k})
						}
						refused = true
						break
					}
					all = append(all, s.buf...)
					if kind != kHeader {
						_ = c18Encode(shared, rec)
						sharedEnds = append(sharedEnds, len(shared.buf))
					}
					if r.Bool() {
						s.dribble = r.Fork()
					}
					encLen := len(s.buf)
					typ, got, err := c18Decode(s, rec.Kind)
					ex := map[string]any{"origin": origin, "step": k, "encoded_len": encLen}
					stale := func() {
						for j := k - 1; j >= 0; j-- {
							if c18Equal(hist[j].V, got) {
								ex["decoded_value_equals_the_value_of_step"] = j
								return
							}
						}
					}
					switch {
					case err != nil:
						ok = false
						violate(key, fmt.Sprintf("step %d of a history of %d near-duplicate %s values encoded one after the other in one process: the decoder rejects what the encoder wrote: %v", k, len(hist), kind, err), rec, ex)
					case rec.Kind != kHeader && typ != c18TypeByte(rec.Kind):
						ok = false
						violate(key, fmt.Sprintf("step %d of a history: %s decoded as record type 0x%02x", k, kind, typ), rec, ex)
					case !c18Equal(rec.V, got):
						ok = false
						stale()
						ex["decoded"] = c18Describe(c18Rec{Kind: kind, Class: "decoded", V: got})
						violate(key, fmt.Sprintf("step %d of a history of %d near-duplicate %s values encoded one after the other in one process: decode(encode(x_k)) != x_k", k, len(hist), kind), rec, ex)
					case s.left() != 0:
						ok = false
						violate(key, fmt.Sprintf("step %d of a history: %d of %d encoded bytes left unread", k, s.left(), encLen), rec, ex)
					}
					if !ok {
						break
					}
				}
				if ok && !refused && kind != kHeader {
					for k, rec := range hist {
						typ, got, err := c18Decode(shared, rec.Kind)
						if err != nil || typ != c18TypeByte(rec.Kind) || !c18Equal(rec.V, got) || shared.rd != sharedEnds[k] {
							ok = false
							violate(key, fmt.Sprintf("record %d of a history of %d near-duplicate %s records written to ONE stream does not decode to the value written (err=%v, reader at %d, record ends at %d)",
								k, len(hist), kind, err, shared.rd, sharedEnds[k]), rec, map[string]any{"origin": origin, "step": k})
							break
						}
					}
				}
				R.Distinct(c18Key64("hist/"+variant+"/"+kind, all))
				if refused {
					continue
				}
				st.HistSteps += len(hist)
				if ok {
					st.Hist[label]++
				} else {
					st.HistBad[label]++
				}
			}
		}
	}
}
