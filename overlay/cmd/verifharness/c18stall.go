//go:build verif

package main

// C18, stage "reader-stall": THE READER LOOPS OF THE REAL CODE, FED IN PIECES.
//
// The codec stages call the decoders on in-memory streams; the shared-stream stages judge what the WRITERS put
// on the stream (the recording). Neither observes what the peer's reader loop makes of the bytes: the sender's
// ack reader (FileDone / FileResumeInfo), the receiver's header read and its control reader (DataStreams,
// FileBegin, FileEnd, ResumeRequest, End) sit in SendManifestMultiStream / RecvManifestMultiStream, around
// readControlMessage / readControlHeader, and whatever these loops do with a stream that hands a record over in
// two pieces, or whose Read returns because a deadline the loop itself had set expired inside a record, decides
// whether "a sequence of records decodes to the same sequence" for the peer.
//
// Here real transfers (the shared-stream driver: c18WireRun, same trees, mock transport and QUIC, large-field
// transfers included) run with the inbound direction of BOTH control streams behind a link that behaves like a
// network stream: received bytes are buffered, Read returns what is there (short reads), SetReadDeadline is
// honoured (a Read that finds nothing returns a timeout error once the deadline has passed). The link goes
// silent at planned positions of planned records - on a record boundary, behind the type byte, in the middle,
// before the last byte, or where the writer's own Write calls split the record. The silence is not a duration
// the harness picks: it lasts until the reader has taken every delivered byte and waits for more, and then
//   * if the reader waits without a deadline: the rest is delivered at once (such a reader cannot tell how long
//     the link was silent);
//   * if the reader waits with a deadline: until 1 or 2 of ITS deadlines have expired (the link is slower than
//     the reader is patient), unless the deadline lies more than c18StallHoldCap ahead.
// No byte is lost, duplicated or reordered.
//
// Oracle. The recordings are judged as in the shared-stream stage. In addition: a transfer whose bytes were all
// written in frame and delivered in order must be decoded by both reader loops, i.e. it completes on both sides.
// A transfer that does not is run again WITHOUT silences (same configuration, same link: the control, it also
// plays the canary) and once more WITH the same plan. Violation iff the control completes and both stalled runs
// fail, and
//   (a) a reader whose deadline expired inside a record came back for more bytes (it went on decoding) -
//       key reader-stall/<side>/<record kind>/<position>/retry-after-deadline - whether the run then returned an
//       error or stopped moving; or
//   (b) no deadline was involved (the record merely arrived in two pieces) and a side RETURNED an error -
//       key .../split-delivery.
// A reader that gives up when its deadline expires inside a record (never reads again) loses the transfer, not
// its place in the stream: no verdict (counted). A stalled run that merely stops moving without (a) is
// inconclusive.

import (
	"fmt"
	"io"
	"os"
	"sort"
	"strings"
	"sync"
	"sync/atomic"
	"time"

	"github.com/sheerbytes/sheerbytes/internal/verifhook"
	vk "github.com/sheerbytes/sheerbytes/internal/verifkit"
)

func init() { register("c18stall", runC18Stall) }

const (
	c18StallHoldCap   = 4 * time.Second // a silence never lasts longer (schedule only)
	c18StallStarveCap = 2 * time.Second // how long a silence waits for the reader to take what was delivered (schedule only)
	c18StallAbort     = 3               // violating transfers after which no further transfer is started
)

var c18StallWheres = []string{"after-type-byte", "middle", "before-last-byte", "boundary", "at-write-split"}

type c18StallCut struct {
	Record   int    `json:"record"` // index of the record in the stream this side reads (receiver: 0 = the header)
	Where    string `json:"where"`
	Expiries int    `json:"reader_deadlines_outlasted"`
	Permille int    `json:"middle_permille"`
}

type c18StallSpec struct {
	SenderReads   []c18StallCut `json:"sender_reads"`
	ReceiverReads []c18StallCut `json:"receiver_reads"`
}

type c18StallHold struct {
	Side          string `json:"side"`
	Record        int    `json:"record"`
	Kind          string `json:"record_kind"`
	Planned       string `json:"planned"`
	Where         string `json:"where"`
	Offset        int    `json:"stream_offset"`
	RecordStart   int    `json:"record_starts_at"`
	Mid           bool   `json:"inside_a_record"`
	ReaderStarved bool   `json:"reader_took_everything_and_waited"`
	DeadlineSeen  bool   `json:"reader_waited_with_a_deadline"`
	Timeouts      int    `json:"deadlines_expired_during_the_silence"`
	ReadAgain     bool   `json:"reader_read_again_after_a_deadline_expired_inside_the_record"`
	BeyondCap     bool   `json:"deadline_beyond_cap"`
	Capped        bool   `json:"ended_by_cap"`
}

func (h c18StallHold) mode() string {
	if h.Timeouts > 0 {
		return "deadline-expired"
	}
	return "split-delivery"
}

type c18StallTimeout struct{}

func (c18StallTimeout) Error() string   { return "harness link: read deadline exceeded" }
func (c18StallTimeout) Timeout() bool   { return true }
func (c18StallTimeout) Temporary() bool { return true }
func (c18StallTimeout) Unwrap() error   { return os.ErrDeadlineExceeded }

// c18StallLink is what one side reads its control stream through. Writes go straight to the recording wrapper.
type c18StallLink struct {
	ws   *c18WireStream
	x    *c18WireXfer
	side string
	tr   *c18Tracker

	// pump only
	cuts   []c18StallCut
	bounds []int  // offsets behind the complete records seen so far
	fed    int    // bytes that have arrived (and were shown to the tracker)
	pend   []byte // arrived, not yet delivered: the beginning of a record whose end must be known before it can be cut
	trDead bool

	mu           sync.Mutex
	cond         *sync.Cond
	buf          []byte
	rerr         error
	deadline     time.Time
	waiting      bool
	closed       bool
	consumed     int
	reads        int
	timeouts     int
	deadlinesSet int
	holding      *c18StallHold
	afterMid     *c18StallHold
	holds        []*c18StallHold
}

func newC18StallLink(x *c18WireXfer, side string, ws *c18WireStream) *c18StallLink {
	l := &c18StallLink{ws: ws, x: x, side: "receiver-reads"}
	l.cond = sync.NewCond(&l.mu)
	if side == "send" {
		l.side = "sender-reads"
		l.cuts = append(l.cuts, x.cfg.Stall.SenderReads...)
		l.tr = newC18Tracker(false)
		x.sendLink = l
	} else {
		l.cuts = append(l.cuts, x.cfg.Stall.ReceiverReads...)
		l.tr = newC18Tracker(true)
		x.recvLink = l
	}
	go l.pump()
	return l
}

func (l *c18StallLink) Write(p []byte) (int, error) { return l.ws.Write(p) }
func (l *c18StallLink) StreamID() uint64            { return l.ws.StreamID() }
func (l *c18StallLink) Close() error {
	l.mu.Lock()
	l.closed = true
	l.cond.Broadcast()
	l.mu.Unlock()
	return l.ws.Close()
}
func (l *c18StallLink) SetWriteDeadline(time.Time) error { return nil }
func (l *c18StallLink) SetDeadline(t time.Time) error    { return l.SetReadDeadline(t) }
func (l *c18StallLink) SetReadDeadline(t time.Time) error {
	l.mu.Lock()
	l.deadline = t
	if !t.IsZero() {
		l.deadlinesSet++
	}
	l.cond.Broadcast()
	l.mu.Unlock()
	return nil
}

// waitFor: cond.Wait that is woken after d at the latest (l.mu held).
func (l *c18StallLink) waitFor(d time.Duration) {
	t := time.AfterFunc(d, func() {
		l.mu.Lock()
		l.cond.Broadcast()
		l.mu.Unlock()
	})
	l.cond.Wait()
	t.Stop()
}

func (l *c18StallLink) Read(p []byte) (int, error) {
	if len(p) == 0 {
		return 0, nil
	}
	l.mu.Lock()
	defer l.mu.Unlock()
	l.reads++
	if l.afterMid != nil {
		l.afterMid.ReadAgain = true
		l.afterMid = nil
	}
	for {
		if len(l.buf) > 0 {
			n := copy(p, l.buf)
			l.buf = l.buf[n:]
			l.consumed += n
			return n, nil
		}
		if l.rerr != nil {
			return 0, l.rerr
		}
		if l.closed {
			return 0, io.ErrClosedPipe
		}
		if !l.deadline.IsZero() && !time.Now().Before(l.deadline) {
			l.timeouts++
			if h := l.holding; h != nil {
				h.ReaderStarved = true
				h.DeadlineSeen = true
				h.Timeouts++
				if h.Mid {
					l.afterMid = h
				}
			}
			l.cond.Broadcast()
			return 0, c18StallTimeout{}
		}
		l.waiting = true
		l.cond.Broadcast()
		if l.deadline.IsZero() {
			l.cond.Wait()
		} else {
			l.waitFor(time.Until(l.deadline) + time.Millisecond)
		}
		l.waiting = false
	}
}

func (l *c18StallLink) deliver(b []byte) {
	if len(b) == 0 {
		return
	}
	l.x.touch()
	l.mu.Lock()
	l.buf = append(l.buf, b...)
	l.cond.Broadcast()
	l.mu.Unlock()
}

func (l *c18StallLink) pump() {
	defer l.tr.close()
	tmp := make([]byte, 32<<10)
	for {
		n, err := l.ws.Read(tmp)
		if n > 0 {
			l.arrive(append([]byte(nil), tmp[:n]...))
		}
		if err != nil {
			l.deliver(l.pend)
			l.pend = nil
			l.mu.Lock()
			l.rerr = err
			l.cond.Broadcast()
			l.mu.Unlock()
			return
		}
	}
}

// arrive: chunk has arrived from the peer; everything before it (but l.pend) has been delivered.
func (l *c18StallLink) arrive(chunk []byte) {
	if len(l.cuts) > 0 && !l.trDead {
		for i := range chunk {
			mid, _, _ := l.tr.feed(chunk[i : i+1])
			if l.tr.isDead() {
				l.trDead = true // what the peer wrote does not decode: the recording holds that finding, no further silences
				break
			}
			if !mid {
				l.bounds = append(l.bounds, l.fed+i+1)
			}
		}
	}
	start := l.fed - len(l.pend)
	l.fed += len(chunk)
	if len(l.pend) > 0 {
		chunk = append(l.pend, chunk...)
		l.pend = nil
	}
	end, d := l.fed, start
	for len(l.cuts) > 0 && !l.trDead {
		c := l.cuts[0]
		if c.Record > len(l.bounds) {
			break // that record has not begun
		}
		rs, re := 0, -1
		if c.Record > 0 {
			rs = l.bounds[c.Record-1]
		}
		if c.Record < len(l.bounds) {
			re = l.bounds[c.Record]
		}
		if rs < d {
			l.cuts = l.cuts[1:] // cannot happen (cuts are taken as soon as the first byte of their record is at hand)
			continue
		}
		h, where := rs, c.Where
		switch {
		case c.Where == "boundary":
		case end == rs:
			h = -1 // no byte of the record yet
		case c.Where == "after-type-byte":
			h = rs + 1
		case re < 0 && c.Where == "at-write-split":
			h = end // the record is not complete: the writer handed it over in several Writes
		case re < 0:
			// the end of the record must be known: what has arrived of it waits in the link (a link may delay)
			l.deliver(chunk[d-start : rs-start])
			l.pend = append([]byte(nil), chunk[rs-start:]...)
			return
		case c.Where == "before-last-byte":
			h = re - 1
		default:
			where = "middle" // also for a planned at-write-split whose record arrived in one piece
			h = rs + 1
			if re-rs > 3 {
				h = rs + 1 + (re-rs-2)*c.Permille/1000
			}
		}
		if h < 0 {
			break
		}
		if h <= rs || (re >= 0 && h >= re) {
			h, where = rs, "boundary" // a one-byte record
		}
		l.cuts = l.cuts[1:]
		l.deliver(chunk[d-start : h-start])
		d = h
		l.hold(&c18StallHold{Side: l.side, Record: c.Record, Planned: c.Where, Where: where, Offset: h, RecordStart: rs, Mid: where != "boundary"}, c.Expiries)
	}
	l.deliver(chunk[d-start:])
}

// hold: the link is silent. See the head of the file for what ends the silence.
func (l *c18StallLink) hold(h *c18StallHold, expiries int) {
	if expiries < 1 {
		expiries = 1
	}
	l.mu.Lock()
	defer l.mu.Unlock()
	l.holds = append(l.holds, h)
	l.holding = h
	now := time.Now()
	starveCap, capT := now.Add(c18StallStarveCap), now.Add(c18StallHoldCap)
	for !h.ReaderStarved && !l.closed && time.Now().Before(starveCap) {
		if l.waiting && len(l.buf) == 0 {
			h.ReaderStarved = true
			break
		}
		l.waitFor(10 * time.Millisecond)
	}
	for h.ReaderStarved && !l.closed && h.Timeouts < expiries {
		if time.Now().After(capT) {
			h.Capped = true
			break
		}
		if l.waiting {
			if l.deadline.IsZero() {
				break
			}
			h.DeadlineSeen = true
			if l.deadline.After(capT) {
				h.BeyondCap = true
				break
			}
		}
		l.waitFor(10 * time.Millisecond)
	}
	l.holding = nil
	l.x.touch()
}

type c18StallObs struct {
	Holds          []c18StallHold `json:"silences"`
	Reads          map[string]int `json:"read_calls"`
	Timeouts       map[string]int `json:"deadline_errors_returned"`
	DeadlinesSet   map[string]int `json:"read_deadlines_set"`
	LeftInTheLink  map[string]int `json:"bytes_delivered_but_never_read"`
	CutsNotReached map[string]int `json:"planned_silences_not_reached"`
}

func c18StallCollect(x *c18WireXfer) *c18StallObs {
	o := &c18StallObs{Reads: map[string]int{}, Timeouts: map[string]int{}, DeadlinesSet: map[string]int{}, LeftInTheLink: map[string]int{}, CutsNotReached: map[string]int{}}
	kindOf := func(side string, rec, recStart int) string {
		var ws *c18WireStream
		hdr := false
		if side == "sender-reads" {
			ws = x.recvCtl
		} else {
			ws, hdr = x.sendCtl, true
		}
		if ws == nil {
			return "unknown"
		}
		wire, failOff, _, _ := ws.snapshot()
		recs, hdrOK, _ := c18WireDecode(wire, failOff, hdr, nil)
		if hdr {
			if rec == 0 {
				if hdrOK {
					return kHeader
				}
				return "unknown"
			}
			rec--
		}
		if rec < len(recs) {
			return c18WireKindName(recs[rec].Typ)
		}
		if recStart < len(wire) { // the record was never written completely: its type byte names it
			return c18WireKindName(wire[recStart])
		}
		return "unknown"
	}
	for _, l := range []*c18StallLink{x.sendLink, x.recvLink} {
		if l == nil {
			continue
		}
		l.mu.Lock()
		hs := make([]c18StallHold, 0, len(l.holds))
		for _, h := range l.holds {
			hs = append(hs, *h)
		}
		o.Reads[l.side], o.Timeouts[l.side], o.DeadlinesSet[l.side], o.LeftInTheLink[l.side] = l.reads, l.timeouts, l.deadlinesSet, len(l.buf)
		l.mu.Unlock()
		planned := len(x.cfg.Stall.SenderReads)
		if l.side == "receiver-reads" {
			planned = len(x.cfg.Stall.ReceiverReads)
		}
		o.CutsNotReached[l.side] = planned - len(hs)
		for i := range hs {
			hs[i].Kind = kindOf(l.side, hs[i].Record, hs[i].RecordStart)
		}
		o.Holds = append(o.Holds, hs...)
	}
	return o
}

// ---------------------------------------------------------------- the stage

func c18StallGenCfg(tier string, seed uint64, i int) c18WireCfg {
	c := c18WireGenCfg(tier, seed^0x57a11, i)
	c.Hold, c.Park, c.ShortUs = "none", false, 0
	r := vk.NewRng(c.Seed ^ 0x57a11ed)
	pick := func(k, lo, hi int, must ...int) []int { // k distinct record indices of [lo, hi), sorted, incl. must
		set := map[int]bool{}
		for _, m := range must {
			set[m] = true
		}
		for len(set) < k {
			set[lo+r.Intn(hi-lo)] = true
		}
		out := make([]int, 0, len(set))
		for v := range set {
			out = append(out, v)
		}
		sort.Ints(out)
		return out
	}
	cuts := func(recs []int, shift int) []c18StallCut {
		var out []c18StallCut
		for j, rec := range recs {
			out = append(out, c18StallCut{Record: rec, Where: c18StallWheres[(i+j+shift)%len(c18StallWheres)], Expiries: 1 + r.Intn(4)/3, Permille: 100 + r.Intn(800)})
		}
		return out
	}
	sp := &c18StallSpec{}
	// every file is answered with a FileDone (and a FileResumeInfo if it was asked for): at least Files records come back
	sp.SenderReads = cuts(pick(2+r.Intn(2), 0, 5), 0)
	// header, DataStreams, then FileBegin / ResumeRequest / FileEnd per file, End
	var must []int
	if i%4 == 0 {
		must = []int{0}
	}
	sp.ReceiverReads = cuts(pick(2+r.Intn(2), 0, 10, must...), 1)
	c.Stall = sp
	return c
}

func c18StallFailed(res *c18WireResult) (failed, hung bool) {
	if res == nil || res.SetupErr != "" || res.Stopped || res.BothOK {
		return false, false
	}
	hung = res.Watchdog || res.Idle || res.SendErr == "did not return" || res.RecvErr == "did not return"
	return true, hung
}

type c18StallCase struct {
	Res, Control, Again *c18WireResult
}

func runC18Stall(e *Env) {
	R := e.R
	R.Rule = "one case = one real transfer (SendManifestMultiStream -> RecvManifestMultiStream, trees and options of the shared-stream stage, mock transport and QUIC) in which each side reads its control stream through a buffering, " +
		"deadline-capable link that goes silent at 2-3 planned positions per direction (record boundary, behind the type byte, middle, before the last byte, where the writer's Writes split the record) until the reader has taken every " +
		"delivered byte and waits (and, if it waits with a deadline, until 1-2 of its deadlines have expired); every byte arrives, in order; the transfer must complete on both sides; distinct by (reading side, record kind, position, " +
		"whether a deadline of the reader expired during the silence)"
	n := e.Pick(24, 200)
	verifhook.Reset()
	verifhook.Set("send.fileEnd.before", c18WireOnFileEnd)
	verifhook.Set("send.chunk.afterFrame", c18WireOnChunk)
	verifhook.Set("recv.chunk.afterMark", c18WireOnChunk)
	defer verifhook.Reset()
	lp, err := vk.NewListenerPool(4, 5*time.Second)
	if err != nil {
		R.Inconcl("cannot create QUIC listeners: " + err.Error())
		lp = nil
	} else {
		defer lp.Close()
	}

	cases := make([]*c18StallCase, n)
	var violating atomic.Int64
	vk.ParallelDo(n, 8, func(i int) {
		if violating.Load() >= c18StallAbort {
			return
		}
		cfg := c18StallGenCfg(e.Tier, e.Seed, i)
		if cfg.Transport == "quic" && lp == nil {
			cfg.Transport = "mock"
		}
		c := &c18StallCase{Res: c18WireRun(e.Work, cfg, lp)}
		if failed, _ := c18StallFailed(c.Res); failed || len(c.Res.Findings) > 0 {
			violating.Add(1)
			if failed && len(c.Res.Findings) == 0 {
				ctl := cfg
				ctl.Stall = &c18StallSpec{} // the same link, no silences
				c.Control = c18WireRun(e.Work, ctl, lp)
				if c.Control.BothOK {
					c.Again = c18WireRun(e.Work, cfg, lp)
				}
			}
		}
		cases[i] = c
	})

	type agg struct {
		Transfers, BothOK, Failed, Hung, Setup, Skipped                                                int
		Silences, InsideARecord, ReaderWaitedWithDeadline, DeadlinesExpired, ReaderNeverWaited, Capped int
		ReaderGaveUpAtDeadline, ReadAgainAfterDeadlineInsideRecord                                     int
	}
	var a agg
	classes := map[string]int{}
	midBySide := map[string]int{}
	whereBySide := map[string]int{}
	kindsMid := map[string]int{}
	totals := map[string]int{}
	for _, c := range cases {
		if c == nil {
			a.Skipped++
			continue
		}
		res := c.Res
		if res.SetupErr != "" {
			a.Setup++
			R.Count("setup_failed")
			if a.Setup <= 3 {
				R.SetExtra(fmt.Sprintf("setup_error_%d", a.Setup), res.SetupErr)
			}
			continue
		}
		R.Eval()
		a.Transfers++
		failed, hung := c18StallFailed(res)
		switch {
		case res.BothOK:
			a.BothOK++
		case hung:
			a.Hung++
		default:
			a.Failed++
		}
		obs := res.Stall
		if obs == nil {
			obs = &c18StallObs{}
		}
		for side, v := range obs.Reads {
			totals["read_calls/"+side] += v
		}
		for side, v := range obs.Timeouts {
			totals["deadline_errors_returned/"+side] += v
		}
		for side, v := range obs.DeadlinesSet {
			totals["read_deadlines_set/"+side] += v
		}
		for side, v := range obs.CutsNotReached {
			totals["planned_silences_not_reached/"+side] += v
		}
		for _, h := range obs.Holds {
			a.Silences++
			if !h.ReaderStarved {
				a.ReaderNeverWaited++
				continue
			}
			cl := fmt.Sprintf("%s/%s/%s/%s", h.Side, h.Kind, h.Where, h.mode())
			classes[cl]++
			R.Distinct(cl)
			whereBySide[h.Side+"/"+h.Where]++
			if h.Mid {
				a.InsideARecord++
				midBySide[h.Side]++
				kindsMid[h.Side+"/"+h.Kind]++
			}
			if h.DeadlineSeen {
				a.ReaderWaitedWithDeadline++
			}
			a.DeadlinesExpired += h.Timeouts
			if h.Capped {
				a.Capped++
			}
			if h.Mid && h.Timeouts > 0 {
				if h.ReadAgain {
					a.ReadAgainAfterDeadlineInsideRecord++
				} else {
					a.ReaderGaveUpAtDeadline++
				}
			}
		}
		cs := map[string]any{"config": res.Cfg, "class": res.Cfg.class(), "files": res.Files, "sender_returned": res.SendErr, "receiver_returned": res.RecvErr,
			"stopped_moving": hung, "link": obs}
		for _, f := range res.Findings {
			R.Violate(f.Key, "stalled delivery ("+res.Cfg.class()+"): "+f.What, cs, f.Detail)
		}
		if len(res.Findings) > 0 {
			continue
		}
		if !failed {
			if a.BothOK <= 2 {
				R.Sample(map[string]any{"config": res.Cfg, "files": res.Files, "link": obs, "result": "both sides completed; both recordings decode"})
			}
			continue
		}
		// the transfer did not complete although every byte was written in frame
		describe := func(r *c18WireResult) map[string]any {
			if r == nil {
				return nil
			}
			return map[string]any{"sender_returned": r.SendErr, "receiver_returned": r.RecvErr, "both_completed": r.BothOK, "stopped_moving": r.Watchdog || r.Idle, "setup": r.SetupErr, "link": r.Stall}
		}
		detail := map[string]any{"control_without_silences": describe(c.Control), "same_plan_again": describe(c.Again)}
		switch {
		case c.Control == nil || !c.Control.BothOK:
			R.Inconcl(fmt.Sprintf("reader-stall transfer %d (%s) did not complete (sender: %q, receiver: %q) and neither did its control without silences: not a matter of how the records were delivered", res.Cfg.Index, res.Cfg.class(), res.SendErr, res.RecvErr))
			continue
		case c.Again == nil || c.Again.SetupErr != "" || c.Again.BothOK:
			R.Inconcl(fmt.Sprintf("reader-stall transfer %d (%s) did not complete (sender: %q, receiver: %q), its control did, the same plan run again did too: not reproduced", res.Cfg.Index, res.Cfg.class(), res.SendErr, res.RecvErr))
			continue
		}
		var retry, split *c18StallHold
		for k := range obs.Holds {
			h := &obs.Holds[k]
			if !h.Mid || !h.ReaderStarved {
				continue
			}
			if h.Timeouts > 0 && h.ReadAgain && retry == nil {
				retry = h
			}
			if h.Timeouts == 0 && split == nil {
				split = h
			}
		}
		switch {
		case retry != nil:
			R.Violate(fmt.Sprintf("reader-stall/%s/%s/%s/retry-after-deadline", retry.Side, retry.Kind, retry.Where),
				fmt.Sprintf("the link went silent inside record #%d (%s, %s, stream offset %d, the record starts at %d) of the stream the %s; a read deadline the reader itself had set expired there (%d times), the reader came back for more bytes, "+
					"every byte was delivered in order and both recordings decode - and the transfer did not complete (sender: %q, receiver: %q); without silences the same transfer completes, with the same plan it fails again: "+
					"the reader loop does not decode the sequence that was written (it lost its place in the stream)", retry.Record, retry.Kind, retry.Where, retry.Offset, retry.RecordStart, strings.Replace(retry.Side, "-", " ", 1), retry.Timeouts, res.SendErr, res.RecvErr),
				cs, detail)
		case split != nil && !hung:
			R.Violate(fmt.Sprintf("reader-stall/%s/%s/%s/split-delivery", split.Side, split.Kind, split.Where),
				fmt.Sprintf("record #%d (%s) of the stream the %s arrived in two pieces (cut: %s, stream offset %d, the record starts at %d; the second piece was delivered once the reader had taken the first and waited), "+
					"every byte was delivered in order and both recordings decode - and a side returned an error (sender: %q, receiver: %q); delivered without the cut the same transfer completes, with the same plan it fails again",
					split.Record, split.Kind, strings.Replace(split.Side, "-", " ", 1), split.Where, split.Offset, split.RecordStart, res.SendErr, res.RecvErr),
				cs, detail)
		default:
			R.Inconcl(fmt.Sprintf("reader-stall transfer %d (%s) did not complete twice (sender: %q, receiver: %q, stopped moving: %v) while its control did, but no reader was seen to go on reading after a deadline inside a record: no verdict",
				res.Cfg.Index, res.Cfg.class(), res.SendErr, res.RecvErr, hung))
		}
	}
	R.SetExtra("transfers", a)
	R.SetExtra("planned_transfers", n)
	R.SetExtra("silences_by_class", classes)
	R.SetExtra("silences_inside_a_record_by_record_kind", kindsMid)
	R.SetExtra("link_totals", totals)
	R.SetExtra("hook_hits", verifhook.AllHits())

	explained := len(R.Violations) > 0
	R.Require(explained || a.Transfers >= n*9/10, fmt.Sprintf("only %d of %d reader-stall transfers ran", a.Transfers, n))
	R.Require(explained || a.BothOK >= n*8/10, fmt.Sprintf("only %d of %d reader-stall transfers completed on both sides", a.BothOK, n))
	for _, side := range []string{"sender-reads", "receiver-reads"} {
		R.Require(explained || midBySide[side] >= n, fmt.Sprintf("only %d silences inside a record of the stream the %s (the reader had taken every delivered byte and waited)", midBySide[side], side))
		for _, w := range c18StallWheres {
			got := whereBySide[side+"/"+w]
			if w == "at-write-split" {
				continue // whether a record is handed over in several Writes is the writer's business: reported only
			}
			R.Require(explained || got > 0, fmt.Sprintf("no silence at position %q of the stream the %s", w, side))
		}
	}
	for _, k := range []string{"sender-reads/" + kFileDone, "sender-reads/" + kResume, "receiver-reads/" + kHeader, "receiver-reads/" + kFileBegin} {
		R.Require(explained || kindsMid[k] > 0, "no silence inside a "+k+" record")
	}
}
