//go:build verif

package main

// C18, stage "shared-stream": SEVERAL WRITERS ON ONE STREAM.
//
// The codec stage encodes on one goroutine, the concurrent stage gives every
// session its own stream. The real sender does neither: the data workers
// (FileBegin when a file is activated, FileEnd when its last chunk is out) and
// the resume goroutines (ResumeRequest) all write to the ONE control stream of
// the transfer, and most records are emitted as several Write calls. Whether
// "a sequence of records decodes to the same sequence" then depends on the
// code around the encoders (SendManifestMultiStream), not on the encoders.
//
// This stage runs real multi-file, multi-worker transfers
// (SendManifestMultiStream -> RecvManifestMultiStream over the mock transport
// and over QUIC) with both connections wrapped: every byte that reaches a
// control stream is recorded in the order it reached the transport. Oracle,
// over the recording of the sender's control stream and the events of the
// run (Options.OnFileStart = "a FileBegin for this file is written next",
// hook send.fileEnd.before = "a FileEnd for this key is written next"):
//   * the recording decodes with readControlHeader / readControlMessage from the
//     first to the last byte (a record may be cut short only where a Write of
//     the control stream itself failed);
//   * header == the manifest handed to the sender, then DataStreams, then
//     exactly the FileBegin / FileEnd records the events announce (values
//     included), ResumeRequests only for begun files, End last iff the sender
//     returned nil; FileBegin(k) precedes ResumeRequest(k) and FileEnd(k).
// Same parse rule for the receiver's control stream (FileDone, FileResumeInfo).
//
// Schedules. A tracker (the repository's own decoder fed with the recorded
// bytes) tells the wrapper after every Write whether the stream is now inside a
// record. There the writer can be HELD (the Write call returns late, as on a
// congested stream), and a worker that is about to write a FileEnd is PARKED
// at send.fileEnd.before until such a hold begins. Both are bounded waits that
// only shape the schedule; the verdict comes from the recording. What was
// reached is counted on logical events (holds, holds during which a parked
// FileEnd writer was let go, foreign Write calls that arrived during a hold).

import (
	"context"
	"errors"
	"fmt"
	"hash/fnv"
	"io"
	"os"
	"path/filepath"
	"runtime"
	"sort"
	"strings"
	"sync"
	"sync/atomic"
	"time"

	"github.com/sheerbytes/sheerbytes/internal/transfer"
	"github.com/sheerbytes/sheerbytes/internal/verifhook"
	vk "github.com/sheerbytes/sheerbytes/internal/verifkit"
	"github.com/sheerbytes/sheerbytes/pkg/manifest"
)

func init() { register("c18wire", runC18Wire) }

const (
	c18WireWatchdog = 25 * time.Second
	c18WireIdle     = 6 * time.Second
	c18WireParkCap  = 30 * time.Millisecond
	c18WireSlack    = 2 * time.Millisecond
	c18WireAbort    = 6 // violating transfers after which no further transfer is started
)

// ---------------------------------------------------------------- tracker

// c18Tracker runs the repository's decoder over the bytes written so far; the
// decoder's Read blocks when it has consumed everything. boundary is the offset
// behind the last completely decoded record.
type c18Tracker struct {
	mu       sync.Mutex
	cond     *sync.Cond
	buf      []byte
	rd       int
	starved  bool
	boundary int
	records  int
	dead     bool
	closed   bool
}

type c18TrackerStream struct{ t *c18Tracker }

func (s c18TrackerStream) Write(p []byte) (int, error) {
	return 0, errors.New("harness: tracker is read-only")
}
func (s c18TrackerStream) Close() error { return nil }
func (s c18TrackerStream) Read(p []byte) (int, error) {
	t := s.t
	t.mu.Lock()
	defer t.mu.Unlock()
	for t.rd == len(t.buf) && !t.closed {
		t.starved = true
		t.cond.Broadcast()
		t.cond.Wait()
	}
	t.starved = false
	if t.rd == len(t.buf) {
		return 0, io.EOF
	}
	n := copy(p, t.buf[t.rd:])
	t.rd += n
	return n, nil
}

func newC18Tracker(header bool) *c18Tracker {
	t := &c18Tracker{}
	t.cond = sync.NewCond(&t.mu)
	go func() {
		defer func() {
			_ = recover() // a decoder that panics on what the sender wrote is the codec stage's finding
			t.mu.Lock()
			t.dead = true
			t.cond.Broadcast()
			t.mu.Unlock()
		}()
		s := c18TrackerStream{t}
		mark := func() {
			t.mu.Lock()
			t.boundary = t.rd
			t.records++
			t.mu.Unlock()
		}
		if header {
			if _, err := transfer.VerifC18ReadControlHeader(s); err != nil {
				return
			}
			mark()
		}
		for {
			if _, _, err := transfer.VerifC18ReadControlMessage(s); err != nil {
				return
			}
			mark()
		}
	}()
	return t
}

// feed hands p to the decoder, waits until it has taken all it can and reports
// whether the stream is now inside a record, whether p began at a record
// boundary and how many records are complete.
func (t *c18Tracker) feed(p []byte) (mid, fromBoundary bool, records int) {
	t.mu.Lock()
	defer t.mu.Unlock()
	fromBoundary = t.boundary == len(t.buf)
	t.buf = append(t.buf, p...)
	t.cond.Broadcast()
	for !t.dead && !(t.starved && t.rd == len(t.buf)) {
		t.cond.Wait()
	}
	return !t.dead && t.boundary != len(t.buf), fromBoundary, t.records
}

func (t *c18Tracker) isDead() bool {
	t.mu.Lock()
	defer t.mu.Unlock()
	return t.dead && !t.closed
}

func (t *c18Tracker) close() {
	t.mu.Lock()
	t.closed = true
	t.cond.Broadcast()
	t.mu.Unlock()
}

// ---------------------------------------------------------------- wrapped connection

type c18WireConn struct {
	transfer.Conn
	x    *c18WireXfer
	side string
	mu   sync.Mutex
	n    int
	all  []transfer.Stream
}

// kill closes every stream of the connection (the mock transport's Close leaves open streams alone,
// a reader blocked in one of them would never return).
func (c *c18WireConn) kill() {
	c.mu.Lock()
	all := append([]transfer.Stream(nil), c.all...)
	c.mu.Unlock()
	for _, s := range all {
		_ = s.Close()
	}
	_ = c.Conn.Close()
}

func (c *c18WireConn) wrap(s transfer.Stream) transfer.Stream {
	c.mu.Lock()
	first := c.n == 0
	c.n++
	c.all = append(c.all, s)
	c.mu.Unlock()
	if !first {
		return s // data streams are left alone
	}
	ws := &c18WireStream{inner: s, x: c.x, side: c.side, failOff: -1}
	if c.side == "send" {
		ws.tr = newC18Tracker(true)
		c.x.sendTr.Store(ws.tr)
		c.x.sendCtl = ws
	} else {
		c.x.recvCtl = ws
	}
	if c.x.cfg.Stall != nil {
		return newC18StallLink(c.x, c.side, ws)
	}
	return ws
}

func (c *c18WireConn) OpenStream(ctx context.Context) (transfer.Stream, error) {
	s, err := c.Conn.OpenStream(ctx)
	if err != nil {
		return nil, err
	}
	return c.wrap(s), nil
}

func (c *c18WireConn) AcceptStream(ctx context.Context) (transfer.Stream, error) {
	s, err := c.Conn.AcceptStream(ctx)
	if err != nil {
		return nil, err
	}
	return c.wrap(s), nil
}

// c18WireStream is a control stream: Write forwards and records under one lock,
// so the recording is the order in which the bytes reached the transport.
type c18WireStream struct {
	inner transfer.Stream
	x     *c18WireXfer
	side  string
	tr    *c18Tracker

	arrivals atomic.Int64 // Write calls that have entered

	mu      sync.Mutex
	wire    []byte
	calls   int
	failOff int // offset at which the first failed / short Write began; -1 = none
	failErr string
	mids    int // Write calls (behind header and DataStreams) that left the stream inside a record
	splits  int // ... of them the ones that began at a record boundary: records the code under test wrote in several Writes
}

func (s *c18WireStream) Read(p []byte) (int, error) { return s.inner.Read(p) }
func (s *c18WireStream) Close() error {
	if s.tr != nil {
		s.tr.close()
	}
	return s.inner.Close()
}
func (s *c18WireStream) StreamID() uint64 {
	if ider, ok := s.inner.(transfer.StreamIDer); ok {
		return ider.StreamID()
	}
	return 0
}

func (s *c18WireStream) Write(p []byte) (int, error) {
	seq := s.arrivals.Add(1)
	s.x.touch()
	s.mu.Lock()
	off := len(s.wire)
	n, err := s.inner.Write(p)
	if n > 0 {
		s.wire = append(s.wire, p[:n]...)
	}
	s.calls++
	if (err != nil || n < len(p)) && s.failOff < 0 {
		s.failOff = off
		s.failErr = fmt.Sprint(err)
	}
	hold := false
	if s.tr != nil && n > 0 {
		mid, fromBoundary, records := s.tr.feed(p[:n])
		if err == nil && mid && records >= 2 { // header and DataStreams are written before there is a second writer
			s.mids++
			if fromBoundary {
				s.splits++
			}
			switch s.x.cfg.Hold {
			case "first":
				hold = fromBoundary
			case "every-2":
				hold = s.mids%2 == 0
			case "every-3":
				hold = s.mids%3 == 0
			case "all":
				hold = true
			}
		}
	}
	s.mu.Unlock()
	if hold {
		s.x.hold(s, seq)
	}
	return n, err
}

func (s *c18WireStream) snapshot() (wire []byte, failOff int, failErr string, calls int) {
	s.mu.Lock()
	defer s.mu.Unlock()
	return append([]byte(nil), s.wire...), s.failOff, s.failErr, s.calls
}

func (s *c18WireStream) writePattern() (mids, splits int) {
	s.mu.Lock()
	defer s.mu.Unlock()
	return s.mids, s.splits
}

// ---------------------------------------------------------------- one transfer

type c18WireCfg struct {
	Index     int           `json:"index"`
	Transport string        `json:"transport"`
	P         int           `json:"parallel_files"`
	Files     int           `json:"files"`
	ChunkSize uint32        `json:"chunk_size"`
	Resume    bool          `json:"resume"`
	SmallThr  int64         `json:"small_threshold"` // 0 = the default (4 MiB: small files are activated one at a time)
	Hold      string        `json:"hold"`            // none | first | every-2 | every-3 | all
	ShortUs   int           `json:"short_hold_us"`
	Park      bool          `json:"park_fileend_writers"`
	Large     bool          `json:"large_fields"`    // paths of 511..1024 bytes, a file of more than 4088 chunks (bitmap >= 512 bytes)
	Partial   bool          `json:"partial_sidecar"` // large_fields: the many-chunk file is resumed from a partial sidecar in the output directory
	NoLong    bool          `json:"no_long_paths"`   // large_fields: only the many-chunk file (what the receiver writes is judged behind a sender stream without large fields)
	Seed      uint64        `json:"seed"`
	Stall     *c18StallSpec `json:"stalled_delivery,omitempty"` // stage reader-stall (c18stall.go): what each side READS arrives through a buffering, deadline-capable link that goes silent inside records
}

func (c c18WireCfg) class() string {
	thr := "default-threshold"
	if c.SmallThr > 0 {
		thr = "all-files-parallel"
	}
	res := "fresh"
	if c.Resume {
		res = "resume"
	}
	cl := fmt.Sprintf("%s/P%d/%s/%s/hold=%s/park=%v", c.Transport, c.P, thr, res, c.Hold, c.Park)
	if c.Large {
		cl += "/large-fields"
		if c.Partial {
			cl += "/partial-sidecar"
		}
		if c.NoLong {
			cl += "/bitmap-only"
		}
	}
	return cl
}

type c18WireBegin struct {
	Rel  string
	Size int64
	CS   uint32
}

type c18WireXfer struct {
	cfg        c18WireCfg
	m          manifest.Manifest
	totalFiles int
	keys       map[uint64]manifest.FileItem
	sendCtl    *c18WireStream
	recvCtl    *c18WireStream
	sendLink   *c18StallLink // stage reader-stall: the link through which the sender / the receiver reads its control stream
	recvLink   *c18StallLink
	sendTr     atomic.Pointer[c18Tracker]
	done       chan struct{}
	partKey    uint64       // large_fields + partial_sidecar: key of the file resumed from a sidecar the harness wrote ...
	partBitmap []byte       // ... and the bitmap of that sidecar
	partLoaded atomic.Int64 // chunks the receiver found marked when it built the first FileResumeInfo of that file (Options.ResumeStatsFn); -1 = not announced

	mu        sync.Mutex
	begins    []c18WireBegin
	fileEnds  []uint64
	parked    int
	holdStart chan struct{}
	maxActive int

	last   atomic.Int64 // unix nanos of the last control Write / FileBegin / FileEnd event / chunk sent or stored
	dueSeq atomic.Int64 // FileEnd writers that have left the hook after having been parked

	holds, holdsDue, holdsForeign, parks, parksByHold, parksCap atomic.Int64
}

var c18WireByKey sync.Map // file key -> *c18WireXfer (the hooks are process-wide)

func (x *c18WireXfer) touch() { x.last.Store(time.Now().UnixNano()) }

// c18WireOnChunk (send.chunk.afterFrame, recv.chunk.afterMark): progress of the transfer the key belongs to.
func c18WireOnChunk(ev verifhook.Event) {
	if v, ok := c18WireByKey.Load(ev.A); ok {
		v.(*c18WireXfer).touch()
	}
}

func (x *c18WireXfer) onFileStart(rel string, size int64, p transfer.RuntimeParams) {
	cs := p.ChunkSize
	if cs == 0 {
		cs = transfer.DefaultChunkSize
	}
	x.touch()
	x.mu.Lock()
	x.begins = append(x.begins, c18WireBegin{rel, size, cs})
	if a := len(x.begins) - len(x.fileEnds); a > x.maxActive {
		x.maxActive = a
	}
	x.mu.Unlock()
}

// c18WireOnFileEnd is the callback of send.fileEnd.before: the calling worker writes a FileEnd next.
func c18WireOnFileEnd(ev verifhook.Event) {
	v, ok := c18WireByKey.Load(ev.A)
	if !ok {
		return
	}
	x := v.(*c18WireXfer)
	x.touch()
	x.mu.Lock()
	active := len(x.begins) - len(x.fileEnds) // files begun whose FileEnd is not due yet, this one included
	x.fileEnds = append(x.fileEnds, ev.A)
	// park only while a further FileBegin can come: files are left, and another file is still running whose end frees a slot
	park := x.cfg.Park && x.parked == 0 && len(x.begins) < x.totalFiles && active >= 2
	var ch chan struct{}
	if park {
		x.parked++
		ch = x.holdStart
	}
	x.mu.Unlock()
	if !park {
		return
	}
	x.parks.Add(1)
	t := time.NewTimer(c18WireParkCap)
	select {
	case <-ch:
		x.parksByHold.Add(1)
	case <-t.C:
		x.parksCap.Add(1)
	case <-x.done:
	}
	t.Stop()
	x.mu.Lock()
	x.parked--
	x.mu.Unlock()
	x.dueSeq.Add(1)
}

// hold keeps the writer of a half-written record inside its Write call: parked FileEnd writers are let
// go first; the hold ends when another Write call arrives on the stream or the bounded wait is over.
func (x *c18WireXfer) hold(s *c18WireStream, seq int64) {
	x.holds.Add(1)
	due0 := x.dueSeq.Load()
	x.mu.Lock()
	released := x.parked
	close(x.holdStart)
	x.holdStart = make(chan struct{})
	x.mu.Unlock()
	foreign := func() bool { return s.arrivals.Load() != seq }
	if released > 0 {
		x.holdsDue.Add(1)
		// until the released writer has left the hook (logical), bounded
		for lim := time.Now().Add(20 * time.Millisecond); x.dueSeq.Load() < due0+int64(released) && time.Now().Before(lim) && !foreign(); {
			runtime.Gosched()
			time.Sleep(20 * time.Microsecond)
		}
	}
	wait := time.Duration(x.cfg.ShortUs) * time.Microsecond
	if released > 0 && wait < c18WireSlack {
		wait = c18WireSlack
	}
	for lim := time.Now().Add(wait); time.Now().Before(lim) && !foreign(); {
		runtime.Gosched()
		time.Sleep(20 * time.Microsecond)
	}
	if foreign() {
		x.holdsForeign.Add(1)
	}
}

type c18WireFinding struct {
	Key    string
	What   string
	Detail map[string]any
}

type c18WireResult struct {
	Cfg          c18WireCfg
	SetupErr     string
	SendErr      string
	RecvErr      string
	BothOK       bool
	Watchdog     bool
	Stopped      bool // cancelled because enough other transfers had produced findings
	Idle         bool // cancelled because no control byte, record event or chunk moved for c18WireIdle
	CutShort     bool // cancelled by the harness a few seconds after the sender's stream had gone out of frame
	Findings     []c18WireFinding
	Kinds        map[string]int // records decoded from the two recordings, by kind
	OrderSig     string
	SendBytes    int
	SendCalls    int
	Holds        int64
	HoldsDue     int64
	HoldsForeign int64
	Parks        int64
	ParksByHold  int64
	ParksCap     int64
	MaxActive    int
	Files        int
	Mids         int          // Writes of the sender's stream that ended inside a record
	Splits       int          // records of the sender's stream written in several Writes
	Stall        *c18StallObs // stage reader-stall: what the two links did and saw
}

func c18WireGenCfg(tier string, seed uint64, i int) c18WireCfg {
	r := vk.NewRng(seed ^ vk.HashStr("c18wire"+tier) ^ vk.Mix(uint64(i)+0x3177))
	c := c18WireCfg{Index: i, Transport: "mock", Seed: r.U64()}
	if i%8 == 5 {
		c.Transport = "quic"
	}
	c.P = []int{2, 3, 4, 4, 8}[r.Intn(5)]
	c.Files = 8 + r.Intn(17)
	c.ChunkSize = []uint32{1024, 4096, 16384}[r.Intn(3)]
	c.Resume = r.Intn(3) != 0
	c.SmallThr = 1
	if i%6 == 3 { // the default thresholds: a few files above 4 MiB run beside the small ones
		c.SmallThr = 0
		c.ChunkSize = 1 << 20
		c.Files = 8 + r.Intn(5)
		c.P = []int{4, 8}[r.Intn(2)]
	}
	c.Hold = []string{"first", "first", "all", "every-2", "every-3", "none"}[r.Intn(6)]
	c.ShortUs = []int{100, 300, 1000}[r.Intn(3)]
	c.Park = r.Intn(5) != 0
	if i%8 == 1 || i%16 == 13 { // large fields (mock; i%16 == 13 over QUIC): long paths, a resume bitmap of 512 bytes and more
		c.Large = true
		c.Partial = r.Intn(3) != 0
		c.NoLong = i%3 == 0
		c.Resume = true
		c.SmallThr = 1
		c.ChunkSize = 16
		c.Files = 5 + r.Intn(6)
		if c.P > 4 {
			c.P = 4
		}
	}
	return c
}

// c18WireMakeTree writes the source tree; every name carries the case index so that file keys
// (hash of the item id = path|size|mtime) of transfers running at the same time differ.
func c18WireMakeTree(cfg c18WireCfg, root string) error {
	r := vk.NewRng(cfg.Seed)
	cs := int64(cfg.ChunkSize)
	if err := os.MkdirAll(filepath.Join(root, "sub"), 0755); err != nil {
		return err
	}
	if err := os.MkdirAll(filepath.Join(root, "empty-dir"), 0755); err != nil {
		return err
	}
	big := 0
	for f := 0; f < cfg.Files; f++ {
		var size int64
		if cfg.SmallThr == 0 {
			if big < 3 && (f%3 == 0) {
				size = 4<<20 + int64(r.Intn(3))*cs + int64(r.Intn(1000))
				big++
			} else {
				size = int64(r.Intn(200000))
			}
		} else {
			switch r.Intn(9) {
			case 0:
				size = 0
			case 1:
				size = 1
			case 2:
				size = cs - 1
			case 3:
				size = cs
			case 4:
				size = cs + 1
			case 5:
				size = 2 * cs
			default:
				size = int64(1+r.Intn(6))*cs + int64(r.Intn(int(cs)))
			}
		}
		name := fmt.Sprintf("w%d-f%02d-%x.bin", cfg.Index, f, r.U64()&0xffff)
		if f%4 == 1 {
			name = filepath.Join("sub", name)
		}
		buf := make([]byte, size)
		vk.FillContent(cfg.Seed, name, 0, buf)
		if err := os.WriteFile(filepath.Join(root, name), buf, 0644); err != nil {
			return err
		}
	}
	if !cfg.Large {
		return nil
	}
	// large fields. Paths around the sizes at which a writer may treat a field differently (511, 512), the
	// longest legal path (1024) and one in between; a file of more than 4088 chunks, whose resume bitmap
	// has 512 bytes or more.
	for k, L := range []int{511, 512, 1024, 600 + r.Intn(401)} {
		if cfg.NoLong {
			break
		}
		rel := c18WireLongRel(cfg.Index, L, k)
		full := filepath.Join(root, filepath.FromSlash(rel))
		if err := os.MkdirAll(filepath.Dir(full), 0755); err != nil {
			return err
		}
		buf := make([]byte, r.Intn(5*int(cs)))
		vk.FillContent(cfg.Seed, rel, 0, buf)
		if err := os.WriteFile(full, buf, 0644); err != nil {
			return err
		}
	}
	chunks := []int{4089, 4100 + r.Intn(200), 8200 + r.Intn(100)}[r.Intn(3)]
	buf := make([]byte, int64(chunks-1)*cs+1+int64(r.Intn(int(cs))))
	name := c18WireManyChunksName(cfg.Index)
	vk.FillContent(cfg.Seed, name, 0, buf)
	return os.WriteFile(filepath.Join(root, name), buf, 0644)
}

func c18WireManyChunksName(index int) string { return fmt.Sprintf("w%d-manychunks.bin", index) }

// c18WireLongRel: a relative path of exactly L bytes (directories of up to 200 bytes, the leaf carries the case index).
func c18WireLongRel(index, L, k int) string {
	leaf := fmt.Sprintf("w%d-long%d-%d.bin", index, k, L)
	budget := L - len(leaf) // directories, each followed by a slash
	var parts []string
	for budget > 0 {
		n := budget - 1
		if n > 200 {
			n = 200
		}
		if budget-(n+1) == 1 {
			n--
		}
		parts = append(parts, strings.Repeat(string(rune('d'+k)), n))
		budget -= n + 1
	}
	return strings.Join(append(parts, leaf), "/")
}

// c18WirePartialSidecar puts the many-chunk file and a sidecar with about half of its chunks marked into the
// output directory: the receiver's FileResumeInfo then carries a large bitmap with content. Returns the marked bitmap.
func c18WirePartialSidecar(cfg c18WireCfg, m manifest.Manifest, src, out string) (key uint64, bitmap []byte, err error) {
	r := vk.NewRng(cfg.Seed ^ 0x51dec4)
	for _, it := range m.Items {
		if it.IsDir || it.RelPath != c18WireManyChunksName(cfg.Index) {
			continue
		}
		base := filepath.Join(out, m.Root)
		data, rerr := os.ReadFile(filepath.Join(src, it.RelPath))
		if rerr != nil {
			return 0, nil, rerr
		}
		if err = os.MkdirAll(base, 0755); err != nil {
			return 0, nil, err
		}
		if err = os.WriteFile(filepath.Join(base, it.RelPath), data, 0644); err != nil {
			return 0, nil, err
		}
		sc, cerr := transfer.CreateSidecar(transfer.SidecarPath(base, "", transfer.VerifC19SidecarID(it)), it.ID, it.Size, cfg.ChunkSize)
		if cerr != nil {
			return 0, nil, cerr
		}
		total := transfer.VerifC19ChunkTotal(it.Size, cfg.ChunkSize)
		for i := uint32(0); i < total; i++ {
			if r.Intn(2) == 0 {
				sc.MarkComplete(i)
			}
		}
		if err = sc.Flush(); err != nil {
			return 0, nil, err
		}
		return transfer.VerifC19FileKey(it), sc.MarshalBitmap(), nil
	}
	return 0, nil, errors.New("the many-chunk file is not in the manifest")
}

// c18WireStop is closed once c18WireAbort transfers have produced findings: the transfers still running are
// cancelled (their recordings are still judged; an unfinished one is then not an inconclusive case).
var (
	c18WireStop     = make(chan struct{})
	c18WireStopOnce sync.Once
)

func c18WireRun(work string, cfg c18WireCfg, lp *vk.ListenerPool) *c18WireResult {
	res := &c18WireResult{Cfg: cfg, Kinds: map[string]int{}}
	dir := filepath.Join(work, fmt.Sprintf("w%04d", cfg.Index))
	src := filepath.Join(dir, fmt.Sprintf("tree%d", cfg.Index))
	out := filepath.Join(dir, "out")
	defer os.RemoveAll(dir)
	defer transfer.VerifRetireSidecars(out) // the receiver's sidecars leave the process-wide flush registry before the directory goes
	if err := os.MkdirAll(out, 0755); err != nil {
		res.SetupErr = err.Error()
		return res
	}
	if err := c18WireMakeTree(cfg, src); err != nil {
		res.SetupErr = err.Error()
		return res
	}
	m, err := manifest.Scan(src)
	if err != nil {
		res.SetupErr = "scan: " + err.Error()
		return res
	}
	x := &c18WireXfer{cfg: cfg, m: m, keys: map[uint64]manifest.FileItem{}, done: make(chan struct{}), holdStart: make(chan struct{})}
	for _, it := range m.Items {
		if it.IsDir {
			continue
		}
		k := transfer.VerifC19FileKey(it)
		if _, dup := x.keys[k]; dup {
			res.SetupErr = "two files of the tree have the same key"
			return res
		}
		x.keys[k] = it
		x.totalFiles++
	}
	res.Files = x.totalFiles
	for k := range x.keys {
		if _, loaded := c18WireByKey.LoadOrStore(k, x); loaded {
			res.SetupErr = "file key already in use by a transfer running at the same time"
		}
	}
	defer func() {
		for k := range x.keys {
			c18WireByKey.CompareAndDelete(k, x)
		}
	}()
	if res.SetupErr != "" {
		return res
	}
	if cfg.Large && cfg.Partial {
		if x.partKey, x.partBitmap, err = c18WirePartialSidecar(cfg, m, src, out); err != nil {
			res.SetupErr = "partial sidecar: " + err.Error()
			return res
		}
	}

	ctx, cancel := context.WithCancel(context.Background())
	defer cancel()
	var sc, rc transfer.Conn
	switch cfg.Transport {
	case "mock":
		t1, t2 := transfer.NewMockPair()
		if sc, err = t1.Dial(ctx, "peer2"); err == nil {
			rc, err = t2.Accept(ctx)
		}
		if err != nil {
			res.SetupErr = "mock pair: " + err.Error()
			return res
		}
	case "quic":
		l := lp.Get()
		defer lp.Put(l)
		p, perr := l.NewPair(ctx)
		if perr != nil {
			res.SetupErr = "quic pair: " + perr.Error()
			return res
		}
		defer p.Close()
		sc, rc = p.Dial, p.Accept
	}
	wsc := &c18WireConn{Conn: sc, x: x, side: "send"}
	wrc := &c18WireConn{Conn: rc, x: x, side: "recv"}

	cs, streams := cfg.ChunkSize, cfg.P
	sopts := transfer.Options{ChunkSize: cs, ParallelFiles: streams, Resume: cfg.Resume, HashAlg: "crc32c", SmallThreshold: cfg.SmallThr,
		OnFileStart: x.onFileStart,
		ParamSource: func() transfer.RuntimeParams { return transfer.RuntimeParams{ChunkSize: cs, ParallelFiles: streams} }}
	ropts := transfer.Options{Resume: cfg.Resume, HashAlg: "crc32c", ParallelFiles: streams}
	x.partLoaded.Store(-1)
	if x.partBitmap != nil {
		many := c18WireManyChunksName(cfg.Index)
		ropts.ResumeStatsFn = func(rel string, skipped, total, verified uint32, size int64, chunkSize uint32) {
			if rel == many {
				x.partLoaded.CompareAndSwap(-1, int64(skipped))
			}
		}
	}

	x.touch()
	var sendErr, recvErr error
	sdone, rdone := make(chan struct{}), make(chan struct{})
	go func() {
		sendErr = transfer.SendManifestMultiStream(ctx, wsc, src, m, sopts)
		_ = sc.Close() // the application closes the connection when its transfer function returns
		close(sdone)
	}()
	go func() {
		_, recvErr = transfer.RecvManifestMultiStream(ctx, wrc, out, ropts)
		_ = rc.Close()
		close(rdone)
	}()
	wd := time.NewTimer(c18WireWatchdog)
	tick := time.NewTicker(250 * time.Millisecond)
	defer tick.Stop()
	deadTicks := 0
	stop := c18WireStop
	sd, rd := sdone, rdone
	for sd != nil || rd != nil {
		select {
		case <-sd:
			sd = nil
		case <-rd:
			rd = nil
		case <-stop:
			stop = nil
			res.Stopped = true
			cancel()
			wsc.kill()
			wrc.kill()
		case <-tick.C:
			if !res.Idle && !res.CutShort && !res.Stopped && time.Since(time.Unix(0, x.last.Load())) > c18WireIdle {
				res.Idle = true // nothing moved for a while: no reason to wait for the long watchdog
				cancel()
				wsc.kill()
				wrc.kill()
			}
			// the repository's decoder has rejected the sender's stream: the recording already holds the finding,
			// the two sides are not waited for longer than a few seconds
			if tr := x.sendTr.Load(); tr != nil && tr.isDead() {
				if deadTicks++; deadTicks == 12 {
					res.CutShort = true
					cancel()
					wsc.kill()
					wrc.kill()
				}
			}
		case <-wd.C:
			res.Watchdog = true
			if os.Getenv("C18WIRE_DUMP") != "" {
				buf := make([]byte, 4<<20)
				buf = buf[:runtime.Stack(buf, true)]
				_ = os.WriteFile(fmt.Sprintf("/tmp/c18wire-dump-%d.txt", cfg.Index), buf, 0644)
			}
			cancel()
			wsc.kill()
			wrc.kill()
			for _, ch := range []chan struct{}{sdone, rdone} {
				select {
				case <-ch:
				case <-time.After(5 * time.Second):
				}
			}
			sd, rd = nil, nil
		}
	}
	wd.Stop()
	close(x.done)
	select { // both have returned unless the watchdog gave up on them
	case <-sdone:
	default:
		res.SendErr = "did not return"
	}
	select {
	case <-rdone:
	default:
		res.RecvErr = "did not return"
	}
	if res.SendErr == "" && sendErr != nil {
		res.SendErr = sendErr.Error()
	}
	if res.RecvErr == "" && recvErr != nil {
		res.RecvErr = recvErr.Error()
	}
	res.BothOK = !res.Watchdog && !res.Idle && res.SendErr == "" && res.RecvErr == ""
	if res.Stopped || res.CutShort {
		res.Watchdog, res.Idle = false, false
	}
	res.Holds, res.HoldsDue, res.HoldsForeign = x.holds.Load(), x.holdsDue.Load(), x.holdsForeign.Load()
	res.Parks, res.ParksByHold, res.ParksCap = x.parks.Load(), x.parksByHold.Load(), x.parksCap.Load()
	x.mu.Lock()
	res.MaxActive = x.maxActive
	x.mu.Unlock()
	if x.sendCtl == nil {
		if res.SetupErr == "" && res.SendErr == "" {
			res.SetupErr = "the sender never opened a control stream"
		}
		return res
	}
	c18WireJudge(x, res)
	if cfg.Stall != nil {
		res.Stall = c18StallCollect(x)
	}
	return res
}

// ---------------------------------------------------------------- the oracle

type c18WireRec struct {
	Typ byte
	V   any
	Off int
	End int
}

func c18WireIsEOF(err error) bool {
	return errors.Is(err, io.EOF) || errors.Is(err, io.ErrUnexpectedEOF)
}

// c18WireDecode decodes a recording. tornOK: a Write of the stream failed at failOff, so the record that
// was being written there may be cut short (only the bytes before failOff are judged).
func c18WireDecode(wire []byte, failOff int, header bool, m *manifest.Manifest) (recs []c18WireRec, hdrOK bool, f *c18WireFinding) {
	judged := wire
	if failOff >= 0 && failOff < len(wire) {
		judged = wire[:failOff]
	}
	st := &c18Stream{buf: judged}
	torn := func(err error) bool { return failOff >= 0 && st.left() == 0 && c18WireIsEOF(err) }
	det := func(off int) map[string]any {
		lo := off - 24
		if lo < 0 {
			lo = 0
		}
		hi := off + 40
		if hi > len(judged) {
			hi = len(judged)
		}
		return map[string]any{"offset": off, "recorded_bytes": len(wire), "a_write_of_this_stream_failed_at_offset": failOff,
			"bytes_before_offset_hex": fmt.Sprintf("%x", judged[lo:off]), "bytes_from_offset_hex": fmt.Sprintf("%x", judged[off:hi])}
	}
	if header {
		got, err := transfer.VerifC18ReadControlHeader(st)
		if err != nil {
			if torn(err) {
				return nil, false, nil
			}
			return nil, false, &c18WireFinding{"header", fmt.Sprintf("the header at the start of the recorded control stream does not decode: %v", err), det(0)}
		}
		if m != nil && !c18Equal(*m, got) {
			return nil, false, &c18WireFinding{"header", "the header on the control stream decodes to a manifest other than the one handed to the sender", det(0)}
		}
		hdrOK = true
	}
	for st.left() > 0 {
		off := st.rd
		typ, v, err := transfer.VerifC18ReadControlMessage(st)
		if err != nil {
			if torn(err) {
				return recs, hdrOK, nil
			}
			d := det(off)
			d["records_decoded_before"] = len(recs)
			if n := len(recs); n > 0 {
				d["previous_record_type"] = fmt.Sprintf("0x%02x", recs[n-1].Typ)
			}
			return recs, hdrOK, &c18WireFinding{"decode", fmt.Sprintf("record #%d of the recorded control stream (offset %d, first byte 0x%02x) does not decode: %v "+
				"(no Write of this stream had failed before that offset: every record the writers began was written completely, so the bytes of two records are interleaved or a record is malformed)",
				len(recs), off, judged[off], err), d}
		}
		recs = append(recs, c18WireRec{typ, v, off, st.rd})
	}
	return recs, hdrOK, nil
}

const (
	c18WireLargePath          = "large/FileBegin.path>=512"
	c18WireLargePathMax       = "large/FileBegin.path=1024"
	c18WireLargeBitmap        = "large/recv/FileResumeInfo.bitmap>=512"
	c18WireLargeBitmapPartial = "large/recv/FileResumeInfo.bitmap>=512/from-partial-sidecar"
)

func c18WirePopcount(b []byte) (n int) {
	for _, v := range b {
		for ; v != 0; v &= v - 1 {
			n++
		}
	}
	return n
}

func c18WireKindName(t byte) string {
	for _, k := range c18Kinds {
		if k != kHeader && c18TypeByte(k) == t {
			return k
		}
	}
	return fmt.Sprintf("type-0x%02x", t)
}

func c18WireJudge(x *c18WireXfer, res *c18WireResult) {
	add := func(side string, f *c18WireFinding) {
		if f == nil {
			return
		}
		f.Key = "shared-stream/" + side + ":" + f.Key
		res.Findings = append(res.Findings, *f)
	}
	// a goroutine of the sender that outlives its return (resume request) may be between two Writes of a record;
	// its next Write fails on the closed stream. Give that failure the chance to be recorded.
	wire, failOff, failErr, calls := x.sendCtl.snapshot()
	res.SendBytes, res.SendCalls = len(wire), calls
	res.Mids, res.Splits = x.sendCtl.writePattern()
	recs, hdrOK, f := c18WireDecode(wire, failOff, true, &x.m)
	if f != nil && failOff < 0 && res.SendErr != "" {
		for i := 0; i < 40 && failOff < 0; i++ {
			time.Sleep(5 * time.Millisecond)
			wire, failOff, failErr, calls = x.sendCtl.snapshot()
		}
		recs, hdrOK, f = c18WireDecode(wire, failOff, true, &x.m)
	}
	if f != nil {
		f.Detail["first_failed_write_error"] = failErr
		f.Detail["sender_returned"] = res.SendErr
		f.Detail["receiver_returned"] = res.RecvErr
	}
	add("sender", f)
	if hdrOK {
		res.Kinds[kHeader]++
	}
	var sig []string
	for _, rc := range recs {
		res.Kinds[c18WireKindName(rc.Typ)]++
		sig = append(sig, fmt.Sprintf("%02x", rc.Typ))
		if fb, ok := rc.V.(transfer.FileBegin); ok {
			switch n := len(fb.RelPath); {
			case n == 1024:
				res.Kinds[c18WireLargePathMax]++
				fallthrough
			case n >= 512:
				res.Kinds[c18WireLargePath]++
			}
		}
	}
	h := fnv.New64a()
	h.Write([]byte(strings.Join(sig, "")))
	res.OrderSig = fmt.Sprintf("%016x", h.Sum64())

	if f == nil && hdrOK {
		add("sender", c18WireCompare(x, res, recs, failOff))
	}

	// the receiver's control stream: FileDone and FileResumeInfo, written while the sender's records arrive
	if x.recvCtl != nil {
		rw, rfail, rferr, _ := x.recvCtl.snapshot()
		rrecs, _, rf := c18WireDecode(rw, rfail, false, nil)
		if rf != nil {
			rf.Detail["first_failed_write_error"] = rferr
		}
		add("receiver", rf)
		for _, rc := range rrecs {
			res.Kinds["recv/"+c18WireKindName(rc.Typ)]++
			switch v := rc.V.(type) {
			case transfer.FileDone:
				if _, ok := x.keys[v.StreamID]; !ok && rf == nil {
					add("receiver", &c18WireFinding{"records", fmt.Sprintf("the receiver's control stream carries a FileDone for key %d, which no file of the manifest has", v.StreamID), map[string]any{"offset": rc.Off}})
					rf = &c18WireFinding{}
				}
			case transfer.FileResumeInfo:
				if len(v.Bitmap) >= 512 {
					res.Kinds[c18WireLargeBitmap]++
					// the receiver announced that it loaded the harness's sidecar (all of its marks) before it encoded the record
					if v.StreamID == x.partKey && x.partBitmap != nil && x.partLoaded.Load() == int64(c18WirePopcount(x.partBitmap)) {
						res.Kinds[c18WireLargeBitmapPartial]++
						// chunks are only ever added: what the receiver encoded holds at least the bits of the sidecar it loaded
						same := len(v.Bitmap) == len(x.partBitmap)
						for i := 0; same && i < len(v.Bitmap); i++ {
							same = v.Bitmap[i]&x.partBitmap[i] == x.partBitmap[i]
						}
						if !same && rf == nil {
							add("receiver", &c18WireFinding{"records", fmt.Sprintf("the FileResumeInfo of the file resumed from a partial sidecar decodes to a bitmap (%d bytes) that does not hold the chunks of that sidecar (%d bytes)",
								len(v.Bitmap), len(x.partBitmap)), map[string]any{"offset": rc.Off, "total_chunks": v.TotalChunks}})
							rf = &c18WireFinding{}
						}
					}
				}
				if _, ok := x.keys[v.StreamID]; !ok && rf == nil {
					add("receiver", &c18WireFinding{"records", fmt.Sprintf("the receiver's control stream carries a FileResumeInfo for key %d, which no file of the manifest has", v.StreamID), map[string]any{"offset": rc.Off}})
					rf = &c18WireFinding{}
				}
			default:
				if rf == nil {
					add("receiver", &c18WireFinding{"records", fmt.Sprintf("the receiver's control stream carries a record of type 0x%02x, which the receiver never writes", rc.Typ), map[string]any{"offset": rc.Off}})
					rf = &c18WireFinding{}
				}
			}
		}
	}
}

// c18WireCompare: the decoded records of the sender's stream against the events of the run.
func c18WireCompare(x *c18WireXfer, res *c18WireResult, recs []c18WireRec, failOff int) *c18WireFinding {
	x.mu.Lock()
	begins := append([]c18WireBegin(nil), x.begins...)
	ends := append([]uint64(nil), x.fileEnds...)
	x.mu.Unlock()
	bad := func(what string, rc *c18WireRec) *c18WireFinding {
		d := map[string]any{"events_filebegin": len(begins), "events_fileend": len(ends), "records_decoded": len(recs), "sender_returned": res.SendErr,
			"a_write_of_this_stream_failed_at_offset": failOff}
		if rc != nil {
			d["offset"] = rc.Off
			d["record"] = c18Describe(c18Rec{Kind: c18WireKindName(rc.Typ), Class: "decoded", V: rc.V})
		}
		return &c18WireFinding{"records", what, d}
	}
	if len(recs) == 0 {
		if failOff < 0 && len(begins) > 0 {
			return bad("the events announce FileBegin records, the recorded stream holds none", nil)
		}
		return nil
	}
	if ds, ok := recs[0].V.(transfer.DataStreams); !ok || int(ds.Count) != x.cfg.P {
		return bad(fmt.Sprintf("the first record behind the header is not DataStreams{%d}", x.cfg.P), &recs[0])
	}
	wantBegin := map[string][]c18WireBegin{}
	for _, b := range begins {
		wantBegin[b.Rel] = append(wantBegin[b.Rel], b)
	}
	wantEnd := map[uint64]int{}
	for _, k := range ends {
		wantEnd[k]++
	}
	byRel := map[string]manifest.FileItem{}
	for _, it := range x.keys {
		byRel[it.RelPath] = it
	}
	beginOff := map[uint64]int{}
	gotBegin, gotEnd, gotReq := 0, 0, map[uint64]int{}
	for i := 1; i < len(recs); i++ {
		rc := &recs[i]
		switch v := rc.V.(type) {
		case transfer.FileBegin:
			it, ok := byRel[v.RelPath]
			if !ok {
				return bad("a FileBegin on the stream names a path the manifest does not have", rc)
			}
			w := wantBegin[v.RelPath]
			if len(w) == 0 {
				return bad("the stream holds more FileBegin records for this path than the sender announced (OnFileStart)", rc)
			}
			wantBegin[v.RelPath] = w[1:]
			key := transfer.VerifC19FileKey(it)
			if v.FileSize != uint64(it.Size) || v.StreamID != key || v.ChunkSize != w[0].CS {
				return bad(fmt.Sprintf("a FileBegin on the stream differs from the value the sender encoded (size %d, key %d, chunk size %d)", it.Size, key, w[0].CS), rc)
			}
			beginOff[key] = rc.Off
			gotBegin++
		case transfer.FileEnd:
			if wantEnd[v.StreamID] == 0 {
				return bad("the stream holds a FileEnd that no send.fileEnd.before event announced (or more of them than announced)", rc)
			}
			wantEnd[v.StreamID]--
			if v.CRC32 != 0 {
				return bad("a FileEnd on the stream differs from the value the sender encoded (crc32 0)", rc)
			}
			if _, ok := beginOff[v.StreamID]; !ok {
				return bad("a FileEnd precedes the FileBegin of its file on the stream", rc)
			}
			gotEnd++
		case transfer.ResumeRequest:
			it, ok := x.keys[v.StreamID]
			if !ok || !x.cfg.Resume || it.ID != v.FileID || it.Size == 0 {
				return bad("a ResumeRequest on the stream does not belong to a file of this transfer (or resume is off / the file is empty)", rc)
			}
			if _, ok := beginOff[v.StreamID]; !ok {
				return bad("a ResumeRequest precedes the FileBegin of its file on the stream", rc)
			}
			gotReq[v.StreamID]++
			if gotReq[v.StreamID] > 1 {
				return bad("two ResumeRequests for one file on the stream", rc)
			}
		case nil: // End
			if i != len(recs)-1 {
				return bad("End is not the last record of the stream", rc)
			}
		default:
			return bad("a record type the sender never writes", rc)
		}
	}
	if failOff < 0 { // no Write failed: every record a writer began is on the stream
		if gotBegin != len(begins) {
			return bad(fmt.Sprintf("%d FileBegin records announced (OnFileStart), %d on the stream", len(begins), gotBegin), nil)
		}
		if gotEnd != len(ends) {
			return bad(fmt.Sprintf("%d FileEnd records announced (send.fileEnd.before), %d on the stream", len(ends), gotEnd), nil)
		}
	}
	if res.SendErr == "" {
		if recs[len(recs)-1].V != nil || recs[len(recs)-1].Typ != transfer.VerifC18TypeEnd {
			return bad("the sender returned success but the stream does not end with End", &recs[len(recs)-1])
		}
		want := 0
		if x.cfg.Resume {
			for _, it := range x.keys {
				if it.ID != "" && it.Size > 0 {
					want++
				}
			}
		}
		if len(gotReq) != want || gotBegin != x.totalFiles || gotEnd != x.totalFiles {
			return bad(fmt.Sprintf("the sender returned success for %d files; the stream holds %d FileBegin, %d FileEnd, %d ResumeRequest (expected %d)", x.totalFiles, gotBegin, gotEnd, len(gotReq), want), nil)
		}
	}
	return nil
}

// ---------------------------------------------------------------- the stage

func runC18Wire(e *Env) {
	R := e.R
	R.Rule = "one case = one real transfer (SendManifestMultiStream -> RecvManifestMultiStream, 8-24 files, 2-8 workers, with and without resume requests; one in six with large fields: paths of 511, 512, 600-1000 and 1024 bytes and a file of 4089-8300 chunks of 16 bytes, " +
		"fresh or resumed from a partial sidecar, so that FileBegin records with paths >= 512 bytes and FileResumeInfo records with bitmaps >= 512 bytes travel) whose control streams are recorded " +
		"in the order the bytes reached the transport; the recording of the sender's stream must decode from the first to the last byte into header, DataStreams and exactly the FileBegin / FileEnd / " +
		"ResumeRequest / End records the run's events announce; distinct by (transport, workers, scheduling thresholds, resume, hold mode, order of record types on the stream)"
	n := e.Pick(72, 700)
	if e.Race {
		n = e.Pick(40, 300)
	}
	verifhook.Reset()
	verifhook.Set("send.fileEnd.before", c18WireOnFileEnd)
	verifhook.Set("send.chunk.afterFrame", c18WireOnChunk)
	verifhook.Set("recv.chunk.afterMark", c18WireOnChunk)
	defer verifhook.Reset()
	lp, err := vk.NewListenerPool(4, 5*time.Second)
	if err != nil {
		R.Inconcl("cannot create QUIC listeners: " + err.Error())
		lp = nil
	} else {
		defer lp.Close()
	}

	var mu sync.Mutex
	results := make([]*c18WireResult, n)
	var violating atomic.Int64
	vk.ParallelDo(n, 8, func(i int) {
		if violating.Load() >= c18WireAbort {
			return
		}
		cfg := c18WireGenCfg(e.Tier, e.Seed, i)
		if cfg.Transport == "quic" && lp == nil {
			cfg.Transport = "mock"
		}
		res := c18WireRun(e.Work, cfg, lp)
		if len(res.Findings) > 0 && violating.Add(1) >= c18WireAbort {
			c18WireStopOnce.Do(func() { close(c18WireStop) })
		}
		mu.Lock()
		results[i] = res
		mu.Unlock()
	})

	type agg struct {
		Transfers, BothOK, Failed, Setup, Watchdog                  int
		Holds, HoldsDue, HoldsForeign, Parks, ParksByHold, ParksCap int64
		SeveralActive                                               int
		Bytes, Calls                                                int
		Large, LargeBothOK                                          int
		WritesEndedInsideARecord, RecordsSplitOverWrites            int64
	}
	var a agg
	kinds := map[string]int{}
	classes := map[string]int{}
	skipped := 0
	for _, res := range results {
		if res == nil {
			skipped++
			continue
		}
		if res.SetupErr != "" {
			a.Setup++
			R.Count("setup_failed")
			if a.Setup <= 3 {
				R.SetExtra(fmt.Sprintf("setup_error_%d", a.Setup), res.SetupErr)
			}
			continue
		}
		R.Eval()
		a.Transfers++
		classes[res.Cfg.class()]++
		R.Distinct(res.Cfg.class() + "/" + res.OrderSig)
		switch {
		case res.Watchdog || res.Idle:
			a.Watchdog++
		case res.BothOK:
			a.BothOK++
		default:
			a.Failed++
		}
		a.Holds += res.Holds
		a.HoldsDue += res.HoldsDue
		a.HoldsForeign += res.HoldsForeign
		a.Parks += res.Parks
		a.ParksByHold += res.ParksByHold
		a.ParksCap += res.ParksCap
		a.Bytes += res.SendBytes
		a.Calls += res.SendCalls
		a.WritesEndedInsideARecord += int64(res.Mids)
		a.RecordsSplitOverWrites += int64(res.Splits)
		if res.Cfg.Large {
			a.Large++
			if res.BothOK {
				a.LargeBothOK++
			}
		}
		if res.MaxActive >= 2 {
			a.SeveralActive++
		}
		for k, v := range res.Kinds {
			kinds[k] += v
		}
		cs := map[string]any{"config": res.Cfg, "class": res.Cfg.class(), "files": res.Files, "sender_returned": res.SendErr, "receiver_returned": res.RecvErr,
			"holds": res.Holds, "holds_with_a_released_fileend_writer": res.HoldsDue, "holds_ended_by_a_foreign_write": res.HoldsForeign,
			"control_bytes_recorded": res.SendBytes, "control_write_calls": res.SendCalls, "max_files_in_flight": res.MaxActive,
			"records_written_in_several_writes": res.Splits}
		for _, f := range res.Findings {
			R.Violate(f.Key, "several writers on one control stream ("+res.Cfg.class()+"): "+f.What, cs, f.Detail)
		}
		if len(res.Findings) == 0 {
			if res.Watchdog || res.Idle {
				R.Inconcl(fmt.Sprintf("shared-stream transfer %d (%s) did not finish within %s or moved nothing for %s (sender: %q, receiver: %q); its recording decodes and matches the events so far",
					res.Cfg.Index, res.Cfg.class(), c18WireWatchdog, c18WireIdle, res.SendErr, res.RecvErr))
			} else if !res.BothOK {
				R.Count("transfer_failed_but_stream_in_frame")
				if R.Counter("transfer_failed_but_stream_in_frame") <= 3 {
					R.SetExtra(fmt.Sprintf("failed_transfer_%d", R.Counter("transfer_failed_but_stream_in_frame")), cs)
				}
			} else if a.BothOK <= 2 {
				R.Sample(map[string]any{"config": res.Cfg, "files": res.Files, "records_on_the_senders_stream": res.Kinds, "write_calls": res.SendCalls, "bytes": res.SendBytes,
					"holds": res.Holds, "result": "recording decodes to header, DataStreams and exactly the announced FileBegin/FileEnd/ResumeRequest records, End last"})
			}
		}
	}
	ck := make([]string, 0, len(classes))
	for k := range classes {
		ck = append(ck, k)
	}
	sort.Strings(ck)
	R.SetExtra("transfers", a)
	R.SetExtra("records_decoded_from_the_recordings_by_kind", kinds)
	R.SetExtra("configuration_classes_run", ck)
	R.SetExtra("planned_transfers", n)
	R.SetExtra("transfers_not_started_after_violations", skipped)
	R.SetExtra("hook_hits", verifhook.AllHits())

	explained := len(R.Violations) > 0
	R.Require(explained || a.Transfers >= n*9/10, fmt.Sprintf("only %d of %d transfers ran", a.Transfers, n))
	R.Require(explained || a.BothOK >= n*8/10, fmt.Sprintf("only %d of %d transfers completed on both sides", a.BothOK, n))
	R.Require(explained || a.SeveralActive >= n/2, fmt.Sprintf("only %d transfers had two or more files in flight at once", a.SeveralActive))
	// A hold needs a record that the code under test writes in several Writes. How the sender splits its writes is
	// not part of the property: the minimum number of holds follows the write pattern that was observed (a sender
	// that hands every record to the stream in one Write offers nothing to hold; the decode / records oracles apply
	// to its recording all the same).
	needHolds, needDue := int64(n)*5, int64(n)/4
	if a.RecordsSplitOverWrites/8 < needHolds {
		needHolds = a.RecordsSplitOverWrites / 8
	}
	if a.RecordsSplitOverWrites < int64(n)*5 {
		needDue = 0
	}
	R.SetExtra("holds_required_given_the_observed_write_pattern", map[string]int64{"records_split_over_several_writes": a.RecordsSplitOverWrites, "holds": needHolds, "holds_with_a_released_fileend_writer": needDue})
	R.Require(explained || a.Holds >= needHolds, fmt.Sprintf("only %d holds inside a half-written record (%d records were written in several Writes)", a.Holds, a.RecordsSplitOverWrites))
	R.Require(explained || a.HoldsDue >= needDue, fmt.Sprintf("only %d holds during which a worker that was about to write a FileEnd was let go", a.HoldsDue))
	R.Require(explained || a.LargeBothOK >= a.Large*8/10 && a.Large >= n/10, fmt.Sprintf("only %d of %d large-field transfers (planned: %d) completed on both sides", a.LargeBothOK, a.Large, n/8))
	for _, k := range []string{c18WireLargePath, c18WireLargePathMax, c18WireLargeBitmap, c18WireLargeBitmapPartial} {
		R.Require(explained || kinds[k] > 0, "no "+k+" field was decoded from a recording")
	}
	for _, k := range []string{kHeader, kStreams, kFileBegin, kFileEnd, kResumeReq, kEnd, "recv/" + kFileDone, "recv/" + kResume} {
		R.Require(explained || kinds[k] > 0, "no "+k+" record was decoded from a recording")
	}
	R.Require(explained || verifhook.Hits("send.fileEnd.before") > 0, "hook send.fileEnd.before never hit")

	// a failing file: the harness plays the sender, the real receiver reports the file with a FileDone whose error text is long
	c18WireDoneStage(e, e.Pick(32, 120), explained)
}
