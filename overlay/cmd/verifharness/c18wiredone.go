//go:build verif

package main

// C18, stage "shared-stream", sub-driver "failing file": a FileDone WITH A LONG ERROR TEXT in a running receiver.
//
// A well-behaved sender does not make RecvManifestMultiStream report a failed file, so the recordings of the
// real transfers never hold a FileDone whose error text is long. Here the harness plays the sender over the
// mock transport: header (one file whose relative path has 600-1000 bytes), DataStreams{1}, FileBegin, then a
// chunk frame whose index is out of range. The real receiver finalises the file as failed - its error text
// names the path - and hands a FileDone to its control writer before it gives up. Whether that record is still
// written is the receiver's race (it cancels itself at the same moment); what is judged is the recording of the
// receiver's control stream: it must decode from the first to the last byte (a record may be cut short only
// where a Write of that stream failed) into FileDone / FileResumeInfo records of the one file.

import (
	"context"
	"encoding/binary"
	"fmt"
	"io"
	"os"
	"path/filepath"
	"time"

	"github.com/sheerbytes/sheerbytes/internal/transfer"
	vk "github.com/sheerbytes/sheerbytes/internal/verifkit"
	"github.com/sheerbytes/sheerbytes/pkg/manifest"
)

const c18WireLargeDoneErr = "large/recv/FileDone.error>=512"

type c18WireDoneResult struct {
	Index    int
	PathLen  int
	Resume   bool
	SetupErr string
	RecvErr  string
	Returned bool
	Findings []c18WireFinding
	Kinds    map[string]int
	ErrLens  []int
}

func c18WireDoneRun(work string, seed uint64, i int) *c18WireDoneResult {
	r := vk.NewRng(seed ^ vk.Mix(uint64(i)+0xd0fe))
	res := &c18WireDoneResult{Index: i, Kinds: map[string]int{}, Resume: i%2 == 1}
	L := []int{600 + r.Intn(401), 1024, 512 + r.Intn(60)}[i%3]
	res.PathLen = L
	dir := filepath.Join(work, fmt.Sprintf("fd%04d", i))
	src := filepath.Join(dir, fmt.Sprintf("faildone%d", i))
	out := filepath.Join(dir, "out")
	defer os.RemoveAll(dir)
	defer transfer.VerifRetireSidecars(out)
	rel := c18WireLongRel(100000+i, L, i%5)
	full := filepath.Join(src, filepath.FromSlash(rel))
	fail := func(err error) *c18WireDoneResult { res.SetupErr = err.Error(); return res }
	if err := os.MkdirAll(filepath.Dir(full), 0755); err != nil {
		return fail(err)
	}
	if err := os.MkdirAll(out, 0755); err != nil {
		return fail(err)
	}
	buf := make([]byte, 40)
	vk.FillContent(seed, rel, 0, buf)
	if err := os.WriteFile(full, buf, 0644); err != nil {
		return fail(err)
	}
	m, err := manifest.Scan(src)
	if err != nil {
		return fail(err)
	}
	var item manifest.FileItem
	for _, it := range m.Items {
		if !it.IsDir {
			item = it
		}
	}
	if item.RelPath != rel {
		return fail(fmt.Errorf("the scan did not return the long path"))
	}
	key := transfer.VerifC19FileKey(item)
	x := &c18WireXfer{cfg: c18WireCfg{Index: i, Hold: "none"}, m: m, keys: map[uint64]manifest.FileItem{key: item}, totalFiles: 1,
		done: make(chan struct{}), holdStart: make(chan struct{})}
	defer close(x.done)

	ctx, cancel := context.WithCancel(context.Background())
	defer cancel()
	t1, t2 := transfer.NewMockPair()
	sc, err := t1.Dial(ctx, "peer2")
	if err != nil {
		return fail(err)
	}
	rc, err := t2.Accept(ctx)
	if err != nil {
		return fail(err)
	}
	wrc := &c18WireConn{Conn: rc, x: x, side: "recv"}
	var recvErr error
	rdone := make(chan struct{})
	go func() {
		_, recvErr = transfer.RecvManifestMultiStream(ctx, wrc, out, transfer.Options{Resume: res.Resume, HashAlg: "crc32c", ParallelFiles: 1})
		close(rdone)
	}()

	// the harness as sender
	ctl, err := sc.OpenStream(ctx)
	if err != nil {
		return fail(err)
	}
	go func() { _, _ = io.Copy(io.Discard, ctl) }() // the mock stream is a pipe: what the receiver writes must be read
	if err = transfer.VerifC18WriteControlHeader(ctl, m); err == nil {
		err = transfer.VerifC18WriteDataStreams(ctl, transfer.DataStreams{Count: 1})
	}
	if err != nil {
		return fail(err)
	}
	ds, err := sc.OpenStream(ctx)
	if err != nil {
		return fail(err)
	}
	if err = transfer.VerifC18WriteFileBegin(ctl, transfer.FileBegin{RelPath: rel, FileSize: uint64(item.Size), ChunkSize: 16, StreamID: key, HashAlg: 1}); err != nil {
		return fail(err)
	}
	frame := make([]byte, 20+16)
	binary.BigEndian.PutUint64(frame[0:8], key)
	binary.BigEndian.PutUint32(frame[8:12], 1000+uint32(i)) // the file has 3 chunks
	binary.BigEndian.PutUint32(frame[12:16], 16)
	_, _ = ds.Write(frame) // the receiver gives up on the frame's header; the payload may find the stream closed
	select {
	case <-rdone:
		res.Returned = true
	case <-time.After(15 * time.Second): // the receiver did not give up: nothing to judge but the recording so far
	}
	cancel()
	_ = ctl.Close()
	_ = ds.Close()
	_ = sc.Close()
	wrc.kill()
	if res.Returned {
		if recvErr != nil {
			res.RecvErr = recvErr.Error()
		}
	} else {
		select {
		case <-rdone:
		case <-time.After(5 * time.Second):
		}
	}
	if x.recvCtl == nil {
		return res
	}
	rw, rfail, rferr, _ := x.recvCtl.snapshot()
	// The receiver gives up on its own here and abandons its control writer, possibly between two Writes of a
	// record; nobody is left to read that stream. A record that merely ends with the recording is therefore not
	// judged (no Write has to have failed for it); bytes that do not decode before the end are.
	if rfail < 0 {
		rfail = len(rw)
	}
	rrecs, _, rf := c18WireDecode(rw, rfail, false, nil)
	if rf != nil {
		rf.Detail["first_failed_write_error"] = rferr
		rf.Key = "shared-stream/receiver:" + rf.Key
		res.Findings = append(res.Findings, *rf)
	}
	for _, rcd := range rrecs {
		res.Kinds["recv/"+c18WireKindName(rcd.Typ)]++
		var k uint64
		switch v := rcd.V.(type) {
		case transfer.FileDone:
			k = v.StreamID
			res.ErrLens = append(res.ErrLens, len(v.ErrMsg))
			if len(v.ErrMsg) >= 512 {
				res.Kinds[c18WireLargeDoneErr]++
			}
		case transfer.FileResumeInfo:
			k = v.StreamID
		default:
			k = key + 1
		}
		if k != key && rf == nil {
			rf = &c18WireFinding{"shared-stream/receiver:records", fmt.Sprintf("the receiver's control stream carries a record (type 0x%02x) that does not belong to the one file of the manifest", rcd.Typ), map[string]any{"offset": rcd.Off}}
			res.Findings = append(res.Findings, *rf)
		}
	}
	return res
}

// c18WireDoneStage runs the failing-file cases and returns how many recordings held a FileDone with an error text >= 512 bytes.
func c18WireDoneStage(e *Env, n int, explainedBefore bool) {
	R := e.R
	results := make([]*c18WireDoneResult, n)
	vk.ParallelDo(n, 4, func(i int) { results[i] = c18WireDoneRun(e.Work, e.Seed^vk.HashStr("c18wiredone"+e.Tier), i) })
	type agg struct{ Cases, Setup, ReceiverReturned, WithFileDone, WithLongErrorText, NoFileDoneWritten int }
	var a agg
	kinds := map[string]int{}
	var lens []int
	for _, res := range results {
		if res.SetupErr != "" {
			a.Setup++
			R.SetExtra("failing_file_setup_error", res.SetupErr)
			continue
		}
		R.Eval()
		a.Cases++
		if res.Returned {
			a.ReceiverReturned++
		}
		for k, v := range res.Kinds {
			kinds[k] += v
		}
		switch {
		case res.Kinds[c18WireLargeDoneErr] > 0:
			a.WithLongErrorText++
			a.WithFileDone++
			R.Distinct(fmt.Sprintf("failing-file/path=%d/resume=%v/FileDone-error>=512", res.PathLen, res.Resume))
		case res.Kinds["recv/"+kFileDone] > 0:
			a.WithFileDone++
		default:
			a.NoFileDoneWritten++
		}
		if len(lens) < 8 {
			lens = append(lens, res.ErrLens...)
		}
		cs := map[string]any{"driver": "failing-file", "index": res.Index, "path_bytes": res.PathLen, "resume": res.Resume, "receiver_returned": res.RecvErr, "error_text_bytes": res.ErrLens}
		for _, f := range res.Findings {
			R.Violate(f.Key, fmt.Sprintf("failing file (path of %d bytes, chunk index out of range; the receiver reports it with a FileDone whose error text names the path): %s", res.PathLen, f.What), cs, f.Detail)
		}
		if len(res.Findings) == 0 && res.Kinds[c18WireLargeDoneErr] > 0 && a.WithLongErrorText <= 1 {
			R.Sample(map[string]any{"case": cs, "records_on_the_receivers_stream": res.Kinds, "result": "the receiver's recording decodes; FileDone{ok=false} with the long error text"})
		}
	}
	R.SetExtra("failing_file_cases", a)
	for _, res := range results {
		if res.SetupErr == "" {
			R.SetExtra("failing_file_first_case", map[string]any{"path_bytes": res.PathLen, "resume": res.Resume, "receiver_returned": res.RecvErr, "records": res.Kinds})
			break
		}
	}
	R.SetExtra("failing_file_records_decoded_by_kind", kinds)
	R.SetExtra("failing_file_error_text_bytes_sample", lens)
	explained := explainedBefore || len(R.Violations) > 0
	R.Require(explained || a.Cases >= n*9/10, fmt.Sprintf("only %d of %d failing-file cases ran", a.Cases, n))
	// whether the receiver still writes the record before it cancels itself is its own race; the -race build loses it
	// most of the time (about 1 in 8 written), so only the plain build must have seen one
	R.Require(explained || e.Race || a.WithLongErrorText > 0, "no FileDone with an error text of 512 bytes or more was decoded from a receiver's recording")
}
