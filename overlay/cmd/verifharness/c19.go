//go:build verif

package main

// C19 – chunk geometry tiles every file exactly and identically on both sides.
//
// Observers of the chunk count / chunk lengths (all real code of /repo):
//   sender        chunkTotal + chunkSizeForIndex (what sendFileState uses)        – shims
//   sidecar       CreateSidecar(...).TotalChunks in a temp dir                     – direct call
//   mux-recv      FileResumeInfo.TotalChunks read off the wire after a real FileBegin sent to
//                 RecvManifestMultiStream (sparse output file), the sidecar that run left on disk,
//                 and – small domain – delivery of exactly the sender's chunks (FileDone OK, file identical)
//   muxlegacy-recv FileResumeInfo.TotalChunks from RecvManifestMultiStreamLegacy (FileBegin + ResumeRequest)
//   legacy-send   the chunk records sendFileChunksWindowed puts on the wire for a real file
//   legacy-recv   receiveFileChunksWindowed: accepts exactly those records (file identical), marks exactly
//                 that many chunks in a sidecar, and rejects a record with index == count

import (
	"bytes"
	"context"
	"encoding/binary"
	"errors"
	"fmt"
	"io"
	"net"
	"os"
	"path/filepath"
	"sort"
	"sync"
	"sync/atomic"
	"time"

	"github.com/sheerbytes/sheerbytes/internal/transfer"
	vk "github.com/sheerbytes/sheerbytes/internal/verifkit"
	"github.com/sheerbytes/sheerbytes/pkg/manifest"
)

func init() { register("c19", runC19) }

const (
	c19MaxSize  = int64(10) << 40 // 10 TiB, the repository's maxFileSize
	c19MaxCS    = uint64(1)<<32 - 1
	c19MaxCount = uint64(1)<<32 - 1
)

type c19Pair struct {
	Size int64  `json:"size"`
	CS   uint32 `json:"cs"`
}

func (p c19Pair) String() string { return fmt.Sprintf("%d/%d", p.Size, p.CS) }

// implied is the chunk count implied by "offsets i*cs, lengths in [1,cs], sum = size".
func (p c19Pair) implied() uint64 {
	q := uint64(p.Size) / uint64(p.CS)
	if uint64(p.Size)%uint64(p.CS) != 0 {
		q++
	}
	return q
}
func (p c19Pair) inDomain() bool {
	return p.Size >= 0 && p.Size <= c19MaxSize && p.CS >= 1 && p.implied() <= c19MaxCount
}
func (p c19Pair) class() string {
	switch {
	case p.Size == 0:
		return "size-zero"
	case uint64(p.Size) < uint64(p.CS):
		return "single-short"
	case uint64(p.Size)%uint64(p.CS) == 0:
		return "exact-multiple"
	}
	return "remainder"
}

// ---------------------------------------------------------------- in-memory transport

// c19Buf is a non-blocking in-memory transfer.Stream (for the legacy chunk pipeline).
// It implements the deadline setters so that the code under test takes the same
// branch as with a QUIC stream.
type c19Buf struct {
	buf []byte
	rd  int
}

func (s *c19Buf) Write(p []byte) (int, error) { s.buf = append(s.buf, p...); return len(p), nil }
func (s *c19Buf) Read(p []byte) (int, error) {
	if s.rd >= len(s.buf) {
		return 0, io.EOF
	}
	n := copy(p, s.buf[s.rd:])
	s.rd += n
	return n, nil
}
func (s *c19Buf) Close() error                     { return nil }
func (s *c19Buf) SetReadDeadline(time.Time) error  { return nil }
func (s *c19Buf) SetWriteDeadline(time.Time) error { return nil }
func (s *c19Buf) SetDeadline(time.Time) error      { return nil }

// c19Pipe is one end of a bidirectional in-memory stream.
type c19Pipe struct {
	r *io.PipeReader
	w *io.PipeWriter
}

func (p *c19Pipe) Read(b []byte) (int, error)       { return p.r.Read(b) }
func (p *c19Pipe) Write(b []byte) (int, error)      { return p.w.Write(b) }
func (p *c19Pipe) Close() error                     { p.w.Close(); return p.r.Close() }
func (p *c19Pipe) SetReadDeadline(time.Time) error  { return nil }
func (p *c19Pipe) SetWriteDeadline(time.Time) error { return nil }
func (p *c19Pipe) SetDeadline(time.Time) error      { return nil }
func (p *c19Pipe) kill() {
	p.w.CloseWithError(io.ErrClosedPipe)
	p.r.CloseWithError(io.ErrClosedPipe)
}

func c19PipePair() (*c19Pipe, *c19Pipe) {
	ar, bw := io.Pipe()
	br, aw := io.Pipe()
	return &c19Pipe{r: ar, w: aw}, &c19Pipe{r: br, w: bw}
}

// c19Conn hands pre-made streams to the receiver under test.
type c19Conn struct{ ch chan transfer.Stream }

func (c *c19Conn) OpenStream(ctx context.Context) (transfer.Stream, error) {
	return nil, errors.New("c19Conn: receiver side does not open streams")
}
func (c *c19Conn) AcceptStream(ctx context.Context) (transfer.Stream, error) {
	select {
	case s := <-c.ch:
		return s, nil
	case <-ctx.Done():
		return nil, ctx.Err()
	}
}
func (c *c19Conn) RemoteAddr() net.Addr { return &net.UDPAddr{IP: net.IPv4(127, 0, 0, 1), Port: 9} }
func (c *c19Conn) Close() error         { return nil }

// ---------------------------------------------------------------- observers

func c19Content(size int64, seed uint64) []byte {
	b := make([]byte, size)
	for i := int64(0); i < size; i += 8 {
		v := vk.Mix(seed + uint64(i))
		for j := int64(0); j < 8 && i+j < size; j++ {
			b[i+j] = byte(v >> (8 * uint(j)))
		}
	}
	return b
}

type c19Check struct {
	R    *vk.Report
	work string

	mu        sync.Mutex
	obs       map[string]int // observer -> observations made
	notObs    map[string]int // reasons an observer could not observe
	disagree  map[string]int // violations by key and way of observation
	classes   map[string]int
	existing  map[string]int // deliveries over a pre-existing destination: classes and features
	maxCount  uint64
	seq       int64
	watchdogs int64
}

func (c *c19Check) count(m map[string]int, k string) {
	c.mu.Lock()
	m[k]++
	c.mu.Unlock()
}

func (c *c19Check) violate(p c19Pair, group, observer, what string, detail map[string]any) {
	key := p.class() + ":" + observer
	if how, ok := detail["how"].(string); ok {
		c.count(c.disagree, key+" <- "+how)
	} else {
		c.count(c.disagree, key)
	}
	cs := map[string]any{"size": p.Size, "chunk_size": p.CS, "group": group, "observer": observer}
	c.R.Violate(key, what, cs, detail)
}

// tiling checks the sender helpers; returns the sender's chunk count.
func (c *c19Check) tiling(p c19Pair, group string, fullLimit uint32, r *vk.Rng) uint32 {
	n := transfer.VerifC19ChunkTotal(p.Size, p.CS)
	if uint64(n) != p.implied() {
		c.violate(p, group, "sender-total", fmt.Sprintf("chunkTotal(%d,%d) = %d, but offsets i*cs with lengths in [1,cs] summing to the size need %d chunks", p.Size, p.CS, n, p.implied()), nil)
	}
	bad := func(i uint32, l uint32, why string) {
		c.violate(p, group, "tiling", fmt.Sprintf("chunkSizeForIndex(%d,%d,%d) = %d: %s", p.Size, p.CS, i, l, why), map[string]any{"index": i, "length": l, "total": n})
	}
	if n <= fullLimit {
		var off int64
		for i := uint32(0); i < n; i++ {
			l := transfer.VerifC19ChunkSizeForIndex(p.Size, p.CS, i)
			if l < 1 || l > p.CS {
				bad(i, l, "length outside [1, cs]")
				return n
			}
			if off != int64(i)*int64(p.CS) {
				bad(i, l, fmt.Sprintf("chunks before it end at %d, its offset is %d (gap or overlap)", off, int64(i)*int64(p.CS)))
				return n
			}
			off += int64(l)
		}
		if off != p.Size {
			c.violate(p, group, "tiling", fmt.Sprintf("lengths of the %d chunks sum to %d, file size is %d", n, off, p.Size), nil)
		}
		c.count(c.obs, "sender_tiling_all_indices")
		return n
	}
	// large count: first/last/random indices, the rest follows algebraically
	idx := map[uint32]bool{}
	for i := uint32(0); i < 32; i++ {
		idx[i] = true
		idx[n-1-i] = true
	}
	for i := 0; i < 64; i++ {
		idx[uint32(r.U64()%uint64(n))] = true
	}
	var last uint32
	for i := range idx {
		l := transfer.VerifC19ChunkSizeForIndex(p.Size, p.CS, i)
		if i == n-1 {
			last = l
			if l < 1 || l > p.CS {
				bad(i, l, "last chunk outside [1, cs]")
				return n
			}
			continue
		}
		if l != p.CS {
			bad(i, l, "inner chunk is not exactly cs long (gap or overlap with its successor at (i+1)*cs)")
			return n
		}
	}
	if int64(n-1)*int64(p.CS)+int64(last) != p.Size {
		c.violate(p, group, "tiling", fmt.Sprintf("(total-1)*cs + last = %d, file size is %d", int64(n-1)*int64(p.CS)+int64(last), p.Size), map[string]any{"total": n, "last": last})
	}
	c.count(c.obs, "sender_tiling_sampled_indices")
	return n
}

func (c *c19Check) dir() string {
	d := filepath.Join(c.work, fmt.Sprintf("c%d", atomic.AddInt64(&c.seq, 1)))
	_ = os.MkdirAll(d, 0755)
	return d
}

// sidecarDirect observes CreateSidecar(...).TotalChunks.
func (c *c19Check) sidecarDirect(p c19Pair, group string, n uint32, dir string) *transfer.Sidecar {
	sc, err := transfer.CreateSidecar(filepath.Join(dir, "direct.sbxmap"), "c19id", p.Size, p.CS)
	if err != nil {
		c.count(c.notObs, "sidecar_direct: CreateSidecar failed")
		return nil
	}
	c.count(c.obs, "sidecar_direct")
	if sc.TotalChunks != n {
		c.violate(p, group, "sidecar-total", fmt.Sprintf("CreateSidecar(size %d, chunk size %d).TotalChunks = %d, sender's chunkTotal = %d", p.Size, p.CS, sc.TotalChunks, n),
			map[string]any{"sidecar_total": sc.TotalChunks, "sender_total": n, "how": "direct call of CreateSidecar"})
	}
	return sc
}

const c19ItemID = "c19c19c19c19c19f"

// destination classes of the deliveries over a pre-existing destination (stage geometry)
var c19ExistingDest = []string{"same-length", "longer", "shorter", "older-version", "empty-file"}

type c19MuxResult struct {
	wire        *transfer.FileResumeInfo
	done        *transfer.FileDone
	recvErr     error
	recvRet     bool
	timedOut    bool // set after the run from the watchdog flag
	diskSidecar *transfer.Sidecar
	fileOK      bool
	fileWhy     string
}

// muxRecv drives one of the two multi-stream receivers with the repository's own
// encoders: header (one file), DataStreams, FileBegin [, ResumeRequest]; reads the
// FileResumeInfo it answers. With content != nil it then delivers exactly the chunks
// the sender helpers describe (highest index first), FileEnd and End.
// ex != nil: the output path holds ex.prefill before the receiver starts and the chunks are
// delivered in the order ex.order (a permutation of the sender's indices).
type c19Existing struct {
	sub     string
	prefill []byte
	order   []uint32
}

func (c *c19Check) muxRecv(p c19Pair, legacy bool, content []byte, dir string, ex *c19Existing) (res c19MuxResult) {
	out := filepath.Join(dir, map[bool]string{true: "outl", false: "outm"}[legacy])
	if ex != nil {
		out = filepath.Join(dir, ex.sub)
		if ex.prefill != nil {
			if err := c19WriteFile(filepath.Join(out, "f"), ex.prefill); err != nil {
				res.fileWhy = "cannot write the pre-existing destination"
				return res
			}
		}
	}
	ctx, cancel := context.WithCancel(context.Background())
	defer cancel()
	ctrlA, ctrlB := c19PipePair()
	dataA, dataB := c19PipePair()
	conn := &c19Conn{ch: make(chan transfer.Stream, 2)}
	conn.ch <- ctrlB
	var once sync.Once
	killAll := func() { once.Do(func() { cancel(); ctrlA.kill(); ctrlB.kill(); dataA.kill(); dataB.kill() }) }
	defer killAll()
	var fired atomic.Bool
	wd := time.AfterFunc(20*time.Second, func() { fired.Store(true); killAll() })
	defer func() {
		wd.Stop()
		if fired.Load() {
			res.timedOut = true
			atomic.AddInt64(&c.watchdogs, 1)
		}
	}()

	item := manifest.FileItem{RelPath: "f", Size: p.Size, ModTime: 1, ID: c19ItemID}
	m := manifest.Manifest{Root: "r", Items: []manifest.FileItem{item}, TotalBytes: p.Size, FileCount: 1}
	key := transfer.VerifC19FileKey(item)
	if legacy {
		key = 7
	}
	opts := transfer.Options{Resume: true, NoRootDir: true}

	recvDone := make(chan error, 1)
	go func() {
		var err error
		if legacy {
			_, err = transfer.RecvManifestMultiStreamLegacy(ctx, conn, out, opts)
		} else {
			_, err = transfer.RecvManifestMultiStream(ctx, conn, out, opts)
		}
		recvDone <- err
	}()
	type ctl struct {
		typ byte
		msg any
	}
	ctlCh := make(chan ctl, 16)
	go func() {
		defer close(ctlCh)
		for {
			typ, msg, err := transfer.VerifC18ReadControlMessage(ctrlA)
			if err != nil {
				return
			}
			ctlCh <- ctl{typ, msg}
		}
	}()
	wait := func(typ byte) any {
		for {
			select {
			case m, ok := <-ctlCh:
				if !ok {
					return nil
				}
				if m.typ == typ {
					return m.msg
				}
			case err := <-recvDone:
				res.recvErr, res.recvRet = err, true
				recvDone <- err
				// the receiver is gone; drain what it still wrote
				select {
				case m, ok := <-ctlCh:
					if ok && m.typ == typ {
						return m.msg
					}
				case <-time.After(50 * time.Millisecond):
				}
				return nil
			}
		}
	}

	if transfer.VerifC18WriteControlHeader(ctrlA, m) != nil {
		return res
	}
	if !legacy {
		if transfer.VerifC18WriteDataStreams(ctrlA, transfer.DataStreams{Count: 1}) != nil {
			return res
		}
	}
	if transfer.VerifC18WriteFileBegin(ctrlA, transfer.FileBegin{RelPath: "f", FileSize: uint64(p.Size), ChunkSize: p.CS, StreamID: key}) != nil {
		return res
	}
	if legacy {
		if transfer.VerifC18WriteResumeRequest(ctrlA, transfer.ResumeRequest{FileID: c19ItemID, StreamID: key}) != nil {
			return res
		}
	}
	if v := wait(transfer.VerifC18TypeFileResumeInfo); v != nil {
		info := v.(transfer.FileResumeInfo)
		res.wire = &info
	} else {
		return res
	}
	if sc, err := transfer.LoadSidecar(transfer.SidecarPath(out, "", c19ItemID)); err == nil {
		res.diskSidecar = sc
	}
	if content == nil || legacy {
		return res
	}

	// deliver the sender's chunks, highest index first
	n := transfer.VerifC19ChunkTotal(p.Size, p.CS)
	var frames bytes.Buffer
	order := make([]int64, 0, n)
	for i := int64(n) - 1; i >= 0; i-- {
		order = append(order, i)
	}
	if ex != nil && len(ex.order) == int(n) {
		for k, v := range ex.order {
			order[k] = int64(v)
		}
	}
	for _, i := range order {
		l := transfer.VerifC19ChunkSizeForIndex(p.Size, p.CS, uint32(i))
		off := i * int64(p.CS)
		if l == 0 || off+int64(l) > int64(len(content)) {
			res.fileWhy = "sender helper describes a chunk outside the file (reported by the tiling observer)"
			return res
		}
		var h [transfer.VerifC19DataChunkHeaderLen]byte
		binary.BigEndian.PutUint64(h[0:8], key)
		binary.BigEndian.PutUint32(h[8:12], uint32(i))
		binary.BigEndian.PutUint32(h[12:16], l)
		binary.BigEndian.PutUint32(h[16:20], transfer.VerifC19CRC32C(content[off:off+int64(l)]))
		frames.Write(h[:])
		frames.Write(content[off : off+int64(l)])
	}
	conn.ch <- dataB
	if frames.Len() > 0 {
		if _, err := dataA.Write(frames.Bytes()); err != nil {
			return res
		}
	}
	if transfer.VerifC18WriteFileEnd(ctrlA, transfer.FileEnd{StreamID: key}) != nil {
		return res
	}
	if v := wait(transfer.VerifC18TypeFileDone); v != nil {
		d := v.(transfer.FileDone)
		res.done = &d
	} else {
		return res
	}
	dataA.w.Close()
	_ = transfer.VerifC18WriteControlEnd(ctrlA)
	select {
	case err := <-recvDone:
		res.recvErr, res.recvRet = err, true
	case <-time.After(20 * time.Second):
		fired.Store(true)
	}
	got, err := os.ReadFile(filepath.Join(out, "f"))
	switch {
	case err != nil:
		res.fileWhy = "output file unreadable: " + err.Error()
	case !bytes.Equal(got, content):
		res.fileWhy = fmt.Sprintf("output file differs from the source (%d vs %d bytes)", len(got), len(content))
		if ex != nil {
			kind, detail := c19DescribeDiff(got, content, c19Prior(ex.prefill, ex.prefill != nil, p.Size), p.CS)
			res.fileWhy += fmt.Sprintf(" [%s: %v]", kind, detail)
		}
	default:
		res.fileOK = true
	}
	return res
}

// muxExisting is the delivery observation of muxObserve over a destination that exists already:
// content of class cc, destination of class dc (every byte differs from the source byte at its
// offset), the sender's chunks delivered in a seeded order. After FileDone{OK} the file must be
// the source: the receiver's writes cover [0,size) whatever the bytes are and whatever was there.
func (c *c19Check) muxExisting(p c19Pair, group string, n uint32, dir string, cc, dc string, seed uint64) {
	if atomic.LoadInt64(&c.watchdogs) > 8 {
		c.count(c.notObs, "mux-recv-existing: skipped after more than 8 watchdog hits in this run")
		return
	}
	r := vk.NewRng(seed)
	sp := c19FileSpec{Content: cc, Align: p.CS, Dest: dc, Seed: r.U64()}
	sp.DestLen = c19PickDestLen(r, dc, p.Size, p.CS)
	content := c19MakeContent(cc, "f", p.Size, p.CS, sp.Seed)
	prefill, present := c19MakeDest(sp, content)
	if !present {
		prefill = nil
	}
	order := make([]uint32, n)
	for i := range order {
		order[i] = uint32(i)
	}
	orderName := "ascending"
	if r.Bool() {
		orderName = "shuffled"
		for i := len(order) - 1; i > 0; i-- {
			j := r.Intn(i + 1)
			order[i], order[j] = order[j], order[i]
		}
	}
	res := c.muxRecv(p, false, content, dir, &c19Existing{sub: "outx", prefill: prefill, order: order})
	transfer.VerifC19ForgetSidecars()
	observer := "mux-recv-delivery:content-" + cc + ":destination-" + dc
	detail := map[string]any{"content_class": cc, "destination_class": dc, "destination_length_before": len(prefill), "delivery_order": orderName, "how": "delivery over a pre-existing destination"}
	switch {
	case res.wire == nil || (res.done == nil && (res.fileWhy != "" || res.timedOut)):
		why := "no FileResumeInfo / no FileDone"
		if res.timedOut {
			why = "watchdog"
			c.R.Inconcl(fmt.Sprintf("mux-recv %s over an existing destination: watchdog", p))
		}
		c.count(c.notObs, "mux-recv-existing: "+why)
		return
	case res.done == nil:
		c.violate(p, group, observer, fmt.Sprintf("receiver ended (%v) without FileDone after exactly the sender's %d chunks were delivered (%s content, destination %s)", res.recvErr, n, cc, dc), detail)
	case !res.done.OK:
		c.violate(p, group, observer, fmt.Sprintf("receiver refused the sender's %d chunks: FileDone{OK:false, %q} (%s content, destination %s)", n, res.done.ErrMsg, cc, dc), detail)
	case !res.fileOK:
		c.violate(p, group, observer, fmt.Sprintf("after FileDone{OK:true} over a destination that existed before (%s, %d bytes; %s content): %s", dc, len(prefill), cc, res.fileWhy), detail)
	}
	c.count(c.obs, "mux-recv_delivery_existing_destination")
	c.count(c.existing, "content-"+cc)
	c.count(c.existing, "destination-"+dc)
	c.count(c.existing, "order-"+orderName)
	f := c19Analyse(content, c19Prior(prefill, prefill != nil, p.Size), p.CS)
	c.mu.Lock()
	f.addTo(func(k string, v int) { c.existing[k] += v }, "in-geometry/")
	c.mu.Unlock()
}

// legacyExisting: the legacy chunk pipeline with content of class cc into a destination path
// that holds sentinel bytes already.
func (c *c19Check) legacyExisting(p c19Pair, group string, dir string, cc, dc string, seed uint64) {
	r := vk.NewRng(seed ^ 0x1e9ac1)
	sp := c19FileSpec{Content: cc, Align: p.CS, Dest: dc, Seed: r.U64()}
	sp.DestLen = c19PickDestLen(r, dc, p.Size, p.CS)
	content := c19MakeContent(cc, "f", p.Size, p.CS, sp.Seed)
	prefill, present := c19MakeDest(sp, content)
	src, dst := filepath.Join(dir, "srcx"), filepath.Join(dir, "dstx")
	if os.WriteFile(src, content, 0644) != nil || (present && os.WriteFile(dst, prefill, 0644) != nil) {
		c.count(c.notObs, "legacy-existing: cannot write files")
		return
	}
	ctx := context.Background()
	wire := &c19Buf{}
	observer := "legacy-delivery:content-" + cc + ":destination-" + dc
	detail := map[string]any{"content_class": cc, "destination_class": dc, "destination_length_before": len(prefill), "how": "legacy pipeline over a pre-existing destination"}
	if _, err := transfer.VerifC19LegacySendChunks(ctx, wire, "f", src, p.Size, p.CS); err != nil {
		c.violate(p, group, observer, fmt.Sprintf("sendFileChunksWindowed failed on a readable %d-byte file of %s content: %v", p.Size, cc, err), detail)
		return
	}
	chunks, _, err := parseLegacy(wire.buf)
	if err == nil {
		var off int64
		for _, ch := range chunks {
			if int64(ch.idx)*int64(p.CS) != off || off+int64(ch.n) > p.Size || !bytes.Equal(wire.buf[ch.off:ch.off+int(ch.n)], content[off:off+int64(ch.n)]) {
				err = fmt.Errorf("record of chunk %d (length %d) is not the file's bytes at %d", ch.idx, ch.n, off)
				break
			}
			off += int64(ch.n)
		}
		if err == nil && off != p.Size {
			err = fmt.Errorf("chunk records sum to %d bytes", off)
		}
	}
	if err != nil {
		c.violate(p, group, observer, fmt.Sprintf("legacy sender, %s content, size %d, chunk size %d: the records on the wire do not tile the file: %v", cc, p.Size, p.CS, err), detail)
		return
	}
	_, rerr := transfer.VerifC19LegacyRecvChunks(ctx, &c19Buf{buf: wire.buf}, "f", dst, uint64(p.Size), p.CS, nil)
	got, _ := os.ReadFile(dst)
	c.count(c.obs, "legacy_roundtrip_existing_destination")
	if rerr != nil || !bytes.Equal(got, content) {
		kind, dd := c19DescribeDiff(got, content, c19Prior(prefill, present, p.Size), p.CS)
		c.violate(p, group, observer, fmt.Sprintf("receiveFileChunksWindowed over a destination that existed before (%s, %d bytes; %s content) does not reproduce the file (err %v; %s: %v)", dc, len(prefill), cc, rerr, kind, dd), detail)
	}
}

func (c *c19Check) muxObserve(p c19Pair, group string, n uint32, content []byte, dir string, legacy bool) {
	name := "mux-recv"
	if legacy {
		name = "muxlegacy-recv"
	}
	if atomic.LoadInt64(&c.watchdogs) > 8 {
		c.count(c.notObs, name+": skipped after more than 8 watchdog hits in this run")
		return
	}
	res := c.muxRecv(p, legacy, content, dir, nil)
	transfer.VerifC19ForgetSidecars()
	if res.wire == nil {
		why := "no FileResumeInfo"
		if res.timedOut {
			why = "watchdog"
			c.R.Inconcl(fmt.Sprintf("%s %s: watchdog fired before FileResumeInfo arrived", name, p))
		} else if res.recvRet {
			why = fmt.Sprintf("receiver returned early (%v)", errClass(res.recvErr))
		}
		c.count(c.notObs, name+"_wire: "+why)
		return
	}
	c.count(c.obs, name+"_wire_total")
	if res.wire.TotalChunks != n {
		c.violate(p, group, name+"-total", fmt.Sprintf("%s answers FileBegin(size %d, chunk size %d) with FileResumeInfo.TotalChunks = %d, sender's chunkTotal = %d", name, p.Size, p.CS, res.wire.TotalChunks, n),
			map[string]any{"wire_total": res.wire.TotalChunks, "sender_total": n})
	}
	if res.diskSidecar != nil {
		c.count(c.obs, name+"_sidecar_on_disk")
		if res.diskSidecar.TotalChunks != n {
			c.violate(p, group, "sidecar-total", fmt.Sprintf("the sidecar %s created for size %d, chunk size %d says TotalChunks = %d, sender's chunkTotal = %d (FileResumeInfo said %d)", name, p.Size, p.CS, res.diskSidecar.TotalChunks, n, res.wire.TotalChunks),
				map[string]any{"sidecar_total": res.diskSidecar.TotalChunks, "sender_total": n, "wire_total": res.wire.TotalChunks, "how": "sidecar left on disk by " + name})
		}
	}
	if content == nil || legacy {
		return
	}
	switch {
	case res.done == nil && res.fileWhy != "":
		c.count(c.notObs, "mux-recv_delivery: "+res.fileWhy)
	case res.done == nil && res.timedOut:
		c.R.Inconcl(fmt.Sprintf("mux-recv %s: no FileDone within the watchdog after delivering the sender's %d chunks", p, n))
		c.count(c.notObs, "mux-recv_delivery: watchdog")
	case res.done == nil:
		c.count(c.obs, "mux-recv_delivery")
		c.violate(p, group, "mux-recv-delivery", fmt.Sprintf("receiver ended (%v) without FileDone after exactly the sender's %d chunks were delivered", res.recvErr, n), nil)
	case !res.done.OK:
		c.count(c.obs, "mux-recv_delivery")
		c.violate(p, group, "mux-recv-delivery", fmt.Sprintf("receiver refused the sender's %d chunks: FileDone{OK:false, %q}", n, res.done.ErrMsg), nil)
	case !res.fileOK:
		c.count(c.obs, "mux-recv_delivery")
		c.violate(p, group, "mux-recv-delivery", "after FileDone{OK:true}: "+res.fileWhy, nil)
	default:
		c.count(c.obs, "mux-recv_delivery")
		if res.recvRet && res.recvErr != nil {
			c.count(c.notObs, "mux-recv_return: "+errClass(res.recvErr))
		}
	}
}

func errClass(err error) string {
	if err == nil {
		return "nil"
	}
	s := err.Error()
	if len(s) > 60 {
		s = s[:60]
	}
	return s
}

type c19Chunk struct {
	idx, n, crc uint32
	off         int // offset of the payload inside the wire bytes
}

// parseLegacy splits the byte stream of sendFileChunksWindowed into chunk records.
func parseLegacy(b []byte) ([]c19Chunk, int, error) {
	var out []c19Chunk
	pos := 0
	for {
		if pos+4 > len(b) {
			return out, pos, errors.New("stream ends inside a record header")
		}
		if string(b[pos:pos+4]) == transfer.VerifC19EOFMagic {
			return out, pos, nil
		}
		if pos+12 > len(b) {
			return out, pos, errors.New("stream ends inside a record header")
		}
		ch := c19Chunk{idx: binary.BigEndian.Uint32(b[pos:]), n: binary.BigEndian.Uint32(b[pos+4:]), crc: binary.BigEndian.Uint32(b[pos+8:]), off: pos + 12}
		if ch.off+int(ch.n) > len(b) {
			return out, pos, errors.New("stream ends inside a payload")
		}
		out = append(out, ch)
		pos = ch.off + int(ch.n)
	}
}

// legacy observes the single-stream chunk pipeline on a real file.
func (c *c19Check) legacy(p c19Pair, group string, n uint32, content []byte, dir string, sc *transfer.Sidecar) {
	src := filepath.Join(dir, "src")
	if err := os.WriteFile(src, content, 0644); err != nil {
		c.count(c.notObs, "legacy: cannot write source file")
		return
	}
	ctx := context.Background()
	wire := &c19Buf{}
	if _, err := transfer.VerifC19LegacySendChunks(ctx, wire, "f", src, p.Size, p.CS); err != nil {
		c.count(c.obs, "legacy-send")
		c.violate(p, group, "legacy-send", fmt.Sprintf("sendFileChunksWindowed failed on a readable %d-byte file: %v", p.Size, err), nil)
		return
	}
	chunks, eofPos, err := parseLegacy(wire.buf)
	c.count(c.obs, "legacy-send")
	if err != nil || eofPos+4 != len(wire.buf) {
		c.violate(p, group, "legacy-send", fmt.Sprintf("legacy sender's stream is not a sequence of chunk records followed by the EOF marker (%v, eof at %d of %d)", err, eofPos, len(wire.buf)), nil)
		return
	}
	if uint32(len(chunks)) != n {
		c.violate(p, group, "legacy-send-total", fmt.Sprintf("sendFileChunksWindowed put %d chunks on the wire, multi-stream sender's chunkTotal = %d", len(chunks), n),
			map[string]any{"legacy_send_total": len(chunks), "sender_total": n})
	}
	var off int64
	for i, ch := range chunks {
		why := ""
		switch {
		case ch.idx != uint32(i):
			why = fmt.Sprintf("record %d carries index %d", i, ch.idx)
		case ch.n < 1 || ch.n > p.CS:
			why = fmt.Sprintf("chunk %d has length %d outside [1, cs]", i, ch.n)
		case off != int64(ch.idx)*int64(p.CS):
			why = fmt.Sprintf("chunk %d will be written at %d but the chunks before it end at %d", i, int64(ch.idx)*int64(p.CS), off)
		case off+int64(ch.n) > p.Size || !bytes.Equal(wire.buf[ch.off:ch.off+int(ch.n)], content[off:off+int64(ch.n)]):
			why = fmt.Sprintf("chunk %d does not carry the file's bytes [%d,%d)", i, off, off+int64(ch.n))
		case uint32(i) < n && ch.n != transfer.VerifC19ChunkSizeForIndex(p.Size, p.CS, ch.idx):
			why = fmt.Sprintf("chunk %d is %d bytes long, chunkSizeForIndex says %d", i, ch.n, transfer.VerifC19ChunkSizeForIndex(p.Size, p.CS, ch.idx))
		}
		if why != "" {
			c.violate(p, group, "legacy-send-tiling", "legacy sender: "+why, nil)
			return
		}
		off += int64(ch.n)
	}
	if off != p.Size {
		c.violate(p, group, "legacy-send-tiling", fmt.Sprintf("legacy sender's chunks sum to %d, file size is %d", off, p.Size), nil)
		return
	}

	// receiver, plain
	dst := filepath.Join(dir, "dst")
	_, rerr := transfer.VerifC19LegacyRecvChunks(ctx, &c19Buf{buf: wire.buf}, "f", dst, uint64(p.Size), p.CS, nil)
	got, _ := os.ReadFile(dst)
	c.count(c.obs, "legacy-recv_roundtrip")
	if rerr != nil || !bytes.Equal(got, content) {
		c.violate(p, group, "legacy-recv-total", fmt.Sprintf("receiveFileChunksWindowed does not reproduce the file from the legacy sender's %d chunks (err %v, %d of %d bytes)", len(chunks), rerr, len(got), len(content)), nil)
		return
	}
	// receiver, count probe: a zero-length record with index == count is put in front of the
	// sender's records. A receiver that counts more than n chunks accepts it and completes the
	// file; a receiver that counts n refuses it (or, if its reader error loses the race against
	// the closed queue, fails because no byte arrived) - an error either way.
	if n > 0 {
		var h [12]byte
		binary.BigEndian.PutUint32(h[0:4], n)
		probe := append(append([]byte{}, h[:]...), wire.buf...)
		_, perr := transfer.VerifC19LegacyRecvChunks(ctx, &c19Buf{buf: probe}, "f", filepath.Join(dir, "dst2"), uint64(p.Size), p.CS, nil)
		c.count(c.obs, "legacy-recv_count_probe")
		if perr == nil {
			c.violate(p, group, "legacy-recv-total", fmt.Sprintf("receiveFileChunksWindowed accepts a chunk record with index %d and completes the file although sender and legacy sender count %d chunks", n, n), nil)
		}
	} else {
		c.count(c.notObs, "legacy-recv_count_probe: size 0 (receiver applies no index range check)")
	}
	// receiver with a sidecar: marks exactly the sender's chunks
	if sc != nil {
		_, serr := transfer.VerifC19LegacyRecvChunks(ctx, &c19Buf{buf: wire.buf}, "f", filepath.Join(dir, "dst3"), uint64(p.Size), p.CS, sc)
		c.count(c.obs, "legacy-recv_sidecar_marks")
		set := transfer.VerifC19SidecarCountSet(sc)
		if serr != nil || uint32(set) != n {
			c.violate(p, group, "legacy-recv-marks", fmt.Sprintf("after receiving the legacy sender's %d chunks the sidecar has %d chunks marked (err %v)", len(chunks), set, serr), nil)
		}
	}
}

// ---------------------------------------------------------------- case lists

func c19Boundaries() []c19Pair {
	sizes := []int64{0, 1, 2, 1<<16 - 1, 1 << 16, 1<<16 + 1, 1<<31 - 1, 1 << 31, 1<<31 + 1, 1<<32 - 2, 1<<32 - 1, 1 << 32, 1<<32 + 1,
		c19MaxSize - 1, c19MaxSize, 4<<20 - 1, 4 << 20, 4<<20 + 1, 3 * (1<<32 - 1), 2560 * (1<<32 - 1), 2560*(1<<32-1) + 1}
	css := []uint32{1, 2, 3, 1<<16 - 1, 1 << 16, 1<<16 + 1, 4<<20 - 1, 4 << 20, 4<<20 + 1, 1<<31 - 1, 1 << 31, 1<<31 + 1, 1<<32 - 2, 1<<32 - 1, 2559, 2560, 2561}
	seen := map[c19Pair]bool{}
	var out []c19Pair
	for _, s := range sizes {
		for _, cs := range css {
			p := c19Pair{s, cs}
			if p.inDomain() && !seen[p] {
				seen[p] = true
				out = append(out, p)
			}
		}
	}
	return out
}

func c19Log(r *vk.Rng, max uint64) uint64 {
	bits := 1
	for bits < 64 && (uint64(1)<<uint(bits)) <= max {
		bits++
	}
	b := 1 + r.Intn(bits)
	v := r.U64()
	if b < 64 {
		v %= uint64(1) << uint(b)
	}
	if v < 1 {
		v = 1
	}
	if v > max {
		v = max
	}
	return v
}

// c19Random draws a pair of the domain; half of the pairs sit on or next to a multiple of cs.
func c19Random(r *vk.Rng) c19Pair {
	for {
		var p c19Pair
		switch r.Intn(4) {
		case 0, 1:
			maxK := c19MaxCount
			if r.Intn(2) == 0 {
				maxK = 1 << 16
			}
			k := c19Log(r, maxK)
			lim := uint64(c19MaxSize) / k
			if lim > c19MaxCS {
				lim = c19MaxCS
			}
			if lim < 1 {
				continue
			}
			cs := c19Log(r, lim)
			size := int64(k * cs)
			switch r.Intn(5) {
			case 0:
			case 1:
				size++
			case 2:
				size--
			case 3:
				size -= int64(r.U64() % cs)
			case 4:
				size += int64(r.U64() % cs)
			}
			p = c19Pair{size, uint32(cs)}
		case 2:
			p = c19Pair{int64(c19Log(r, uint64(c19MaxSize))) - int64(r.Intn(2)), uint32(c19Log(r, c19MaxCS))}
		case 3:
			p = c19Pair{int64(r.U64() % (1 << 20)), uint32(1 + r.U64()%4096)}
		}
		if p.inDomain() {
			return p
		}
	}
}

// ---------------------------------------------------------------- the check

func runC19(e *Env) {
	R := e.R
	R.Rule = "one case = one (file size, chunk size) pair of the domain (count fits 32 bits); distinct by value for the exhaustive small domain " +
		"(size 0..300 x chunk size 1..64), the boundary pairs and the first 100000 random pairs (later random pairs are evaluated but not listed as keys); " +
		"every pair is checked against the real sender helpers, the other observers (sidecar, receivers, legacy pipeline) where the count makes them affordable"
	base := e.Seed ^ vk.HashStr("c19"+e.Tier)
	// The observers create and remove ~15 files and directories per pair; on a journaling file
	// system that is 3-4x slower than the arithmetic deserves, so a tmpfs is used when there is one.
	work, workFS := e.Work, "scratch directory of the check"
	if d, err := os.MkdirTemp("/dev/shm", "verif-c19-"); err == nil {
		work, workFS = d, "tmpfs (/dev/shm), removed at exit"
		defer os.RemoveAll(d)
	}
	R.SetExtra("work_dir", workFS)
	c := &c19Check{R: R, work: work, obs: map[string]int{}, notObs: map[string]int{}, disagree: map[string]int{}, classes: map[string]int{}, existing: map[string]int{}}
	note := func(p c19Pair, n uint32) {
		c.mu.Lock()
		c.classes[p.class()]++
		if uint64(n) > c.maxCount {
			c.maxCount = uint64(n)
		}
		c.mu.Unlock()
	}

	t0 := time.Now()
	// ---- 1. exhaustive small domain: every observer on every pair ----
	var small []c19Pair
	for s := int64(0); s <= 300; s++ {
		for cs := uint32(1); cs <= 64; cs++ {
			small = append(small, c19Pair{s, cs})
		}
	}
	var smallDone int64
	vk.ParallelDo(len(small), 16, func(i int) {
		p := small[i]
		R.Eval()
		R.Distinct(p.String())
		dir := c.dir()
		defer os.RemoveAll(dir)
		n := c.tiling(p, "small-domain", 1<<16, nil)
		note(p, n)
		content := c19Content(p.Size, base^uint64(i))
		sc := c.sidecarDirect(p, "small-domain", n, dir)
		c.legacy(p, "small-domain", n, content, dir, sc)
		c.muxObserve(p, "small-domain", n, content, dir, false)
		c.muxObserve(p, "small-domain", n, nil, dir, true)
		c.verifyRead(p, "small-domain", n, content, dir)
		// content class x destination class: both lists are walked with co-prime strides over the
		// pair index, so every (size, cs) neighbourhood meets every combination
		// (the starting point depends on the seed, so another seed gives a pair another combination)
		j := i + int(base%uint64(len(c19ContentClasses)*len(c19ExistingDest)))
		cc := c19ContentClasses[j%len(c19ContentClasses)]
		dc := c19ExistingDest[(j/len(c19ContentClasses)+j)%len(c19ExistingDest)]
		c.muxExisting(p, "small-domain", n, dir, cc, dc, base^vk.Mix(uint64(i)+0xe1))
		c.legacyExisting(p, "small-domain", dir, cc, dc, base^vk.Mix(uint64(i)+0xe2))
		atomic.AddInt64(&smallDone, 1)
		if i < 3 || i == 64*7+3 {
			R.Sample(map[string]any{"group": "small-domain", "size": p.Size, "chunk_size": p.CS, "sender_total": n, "class": p.class(),
				"observed": "tiling of all indices, CreateSidecar, legacy send/recv on a real file, RecvManifestMultiStream wire count + delivery, RecvManifestMultiStreamLegacy wire count"})
		}
	})
	vk.Logf("c19 small domain done: %d pairs after %.1fs", smallDone, time.Since(t0).Seconds())
	verifyLarge := c.verifyReadLarge(base)

	// ---- 2. boundaries ----
	bnd := c19Boundaries()
	sidecarLimit := uint32(e.Pick(1<<24, 1<<27))
	var bndList []map[string]any
	var bmu sync.Mutex
	vk.ParallelDo(len(bnd), 8, func(i int) {
		p := bnd[i]
		R.Eval()
		R.Distinct(p.String())
		dir := c.dir()
		defer os.RemoveAll(dir)
		n := c.tiling(p, "boundary", 1<<16, vk.NewRng(base^uint64(i)))
		note(p, n)
		ent := map[string]any{"size": p.Size, "chunk_size": p.CS, "sender_total": n, "class": p.class()}
		var also []string
		if n <= sidecarLimit {
			c.sidecarDirect(p, "boundary", n, dir)
			also = append(also, "sidecar")
		}
		if n <= 1<<20 {
			c.muxObserve(p, "boundary", n, nil, dir, false)
			c.muxObserve(p, "boundary", n, nil, dir, true)
			also = append(also, "mux-recv", "muxlegacy-recv")
		}
		ent["also_observed"] = also
		bmu.Lock()
		bndList = append(bndList, ent)
		bmu.Unlock()
		if i%40 == 5 {
			R.Sample(map[string]any{"group": "boundary", "size": p.Size, "chunk_size": p.CS, "sender_total": n, "class": p.class(), "also_observed": also})
		}
	})
	if e.Thorough() {
		// the largest count of the domain: 2^32-1 chunks (512 MiB bitmap)
		p := c19Pair{1<<32 - 1, 1}
		dir := c.dir()
		n := transfer.VerifC19ChunkTotal(p.Size, p.CS)
		c.sidecarDirect(p, "boundary", n, dir)
		os.RemoveAll(dir)
		c.count(c.obs, "sidecar_direct_with_2^32-1_chunks")
	}
	vk.Logf("c19 boundaries done: %d pairs after %.1fs", len(bnd), time.Since(t0).Seconds())
	sort.Slice(bndList, func(i, j int) bool {
		a, b := bndList[i], bndList[j]
		if a["size"].(int64) != b["size"].(int64) {
			return a["size"].(int64) < b["size"].(int64)
		}
		return a["chunk_size"].(uint32) < b["chunk_size"].(uint32)
	})

	// ---- 3. seeded random pairs ----
	nRand := e.Pick(100000, 10000000)
	const batch = 5000
	nb := (nRand + batch - 1) / batch
	var randSeen int64
	vk.ParallelDo(nb, 16, func(b int) {
		r := vk.NewRng(base ^ vk.Mix(uint64(b)+0x77))
		dir := c.dir()
		defer os.RemoveAll(dir)
		for j := 0; j < batch && b*batch+j < nRand; j++ {
			p := c19Random(r)
			R.Eval()
			if b*batch+j < 100000 {
				R.Distinct(p.String())
			}
			n := c.tiling(p, "random", 4096, r)
			note(p, n)
			// sidecar: every pair with an affordable bitmap (<= 8 KiB) in quick, every second one in thorough
			if n <= 1<<16 && (!e.Thorough() || j%2 == 0) {
				if sc := c.sidecarDirect(p, "random", n, dir); sc != nil {
					os.Remove(sc.Path)
				}
			}
			// receivers: a sample (each run creates an output tree)
			if n <= 1<<14 && j%e.Pick(10, 50) == 0 {
				sub := c.dir()
				c.muxObserve(p, "random", n, nil, sub, false)
				if j%e.Pick(50, 500) == 0 {
					c.muxObserve(p, "random", n, nil, sub, true)
				}
				os.RemoveAll(sub)
			}
			atomic.AddInt64(&randSeen, 1)
			if b == 0 && j < 2 {
				R.Sample(map[string]any{"group": "random", "size": p.Size, "chunk_size": p.CS, "sender_total": n, "class": p.class()})
			}
		}
	})

	vk.Logf("c19 random done: %d pairs after %.1fs", randSeen, time.Since(t0).Seconds())
	// ---- evidence ----
	c.mu.Lock()
	defer c.mu.Unlock()
	R.SetExtra("pairs", map[string]any{"small_domain_exhaustive": smallDone, "small_domain_planned": len(small), "boundary": len(bnd), "random": randSeen})
	R.SetExtra("observations_per_observer", c.obs)
	R.SetExtra("observer_could_not_observe", c.notObs)
	R.SetExtra("disagreements_by_key_and_observation", c.disagree)
	R.SetExtra("pair_classes", c.classes)
	R.SetExtra("largest_chunk_count_seen", c.maxCount)
	R.SetExtra("boundary_pairs", bndList)
	R.SetExtra("not_covered", "receivers are not observed for counts above 2^20 (FileResumeInfo carries the whole bitmap); the legacy pipeline is observed on the small domain only (needs real files of that size); for counts above 65536 (random: 4096) chunkSizeForIndex is evaluated at the first/last 32 and 64 random indices, the sum then follows algebraically")

	R.SetExtra("deliveries_over_a_pre_existing_destination", c.existing)
	R.Require(int(smallDone) == len(small), "small domain not enumerated completely")
	R.Require(c.obs["verification-read/small-domain"] >= len(small)-64, fmt.Sprintf("the verification read (hashFileChunk) returned a value for every chunk of only %d pairs of the small domain", c.obs["verification-read/small-domain"]))
	R.Require(c.obs["verification-read/large-chunk-sizes"] >= verifyLarge, fmt.Sprintf("the verification read (hashFileChunk) returned a value for every chunk of only %d of %d pairs with large chunk sizes", c.obs["verification-read/large-chunk-sizes"], verifyLarge))
	R.Require(c.obs["mux-recv_delivery_existing_destination"] >= len(small)-64, fmt.Sprintf("only %d deliveries over a pre-existing destination reached a verdict", c.obs["mux-recv_delivery_existing_destination"]))
	R.Require(c.obs["legacy_roundtrip_existing_destination"] >= len(small)-64, fmt.Sprintf("only %d legacy round trips over a pre-existing destination reached a verdict", c.obs["legacy_roundtrip_existing_destination"]))
	for _, cc := range c19ContentClasses {
		R.Require(c.existing["content-"+cc] >= 1000, "content class "+cc+" delivered fewer than 1000 times over a pre-existing destination")
	}
	for _, dc := range c19ExistingDest {
		R.Require(c.existing["destination-"+dc] >= 1000, "destination class "+dc+" met fewer than 1000 times")
	}
	for _, k := range []string{"all-zero-chunk-over-nonzero-destination-bytes", "chunk-equal-to-previous-chunk", "zero-run-across-a-chunk-boundary-unaligned", "all-zero-short-last-chunk", "chunk-already-present-at-destination"} {
		R.Require(c.existing["in-geometry/"+k] >= 500, "situation '"+k+"' occurred fewer than 500 times in the deliveries over a pre-existing destination")
	}
	for _, o := range []string{"sender_tiling_all_indices", "sidecar_direct", "legacy-send", "legacy-recv_roundtrip", "mux-recv_wire_total", "mux-recv_delivery", "muxlegacy-recv_wire_total"} {
		R.Require(c.obs[o] >= len(small), fmt.Sprintf("observer %s made %d observations, fewer than the %d pairs of the small domain", o, c.obs[o], len(small)))
	}
	R.Require(c.obs["legacy-recv_count_probe"] >= len(small)-64, "legacy receiver count probe did not run on every pair with size > 0")
	R.Require(int(randSeen) == nRand, "random pairs not all evaluated")
}
