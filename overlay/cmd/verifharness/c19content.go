//go:build verif

package main

// C19 – content classes and destination classes shared by the stages "geometry", "history" and
// "writes".
//
// The geometry of a transfer must not depend on WHAT the bytes are and on what the destination
// held before. The other generators of this property produce pseudo-random bytes into fresh
// directories only, which exercises neither: a decision such as "this chunk is all zero / equal to
// the previous one / already there, so it needs no read, no frame or no write" is never taken, and
// a write that is left out cannot be seen when the range reads back as the right bytes anyway.
//
//   content classes      what the source file holds, relative to an alignment a (a chunk size the
//                        schedule of the case uses; the chunk size a file finally gets may differ,
//                        so both aligned and unaligned layouts occur – the harness counts, in the
//                        geometry the FileBegin announced, which features really occurred)
//   destination classes  what the output path holds before the receiver starts; every byte of a
//                        pre-existing destination differs from the source byte at that offset
//                        ("sentinel": src[i] XOR a non-zero mask), so a byte that survives is a
//                        byte the receiver did not write

import (
	"bytes"
	"crypto/sha256"
	"encoding/hex"
	"fmt"
	"os"
	"path/filepath"

	vk "github.com/sheerbytes/sheerbytes/internal/verifkit"
)

var c19ContentClasses = []string{"random", "all-zero", "zero-chunks", "zero-runs-unaligned", "repeat-chunk", "repeat-unaligned", "const-byte"}

var c19DestClasses = []string{"absent", "same-length", "longer", "shorter", "older-version", "empty-file"}

// c19FileSpec describes one file of a content case.
type c19FileSpec struct {
	Content string `json:"content"`
	Align   uint32 `json:"content_laid_out_for_chunk_size"`
	Dest    string `json:"destination_before"`
	DestLen int64  `json:"destination_length_before"`
	Seed    uint64 `json:"seed"`
}

// c19MakeContent returns the source bytes of a file; a pure function of its arguments.
func c19MakeContent(class string, rel string, size int64, align uint32, seed uint64) []byte {
	b := make([]byte, size)
	if size == 0 {
		return b
	}
	if align == 0 {
		align = 64
	}
	a := int64(align)
	r := vk.NewRng(seed ^ vk.HashStr("c19content/"+class))
	random := func() { vk.FillContent(seed, rel, 0, b) }
	n := (size + a - 1) / a
	zero := func(lo, hi int64) {
		if lo < 0 {
			lo = 0
		}
		for i := lo; i < hi && i < size; i++ {
			b[i] = 0
		}
	}
	switch class {
	case "all-zero":
	case "zero-chunks":
		random()
		switch r.Intn(4) {
		case 0: // a random subset, at least one
			any := false
			for j := int64(0); j < n; j++ {
				if r.Bool() {
					zero(j*a, (j+1)*a)
					any = true
				}
			}
			if !any {
				j := int64(r.Intn(int(n)))
				zero(j*a, (j+1)*a)
			}
		case 1: // sparse head
			k := int64(1)
			if n > 1 {
				k = 1 + int64(r.Intn(int(n-1)))
			}
			zero(0, k*a)
		case 2: // sparse tail (includes the short last chunk)
			k := int64(1)
			if n > 1 {
				k = 1 + int64(r.Intn(int(n-1)))
			}
			zero((n-k)*a, size)
		case 3: // all but one chunk
			keep := int64(r.Intn(int(n)))
			for j := int64(0); j < n; j++ {
				if j != keep {
					zero(j*a, (j+1)*a)
				}
			}
		}
	case "zero-runs-unaligned":
		random()
		runs := 1 + r.Intn(3)
		for k := 0; k < runs; k++ {
			start := int64(r.Intn(int(size)))
			if start%a == 0 {
				start++
			}
			l := a/2 + 1 + int64(r.Intn(int(2*a+1)))
			if (start+l)%a == 0 {
				l++
			}
			zero(start, start+l)
		}
	case "repeat-chunk":
		random()
		if r.Bool() || n < 3 {
			// periodic with period a: every chunk equals its predecessor
			for i := a; i < size; i++ {
				b[i] = b[i-a]
			}
		} else {
			// some chunks repeat their predecessor
			for j := int64(1); j < n; j++ {
				if r.Bool() {
					for i := j * a; i < (j+1)*a && i < size; i++ {
						b[i] = b[i-a]
					}
				}
			}
		}
	case "repeat-unaligned":
		random()
		p := a + 1
		switch r.Intn(3) {
		case 0:
			if a > 1 {
				p = a - 1
			}
		case 1:
			p = a/2 + 1
		}
		for i := p; i < size; i++ {
			b[i] = b[i-p]
		}
	case "const-byte":
		v := []byte{0xff, 0x01, byte(1 + r.Intn(255))}[r.Intn(3)]
		for i := range b {
			b[i] = v
		}
	default: // "random"
		random()
	}
	return b
}

// c19Sentinel returns length bytes of which byte i differs from src[i] (i < len(src)) and is
// non-zero beyond the end of src.
func c19Sentinel(src []byte, length int64, seed uint64) []byte {
	d := make([]byte, length)
	for i := int64(0); i < length; i += 8 {
		v := vk.Mix(seed + uint64(i)*0x9e3779b97f4a7c15)
		for j := int64(0); j < 8 && i+j < length; j++ {
			m := byte(v>>(8*uint(j)))%255 + 1 // 1..255
			if i+j < int64(len(src)) {
				d[i+j] = src[i+j] ^ m
			} else {
				d[i+j] = m
			}
		}
	}
	return d
}

// c19PickDestLen chooses the length of the pre-existing destination for a class.
func c19PickDestLen(r *vk.Rng, class string, size int64, align uint32) int64 {
	a := int64(align)
	if a == 0 {
		a = 64
	}
	switch class {
	case "same-length", "older-version":
		return size
	case "longer":
		d := []int64{1, a - 1, a, a + 1, 3*a + 5, 7}[r.Intn(6)]
		if d < 1 {
			d = 1
		}
		return size + d
	case "shorter":
		if size >= 2 {
			return 1 + int64(r.Intn(int(size-1)))
		}
		return 0
	}
	return 0
}

// c19MakeDest returns what the output path holds before the receiver starts (present=false: no
// such path). "older-version": same length, about half of the align-chunks already equal the
// source, the others are sentinel bytes.
func c19MakeDest(sp c19FileSpec, src []byte) (data []byte, present bool) {
	switch sp.Dest {
	case "", "absent":
		return nil, false
	case "empty-file":
		return []byte{}, true
	}
	l := sp.DestLen
	if l < 0 {
		l = 0
	}
	d := c19Sentinel(src, l, sp.Seed^0xd5)
	if sp.Dest == "older-version" {
		a := int64(sp.Align)
		if a == 0 {
			a = 64
		}
		r := vk.NewRng(sp.Seed ^ 0x01de)
		for lo := int64(0); lo < l && lo < int64(len(src)); lo += a {
			if r.Bool() {
				hi := lo + a
				if hi > l {
					hi = l
				}
				if hi > int64(len(src)) {
					hi = int64(len(src))
				}
				copy(d[lo:hi], src[lo:hi])
			}
		}
	}
	return d, true
}

// c19Prior is the content the output file has right after the receiver handled FileBegin
// (opened without O_TRUNC, then truncated/extended to size): the earlier bytes cut to size,
// zero-extended. nil/absent gives all zeros.
func c19Prior(dest []byte, present bool, size int64) []byte {
	p := make([]byte, size)
	if present {
		copy(p, dest)
	}
	return p
}

// c19Features counts, in the geometry (len(src), cs), the content-dependent situations a file
// really presented. prior is c19Prior(...).
type c19Features struct {
	Chunks, ZeroChunks, ZeroOverNonzeroDest, RepeatChunks, ZeroRunAcrossBoundary, ZeroRunCoveringChunkUnaligned, ZeroLastShortChunk, ChunkAlreadyAtDest int
}

func c19Analyse(src, prior []byte, cs uint32) (f c19Features) {
	size := int64(len(src))
	if cs == 0 || size == 0 {
		return f
	}
	c := int64(cs)
	n := (size + c - 1) / c
	f.Chunks = int(n)
	isZero := func(b []byte) bool {
		for _, x := range b {
			if x != 0 {
				return false
			}
		}
		return true
	}
	for j := int64(0); j < n; j++ {
		lo, hi := j*c, (j+1)*c
		if hi > size {
			hi = size
		}
		ch := src[lo:hi]
		if isZero(ch) {
			f.ZeroChunks++
			if prior != nil && !isZero(prior[lo:hi]) {
				f.ZeroOverNonzeroDest++
			}
			if j == n-1 && hi-lo < c {
				f.ZeroLastShortChunk++
			}
		} else if j > 0 && hi-lo == c && bytes.Equal(ch, src[lo-c:lo]) {
			f.RepeatChunks++
		}
		if prior != nil && bytes.Equal(ch, prior[lo:hi]) && !isZero(ch) {
			f.ChunkAlreadyAtDest++
		}
	}
	// maximal zero runs
	for i := int64(0); i < size; {
		if src[i] != 0 {
			i++
			continue
		}
		s := i
		for i < size && src[i] == 0 {
			i++
		}
		e := i // run [s,e)
		if e-s < 2 {
			continue
		}
		aligned := s%c == 0 && (e%c == 0 || e == size)
		if aligned {
			continue
		}
		if s/c != (e-1)/c {
			f.ZeroRunAcrossBoundary++
			first := (s + c - 1) / c // first chunk starting inside the run
			if (first+1)*c <= e || (first == n-1 && first*c >= s && e == size) {
				f.ZeroRunCoveringChunkUnaligned++
			}
		}
	}
	return f
}

func (f c19Features) addTo(count func(string, int), prefix string) {
	count(prefix+"chunks", f.Chunks)
	count(prefix+"all-zero-chunk", f.ZeroChunks)
	count(prefix+"all-zero-chunk-over-nonzero-destination-bytes", f.ZeroOverNonzeroDest)
	count(prefix+"chunk-equal-to-previous-chunk", f.RepeatChunks)
	count(prefix+"zero-run-across-a-chunk-boundary-unaligned", f.ZeroRunAcrossBoundary)
	count(prefix+"unaligned-zero-run-covering-a-whole-chunk", f.ZeroRunCoveringChunkUnaligned)
	count(prefix+"all-zero-short-last-chunk", f.ZeroLastShortChunk)
	count(prefix+"chunk-already-present-at-destination", f.ChunkAlreadyAtDest)
}

// c19DescribeDiff explains, chunk by chunk of the geometry (len(want), cs), how the output
// differs from the source: which chunks still hold the bytes the destination had before (= were
// never written), which hold something else.
func c19DescribeDiff(got, want, prior []byte, cs uint32) (kind string, detail map[string]any) {
	detail = map[string]any{"output_length": len(got), "source_length": len(want)}
	if len(got) != len(want) {
		return "length", detail
	}
	if cs == 0 {
		return "bytes", detail
	}
	c := int64(cs)
	size := int64(len(want))
	var unwritten, other []string
	for lo := int64(0); lo < size; lo += c {
		hi := lo + c
		if hi > size {
			hi = size
		}
		if bytes.Equal(got[lo:hi], want[lo:hi]) {
			continue
		}
		s := fmt.Sprintf("chunk %d = [%d,%d)", lo/c, lo, hi)
		if prior != nil && bytes.Equal(got[lo:hi], prior[lo:hi]) {
			if len(unwritten) < 6 {
				unwritten = append(unwritten, s)
			}
		} else if len(other) < 6 {
			other = append(other, s)
		}
	}
	detail["chunks_still_holding_the_destinations_earlier_bytes"] = unwritten
	detail["chunks_with_other_wrong_bytes"] = other
	if len(unwritten) > 0 && len(other) == 0 {
		return "never-written", detail
	}
	return "bytes", detail
}

func c19Sum(b []byte) string {
	s := sha256.Sum256(b)
	return hex.EncodeToString(s[:12])
}

// c19WriteFile writes data to path, creating parent directories.
func c19WriteFile(path string, data []byte) error {
	if err := os.MkdirAll(filepath.Dir(path), 0755); err != nil {
		return err
	}
	return os.WriteFile(path, data, 0644)
}
