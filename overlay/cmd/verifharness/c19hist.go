//go:build verif

package main

// C19, stage "history" – chunk geometry across a *history*, not for one (size, chunk size) pair.
//
// The stage "geometry" (c19.go) compares every observer for one pair at a time. Two ways remain in
// which "sender, receiver and resume metadata agree" can fail although every single-pair formula is
// right; both need more than one chunk size in one execution:
//
//   A. geometry recorded under chunk size c1 is re-used under chunk size c2
//      (a) LoadOrCreateSidecar / LoadOrCreateSidecarWithFallback (sidecar at the primary or at the
//          fallback path) over triples (size, c1, c2) – every pair of the small domain with the SAME
//          chunk count (where only the chunk size tells the layouts apart), a sample with different
//          counts and the same-size control – with non-prefix bitmaps;
//      (b) end to end: the real receiver is interrupted after a chosen (non-prefix) subset of the
//          c1-chunks of one file was written and marked, then the real sender and the real receiver
//          run a resumed transfer whose chunk size differs (same count / different count / same size).
//   B. the parameters change while a manifest is in flight: real SendManifestMultiStream /
//      RecvManifestMultiStream transfers of several files in which Options.ParamSource (what the
//      application's tuner drives) returns a different chunk size at later invocations.
//
// Oracles (all over observed events; harness arithmetic is only floor/ceil and interval cover):
//   tree      both endpoints returned nil  =>  output tree identical to the source tree
//   frames    every data frame the sender wrote (recorded below transfer.Conn) is a chunk of the
//             geometry its own FileBegin announced: index < ceil(S/cb), length = min(cb, S-index*cb),
//             payload = source bytes [index*cb, index*cb+length)
//   count     FileResumeInfo.TotalChunks the receiver answers = ceil(S/cb) of that FileBegin
//   claims    every chunk a sidecar handed out by the loaders / a FileResumeInfo on the wire declares
//             complete, read in the CURRENT geometry, lies inside the bytes that were really written
//             (which the harness knows: it chose the subset that reached the disk)

import (
	"bytes"
	"context"
	"encoding/binary"
	"fmt"
	"os"
	"path/filepath"
	"sort"
	"sync"
	"sync/atomic"
	"time"

	"github.com/sheerbytes/sheerbytes/internal/transfer"
	"github.com/sheerbytes/sheerbytes/internal/verifhook"
	vk "github.com/sheerbytes/sheerbytes/internal/verifkit"
	"github.com/sheerbytes/sheerbytes/pkg/manifest"
)

func init() { register("c19hist", runC19Hist) }

type c19Hist struct {
	R    *vk.Report
	work string
	seq  int64

	mu        sync.Mutex
	obs       map[string]int
	notObs    map[string]int
	viol      map[string]int
	watchdogs int64

	marks  sync.Map // file key (uint64) -> *c19Marks
	writes sync.Map // file key (uint64) -> *c19WriteLog
}

func (h *c19Hist) count(m map[string]int, k string) { h.mu.Lock(); m[k]++; h.mu.Unlock() }
func (h *c19Hist) countN(m map[string]int, k string, n int) {
	h.mu.Lock()
	m[k] += n
	h.mu.Unlock()
}
func (h *c19Hist) dir() string {
	d := filepath.Join(h.work, fmt.Sprintf("h%d", atomic.AddInt64(&h.seq, 1)))
	_ = os.MkdirAll(d, 0755)
	return d
}
func (h *c19Hist) violate(key, what string, cs any, detail any) {
	h.count(h.viol, key)
	h.R.Violate(key, what, cs, detail)
}

func c19Ceil(size int64, cs uint32) uint64 {
	if cs == 0 {
		return 0
	}
	return (uint64(size) + uint64(cs) - 1) / uint64(cs)
}

// c19Cover is the set of bytes of one file that really reached the disk.
type c19Cover []bool

func c19NewCover(size int64, cs uint32, chunks []uint32) c19Cover {
	c := make(c19Cover, size)
	for _, i := range chunks {
		for b := int64(i) * int64(cs); b < int64(i+1)*int64(cs) && b < size; b++ {
			c[b] = true
		}
	}
	return c
}

// holds reports whether chunk idx of the geometry (len(c), cs) lies inside the written bytes;
// a chunk that starts at or beyond the end of the file does not.
func (c c19Cover) holds(cs uint32, idx uint32) bool {
	lo := int64(idx) * int64(cs)
	if lo >= int64(len(c)) {
		return false
	}
	for b := lo; b < lo+int64(cs) && b < int64(len(c)); b++ {
		if !c[b] {
			return false
		}
	}
	return true
}

// ------------------------------------------------------------------ A(a): the sidecar loaders

var c19Loaders = []string{"LoadOrCreateSidecar", "WithFallback-primary", "WithFallback-fallback"}

func c19Patterns(n uint32) map[string][]uint32 {
	out := map[string][]uint32{}
	var even, tail []uint32
	for i := uint32(0); i < n; i += 2 {
		even = append(even, i)
	}
	for i := uint32(1); i < n; i++ {
		tail = append(tail, i)
	}
	out["even"] = even
	if n >= 2 {
		out["last"] = []uint32{n - 1}
	}
	if n >= 3 {
		out["all-but-first"] = tail
	}
	return out
}

// reuse stores a sidecar for (size, c1) with the given chunks marked (through CreateSidecar,
// MarkComplete, Flush) and asks a loader for the sidecar of (size, c2).
func (h *c19Hist) reuse(size int64, c1, c2 uint32, cls, pat string, chunks []uint32, loader int, dir string) {
	const id = "c19reuse00000001"
	primary := filepath.Join(dir, "p", id+".sbxmap")
	fallback := filepath.Join(dir, "f", id+".sbxmap")
	_ = os.Remove(primary)
	_ = os.Remove(fallback)
	where := primary
	if loader == 2 {
		where = fallback
	}
	sc1, err := transfer.CreateSidecar(where, id, size, c1)
	if err != nil {
		h.count(h.notObs, "sidecar-reuse: CreateSidecar failed")
		return
	}
	for _, i := range chunks {
		sc1.MarkComplete(i)
	}
	if err := sc1.Flush(); err != nil {
		h.count(h.notObs, "sidecar-reuse: Flush failed")
		return
	}
	var got *transfer.Sidecar
	switch loader {
	case 0:
		got, err = transfer.LoadOrCreateSidecar(primary, id, size, c2)
	default:
		got, err = transfer.LoadOrCreateSidecarWithFallback(primary, fallback, id, size, c2)
	}
	if err != nil || got == nil {
		h.count(h.notObs, "sidecar-reuse: loader failed")
		return
	}
	h.R.Eval()
	h.count(h.obs, "sidecar-reuse/"+cls+"/"+c19Loaders[loader])
	cs := map[string]any{"size": size, "recorded_chunk_size": c1, "current_chunk_size": c2, "recorded_chunks": chunks, "pattern": pat,
		"loader": c19Loaders[loader], "class": cls, "recorded_total": c19Ceil(size, c1), "current_total": c19Ceil(size, c2)}
	want := transfer.VerifC19ChunkTotal(size, c2)
	if got.TotalChunks != want {
		h.violate("sidecar-reuse-"+cls+":count:"+c19Loaders[loader],
			fmt.Sprintf("%s(size %d, chunk size %d) over a sidecar recorded with chunk size %d returns TotalChunks = %d, the sender counts %d", c19Loaders[loader], size, c2, c1, got.TotalChunks, want), cs,
			map[string]any{"returned_total": got.TotalChunks, "returned_chunk_size": got.ChunkSize})
		return
	}
	cover := c19NewCover(size, c1, chunks)
	kept := 0
	for i := uint32(0); i < got.TotalChunks; i++ {
		if !got.IsComplete(i) {
			continue
		}
		kept++
		if !cover.holds(c2, i) {
			h.violate("sidecar-reuse-"+cls+":claims:"+c19Loaders[loader],
				fmt.Sprintf("%s(size %d, chunk size %d) hands out a sidecar in which chunk %d = bytes [%d,%d) is complete; the stored sidecar was recorded with chunk size %d and chunks %v, which cover other bytes",
					c19Loaders[loader], size, c2, i, int64(i)*int64(c2), min64(int64(i+1)*int64(c2), size), c1, chunks), cs,
				map[string]any{"claimed_chunk": i, "returned_chunk_size": got.ChunkSize, "returned_total": got.TotalChunks})
			return
		}
	}
	if kept > 0 {
		h.count(h.obs, "sidecar-reuse-bits-kept/"+cls)
	}
}

func min64(a, b int64) int64 {
	if a < b {
		return a
	}
	return b
}

func (h *c19Hist) reuseMatrix(maxSize int64, maxCS uint32, diffEvery int) {
	var triples int64
	vk.ParallelDo(int(maxSize), 16, func(k int) {
		size := int64(k + 1)
		dir := h.dir()
		defer os.RemoveAll(dir)
		n := 0
		for c1 := uint32(1); c1 <= maxCS; c1++ {
			n1 := c19Ceil(size, c1)
			for c2 := uint32(1); c2 <= maxCS; c2++ {
				n2 := c19Ceil(size, c2)
				cls := "diffcount"
				switch {
				case c1 == c2:
					cls = "samesize"
					if c1%4 != 1 {
						continue
					}
				case n1 == n2:
					cls = "samecount"
					if n1 == 1 && (c1+c2)%8 != 0 {
						continue // one chunk = the whole file under both sizes: a sample is enough
					}
				default:
					n++
					if n%diffEvery != 0 {
						continue
					}
				}
				atomic.AddInt64(&triples, 1)
				if cls == "samecount" && n1 >= 2 {
					h.R.Distinct(fmt.Sprintf("reuse:%d/%d->%d", size, c1, c2))
				}
				for pat, chunks := range c19Patterns(uint32(n1)) {
					for l := range c19Loaders {
						h.reuse(size, c1, c2, cls, pat, chunks, l, dir)
					}
				}
			}
		}
	})
	h.R.SetExtra("sidecar_reuse_triples", triples)
}

// ------------------------------------------------------------------ real transfers

type c19Marks struct {
	mu  sync.Mutex
	set map[uint32]bool
	ch  chan struct{}
}

// c19Sched is what Options.ParamSource returns: Vals[k] at its k-th invocation (the first one is
// the sender's start-up call), the last value for all later ones.
type c19Sched struct {
	Class string   `json:"class"`
	Vals  []uint32 `json:"chunk_size_at_invocation"`
}

func (s c19Sched) at(k int) uint32 {
	if k >= len(s.Vals) {
		k = len(s.Vals) - 1
	}
	return s.Vals[k]
}

type c19Partial struct {
	Rel    string   `json:"file"`
	C1     uint32   `json:"chunk_size_of_first_run"`
	Chunks []uint32 `json:"chunks_written_in_first_run"`
	Kind   string   `json:"bitmap_kind"`
}

type c19Case struct {
	ID        int         `json:"id"`
	History   string      `json:"history"`
	Tree      vk.Tree     `json:"tree"`
	Sched     c19Sched    `json:"param_source"`
	OptCS     uint32      `json:"options_chunk_size"`
	Streams   int         `json:"streams"`
	Transport string      `json:"transport"`
	Resume    bool        `json:"resume"`
	Verify    string      `json:"resume_verify"`
	Partial   *c19Partial `json:"first_run,omitempty"`
	// content cases only: one spec per entry of Tree.Entries (content class, destination before)
	Files []c19FileSpec `json:"files,omitempty"`
}

func (c c19Case) class() string { return c.History + "/" + c.Sched.Class }

// family is the history family used in the keys of the content cases.
func (c c19Case) family() string {
	if c.Partial != nil {
		return "resume-content"
	}
	return "fresh-content"
}

func (c c19Case) spec(rel string) (c19FileSpec, bool) {
	if len(c.Files) == len(c.Tree.Entries) {
		for i, e := range c.Tree.Entries {
			if e.Rel == rel {
				return c.Files[i], true
			}
		}
	}
	return c19FileSpec{}, false
}

// fileBytes returns the source content of one file of the case.
func (c c19Case) fileBytes(rel string, size int64) []byte {
	if sp, ok := c.spec(rel); ok {
		return c19MakeContent(sp.Content, rel, size, sp.Align, sp.Seed)
	}
	b := make([]byte, size)
	vk.FillContent(c.Tree.Seed, rel, 0, b)
	return b
}

// destBefore returns what the output path of rel held before any receiver of the case started.
func (c c19Case) destBefore(rel string, src []byte) ([]byte, bool) {
	if sp, ok := c.spec(rel); ok {
		return c19MakeDest(sp, src)
	}
	return nil, false
}

// fileClass names the input class of one file for violation keys.
func (c c19Case) fileClass(rel string) string {
	if sp, ok := c.spec(rel); ok {
		return "content-" + sp.Content + ":destination-" + sp.Dest
	}
	return "content-random:destination-absent"
}

// c19WriteLog counts the hits of recv.chunk.afterWrite per chunk index of one file.
type c19WriteLog struct {
	mu     sync.Mutex
	counts map[uint32]int
}

type c19Wire struct {
	begins  map[uint64][]transfer.FileBegin
	resumes map[uint64][]transfer.FileResumeInfo
	frames  []c19Frame
	header  bool
}

type c19Frame struct {
	key      uint64
	idx, n   uint32
	payload  []byte
	stream   int
	complete bool
}

func c19ParseWire(d *vk.Deco) c19Wire {
	w := c19Wire{begins: map[uint64][]transfer.FileBegin{}, resumes: map[uint64][]transfer.FileResumeInfo{}}
	out := &c19Buf{buf: d.Recorded(0, "w")}
	if _, err := transfer.VerifC18ReadControlHeader(out); err == nil {
		w.header = true
		for {
			typ, msg, err := transfer.VerifC18ReadControlMessage(out)
			if err != nil {
				break
			}
			if typ == transfer.VerifC18TypeFileBegin {
				fb := msg.(transfer.FileBegin)
				w.begins[fb.StreamID] = append(w.begins[fb.StreamID], fb)
			}
		}
	}
	in := &c19Buf{buf: d.Recorded(0, "r")}
	for {
		typ, msg, err := transfer.VerifC18ReadControlMessage(in)
		if err != nil {
			break
		}
		if typ == transfer.VerifC18TypeFileResumeInfo {
			ri := msg.(transfer.FileResumeInfo)
			w.resumes[ri.StreamID] = append(w.resumes[ri.StreamID], ri)
		}
	}
	for _, st := range d.Stats() {
		if st.Ordinal == 0 {
			continue
		}
		b := d.Recorded(st.Ordinal, "w")
		for pos := 0; pos+transfer.VerifC19DataChunkHeaderLen <= len(b); {
			f := c19Frame{key: binary.BigEndian.Uint64(b[pos:]), idx: binary.BigEndian.Uint32(b[pos+8:]), n: binary.BigEndian.Uint32(b[pos+12:]), stream: st.Ordinal}
			pos += transfer.VerifC19DataChunkHeaderLen
			if pos+int(f.n) > len(b) {
				break // the stream ended inside this frame (aborted run)
			}
			f.payload = b[pos : pos+int(f.n)]
			f.complete = true
			pos += int(f.n)
			w.frames = append(w.frames, f)
		}
	}
	return w
}

type c19RunRes struct {
	sendErr, recvErr error
	sendRet, recvRet bool
	watchdog         bool
	setupErr         error
	calls            int
	wire             c19Wire
}

func (r c19RunRes) bothOK() bool {
	return r.setupErr == nil && !r.watchdog && r.sendRet && r.recvRet && r.sendErr == nil && r.recvErr == nil
}

// transferRun runs the real sender against the real receiver; the sender's connection is
// decorated with the recording decorator of the kit.
func (h *c19Hist) transferRun(c c19Case, lp *vk.ListenerPool, m manifest.Manifest, src, out string) (res c19RunRes) {
	ctx, cancel := context.WithCancel(context.Background())
	defer cancel()
	var sendConn, recvConn transfer.Conn
	var pair *vk.Pair
	switch c.Transport {
	case "quic":
		l := lp.Get()
		defer lp.Put(l)
		p, err := l.NewPair(ctx)
		if err != nil {
			res.setupErr = err
			return res
		}
		pair = p
		defer p.Close()
		sendConn, recvConn = p.Dial, p.Accept
	default:
		t1, t2 := transfer.NewMockPair()
		dc, err := t1.Dial(ctx, "peer2")
		if err != nil {
			res.setupErr = err
			return res
		}
		ac, err := t2.Accept(ctx)
		if err != nil {
			res.setupErr = err
			return res
		}
		sendConn, recvConn = dc, ac
	}
	deco := &vk.Deco{Inner: sendConn, RecordAll: true}
	decoConn := deco.Wrap()

	var pmu sync.Mutex
	calls := 0
	sopts := transfer.Options{
		ChunkSize:     c.OptCS,
		ParallelFiles: c.Streams,
		Resume:        c.Resume,
		ResumeVerify:  c.Verify,
		HashAlg:       "crc32c",
		ParamSource: func() transfer.RuntimeParams {
			pmu.Lock()
			k := calls
			calls++
			pmu.Unlock()
			return transfer.RuntimeParams{ChunkSize: c.Sched.at(k), ParallelFiles: c.Streams}
		},
	}
	ropts := transfer.Options{Resume: c.Resume, NoRootDir: true, HashAlg: "crc32c", ParallelFiles: c.Streams}

	closeSend := func() {
		_ = decoConn.Close()
		if pair != nil {
			_ = pair.Dial.Close()
		}
	}
	closeRecv := func() {
		_ = recvConn.Close()
		if pair != nil {
			_ = pair.Accept.Close()
		}
	}
	var mu sync.Mutex
	sdone, rdone := make(chan struct{}), make(chan struct{})
	go func() {
		err := transfer.SendManifestMultiStream(ctx, decoConn, src, m, sopts)
		mu.Lock()
		res.sendErr, res.sendRet = err, true
		mu.Unlock()
		closeSend() // the application closes the connection when its transfer function returns
		close(sdone)
	}()
	go func() {
		_, err := transfer.RecvManifestMultiStream(ctx, recvConn, out, ropts)
		mu.Lock()
		res.recvErr, res.recvRet = err, true
		mu.Unlock()
		closeRecv()
		close(rdone)
	}()
	timer := time.NewTimer(20 * time.Second)
	defer timer.Stop()
	sd, rd := sdone, rdone
	for sd != nil || rd != nil {
		select {
		case <-sd:
			sd = nil
		case <-rd:
			rd = nil
		case <-timer.C:
			mu.Lock()
			res.watchdog = true
			mu.Unlock()
			atomic.AddInt64(&h.watchdogs, 1)
			cancel()
			closeSend()
			closeRecv()
			for _, ch := range []chan struct{}{sdone, rdone} {
				select {
				case <-ch:
				case <-time.After(3 * time.Second):
				}
			}
			sd, rd = nil, nil
		}
	}
	mu.Lock()
	defer mu.Unlock()
	pmu.Lock()
	res.calls = calls
	pmu.Unlock()
	res.wire = c19ParseWire(deco)
	return res
}

// firstRun drives the real receiver (fresh output directory, Resume on) with the repository's own
// encoders: header, DataStreams, FileBegin with chunk size C1 for one file, then the frames of the
// chosen chunks only. When the receiver has marked them (hook recv.chunk.afterMark) the
// connection dies; the sidecars are flushed the way the application's signal handler does.
// Returns true when the sidecar on disk records exactly the chosen chunks.
func (h *c19Hist) firstRun(c c19Case, m manifest.Manifest, out string) bool {
	p := c.Partial
	var item manifest.FileItem
	found := false
	for _, it := range m.Items {
		if it.RelPath == p.Rel && !it.IsDir {
			item, found = it, true
		}
	}
	if !found {
		h.count(h.notObs, "first-run: file not in the manifest")
		return false
	}
	content := c.fileBytes(p.Rel, item.Size)
	key := transfer.VerifC19FileKey(item)
	mk := &c19Marks{set: map[uint32]bool{}, ch: make(chan struct{}, 1)}
	h.marks.Store(key, mk)
	defer h.marks.Delete(key)

	ctx, cancel := context.WithCancel(context.Background())
	defer cancel()
	ctrlA, ctrlB := c19PipePair()
	dataA, dataB := c19PipePair()
	conn := &c19Conn{ch: make(chan transfer.Stream, 2)}
	conn.ch <- ctrlB
	conn.ch <- dataB
	var once sync.Once
	killAll := func() { once.Do(func() { cancel(); ctrlA.kill(); ctrlB.kill(); dataA.kill(); dataB.kill() }) }
	defer killAll()
	var fired atomic.Bool
	wd := time.AfterFunc(20*time.Second, func() { fired.Store(true); killAll() })
	defer wd.Stop()

	recvDone := make(chan error, 1)
	go func() {
		_, err := transfer.RecvManifestMultiStream(ctx, conn, out, transfer.Options{Resume: true, NoRootDir: true, HashAlg: "crc32c", ParallelFiles: 1})
		recvDone <- err
	}()
	gotInfo := make(chan struct{})
	go func() {
		told := false
		for {
			typ, _, err := transfer.VerifC18ReadControlMessage(ctrlA)
			if err != nil {
				return
			}
			if typ == transfer.VerifC18TypeFileResumeInfo && !told {
				told = true
				close(gotInfo)
			}
		}
	}()
	fail := func(why string) bool {
		if fired.Load() {
			atomic.AddInt64(&h.watchdogs, 1)
			h.R.Inconcl("first run of case " + fmt.Sprint(c.ID) + ": watchdog (" + why + ")")
			why = "watchdog"
		}
		h.count(h.notObs, "first-run: "+why)
		return false
	}
	if transfer.VerifC18WriteControlHeader(ctrlA, m) != nil ||
		transfer.VerifC18WriteDataStreams(ctrlA, transfer.DataStreams{Count: 1}) != nil ||
		transfer.VerifC18WriteFileBegin(ctrlA, transfer.FileBegin{RelPath: p.Rel, FileSize: uint64(item.Size), ChunkSize: p.C1, StreamID: key, HashAlg: transfer.HashAlgCRC32C}) != nil ||
		transfer.VerifC18WriteResumeRequest(ctrlA, transfer.ResumeRequest{FileID: item.ID, StreamID: key}) != nil {
		return fail("control stream write failed")
	}
	select {
	case <-gotInfo:
	case err := <-recvDone:
		recvDone <- err
		return fail("receiver returned before FileResumeInfo")
	}
	var frames bytes.Buffer
	for _, i := range p.Chunks {
		off := int64(i) * int64(p.C1)
		l := min64(int64(p.C1), item.Size-off)
		var hd [transfer.VerifC19DataChunkHeaderLen]byte
		binary.BigEndian.PutUint64(hd[0:8], key)
		binary.BigEndian.PutUint32(hd[8:12], i)
		binary.BigEndian.PutUint32(hd[12:16], uint32(l))
		binary.BigEndian.PutUint32(hd[16:20], transfer.VerifC19CRC32C(content[off:off+l]))
		frames.Write(hd[:])
		frames.Write(content[off : off+l])
	}
	if _, err := dataA.Write(frames.Bytes()); err != nil {
		return fail("data stream write failed")
	}
	for {
		mk.mu.Lock()
		n := len(mk.set)
		mk.mu.Unlock()
		if n >= len(p.Chunks) {
			break
		}
		select {
		case <-mk.ch:
		case err := <-recvDone:
			recvDone <- err
			return fail("receiver returned before the chunks were marked")
		}
	}
	killAll() // the connection dies
	<-recvDone
	transfer.VerifRetireSidecars(out)
	sc, err := transfer.LoadSidecar(transfer.SidecarPath(out, "", transfer.VerifC19SidecarID(item)))
	if err != nil {
		return fail("no sidecar on disk after the interrupted run")
	}
	want := map[uint32]bool{}
	for _, i := range p.Chunks {
		want[i] = true
	}
	for i := uint32(0); i < sc.TotalChunks; i++ {
		if sc.IsComplete(i) != want[i] {
			return fail("sidecar on disk does not record exactly the delivered chunks")
		}
	}
	if sc.ChunkSize != p.C1 {
		return fail("sidecar on disk has another chunk size than the first run used")
	}
	h.count(h.obs, "first-run-sidecar-on-disk/"+p.Kind)
	return true
}

// judge applies the oracles to one finished transfer.
// prior[rel] is the content the output file of rel has when this run's receiver has handled its
// FileBegin (earlier bytes cut / zero-extended to the size); nil map entries mean all zeros.
func (h *c19Hist) judge(c c19Case, m manifest.Manifest, res c19RunRes, out string, firstRunOK bool, prior map[string][]byte) {
	cls := c.class()
	isContent := len(c.Files) > 0
	senderNil := res.sendRet && res.sendErr == nil && !res.watchdog && res.setupErr == nil
	tileBad, hookBad := false, false
	type fileGeo struct {
		it      manifest.FileItem
		cb      uint32
		content []byte
	}
	var geos []fileGeo
	cs := map[string]any{"case": c, "send_err": fmt.Sprint(res.sendErr), "recv_err": fmt.Sprint(res.recvErr), "param_source_invocations": res.calls}
	sizes := map[uint32]bool{}
	framesChecked := 0
	frameBad, countBad, claimBad := false, false, false
	for _, it := range m.Items {
		if it.IsDir {
			continue
		}
		key := transfer.VerifC19FileKey(it)
		fbs := res.wire.begins[key]
		if len(fbs) == 0 {
			continue
		}
		cb := fbs[0].ChunkSize
		conflict := false
		for _, fb := range fbs[1:] {
			if fb.ChunkSize != cb {
				conflict = true
			}
		}
		if conflict || cb == 0 {
			h.count(h.notObs, "judge: FileBegin with chunk size 0 or several FileBegin with different sizes for one file")
			continue
		}
		sizes[cb] = true
		n := c19Ceil(it.Size, cb)
		content := c.fileBytes(it.RelPath, it.Size)
		for _, f := range res.wire.frames {
			if f.key != key || frameBad {
				continue
			}
			framesChecked++
			why := ""
			off := int64(f.idx) * int64(cb)
			switch {
			case uint64(f.idx) >= n:
				why = fmt.Sprintf("index %d, but the announced geometry has %d chunks", f.idx, n)
			case int64(f.n) != min64(int64(cb), it.Size-off):
				why = fmt.Sprintf("chunk %d is %d bytes long, the announced geometry gives it %d", f.idx, f.n, min64(int64(cb), it.Size-off))
			case !bytes.Equal(f.payload, content[off:off+int64(f.n)]):
				why = fmt.Sprintf("chunk %d does not carry the source bytes [%d,%d) where the receiver will write it", f.idx, off, off+int64(f.n))
			}
			if why != "" {
				frameBad = true
				h.violate(cls+":frame-vs-filebegin", fmt.Sprintf("sender announced %s with FileBegin{FileSize %d, ChunkSize %d} and then wrote a data frame that is not a chunk of that geometry: %s", it.RelPath, it.Size, cb, why), cs,
					map[string]any{"file": it.RelPath, "size": it.Size, "filebegin_chunk_size": cb, "frame_index": f.idx, "frame_length": f.n})
			}
		}
		var written c19Cover
		if c.Partial != nil && firstRunOK && c.Partial.Rel == it.RelPath {
			written = c19NewCover(it.Size, c.Partial.C1, c.Partial.Chunks)
		} else {
			written = make(c19Cover, it.Size)
		}
		// A FileResumeInfo may be built after chunks of THIS run arrived (the sender does not wait
		// for it beyond its resume timeout), so what this run's frames carried counts as written.
		for _, f := range res.wire.frames {
			if f.key == key {
				for b := int64(f.idx) * int64(cb); b < int64(f.idx)*int64(cb)+int64(f.n) && b < it.Size; b++ {
					written[b] = true
				}
			}
		}
		for _, ri := range res.wire.resumes[key] {
			h.count(h.obs, "resumeinfo-on-wire")
			if uint64(ri.TotalChunks) != n && !countBad {
				countBad = true
				h.violate(cls+":resumeinfo-count", fmt.Sprintf("receiver answers FileBegin{FileSize %d, ChunkSize %d} of %s with FileResumeInfo.TotalChunks = %d, the announced geometry has %d chunks", it.Size, cb, it.RelPath, ri.TotalChunks, n), cs, nil)
			}
			if len(ri.Bitmap) == 0 || ri.TotalChunks == 0 {
				continue
			}
			bm, err := transfer.BitmapFromBytes(ri.Bitmap, int(ri.TotalChunks))
			if err != nil {
				continue
			}
			claimed := 0
			for i := 0; i < int(ri.TotalChunks); i++ {
				if !bm.Get(i) {
					continue
				}
				claimed++
				if !written.holds(cb, uint32(i)) && !claimBad {
					claimBad = true
					h.violate(cls+":claims", fmt.Sprintf("FileResumeInfo for %s (size %d, chunk size %d now) declares chunk %d = bytes [%d,%d) complete; neither the earlier run (%v) nor a frame of this run wrote them",
						it.RelPath, it.Size, cb, i, int64(i)*int64(cb), min64(int64(i+1)*int64(cb), it.Size), c.Partial), cs,
						map[string]any{"claimed_chunk": i, "filebegin_chunk_size": cb, "resume_total": ri.TotalChunks})
				}
			}
			if claimed > 0 {
				h.count(h.obs, "resumeinfo-with-bits/"+c.History)
			}
		}
		geos = append(geos, fileGeo{it, cb, content})

		// chunks the receiver declared complete in any FileResumeInfo of this run
		claimedSet := map[uint32]bool{}
		for _, ri := range res.wire.resumes[key] {
			if len(ri.Bitmap) == 0 || ri.TotalChunks == 0 {
				continue
			}
			if bm, err := transfer.BitmapFromBytes(ri.Bitmap, int(ri.TotalChunks)); err == nil {
				for i := 0; i < int(ri.TotalChunks); i++ {
					if bm.Get(i) {
						claimedSet[uint32(i)] = true
					}
				}
			}
		}
		// sender-tiling: a sender that returned nil in a transfer without resume has put every
		// chunk of the announced geometry on the wire exactly once (what it reads tiles the file).
		if senderNil && !c.Resume && !tileBad && n <= 1<<16 {
			seen := make([]int, n)
			for _, f := range res.wire.frames {
				if f.key == key && uint64(f.idx) < n {
					seen[f.idx]++
				}
			}
			h.count(h.obs, "sender-frames-tiling-checked")
			for i, k := range seen {
				if k == 1 {
					continue
				}
				tileBad = true
				kind := "gap"
				if k > 1 {
					kind = "overlap"
				}
				h.violate(cls+":sender-frames-"+kind+":"+c.fileClass(it.RelPath), fmt.Sprintf("sender returned nil (no resume) for %s (size %d, FileBegin chunk size %d) having written chunk %d = bytes [%d,%d) %d times; the frames it wrote do not tile the file",
					it.RelPath, it.Size, cb, i, int64(i)*int64(cb), min64(int64(i+1)*int64(cb), it.Size), k), cs,
					map[string]any{"file": it.RelPath, "chunk": i, "times_on_the_wire": k, "frames_per_chunk": seen})
				break
			}
		}
		// receiver-tiling by its own events: after a double success every chunk of the announced
		// geometry was either declared complete by the receiver (FileResumeInfo) or written in this
		// run (hook recv.chunk.afterWrite); without resume each exactly once.
		if v, ok := h.writes.Load(key); ok && res.bothOK() && !hookBad && n <= 1<<16 {
			wl := v.(*c19WriteLog)
			wl.mu.Lock()
			counts := make([]int, n)
			for i, k := range wl.counts {
				if uint64(i) < n {
					counts[i] = k
				}
			}
			wl.mu.Unlock()
			h.count(h.obs, "receiver-write-events-checked")
			for i, k := range counts {
				kind := ""
				switch {
				case k == 0 && !claimedSet[uint32(i)]:
					kind = "gap"
				case k > 1 && !c.Resume:
					kind = "overlap"
				}
				if kind == "" {
					continue
				}
				hookBad = true
				h.violate(cls+":receiver-write-events-"+kind+":"+c.fileClass(it.RelPath), fmt.Sprintf("both endpoints returned nil; for %s (size %d, chunk size %d) the receiver passed its write of chunk %d = bytes [%d,%d) %d times (recv.chunk.afterWrite) and never declared it complete in a FileResumeInfo",
					it.RelPath, it.Size, cb, i, int64(i)*int64(cb), min64(int64(i+1)*int64(cb), it.Size), k), cs,
					map[string]any{"file": it.RelPath, "chunk": i, "write_events_per_chunk": counts, "resume": c.Resume})
				break
			}
		}
	}
	h.countN(h.obs, "frames-checked", framesChecked)
	if len(sizes) >= 2 {
		h.count(h.obs, "transfers-with-several-chunk-sizes-on-the-wire")
	}
	if !res.bothOK() {
		if res.watchdog {
			h.R.Inconcl(fmt.Sprintf("case %d (%s): watchdog fired, no tree verdict", c.ID, cls))
			h.count(h.notObs, "transfer: watchdog")
		} else if res.setupErr != nil {
			h.count(h.notObs, "transfer: setup failed")
		} else {
			h.count(h.notObs, "transfer: not a double success ("+cls+")")
		}
		return
	}
	got, err := vk.Digest(out)
	if err != nil {
		h.count(h.notObs, "transfer: digest failed")
		return
	}
	h.count(h.obs, "double-success/"+cls)
	h.count(h.obs, "double-success-history/"+c.History)
	h.R.Distinct(fmt.Sprintf("xfer:%s/s%d/%s/res%v/%s/f%d/#%d", cls, c.Streams, c.Transport, c.Resume, c.Verify, c.Tree.FileCount(), c.ID))
	if !isContent {
		if diff := vk.DiffDigest(vk.ExpectedDigest(c.Tree, ""), got); len(diff) > 0 {
			h.violate(cls+":tree", fmt.Sprintf("sender and receiver both returned nil, the output tree differs from the source: %v", diff), cs, map[string]any{"diff": diff, "chunk_sizes_on_the_wire": keysU32(sizes)})
		}
		return
	}
	// content cases: byte comparison per file, keyed by the file's content and destination class;
	// the features the file presented in the announced geometry are counted for the evidence.
	cbOf := map[string]uint32{}
	for _, g := range geos {
		cbOf[g.it.RelPath] = g.cb
	}
	seen := map[string]bool{}
	fileBad := map[string]bool{}
	for _, e := range c.Tree.Entries {
		seen[e.Rel] = true
		want := c.fileBytes(e.Rel, e.Size)
		fc := c.fileClass(e.Rel)
		pr := prior[e.Rel]
		if pr == nil {
			pr = make([]byte, e.Size)
		}
		cb := cbOf[e.Rel]
		h.count(h.obs, "file-judged/"+fc)
		if sp, ok := c.spec(e.Rel); ok {
			h.count(h.obs, "file-judged/content-"+sp.Content)
			h.count(h.obs, "file-judged/destination-"+sp.Dest)
		}
		if cb > 0 {
			c19Analyse(want, pr, cb).addTo(func(k string, n int) { h.countN(h.obs, k, n) }, "in-announced-geometry/")
		}
		gotB, err := os.ReadFile(filepath.Join(out, filepath.FromSlash(e.Rel)))
		if err == nil && bytes.Equal(gotB, want) {
			continue
		}
		if fileBad[fc] {
			continue
		}
		fileBad[fc] = true
		if err != nil {
			h.violate(c.family()+":file-missing:"+fc, fmt.Sprintf("sender and receiver both returned nil, %s cannot be read from the output directory: %v", e.Rel, err), cs, nil)
			continue
		}
		kind, detail := c19DescribeDiff(gotB, want, pr, cb)
		detail["file"], detail["filebegin_chunk_size"], detail["class"] = e.Rel, cb, fc
		what := map[string]string{
			"length":        "has another length than the source",
			"never-written": "still holds, in whole chunks of the announced geometry, the bytes the destination had before: the receiver's writes do not cover the file",
			"bytes":         "differs from the source",
		}[kind]
		h.violate(c.family()+":file-"+kind+":"+fc, fmt.Sprintf("sender and receiver both returned nil, output file %s (size %d, FileBegin chunk size %d) %s", e.Rel, e.Size, cb, what), cs, detail)
	}
	var extra []string
	for rel, de := range got {
		if !seen[rel] && de.Kind != "dir" {
			extra = append(extra, rel)
		}
	}
	if len(extra) > 0 {
		sort.Strings(extra)
		h.violate(cls+":tree", fmt.Sprintf("sender and receiver both returned nil, the output directory holds entries the source does not have: %v", extra), cs, map[string]any{"extra": extra})
	}
}

func keysU32(m map[uint32]bool) []uint32 {
	var out []uint32
	for k := range m {
		out = append(out, k)
	}
	sort.Slice(out, func(i, j int) bool { return out[i] < out[j] })
	return out
}

func (h *c19Hist) runCase(c c19Case, lp *vk.ListenerPool) {
	if atomic.LoadInt64(&h.watchdogs) > 6 {
		h.count(h.notObs, "case skipped after more than 6 watchdog hits in this run")
		return
	}
	h.R.Eval()
	base := h.dir()
	defer os.RemoveAll(base)
	src, out := filepath.Join(base, "src"), filepath.Join(base, "out")
	m, prior, ok := h.prepare(c, src, out)
	if !ok {
		return
	}
	firstOK := false
	if c.Partial != nil {
		firstOK = h.firstRun(c, m, out)
		if !firstOK {
			return
		}
		if !h.firstRunWrites(c, out, prior) {
			return
		}
	}
	for _, it := range m.Items {
		if !it.IsDir {
			key := transfer.VerifC19FileKey(it)
			h.writes.Store(key, &c19WriteLog{counts: map[uint32]int{}})
			defer h.writes.Delete(key)
		}
	}
	res := h.transferRun(c, lp, m, src, out)
	transfer.VerifRetireSidecars(out)
	h.judge(c, m, res, out, firstOK, prior)
	if c.ID%37 == 0 {
		h.R.Sample(map[string]any{"case": c, "send_err": fmt.Sprint(res.sendErr), "recv_err": fmt.Sprint(res.recvErr),
			"filebegins_on_wire": len(res.wire.begins), "frames_on_wire": len(res.wire.frames)})
	}
}

// prepare materialises the source tree (content classes) and the output directory (destination
// classes) of a case and scans the source. prior[rel] = what the output file will hold once the
// receiver has opened and sized it.
func (h *c19Hist) prepare(c c19Case, src, out string) (m manifest.Manifest, prior map[string][]byte, ok bool) {
	prior = map[string][]byte{}
	if c.Tree.Materialize(src) != nil || os.MkdirAll(out, 0755) != nil {
		h.count(h.notObs, "case: cannot materialise the tree")
		return m, prior, false
	}
	if len(c.Files) > 0 {
		for _, e := range c.Tree.Entries {
			if e.Dir {
				continue
			}
			content := c.fileBytes(e.Rel, e.Size)
			if c19WriteFile(filepath.Join(src, filepath.FromSlash(e.Rel)), content) != nil {
				h.count(h.notObs, "case: cannot write the source content")
				return m, prior, false
			}
			d, present := c.destBefore(e.Rel, content)
			if present {
				if c19WriteFile(filepath.Join(out, filepath.FromSlash(e.Rel)), d) != nil {
					h.count(h.notObs, "case: cannot write the pre-existing destination")
					return m, prior, false
				}
			}
			prior[e.Rel] = c19Prior(d, present, e.Size)
		}
	}
	m, err := manifest.Scan(src)
	if err != nil {
		h.count(h.notObs, "case: scan failed")
		return m, prior, false
	}
	return m, prior, true
}

// firstRunWrites looks at the output file of an interrupted first run of a content case: the
// receiver was given exactly the chunks Partial.Chunks of the geometry (size, C1) and has marked
// them. Every byte inside those chunks must now be the source byte, every byte outside them must
// be what the destination held before (cut / zero-extended to the file size): the receiver's
// writes are exactly the tiles it was given. Updates prior[rel] to the observed state.
func (h *c19Hist) firstRunWrites(c c19Case, out string, prior map[string][]byte) bool {
	p := c.Partial
	sp, isContent := c.spec(p.Rel)
	if !isContent {
		return true
	}
	var size int64
	for _, e := range c.Tree.Entries {
		if e.Rel == p.Rel {
			size = e.Size
		}
	}
	want := c.fileBytes(p.Rel, size)
	before := prior[p.Rel]
	got, err := os.ReadFile(filepath.Join(out, filepath.FromSlash(p.Rel)))
	if err != nil {
		h.count(h.notObs, "first-run-writes: output file unreadable")
		return false
	}
	fc := c.fileClass(p.Rel)
	h.count(h.obs, "first-run-writes-observed/content-"+sp.Content)
	h.count(h.obs, "first-run-writes-observed/destination-"+sp.Dest)
	c19Analyse(want, before, p.C1).addTo(func(k string, n int) { h.countN(h.obs, k, n) }, "first-run-geometry/")
	cs := map[string]any{"case": c}
	if int64(len(got)) != size {
		h.violate(c.family()+":first-run-writes-length:"+fc, fmt.Sprintf("after FileBegin{FileSize %d, ChunkSize %d} and chunks %v the output file %s is %d bytes long", size, p.C1, p.Chunks, p.Rel, len(got)), cs, nil)
		return false
	}
	cover := c19NewCover(size, p.C1, p.Chunks)
	for _, idx := range p.Chunks {
		lo := int64(idx) * int64(p.C1)
		hi := min64(lo+int64(p.C1), size)
		if lo >= hi {
			continue
		}
		zero := bytes.Count(want[lo:hi], []byte{0}) == int(hi-lo)
		if zero && bytes.Count(before[lo:hi], []byte{0}) != int(hi-lo) {
			h.count(h.obs, "first-run/delivered-all-zero-chunk-over-nonzero-destination-bytes")
		}
		if !zero && bytes.Equal(want[lo:hi], before[lo:hi]) {
			h.count(h.obs, "first-run/delivered-chunk-already-present-at-destination")
		}
	}
	for i := int64(0); i < size; i++ {
		exp, what := before[i], "outside the delivered chunks, where the destination's earlier byte must still be"
		if cover[i] {
			exp, what = want[i], "inside a delivered (and marked) chunk, where the source byte must be"
		}
		if got[i] == exp {
			continue
		}
		kind := "outside-delivered-chunks"
		if cover[i] {
			kind = "marked-chunk-not-written"
		}
		h.violate(c.family()+":first-run-writes-"+kind+":"+fc, fmt.Sprintf("the receiver was given chunks %v of %s (size %d, chunk size %d) and marked them; byte %d (chunk %d) is %#02x, %s (%#02x)",
			p.Chunks, p.Rel, size, p.C1, i, i/int64(p.C1), got[i], what, exp), cs,
			map[string]any{"file": p.Rel, "offset": i, "chunk": i / int64(p.C1), "class": fc})
		return false
	}
	prior[p.Rel] = got
	return true
}

// ------------------------------------------------------------------ case generation

var c19CSPool = []uint32{7, 16, 24, 32, 40, 50, 64, 100, 128, 4096}

var c19SchedClasses = []string{"const", "grow", "shrink", "step-late", "alternate", "random", "zero-fallback"}

func c19GenSched(r *vk.Rng, class string, nfiles int) (c19Sched, uint32) {
	pick := func() uint32 { return c19CSPool[r.Intn(len(c19CSPool))] }
	a, b := pick(), pick()
	for b == a {
		b = pick()
	}
	lo, hi := a, b
	if lo > hi {
		lo, hi = hi, lo
	}
	opt := pick()
	s := c19Sched{Class: class}
	switch class {
	case "const":
		s.Vals = []uint32{a}
	case "grow":
		s.Vals = []uint32{lo, hi}
	case "shrink":
		s.Vals = []uint32{hi, lo}
	case "step-late":
		k := 2 + r.Intn(nfiles-1)
		for i := 0; i < k; i++ {
			s.Vals = append(s.Vals, a)
		}
		s.Vals = append(s.Vals, b)
	case "alternate":
		for i := 0; i <= nfiles; i++ {
			s.Vals = append(s.Vals, []uint32{a, b}[i%2])
		}
	case "random":
		for i := 0; i <= nfiles; i++ {
			s.Vals = append(s.Vals, pick())
		}
	case "zero-fallback":
		// ChunkSize 0 from ParamSource means "Options.ChunkSize"
		for i := 0; i <= nfiles; i++ {
			s.Vals = append(s.Vals, []uint32{0, b}[(i+r.Intn(2))%2])
		}
		for opt == b {
			opt = pick()
		}
	}
	return s, opt
}

func c19GenSizes(r *vk.Rng, css []uint32) int64 {
	c := css[r.Intn(len(css))]
	if c == 0 || c > 200 {
		c = 64
	}
	k := int64(1 + r.Intn(6))
	switch r.Intn(6) {
	case 0:
		return k * int64(c)
	case 1:
		return k*int64(c) + 1
	case 2:
		return k*int64(c) - 1
	case 3:
		return int64(r.Intn(int(c) + 1))
	}
	return int64(r.Intn(int(6*c) + 1))
}

func c19GenFresh(r *vk.Rng, id int, class string) c19Case {
	nfiles := 2 + r.Intn(5)
	sched, opt := c19GenSched(r, class, nfiles)
	css := append([]uint32{opt}, sched.Vals...)
	t := vk.Tree{Seed: r.U64(), Shape: "c19hist", Names: "plain"}
	for i := 0; i < nfiles; i++ {
		t.Entries = append(t.Entries, vk.Entry{Rel: fmt.Sprintf("h%05d_%d.bin", id, i), Size: c19GenSizes(r, css)})
	}
	tr := "mock"
	if id%4 == 3 {
		tr = "quic"
	}
	return c19Case{ID: id, History: "fresh", Tree: t, Sched: sched, OptCS: opt, Streams: 1 + r.Intn(4), Transport: tr, Resume: r.Intn(3) != 0, Verify: "last"}
}

var c19ResumeHistories = []string{"resume-samecount", "resume-diffcount", "resume-samesize", "resume-samecount-paramchange"}

func c19GenResume(r *vk.Rng, id int, history string) c19Case {
	var c1, c2 uint32
	var size int64
	var n uint64
	for {
		c1 = uint32(12 + r.Intn(60))
		n = uint64(2 + r.Intn(5))
		switch history {
		case "resume-samesize":
			c2 = c1
			size = int64(n-1)*int64(c1) + 1 + int64(r.Intn(int(c1)))
		case "resume-diffcount":
			c2 = uint32(12 + r.Intn(60))
			size = int64(n-1)*int64(c1) + 1 + int64(r.Intn(int(c1)))
			if c2 == c1 || c19Ceil(size, c2) == n {
				continue
			}
		default:
			// same count under both sizes: (n-1)*max < size <= n*min
			c2 = uint32(int(c1) + 1 + r.Intn(int(c1)/int(n-1)+1))
			if r.Bool() {
				c1, c2 = c2, c1
			}
			lo, hi := c1, c2
			if lo > hi {
				lo, hi = hi, lo
			}
			if int64(n-1)*int64(hi) >= int64(n)*int64(lo) {
				continue
			}
			size = int64(n-1)*int64(hi) + 1 + int64(r.Intn(int(int64(n)*int64(lo)-int64(n-1)*int64(hi))))
			if c19Ceil(size, c1) != n || c19Ceil(size, c2) != n {
				continue
			}
		}
		break
	}
	// chunks of the first run: mostly a non-prefix subset (chunk j done while an i < j is not)
	kind := "nonprefix"
	var chunks []uint32
	if r.Intn(5) == 0 {
		kind = "prefix"
		k := 1 + r.Intn(int(n-1))
		for i := 0; i < k; i++ {
			chunks = append(chunks, uint32(i))
		}
	} else {
		for {
			chunks = chunks[:0]
			for i := uint64(0); i < n; i++ {
				if r.Bool() {
					chunks = append(chunks, uint32(i))
				}
			}
			if len(chunks) == 0 || len(chunks) == int(n) || int(chunks[len(chunks)-1]) == len(chunks)-1 {
				continue
			}
			break
		}
		// delivery order of the first run: highest first
		sort.Slice(chunks, func(i, j int) bool { return chunks[i] > chunks[j] })
	}
	t := vk.Tree{Seed: r.U64(), Shape: "c19hist", Names: "plain"}
	rel := fmt.Sprintf("h%05d_p.bin", id)
	t.Entries = append(t.Entries, vk.Entry{Rel: rel, Size: size})
	extra := r.Intn(3)
	for i := 0; i < extra; i++ {
		t.Entries = append(t.Entries, vk.Entry{Rel: fmt.Sprintf("h%05d_x%d.bin", id, i), Size: c19GenSizes(r, []uint32{c1, c2})})
	}
	sort.Slice(t.Entries, func(i, j int) bool { return t.Entries[i].Rel < t.Entries[j].Rel })
	sched := c19Sched{Class: "const", Vals: []uint32{c2}}
	if history == "resume-samecount-paramchange" {
		// the second run itself changes its chunk size between files, among the two sizes
		sched = c19Sched{Class: "alternate"}
		for i := 0; i <= len(t.Entries); i++ {
			sched.Vals = append(sched.Vals, []uint32{c2, c1}[(i+id)%2])
		}
	}
	tr := "mock"
	if id%4 == 3 {
		tr = "quic"
	}
	verify := "last"
	if id%2 == 1 {
		verify = "none"
	}
	return c19Case{ID: id, History: history, Tree: t, Sched: sched, OptCS: c2, Streams: 1 + r.Intn(3), Transport: tr, Resume: true, Verify: verify,
		Partial: &c19Partial{Rel: rel, C1: c1, Chunks: chunks, Kind: kind}}
}

// ------------------------------------------------------------------ content cases

func c19ContentSize(r *vk.Rng, a uint32) int64 {
	k := int64(2 + r.Intn(5))
	switch r.Intn(6) {
	case 0:
		return k * int64(a)
	case 1:
		return k*int64(a) + 1
	case 2:
		return k*int64(a) - 1
	case 3:
		return 1 + int64(r.Intn(int(a)))
	}
	return k*int64(a) + int64(r.Intn(int(a)))
}

func c19OtherClass(r *vk.Rng, list []string) string { return list[r.Intn(len(list))] }

// c19GenContent: a fresh multi-file transfer in which file 0 has the given content and
// destination class; the other files have it too or a random one (a transfer mixes classes, so
// that buffers and per-stream state see a zero / repeated chunk after an ordinary one).
func c19GenContent(r *vk.Rng, id int, content, dest string) c19Case {
	nfiles := 2 + r.Intn(4)
	class := "const"
	if r.Bool() {
		class = c19SchedClasses[1+r.Intn(len(c19SchedClasses)-1)]
	}
	sched, opt := c19GenSched(r, class, nfiles)
	var css []uint32
	for i, v := range sched.Vals {
		if v > 200 && class == "const" {
			v = 64
			sched.Vals[i] = v
		}
		if v > 0 && v <= 200 {
			css = append(css, v)
		}
	}
	if opt > 0 && opt <= 200 && class == "zero-fallback" {
		css = append(css, opt)
	}
	if len(css) == 0 {
		css = []uint32{64}
	}
	t := vk.Tree{Seed: r.U64(), Shape: "c19content", Names: "plain"}
	var files []c19FileSpec
	for i := 0; i < nfiles; i++ {
		fc, fd := content, dest
		if i > 0 && r.Bool() {
			fc, fd = c19OtherClass(r, c19ContentClasses), c19OtherClass(r, c19DestClasses)
		}
		a := css[r.Intn(len(css))]
		size := c19ContentSize(r, a)
		t.Entries = append(t.Entries, vk.Entry{Rel: fmt.Sprintf("h%05d_%d.bin", id, i), Size: size})
		files = append(files, c19FileSpec{Content: fc, Align: a, Dest: fd, DestLen: c19PickDestLen(r, fd, size, a), Seed: r.U64()})
	}
	tr := "mock"
	if id%4 == 3 {
		tr = "quic"
	}
	return c19Case{ID: id, History: "fresh-content", Tree: t, Sched: sched, OptCS: opt, Streams: 1 + r.Intn(4), Transport: tr, Resume: r.Bool(), Verify: "last", Files: files}
}

// c19GenResumeContent: an interrupted first run over a destination of the given class, with a
// file of the given content class, followed by the real resumed transfer.
func c19GenResumeContent(r *vk.Rng, id int, base, content, dest string) c19Case {
	c := c19GenResume(r, id, base)
	c.History = base + "+content"
	for _, e := range c.Tree.Entries {
		fc, fd := c19OtherClass(r, c19ContentClasses), c19OtherClass(r, c19DestClasses)
		a := c.OptCS
		if e.Rel == c.Partial.Rel {
			fc, fd = content, dest
			if r.Bool() {
				a = c.Partial.C1
			}
		}
		c.Files = append(c.Files, c19FileSpec{Content: fc, Align: a, Dest: fd, DestLen: c19PickDestLen(r, fd, e.Size, a), Seed: r.U64()})
	}
	return c
}

// ------------------------------------------------------------------ the stage

func runC19Hist(e *Env) {
	R := e.R
	R.Rule = "one case = one history in which more than one chunk size meets one file set: (a) a triple (size, recorded chunk size, current chunk size) given to the sidecar loaders " +
		"(distinct by value for the same-count triples with at least 2 chunks), (b) a real multi-file transfer whose ParamSource follows a chunk-size schedule, " +
		"(c) an interrupted first run with chunk size c1 (chosen, mostly non-prefix, chunk subset on disk) followed by a real resumed transfer with chunk size c2; " +
		"transfers are counted distinct (by class, streams, transport, case number) once both endpoints returned nil and the tree was compared"
	base := e.Seed ^ vk.HashStr("c19hist"+e.Tier)
	work, workFS := e.Work, "scratch directory of the check"
	if d, err := os.MkdirTemp("/dev/shm", "verif-c19h-"); err == nil {
		work, workFS = d, "tmpfs (/dev/shm), removed at exit"
		defer os.RemoveAll(d)
	}
	R.SetExtra("work_dir", workFS)
	h := &c19Hist{R: R, work: work, obs: map[string]int{}, notObs: map[string]int{}, viol: map[string]int{}}
	verifhook.Set("recv.chunk.afterMark", func(ev verifhook.Event) {
		if v, ok := h.marks.Load(ev.A); ok {
			mk := v.(*c19Marks)
			mk.mu.Lock()
			mk.set[uint32(ev.B)] = true
			mk.mu.Unlock()
			select {
			case mk.ch <- struct{}{}:
			default:
			}
		}
	})
	defer verifhook.Set("recv.chunk.afterMark", nil)
	verifhook.Set("recv.chunk.afterWrite", func(ev verifhook.Event) {
		if v, ok := h.writes.Load(ev.A); ok {
			wl := v.(*c19WriteLog)
			wl.mu.Lock()
			wl.counts[uint32(ev.B)]++
			wl.mu.Unlock()
		}
	})
	defer verifhook.Set("recv.chunk.afterWrite", nil)
	t0 := time.Now()

	// ---- A(a) sidecar loaders ----
	maxSize, maxCS := int64(e.Pick(96, 200)), uint32(e.Pick(32, 64))
	h.reuseMatrix(maxSize, maxCS, e.Pick(16, 8))
	vk.Logf("c19hist sidecar re-use matrix done after %.1fs", time.Since(t0).Seconds())

	// ---- B and A(b): real transfers ----
	lp, err := vk.NewListenerPool(8, 5*time.Second)
	if err != nil {
		R.Inconcl("cannot create QUIC listeners: " + err.Error())
		R.Require(false, "no QUIC listeners")
		return
	}
	defer lp.Close()
	var cases []c19Case
	r := vk.NewRng(base)
	perFresh, perResume := e.Pick(48, 400), e.Pick(48, 400)
	for _, cl := range c19SchedClasses {
		for i := 0; i < perFresh; i++ {
			cases = append(cases, c19GenFresh(r.Fork(), len(cases), cl))
		}
	}
	for _, hi := range c19ResumeHistories {
		for i := 0; i < perResume; i++ {
			cases = append(cases, c19GenResume(r.Fork(), len(cases), hi))
		}
	}
	// content classes x destination classes (appended, so that the cases above stay what they were)
	perCombo, perResumeCombo := e.Pick(4, 30), e.Pick(2, 15)
	nContent, nResumeContent := 0, 0
	for _, cc := range c19ContentClasses {
		for _, dc := range c19DestClasses {
			for i := 0; i < perCombo; i++ {
				cases = append(cases, c19GenContent(r.Fork(), len(cases), cc, dc))
				nContent++
			}
			for i := 0; i < perResumeCombo; i++ {
				cases = append(cases, c19GenResumeContent(r.Fork(), len(cases), c19ResumeHistories[(nResumeContent)%len(c19ResumeHistories)], cc, dc))
				nResumeContent++
			}
		}
	}
	vk.ParallelDo(len(cases), 16, func(i int) { h.runCase(cases[i], lp) })
	vk.Logf("c19hist %d transfers done after %.1fs", len(cases), time.Since(t0).Seconds())

	h.mu.Lock()
	defer h.mu.Unlock()
	R.SetExtra("observations", h.obs)
	R.SetExtra("could_not_observe", h.notObs)
	R.SetExtra("violations_by_key", h.viol)
	R.SetExtra("transfer_cases_planned", len(cases))
	R.SetExtra("sidecar_reuse_domain", map[string]any{"size_max": maxSize, "chunk_size_max": maxCS,
		"same_count_triples": "all (one-chunk files: a sample)", "different_count_triples": fmt.Sprintf("every %dth", e.Pick(16, 8)), "loaders": c19Loaders, "bit_patterns": []string{"even", "last", "all-but-first"}})
	R.SetExtra("not_covered", "the schedule of chunk sizes is seen by the sender only at ParamSource invocations (start-up and one per file activation), so a schedule indexed by invocation number covers every "+
		"tuner timing; ParallelFiles is kept constant; files are at most ~800 bytes; the application's own tuner (SnapshotSender.setParams) is not driven, only the library entry point it feeds")

	for _, cls := range []string{"samecount", "diffcount", "samesize"} {
		for _, l := range c19Loaders {
			k := "sidecar-reuse/" + cls + "/" + l
			R.Require(h.obs[k] >= 50, fmt.Sprintf("%s: only %d loader calls judged", k, h.obs[k]))
		}
	}
	R.Require(h.obs["sidecar-reuse-bits-kept/samesize"] >= 50, "the loaders never handed back recorded bits for an unchanged chunk size (claims oracle would be vacuous)")
	minOK := perFresh / 3
	for _, cl := range c19SchedClasses {
		k := "double-success/fresh/" + cl
		R.Require(h.obs[k] >= minOK, fmt.Sprintf("%s: %d transfers reached the tree comparison, need %d", k, h.obs[k], minOK))
	}
	for _, hi := range c19ResumeHistories {
		cl := "const"
		if hi == "resume-samecount-paramchange" {
			cl = "alternate"
		}
		k := "double-success/" + hi + "/" + cl
		R.Require(h.obs[k] >= perResume/3, fmt.Sprintf("%s: %d resumed transfers reached the tree comparison, need %d", k, h.obs[k], perResume/3))
	}
	R.Require(h.obs["transfers-with-several-chunk-sizes-on-the-wire"] >= 3*perFresh, fmt.Sprintf("only %d transfers carried FileBegins with different chunk sizes", h.obs["transfers-with-several-chunk-sizes-on-the-wire"]))
	R.Require(h.obs["frames-checked"] >= 20*perFresh, fmt.Sprintf("only %d data frames were compared with their FileBegin", h.obs["frames-checked"]))
	R.Require(h.obs["first-run-sidecar-on-disk/nonprefix"] >= perResume, fmt.Sprintf("only %d interrupted first runs left the chosen non-prefix bitmap on disk", h.obs["first-run-sidecar-on-disk/nonprefix"]))
	// content and destination classes
	R.SetExtra("content_classes", c19ContentClasses)
	R.SetExtra("destination_classes", c19DestClasses)
	R.SetExtra("content_cases_planned", map[string]int{"fresh-content": nContent, "resume+content": nResumeContent})
	R.Require(h.obs["double-success-history/fresh-content"] >= nContent/2, fmt.Sprintf("only %d of %d fresh content-class transfers reached the byte comparison", h.obs["double-success-history/fresh-content"], nContent))
	resumedContentOK := 0
	for _, hi := range c19ResumeHistories {
		resumedContentOK += h.obs["double-success-history/"+hi+"+content"]
	}
	R.Require(resumedContentOK >= nResumeContent/2, fmt.Sprintf("only %d of %d resumed content-class transfers reached the byte comparison", resumedContentOK, nResumeContent))
	for _, cc := range c19ContentClasses {
		k := "file-judged/content-" + cc
		R.Require(h.obs[k] >= 3*perCombo, fmt.Sprintf("%s: only %d output files compared", k, h.obs[k]))
	}
	for _, dc := range c19DestClasses {
		k := "file-judged/destination-" + dc
		R.Require(h.obs[k] >= 3*perCombo, fmt.Sprintf("%s: only %d output files compared", k, h.obs[k]))
		k = "first-run-writes-observed/destination-" + dc
		R.Require(h.obs[k] >= 3*perResumeCombo, fmt.Sprintf("%s: only %d interrupted first runs inspected on disk", k, h.obs[k]))
	}
	for k, need := range map[string]int{
		"in-announced-geometry/all-zero-chunk-over-nonzero-destination-bytes":    10 * perCombo,
		"in-announced-geometry/all-zero-chunk":                                   20 * perCombo,
		"in-announced-geometry/chunk-equal-to-previous-chunk":                    10 * perCombo,
		"in-announced-geometry/zero-run-across-a-chunk-boundary-unaligned":       5 * perCombo,
		"in-announced-geometry/unaligned-zero-run-covering-a-whole-chunk":        2 * perCombo,
		"in-announced-geometry/all-zero-short-last-chunk":                        2 * perCombo,
		"in-announced-geometry/chunk-already-present-at-destination":             5 * perCombo,
		"first-run/delivered-all-zero-chunk-over-nonzero-destination-bytes":      3 * perResumeCombo,
		"first-run/delivered-chunk-already-present-at-destination":               perResumeCombo,
		"receiver-write-events-checked":                                          20 * perFresh,
		"sender-frames-tiling-checked":                                           5 * perFresh,
	} {
		R.Require(h.obs[k] >= need, fmt.Sprintf("%s: observed %d times, need %d (the content-dependent situation would otherwise not have been exercised)", k, h.obs[k], need))
	}
	R.Require(h.obs["resumeinfo-with-bits/resume-samesize"] >= perResume/3, "resumed transfers with an unchanged chunk size never carried recorded chunks in FileResumeInfo (claims oracle would be vacuous)")
}
