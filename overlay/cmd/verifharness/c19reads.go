//go:build verif

package main

// C19, stage "writes", second oracle – the span of every positional read.
//
// "The chunks the sender reads ... each at most one chunk long": besides the reads that feed the
// data frames both peers read chunks for another purpose, the hash of the highest complete chunk
// that resume metadata carries (FileResumeInfo.LastVerifiedHash, computed by the receiver on its
// output file and re-computed by the sender on the source file). Those reads only happen in a
// history: an earlier attempt left a data file and a sidecar with at least one complete chunk.
// The tile / cover / once oracle of c19writes.go cannot be applied to them (a verified chunk is
// read twice, an aborted transfer covers nothing), so they were never looked at.
//
// Workload added here: interrupted first runs (the real receiver is given a chosen chunk subset
// and dies once recv.chunk.afterMark has seen it) followed by the real resumed transfer with the
// SAME chunk size, in the traced child; chunk sizes small (12..71) and large (1000 .. 65537, powers
// of two and not), resume verification "last" and "none".
//
// Oracle (safety, independent of how the transfer ended): in the geometry (S, cb) the FileBegin
// announced, every pread64 on the source path (sender) or the output path (receiver) that
// returned n > 0 bytes starts on a chunk boundary (offset = i*cb) and transferred at most the
// chunk that starts there (n <= min(cb, S - i*cb)). It is applied to every traced case - fresh or
// resumed, resume option on or off, double success or not.

import (
	"fmt"
	"path/filepath"

	vk "github.com/sheerbytes/sheerbytes/internal/verifkit"
)

// chunk sizes of the large half of the traced resume histories: next to / on powers of two,
// decimal sizes, a prime
var c19TracedResumeCS = []uint32{1000, 1024, 3000, 4095, 4096, 4097, 10000, 65521, 65536, 65537}

// c19GenTracedResumes: n interrupted-then-resumed histories with an unchanged chunk size.
func c19GenTracedResumes(r *vk.Rng, firstID, n int) []c19Case {
	var out []c19Case
	for k := 0; k < n; k++ {
		rr := r.Fork()
		c := c19GenResume(rr, firstID+k, "resume-samesize")
		c.Transport = "mock"
		c.History = "traced-resume-samesize"
		// (k/2)%2 so that the large sizes meet both settings of resume verification (id parity)
		if (k/2)%2 == 1 {
			cs := c19TracedResumeCS[rr.Intn(len(c19TracedResumeCS))]
			var nch uint64
			for i := range c.Tree.Entries {
				en := &c.Tree.Entries[i]
				if en.Rel == c.Partial.Rel {
					nch = c19Ceil(en.Size, c.Partial.C1) // the chosen chunk subset stays valid
					en.Size = int64(nch-1)*int64(cs) + 1 + int64(rr.Intn(int(cs)))
				} else {
					en.Size = int64(rr.Intn(3))*int64(cs) + int64(rr.Intn(int(cs)+1))
				}
			}
			c.Partial.C1, c.OptCS = cs, cs
			c.Sched = c19Sched{Class: "const", Vals: []uint32{cs}}
		}
		out = append(out, c)
	}
	return out
}

// c19SpanCheck: every call starts on a chunk boundary and transferred at most the chunk that
// starts there. Returns "" or the kind of the first defect; nonLast = calls at a chunk that is
// not the last one (only there a longer read has bytes to run into).
func c19SpanCheck(calls []c19Interval, size int64, cb uint32) (kind, what string, bad c19Interval, nonLast int) {
	c := int64(cb)
	n := (size + c - 1) / c
	for _, iv := range calls {
		if iv.off/c < n-1 {
			nonLast++
		}
		if kind != "" {
			continue
		}
		switch {
		case iv.off%c != 0:
			kind, bad = "not-at-a-chunk-offset", iv
			what = fmt.Sprintf("a pread64 at offset %d (%d bytes read), which is not a multiple of the chunk size %d", iv.off, iv.n, cb)
		case iv.n > min64(c, size-iv.off):
			kind, bad = "longer-than-one-chunk", iv
			what = fmt.Sprintf("a pread64 at offset %d = chunk %d read %d bytes (%d requested); the chunk that starts there is %d bytes long, the read runs into the following chunk(s)",
				iv.off, iv.off/c, iv.n, iv.req, min64(c, size-iv.off))
		}
	}
	return kind, what, bad, nonLast
}

func c19IsPow2(v uint32) bool { return v != 0 && v&(v-1) == 0 }

// c19JudgeReads applies the span oracle to all traced cases (cases[:nFresh] are the fresh
// content cases of c19writes.go, the rest the interrupted-then-resumed histories) and adds the
// minimum-observation requirements of the resumed histories.
func c19JudgeReads(R *vk.Report, cases []c19Case, results []c19WResult, reads map[string][]c19Interval, nFresh int,
	count func(map[string]int, string, int), obs, viol map[string]int) {
	nRes := len(cases) - nFresh
	for i, c := range cases {
		res := results[i]
		resumed := c.Partial != nil
		family := "fresh-resume-off"
		switch {
		case resumed:
			family = "interrupted-then-resumed-same-chunk-size"
		case c.Resume:
			family = "fresh-resume-on"
		}
		if resumed {
			R.Eval()
			switch {
			case res.Skipped:
				count(obs, "traced-resume/not-run: skipped after watchdog hits", 1)
				continue
			case !res.Prepared:
				count(obs, "traced-resume/not-run: could not be prepared", 1)
				continue
			case !res.FirstRun:
				count(obs, "traced-resume/not-run: first run did not leave the chosen chunks", 1)
				continue
			}
			count(obs, "traced-resume/first-run-left-the-chosen-chunks", 1)
			if res.Watchdog {
				R.Inconcl(fmt.Sprintf("traced resumed case %d: watchdog", c.ID))
			}
			if res.BothOK {
				count(obs, "traced-resume/double-success", 1)
				count(obs, "traced-resume/double-success/verify-"+c.Verify, 1)
			} else {
				count(obs, "traced-resume/not-a-double-success", 1)
			}
			if c19IsPow2(c.Partial.C1) {
				count(obs, "traced-resume/chunk-size-a-power-of-two", 1)
			} else {
				count(obs, "traced-resume/chunk-size-not-a-power-of-two", 1)
			}
			if c.Partial.C1 >= 1000 {
				count(obs, "traced-resume/chunk-size-1000-or-more", 1)
			}
		} else if !res.Prepared || res.Skipped {
			continue
		}
		cs := map[string]any{"case": c, "send_err": res.SendErr, "recv_err": res.RecvErr, "both_returned_nil": res.BothOK}
		bad := map[string]bool{}
		judged := false
		for _, en := range c.Tree.Entries {
			cb, ok := res.ChunkSize[en.Rel]
			if !ok && resumed && en.Rel == c.Partial.Rel {
				cb, ok = c.Partial.C1, true // the geometry the first run's FileBegin announced
			}
			if !ok || cb == 0 || en.Size == 0 {
				continue
			}
			for _, side := range []struct{ who, what, path string }{
				{"sender", "source", filepath.Join(res.Src, filepath.FromSlash(en.Rel))},
				{"receiver", "output", filepath.Join(res.Out, filepath.FromSlash(en.Rel))},
			} {
				rd := reads[side.path]
				if len(rd) == 0 {
					continue
				}
				judged = true
				kind, what, iv, nonLast := c19SpanCheck(rd, en.Size, cb)
				count(obs, "read-span-checked/"+family+"/pread64-on-"+side.what+"-files", len(rd))
				count(obs, "read-span-checked/"+family+"/pread64-on-"+side.what+"-files-at-a-non-last-chunk", nonLast)
				if resumed && en.Rel == c.Partial.Rel {
					count(obs, "traced-resume/pread64-on-the-interrupted-file/"+side.what, len(rd))
					count(obs, "traced-resume/pread64-on-the-interrupted-file/"+side.what+"-at-a-non-last-chunk", nonLast)
				}
				if kind == "" || bad[side.who+kind] {
					continue
				}
				bad[side.who+kind] = true
				key := "traced:" + family + ":" + side.who + "-pread-" + kind
				count(viol, key, 1)
				R.Violate(key, fmt.Sprintf("the %s's pread64 calls on the %s file %s (size %d, chunk size %d, %d chunks) are not chunks of the announced geometry: %s",
					side.who, side.what, en.Rel, en.Size, cb, c19Ceil(en.Size, cb), what), cs,
					map[string]any{"file": en.Rel, "size": en.Size, "chunk_size": cb, "offset": iv.off, "bytes_read": iv.n, "bytes_requested": iv.req,
						"chunk_length_at_offset": min64(int64(cb), en.Size-iv.off), "all_calls_off_read_requested": fmt.Sprint(rd)})
			}
		}
		if resumed && judged {
			R.Distinct(fmt.Sprintf("traced-resume:#%d/cs%d/%s/verify-%s/s%d", c.ID, c.Partial.C1, c.Partial.Kind, c.Verify, c.Streams))
			if i%17 == 0 {
				R.Sample(map[string]any{"case": c, "both_returned_nil": res.BothOK,
					"pread64_on_output_file_off_read_requested": fmt.Sprint(reads[filepath.Join(res.Out, filepath.FromSlash(c.Partial.Rel))]),
					"pread64_on_source_file_off_read_requested": fmt.Sprint(reads[filepath.Join(res.Src, filepath.FromSlash(c.Partial.Rel))])})
			}
		}
	}
	R.Require(obs["traced-resume/first-run-left-the-chosen-chunks"] >= nRes*2/3, fmt.Sprintf("only %d of %d traced interrupted first runs left the chosen chunks on disk", obs["traced-resume/first-run-left-the-chosen-chunks"], nRes))
	R.Require(obs["traced-resume/double-success"] >= nRes/2, fmt.Sprintf("only %d of %d traced resumed transfers were double successes", obs["traced-resume/double-success"], nRes))
	R.Require(obs["traced-resume/chunk-size-not-a-power-of-two"] >= nRes/2 && obs["traced-resume/chunk-size-1000-or-more"] >= nRes/4,
		"too few traced resumed transfers with a chunk size that is not a power of two / with a large chunk size")
	// the receiver's only positional reads of its output file are the verification reads
	R.Require(obs["traced-resume/pread64-on-the-interrupted-file/output-at-a-non-last-chunk"] >= nRes/6,
		fmt.Sprintf("only %d verification reads of the receiver (pread64 on the output file of the interrupted file) at a chunk that is not the last one", obs["traced-resume/pread64-on-the-interrupted-file/output-at-a-non-last-chunk"]))
	R.Require(obs["traced-resume/pread64-on-the-interrupted-file/source"] >= nRes, fmt.Sprintf("only %d pread64 calls of the sender on the interrupted files", obs["traced-resume/pread64-on-the-interrupted-file/source"]))
	R.Require(obs["read-span-checked/fresh-resume-on/pread64-on-source-files"] >= nFresh/4, "too few pread64 calls of senders with the resume option on were span-checked")
}
