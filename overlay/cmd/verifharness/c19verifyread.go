//go:build verif

package main

// C19, stage "geometry", observer "verification-read": the read with which both peers produce /
// check the hash of a chunk for the resume metadata (hashFileChunk, FileResumeInfo.LastVerifiedHash)
// is a read of the chunk geometry too. Observed through its value: for a real file of exactly
// `size` bytes the hash it returns for index i must be the hash of the tile
// [i*cs, min((i+1)*cs, size)) - if it covers other bytes the value differs. All indices of every
// pair of the small domain, plus pairs with large chunk sizes (on / next to powers of two, decimal).
// An error return is not judged here (no value observed): it is counted and the stage then
// misses its minimum observations; the span of the read itself is judged at the system-call
// boundary in stage writes (c19reads.go).

import (
	"fmt"
	"os"
	"path/filepath"

	"github.com/sheerbytes/sheerbytes/internal/transfer"
)

func (c *c19Check) verifyRead(p c19Pair, group string, n uint32, content []byte, dir string) {
	if p.Size == 0 || n == 0 || int64(len(content)) != p.Size {
		return
	}
	path := filepath.Join(dir, "verifyread.bin")
	if os.WriteFile(path, content, 0644) != nil {
		c.count(c.notObs, "verification-read: cannot write the file")
		return
	}
	defer os.Remove(path)
	seen, failed, bad := 0, false, false
	for i := uint32(0); i < n; i++ {
		off := int64(i) * int64(p.CS)
		if off >= p.Size {
			break // the count itself is judged by the tiling oracle
		}
		l := min64(int64(p.CS), p.Size-off)
		h, err := transfer.VerifCoreHashFileChunk(path, i, p.CS, p.Size, transfer.HashAlgCRC32C)
		if err != nil {
			if !failed {
				failed = true
				c.count(c.notObs, "verification-read: hashFileChunk returned an error for a chunk of the geometry ("+group+")")
			}
			continue
		}
		seen++
		if want := uint64(transfer.VerifC19CRC32C(content[off : off+l])); h != want && !bad {
			bad = true
			c.violate(p, group, "verification-read", fmt.Sprintf("hashFileChunk(index %d) of a %d byte file with chunk size %d returns %#x; the chunk at that index is bytes [%d,%d) whose crc32c is %#x - the verification read does not cover exactly that chunk",
				i, p.Size, p.CS, h, off, off+l, want), map[string]any{"index": i, "offset": off, "chunk_length": l})
		}
	}
	c.mu.Lock()
	c.obs["verification-read_chunks"] += seen
	if !failed {
		c.obs["verification-read/"+group]++
	}
	c.mu.Unlock()
}

// verifyReadLarge: the same observer for chunk sizes beyond the small domain.
func (c *c19Check) verifyReadLarge(seed uint64) (planned int) {
	for k, cs := range c19TracedResumeCS {
		for j, size := range []int64{5*int64(cs) + int64(cs)/3, 4 * int64(cs), 2*int64(cs) + 1, 3*int64(cs) - 1} {
			p := c19Pair{size, cs}
			dir := c.dir()
			c.verifyRead(p, "large-chunk-sizes", transfer.VerifC19ChunkTotal(p.Size, p.CS), c19Content(size, seed^uint64(k*8+j)), dir)
			os.RemoveAll(dir)
			planned++
		}
	}
	return planned
}
