//go:build verif

package main

// C19, stage "writes" – the receiver's writes and the sender's reads themselves, observed at the
// system-call boundary.
//
// The other stages judge what is in the output file afterwards (over destinations whose every byte
// differs from the source, so that an omitted write shows) and the receiver's own events. This
// stage looks at the calls: a child process runs real SendManifestMultiStream <->
// RecvManifestMultiStream transfers (content classes x destination classes, mock transport) under
// `strace -f -y -e trace=pwrite64,pread64`; the parent reads the trace.
//
// Oracle, per output file of a transfer in which both endpoints returned nil, in the geometry
// (size S, chunk size cb) its FileBegin announced:
//   tile      every pwrite64 on the output path is a tile: offset = i*cb, length = min(cb, S-i*cb)
//   cover     every tile was written or was declared complete by the receiver (FileResumeInfo)
//   once      without resume no tile is written twice
// and the same three for the pread64 calls of the sender on the source path when the transfer
// ran without resume (with resume the sender also hashes chunks for verification).
// A second oracle (c19reads.go) judges the span of every pread64 of every traced case, including
// interrupted-then-resumed histories run in the same child, whatever the outcome of the transfer.
// The harness prepares sources and destinations with write(2), so the only positional calls on
// those paths are the code's own.

import (
	"bufio"
	"encoding/json"
	"fmt"
	"os"
	"os/exec"
	"path/filepath"
	"regexp"
	"sort"
	"strconv"
	"strings"
	"sync"
	"sync/atomic"
	"time"

	"github.com/sheerbytes/sheerbytes/internal/transfer"
	"github.com/sheerbytes/sheerbytes/internal/verifhook"
	vk "github.com/sheerbytes/sheerbytes/internal/verifkit"
)

func init() {
	register("c19writes", runC19Writes)
	childCommands["c19writes-child"] = c19WritesChild
}

type c19WSpec struct {
	Work  string    `json:"work"`
	Cases []c19Case `json:"cases"`
}

type c19WResult struct {
	ID        int                 `json:"id"`
	Prepared  bool                `json:"prepared"`
	Skipped   bool                `json:"skipped_after_watchdogs"`
	BothOK    bool                `json:"both_ok"`
	SenderNil bool                `json:"sender_nil"`
	Watchdog  bool                `json:"watchdog"`
	SendErr   string              `json:"send_err"`
	RecvErr   string              `json:"recv_err"`
	Src       string              `json:"src"`
	Out       string              `json:"out"`
	ChunkSize map[string]uint32   `json:"filebegin_chunk_size"`
	Claimed   map[string][]uint32 `json:"chunks_declared_complete"`
	OutputOK  map[string]bool     `json:"output_equals_source"`
	FirstRun  bool                `json:"first_run_left_the_chosen_chunks"` // cases with an interrupted first run (c19reads.go)
}

// c19WritesChild: verifharness c19writes-child <spec.json> <result.json>
func c19WritesChild(args []string) int {
	if len(args) < 2 {
		return 3
	}
	raw, err := os.ReadFile(args[0])
	if err != nil {
		return 3
	}
	var spec c19WSpec
	if json.Unmarshal(raw, &spec) != nil {
		return 3
	}
	h := &c19Hist{R: vk.NewReport("c19writes-child", "child", "quick", 0), work: spec.Work, obs: map[string]int{}, notObs: map[string]int{}, viol: map[string]int{}}
	results := make([]c19WResult, len(spec.Cases))
	// the interrupted first runs of the traced resume histories (c19reads.go) wait for this hook
	verifhook.Set("recv.chunk.afterMark", func(ev verifhook.Event) {
		if v, ok := h.marks.Load(ev.A); ok {
			mk := v.(*c19Marks)
			mk.mu.Lock()
			mk.set[uint32(ev.B)] = true
			mk.mu.Unlock()
			select {
			case mk.ch <- struct{}{}:
			default:
			}
		}
	})
	defer verifhook.Set("recv.chunk.afterMark", nil)
	vk.ParallelDo(len(spec.Cases), 4, func(i int) {
		c := spec.Cases[i]
		base := filepath.Join(spec.Work, fmt.Sprintf("w%05d", c.ID))
		res := c19WResult{ID: c.ID, Src: filepath.Join(base, "src"), Out: filepath.Join(base, "out"), ChunkSize: map[string]uint32{}, Claimed: map[string][]uint32{}, OutputOK: map[string]bool{}}
		defer func() { results[i] = res }()
		if atomic.LoadInt64(&h.watchdogs) > 3 {
			res.Skipped = true // a tree on which transfers hang: do not spend 20 s on each of them
			return
		}
		m, _, ok := h.prepare(c, res.Src, res.Out)
		if !ok {
			return
		}
		res.Prepared = true
		c.Transport = "mock"
		if c.Partial != nil {
			if res.FirstRun = h.firstRun(c, m, res.Out); !res.FirstRun {
				return
			}
		}
		r := h.transferRun(c, nil, m, res.Src, res.Out)
		transfer.VerifRetireSidecars(res.Out)
		res.BothOK, res.Watchdog = r.bothOK(), r.watchdog
		res.SenderNil = r.sendRet && r.sendErr == nil && !r.watchdog
		res.SendErr, res.RecvErr = fmt.Sprint(r.sendErr), fmt.Sprint(r.recvErr)
		for _, it := range m.Items {
			if it.IsDir {
				continue
			}
			key := transfer.VerifC19FileKey(it)
			fbs := r.wire.begins[key]
			if len(fbs) == 0 {
				continue
			}
			same := true
			for _, fb := range fbs {
				if fb.ChunkSize != fbs[0].ChunkSize {
					same = false
				}
			}
			if !same || fbs[0].ChunkSize == 0 {
				continue
			}
			res.ChunkSize[it.RelPath] = fbs[0].ChunkSize
			set := map[uint32]bool{}
			for _, ri := range r.wire.resumes[key] {
				if len(ri.Bitmap) == 0 || ri.TotalChunks == 0 {
					continue
				}
				if bm, err := transfer.BitmapFromBytes(ri.Bitmap, int(ri.TotalChunks)); err == nil {
					for k := 0; k < int(ri.TotalChunks); k++ {
						if bm.Get(k) {
							set[uint32(k)] = true
						}
					}
				}
			}
			var list []uint32
			for k := range set {
				list = append(list, k)
			}
			sort.Slice(list, func(a, b int) bool { return list[a] < list[b] })
			res.Claimed[it.RelPath] = list
		}
	})
	out, _ := json.Marshal(results)
	if os.WriteFile(args[1], out, 0644) != nil {
		return 3
	}
	return 0
}

// c19Interval is one positional call: offset, bytes transferred (return value), bytes requested.
type c19Interval struct{ off, n, req int64 }

var c19TraceRe = regexp.MustCompile(`^(pwrite64|pread64)\((\d+)<([^>]*)>, "[^"]*"(?:\.\.\.)?, (\d+), (\d+)\)\s+= (-?\d+)`)

// c19ParseTrace returns the positional writes and reads per path.
func c19ParseTrace(path string) (writes, reads map[string][]c19Interval, lines int, err error) {
	writes, reads = map[string][]c19Interval{}, map[string][]c19Interval{}
	f, err := os.Open(path)
	if err != nil {
		return nil, nil, 0, err
	}
	defer f.Close()
	pending := map[string]string{}
	sc := bufio.NewScanner(f)
	sc.Buffer(make([]byte, 1<<20), 1<<24)
	for sc.Scan() {
		line := sc.Text()
		lines++
		sp := strings.IndexByte(line, ' ')
		if sp <= 0 {
			continue
		}
		pid, rest := line[:sp], strings.TrimLeft(line[sp:], " ")
		if strings.HasSuffix(rest, "<unfinished ...>") {
			pending[pid] = strings.TrimSuffix(rest, "<unfinished ...>")
			continue
		}
		if strings.HasPrefix(rest, "<... ") {
			k := strings.Index(rest, "resumed>")
			if k < 0 {
				continue
			}
			head := strings.TrimRight(pending[pid], " ")
			if strings.HasSuffix(head, ",") {
				head += " " // arguments decoded at exit (pread64's buffer) follow the separator
			}
			rest = head + strings.TrimLeft(rest[k+len("resumed>"):], " ")
			delete(pending, pid)
		}
		mm := c19TraceRe.FindStringSubmatch(rest)
		if mm == nil {
			continue
		}
		off, _ := strconv.ParseInt(mm[5], 10, 64)
		ret, _ := strconv.ParseInt(mm[6], 10, 64)
		if ret <= 0 {
			continue
		}
		req, _ := strconv.ParseInt(mm[4], 10, 64)
		if mm[1] == "pwrite64" {
			writes[mm[3]] = append(writes[mm[3]], c19Interval{off, ret, req})
		} else {
			reads[mm[3]] = append(reads[mm[3]], c19Interval{off, ret, req})
		}
	}
	return writes, reads, lines, sc.Err()
}

// c19TileCheck applies tile / cover / once to the calls on one path. Returns "" or the kind of
// the first defect with a description.
func c19TileCheck(calls []c19Interval, size int64, cb uint32, claimed map[uint32]bool, once bool) (kind, what string, perTile []int) {
	c := int64(cb)
	n := (size + c - 1) / c
	perTile = make([]int, n)
	for _, iv := range calls {
		switch {
		case iv.off+iv.n > size:
			return "beyond-the-end", fmt.Sprintf("a call at offset %d of length %d ends beyond the file size %d", iv.off, iv.n, size), perTile
		case iv.off%c != 0:
			return "not-a-tile", fmt.Sprintf("a call at offset %d (length %d), which is not a multiple of the chunk size %d", iv.off, iv.n, cb), perTile
		case iv.n != min64(c, size-iv.off):
			return "not-a-tile", fmt.Sprintf("a call at offset %d of length %d, the chunk at that offset is %d bytes long", iv.off, iv.n, min64(c, size-iv.off)), perTile
		}
		perTile[iv.off/c]++
	}
	for i, k := range perTile {
		if k == 0 && !claimed[uint32(i)] {
			return "gap", fmt.Sprintf("chunk %d = bytes [%d,%d) was never the subject of a call (and not declared complete beforehand)", i, int64(i)*c, min64(int64(i+1)*c, size)), perTile
		}
	}
	if once {
		for i, k := range perTile {
			if k > 1 {
				return "overlap", fmt.Sprintf("chunk %d = bytes [%d,%d) was the subject of %d calls", i, int64(i)*c, min64(int64(i+1)*c, size), k), perTile
			}
		}
	}
	return "", "", perTile
}

func runC19Writes(e *Env) {
	R := e.R
	R.Rule = "one case = one real multi-file transfer (content class x destination class of its first file, chunk-size schedule, streams, resume on/off) run in a child process under strace; " +
		"counted distinct (by case number and classes) once both endpoints returned nil and the pwrite64 calls on its output files were compared with the announced geometry"
	base := e.Seed ^ vk.HashStr("c19writes"+e.Tier)
	obs, notObs, viol := map[string]int{}, map[string]int{}, map[string]int{}
	var mu sync.Mutex
	count := func(m map[string]int, k string, n int) { mu.Lock(); m[k] += n; mu.Unlock() }
	defer func() {
		R.SetExtra("observations", obs)
		R.SetExtra("could_not_observe", notObs)
		R.SetExtra("violations_by_key", viol)
	}()

	work := e.Work
	if d, err := os.MkdirTemp("/dev/shm", "verif-c19w-"); err == nil {
		work = d
		defer os.RemoveAll(d)
	} else if d, err := os.MkdirTemp(e.Work, "w"); err == nil {
		work = d
	}

	stracePath, err := exec.LookPath("strace")
	if err == nil {
		if out, perr := exec.Command(stracePath, "-f", "-qq", "-e", "trace=pwrite64", "-o", filepath.Join(work, "probe.log"), "/bin/true").CombinedOutput(); perr != nil {
			err = fmt.Errorf("strace cannot trace a child here: %v %s", perr, strings.TrimSpace(string(out)))
		}
	}
	if err != nil {
		// an environment feature is missing: no verdict from this stage (DESIGN.md §1)
		R.SetExtra("strace", "unavailable: "+err.Error())
		R.Inconcl("stage writes needs strace (system-call trace of the receiver's pwrite64 calls): " + err.Error())
		R.Require(false, "strace unavailable")
		return
	}
	R.SetExtra("strace", stracePath)

	// ---- cases ----
	r := vk.NewRng(base)
	var cases []c19Case
	per := e.Pick(6, 40)
	for _, cc := range c19ContentClasses {
		for _, dc := range c19DestClasses {
			for i := 0; i < per; i++ {
				c := c19GenContent(r.Fork(), len(cases), cc, dc)
				c.Transport = "mock"
				c.History = "traced"
				cases = append(cases, c)
			}
		}
	}
	specPath, resPath, tracePath := filepath.Join(work, "spec.json"), filepath.Join(work, "result.json"), filepath.Join(work, "trace.log")
	// interrupted-then-resumed histories (c19reads.go); they follow the cases above in the child's list
	resumeCases := c19GenTracedResumes(vk.NewRng(base^vk.HashStr("traced-resume")), len(cases), e.Pick(40, 200))
	all := append(append([]c19Case{}, cases...), resumeCases...)
	raw, _ := json.Marshal(c19WSpec{Work: work, Cases: all})
	if os.WriteFile(specPath, raw, 0644) != nil {
		R.Inconcl("cannot write the case list")
		R.Require(false, "no case list")
		return
	}
	t0 := time.Now()
	run := func(extra ...string) error {
		_ = os.Remove(resPath)
		argv := append([]string{"-f", "-qq", "-y", "-s", "0", "-e", "signal=none", "-e", "trace=pwrite64,pread64"}, extra...)
		argv = append(argv, "-o", tracePath, os.Args[0], "c19writes-child", specPath, resPath)
		cmd := exec.Command(stracePath, argv...)
		cmd.Stdout, cmd.Stderr = os.Stderr, os.Stderr
		if err := cmd.Start(); err != nil {
			return err
		}
		done := make(chan error, 1)
		go func() { done <- cmd.Wait() }()
		select {
		case err := <-done:
			return err
		case <-time.After(time.Duration(e.Pick(240, 900)) * time.Second):
			_ = cmd.Process.Kill()
			<-done
			return fmt.Errorf("watchdog")
		}
	}
	err = run("--seccomp-bpf")
	if _, serr := os.Stat(resPath); err != nil || serr != nil {
		err = run()
	}
	if _, serr := os.Stat(resPath); err != nil || serr != nil {
		R.Inconcl(fmt.Sprintf("the traced child did not finish (%v)", err))
		R.Require(false, "traced child did not finish")
		return
	}
	vk.Logf("c19writes traced child done after %.1fs", time.Since(t0).Seconds())
	var results []c19WResult
	raw, _ = os.ReadFile(resPath)
	if json.Unmarshal(raw, &results) != nil || len(results) != len(all) {
		R.Inconcl("the traced child's result file is unreadable")
		R.Require(false, "no results")
		return
	}
	writes, reads, lines, perr := c19ParseTrace(tracePath)
	if perr != nil {
		R.Inconcl("cannot read the trace: " + perr.Error())
		R.Require(false, "no trace")
		return
	}
	R.SetExtra("trace_lines", lines)

	// ---- oracle: no positional read is longer than the chunk it starts (all traced cases, whatever their outcome) ----
	c19JudgeReads(R, all, results, reads, len(cases), count, obs, viol)

	// ---- oracle ----
	for i, c := range cases {
		res := results[i]
		R.Eval()
		switch {
		case res.Skipped:
			count(notObs, "case skipped after more than 3 watchdog hits in the traced child", 1)
			continue
		case !res.Prepared:
			count(notObs, "case could not be prepared", 1)
			continue
		case res.Watchdog:
			R.Inconcl(fmt.Sprintf("traced case %d: watchdog", c.ID))
			count(notObs, "transfer: watchdog", 1)
			continue
		case !res.BothOK:
			count(notObs, "transfer: not a double success", 1)
			continue
		}
		count(obs, "double-success", 1)
		R.Distinct(fmt.Sprintf("traced:#%d/%s/res%v/s%d", c.ID, c.fileClass(c.Tree.Entries[0].Rel), c.Resume, c.Streams))
		cs := map[string]any{"case": c, "send_err": res.SendErr, "recv_err": res.RecvErr}
		bad := map[string]bool{}
		for _, en := range c.Tree.Entries {
			cb, ok := res.ChunkSize[en.Rel]
			if !ok || en.Size == 0 {
				continue
			}
			fc := c.fileClass(en.Rel)
			sp, _ := c.spec(en.Rel)
			claimed := map[uint32]bool{}
			for _, k := range res.Claimed[en.Rel] {
				claimed[k] = true
			}
			src := c.fileBytes(en.Rel, en.Size)
			dest, present := c.destBefore(en.Rel, src)
			prior := c19Prior(dest, present, en.Size)

			outPath := filepath.Join(res.Out, filepath.FromSlash(en.Rel))
			w := writes[outPath]
			count(obs, "output-files-traced", 1)
			count(obs, "output-files-traced/content-"+sp.Content, 1)
			count(obs, "output-files-traced/destination-"+sp.Dest, 1)
			count(obs, "pwrite64-calls-on-output-files", len(w))
			c19Analyse(src, prior, cb).addTo(func(k string, n int) { count(obs, k, n) }, "traced-in-announced-geometry/")
			if kind, what, per := c19TileCheck(w, en.Size, cb, claimed, !c.Resume); kind != "" && !bad["w"+kind+sp.Content] {
				bad["w"+kind+sp.Content] = true
				key := "traced:receiver-pwrite-" + kind + ":content-" + sp.Content
				count(viol, key, 1)
				R.Violate(key, fmt.Sprintf("both endpoints returned nil; the receiver's pwrite64 calls on %s (size %d, FileBegin chunk size %d) do not tile the file: %s", en.Rel, en.Size, cb, what), cs,
					map[string]any{"file": en.Rel, "calls_per_chunk": per, "calls": fmt.Sprint(w), "declared_complete": res.Claimed[en.Rel], "class": fc})
			}
			got, rerr := os.ReadFile(outPath)
			if rerr != nil || string(got) != string(src) {
				if !bad["b"+fc] {
					bad["b"+fc] = true
					kind, detail := c19DescribeDiff(got, src, prior, cb)
					key := "traced:file-" + kind + ":" + fc
					count(viol, key, 1)
					R.Violate(key, fmt.Sprintf("both endpoints returned nil; output file %s (size %d, FileBegin chunk size %d) is not the source (%v)", en.Rel, en.Size, cb, rerr), cs, detail)
				}
			}
			if c.Resume || !res.SenderNil {
				continue
			}
			rd := reads[filepath.Join(res.Src, filepath.FromSlash(en.Rel))]
			if len(rd) == 0 {
				count(notObs, "sender reads: no pread64 on the source file (not read positionally)", 1)
				continue
			}
			count(obs, "source-files-traced", 1)
			count(obs, "pread64-calls-on-source-files", len(rd))
			if kind, what, per := c19TileCheck(rd, en.Size, cb, nil, true); kind != "" && !bad["r"+kind+sp.Content] {
				bad["r"+kind+sp.Content] = true
				key := "traced:sender-pread-" + kind + ":content-" + sp.Content
				count(viol, key, 1)
				R.Violate(key, fmt.Sprintf("both endpoints returned nil (no resume); the sender's pread64 calls on %s (size %d, FileBegin chunk size %d) do not tile the file: %s", en.Rel, en.Size, cb, what), cs,
					map[string]any{"file": en.Rel, "calls_per_chunk": per, "calls": fmt.Sprint(rd), "class": fc})
			}
		}
		if i%29 == 0 {
			R.Sample(map[string]any{"case": c, "filebegin_chunk_sizes": res.ChunkSize, "pwrite64_calls_first_file": fmt.Sprint(writes[filepath.Join(res.Out, c.Tree.Entries[0].Rel)])})
		}
	}
	R.SetExtra("cases_planned", len(cases))
	R.SetExtra("cases_planned_interrupted_then_resumed", len(resumeCases))
	R.SetExtra("not_covered", "mock transport only; the interrupted-then-resumed histories that are traced keep their chunk size (a changed chunk size discards the recorded chunks, stage history); with resume on, the sender's reads are judged for their span (offset on a chunk boundary, at most the chunk long) but not for cover / once (verification hashing reads chunks too)")

	R.Require(obs["double-success"] >= len(cases)*2/3, fmt.Sprintf("only %d of %d traced transfers were double successes", obs["double-success"], len(cases)))
	R.Require(obs["pwrite64-calls-on-output-files"] >= 10*len(cases), fmt.Sprintf("only %d pwrite64 calls on output files in the trace", obs["pwrite64-calls-on-output-files"]))
	R.Require(obs["pread64-calls-on-source-files"] >= 2*len(cases), fmt.Sprintf("only %d pread64 calls on source files in the trace", obs["pread64-calls-on-source-files"]))
	for _, cc := range c19ContentClasses {
		R.Require(obs["output-files-traced/content-"+cc] >= 3*per, "content class "+cc+": fewer than "+fmt.Sprint(3*per)+" output files traced")
	}
	for _, dc := range c19DestClasses {
		R.Require(obs["output-files-traced/destination-"+dc] >= 3*per, "destination class "+dc+": fewer than "+fmt.Sprint(3*per)+" output files traced")
	}
	R.Require(obs["traced-in-announced-geometry/all-zero-chunk-over-nonzero-destination-bytes"] >= 10*per, "fewer than "+fmt.Sprint(10*per)+" all-zero chunks over non-zero destination bytes were traced")
	R.Require(obs["traced-in-announced-geometry/chunk-equal-to-previous-chunk"] >= 10*per, "fewer than "+fmt.Sprint(10*per)+" chunks equal to their predecessor were traced")
}
