//go:build verif

package main

import (
	"strconv"
	"bufio"
	"encoding/json"
	"fmt"
	"os"
	"os/exec"
	"path/filepath"
	"regexp"
	"strings"
	"sync"
	"syscall"
	"time"

	vk "github.com/sheerbytes/sheerbytes/internal/verifkit"
)

// Real-binary sessions: thruserv + `thru host` + `thru join` inside a private
// network namespace (unshare -n), so that the set of local addresses (and with
// it the candidate race of C09) is controlled and ports never collide.

func init() {
	childCommands["e2e-child"] = e2eChild
	register("c01e2e", runC01E2E)
	register("c03e2e", runC03E2E)
	register("c04e2e", runC04E2E)
	register("c09e2e", runC09E2E)
}

type e2eSpec struct {
	ID       string   `json:"id"`
	Src      string   `json:"src"`
	Out      string   `json:"out"`
	HostArgs []string `json:"host_args"`
	JoinArgs []string `json:"join_args"`
	Stdin    string   `json:"stdin"`
	Addrs    int      `json:"addrs"` // 1 = lo with 127.0.0.1 only; n>1 adds n-1 extra IPv4 addresses (and keeps ::1 when V6)
	V6       bool     `json:"v6"`
	JoinEnv  []string `json:"join_env,omitempty"`
	HostEnv  []string `json:"host_env,omitempty"`
	TimeoutS int      `json:"timeout_s"`
	// StallS > 0: give up only when the output directory has not changed for
	// StallS seconds (TimeoutS is then the outer cap)
	StallS   int      `json:"stall_s,omitempty"`
	// OneWay > 0: the first OneWay extra addresses (10.77.k.1) carry datagrams
	// towards the host's transfer socket in neither direction back, i.e. a
	// candidate of the receiver at such an address works from the sender to the
	// receiver but the receiver's answers are dropped (iptables OUTPUT rule on
	// the host's UDP port, installed as soon as that socket exists)
	OneWay   int      `json:"one_way,omitempty"`
	// JoinWrap: command prefix under which `thru join` runs, e.g. strace with
	// delay injection into some of its pwrite64 calls (a slow disk for single
	// writes, which no hook can produce between two adjacent statements)
	JoinWrap []string `json:"join_wrap,omitempty"`
	BinDir   string   `json:"bindir"`
	WorkDir  string   `json:"workdir"`
}

type e2eResult struct {
	ID           string `json:"id"`
	SetupErr     string `json:"setup_err,omitempty"`
	JoinExit     int    `json:"join_exit"`
	JoinSignaled bool   `json:"join_signaled"`
	JoinTimedOut bool   `json:"join_timed_out"`
	// StillProgressing: the outer cap was hit while output or logs still changed (no verdict)
	StillProgressing bool `json:"still_progressing,omitempty"`
	HostStatus   string `json:"host_status"` // last status= value printed for the peer
	JoinCode     string `json:"join_code"`
	DurMs        int64  `json:"dur_ms"`
	HostTail     string `json:"host_tail"`
	JoinTail     string `json:"join_tail"`
	Candidates   int    `json:"local_addresses"`
	// one-way sessions: when the drop rules were installed and how many datagrams they dropped
	OneWayRuleMs  int64 `json:"one_way_rule_ms,omitempty"`
	OneWayDropped int64 `json:"one_way_dropped,omitempty"`
	JoinDump     string `json:"join_dump,omitempty"` // goroutines with repository frames after SIGQUIT
}

var (
	reCode   = regexp.MustCompile(`Join Code: ([A-Z0-9]+)`)
	reStatus = regexp.MustCompile(`status=(DONE|FAILED|TRANSFERRING|QUEUED|JOINED)`)
)

func tailStr(p string, n int) string {
	b, err := os.ReadFile(p)
	if err != nil {
		return ""
	}
	s := strings.ReplaceAll(string(b), "\r", "\n")
	// drop repeated UI lines
	var out []string
	last := ""
	for _, ln := range strings.Split(s, "\n") {
		ln = strings.TrimSpace(ln)
		if ln == "" || ln == last {
			continue
		}
		last = ln
		out = append(out, ln)
	}
	if len(out) > n {
		out = out[len(out)-n:]
	}
	return strings.Join(out, "\n")
}

// e2eChild runs INSIDE the network namespace: starts the three real binaries.
func e2eChild(args []string) int {
	if len(args) < 2 {
		return 3
	}
	var spec e2eSpec
	b, err := os.ReadFile(args[0])
	if err != nil || json.Unmarshal(b, &spec) != nil {
		return 3
	}
	res := e2eResult{ID: spec.ID, JoinExit: -1}
	defer func() {
		out, _ := json.Marshal(res)
		_ = os.WriteFile(args[1], out, 0644)
	}()
	start := time.Now()
	servLog := filepath.Join(spec.WorkDir, "serv.log")
	hostLog := filepath.Join(spec.WorkDir, "host.log")
	joinLog := filepath.Join(spec.WorkDir, "join.log")
	srv, err := vk.StartServ(filepath.Join(spec.BinDir, "thruserv"), nil, servLog)
	if err != nil {
		res.SetupErr = "thruserv: " + err.Error()
		return 0
	}
	defer srv.Stop()
	hf, _ := os.Create(hostLog)
	hargs := append([]string{"host", spec.Src, "--server-url", srv.URL, "--stun-server", "127.0.0.1:9"}, spec.HostArgs...)
	host := exec.Command(filepath.Join(spec.BinDir, "thru"), hargs...)
	host.Stdout, host.Stderr = hf, hf
	host.Stdin = nil
	host.Env = append(os.Environ(), spec.HostEnv...)
	if err := host.Start(); err != nil {
		res.SetupErr = "thru host: " + err.Error()
		return 0
	}
	defer func() {
		_ = host.Process.Kill()
		_, _ = host.Process.Wait()
		hf.Close()
	}()
	// wait for the join code
	code := ""
	for i := 0; i < 100 && code == ""; i++ {
		time.Sleep(100 * time.Millisecond)
		if b, err := os.ReadFile(hostLog); err == nil {
			if m := reCode.FindSubmatch(b); m != nil {
				code = string(m[1])
			}
		}
	}
	if code == "" {
		res.SetupErr = "no join code from thru host: " + tailStr(hostLog, 8)
		return 0
	}
	res.JoinCode = code
	jf, _ := os.Create(joinLog)
	defer jf.Close()
	jargs := append([]string{"join", code, "--out", spec.Out, "--server-url", srv.URL, "--stun-server", "127.0.0.1:9"}, spec.JoinArgs...)
	join := exec.Command(filepath.Join(spec.BinDir, "thru"), jargs...)
	if len(spec.JoinWrap) > 0 {
		join = exec.Command(spec.JoinWrap[0], append(append([]string{}, spec.JoinWrap[1:]...), append([]string{filepath.Join(spec.BinDir, "thru")}, jargs...)...)...)
	}
	join.Stdout, join.Stderr = jf, jf
	join.Env = append(os.Environ(), spec.JoinEnv...)
	stdin, _ := join.StdinPipe()
	if err := join.Start(); err != nil {
		res.SetupErr = "thru join: " + err.Error()
		return 0
	}
	go func() {
		// answer the prompts; keep stdin open afterwards (the receiver reads it)
		_, _ = stdin.Write([]byte(spec.Stdin))
	}()
	if spec.OneWay > 0 {
		go func() {
			// install the drop rules the moment the host's transfer socket exists
			t0 := time.Now()
			for time.Since(t0) < 20*time.Second {
				ports := udpPortsOfPid(host.Process.Pid)
				if len(ports) == 0 {
					time.Sleep(2 * time.Millisecond)
					continue
				}
				for _, port := range ports {
					for k := 1; k <= spec.OneWay; k++ {
						_ = exec.Command("iptables", "-A", "OUTPUT", "-p", "udp", "-s", fmt.Sprintf("10.77.%d.1", k), "--dport", fmt.Sprint(port), "-j", "DROP").Run()
					}
				}
				res.OneWayRuleMs = time.Since(start).Milliseconds()
				return
			}
		}()
	}
	done := make(chan error, 1)
	go func() { done <- join.Wait() }()
	to := time.Duration(spec.TimeoutS) * time.Second
	if to <= 0 {
		to = 45 * time.Second
	}
	timedOut := false
	if spec.StallS > 0 {
		// bounded progress instead of a fixed deadline: the session is given up
		// only when neither the output directory nor a log has changed for
		// StallS seconds (TimeoutS stays as an outer cap; hitting the cap while
		// still progressing is reported separately and is not a hang)
		sig := func() string {
			// the logs are not part of the signature: both programs redraw
			// their progress display periodically even when nothing moves
			n, bytes, mt := 0, int64(0), int64(0)
			_ = filepath.Walk(spec.Out, func(_ string, fi os.FileInfo, err error) error {
				if err == nil {
					n++
					bytes += fi.Size()
					if t := fi.ModTime().UnixNano(); t > mt {
						mt = t
					}
				}
				return nil
			})
			return fmt.Sprintf("%d/%d/%d", n, bytes, mt)
		}
		last, lastChange, begin := sig(), time.Now(), time.Now()
	poll:
		for {
			select {
			case <-done:
				break poll
			case <-time.After(500 * time.Millisecond):
			}
			if s := sig(); s != last {
				last, lastChange = s, time.Now()
			}
			if time.Since(lastChange) > time.Duration(spec.StallS)*time.Second {
				timedOut = true
				break poll
			}
			if time.Since(begin) > to {
				timedOut = true
				res.StillProgressing = true
				break poll
			}
		}
	} else {
		select {
		case <-done:
		case <-time.After(to):
			timedOut = true
		}
	}
	if timedOut {
		res.JoinTimedOut = true
		_ = join.Process.Signal(syscall.SIGQUIT)
		select {
		case <-done:
		case <-time.After(3 * time.Second):
			_ = join.Process.Kill()
			<-done
		}
	}
	if ps := join.ProcessState; ps != nil {
		res.JoinExit = ps.ExitCode()
		if ws, ok := ps.Sys().(syscall.WaitStatus); ok && ws.Signaled() {
			res.JoinSignaled = true
		}
	}
	// give the host a moment to print its final status line
	// (a receiver disconnects the moment it is complete; the host may show
	// FAILED for the disconnect first and DONE once its transfer function has
	// returned, so FAILED is only final after it stayed for a second)
	failedSince := time.Time{}
	for i := 0; i < 40; i++ {
		b, _ := os.ReadFile(hostLog)
		all := reStatus.FindAllSubmatch(b, -1)
		if len(all) > 0 {
			res.HostStatus = string(all[len(all)-1][1])
		}
		if res.HostStatus == "DONE" {
			break
		}
		if res.HostStatus == "FAILED" {
			if failedSince.IsZero() {
				failedSince = time.Now()
			} else if time.Since(failedSince) > 1200*time.Millisecond {
				break
			}
		}
		time.Sleep(100 * time.Millisecond)
	}
	res.DurMs = time.Since(start).Milliseconds()
	if spec.OneWay > 0 {
		if out, err := exec.Command("iptables", "-L", "OUTPUT", "-v", "-n", "-x").Output(); err == nil {
			for _, ln := range strings.Split(string(out), "\n") {
				f := strings.Fields(ln)
				if len(f) > 3 && f[2] == "DROP" {
					n, _ := strconv.ParseInt(f[0], 10, 64)
					res.OneWayDropped += n
				}
			}
		}
	}
	res.HostTail = errLines(hostLog) + "\n" + tailStr(hostLog, 6)
	res.JoinTail = tailStr(joinLog, 12)
	if res.JoinTimedOut {
		res.JoinDump = repoGoroutines(joinLog)
		res.JoinTail = ""
	}
	return 0
}

// errLines returns the distinct error-level lines of a log.
func errLines(p string) string {
	b, err := os.ReadFile(p)
	if err != nil {
		return ""
	}
	seen := map[string]bool{}
	var out []string
	for _, ln := range strings.Split(strings.ReplaceAll(string(b), "\r", "\n"), "\n") {
		if strings.Contains(ln, "level=ERROR") || strings.Contains(ln, "level=WARN") || strings.Contains(ln, "failed") {
			k := ln
			if i := strings.Index(k, "level="); i >= 0 {
				k = k[i:]
			}
			if !seen[k] && len(out) < 12 {
				seen[k] = true
				out = append(out, strings.TrimSpace(ln))
			}
		}
	}
	return strings.Join(out, "\n")
}

// repoGoroutines extracts the goroutines that have a repository frame from a
// SIGQUIT dump in a log file.
func repoGoroutines(p string) string {
	b, err := os.ReadFile(p)
	if err != nil {
		return ""
	}
	var keep []string
	for _, g := range strings.Split(string(b), "\n\n") {
		if !strings.HasPrefix(strings.TrimSpace(g), "goroutine ") || !strings.Contains(g, "/repo/internal/") {
			continue
		}
		var lines []string
		for _, ln := range strings.Split(g, "\n") {
			if strings.HasPrefix(ln, "goroutine ") || (strings.Contains(ln, "/repo/internal/") && strings.Contains(ln, ".go:")) {
				lines = append(lines, strings.TrimSpace(ln))
			}
		}
		if len(lines) > 6 {
			lines = lines[:6]
		}
		keep = append(keep, strings.Join(lines, "\n  "))
		if len(keep) >= 25 {
			break
		}
	}
	return strings.Join(keep, "\n")
}

var (
	unshareOnce sync.Once
	unshareOK   bool
)

func haveUnshare() bool {
	unshareOnce.Do(func() {
		err := exec.Command("unshare", "-n", "true").Run()
		unshareOK = err == nil
	})
	return unshareOK
}

// runSession runs one real-binary session in a fresh network namespace.
func runSession(e *Env, spec e2eSpec) e2eResult {
	spec.BinDir = e.BinDir
	if spec.WorkDir == "" {
		spec.WorkDir = vk.TempDir(e.Work, "sess-")
	}
	specPath := filepath.Join(spec.WorkDir, "spec.json")
	resPath := filepath.Join(spec.WorkDir, "result.json")
	b, _ := json.Marshal(spec)
	_ = os.WriteFile(specPath, b, 0644)
	var script strings.Builder
	script.WriteString("ip link set lo up\n")
	if !spec.V6 {
		script.WriteString("sysctl -qw net.ipv6.conf.all.disable_ipv6=1 >/dev/null 2>&1\n")
	}
	for i := 1; i < spec.Addrs; i++ {
		fmt.Fprintf(&script, "ip addr add 10.77.%d.1/24 dev lo\n", i)
	}
	fmt.Fprintf(&script, "exec %s e2e-child %s %s\n", os.Args[0], specPath, resPath)
	cmd := exec.Command("unshare", "-n", "sh", "-c", script.String())
	out, err := cmd.CombinedOutput()
	var res e2eResult
	rb, rerr := os.ReadFile(resPath)
	if rerr != nil || json.Unmarshal(rb, &res) != nil {
		res.ID = spec.ID
		res.SetupErr = fmt.Sprintf("session runner failed: %v %s", err, string(out))
	}
	n := spec.Addrs
	if spec.V6 {
		n++
	}
	res.Candidates = n
	return res
}

// udpPortsOfPid lists the local ports of the UDP sockets a process holds.
func udpPortsOfPid(pid int) []int {
	inodes := map[string]bool{}
	fds, _ := os.ReadDir(fmt.Sprintf("/proc/%d/fd", pid))
	for _, fd := range fds {
		if l, err := os.Readlink(fmt.Sprintf("/proc/%d/fd/%s", pid, fd.Name())); err == nil && strings.HasPrefix(l, "socket:[") {
			inodes[strings.TrimSuffix(strings.TrimPrefix(l, "socket:["), "]")] = true
		}
	}
	var ports []int
	for _, f := range []string{"/proc/net/udp", "/proc/net/udp6"} {
		b, err := os.ReadFile(f)
		if err != nil {
			continue
		}
		for i, ln := range strings.Split(string(b), "\n") {
			fs := strings.Fields(ln)
			if i == 0 || len(fs) < 10 || !inodes[fs[9]] {
				continue
			}
			if j := strings.LastIndexByte(fs[1], ':'); j >= 0 {
				if p, err := strconv.ParseInt(fs[1][j+1:], 16, 32); err == nil && p > 0 {
					ports = append(ports, int(p))
				}
			}
		}
	}
	return ports
}

// e2eTree materialises a tree for a session and returns (src, out, tree).
func e2eTree(e *Env, seed uint64, shape string, cs int64, maxBytes int64) (string, string, vk.Tree, string) {
	base := vk.TempDir(e.Work, "e2e-")
	tree := vk.GenTree(seed, shape, "plain", cs, maxBytes)
	src := filepath.Join(base, "srcroot")
	_ = tree.Materialize(src)
	out := filepath.Join(base, "out")
	_ = os.MkdirAll(out, 0755)
	return src, out, tree, base
}

func sessionOK(r e2eResult) bool {
	return r.SetupErr == "" && !r.JoinTimedOut && r.JoinExit == 0 && r.HostStatus == "DONE"
}

type e2eCase struct {
	HostEnv  []string `json:"host_env,omitempty"`
	ID       string   `json:"id"`
	Shape    string   `json:"shape"`
	Seed     uint64   `json:"seed"`
	HostArgs []string `json:"host_args"`
	JoinArgs []string `json:"join_args"`
	Addrs    int      `json:"addrs"`
	V6       bool     `json:"v6"`
	CS       int64    `json:"cs"`
	StallS   int      `json:"stall_s,omitempty"`
	TimeoutS int      `json:"timeout_s,omitempty"`
	OneWay   int      `json:"one_way,omitempty"`
	JoinWrap []string `json:"join_wrap,omitempty"`
}

func genE2ECases(e *Env, n int, tag string, multiAddr bool) []e2eCase {
	r := vk.NewRng(vk.Mix(e.Seed ^ vk.HashStr(tag+e.Tier)))
	shapes := []string{"nested", "manysmall", "boundary", "onefile", "zerolen", "fewchunks"}
	var cases []e2eCase
	for i := 0; i < n; i++ {
		c := e2eCase{ID: fmt.Sprintf("%s-%03d", tag, i), Shape: shapes[i%len(shapes)], Seed: r.U64(), Addrs: 1, CS: 65536}
		switch i % 4 {
		case 0: // CLI defaults (8 streams, 4 connections, 4 MiB chunks)
		case 1:
			c.HostArgs = []string{"--total-streams", fmt.Sprint(1 + r.Intn(8)), "--total-connections", fmt.Sprint(1 + r.Intn(4))}
		case 2:
			c.HostArgs = []string{"--chunk-size", "65536", "--total-streams", "4", "--total-connections", "1"}
		case 3:
			c.HostArgs = []string{"--chunk-size", "4096", "--total-connections", fmt.Sprint(1 + r.Intn(4))}
			c.CS = 4096
		}
		if multiAddr {
			c.Addrs = []int{2, 3, 5}[i%3]
			c.V6 = i%2 == 0
		}
		cases = append(cases, c)
	}
	return cases
}

// runE2ECases runs sessions (parallel) and calls judge for each.
func runE2ECases(e *Env, cases []e2eCase, par int, judge func(c e2eCase, r e2eResult, tree vk.Tree, out string)) {
	vk.ParallelDo(len(cases), par, func(i int) {
		c := cases[i]
		src, out, tree, base := e2eTree(e, c.Seed, c.Shape, c.CS, 300<<10)
		defer os.RemoveAll(base)
		to := 45
		if c.TimeoutS > 0 {
			to = c.TimeoutS
		}
		r := runSession(e, e2eSpec{ID: c.ID, Src: src, Out: out, HostArgs: c.HostArgs, JoinArgs: c.JoinArgs, Stdin: "y\n", Addrs: c.Addrs, V6: c.V6, TimeoutS: to, StallS: c.StallS, OneWay: c.OneWay, JoinWrap: c.JoinWrap, HostEnv: c.HostEnv})
		judge(c, r, tree, out)
	})
}

func e2eDetail(r e2eResult) map[string]any {
	return map[string]any{"join_exit": r.JoinExit, "join_timed_out": r.JoinTimedOut, "host_status": r.HostStatus, "setup_err": r.SetupErr,
		"host_tail": r.HostTail, "join_tail": r.JoinTail, "join_goroutines": r.JoinDump, "dur_ms": r.DurMs, "local_addresses": r.Candidates,
		"one_way_rule_ms": r.OneWayRuleMs, "one_way_datagrams_dropped": r.OneWayDropped}
}

// ---- C01: success => identical tree (real binaries) ---------------------------

func runC01E2E(e *Env) {
	e.R.Rule = "real thruserv + `thru host` + `thru join` sessions in a single-address network namespace over generated trees (nested with empty dirs, zero-length files, boundary sizes) with CLI defaults and explicit --total-streams/--total-connections/--chunk-size; when the receiver exits 0 and the host prints status=DONE the output tree digest must equal the source; distinct by (shape, flags)"
	if !haveUnshare() {
		e.R.Inconcl("unshare -n not permitted")
		e.R.Require(false, "no network namespaces")
		return
	}
	cases := genE2ECases(e, e.Pick(4, 40), "C01e2e", false)
	// single slow writes at the receiver: every k-th pwrite64 of `thru join` is
	// delayed by 40 ms (strace injection) while the other data streams go on, so
	// that "counted / acknowledged" and "on disk" of one chunk lie far apart
	if _, err := exec.LookPath("strace"); err == nil {
		for i := 0; i < e.Pick(4, 16); i++ {
			c := e2eCase{ID: fmt.Sprintf("C01e2e-slowwrite-%02d", i), Shape: []string{"boundary", "fewchunks", "nested", "manysmall"}[i%4], Seed: vk.Mix(e.Seed + uint64(i)*104729), Addrs: 1, CS: 4096,
				HostArgs: []string{"--chunk-size", "4096", "--total-streams", "8", "--total-connections", fmt.Sprint(1 + i%2)},
				JoinWrap: []string{"strace", "-f", "-o", "/dev/null", "-e", "trace=pwrite64", "-e", fmt.Sprintf("inject=pwrite64:delay_enter=40000:when=%d+%d", 1+i%3, 2+i%3)}}
			cases = append(cases, c)
		}
	}
	runE2ECases(e, cases, 8, func(c e2eCase, r e2eResult, tree vk.Tree, out string) {
		e.R.Eval()
		if r.SetupErr != "" {
			e.R.Inconcl(c.ID + ": " + r.SetupErr)
			return
		}
		if !sessionOK(r) {
			e.R.NoVerd()
			e.R.Count("session_not_successful")
			return
		}
		e.R.Count("double_success")
		if len(c.JoinWrap) > 0 {
			e.R.Count("double_success_with_single_slow_writes")
		}
		e.R.Distinct(fmt.Sprintf("%s/%s/slowwrite=%v", c.Shape, strings.Join(c.HostArgs, " "), len(c.JoinWrap) > 0))
		got, err := vk.Digest(out)
		if err != nil {
			e.R.Inconcl(c.ID + ": digest: " + err.Error())
			return
		}
		if d := vk.DiffDigest(vk.ExpectedDigest(tree, "srcroot/"), got); len(d) > 0 {
			key := "digest-mismatch:binaries:" + c.Shape
			if len(c.JoinWrap) > 0 {
				key = "digest-mismatch:binaries:single-slow-writes"
			}
			e.R.Violate(key, fmt.Sprintf("`thru join` exited 0 and the host reported DONE but the output tree differs: %v", d), c, e2eDetail(r))
		}
		e.R.Sample(map[string]any{"case": c, "result": map[string]any{"join_exit": r.JoinExit, "host_status": r.HostStatus, "dur_ms": r.DurMs}, "files": tree.FileCount()})
	})
	e.R.Require(e.R.Counter("double_success") >= e.Pick(3, 30), fmt.Sprintf("only %d sessions succeeded on both sides", e.R.Counter("double_success")))
	if _, err := exec.LookPath("strace"); err == nil {
		e.R.Require(e.R.Counter("double_success_with_single_slow_writes") >= e.Pick(2, 8), "too few sessions with delayed single writes succeeded")
	}
}

// ---- C03: healthy sessions complete (real binaries) ----------------------------

func runC03E2E(e *Env) {
	e.R.Rule = "real-binary sessions between healthy peers in a single-address namespace, CLI defaults and --total-streams 1/4/8 x --total-connections 1/4: the receiver must exit 0, the host must report DONE within the 45 s watchdog and the tree must be identical; distinct by (shape, flags)"
	if !haveUnshare() {
		e.R.Inconcl("unshare -n not permitted")
		e.R.Require(false, "no network namespaces")
		return
	}
	cases := genE2ECases(e, e.Pick(6, 60), "C03e2e", false)
	// trees of thousands of tiny files: the per-file work of the application
	// layer (progress display, acknowledgement bookkeeping) runs thousands of
	// times against its periodic tickers; judged by bounded progress (no change
	// of the output directory for 20 s), not by a deadline
	for i := 0; i < e.Pick(4, 8); i++ {
		c := e2eCase{ID: fmt.Sprintf("C03e2e-tiny-%d", i), Shape: "manytiny", Seed: vk.Mix(e.Seed + uint64(i)*977), Addrs: 1, CS: 65536, StallS: 20, TimeoutS: 400}
		if i%2 == 1 {
			c.HostArgs = []string{"--total-streams", "8", "--total-connections", "2"}
		}
		cases = append(cases, c)
	}
	runE2ECases(e, cases, 8, func(c e2eCase, r e2eResult, tree vk.Tree, out string) {
		e.R.Eval()
		if r.SetupErr != "" {
			e.R.Inconcl(c.ID + ": " + r.SetupErr)
			return
		}
		if r.StillProgressing {
			e.R.Inconcl(c.ID + ": outer cap reached while the output directory was still changing")
			return
		}
		e.R.Distinct(c.Shape + "/" + strings.Join(c.HostArgs, " "))
		if c.Shape == "manytiny" && sessionOK(r) {
			e.R.Count("completed_manytiny")
		}
		if !sessionOK(r) {
			mode := "error"
			if r.JoinTimedOut {
				mode = "hang"
			}
			e.R.Violate(fmt.Sprintf("session-failed:%s:binaries:%s", mode, c.Shape), fmt.Sprintf("a session between healthy peers did not complete: join exit=%d timed_out=%v host=%s", r.JoinExit, r.JoinTimedOut, r.HostStatus), c, e2eDetail(r))
			return
		}
		got, _ := vk.Digest(out)
		if d := vk.DiffDigest(vk.ExpectedDigest(tree, "srcroot/"), got); len(d) > 0 {
			e.R.Violate("session-unfaithful:binaries:"+c.Shape, fmt.Sprintf("session completed but the tree differs: %v", d), c, e2eDetail(r))
			return
		}
		e.R.Count("completed")
		e.R.Sample(map[string]any{"case": c, "dur_ms": r.DurMs})
	})
	e.R.Require(e.R.Counter("completed") >= e.Pick(4, 45), fmt.Sprintf("only %d sessions completed", e.R.Counter("completed")))
	e.R.Require(e.R.Counter("completed_manytiny")+len(e.R.Violations) >= 1, "no session over thousands of tiny files reached a verdict")
}

// ---- C09(b): accepting side under several local addresses ----------------------

func runC09E2E(e *Env) {
	e.R.Rule = "real-binary sessions in namespaces with 2, 3 and 5 local addresses (with and without ::1), so that several parallel handshakes complete on both sides; the session must start the transfer and complete (no `transport auth failed`, `race_lost` or auth timeout); distinct by (addresses, v6, flags)"
	if !haveUnshare() {
		e.R.Inconcl("unshare -n not permitted")
		e.R.Require(false, "no network namespaces")
		return
	}
	cases := genE2ECases(e, e.Pick(9, 60), "C09e2e", true)
	for i := range cases {
		cases[i].Shape = []string{"onefile", "nested", "manysmall"}[i%3]
		// every second session: the sender's first completing dial attempts are
		// held for a moment at the ice.dial.succeeded hook, so that the receiver
		// has accepted several connections before the sender has chosen its
		// winner (the winner is then not the first one the receiver accepted)
		if i%2 == 1 {
			k := 2 + i%3
			spec := ""
			for j := 1; j <= k; j++ {
				spec += fmt.Sprintf("ice.dial.succeeded=sleep(%d)@%d;", 300+100*(i%4), j)
			}
			cases[i].HostEnv = []string{"VERIFHOOK=" + spec}
			if cases[i].Addrs < 3 {
				cases[i].Addrs = 5
			}
		}
	}
	// candidates that work in one direction only: two of the three local
	// addresses carry the sender's datagrams to the receiver but drop the
	// receiver's answers (a mapped address without hairpinning, an asymmetric
	// filter), so the sender's attempts there never complete and are abandoned
	// silently; the receiver must not commit to one of them
	for i := 0; i < e.Pick(6, 24); i++ {
		c := e2eCase{ID: fmt.Sprintf("C09e2e-oneway-%02d", i), Shape: []string{"onefile", "nested", "manysmall"}[i%3], Seed: vk.Mix(e.Seed + uint64(i)*7919), Addrs: 3, OneWay: 2, CS: 65536}
		if i%2 == 1 {
			c.HostArgs = []string{"--total-connections", "1"}
		}
		cases = append(cases, c)
	}
	// late hand-over: the sender's race is decided, but the winner reaches the
	// application only seconds later (the caller of ProbeAndDial is held at
	// ice.probe.beforeSelect); the receiver has accepted that connection - and
	// the losers - long before and must still be on the winner when the
	// sender authenticates (half the receiver's 10 s authentication period at most)
	for i := 0; i < e.Pick(2, 8); i++ {
		c := e2eCase{ID: fmt.Sprintf("C09e2e-late-%02d", i), Shape: []string{"onefile", "nested"}[i%2], Seed: vk.Mix(e.Seed + uint64(i)*104729), Addrs: 3 + 2*(i%2), CS: 65536}
		c.HostEnv = []string{fmt.Sprintf("VERIFHOOK=ice.probe.beforeSelect=sleep(%d)", []int{4000, 5000}[i%2])}
		if i%4 >= 2 {
			c.HostArgs = []string{"--total-connections", "1"}
		}
		cases = append(cases, c)
	}
	runE2ECases(e, cases, 8, func(c e2eCase, r e2eResult, tree vk.Tree, out string) {
		e.R.Eval()
		if r.SetupErr != "" {
			e.R.Inconcl(c.ID + ": " + r.SetupErr)
			return
		}
		late := strings.HasPrefix(c.ID, "C09e2e-late-")
		e.R.Distinct(fmt.Sprintf("addrs%d/v6%v/oneway%d/%s/steered=%v/late-hand-over=%v", c.Addrs, c.V6, c.OneWay, strings.Join(c.HostArgs, " "), len(c.HostEnv) > 0, late))
		if c.OneWay > 0 {
			if r.OneWayDropped == 0 {
				// the rules came too late or the addresses were not used: an ordinary session
				e.R.Count("one_way_sessions_without_dropped_datagrams")
			} else {
				e.R.Count("one_way_sessions_with_dropped_datagrams")
			}
		}
		if late {
			e.R.Count("sessions_with_late_hand_over")
		} else if len(c.HostEnv) > 0 {
			e.R.Count("sessions_with_held_dial_completions")
		}
		if sessionOK(r) {
			e.R.Count("completed")
			if r.DurMs > 0 {
				e.R.Sample(map[string]any{"case": c, "dur_ms": r.DurMs})
			}
			return
		}
		// the key is built from the structured outcome (exit status, host status,
		// watchdog), not from log text
		key := fmt.Sprintf("accept:session-failed:join-exit%d:host-%s", r.JoinExit, r.HostStatus)
		if c.OneWay > 0 {
			key = fmt.Sprintf("accept:one-way-candidate:session-failed:join-exit%d:host-%s", r.JoinExit, r.HostStatus)
		}
		switch {
		case c.OneWay > 0:
		case late:
			key = fmt.Sprintf("accept:late-hand-over:session-failed:join-exit%d:host-%s", r.JoinExit, r.HostStatus)
		case r.JoinTimedOut && r.HostStatus == "FAILED":
			key = "accept:receiver-waits-forever-after-sender-gave-up"
		case !r.JoinTimedOut && r.JoinExit == 1 && r.HostStatus == "FAILED":
			key = "accept:commits-to-abandoned-conn"
		}
		e.R.Violate(key, fmt.Sprintf("session under %d local addresses did not complete: join exit=%d timed_out=%v host=%s", r.Candidates, r.JoinExit, r.JoinTimedOut, r.HostStatus), c, e2eDetail(r))
	})
	e.R.Require(e.R.Counter("completed")+len(e.R.Violations) >= e.Pick(6, 40), "too few sessions ran to a verdict")
	e.R.Require(e.R.Counter("one_way_sessions_with_dropped_datagrams") >= e.Pick(3, 12), fmt.Sprintf("only %d sessions really had a one-way candidate (datagrams dropped by the filter)", e.R.Counter("one_way_sessions_with_dropped_datagrams")))
}

// ---- C04: kill the real `thru join`, then resume --------------------------------

func runC04E2E(e *Env) {
	e.R.Rule = "the real `thru join` process is SIGKILLed by the verifhook env action at the K-th chunk (exit by signal), then `thru join` is run again into the same directory answering the resume prompt; the resumed session must exit 0 / DONE with an identical tree; distinct by (site, K)"
	if !haveUnshare() {
		e.R.Inconcl("unshare -n not permitted")
		e.R.Require(false, "no network namespaces")
		return
	}
	r := vk.NewRng(vk.Mix(e.Seed ^ vk.HashStr("c04e2e"+e.Tier)))
	n := e.Pick(3, 20)
	type kc struct {
		Site string `json:"site"`
		K    int    `json:"k"`
		Seed uint64 `json:"seed"`
	}
	var cases []kc
	for i := 0; i < n; i++ {
		cases = append(cases, kc{Site: []string{"recv.chunk.afterWrite", "recv.chunk.afterMark", "sidecar.flush.beforeRename"}[i%3], K: 2 + r.Intn(20), Seed: r.U64()})
	}
	vk.ParallelDo(len(cases), 6, func(i int) {
		c := cases[i]
		src, out, tree, base := e2eTree(e, c.Seed, "boundary", 4096, 64<<10)
		defer os.RemoveAll(base)
		hostArgs := []string{"--chunk-size", "4096", "--total-streams", "2", "--total-connections", "1"}
		spec1 := e2eSpec{ID: fmt.Sprintf("C04e2e-%d-kill", i), Src: src, Out: out, HostArgs: hostArgs, Stdin: "y\n", Addrs: 1, TimeoutS: 30,
			JoinEnv: []string{fmt.Sprintf("VERIFHOOK=recv.chunk.afterMark=sleep(20);%s=kill@%d", c.Site, c.K)}}
		r1 := runSession(e, spec1)
		e.R.Eval()
		if r1.SetupErr != "" {
			e.R.Inconcl(spec1.ID + ": " + r1.SetupErr)
			return
		}
		if !r1.JoinSignaled {
			e.R.NoVerd()
			e.R.Count("kill_site_not_reached")
			return
		}
		e.R.Count("killed")
		// resumed run: answer "y" to accept and "y" (resume) to the resume prompt
		spec2 := e2eSpec{ID: fmt.Sprintf("C04e2e-%d-resume", i), Src: src, Out: out, HostArgs: hostArgs, Stdin: "y\ny\ny\n", Addrs: 1, TimeoutS: 45}
		r2 := runSession(e, spec2)
		if r2.SetupErr != "" {
			e.R.Inconcl(spec2.ID + ": " + r2.SetupErr)
			return
		}
		e.R.Distinct(fmt.Sprintf("%s@%d", c.Site, c.K))
		if !sessionOK(r2) {
			e.R.Violate("resume-fails:binaries:"+c.Site, fmt.Sprintf("after killing `thru join` at %s@%d the resumed session did not succeed: exit=%d host=%s", c.Site, c.K, r2.JoinExit, r2.HostStatus), c, e2eDetail(r2))
			return
		}
		got, _ := vk.Digest(out)
		if d := vk.DiffDigest(vk.ExpectedDigest(tree, "srcroot/"), got); len(d) > 0 {
			e.R.Violate("resume-wrong-tree:binaries:"+c.Site, fmt.Sprintf("resumed session succeeded but the tree differs: %v", d), c, e2eDetail(r2))
			return
		}
		e.R.Count("resumed_ok")
		e.R.Sample(map[string]any{"case": c, "resume_join_tail": r2.JoinTail})
	})
	e.R.Require(e.R.Counter("resumed_ok")+len(e.R.Violations) >= e.Pick(2, 12), fmt.Sprintf("only %d kill+resume sessions judged", e.R.Counter("resumed_ok")))
	_ = bufio.NewReader
}
