//go:build verif

// verifharness is the in-process / child-process driver of the runtime
// monitors in /verif. It is overlaid onto /repo at build time.
package main

import (
	"flag"
	"fmt"
	"os"
	"runtime/debug"
	"sort"

	vk "github.com/sheerbytes/sheerbytes/internal/verifkit"
)

// Env is the invocation context of one sub-command.
type Env struct {
	Prop   string
	Stage  string
	Tier   string
	Seed   uint64
	Out    string
	Work   string // scratch directory (exists)
	BinDir string // where thru / thruserv / verifharness live
	Race   bool
	Args   []string
	R      *vk.Report
}

func (e *Env) Thorough() bool { return e.Tier == "thorough" }

// Pick returns q for quick and t for thorough.
func (e *Env) Pick(q, t int) int {
	if e.Thorough() {
		return t
	}
	return q
}

type cmdFn func(e *Env)

var commands = map[string]cmdFn{}

func register(name string, fn cmdFn) { commands[name] = fn }

func main() {
	if len(os.Args) < 2 {
		usage()
	}
	name := os.Args[1]
	if fn, ok := childCommands[name]; ok {
		os.Exit(fn(os.Args[2:]))
	}
	fn, ok := commands[name]
	if !ok {
		usage()
	}
	fs := flag.NewFlagSet(name, flag.ExitOnError)
	tier := fs.String("tier", "quick", "quick|thorough")
	seed := fs.Uint64("seed", 1, "seed")
	out := fs.String("out", "", "report path")
	work := fs.String("work", "", "scratch dir")
	bindir := fs.String("bindir", "", "directory with built binaries")
	stage := fs.String("stage", "main", "stage name")
	race := fs.Bool("race", false, "binary was built with -race")
	_ = fs.Parse(os.Args[2:])
	if *out == "" || *work == "" {
		fmt.Fprintln(os.Stderr, "need -out and -work")
		os.Exit(3)
	}
	_ = os.MkdirAll(*work, 0755)
	e := &Env{Prop: name, Stage: *stage, Tier: *tier, Seed: *seed, Out: *out, Work: *work, BinDir: *bindir, Race: *race, Args: fs.Args()}
	e.R = vk.NewReport(name, *stage, *tier, *seed)
	e.R.SetExtra("race_build", *race)
	debug.SetTraceback("all")
	fn(e)
	if err := e.R.Write(*out); err != nil {
		fmt.Fprintln(os.Stderr, "write report:", err)
		os.Exit(3)
	}
}

// childCommands are helper roles run as separate processes (no report).
var childCommands = map[string]func(args []string) int{}

func usage() {
	var names []string
	for k := range commands {
		names = append(names, k)
	}
	for k := range childCommands {
		names = append(names, k)
	}
	sort.Strings(names)
	fmt.Fprintln(os.Stderr, "usage: verifharness <cmd> -tier T -seed N -out F -work D; commands:", names)
	os.Exit(3)
}
