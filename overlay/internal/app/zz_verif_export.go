//go:build verif

package app

import "io"

// Export shims for the verification harness (overlaid at build time).

func VerifBuildPathResolver(paths []string) (func(string) string, error) {
	return buildPathResolver(paths)
}

func VerifClearResumeData(outDir, root string) error { return clearResumeData(outDir, root) }
func VerifHasResumeData(outDir, root string) bool   { return hasResumeData(outDir, root) }

func VerifRecvDumbDiscardReader(r io.Reader) (string, error) {
	return recvDumbDiscardReader(r, nil)
}
