//go:build verif

package app

// Export shims for the verification harness (overlaid at build time).

func VerifBuildPathResolver(paths []string) (func(string) string, error) {
	return buildPathResolver(paths)
}

func VerifClearResumeData(outDir, root string) error { return clearResumeData(outDir, root) }
func VerifHasResumeData(outDir, root string) bool   { return hasResumeData(outDir, root) }
