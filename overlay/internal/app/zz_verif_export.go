//go:build verif

package app

// Export shims for the verification harness (overlaid at build time).

func VerifBuildPathResolver(paths []string) (func(string) string, error) {
	return buildPathResolver(paths)
}
