//go:build verif

package app

import (
	"context"
	"crypto/tls"
	"io"
	"log/slog"
	"net"

	"github.com/quic-go/quic-go"
	"github.com/sheerbytes/sheerbytes/internal/transfer"
	"github.com/sheerbytes/sheerbytes/internal/transferquic"
)

const (
	VerifAuthRoleSender  = authRoleSender
	VerifAuthRoleReceive = authRoleReceive
	VerifAuthMsgSize     = authMsgSize
)

var verifQuiet = slog.New(slog.NewTextHandler(io.Discard, nil))

// VerifAuthenticateTransport calls the real authenticateTransport.
func VerifAuthenticateTransport(ctx context.Context, conn transfer.Conn, joinCode string, role byte) error {
	return authenticateTransport(ctx, conn, joinCode, role)
}

// VerifAcceptExtraConns runs the receiver's real acceptExtraConns.
func VerifAcceptExtraConns(ctx context.Context, tr *transferquic.QUICTransport, joinCode string, extra int) ([]transfer.Conn, error) {
	r := &snapshotReceiver{logger: verifQuiet, joinCode: joinCode}
	return r.acceptExtraConns(ctx, tr, extra)
}

// VerifDialExtraConns runs the sender's real dialExtraConns; returns the
// number of accepted extra connections and closes them.
func VerifDialExtraConns(ctx context.Context, remote *net.UDPAddr, joinCode string, tlsConf *tls.Config, quicCfg *quic.Config, extra int) (int, error) {
	s := &SnapshotSender{logger: verifQuiet, joinCode: joinCode}
	conns, err := s.dialExtraConns(ctx, "peer", remote, tlsConf, quicCfg, extra)
	for _, c := range conns {
		c.close()
	}
	return len(conns), err
}
