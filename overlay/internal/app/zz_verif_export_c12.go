//go:build verif

package app

// Export shims for the C12 check (admission control of the host). Overlaid at
// build time; references only fields that snapshot_sender_test.go's
// newTestSender and RunSnapshotSender set themselves.

import (
	"context"
	"log/slog"
	"sort"
	"time"

	"github.com/sheerbytes/sheerbytes/internal/transfer"
	"github.com/sheerbytes/sheerbytes/internal/wsclient"
	"github.com/sheerbytes/sheerbytes/pkg/protocol"
)

// VerifSenderOpts configures a SnapshotSender built for the harness.
type VerifSenderOpts struct {
	Logger       *slog.Logger
	Now          func() time.Time
	MaxReceivers int
	ReceiverTTL  time.Duration
	TransferFn   func(context.Context, string) error
	Conn         *wsclient.Conn // real client connection; may be nil (then nothing is sent)
	PeerID       string
	SessionID    string
	ManifestID   string
	// Benchmark is what `thru host --benchmark` sets (SnapshotSenderConfig.Benchmark): progress
	// rows carry a bench.Bench, runTransfer freezes them, and the application runs
	// startBenchmarkLoop (whose tick the harness drives through TickBenchmarks).
	Benchmark bool
}

// VerifSender wraps a real SnapshotSender.
type VerifSender struct{ s *SnapshotSender }

// VerifNewSnapshotSender builds a SnapshotSender the way newTestSender in
// snapshot_sender_test.go does (maxRecv, receiverTTL, the three maps, now,
// exitFn, closeConn) plus what RunSnapshotSender adds and the scheduler
// touches: logger, conn, ids, the progress map and the transferFn seam.
func VerifNewSnapshotSender(o VerifSenderOpts) *VerifSender {
	s := &SnapshotSender{
		logger:      o.Logger,
		maxRecv:     o.MaxReceivers,
		receiverTTL: o.ReceiverTTL,
		receivers:   make(map[string]*ReceiverState),
		active:      make(map[string]*transferSlot),
		signalCh:    make(map[string]chan protocol.Envelope),
		progress:    make(map[string]*senderProgress),
		now:         o.Now,
		exitFn:      func(int) {},
		closeConn:   func() {},
		conn:        o.Conn,
		peerID:      o.PeerID,
		sessionID:   o.SessionID,
		manifestID:  o.ManifestID,
		transferFn:  o.TransferFn,
		benchmark:   o.Benchmark,
	}
	s.summary = protocol.ManifestSummary{ManifestID: o.ManifestID}
	return &VerifSender{s: s}
}

// HandleEnvelope is the entry point the application's ReadLoop callback uses.
func (v *VerifSender) HandleEnvelope(ctx context.Context, env protocol.Envelope) {
	v.s.handleEnvelope(ctx, env)
}

// Cleanup is one tick of cleanupLoop.
func (v *VerifSender) Cleanup() { v.s.cleanup() }

// VerifSenderSnapshot is a copy of the admission state taken under the sender's mutex.
type VerifSenderSnapshot struct {
	Queue   []string          `json:"queue"`
	Active  []string          `json:"active"`
	Status  map[string]string `json:"status"`
	SigChan []string          `json:"signal_channels"`
}

// Snapshot copies queue, active-slot keys and receiver statuses.
func (v *VerifSender) Snapshot() VerifSenderSnapshot {
	s := v.s
	s.mu.Lock()
	defer s.mu.Unlock()
	out := VerifSenderSnapshot{Queue: append([]string{}, s.queue...), Status: map[string]string{}}
	for k, slot := range s.active {
		if slot != nil {
			out.Active = append(out.Active, k)
		}
	}
	sort.Strings(out.Active)
	for k, st := range s.receivers {
		out.Status[k] = st.Status
	}
	for k := range s.signalCh {
		out.SigChan = append(out.SigChan, k)
	}
	sort.Strings(out.SigChan)
	return out
}

// HoldProgress takes the sender's progress mutex, which runTransfer's failure
// path acquires (setSenderStage) between its two critical sections on the
// admission state; while it is held a failing transfer's bookkeeping is parked
// exactly in that window. The returned function releases it.
func (v *VerifSender) HoldProgress() (release func()) {
	v.s.progressMu.Lock()
	return v.s.progressMu.Unlock
}

// SetTransferCloser is what runICEQUICTransfer does once its primary QUIC
// connection is up (after connect_ok): it registers the function that closes
// that connection on the slot the peer id currently holds.
func (v *VerifSender) SetTransferCloser(peerID string, fn func()) {
	v.s.setTransferCloser(peerID, fn)
}

// InitProgress is the first thing runICEQUICTransfer does for its receiver: it creates (or
// resets) the receiver's row of the progress table.
func (v *VerifSender) InitProgress(peerID string, totalBytes int64) {
	v.s.initSenderProgress(peerID, totalBytes)
}

// TickBenchmarks is one tick of startBenchmarkLoop (1 Hz in the application, host started with --benchmark).
func (v *VerifSender) TickBenchmarks(now time.Time) { v.s.tickBenchmarks(now) }

// RenderView is what the progress renderer (progress.RenderSender) calls for every frame.
func (v *VerifSender) RenderView() int { return len(v.s.senderView().Rows) }

// ProgressHeld reports whether somebody holds the progress-table mutex right now.
func (v *VerifSender) ProgressHeld() bool {
	if v.s.progressMu.TryLock() {
		v.s.progressMu.Unlock()
		return false
	}
	return true
}

// AdmissionHeld reports whether somebody holds the admission-state mutex (s.mu) right now.
func (v *VerifSender) AdmissionHeld() bool {
	if v.s.mu.TryLock() {
		v.s.mu.Unlock()
		return false
	}
	return true
}

// VerifSendDumbDataMulti is the data phase of runICEQUICTransfer in raw mode
// (`thru host --dumb --dumb-connections N`): the real sendDumbDataMulti over the
// connections the caller hands in (primary connection first).
func (v *VerifSender) VerifSendDumbDataMulti(ctx context.Context, peerID string, conns []transfer.Conn, name string, size int64) error {
	v.s.setSenderConnCount(peerID, len(conns))
	return sendDumbDataMulti(ctx, conns, name, size)
}
