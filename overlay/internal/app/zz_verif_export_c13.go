//go:build verif

package app

import "github.com/sheerbytes/sheerbytes/pkg/manifest"

// VerifHashManifestJSON is the identifier the host computes once after the
// scan and announces to every receiver (ManifestSummary.ManifestID,
// TransferStart.ManifestID).
func VerifHashManifestJSON(m manifest.Manifest) (string, error) { return hashManifestJSON(m) }
