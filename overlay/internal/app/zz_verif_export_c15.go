//go:build verif

package app

// Export shims for the C15 check (malformed protocol input): the option sets
// the application hands to the transfer endpoints. The closures below are the
// ones of snapshotReceiver.runTransfer (snapshot_receiver.go) and of
// SnapshotSender.runTransfer (snapshot_sender.go) and call the real progress
// objects (progressCollector, receiverProgress, senderProgress, the progress
// ticker), so that values chosen by a hostile peer flow through the same
// callbacks as in the real CLI.

import (
	"context"

	"github.com/sheerbytes/sheerbytes/internal/transfer"
	"github.com/sheerbytes/sheerbytes/pkg/manifest"
)

// VerifC15ReceiverOptions returns the transfer.Options of the receiving CLI
// (Resume as given, NoRootDir, crc32c, ParallelFiles, ProgressFn,
// ProgressDeltaFn, TransferStatsFn, ResumeStatsFn, FileDoneFn) and a stop
// function for the progress ticker.
func VerifC15ReceiverOptions(ctx context.Context, totalBytes int64, fileTotal int, outDir string, resume bool, totalStreams int) (transfer.Options, func()) {
	progressState := newReceiverProgress(totalBytes, fileTotal, "verif-c15", outDir, false, "")
	var lastStats int64
	progressCollector := newProgressCollector()
	progressStop := startProgressTicker(ctx, progressCollector, func(relpath string, bytesReceived int64, total int64) {
		progressState.Update(relpath, bytesReceived, total)
	})
	opts := transfer.Options{
		Resume:        resume,
		NoRootDir:     true,
		HashAlg:       "crc32c",
		ParallelFiles: totalStreams,
		ProgressFn: func(relpath string, bytesReceived int64, total int64) {
			progressCollector.Update(relpath, bytesReceived, total)
		},
		ProgressDeltaFn: func(relpath string, delta int64) {
			progressCollector.Add(relpath, delta)
		},
		TransferStatsFn: func(activeFiles, completedFiles int, remainingBytes int64) {
			if !shouldUpdateProgress(&lastStats) {
				return
			}
			progressState.UpdateStats(activeFiles, completedFiles)
		},
		ResumeStatsFn: func(relpath string, skippedChunks, totalChunks uint32, verifiedChunk uint32, totalBytes int64, chunkSize uint32) {
			progressState.RecordResume(relpath, skippedChunks, totalChunks, verifiedChunk, totalBytes, chunkSize)
		},
		FileDoneFn: func(relpath string, ok bool) {
			progressState.MarkVerified(relpath, ok)
			if total := progressCollector.Total(relpath); total > 0 {
				progressState.mu.Lock()
				offset := progressState.skipOffset[relpath]
				progressState.mu.Unlock()
				bytes := total - offset
				if bytes < 0 {
					bytes = 0
				}
				progressCollector.Update(relpath, bytes, total)
				progressState.Update(relpath, bytes, total)
			}
		},
	}
	return opts, func() {
		progressStop()
		_ = progressState.View()
	}
}

// VerifC15SenderOptions returns the transfer.Options of the hosting CLI for one
// receiver: SnapshotSender.transferOptions() (Resume, ParamSource) plus what
// runTransfer adds (ParallelFiles, StripeMax, ParamSource, ResumeStatsFn,
// ProgressFn, ProgressDeltaFn, TransferStatsFn, FileDoneFn) for a transfer
// over conns connections, and a stop function for the progress ticker.
func VerifC15SenderOptions(ctx context.Context, m manifest.Manifest, chunkSize uint32, parallelFiles int, conns int, resolver func(string) string) (transfer.Options, func()) {
	s := &SnapshotSender{
		manifest: m,
		progress: make(map[string]*senderProgress),
		transferOpts: transfer.Options{
			ChunkSize:     chunkSize,
			ParallelFiles: parallelFiles,
		},
	}
	s.transferOpts.ResolveFilePath = resolver
	const peerID = "verif-c15-peer"
	progressState := s.initSenderProgress(peerID, m.TotalBytes)
	if conns < 1 {
		conns = 1
	}
	totalStreams, _ := computeParallelBudget(s.manifest.FileCount, s.transferOpts.ParallelFiles, conns, conns > 1)
	s.setParams(perfParams{
		ChunkSize:           int(s.transferOpts.ChunkSize),
		ParallelStreams:     totalStreams,
		ParallelConnections: conns,
	})

	var lastStats int64
	progressCollector := newProgressCollector()
	progressStop := startProgressTicker(ctx, progressCollector, func(relpath string, bytesSent int64, total int64) {
		s.updateSenderProgress(progressState, relpath, bytesSent, total)
	})

	opts := s.transferOptions()
	opts.ParallelFiles = totalStreams
	opts.StripeMax = conns
	opts.ParamSource = func() transfer.RuntimeParams {
		return transfer.RuntimeParams{
			ChunkSize:     s.transferOpts.ChunkSize,
			ParallelFiles: totalStreams,
		}
	}
	opts.ResumeStatsFn = func(relpath string, skippedChunks, totalChunks uint32, verifiedChunk uint32, totalBytes int64, chunkSize uint32) {
		if skippedChunks == 0 || totalChunks == 0 {
			return
		}
		skippedBytes := int64(skippedChunks) * int64(chunkSize)
		if totalBytes > 0 && skippedBytes > totalBytes {
			skippedBytes = totalBytes
		}
		verifyBytes := computeVerifyBytes(totalBytes, totalChunks, chunkSize)
		s.addSenderSkipped(progressState, relpath, skippedBytes, verifyBytes)
	}
	opts.ProgressFn = func(relpath string, bytesSent int64, total int64) {
		progressCollector.Update(relpath, bytesSent, total)
	}
	opts.ProgressDeltaFn = func(relpath string, delta int64) {
		progressCollector.Add(relpath, delta)
	}
	opts.TransferStatsFn = func(activeFiles, completedFiles int, remainingBytes int64) {
		if !shouldUpdateProgress(&lastStats) {
			return
		}
		s.updateSenderStats(progressState, completedFiles)
	}
	opts.FileDoneFn = func(relpath string, ok bool) {
		s.markSenderVerified(progressState, relpath, ok)
		if total := progressCollector.Total(relpath); total > 0 {
			progressState.mu.Lock()
			offset := progressState.skipOffset[relpath]
			progressState.mu.Unlock()
			bytes := total - offset
			if bytes < 0 {
				bytes = 0
			}
			progressCollector.Update(relpath, bytes, total)
			s.updateSenderProgress(progressState, relpath, bytes, total)
		}
	}
	return opts, progressStop
}
