//go:build verif

package app

// Export shim for C16 (overlaid at build time).

// VerifBuildWebSocketURL calls the real buildWebSocketURL.
func VerifBuildWebSocketURL(serverURL, joinCode, peerID, role string, maxReceivers int) (string, error) {
	return buildWebSocketURL(serverURL, joinCode, peerID, role, maxReceivers)
}
