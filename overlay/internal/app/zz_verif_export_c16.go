//go:build verif

package app

// Export shim for C16 (overlaid at build time).

import (
	"context"
	"log/slog"

	"github.com/sheerbytes/sheerbytes/pkg/protocol"
)

// VerifBuildWebSocketURL calls the real buildWebSocketURL.
func VerifBuildWebSocketURL(serverURL, joinCode, peerID, role string, maxReceivers int) (string, error) {
	return buildWebSocketURL(serverURL, joinCode, peerID, role, maxReceivers)
}

// VerifC16RelaysReachingProber hands one envelope received from the signaling
// server to the real handleEnvelope of a fresh client object of the given role
// ("sender" = *SnapshotSender, "receiver" = *snapshotReceiver; no --turn-server
// given on the client's own command line, the default of thru) and returns what
// the role then puts into ice.ProberConfig.TurnServers (currentTurnServers, the
// expression both runICEQUICTransfer and the receiver's transfer goroutine use).
// Only the fields the turn_credentials branch touches are set.
func VerifC16RelaysReachingProber(role string, env protocol.Envelope, logger *slog.Logger) []string {
	if role == "sender" {
		s := &SnapshotSender{logger: logger, peerID: env.To}
		s.handleEnvelope(context.Background(), env)
		return s.currentTurnServers()
	}
	r := &snapshotReceiver{logger: logger, peerID: env.To}
	r.handleEnvelope(env)
	return r.currentTurnServers()
}
