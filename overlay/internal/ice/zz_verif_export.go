//go:build verif

package ice

// Export shims for the verification harness (overlaid at build time).

// VerifTurnServer mirrors the unexported turnServerConfig.
type VerifTurnServer struct {
	Addr        string
	Username    string
	Password    string
	Realm       string
	UseTCP      bool
	UseTLS      bool
	ServerName  string
	InsecureTLS bool
}

// VerifParseTurnServer calls the real parseTurnServer.
func VerifParseTurnServer(raw string) (VerifTurnServer, error) {
	c, err := parseTurnServer(raw)
	if err != nil {
		return VerifTurnServer{}, err
	}
	return VerifTurnServer{Addr: c.addr, Username: c.username, Password: c.password, Realm: c.realm,
		UseTCP: c.useTCP, UseTLS: c.useTLS, ServerName: c.serverName, InsecureTLS: c.insecureTLS}, nil
}
