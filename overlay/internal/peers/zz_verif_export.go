//go:build verif

package peers

// Export shims for the verification harness (overlaid at build time, never
// committed to /repo).

// VerifConn is one entry of Hub.sessions[session].
type VerifConn struct {
	ConnID string `json:"conn_id"`
	PeerID string `json:"peer_id"`
	Role   string `json:"role"`
}

// VerifHubSnapshot is a copy of the hub's two routing maps taken under the
// hub's lock (C11: leak / consistency checks at quiescence).
type VerifHubSnapshot struct {
	// Sessions: sessionID -> connections (a present key with an empty slice is
	// an entry for an empty session).
	Sessions map[string][]VerifConn `json:"sessions"`
	// ByPeerID: sessionID -> peerID -> connID.
	ByPeerID map[string]map[string]string `json:"by_peer_id"`
}

// VerifSnapshot copies sessions and byPeerID under the read lock.
func (h *Hub) VerifSnapshot() VerifHubSnapshot {
	h.mu.RLock()
	defer h.mu.RUnlock()
	s := VerifHubSnapshot{
		Sessions: make(map[string][]VerifConn, len(h.sessions)),
		ByPeerID: make(map[string]map[string]string, len(h.byPeerID)),
	}
	for sid, m := range h.sessions {
		l := make([]VerifConn, 0, len(m))
		for cid, pc := range m {
			l = append(l, VerifConn{ConnID: cid, PeerID: pc.peer.PeerID, Role: pc.peer.Role})
		}
		s.Sessions[sid] = l
	}
	for sid, m := range h.byPeerID {
		c := make(map[string]string, len(m))
		for p, cid := range m {
			c[p] = cid
		}
		s.ByPeerID[sid] = c
	}
	return s
}
