//go:build verif

package session

// C14 (server rounds with join-code collisions): lets the harness dictate the join-code
// draws of a real thruserv process through the existing override point
// verifhook.Override("session.joincode"). Inert unless VERIF_JOINCODE_PLAN names a file.
//
// File content: "<generation> <code> <code> ...". Every draw re-reads the file; a new
// generation starts again at the first code; once the codes of the current generation are
// used up the normal generator runs. The harness rewrites the file (rename) before the
// POST /session whose draws it wants to dictate.

import (
	"os"
	"strings"
	"sync"

	"github.com/sheerbytes/sheerbytes/internal/verifhook"
)

func init() {
	path := os.Getenv("VERIF_JOINCODE_PLAN")
	if path == "" {
		return
	}
	var mu sync.Mutex
	gen, idx := "", 0
	verifhook.SetOverride("session.joincode", func() (string, bool) {
		mu.Lock()
		defer mu.Unlock()
		data, err := os.ReadFile(path)
		if err != nil {
			return "", false
		}
		f := strings.Fields(string(data))
		if len(f) == 0 {
			return "", false
		}
		if f[0] != gen {
			gen, idx = f[0], 0
		}
		if idx+1 >= len(f) {
			return "", false
		}
		idx++
		return f[idx], true
	})
}
