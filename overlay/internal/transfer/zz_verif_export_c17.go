//go:build verif

package transfer

import (
	"fmt"
	"reflect"
	"sort"
	"strings"
	"time"

	"github.com/sheerbytes/sheerbytes/pkg/manifest"
)

// Export shims used by the C17 check (exactly-once dispatch). Overlaid at
// build time, never committed to /repo. Everything here only *calls* or
// *stores into* the real unexported identifiers; no dispatch logic is copied
// except VerifC17ForceSendFrom, which restates the production (tail 0, hash
// known) force-send computation of applyResumeInfo and is cross-checked by the
// trace monitor that runs the real applyResumeInfo over the wire.

const (
	VerifC17TypeFileBegin      = controlTypeFileBegin
	VerifC17TypeFileEnd        = controlTypeFileEnd
	VerifC17TypeFileDone       = controlTypeFileDone
	VerifC17TypeFileResumeInfo = controlTypeFileResumeInfo
	VerifC17TypeResumeRequest  = controlTypeResumeRequest
	VerifC17TypeDataStreams    = controlTypeDataStreams
	VerifC17TypeEnd            = controlTypeEnd
	VerifC17DataChunkHeaderLen = dataChunkHeaderLen
	VerifC17ResumeHashUnknown  = resumeHashUnknown
)

// VerifC17ResumeGrace is the sender's grace period before a file is started
// without a resume report.
func VerifC17ResumeGrace() time.Duration { return resumeGracePeriod }

func VerifC17ReadControlHeader(s Stream) (manifest.Manifest, error) { return readControlHeader(s) }
func VerifC17ReadControlMessage(s Stream) (byte, any, error)        { return readControlMessage(s) }
func VerifC17WriteFileResumeInfo(s Stream, m FileResumeInfo) error  { return writeFileResumeInfo(s, m) }
func VerifC17WriteFileDone(s Stream, m FileDone) error              { return writeFileDone(s, m) }
func VerifC17FileKey(item manifest.FileItem) uint64                 { return fileKeyForItem(item) }
func VerifC17ChunkTotal(size int64, cs uint32) uint32               { return chunkTotal(size, cs) }
func VerifC17ParseHashAlg(name string) (byte, error)                { return parseHashAlg(name) }

// VerifC17HashFileChunk is the repository's own chunk hash (the one the
// sender's verification goroutine uses).
func VerifC17HashFileChunk(path string, idx uint32, cs uint32, size int64, alg byte) (uint64, error) {
	return hashFileChunk(path, idx, cs, size, alg)
}

// VerifC17ForceSendFrom restates how applyResumeInfo derives the force-send
// index from the verification chunk with ResumeVerifyTail 0 and a known hash.
func VerifC17ForceSendFrom(verified, total uint32) uint32 {
	if verified < total {
		return verified + 1
	}
	return total
}

// VerifC17State wraps one real sendFileState.
type VerifC17State struct{ s *sendFileState }

// VerifC17NewState builds a sendFileState the way SendManifestMultiStream and
// activateNext do (key, item, chunk size, total chunks; no file is opened).
func VerifC17NewState(key uint64, size int64, chunkSize uint32) *VerifC17State {
	item := manifest.FileItem{RelPath: fmt.Sprintf("c17/%d", key), Size: size, ID: fmt.Sprintf("c17-%d", key)}
	st := &sendFileState{key: key, item: item, filePath: "", readyCh: make(chan struct{})}
	st.mu.Lock()
	st.chunkSize = chunkSize
	st.totalChunks = chunkTotal(size, chunkSize)
	st.mu.Unlock()
	return &VerifC17State{s: st}
}

func (v *VerifC17State) TotalChunks() uint32 { return v.s.totalChunks }

// Next is nextChunkToSend.
func (v *VerifC17State) Next() (uint32, uint32, bool) { return v.s.nextChunkToSend() }

// Done is markChunkDone.
func (v *VerifC17State) Done() bool { return v.s.markChunkDone() }

// TryEnd is trySendEnd.
func (v *VerifC17State) TryEnd() bool { return v.s.trySendEnd() }

// SetVerifyPending is the first step of applyResumeInfo when verification is
// needed: verifyPending is stored under the mutex *before* the plan.
func (v *VerifC17State) SetVerifyPending() {
	v.s.mu.Lock()
	v.s.verifyPending = true
	v.s.mu.Unlock()
}

// StoreVerdict is the critical section at the end of the verification
// goroutine: on mismatch resendChunk/resendPending are stored, then
// verifyPending is cleared, all under one hold of the mutex.
func (v *VerifC17State) StoreVerdict(chunk uint32, mismatch bool) {
	v.s.mu.Lock()
	if mismatch {
		v.s.resendChunk = chunk
		v.s.resendPending = true
	}
	v.s.verifyPending = false
	v.s.mu.Unlock()
}

// StorePlan is the last step of applyResumeInfo: state.plan = plan under the
// mutex. A nil bitmap stores a nil plan (report without bitmap).
func (v *VerifC17State) StorePlan(bitmap []byte, total, forceSendFrom, verified uint32) error {
	var plan *resumePlan
	if bitmap != nil {
		bm, err := BitmapFromBytes(bitmap, int(total))
		if err != nil {
			return err
		}
		plan = &resumePlan{bitmap: bm, forceSendFrom: forceSendFrom, totalChunks: total, verifiedChunk: verified}
	}
	v.s.mu.Lock()
	v.s.plan = plan
	v.s.mu.Unlock()
	return nil
}

// VerifC17Snap is the dispatch state of a sendFileState (used by the
// interleaving driver only to recognise steps that changed nothing).
type VerifC17Snap struct {
	NextChunk     uint32
	InFlight      int
	ScheduleDone  bool
	EndSent       bool
	VerifyPending bool
	ResendPending bool
	ResendChunk   uint32
	HasPlan       bool
	Skipped       uint32
}

func (v *VerifC17State) Snapshot() VerifC17Snap {
	s := v.s
	s.mu.Lock()
	defer s.mu.Unlock()
	sn := VerifC17Snap{NextChunk: s.nextChunk, InFlight: s.inFlight, ScheduleDone: s.scheduleDone, EndSent: s.endSent,
		VerifyPending: s.verifyPending, ResendPending: s.resendPending, ResendChunk: s.resendChunk, HasPlan: s.plan != nil}
	if s.plan != nil {
		sn.Skipped = s.plan.skippedChunks
	}
	return sn
}

// VerifC17StateFields lists the field names of sendFileState and resumePlan.
// The driver refuses to run (inconclusive) when they differ from the set the
// snapshot above was written for, so that a new dispatch field cannot be
// silently ignored by the stutter elimination.
func VerifC17StateFields() (state string, plan string) {
	names := func(t reflect.Type) string {
		var n []string
		for i := 0; i < t.NumField(); i++ {
			n = append(n, t.Field(i).Name)
		}
		sort.Strings(n)
		return strings.Join(n, ",")
	}
	return names(reflect.TypeOf((*sendFileState)(nil)).Elem()), names(reflect.TypeOf((*resumePlan)(nil)).Elem())
}
