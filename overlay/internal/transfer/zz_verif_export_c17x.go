//go:build verif

package transfer

import (
	"fmt"
	"reflect"
	"strings"
	"unsafe"
)

// Additions to the C17 export shims (see zz_verif_export_c17.go).
//
// VerifC17Snap names the dispatch fields of sendFileState the interleaving
// driver was written for. A change of /repo that adds a field to sendFileState
// or resumePlan must not blind the driver: ExtraState renders the values of
// all fields that are NOT in the given known lists, so that the driver can
// make them part of its node key and of its "did this step change anything"
// test without knowing them.

// ExtraState returns a deterministic rendering of every field of the wrapped
// sendFileState (and of its plan) whose name is not in knownState / knownPlan
// (comma separated, as VerifC17StateFields returns them). Scalars are rendered
// by value; pointers, channels, maps, slices, functions and interfaces by
// nil-ness (and length), because addresses differ between re-executions;
// structs and arrays field by field. Returns "" when there is no such field.
// The fields are read under the state's mutex like Snapshot does.
func (v *VerifC17State) ExtraState(knownState, knownPlan string) string {
	s := v.s
	s.mu.Lock()
	defer s.mu.Unlock()
	var b strings.Builder
	verifC17Extra(&b, reflect.ValueOf(s).Elem(), verifC17Set(knownState), "")
	if s.plan != nil {
		verifC17Extra(&b, reflect.ValueOf(s.plan).Elem(), verifC17Set(knownPlan), "plan.")
	}
	return b.String()
}

func verifC17Set(list string) map[string]bool {
	m := map[string]bool{}
	for _, n := range strings.Split(list, ",") {
		m[n] = true
	}
	return m
}

func verifC17Extra(b *strings.Builder, st reflect.Value, known map[string]bool, prefix string) {
	t := st.Type()
	for i := 0; i < t.NumField(); i++ {
		if known[t.Field(i).Name] {
			continue
		}
		f := st.Field(i)
		if !f.CanAddr() {
			continue
		}
		f = reflect.NewAt(f.Type(), unsafe.Pointer(f.UnsafeAddr())).Elem() // unexported fields: readable copy
		b.WriteString(prefix + t.Field(i).Name + "=")
		verifC17Render(b, f, 0)
		b.WriteString(";")
	}
}

func verifC17Render(b *strings.Builder, f reflect.Value, depth int) {
	switch f.Kind() {
	case reflect.Bool:
		fmt.Fprintf(b, "%v", f.Bool())
	case reflect.Int, reflect.Int8, reflect.Int16, reflect.Int32, reflect.Int64:
		fmt.Fprintf(b, "%d", f.Int())
	case reflect.Uint, reflect.Uint8, reflect.Uint16, reflect.Uint32, reflect.Uint64, reflect.Uintptr:
		fmt.Fprintf(b, "%d", f.Uint())
	case reflect.Float32, reflect.Float64:
		fmt.Fprintf(b, "%v", f.Float())
	case reflect.String:
		fmt.Fprintf(b, "%q", f.String())
	case reflect.Slice, reflect.Map:
		if f.IsNil() {
			b.WriteString("nil")
		} else {
			fmt.Fprintf(b, "len%d", f.Len())
		}
	case reflect.Chan, reflect.Func, reflect.Interface, reflect.Pointer, reflect.UnsafePointer:
		if f.IsNil() {
			b.WriteString("nil")
		} else {
			b.WriteString("set")
		}
	case reflect.Struct:
		if depth > 3 {
			b.WriteString("{...}")
			return
		}
		b.WriteString("{")
		for i := 0; i < f.NumField(); i++ {
			verifC17Render(b, f.Field(i), depth+1)
			b.WriteString(",")
		}
		b.WriteString("}")
	case reflect.Array:
		if depth > 3 || f.Len() > 64 {
			b.WriteString("[...]")
			return
		}
		b.WriteString("[")
		for i := 0; i < f.Len(); i++ {
			verifC17Render(b, f.Index(i), depth+1)
			b.WriteString(",")
		}
		b.WriteString("]")
	default:
		b.WriteString("?")
	}
}
