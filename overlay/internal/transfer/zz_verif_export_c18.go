//go:build verif

package transfer

import (
	"context"
	"hash/crc32"
	"os"
	"strings"

	"github.com/sheerbytes/sheerbytes/pkg/manifest"
)

// Export shims used by C18 (control encoding round trip) and C19 (chunk
// geometry). Every function only forwards to the unexported identifier of the
// code under test; no expression of /repo is copied here.

const (
	VerifC18TypeFileBegin      = controlTypeFileBegin
	VerifC18TypeCredit         = controlTypeCredit
	VerifC18TypeFileEnd        = controlTypeFileEnd
	VerifC18TypeFileDone       = controlTypeFileDone
	VerifC18TypeFileResumeInfo = controlTypeFileResumeInfo
	VerifC18TypeResumeRequest  = controlTypeResumeRequest
	VerifC18TypeCreditBatch    = controlTypeCreditBatch
	VerifC18TypeDataStreams    = controlTypeDataStreams
	VerifC18TypeEnd            = controlTypeEnd
	VerifC18MaxRelPathLength   = maxRelPathLength
)

func VerifC18WriteControlHeader(s Stream, m manifest.Manifest) error { return writeControlHeader(s, m) }
func VerifC18ReadControlHeader(s Stream) (manifest.Manifest, error)  { return readControlHeader(s) }
func VerifC18ReadControlMessage(s Stream) (byte, any, error)         { return readControlMessage(s) }
func VerifC18WriteFileBegin(s Stream, m FileBegin) error             { return writeFileBegin(s, m) }
func VerifC18WriteCredit(s Stream, m Credit) error                   { return writeCredit(s, m) }
func VerifC18WriteCreditBatch(s Stream, m CreditBatch) error         { return writeCreditBatch(s, m) }
func VerifC18WriteFileEnd(s Stream, m FileEnd) error                 { return writeFileEnd(s, m) }
func VerifC18WriteFileDone(s Stream, m FileDone) error               { return writeFileDone(s, m) }
func VerifC18WriteFileResumeInfo(s Stream, m FileResumeInfo) error   { return writeFileResumeInfo(s, m) }
func VerifC18WriteResumeRequest(s Stream, m ResumeRequest) error     { return writeResumeRequest(s, m) }
func VerifC18WriteDataStreams(s Stream, m DataStreams) error         { return writeDataStreams(s, m) }
func VerifC18WriteControlEnd(s Stream) error                         { return writeControlEnd(s) }

// ---- C19 ----

const (
	VerifC19MaxFileSize        = int64(maxFileSize)
	VerifC19DataChunkHeaderLen = dataChunkHeaderLen
	VerifC19EOFMagic           = eofMagic
)

// Sender-side helpers of the multi-stream protocol.
func VerifC19ChunkTotal(fileSize int64, chunkSize uint32) uint32 {
	return chunkTotal(fileSize, chunkSize)
}
func VerifC19ChunkSizeForIndex(fileSize int64, chunkSize uint32, idx uint32) uint32 {
	return chunkSizeForIndex(fileSize, chunkSize, idx)
}
func VerifC19FileKey(item manifest.FileItem) uint64   { return fileKeyForItem(item) }
func VerifC19SidecarID(item manifest.FileItem) string { return sidecarIdentifier(item) }
func VerifC19CRC32C(b []byte) uint32                  { return crc32.Checksum(b, crc32cTable) }

// Legacy single-stream chunk pipeline (whole file, no stripe, no resume).
func VerifC19LegacySendChunks(ctx context.Context, s Stream, relPath, filePath string, fileSize int64, chunkSize uint32) (uint32, error) {
	return sendFileChunksWindowed(ctx, s, relPath, filePath, fileSize, chunkSize, nil, nil, nil, 0, 0)
}

// VerifC19LegacyRecvChunks runs the legacy receiver; with sc != nil the chunk
// marks go to that sidecar exactly as in a resumable transfer.
func VerifC19LegacyRecvChunks(ctx context.Context, s Stream, relPath, filePath string, fileSize uint64, chunkSize uint32, sc *Sidecar) (uint32, error) {
	var rs *resumeState
	if sc != nil {
		rs = &resumeState{sidecar: sc}
	}
	return receiveFileChunksWindowed(ctx, s, relPath, filePath, fileSize, chunkSize, nil, nil, rs, 0, 0)
}

// VerifC19SidecarCountSet returns the number of chunks marked complete.
func VerifC19SidecarCountSet(sc *Sidecar) int {
	sc.mu.Lock()
	defer sc.mu.Unlock()
	if sc.bitmap == nil {
		return 0
	}
	return sc.bitmap.CountSet()
}

// VerifC19ForgetSidecar drops a sidecar from the process-wide flush registry
// (the receivers add every sidecar they open; aborted harness runs would
// otherwise keep them alive for the life of the process).
func VerifC19ForgetSidecars() {
	globalSidecarFlushRegistry.mu.Lock()
	globalSidecarFlushRegistry.active = nil
	globalSidecarFlushRegistry.mu.Unlock()
}

// VerifRetireSidecars models the end of a receiver process for every sidecar
// below dir: each is flushed once (what the signal handler's FlushAllFlushers
// does), dropped from the process-wide registry and frozen, so that goroutines
// a harness run left behind can neither mark nor flush it any more. In the
// real CLI one receiver process runs one transfer; without this an in-process
// harness that resumes into the same directory has two live Sidecar objects
// for one path, which no real execution has.
func VerifRetireSidecars(dir string) int {
	prefix := strings.TrimRight(dir, string(os.PathSeparator)) + string(os.PathSeparator)
	globalSidecarFlushRegistry.mu.Lock()
	var list []*Sidecar
	for sc := range globalSidecarFlushRegistry.active {
		if strings.HasPrefix(sc.Path, prefix) {
			list = append(list, sc)
			delete(globalSidecarFlushRegistry.active, sc)
		}
	}
	globalSidecarFlushRegistry.mu.Unlock()
	for _, sc := range list {
		_ = sc.Flush()
		sc.mu.Lock()
		sc.bitmap = nil
		sc.dirty = false
		sc.mu.Unlock()
	}
	return len(list)
}
