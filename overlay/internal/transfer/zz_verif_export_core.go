//go:build verif

package transfer

import (
	"encoding/json"
	"hash/crc32"

	"github.com/sheerbytes/sheerbytes/pkg/manifest"
)

// Export shims used by the core transfer checks (C02, C04–C07, C15).

const (
	VerifTypeFileBegin      = controlTypeFileBegin
	VerifTypeCredit         = controlTypeCredit
	VerifTypeFileEnd        = controlTypeFileEnd
	VerifTypeFileDone       = controlTypeFileDone
	VerifTypeFileResumeInfo = controlTypeFileResumeInfo
	VerifTypeResumeRequest  = controlTypeResumeRequest
	VerifTypeCreditBatch    = controlTypeCreditBatch
	VerifTypeDataStreams    = controlTypeDataStreams
	VerifTypeEnd            = controlTypeEnd
	VerifDataChunkHeaderLen = dataChunkHeaderLen
	VerifControlMagic       = controlMagic
)

func VerifCoreReadControlMessage(s Stream) (byte, any, error) { return readControlMessage(s) }
func VerifCoreReadControlHeader(s Stream) (manifest.Manifest, error) {
	return readControlHeader(s)
}
func VerifCoreWriteControlHeader(s Stream, m manifest.Manifest) error {
	return writeControlHeader(s, m)
}
func VerifCoreWriteFileBegin(s Stream, m FileBegin) error         { return writeFileBegin(s, m) }
func VerifCoreWriteFileEnd(s Stream, m FileEnd) error             { return writeFileEnd(s, m) }
func VerifCoreWriteFileDone(s Stream, m FileDone) error           { return writeFileDone(s, m) }
func VerifCoreWriteResumeRequest(s Stream, m ResumeRequest) error { return writeResumeRequest(s, m) }
func VerifCoreWriteFileResumeInfo(s Stream, m FileResumeInfo) error {
	return writeFileResumeInfo(s, m)
}
func VerifCoreWriteDataStreams(s Stream, m DataStreams) error { return writeDataStreams(s, m) }
func VerifCoreWriteControlEnd(s Stream) error                 { return writeControlEnd(s) }
func VerifCoreFileKey(item manifest.FileItem) uint64          { return fileKeyForItem(item) }
func VerifCoreSidecarID(item manifest.FileItem) string        { return sidecarIdentifier(item) }
func VerifCoreHashFileChunk(path string, idx uint32, cs uint32, size int64, alg byte) (uint64, error) {
	return hashFileChunk(path, idx, cs, size, alg)
}
func VerifCoreCRC32C(b []byte) uint32 { return crc32.Checksum(b, crc32cTable) }

// VerifManifestJSON marshals a manifest exactly like the wire header does.
func VerifManifestJSON(m manifest.Manifest) []byte {
	b, _ := json.Marshal(m)
	return b
}

// VerifCRC32IEEE is the checksum of the legacy single-file protocol.
func VerifCRC32IEEE(b []byte) uint32 { return crc32.ChecksumIEEE(b) }
