//go:build verif

package verifkit

import (
	"context"
	"net"
	"sync"
	"sync/atomic"
	"time"

	"github.com/sheerbytes/sheerbytes/internal/transfer"
)

// Fault describes one injected fault, triggered on the decorated side when the
// cumulative byte count of (stream ordinal, direction) reaches Offset.
// Stream ordinals count OpenStream/AcceptStream calls on the decorated Conn
// (0 = control stream).
type Fault struct {
	Stream int    `json:"stream"`
	Dir    string `json:"dir"`    // "w" bytes written by the decorated side, "r" bytes read by it
	Offset int64  `json:"offset"` // fire just before byte #Offset moves
	Kind   string `json:"kind"`   // action name, interpreted by Deco.Action; "flip" is built in
	Bit    uint   `json:"bit,omitempty"`
	// Kind "frameflip": flip one bit of data-stream frame number Frame (0-based,
	// in write order on that stream), in Field "payload" or "crc", byte Offset
	// within that field. Frames are key(8) index(4) len(4) crc(4) payload(len).
	Frame int    `json:"frame,omitempty"`
	Field string `json:"field,omitempty"`
}

// Deco decorates a transfer.Conn: counts bytes per stream and direction,
// optionally records stream bytes, and fires one Fault.
type Deco struct {
	Inner  transfer.Conn
	Fault  *Fault
	Action func(kind string) // performs the fault (close, cancel, ...); called once
	Record bool              // record all bytes of stream 0 (control) in both directions
	RecordAll bool           // record all streams
	// OnIO, if set, is called before every Read/Write of n bytes (may sleep).
	OnIO func(ordinal int, dir string, n int)

	mu      sync.Mutex
	streams []*DecoStream
	fired   atomic.Bool
	lastIO  atomic.Int64 // unix nanos of the last byte moved
	total   atomic.Int64
}

type dlSetter interface {
	SetReadDeadline(time.Time) error
	SetWriteDeadline(time.Time) error
	SetDeadline(time.Time) error
}
type exporter interface {
	ExportKeyingMaterial(label string, context []byte, length int) ([]byte, error)
}

// Wrap returns the decorated Conn, preserving the optional interfaces
// (ExportKeyingMaterial) of the inner one.
func (d *Deco) Wrap() transfer.Conn {
	d.lastIO.Store(time.Now().UnixNano())
	if _, ok := d.Inner.(exporter); ok {
		return &decoConnExp{decoConn{d}}
	}
	return &decoConn{d}
}

// Fired reports whether the fault fired.
func (d *Deco) Fired() bool { return d.fired.Load() }

// IdleFor reports how long no byte has moved.
func (d *Deco) IdleFor() time.Duration {
	return time.Since(time.Unix(0, d.lastIO.Load()))
}
func (d *Deco) TotalBytes() int64 { return d.total.Load() }

// StreamStat is the per-stream observation.
type StreamStat struct {
	Ordinal int    `json:"ordinal"`
	ID      uint64 `json:"id"`
	W       int64  `json:"w"`
	R       int64  `json:"r"`
}

func (d *Deco) Stats() []StreamStat {
	d.mu.Lock()
	defer d.mu.Unlock()
	out := make([]StreamStat, len(d.streams))
	for i, s := range d.streams {
		out[i] = StreamStat{Ordinal: i, ID: s.id, W: s.w.Load(), R: s.r.Load()}
	}
	return out
}

// Recorded returns the recorded bytes of stream ordinal in direction dir.
func (d *Deco) Recorded(ordinal int, dir string) []byte {
	d.mu.Lock()
	defer d.mu.Unlock()
	if ordinal >= len(d.streams) {
		return nil
	}
	s := d.streams[ordinal]
	s.recMu.Lock()
	defer s.recMu.Unlock()
	if dir == "w" {
		return append([]byte(nil), s.recW...)
	}
	return append([]byte(nil), s.recR...)
}

type decoConn struct{ d *Deco }
type decoConnExp struct{ decoConn }

func (c *decoConnExp) ExportKeyingMaterial(label string, ctx []byte, length int) ([]byte, error) {
	return c.d.Inner.(exporter).ExportKeyingMaterial(label, ctx, length)
}

func (c *decoConn) wrapStream(s transfer.Stream) transfer.Stream {
	d := c.d
	ds := &DecoStream{d: d, inner: s}
	if ider, ok := s.(transfer.StreamIDer); ok {
		ds.id = ider.StreamID()
		ds.hasID = true
	}
	d.mu.Lock()
	ds.ordinal = len(d.streams)
	d.streams = append(d.streams, ds)
	d.mu.Unlock()
	ds.rec = d.RecordAll || (d.Record && ds.ordinal == 0)
	if _, ok := s.(dlSetter); ok {
		return &decoStreamDL{ds}
	}
	return ds
}

func (c *decoConn) OpenStream(ctx context.Context) (transfer.Stream, error) {
	s, err := c.d.Inner.OpenStream(ctx)
	if err != nil {
		return nil, err
	}
	return c.wrapStream(s), nil
}
func (c *decoConn) AcceptStream(ctx context.Context) (transfer.Stream, error) {
	s, err := c.d.Inner.AcceptStream(ctx)
	if err != nil {
		return nil, err
	}
	return c.wrapStream(s), nil
}
func (c *decoConn) RemoteAddr() net.Addr { return c.d.Inner.RemoteAddr() }
func (c *decoConn) Close() error        { return c.d.Inner.Close() }

// DecoStream decorates one stream.
type DecoStream struct {
	d       *Deco
	inner   transfer.Stream
	ordinal int
	id      uint64
	hasID   bool
	w, r    atomic.Int64
	rec     bool
	fPos    int // frame-aware flip state: position within the current frame
	fLen    int
	fNo     int
	fHdr    [20]byte
	recMu   sync.Mutex
	recW    []byte
	recR    []byte
}

type decoStreamDL struct{ *DecoStream }

func (s *decoStreamDL) SetReadDeadline(t time.Time) error  { return s.inner.(dlSetter).SetReadDeadline(t) }
func (s *decoStreamDL) SetWriteDeadline(t time.Time) error { return s.inner.(dlSetter).SetWriteDeadline(t) }
func (s *decoStreamDL) SetDeadline(t time.Time) error      { return s.inner.(dlSetter).SetDeadline(t) }

func (s *DecoStream) StreamID() uint64 { return s.id }
func (s *DecoStream) Close() error     { return s.inner.Close() }

// faultAt returns the number of bytes (<= n) that may move before the fault
// fires, and whether the fault concerns this call.
func (s *DecoStream) faultAt(dir string, cur int64, n int) (int, bool) {
	f := s.d.Fault
	if f == nil || s.d.fired.Load() || f.Stream != s.ordinal || f.Dir != dir {
		return n, false
	}
	if f.Offset < cur || f.Offset >= cur+int64(n) {
		if f.Offset == cur+int64(n) && n == 0 {
			return 0, true
		}
		return n, false
	}
	return int(f.Offset - cur), true
}

func (s *DecoStream) fire() {
	if s.d.fired.CompareAndSwap(false, true) {
		if s.d.Action != nil {
			s.d.Action(s.d.Fault.Kind)
		}
	}
}

// frameFlip walks the written bytes through the data-frame state machine and
// flips the configured bit when the target byte passes. Returns a copy of p
// when it modified it.
func (s *DecoStream) frameFlip(p []byte) []byte {
	f := s.d.Fault
	out := p
	for i := 0; i < len(p); i++ {
		inHeader := s.fPos < 20
		if inHeader {
			s.fHdr[s.fPos] = p[i]
		}
		hit := false
		if s.fNo == f.Frame && !s.d.fired.Load() {
			if f.Field == "crc" && inHeader && s.fPos == 16+int(f.Offset%4) {
				hit = true
			}
			if f.Field == "payload" && !inHeader && int64(s.fPos-20) == f.Offset {
				hit = true
			}
		}
		if hit {
			if &out[0] == &p[0] {
				out = append([]byte(nil), p...)
			}
			out[i] ^= 1 << (f.Bit % 8)
			s.d.fired.Store(true)
		}
		s.fPos++
		if s.fPos == 20 {
			s.fLen = int(uint32(s.fHdr[12])<<24 | uint32(s.fHdr[13])<<16 | uint32(s.fHdr[14])<<8 | uint32(s.fHdr[15]))
		}
		if s.fPos >= 20 && s.fPos == 20+s.fLen {
			s.fPos = 0
			s.fNo++
		}
	}
	return out
}

func (s *DecoStream) Write(p []byte) (int, error) {
	if s.d.OnIO != nil {
		s.d.OnIO(s.ordinal, "w", len(p))
	}
	if f := s.d.Fault; f != nil && f.Kind == "frameflip" && f.Stream == s.ordinal && len(p) > 0 {
		q := s.frameFlip(p)
		n, err := s.inner.Write(q)
		s.account("w", q[:n])
		return n, err
	}
	cur := s.w.Load()
	k, hit := s.faultAt("w", cur, len(p))
	if !hit {
		n, err := s.inner.Write(p)
		s.account("w", p[:n])
		return n, err
	}
	if s.d.Fault.Kind == "flip" {
		q := append([]byte(nil), p...)
		q[k] ^= 1 << (s.d.Fault.Bit % 8)
		s.d.fired.Store(true)
		n, err := s.inner.Write(q)
		s.account("w", q[:n])
		return n, err
	}
	written := 0
	if k > 0 {
		n, err := s.inner.Write(p[:k])
		s.account("w", p[:n])
		written = n
		if err != nil {
			return written, err
		}
	}
	s.fire()
	n, err := s.inner.Write(p[written:])
	s.account("w", p[written:written+n])
	return written + n, err
}

func (s *DecoStream) Read(p []byte) (int, error) {
	if s.d.OnIO != nil {
		s.d.OnIO(s.ordinal, "r", len(p))
	}
	cur := s.r.Load()
	f := s.d.Fault
	if f != nil && !s.d.fired.Load() && f.Stream == s.ordinal && f.Dir == "r" && f.Kind != "flip" {
		// limit the read so that it ends exactly at the fault offset
		if f.Offset == cur {
			s.fire()
		} else if f.Offset > cur && f.Offset < cur+int64(len(p)) {
			p = p[:f.Offset-cur]
		}
	}
	n, err := s.inner.Read(p)
	if n > 0 && f != nil && f.Kind == "flip" && f.Dir == "r" && f.Stream == s.ordinal && !s.d.fired.Load() &&
		f.Offset >= cur && f.Offset < cur+int64(n) {
		p[f.Offset-cur] ^= 1 << (f.Bit % 8)
		s.d.fired.Store(true)
	}
	s.account("r", p[:n])
	return n, err
}

func (s *DecoStream) account(dir string, b []byte) {
	if len(b) == 0 {
		return
	}
	if dir == "w" {
		s.w.Add(int64(len(b)))
	} else {
		s.r.Add(int64(len(b)))
	}
	s.d.total.Add(int64(len(b)))
	s.d.lastIO.Store(time.Now().UnixNano())
	if s.rec {
		s.recMu.Lock()
		if dir == "w" {
			s.recW = append(s.recW, b...)
		} else {
			s.recR = append(s.recR, b...)
		}
		s.recMu.Unlock()
	}
}
