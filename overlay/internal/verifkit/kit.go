//go:build verif

// Package verifkit is the harness library of the runtime-monitoring machinery
// in /verif. It is overlaid onto /repo at build time (never committed there).
package verifkit

import (
	"encoding/json"
	"fmt"
	"os"
	"sort"
	"sync"
	"time"
)

// Rng is a small deterministic PRNG (splitmix64).
type Rng struct{ s uint64 }

// NewRng seeds a generator; the seed is mixed first so that nearby seeds give
// unrelated streams.
func NewRng(seed uint64) *Rng { return &Rng{s: Mix(seed ^ 0x1234567)} }

func Mix(x uint64) uint64 {
	x += 0x9e3779b97f4a7c15
	x = (x ^ (x >> 30)) * 0xbf58476d1ce4e5b9
	x = (x ^ (x >> 27)) * 0x94d049bb133111eb
	return x ^ (x >> 31)
}

func (r *Rng) U64() uint64 {
	r.s += 0x9e3779b97f4a7c15
	z := r.s
	z = (z ^ (z >> 30)) * 0xbf58476d1ce4e5b9
	z = (z ^ (z >> 27)) * 0x94d049bb133111eb
	return z ^ (z >> 31)
}
func (r *Rng) Intn(n int) int {
	if n <= 0 {
		return 0
	}
	return int(r.U64() % uint64(n))
}
func (r *Rng) Bool() bool { return r.U64()&1 == 1 }
func (r *Rng) Bytes(n int) []byte {
	b := make([]byte, n)
	for i := 0; i < n; i += 8 {
		v := r.U64()
		for j := 0; j < 8 && i+j < n; j++ {
			b[i+j] = byte(v >> (8 * j))
		}
	}
	return b
}
func (r *Rng) Fork() *Rng { return NewRng(r.U64()) }

// HashStr hashes a string to uint64 (FNV-1a then mixed).
func HashStr(s string) uint64 {
	h := uint64(14695981039346656037)
	for i := 0; i < len(s); i++ {
		h ^= uint64(s[i])
		h *= 1099511628211
	}
	return Mix(h)
}

// Violation is one refuting execution.
type Violation struct {
	Key    string `json:"key"`
	What   string `json:"what"`
	Case   any    `json:"case,omitempty"`
	Detail any    `json:"detail,omitempty"`
}

// Report is what one harness invocation hands to the orchestrator.
type Report struct {
	Property     string         `json:"property"`
	Stage        string         `json:"stage"`
	Tier         string         `json:"tier"`
	Seed         uint64         `json:"seed"`
	Evaluations  int            `json:"evaluations"`
	DistinctKeys []string       `json:"distinct_keys"`
	Rule         string         `json:"rule"`
	Samples      []any          `json:"samples"`
	Violations   []Violation    `json:"violations"`
	Inconclusive []string       `json:"inconclusive"`
	NoVerdict    int            `json:"no_verdict"`
	Extra        map[string]any `json:"extra"`
	MinMet       bool           `json:"min_met"`
	MinNote      string         `json:"min_note"`
	WallS        float64        `json:"wall_s"`

	mu       sync.Mutex
	distinct map[string]struct{}
	counters map[string]int
	start    time.Time
	maxViol  int
}

func NewReport(prop, stage, tier string, seed uint64) *Report {
	return &Report{Property: prop, Stage: stage, Tier: tier, Seed: seed,
		Extra: map[string]any{}, distinct: map[string]struct{}{}, counters: map[string]int{},
		start: time.Now(), MinMet: true, maxViol: 40}
}

func (r *Report) Eval() { r.mu.Lock(); r.Evaluations++; r.mu.Unlock() }
func (r *Report) EvalN(n int) { r.mu.Lock(); r.Evaluations += n; r.mu.Unlock() }

// Distinct records a distinct non-trivial case key.
func (r *Report) Distinct(key string) {
	r.mu.Lock()
	r.distinct[key] = struct{}{}
	r.mu.Unlock()
}
func (r *Report) DistinctCount() int { r.mu.Lock(); defer r.mu.Unlock(); return len(r.distinct) }

func (r *Report) Sample(s any) {
	r.mu.Lock()
	if len(r.Samples) < 8 {
		r.Samples = append(r.Samples, s)
	}
	r.mu.Unlock()
}

// Count bumps a named counter reported under extra.counters.
func (r *Report) Count(name string) { r.CountN(name, 1) }
func (r *Report) CountN(name string, n int) {
	r.mu.Lock()
	r.counters[name] += n
	r.mu.Unlock()
}
func (r *Report) Counter(name string) int { r.mu.Lock(); defer r.mu.Unlock(); return r.counters[name] }

// Violate records a violation. At most maxViol per key-class are kept in full.
func (r *Report) Violate(key, what string, cs any, detail any) {
	r.mu.Lock()
	defer r.mu.Unlock()
	r.counters["violation:"+key]++
	n := 0
	for _, v := range r.Violations {
		if v.Key == key {
			n++
		}
	}
	if n >= 3 || len(r.Violations) >= r.maxViol {
		return
	}
	r.Violations = append(r.Violations, Violation{Key: key, What: what, Case: cs, Detail: detail})
}

// ViolationCount returns the number of violations recorded so far (all keys).
func (r *Report) ViolationCount() int {
	r.mu.Lock()
	defer r.mu.Unlock()
	n := 0
	for k, v := range r.counters {
		if len(k) > 10 && k[:10] == "violation:" {
			n += v
		}
	}
	return n
}

func (r *Report) Inconcl(what string) {
	r.mu.Lock()
	if len(r.Inconclusive) < 50 {
		r.Inconclusive = append(r.Inconclusive, what)
	}
	r.counters["inconclusive"]++
	r.mu.Unlock()
}
func (r *Report) NoVerd() { r.mu.Lock(); r.NoVerdict++; r.mu.Unlock() }

// Require marks the minimum-observation requirement as failed.
func (r *Report) Require(ok bool, note string) {
	if ok {
		return
	}
	r.mu.Lock()
	r.MinMet = false
	if r.MinNote != "" {
		r.MinNote += "; "
	}
	r.MinNote += note
	r.mu.Unlock()
}

func (r *Report) SetExtra(k string, v any) { r.mu.Lock(); r.Extra[k] = v; r.mu.Unlock() }

// Write finalises and writes the report as JSON.
func (r *Report) Write(path string) error {
	r.mu.Lock()
	defer r.mu.Unlock()
	r.DistinctKeys = make([]string, 0, len(r.distinct))
	for k := range r.distinct {
		r.DistinctKeys = append(r.DistinctKeys, k)
	}
	sort.Strings(r.DistinctKeys)
	r.Extra["counters"] = r.counters
	r.WallS = time.Since(r.start).Seconds()
	if r.Samples == nil {
		r.Samples = []any{}
	}
	if r.Violations == nil {
		r.Violations = []Violation{}
	}
	if r.Inconclusive == nil {
		r.Inconclusive = []string{}
	}
	data, err := json.MarshalIndent(r, "", " ")
	if err != nil {
		return err
	}
	tmp := path + ".tmp"
	if err := os.WriteFile(tmp, data, 0644); err != nil {
		return err
	}
	return os.Rename(tmp, path)
}

// Logf prints progress to stderr.
func Logf(format string, a ...any) {
	fmt.Fprintf(os.Stderr, "[harness] "+format+"\n", a...)
}

// ParallelDo runs fn(i) for i in [0,n) on w workers.
func ParallelDo(n, w int, fn func(i int)) {
	if w < 1 {
		w = 1
	}
	var wg sync.WaitGroup
	ch := make(chan int)
	for k := 0; k < w; k++ {
		wg.Add(1)
		go func() {
			defer wg.Done()
			for i := range ch {
				fn(i)
			}
		}()
	}
	for i := 0; i < n; i++ {
		ch <- i
	}
	close(ch)
	wg.Wait()
}
