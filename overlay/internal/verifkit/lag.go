//go:build verif

package verifkit

import (
	"context"
	"io"
	"sync"
	"time"

	"github.com/sheerbytes/sheerbytes/internal/transfer"
)

// LagConn decorates the opening side's transfer.Conn with one-way delivery
// delays per stream (a link with a round-trip time, whose streams may lag
// behind each other). Bytes stay in order on every stream; nothing is lost.
// Stream indexes count OpenStream calls (0 = control stream).
type LagConn struct {
	transfer.Conn
	// Out: delay of bytes written to stream idx at stream offset off.
	Out func(idx int, off int64) time.Duration
	// In: delay of bytes read from stream idx.
	In func(idx int) time.Duration

	mu sync.Mutex
	n  int
}

func (c *LagConn) OpenStream(ctx context.Context) (transfer.Stream, error) {
	s, err := c.Conn.OpenStream(ctx)
	if err != nil {
		return nil, err
	}
	c.mu.Lock()
	idx := c.n
	c.n++
	c.mu.Unlock()
	ls := &lagStream{under: s, idx: idx, c: c, outCh: make(chan lagItem, 1<<14), inCh: make(chan lagItem, 1<<14)}
	go ls.pumpOut()
	return ls, nil
}

type lagItem struct {
	at    time.Time
	data  []byte
	err   error
	close bool
}

type lagStream struct {
	under transfer.Stream
	idx   int
	c     *LagConn

	outMu  sync.Mutex
	outCh  chan lagItem
	outOff int64
	lastAt time.Time
	closed bool
	outErr error

	inOnce sync.Once
	inCh   chan lagItem
	inRest []byte
	inErr  error
}

func (s *lagStream) StreamID() uint64 {
	if x, ok := s.under.(transfer.StreamIDer); ok {
		return x.StreamID()
	}
	return uint64(s.idx)
}

func lagSleepUntil(at time.Time) {
	if d := time.Until(at); d > 0 {
		time.Sleep(d)
	}
}

func (s *lagStream) pumpOut() {
	for it := range s.outCh {
		lagSleepUntil(it.at)
		if it.close {
			_ = s.under.Close()
			return
		}
		if _, err := s.under.Write(it.data); err != nil {
			s.outMu.Lock()
			s.outErr = err
			s.outMu.Unlock()
			return
		}
	}
}

func (s *lagStream) Write(p []byte) (int, error) {
	s.outMu.Lock()
	defer s.outMu.Unlock()
	if s.closed {
		return 0, io.ErrClosedPipe
	}
	if s.outErr != nil {
		return 0, s.outErr
	}
	d := time.Duration(0)
	if s.c.Out != nil {
		d = s.c.Out(s.idx, s.outOff)
	}
	at := time.Now().Add(d)
	if at.Before(s.lastAt) {
		at = s.lastAt // delivery stays in order
	}
	s.lastAt = at
	s.outOff += int64(len(p))
	s.outCh <- lagItem{at: at, data: append([]byte(nil), p...)}
	return len(p), nil
}

func (s *lagStream) Close() error {
	s.outMu.Lock()
	defer s.outMu.Unlock()
	if s.closed {
		return nil
	}
	s.closed = true
	at := s.lastAt
	if at.IsZero() {
		at = time.Now()
	}
	s.outCh <- lagItem{at: at, close: true}
	close(s.outCh)
	return nil
}

func (s *lagStream) pumpIn() {
	for {
		buf := make([]byte, 4096)
		n, err := s.under.Read(buf)
		d := time.Duration(0)
		if s.c.In != nil {
			d = s.c.In(s.idx)
		}
		at := time.Now().Add(d)
		if n > 0 {
			s.inCh <- lagItem{at: at, data: buf[:n]}
		}
		if err != nil {
			s.inCh <- lagItem{at: at, err: err}
			return
		}
	}
}

func (s *lagStream) Read(p []byte) (int, error) {
	s.inOnce.Do(func() { go s.pumpIn() })
	if len(s.inRest) == 0 {
		if s.inErr != nil {
			return 0, s.inErr
		}
		it := <-s.inCh
		lagSleepUntil(it.at)
		if it.err != nil {
			s.inErr = it.err
			return 0, it.err
		}
		s.inRest = it.data
	}
	n := copy(p, s.inRest)
	s.inRest = s.inRest[n:]
	return n, nil
}
