//go:build verif

package verifkit

import (
	"bytes"
	"io"
)

// MemStream is an in-memory transfer.Stream: reads come from In, writes go to
// Out. Reading past the end of In returns io.EOF (the input has ended).
type MemStream struct {
	In  *bytes.Reader
	Out bytes.Buffer
	ID  uint64
}

func NewMemStream(in []byte) *MemStream { return &MemStream{In: bytes.NewReader(in)} }

func (m *MemStream) Read(p []byte) (int, error) {
	if m.In == nil {
		return 0, io.EOF
	}
	return m.In.Read(p)
}
func (m *MemStream) Write(p []byte) (int, error) { return m.Out.Write(p) }
func (m *MemStream) Close() error                { return nil }
func (m *MemStream) StreamID() uint64            { return m.ID }

// Remaining returns the number of unread input bytes.
func (m *MemStream) Remaining() int {
	if m.In == nil {
		return 0
	}
	return m.In.Len()
}
